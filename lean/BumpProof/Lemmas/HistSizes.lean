/-
  Lemmas/HistSizes.lean — the clause of C10 that is not part of `Arena.Hist.Inv`: "each later chunk
  is strictly larger than its predecessor" (`Arena.SizesIncreasing`) is preserved by every operation
  of the arena model (`sizes_stepCore`).

  Position-only functions keep the list of chunk sizes (`SzSame`, structural); the allocation slow
  path appends at most one chunk of at least twice the size of the last one (`SlowPost`, from C12).
-/
import BumpProof.Lemmas.HistOpsD
set_option linter.unusedSimpArgs false
set_option linter.unusedVariables false
namespace Arena.Hist
open Rs
variable {cfg : Cfg}

/-! ## transfer lemmas -/

/-- ghost updates do not touch the chunk list -/
theorem sizes_congr {s s' : State} (hch : s'.chunks = s.chunks) (hsz : SizesIncreasing s) : SizesIncreasing s' :=
  fun i a b ha hb => hsz i a b (hch ▸ ha) (hch ▸ hb)

/-- position / byte updates keep the sizes -/
theorem sizes_of_shape {s s' : State} (hsh : SameShape s s') (hsz : SizesIncreasing s) : SizesIncreasing s' :=
  hsh.sizesIncreasing hsz

/-- a list of at most one chunk is increasing -/
theorem sizes_short {s : State} (h : s.chunks.length ≤ 1) : SizesIncreasing s := by
  intro i a b ha hb
  have := (List.getElem?_eq_some_iff.1 hb).1
  omega

/-- `s'` has the same list of chunk sizes as `s` -/
def SzSame (s s' : State) : Prop := s'.chunks.map (·.size) = s.chunks.map (·.size)

theorem SzSame.refl (s : State) : SzSame s s := rfl

theorem SzSame.trans {a b c : State} (h1 : SzSame a b) (h2 : SzSame b c) : SzSame a c := Eq.trans h2 h1

theorem SzSame.of_chunks {s s' : State} (h : s'.chunks = s.chunks) : SzSame s s' := by unfold SzSame; rw [h]

theorem SzSame.of_shape {s s' : State} (h : SameShape s s') : SzSame s s' := Arena.sizes_of_shape h

theorem SzSame.of_shapeOf {s s' : State} (h : Mem.shapeOf s' = Mem.shapeOf s) : SzSame s s' := by
  have := congrArg (List.map (fun x : Nat × Nat × Nat => x.2.1)) h
  simp only [Mem.shapeOf, List.map_map] at this
  exact this

theorem SzSame.of_memOf {s s' : State} (h : Mem.memOf s' = Mem.memOf s) : SzSame s s' :=
  SzSame.of_shapeOf (Mem.shapeOf_of_memOf h)

theorem SzSame.of_mem {s s' : State} (h : Mem.ShapeSame s s') : SzSame s s' := SzSame.of_shapeOf h.1

theorem SzSame.sizes {s s' : State} (h : SzSame s s') (hsz : SizesIncreasing s) : SizesIncreasing s' := by
  intro i a b ha hb
  have h1 : (s'.chunks.map (·.size))[i]? = some a.size := by rw [List.getElem?_map, ha]; rfl
  have h2 : (s'.chunks.map (·.size))[i+1]? = some b.size := by rw [List.getElem?_map, hb]; rfl
  rw [h, List.getElem?_map] at h1 h2
  cases ha' : s.chunks[i]? with
  | none => rw [ha'] at h1; cases h1
  | some a' =>
    cases hb' : s.chunks[i+1]? with
    | none => rw [hb'] at h2; cases h2
    | some b' =>
      rw [ha'] at h1; rw [hb'] at h2
      simp only [Option.map_some, Option.some.injEq] at h1 h2
      have := hsz i a' b' ha' hb'
      omega

/-- appending a chunk that is larger than the last one -/
theorem sizes_append {s s' : State} {c : Chunk} (hch : s'.chunks = s.chunks ++ [c])
    (hlast : ∀ last, s.chunks.getLast? = some last → last.size < c.size) (hsz : SizesIncreasing s) :
    SizesIncreasing s' := by
  intro i a b ha hb
  rw [hch] at ha hb
  by_cases hlt : i + 1 < s.chunks.length
  · rw [List.getElem?_append_left (by omega)] at ha
    rw [List.getElem?_append_left hlt] at hb
    exact hsz i a b ha hb
  · have hlen := (List.getElem?_eq_some_iff.1 hb).1
    simp only [List.length_append, List.length_cons, List.length_nil] at hlen
    have hi1 : i + 1 = s.chunks.length := by omega
    rw [List.getElem?_append_left (by omega)] at ha
    rw [List.getElem?_append_right (by omega), hi1, Nat.sub_self] at hb
    simp only [List.getElem?_cons_zero, Option.some.injEq] at hb
    subst hb
    apply hlast a
    rw [List.getLast?_eq_getElem?, ← hi1]
    exact ha

/-! ## structural facts about the functions that only move a position or write bytes -/

theorem writeRange_sz {s s' : State} {lo hi : Nat} {f : Nat → UInt8} (h : writeRange cfg s lo hi f = .ok s') :
    SzSame s s' := SzSame.of_shapeOf (Mem.writeRange_shape h)

theorem copyBytes_sz {s s' : State} {src dst len : Nat} {no : Bool} (h : copyBytes cfg s src dst len no = .ok s') :
    SzSame s s' := SzSame.of_shapeOf (Mem.copyBytes_shape h)

theorem setCurPos_sz (s : State) (p : Nat) : SzSame s (setCurPos s p) := SzSame.of_shape (setCurPos_shape s p)

theorem zero_sz {s1 s2 : State} {z : Bool} {p n : Nat}
    (hz : (if z then zeroRange cfg s1 p n else pure s1) = .ok s2) : SzSame s1 s2 :=
  SzSame.of_shape (zero_or_id_onlyData hz).2.2

theorem resetTo_sz {s s' : State} {cp : Checkpoint} (h : resetTo cfg s cp = .ok s') : SzSame s s' :=
  SzSame.of_memOf (Mem.resetTo_memOf h)

theorem alignTo_sz {s s' : State} {n : Nat} (h : alignTo cfg s n = .ok s') : SzSame s s' :=
  SzSame.of_memOf (Mem.alignTo_memOf h)

theorem alignGuardDrop_sz {s s' : State} {n : Nat} (h : alignGuardDrop cfg s n = .ok s') : SzSame s s' :=
  SzSame.of_memOf (Mem.alignGuardDrop_memOf h)

theorem alignChunkAt_sz {s s' : State} {n : Nat} {st : Cur} (h : alignChunkAt cfg s n st = .ok s') : SzSame s s' :=
  SzSame.of_memOf (Mem.alignChunkAt_memOf h)

theorem deallocate_sz {s s' : State} {ptr size : Nat} (h : deallocate cfg s ptr size = .ok s') : SzSame s s' :=
  SzSame.of_memOf (Mem.deallocate_memOf h)

theorem deallocAssumeLast_sz {s s' : State} {ptr size : Nat} (h : deallocAssumeLast cfg s ptr size = .ok s') :
    SzSame s s' := SzSame.of_memOf (Mem.deallocAssumeLast_memOf h)

theorem tryCur_sz {k : Kind} {s s' : State} {L : Layout} {hh : Hints} {v : Nat × Nat}
    (h : tryCur cfg k s L hh = .ok (some (v, s'))) : SzSame s s' := SzSame.of_mem (Mem.tryCur_shapeSame h)

theorem shrinkSlice_sz {s s' : State} {ptr oldSize newSize ealign : Nat} {r : Option Nat}
    (h : shrinkSlice cfg s ptr oldSize newSize ealign = .ok (s', r)) : SzSame s s' :=
  SzSame.of_mem (Mem.shrinkSlice_shapeSame h)

theorem allocatePrepared_sz {s s' : State} {size rstart rend addr : Nat} {rev : Bool}
    (h : allocatePrepared cfg s size rstart rend rev = .ok (s', addr)) : SzSame s s' :=
  SzSame.of_mem (Mem.allocatePrepared_shapeSame h)

theorem allocatePreparedSlice_sz {s s' : State} {ptr len cap esize ealign addr : Nat} {rev : Bool}
    (h : allocatePreparedSlice cfg s ptr len cap esize ealign rev = .ok (s', addr)) : SzSame s s' :=
  SzSame.of_mem (Mem.allocatePreparedSlice_shapeSame h)

theorem shrinkSlice_sizes {s s' : State} {ptr oldSize newSize ealign : Nat} {r : Option Nat}
    (h : shrinkSlice cfg s ptr oldSize newSize ealign = .ok (s', r)) (hsz : SizesIncreasing s) : SizesIncreasing s' :=
  (SzSame.of_mem (Mem.shrinkSlice_shapeSame h)).sizes hsz

theorem allocatePrepared_sizes {s s' : State} {size rstart rend addr : Nat} {rev : Bool}
    (h : allocatePrepared cfg s size rstart rend rev = .ok (s', addr)) (hsz : SizesIncreasing s) : SizesIncreasing s' :=
  (SzSame.of_mem (Mem.allocatePrepared_shapeSame h)).sizes hsz

theorem allocatePreparedSlice_sizes {s s' : State} {ptr len cap esize ealign addr : Nat} {rev : Bool}
    (h : allocatePreparedSlice cfg s ptr len cap esize ealign rev = .ok (s', addr)) (hsz : SizesIncreasing s) :
    SizesIncreasing s' :=
  (SzSame.of_mem (Mem.allocatePreparedSlice_shapeSame h)).sizes hsz

/-! ## the allocation paths -/

/-- what the size argument needs about a state: geometry, admissible pending responses, no chunks while
    unallocated, increasing sizes -/
structure SzInv (cfg : Cfg) (s : State) : Prop where
  geom : GeomInv cfg s
  resps : RespsOK cfg s
  unalloc : UnallocEmpty s
  sizes : SizesIncreasing s

theorem SzInv.ofSlow {α : Type} (hc : CfgOK cfg) {L : Layout} {s s' : State} {r : Except AErr α}
    (i : SzInv cfg s) (p : SlowPost cfg L s s' r) : SzInv cfg s' :=
  ⟨p.inv, p.resps, p.unallocEmpty i.unalloc, p.sizesIncreasing hc i.geom i.sizes i.unalloc⟩

theorem SzInv.alloc (hc : CfgOK cfg) {s s' : State} (i : SzInv cfg s) {L : Layout} (hL : L.Valid)
    {r : Except AErr Nat} (he : alloc cfg s L = .ok (s', r)) : SzInv cfg s' :=
  i.ofSlow hc (C10.alloc_inv hc i.geom i.resps hL he)

theorem SzInv.allocGeneric (hc : CfgOK cfg) {s s' : State} (i : SzInv cfg s) {k : Kind} {L : Layout}
    {hints hSlow : Hints} (hL : L.Valid) (hh : hints.sma = true → L.align ∣ L.size)
    (hhs : hSlow.sma = true → L.align ∣ L.size) (hk : k = .range → L.align ∣ L.size)
    {r : Except AErr (Nat × Nat)} (he : allocGeneric cfg k s L hints hSlow = .ok (s', r)) : SzInv cfg s' :=
  i.ofSlow hc (C10.allocGeneric_inv hc i.geom i.resps k hL hh hhs hk he)

theorem SzInv.inAnotherChunk (hc : CfgOK cfg) {s s' : State} (i : SzInv cfg s) {k : Kind} {L : Layout}
    {hints : Hints} (hL : L.Valid) (hh : hints.sma = true → L.align ∣ L.size) (hk : k = .range → L.align ∣ L.size)
    {r : Except AErr (Nat × Nat)} (he : inAnotherChunk cfg k s L hints = .ok (s', r)) : SzInv cfg s' :=
  i.ofSlow hc (C10.inAnotherChunk_inv hc i.geom i.resps k hL hh hk he)

theorem Inv.szInv {g : GState} (h : Inv cfg g) (hr : RespsOK cfg g.s) (hsz : SizesIncreasing g.s) : SzInv cfg g.s :=
  ⟨h.geom, hr, h.unalloc, hsz⟩

/-! ## grow, shrink -/

theorem grow_sizes (hc : CfgOK cfg) {s : State} (i : SzInv cfg s) {ptr oldSize : Nat} {newL : Layout} (hL : newL.Valid)
    {s' : State} {r : Except AErr Nat} (he : grow cfg s ptr oldSize newL = .ok (s', r)) : SizesIncreasing s' := by
  have A : ∀ {s1 r1}, alloc cfg s newL = .ok (s1, r1) → SizesIncreasing s1 := fun e => (i.alloc hc hL e).sizes
  have B : ∀ {α : Type} {v : State × Except AErr (Nat × Nat)} {s1 : State} {x y : α},
      inAnotherChunk cfg .alloc s newL Hints.custom = .ok v → (v.fst, x) = (s1, y) → SizesIncreasing s1 := by
    intro α v s1 x y e hp
    obtain ⟨v1, v2⟩ := v
    cases hp
    exact (i.inAnotherChunk hc hL (custom_truthful newL) (fun hk => by cases hk) e).sizes
  unfold grow at he
  simp only [bind, Except.bind, pure, Except.pure, throw, throwThe, MonadExceptOf.throw] at he
  repeat' split at he
  all_goals first | (cases he; done) | (cases he)
  all_goals first
    | exact (setCurPos_sz _ _).sizes i.sizes
    | exact ((copyBytes_sz (by assumption)).trans (setCurPos_sz _ _)).sizes i.sizes
    | exact A (by assumption)
    | exact (copyBytes_sz (by assumption)).sizes (A (by assumption))
    | exact B (by assumption) (by assumption)
    | exact (copyBytes_sz (by assumption)).sizes (B (by assumption) (by assumption))

theorem shrinkWithoutShrink_sizes (hc : CfgOK cfg) {s : State} (i : SzInv cfg s) {ptr oldSize : Nat} {newL : Layout}
    (hL : newL.Valid) {s' : State} {r : Except AErr (Nat × Nat)}
    (he : shrinkWithoutShrink cfg s ptr oldSize newL = .ok (s', r)) : SizesIncreasing s' := by
  have A : ∀ {s1 r1}, alloc cfg s newL = .ok (s1, r1) → SizesIncreasing s1 := fun e => (i.alloc hc hL e).sizes
  unfold shrinkWithoutShrink at he
  simp only [bind, Except.bind, pure, Except.pure, throw, throwThe, MonadExceptOf.throw] at he
  repeat' split at he
  all_goals first | (cases he; done) | (cases he)
  all_goals first
    | exact i.sizes
    | exact A (by assumption)
    | exact (copyBytes_sz (by assumption)).sizes (A (by assumption))

/-- the state in which `shrink_unfit` retries through the slow path: the block was released, the fast path
    failed, the position was restored -/
theorem szInv_unfit_restore (hc : CfgOK cfg) {s : State} (i : SzInv cfg s) {ptr oldSize : Nat}
    (hbc : BlockInCur cfg s ptr oldSize) {s1 : State} (hd : deallocAssumeLast cfg s ptr oldSize = .ok s1) :
    SzInv cfg (setCurPos s1 (curPos cfg s)) := by
  have h := i.geom
  obtain ⟨s1', d1, d2, d3, d4, d5, d6, _⟩ := deallocAssumeLast_ok hc h hbc
  rw [d1] at hd; cases hd
  obtain ⟨j, c, hcur, hi, _⟩ := hbc
  obtain ⟨c0, hc0, hd0⟩ := h.cur j hcur
  rw [hi] at hc0; cases hc0
  have hw := h.chunks j c hi
  obtain ⟨c1, hi1, hsh⟩ := d3.getElem?' hi
  have hinv2 : GeomInv cfg (setCurPos s1 (curPos cfg s)) := by
    rw [curPos_chunk hcur hi]
    exact d2.setCurPos (d4.trans hcur) hi1 (by rw [shape_contentStart hsh]; exact hw.pos_ge)
      (by rw [shape_contentEnd hsh]; exact hw.pos_le) (by rw [d5]; exact hd0)
  refine ⟨hinv2, fun x hx => i.resps x (by rw [setCurPos_resps, d6] at hx; exact hx), ?_,
    (SzSame.of_shape (d3.trans (setCurPos_shape _ _))).sizes i.sizes⟩
  intro hx
  rw [setCurPos_cur, d4, hcur] at hx
  cases hx

theorem shrink_sizes (hc : CfgOK cfg) {s : State} (i : SzInv cfg s) {ptr oldSize : Nat} {newL : Layout} (hL : newL.Valid)
    (hb : isLast cfg s ptr oldSize = true → BlockInCur cfg s ptr oldSize)
    {s' : State} {r : Except AErr (Nat × Nat)} (he : shrink cfg s ptr oldSize newL = .ok (s', r)) :
    SizesIncreasing s' := by
  have A : ∀ {s1 r1}, alloc cfg s newL = .ok (s1, r1) → SizesIncreasing s1 := fun e => (i.alloc hc hL e).sizes
  have C : ∀ {s1 : State} {v : State × Except AErr (Nat × Nat)},
      (cfg.shrinks && isLast cfg s ptr oldSize) = true → deallocAssumeLast cfg s ptr oldSize = .ok s1 →
      inAnotherChunk cfg .alloc (setCurPos s1 (curPos cfg s)) newL Hints.custom = .ok v → SizesIncreasing v.1 := by
    intro s1 v hcond hd e
    simp only [Bool.and_eq_true] at hcond
    have i2 := szInv_unfit_restore hc i (hb hcond.2) hd
    exact (i2.inAnotherChunk hc (s' := v.1) (r := v.2) hL (custom_truthful newL) (fun hk => by cases hk) e).sizes
  unfold shrink at he
  simp only [bind, Except.bind, pure, Except.pure, throw, throwThe, MonadExceptOf.throw] at he
  repeat' split at he
  all_goals first | (cases he; done) | (cases he)
  all_goals first
    | exact i.sizes
    | exact (setCurPos_sz _ _).sizes i.sizes
    | exact ((copyBytes_sz (by assumption)).trans (setCurPos_sz _ _)).sizes i.sizes
    | exact A (by assumption)
    | exact (copyBytes_sz (by assumption)).sizes (A (by assumption))
    | exact (((deallocAssumeLast_sz (by assumption)).trans (tryCur_sz (by assumption))).trans
        (copyBytes_sz (by assumption))).sizes i.sizes
    | exact C (by assumption) (by assumption) (by assumption)
    | exact (copyBytes_sz (by assumption)).sizes (C (by assumption) (by assumption) (by assumption))
    | trace_state

/-! ## reserve -/

/-- `append_for`: the new chunk is at least twice the last one (less 16 bytes) -/
theorem appendFor_sizes (hc : CfgOK cfg) {s : State} (i : SzInv cfg s) {L : Layout} (hL : L.Valid)
    {s' : State} {r : Except AErr Nat} (he : appendFor cfg s L = .ok (s', r)) : SizesIncreasing s' := by
  obtain ⟨last, hlast, _⟩ := Ledger.appendFor_cases he
  rw [appendFor_eq hc hL hlast] at he
  cases hs : Spec.calcSize cfg.up cfg.hdr
      (Nat.max (Nat.max (Spec.hintFromCapacity cfg.up cfg.hdr L) (2 * last.size)) cfg.minChunk) with
  | none =>
    simp only [hs] at he
    cases he
    exact i.sizes
  | some size =>
    simp only [hs] at he
    obtain ⟨_, hsa, hsz, _, _⟩ := C12.calcSize_some hc.hdr hs
    cases r with
    | error e => exact sizes_congr ((newChunk_post hc i.geom i.resps hsz he).1.err e rfl) i.sizes
    | ok j =>
      obtain ⟨_, c, hch, hle, _⟩ := C10.newChunk_appended hc i.geom i.resps hsz he
      refine sizes_append hch ?_ i.sizes
      intro last' hl'
      rw [hlast] at hl'; cases hl'
      have hw : ChunkWF cfg last := i.geom.mem (List.mem_of_getLast? hlast)
      have h32 := hc.hdr.ge
      have hhl := hw.hdr_le
      have hcomm : Nat.max (Nat.max (Spec.hintFromCapacity cfg.up cfg.hdr L) (2 * last.size)) cfg.minChunk =
          Nat.max (Nat.max (Spec.hintFromCapacity cfg.up cfg.hdr L) cfg.minChunk) (2 * last.size) := by
        simp only [Lemmas.Size.natmax]; omega
      rw [hcomm] at hs
      have := C12.grow_ge hc.hdr hs
      omega

theorem newChunkForCapacity_sizes {s s' : State} (hch : s.chunks = []) {L : Layout} {r : Except AErr Nat}
    (he : newChunkForCapacity cfg s L = .ok (s', r)) : SizesIncreasing s' := by
  obtain ⟨_, _, f3, f4, _⟩ := Ledger.newChunkForCapacity_frame he
  apply sizes_short
  cases r with
  | error e => rw [(f3 e rfl).1, hch]; exact Nat.zero_le _
  | ok j =>
    obtain ⟨e1, e2⟩ := f4 j rfl
    rw [e2, e1, hch]; exact Nat.le_refl _

theorem newChunk_sizes {s s' : State} (hch : s.chunks = []) {size : Nat} {r : Except AErr Nat}
    (he : newChunk cfg s size = .ok (s', r)) : SizesIncreasing s' := by
  obtain ⟨_, _, f3, f4, _⟩ := Ledger.newChunk_frame he
  apply sizes_short
  cases r with
  | error e => rw [(f3 e rfl).1, hch]; exact Nat.zero_le _
  | ok j =>
    obtain ⟨e1, e2⟩ := f4 j rfl
    rw [e2, e1, hch]; exact Nat.le_refl _

theorem sizes_withCur {s : State} (c : Cur) (h : SizesIncreasing s) : SizesIncreasing { s with cur := c } := h

theorem layoutOk_of_not {n al : Nat} (h : ¬(!layoutOk n al) = true) : layoutOk n al = true := by simpa using h

theorem reserve_sizes (hc : CfgOK cfg) {s : State} (i : SzInv cfg s) {n : Nat}
    {s' : State} {r : Except AErr Unit} (he : reserve cfg s n = .ok (s', r)) : SizesIncreasing s' := by
  unfold reserve at he
  simp only [bind, Except.bind, pure, Except.pure, throw, throwThe, MonadExceptOf.throw] at he
  repeat' split at he
  all_goals first | (cases he; done) | (cases he)
  all_goals first
    | exact i.sizes
    | exact newChunkForCapacity_sizes (i.unalloc (by assumption)) (by assumption)
    | exact sizes_withCur _ (newChunkForCapacity_sizes (i.unalloc (by assumption)) (by assumption))
    | exact appendFor_sizes hc i (bytes_layout_valid (layoutOk_of_not (by assumption))) (by assumption)

theorem reserveDyn_sizes (hc : CfgOK cfg) {s : State} (i : SzInv cfg s) {n : Nat}
    {s' : State} {r : Except AErr Unit} (he : reserveDyn cfg s n = .ok (s', r)) : SizesIncreasing s' := by
  unfold reserveDyn at he
  simp only [bind, Except.bind, pure, Except.pure] at he
  split at he
  · cases he; exact i.sizes
  · rename_i hlo
    have hL := bytes_layout_valid (layoutOk_of_not hlo)
    split at he
    · cases he
    · rename_i y hy
      obtain ⟨y1, y2⟩ := y
      cases he
      exact (i.allocGeneric hc hL (custom_truthful _) (custom_truthful _) (fun _ => Nat.one_dvd _) hy).sizes

/-! ## the operations, one by one -/

theorem _root_.Arena.SizesIncreasing.congr {s s' : State} (hsz : SizesIncreasing s) (hch : s'.chunks = s.chunks) :
    SizesIncreasing s' := sizes_congr hch hsz

/-- `s0` → (ghost update) `s` → (position / byte update) `s1` → (ghost update) `s'` -/
theorem sizes_via {s0 s s1 s' : State} (hsz : SizesIncreasing s0) (h : SzSame s s1) (h0 : s.chunks = s0.chunks)
    (hch : s'.chunks = s1.chunks) : SizesIncreasing s' :=
  (h.sizes (hsz.congr h0)).congr hch

section ops
variable {g g' : GState} {out : Out}

theorem sizes_newUnallocated (hsz : SizesIncreasing g.s)
    (hs : stepCore cfg g .newUnallocated = .ok (g', out)) : SizesIncreasing g'.s := by
  unfold stepCore at hs
  split_ok hs with exact hsz

theorem sizes_abandonPrepared (hsz : SizesIncreasing g.s)
    (hs : stepCore cfg g .abandonPrepared = .ok (g', out)) : SizesIncreasing g'.s := by
  unfold stepCore at hs
  split_ok hs with exact hsz

theorem sizes_scopeEnter (hsz : SizesIncreasing g.s)
    (hs : stepCore cfg g .scopeEnter = .ok (g', out)) : SizesIncreasing g'.s := by
  unfold stepCore at hs
  split_ok hs with exact hsz

theorem sizes_checkpoint {k : Nat} (hsz : SizesIncreasing g.s)
    (hs : stepCore cfg g (.checkpoint k) = .ok (g', out)) : SizesIncreasing g'.s := by
  unfold stepCore at hs
  split_ok hs with exact hsz

theorem sizes_claim (hsz : SizesIncreasing g.s)
    (hs : stepCore cfg g .claim = .ok (g', out)) : SizesIncreasing g'.s := by
  unfold stepCore at hs
  split_ok hs with exact hsz

theorem sizes_claimEnd (hsz : SizesIncreasing g.s)
    (hs : stepCore cfg g .claimEnd = .ok (g', out)) : SizesIncreasing g'.s := by
  unfold stepCore at hs
  split_ok hs with exact hsz

theorem sizes_split {b at_ : Nat} (hsz : SizesIncreasing g.s)
    (hs : stepCore cfg g (.split b at_) = .ok (g', out)) : SizesIncreasing g'.s := by
  unfold stepCore at hs
  split_ok hs with exact hsz

theorem sizes_scopeExit (hsz : SizesIncreasing g.s)
    (hs : stepCore cfg g .scopeExit = .ok (g', out)) : SizesIncreasing g'.s := by
  unfold stepCore at hs
  split_ok hs with exact sizes_via hsz (resetTo_sz (by assumption)) (by rfl) (by rfl)

theorem sizes_resetTo {k : Nat} (hsz : SizesIncreasing g.s)
    (hs : stepCore cfg g (.resetTo k) = .ok (g', out)) : SizesIncreasing g'.s := by
  unfold stepCore at hs
  split_ok hs with exact sizes_via hsz (resetTo_sz (by assumption)) (by rfl) (by rfl)

theorem sizes_scopedAlignedExit (hsz : SizesIncreasing g.s)
    (hs : stepCore cfg g .scopedAlignedExit = .ok (g', out)) : SizesIncreasing g'.s := by
  unfold stepCore at hs
  split_ok hs with exact sizes_via hsz (resetTo_sz (by assumption)) (by rfl) (by rfl)

theorem sizes_reset (hsz : SizesIncreasing g.s)
    (hs : stepCore cfg g .reset = .ok (g', out)) : SizesIncreasing g'.s := by
  unfold stepCore at hs
  split_ok hs with exact (C10.reset_sizesIncreasing (cfg := cfg) hsz).congr rfl

theorem sizes_resetToStart (hsz : SizesIncreasing g.s)
    (hs : stepCore cfg g .resetToStart = .ok (g', out)) : SizesIncreasing g'.s := by
  unfold stepCore at hs
  split_ok hs with exact (resetToStart_sizesIncreasing (cfg := cfg) hsz).congr rfl

theorem manuallyDrop_sizes {s : State} (hsz : SizesIncreasing s) : SizesIncreasing (manuallyDrop cfg s) := by
  unfold manuallyDrop
  split
  · exact sizes_short (Nat.zero_le _)
  · exact hsz

theorem sizes_drop (hsz : SizesIncreasing g.s)
    (hs : stepCore cfg g .drop = .ok (g', out)) : SizesIncreasing g'.s := by
  unfold stepCore at hs
  split_ok hs with exact (manuallyDrop_sizes (cfg := cfg) hsz).congr rfl

theorem sizes_alignedEnter {n : Nat} (hsz : SizesIncreasing g.s)
    (hs : stepCore cfg g (.alignedEnter n) = .ok (g', out)) : SizesIncreasing g'.s := by
  unfold stepCore at hs
  split_ok hs with first | exact hsz | exact sizes_via hsz (alignTo_sz (by assumption)) (by rfl) (by rfl)

theorem sizes_alignedExit (hsz : SizesIncreasing g.s)
    (hs : stepCore cfg g .alignedExit = .ok (g', out)) : SizesIncreasing g'.s := by
  unfold stepCore at hs
  split_ok hs with
    first
    | exact hsz
    | exact sizes_via hsz ((alignGuardDrop_sz (by assumption)).trans (alignChunkAt_sz (by assumption))) (by rfl) (by rfl)

theorem sizes_scopedAlignedEnter {n : Nat} (hsz : SizesIncreasing g.s)
    (hs : stepCore cfg g (.scopedAlignedEnter n) = .ok (g', out)) : SizesIncreasing g'.s := by
  unfold stepCore at hs
  split_ok hs with exact sizes_via hsz (alignTo_sz (by assumption)) (by rfl) (by rfl)

theorem sizes_withSettings {n : Nat} {ga cl : Bool} (hsz : SizesIncreasing g.s)
    (hs : stepCore cfg g (.withSettings n ga cl) = .ok (g', out)) : SizesIncreasing g'.s := by
  unfold stepCore at hs
  split_ok hs with first | exact hsz | exact sizes_via hsz (alignTo_sz (by assumption)) (by rfl) (by rfl)

theorem sizes_write {b seed : Nat} (hsz : SizesIncreasing g.s)
    (hs : stepCore cfg g (.write b seed) = .ok (g', out)) : SizesIncreasing g'.s := by
  unfold stepCore at hs
  split_ok hs with exact sizes_via hsz (writeRange_sz (by assumption)) (by rfl) (by rfl)

theorem sizes_fillPrepared {len seed : Nat} (hsz : SizesIncreasing g.s)
    (hs : stepCore cfg g (.fillPrepared len seed) = .ok (g', out)) : SizesIncreasing g'.s := by
  unfold stepCore at hs
  split_ok hs with exact sizes_via hsz (writeRange_sz (by assumption)) (by rfl) (by rfl)

theorem sizes_deallocate {b : Nat} {via : Via} (hsz : SizesIncreasing g.s)
    (hs : stepCore cfg g (.deallocate b via) = .ok (g', out)) : SizesIncreasing g'.s := by
  unfold stepCore at hs
  split_ok hs with first | exact hsz | exact sizes_via hsz (deallocate_sz (by assumption)) (by rfl) (by rfl)

theorem sizes_commit {size : Nat} {rev : Bool} (hsz : SizesIncreasing g.s)
    (hs : stepCore cfg g (.commit size rev) = .ok (g', out)) : SizesIncreasing g'.s := by
  unfold stepCore at hs
  split_ok hs with exact sizes_via hsz (allocatePrepared_sz (by assumption)) (by rfl) (by rfl)

theorem sizes_commitSlice {len : Nat} (hsz : SizesIncreasing g.s)
    (hs : stepCore cfg g (.commitSlice len) = .ok (g', out)) : SizesIncreasing g'.s := by
  unfold stepCore at hs
  split_ok hs with exact sizes_via hsz (allocatePreparedSlice_sz (by assumption)) (by rfl) (by rfl)

theorem sizes_shrinkSlice {b newSize : Nat} (hsz : SizesIncreasing g.s)
    (hs : stepCore cfg g (.shrinkSlice b newSize) = .ok (g', out)) : SizesIncreasing g'.s := by
  unfold stepCore at hs
  split_ok hs with first | exact hsz | exact sizes_via hsz (shrinkSlice_sz (by assumption)) (by rfl) (by rfl)

theorem sizes_newWithSize {n : Nat} (hsz : SizesIncreasing g.s)
    (hs : stepCore cfg g (.newWithSize n) = .ok (g', out)) : SizesIncreasing g'.s := by
  unfold stepCore at hs
  split_ok hs with first
    | exact hsz
    | exact (newChunk_sizes (pristine_of_check (by assumption)).1 (by assumption)).congr (by rfl)

theorem sizes_newWithCapacity {L : Layout} (hsz : SizesIncreasing g.s)
    (hs : stepCore cfg g (.newWithCapacity L) = .ok (g', out)) : SizesIncreasing g'.s := by
  unfold stepCore at hs
  split_ok hs with first
    | exact hsz
    | exact (newChunkForCapacity_sizes (pristine_of_check (by assumption)).1 (by assumption)).congr (by rfl)

theorem zeroRange_sz {s s' : State} {p n : Nat} (h : zeroRange cfg s p n = .ok s') : SzSame s s' := writeRange_sz h

theorem sizes_allocate {L : Layout} {z : Bool} {via : Via} (hc : CfgOK cfg) (i : SzInv cfg g.s)
    (hs : stepCore cfg g (.allocate L z via) = .ok (g', out)) : SizesIncreasing g'.s := by
  unfold stepCore at hs
  split_ok hs with first
    | exact (i.alloc hc (validLayout_valid (by assumption)) (by assumption)).sizes.congr (by rfl)
    | exact sizes_via (i.alloc hc (validLayout_valid (by assumption)) (by assumption)).sizes
        (zeroRange_sz (by assumption)) (by rfl) (by rfl)

theorem sma_of_check {hh : Hints} {L : Layout} (hchk : ¬(hh.sma && L.size % L.align != 0) = true) :
    hh.sma = true → L.align ∣ L.size := by
  intro hsma
  simp only [hsma, Bool.true_and, bne_iff_ne, ne_eq, Decidable.not_not] at hchk
  exact Nat.dvd_of_mod_eq_zero hchk

theorem sizes_allocLayout {L : Layout} {hh : Hints} (hc : CfgOK cfg) (i : SzInv cfg g.s)
    (hs : stepCore cfg g (.allocLayout L hh) = .ok (g', out)) : SizesIncreasing g'.s := by
  unfold stepCore at hs
  split_ok hs with
    exact (i.allocGeneric (k := .alloc) hc (validLayout_valid (by assumption)) (sma_of_check (by assumption))
      (custom_truthful L) (fun hk => by cases hk) (by assumption)).sizes.congr (by rfl)

theorem dvd_of_check {a b : Nat} (hchk : ¬(a % b != 0) = true) : b ∣ a := by
  simp only [bne_iff_ne, ne_eq, Decidable.not_not] at hchk
  exact Nat.dvd_of_mod_eq_zero hchk

theorem sizes_prepare {L : Layout} (hc : CfgOK cfg) (i : SzInv cfg g.s)
    (hs : stepCore cfg g (.prepare L) = .ok (g', out)) : SizesIncreasing g'.s := by
  unfold stepCore at hs
  split_ok hs with
    exact (i.allocGeneric hc (validLayout_valid (by assumption)) (custom_truthful L) (custom_truthful L)
      (fun _ => dvd_of_check (by assumption)) (by assumption)).sizes.congr (by rfl)

theorem sizes_reserve {n : Nat} {dyn : Bool} (hc : CfgOK cfg) (i : SzInv cfg g.s)
    (hs : stepCore cfg g (.reserve n dyn) = .ok (g', out)) : SizesIncreasing g'.s := by
  unfold stepCore at hs
  cases dyn
  · split_ok hs with exact (reserve_sizes hc i (by assumption)).congr (by rfl)
  · split_ok hs with exact (reserveDyn_sizes hc i (by assumption)).congr (by rfl)

theorem prepareSlice_dvd {esize ealign minCap bytes : Nat} (hchk : ¬(esize == 0 || esize % ealign != 0) = true)
    (hb : Rs.checked_mul esize minCap = some bytes) : ealign ∣ bytes := by
  simp only [Bool.or_eq_true, beq_iff_eq, bne_iff_ne, ne_eq, not_or, Decidable.not_not] at hchk
  rw [checked_mul_some hb]
  exact Nat.dvd_trans (Nat.dvd_of_mod_eq_zero hchk.2) (Nat.dvd_mul_right _ _)

theorem sizes_prepareSlice {esize ealign minCap : Nat} {rev : Bool} (hp2 : Rs.is_power_of_two ealign = true)
    (hc : CfgOK cfg) (i : SzInv cfg g.s)
    (hs : stepCore cfg g (.prepareSlice esize ealign minCap rev) = .ok (g', out)) : SizesIncreasing g'.s := by
  unfold stepCore at hs
  split_ok hs with first
    | exact i.sizes
    | (have hdv := prepareSlice_dvd (by assumption) (by assumption)
       exact (i.allocGeneric (k := .range) hc (layoutOk_valid hp2 (layoutOk_of_not (by assumption)))
         (fun _ => hdv) (fun _ => hdv) (fun _ => hdv) (by assumption)).sizes.congr (by rfl))

theorem sizes_grow {b : Nat} {L : Layout} {z : Bool} {via : Via} (hc : CfgOK cfg) (i : SzInv cfg g.s)
    (hs : stepCore cfg g (.grow b L z via) = .ok (g', out)) : SizesIncreasing g'.s := by
  unfold stepCore at hs
  split_ok hs with first
    | exact (grow_sizes hc i (validLayout_valid (by assumption)) (by assumption)).congr (by rfl)
    | exact sizes_via (grow_sizes hc i (validLayout_valid (by assumption)) (by assumption))
        (zeroRange_sz (by assumption)) (by rfl) (by rfl)

theorem sizes_shrink {b : Nat} {L : Layout} {via : Via} (h : Inv cfg g) (hr : RespsOK cfg g.s)
    (hsz : SizesIncreasing g.s)
    (hs : stepCore cfg g (.shrink b L via) = .ok (g', out)) : SizesIncreasing g'.s := by
  have i := h.szInv hr hsz
  unfold stepCore at hs
  split_ok hs with first
    | exact (shrinkWithoutShrink_sizes h.cfgOK i (validLayout_valid (by assumption)) (by assumption)).congr (by rfl)
    | exact (shrink_sizes h.cfgOK i (validLayout_valid (by assumption))
        (h.blockInCur' (Mem.findBlock_ok (by assumption)).1) (by assumption)).congr (by rfl)

/-- a shrink that keeps the alignment never allocates -/
theorem shrink_fits_sz {s s' : State} {ptr oldSize : Nat} {newL : Layout} {r : Except AErr (Nat × Nat)}
    (hfit : alignFits ptr newL.align = true) (he : shrink cfg s ptr oldSize newL = .ok (s', r)) : SzSame s s' := by
  unfold shrink at he
  simp only [hfit, Bool.not_true, Bool.false_eq_true, ↓reduceIte] at he
  split_ok he with first
    | exact SzSame.refl _
    | exact setCurPos_sz _ _
    | exact (copyBytes_sz (by assumption)).trans (setCurPos_sz _ _)

theorem alignFits_of_not {p a : Nat} (h : ¬(!alignFits p a) = true) : alignFits p a = true := by simpa using h

theorem sizes_onClaimed {op : Op} (hsz : SizesIncreasing g.s)
    (hs : stepCore cfg g (.onClaimed op) = .ok (g', out)) : SizesIncreasing g'.s := by
  unfold stepCore at hs
  split_ok hs with first
    | exact hsz
    | exact sizes_via hsz (deallocate_sz (by assumption)) (by rfl) (by rfl)
    | exact sizes_via hsz (shrink_fits_sz (alignFits_of_not (by assumption)) (by assumption)) (by rfl) (by rfl)

theorem sizes_gs_okOut {s : State} {a b c d : Nat} {m : List Nat} (h : SizesIncreasing s) :
    SizesIncreasing ({ s := (okOut s a b c d).fst, marks := m } : GState).s := h

theorem sizes_gs_kill {s : State} {k : Nat} {m : List Nat} (h : SizesIncreasing s) :
    SizesIncreasing ({ s := killFrom s k, marks := m } : GState).s := h

theorem sizes_gs {s : State} {m : List Nat} (h : SizesIncreasing s) : SizesIncreasing ({ s := s, marks := m } : GState).s := h

theorem sizes_setCurPos {s : State} {p : Nat} (h : SizesIncreasing s) : SizesIncreasing (setCurPos s p) :=
  (setCurPos_sz s p).sizes h

theorem sizes_addBlock {s : State} {a b c d : Nat} (h : SizesIncreasing s) : SizesIncreasing (addBlock s a b c d).fst := h

theorem sizes_of_resetTo {s s' : State} {cp : Checkpoint} (he : resetTo cfg s cp = .ok s') (h : SizesIncreasing s) :
    SizesIncreasing s' := (resetTo_sz he).sizes h

/-- the allocation of the `Result` in `alloc_try_with(_mut)` -/
theorem try_first (hc : CfgOK cfg) {s : State} (i : SzInv cfg s) {L : Layout} {u : Unit} (hv : validLayout L = .ok u)
    (hsma : L.align ∣ L.size) {m : Bool} {s1 : State} {r : Except AErr (Nat × Nat)}
    (he : allocGeneric cfg (if m = true then Kind.prepare else Kind.alloc) s L Hints.sized Hints.custom = .ok (s1, r)) :
    SzInv cfg s1 :=
  i.allocGeneric hc (validLayout_valid hv) (fun _ => hsma) (custom_truthful L)
    (by cases m <;> intro hk <;> cases hk) he

/-- the allocation made by the closure -/
theorem try_inner (hc : CfgOK cfg) {s1 : State} (i1 : SzInv cfg s1) {Li : Layout} {s2 : State} {r : Except AErr Nat}
    (he : alloc cfg s1 Li = .ok (s2, r)) {u : Unit} (hv : validLayout Li = .ok u) : SzInv cfg s2 :=
  i1.alloc hc (validLayout_valid hv) he

/-- the end of `alloc_try_with`: the position may be set / reset, blocks are registered or killed -/
local macro "try_tail " x:term : tactic => `(tactic| first
  | exact sizes_gs_okOut (sizes_setCurPos (sizes_addBlock $x))
  | exact sizes_gs_okOut (sizes_setCurPos $x)
  | exact sizes_gs_okOut (sizes_addBlock $x)
  | exact sizes_gs_okOut $x
  | exact sizes_gs_kill (sizes_of_resetTo (by assumption) (sizes_addBlock $x))
  | exact sizes_gs_kill (sizes_of_resetTo (by assumption) $x)
  | exact sizes_gs (sizes_addBlock $x)
  | exact sizes_gs $x)

theorem sizes_allocTryWith {L : Layout} {off vsize : Nat} {ok : Bool} {inner : Option Layout} {mut_ : Bool}
    (hsma : L.align ∣ L.size) (hc : CfgOK cfg) (i : SzInv cfg g.s)
    (hs : stepCore cfg g (.allocTryWith L off vsize ok inner mut_) = .ok (g', out)) : SizesIncreasing g'.s := by
  unfold stepCore at hs
  split_ok hs with
    (have i1 := try_first hc i (by assumption) hsma (by assumption)
     first
       | (have i2 := try_inner hc i1 (by assumption) (by assumption)
          try_tail i2.sizes)
       | try_tail i1.sizes)

end ops

/-! ## every operation -/

/-- C10, the clause that is not part of `Inv`: every covered operation of the model keeps the chunk sizes
    strictly increasing along the chunk list (all 34 constructors of `Op`) -/
theorem sizes_stepCore {g g' : GState} {op : Op} {out : Out} (hcov : op.Covered) (h : Inv cfg g)
    (hr : RespsOK cfg g.s) (hsz : SizesIncreasing g.s) (hs : stepCore cfg g op = .ok (g', out)) :
    SizesIncreasing g'.s := by
  have hc := h.cfgOK
  have i := h.szInv hr hsz
  cases op with
  | newWithSize n => exact sizes_newWithSize hsz hs
  | newWithCapacity L => exact sizes_newWithCapacity hsz hs
  | newUnallocated => exact sizes_newUnallocated hsz hs
  | drop => exact sizes_drop hsz hs
  | allocate L z via => exact sizes_allocate hc i hs
  | deallocate b via => exact sizes_deallocate hsz hs
  | grow b L z via => exact sizes_grow hc i hs
  | shrink b L via => exact sizes_shrink h hr hsz hs
  | allocLayout L hh => exact sizes_allocLayout hc i hs
  | shrinkSlice b n => exact sizes_shrinkSlice hsz hs
  | prepare L => exact sizes_prepare hc i hs
  | commit size rev => exact sizes_commit hsz hs
  | prepareSlice esize ealign minCap rev =>
    have hp : Rs.is_power_of_two ealign = true := by simpa [Op.Covered, Op.covered] using hcov
    exact sizes_prepareSlice hp hc i hs
  | fillPrepared len seed => exact sizes_fillPrepared hsz hs
  | commitSlice len => exact sizes_commitSlice hsz hs
  | abandonPrepared => exact sizes_abandonPrepared hsz hs
  | reserve n dyn => exact sizes_reserve hc i hs
  | scopeEnter => exact sizes_scopeEnter hsz hs
  | scopeExit => exact sizes_scopeExit hsz hs
  | checkpoint k => exact sizes_checkpoint hsz hs
  | resetTo k => exact sizes_resetTo hsz hs
  | reset => exact sizes_reset hsz hs
  | resetToStart => exact sizes_resetToStart hsz hs
  | claim => exact sizes_claim hsz hs
  | claimEnd => exact sizes_claimEnd hsz hs
  | onClaimed op' => exact sizes_onClaimed hsz hs
  | alignedEnter n => exact sizes_alignedEnter hsz hs
  | alignedExit => exact sizes_alignedExit hsz hs
  | scopedAlignedEnter n => exact sizes_scopedAlignedEnter hsz hs
  | scopedAlignedExit => exact sizes_scopedAlignedExit hsz hs
  | withSettings n ga cl => exact sizes_withSettings hsz hs
  | allocTryWith L off vsize ok inner mut_ =>
    have hsma : L.align ∣ L.size := by
      have : L.size % L.align = 0 := by simpa [Op.Covered, Op.covered] using hcov
      exact Nat.dvd_of_mod_eq_zero this
    exact sizes_allocTryWith hsma hc i hs
  | write b seed => exact sizes_write hsz hs
  | split b at_ => exact sizes_split hsz hs

/-- the same for `step` (which installs the base-allocator responses of the step first) -/
theorem sizes_step {g g' : GState} {op : Op} {resps : List BaseResp} {out : Out} {reqs : List BaseReq}
    (hcov : op.Covered) (h : Inv cfg g) (henv : EnvOK cfg g resps) (hsz : SizesIncreasing g.s)
    (hs : step cfg g op resps = .ok (g', out, reqs)) : SizesIncreasing g'.s := by
  unfold step at hs
  simp only [bind, Except.bind, pure, Except.pure] at hs
  split at hs
  · cases hs
  · rename_i x hx
    obtain ⟨g1, o1⟩ := x
    simp only at hs
    split at hs
    · cases hs
    · cases hs
      exact sizes_stepCore hcov (h.install resps) henv.1 (hsz.congr rfl) hx

/-! ## non-vacuity: the hypotheses of `sizes_stepCore` hold for the creation of an arena in a block of
    496 bytes, and for an allocation that needs a second chunk -/

/-- the initial state with one response installed -/
def exSizesG : GState := install (initG exCfg) [.granted 0x10000 496]

example : (Op.newWithSize 512).Covered := by decide

example : Inv exCfg exSizesG := (inv_init exCfg_ok).install _

theorem exSizesG_resps : RespsOK exCfg exSizesG.s := by
  intro r hr
  simp only [exSizesG, install, List.mem_singleton] at hr
  subst hr
  exact ⟨by decide, by decide, by decide⟩

theorem exSizesG_sizes : SizesIncreasing exSizesG.s := (C10.initState_inv exCfg_ok).2.1.congr rfl

set_option maxRecDepth 100000 in
theorem exSizesG_step : ∃ g' out, stepCore exCfg exSizesG (.newWithSize 512) = .ok (g', out) := ⟨_, _, rfl⟩

example : ∃ g' out, stepCore exCfg exSizesG (.newWithSize 512) = .ok (g', out) ∧ SizesIncreasing g'.s := by
  obtain ⟨g', out, hs⟩ := exSizesG_step
  exact ⟨g', out, hs, sizes_stepCore (by decide) ((inv_init exCfg_ok).install _) exSizesG_resps exSizesG_sizes hs⟩

end Arena.Hist
