/-
  Lemmas/CollSplit.lean — `take` / `drop` / rotation on segmented buffers and the shape of the parts
  produced by `Coll.splitOff`, `splitAt`, `merge` (`Coll/Split.lean`).
-/
import BumpProof.Coll.Split
import BumpProof.Lemmas.CollPrim
import BumpProof.Lemmas.CollWF

namespace Coll

@[simp] theorem I_take (xs : List Id) (n : Nat) : (I xs).take n = I (xs.take n) := by simp [I, List.map_take]
@[simp] theorem I_drop (xs : List Id) (n : Nat) : (I xs).drop n = I (xs.drop n) := by simp [I, List.map_drop]
@[simp] theorem H_take (m n : Nat) : (H m).take n = H (min n m) := by simp [H, List.take_replicate]
@[simp] theorem H_drop (m n : Nat) : (H m).drop n = H (m - n) := by simp [H, List.drop_replicate]

/-- the slots `[lo, lo + c)` of a buffer `I xs ++ H m`, for a cut inside the initialised part -/
theorem seg_sub (xs : List Id) (m lo c : Nat) (hlo : lo ≤ xs.length) :
    ((I xs ++ H m).drop lo).take c = I ((xs.drop lo).take c) ++ H (min (c - (xs.length - lo)) m) := by
  rw [List.drop_append_of_le_length (by simpa using hlo)]
  rw [List.take_append]
  simp

theorem seg_len_le_cap' {v : Vec} {xs : List Id} (hs : v.slots = I xs ++ H (v.cap - v.len)) (hl : xs.length = v.len) :
    v.len ≤ v.cap := by
  have := congrArg List.length hs
  simp [Vec.cap] at this ⊢
  omega

/-- a part described by its contents -/
def Part.Holds (p : Part) (xs : List Id) : Prop :=
  p.vec.slots = I xs ++ H (p.vec.cap - p.vec.len) ∧ xs.length = p.vec.len

theorem Part.Holds.abs {p : Part} {xs : List Id} (h : p.Holds xs) : p.vec.abs = xs :=
  Vec.WF.abs_eq h.1 h.2

theorem holds_of {lay : Lay} {base : Nat} {slots : List Slot} {lo c len : Nat} {ys : List Id} {m : Nat}
    (h : (slots.drop lo).take c = I ys ++ H m) (hl : ys.length = len) :
    (subPart lay base slots lo c len).Holds ys ∧ (subPart lay base slots lo c len).vec.cap = len + m := by
  have hc : (subPart lay base slots lo c len).vec.cap = len + m := by
    simp [subPart, Vec.cap, h, hl]
  refine ⟨⟨?_, ?_⟩, hc⟩
  · rw [hc]; simp only [subPart] at *; rw [h]; congr 2; omega
  · simpa [subPart] using hl

theorem Part.Holds.len_le_cap {p : Part} {xs : List Id} (h : p.Holds xs) : p.vec.len ≤ p.vec.cap :=
  seg_len_le_cap' h.1 h.2

/-- cutting a buffer `I ys ++ H m` at `k ≤ |ys|`: the left part is exactly full, the right part gets the spare -/
theorem cut_holds (lay : Lay) (base : Nat) (ys : List Id) (m k cap : Nat) (hk : k ≤ ys.length) (hc : cap = ys.length + m) :
    (subPart lay base (I ys ++ H m) 0 k k).Holds (ys.take k) ∧ (subPart lay base (I ys ++ H m) 0 k k).vec.cap = k ∧
    (subPart lay base (I ys ++ H m) k (cap - k) (ys.length - k)).Holds (ys.drop k) ∧
    (subPart lay base (I ys ++ H m) k (cap - k) (ys.length - k)).vec.cap = cap - k := by
  have hA := seg_sub ys m 0 k (by omega)
  have hB := seg_sub ys m k (cap - k) (by omega)
  have e1 : min (k - (ys.length - 0)) m = 0 := by omega
  have e2 : (ys.drop 0).take k = ys.take k := by simp
  have e3 : (ys.drop k).take (cap - k) = ys.drop k := by
    rw [List.take_of_length_le]; simp; omega
  have e4 : min (cap - k - (ys.length - k)) m = m := by omega
  rw [e1, e2] at hA
  rw [e3, e4] at hB
  have ⟨hsA, hcA⟩ := holds_of (lay := lay) (base := base) (len := k) (ys := ys.take k) (m := 0) hA (by simp; omega)
  have ⟨hsB, hcB⟩ := holds_of (lay := lay) (base := base) (len := ys.length - k) (ys := ys.drop k) (m := m) hB (by simp)
  exact ⟨hsA, by simpa using hcA, hsB, by rw [hcB]; omega⟩

theorem rotateRight_I (l : List Id) (k : Nat) : rotateRight (I l) k = I (l.drop (l.length - k) ++ l.take (l.length - k)) := by
  simp [rotateRight]

theorem rotateLeft_I (l : List Id) (k : Nat) : rotateLeft (I l) k = I (l.drop k ++ l.take k) := by
  simp [rotateLeft]

/-- contents of the two parts of `split_off(start..end)`; capacities add up; logs stay with `self` -/
theorem splitOff_holds (lay : Lay) (p : Part) (xs : List Id) (h : p.Holds xs) (start end_ : Nat)
    (hse : start ≤ end_) (hel : end_ ≤ xs.length) :
    ∃ s o, splitOff lay p start end_ = some (s, o) ∧
      o.Holds ((xs.take end_).drop start) ∧ s.Holds (xs.take start ++ xs.drop end_) ∧
      s.vec.cap + o.vec.cap = p.vec.cap ∧
      s.vec.dropLog = p.vec.dropLog ∧ s.vec.escaped = p.vec.escaped ∧ o.vec.dropLog = [] ∧ o.vec.escaped = [] ∧
      ((o.vec.cap = 0 ∧ s = p) ∨ (s.addr = p.addr ∧ o.addr = p.addr + s.vec.cap * lay.esize) ∨
        (o.addr = p.addr ∧ s.addr = p.addr + o.vec.cap * lay.esize)) := by
  have hcap := h.len_le_cap
  obtain ⟨hs, hl⟩ := h
  have hcapdef : p.vec.cap = xs.length + (p.vec.cap - p.vec.len) := by omega
  unfold splitOff
  simp only
  rw [if_neg (by omega)]
  by_cases h1 : end_ = p.vec.len
  · -- suffix (or everything): self keeps the front
    rw [if_pos h1]
    have ⟨a1, a2, a3, a4⟩ := cut_holds lay p.addr xs (p.vec.cap - p.vec.len) start p.vec.cap (by omega) hcapdef
    rw [← hs] at a1 a2 a3 a4
    rw [hl] at a3 a4
    refine ⟨_, _, rfl, ?_, ?_, ?_, rfl, rfl, rfl, rfl, Or.inr (Or.inl ⟨by simp [subPart], ?_⟩)⟩
    · have : (xs.take end_).drop start = xs.drop start := by rw [List.take_of_length_le (by omega)]
      rw [this]; exact a3
    · have : xs.drop end_ = [] := by simp; omega
      rw [this, List.append_nil]; exact ⟨a1.1, a1.2⟩
    · show (subPart lay p.addr p.vec.slots 0 start start).vec.cap + _ = _
      rw [a2, a4]; omega
    · show p.addr + start * lay.esize = p.addr + (subPart lay p.addr p.vec.slots 0 start start).vec.cap * lay.esize
      rw [a2]
  · rw [if_neg h1]
    have hlt : end_ < xs.length := by omega
    by_cases h2 : start = 0
    · -- prefix: the front is returned, self keeps the rest (and the spare capacity)
      rw [if_pos h2]
      subst h2
      have ⟨a1, a2, a3, a4⟩ := cut_holds lay p.addr xs (p.vec.cap - p.vec.len) end_ p.vec.cap (by omega) hcapdef
      rw [← hs] at a1 a2 a3 a4
      rw [hl] at a3 a4
      refine ⟨_, _, rfl, ?_, ?_, ?_, rfl, rfl, rfl, rfl, Or.inr (Or.inr ⟨by simp [subPart], ?_⟩)⟩
      · simpa using a1
      · have : xs.take 0 ++ xs.drop end_ = xs.drop end_ := by simp
        rw [this]; exact ⟨a3.1, a3.2⟩
      · show (subPart lay p.addr p.vec.slots end_ (p.vec.cap - end_) (p.vec.len - end_)).vec.cap + _ = _
        rw [a2, a4]; omega
      · show p.addr + end_ * lay.esize = p.addr + (subPart lay p.addr p.vec.slots 0 end_ end_).vec.cap * lay.esize
        rw [a2]
    · rw [if_neg h2]
      by_cases h3 : start = end_
      · -- empty interior range: nothing moves, an empty vector is returned
        rw [if_pos h3]
        subst h3
        refine ⟨_, _, rfl, ?_, ?_, ?_, rfl, rfl, rfl, rfl, Or.inl ⟨by simp [emptyPart, Vec.cap], rfl⟩⟩
        · have : (xs.take start).drop start = [] := by simp
          rw [this]; exact ⟨by simp [emptyPart, Vec.cap], rfl⟩
        · rw [List.take_append_drop]; exact ⟨hs, hl⟩
        · simp [emptyPart, Vec.cap]
      · rw [if_neg h3]
        have hrl : ((xs.take end_).drop start).length = end_ - start := by simp; omega
        have hol : (xs.take start ++ xs.drop end_).length = xs.length - (end_ - start) := by simp; omega
        by_cases h4 : start < p.vec.len - end_
        · -- the range is rotated to the front
          rw [if_pos h4]
          have hslots : rotateRight (p.vec.slots.take end_) (end_ - start) ++ p.vec.slots.drop end_
              = I (((xs.take end_).drop start) ++ (xs.take start ++ xs.drop end_)) ++ H (p.vec.cap - p.vec.len) := by
            rw [hs, List.take_append_of_le_length (by simp; omega), List.drop_append_of_le_length (by simp; omega)]
            simp only [I_take, I_drop, rotateRight_I, List.length_take]
            have e1 : min end_ xs.length - (end_ - start) = start := by omega
            rw [e1, List.take_take]
            have e2 : min start end_ = start := by omega
            rw [e2]; simp
          rw [hslots]
          have ⟨a1, a2, a3, a4⟩ := cut_holds lay p.addr (((xs.take end_).drop start) ++ (xs.take start ++ xs.drop end_))
            (p.vec.cap - p.vec.len) (end_ - start) p.vec.cap (by simp; omega) (by simp; omega)
          have et : (((xs.take end_).drop start) ++ (xs.take start ++ xs.drop end_)).take (end_ - start) = (xs.take end_).drop start := by
            rw [List.take_append_of_le_length (by omega), List.take_of_length_le (by omega)]
          have ed : (((xs.take end_).drop start) ++ (xs.take start ++ xs.drop end_)).drop (end_ - start) = xs.take start ++ xs.drop end_ := by
            rw [← hrl, List.drop_left]
          have el : (((xs.take end_).drop start) ++ (xs.take start ++ xs.drop end_)).length - (end_ - start) = p.vec.len - (end_ - start) := by
            simp; omega
          rw [et] at a1; rw [ed, el] at a3; rw [el] at a4
          refine ⟨_, _, rfl, a1, ⟨a3.1, a3.2⟩, ?_, rfl, rfl, rfl, rfl, Or.inr (Or.inr ⟨by simp [subPart], ?_⟩)⟩
          · show (subPart lay p.addr _ (end_ - start) (p.vec.cap - (end_ - start)) (p.vec.len - (end_ - start))).vec.cap + _ = _
            rw [a2, a4]; omega
          · show p.addr + (end_ - start) * lay.esize = p.addr + (subPart lay p.addr _ 0 (end_ - start) (end_ - start)).vec.cap * lay.esize
            rw [a2]
        · -- the range is rotated to the end of the initialised part
          rw [if_neg h4]
          have hslots : p.vec.slots.take start ++ rotateLeft ((p.vec.slots.drop start).take (p.vec.len - start)) (end_ - start) ++ p.vec.slots.drop p.vec.len
              = I ((xs.take start ++ xs.drop end_) ++ ((xs.take end_).drop start)) ++ H (p.vec.cap - p.vec.len) := by
            rw [hs, List.take_append_of_le_length (by simp; omega), List.drop_append_of_le_length (by simp; omega),
              List.take_append_of_le_length (by simp; omega)]
            have e0 : (I xs ++ H (p.vec.cap - p.vec.len)).drop p.vec.len = H (p.vec.cap - p.vec.len) := by
              rw [← hl]; have : xs.length = (I xs).length := by simp
              rw [this, List.drop_left]
            rw [e0]
            simp only [I_take, I_drop, rotateLeft_I]
            have e1 : (xs.drop start).take (p.vec.len - start) = xs.drop start := by
              rw [List.take_of_length_le]; simp; omega
            rw [e1, List.drop_drop]
            have e2 : start + (end_ - start) = end_ := by omega
            have e3 : (xs.drop start).take (end_ - start) = (xs.take end_).drop start := by
              rw [List.drop_take]
            rw [e2, e3]; simp
          rw [hslots]
          have ⟨a1, a2, a3, a4⟩ := cut_holds lay p.addr ((xs.take start ++ xs.drop end_) ++ ((xs.take end_).drop start))
            (p.vec.cap - p.vec.len) (p.vec.len - (end_ - start)) p.vec.cap (by simp; omega) (by simp; omega)
          have et : ((xs.take start ++ xs.drop end_) ++ ((xs.take end_).drop start)).take (p.vec.len - (end_ - start)) = xs.take start ++ xs.drop end_ := by
            rw [List.take_append_of_le_length (by omega), List.take_of_length_le (by omega)]
          have ed : ((xs.take start ++ xs.drop end_) ++ ((xs.take end_).drop start)).drop (p.vec.len - (end_ - start)) = (xs.take end_).drop start := by
            have : p.vec.len - (end_ - start) = (xs.take start ++ xs.drop end_).length := by omega
            rw [this, List.drop_left]
          have el : ((xs.take start ++ xs.drop end_) ++ ((xs.take end_).drop start)).length - (p.vec.len - (end_ - start)) = end_ - start := by
            simp; omega
          rw [et] at a1; rw [ed, el] at a3; rw [el] at a4
          refine ⟨_, _, rfl, a3, ⟨a1.1, a1.2⟩, ?_, rfl, rfl, rfl, rfl, Or.inr (Or.inl ⟨by simp [subPart], ?_⟩)⟩
          · show (subPart lay p.addr _ 0 (p.vec.len - (end_ - start)) (p.vec.len - (end_ - start))).vec.cap + _ = _
            rw [a2, a4]; omega
          · show p.addr + (p.vec.len - (end_ - start)) * lay.esize = p.addr + (subPart lay p.addr _ 0 (p.vec.len - (end_ - start)) (p.vec.len - (end_ - start))).vec.cap * lay.esize
            rw [a2]

/-- `split_at(at)` of a boxed slice (`cap = len`): `(xs[..at], xs[at..])`, both exactly full -/
theorem splitAt_holds (lay : Lay) (p : Part) (xs : List Id) (h : p.Holds xs) (hbox : p.vec.cap = p.vec.len) (at_ : Nat)
    (hat : at_ ≤ xs.length) :
    ∃ l r, splitAt lay p at_ = some (l, r) ∧ l.Holds (xs.take at_) ∧ r.Holds (xs.drop at_) ∧
      l.vec.cap = at_ ∧ r.vec.cap = xs.length - at_ ∧ l.addr = p.addr ∧ r.addr = p.addr + at_ * lay.esize := by
  obtain ⟨hs, hl⟩ := h
  unfold splitAt
  simp only
  rw [if_neg (by omega)]
  have ⟨a1, a2, a3, a4⟩ := cut_holds lay p.addr xs (p.vec.cap - p.vec.len) at_ p.vec.cap (by omega) (by omega)
  rw [← hs] at a1 a2 a3 a4
  have e : p.vec.cap - at_ = p.vec.len - at_ := by omega
  rw [hl, e] at a3 a4
  exact ⟨_, _, rfl, a1, a3, a2, by rw [a4]; omega, by simp [subPart], by simp [subPart]⟩

/-- `merge` of two exactly-full adjacent parts -/
theorem merge_holds (lay : Lay) (a b : Part) (xs ys : List Id) (ha : a.Holds xs) (hb : b.Holds ys)
    (hca : a.vec.cap = a.vec.len) (hcb : b.vec.cap = b.vec.len) (hadj : a.addr + a.vec.len * lay.esize = b.addr) :
    ∃ m, merge lay a b = some m ∧ m.Holds (xs ++ ys) ∧ m.vec.cap = a.vec.len + b.vec.len ∧ m.addr = a.addr := by
  unfold merge
  rw [if_neg (by omega)]
  refine ⟨_, rfl, ⟨?_, ?_⟩, ?_, rfl⟩
  · have e1 : a.vec.slots.take a.vec.len = I xs := by
      rw [ha.1, ← ha.2]; have : xs.length = (I xs).length := by simp
      rw [this, List.take_left]
    have e2 : b.vec.slots.take b.vec.len = I ys := by
      rw [hb.1, ← hb.2]; have : ys.length = (I ys).length := by simp
      rw [this, List.take_left]
    simp only [e1, e2, Vec.cap, List.length_append, length_I, ha.2, hb.2, Nat.sub_self, H_zero, List.append_nil, I_append]
  · simp [ha.2, hb.2]
  · have e1 : (a.vec.slots.take a.vec.len).length = a.vec.len := by
      rw [List.length_take]; have := ha.len_le_cap; simp only [Vec.cap] at this; omega
    have e2 : (b.vec.slots.take b.vec.len).length = b.vec.len := by
      rw [List.length_take]; have := hb.len_le_cap; simp only [Vec.cap] at this; omega
    simp [Vec.cap, e1, e2]

/-! ## partition -/

theorem decompose2 (ys : List Id) (i j : Nat) (hij : i < j) (hj : j < ys.length) :
    ∃ A a B b C, ys = A ++ a :: (B ++ b :: C) ∧ A.length = i ∧ B.length = j - i - 1 ∧ ys[i]'(by omega) = a ∧ ys[j] = b := by
  refine ⟨ys.take i, ys[i]'(by omega), (ys.drop (i + 1)).take (j - i - 1), ys[j], ys.drop (j + 1), ?_, by simp; omega, by simp; omega, rfl, rfl⟩
  have h1 : ys = ys.take i ++ ys[i]'(by omega) :: ys.drop (i + 1) := by simp
  have hlt : j - i - 1 < (ys.drop (i + 1)).length := by simp; omega
  have h2 : ys.drop (i + 1) = (ys.drop (i + 1)).take (j - i - 1) ++ (ys.drop (i + 1))[j - i - 1] :: (ys.drop (i + 1)).drop (j - i - 1 + 1) :=
    (List.take_append_drop (j - i - 1) (ys.drop (i + 1))).symm.trans (by rw [List.drop_eq_getElem_cons hlt])
  have e1 : (ys.drop (i + 1))[j - i - 1] = ys[j] := by simp; congr 1; omega
  have e2 : (ys.drop (i + 1)).drop (j - i - 1 + 1) = ys.drop (j + 1) := by rw [List.drop_drop]; congr 1; omega
  rw [e1, e2] at h2
  conv => lhs; rw [h1, h2]

theorem swap_perm (ys : List Id) (i j : Nat) (hij : i < j) (hj : j < ys.length) :
    ((ys.set i ys[j]).set j (ys[i]'(by omega))).Perm ys := by
  obtain ⟨A, a, B, b, C, rfl, hA, hB, ha, hb⟩ := decompose2 ys i j hij hj
  rw [ha, hb]
  have hi' : i = A.length := hA.symm
  have hj' : j = A.length + 1 + B.length := by omega
  subst hi'
  rw [hj']
  have e1 : (A ++ a :: (B ++ b :: C)).set A.length b = A ++ b :: (B ++ b :: C) := by simp
  rw [e1]
  have e2 : (A ++ b :: (B ++ b :: C)).set (A.length + 1 + B.length) a = A ++ b :: (B ++ a :: C) := by
    rw [List.set_append_right _ _ (by omega)]
    have : A.length + 1 + B.length - A.length = B.length + 1 := by omega
    rw [this, List.set_cons_succ, List.set_append_right _ _ (by omega)]
    simp
  rw [e2]
  refine List.Perm.append_left _ ?_
  -- b :: (B ++ a :: C) ~ a :: (B ++ b :: C)
  refine (List.Perm.cons b List.perm_middle).trans ?_
  refine (List.Perm.swap a b _).trans ?_
  exact List.Perm.cons a List.perm_middle.symm

theorem swapSlots_seg {v : Vec} {ys : List Id} {i j : Nat} (hs : v.slots = I ys) (hij : i < j) (hj : j < ys.length) :
    swapSlots v i j = .ok { v with slots := I ((ys.set i ys[j]).set j (ys[i]'(by omega))) } := by
  unfold swapSlots
  have hi : i < ys.length := by omega
  have h1 : v.slots[i]? = some (Slot.init (ys[i])) := by rw [hs]; simp [I, hi]
  have h2 : v.slots[j]? = some (Slot.init (ys[j])) := by rw [hs]; simp [I, hj]
  rw [h1, h2]
  simp only
  congr 2
  rw [hs]; simp [I, List.map_set]

/-- `partition_in_place` only swaps values: the buffer stays full of the same ids, the count stays within bounds -/
theorem partitionLoop_perm (fuel : Nat) :
    ∀ (v : Vec) (f b tc : Nat) (seek : Seek) (o : List Outcome) (ys : List Id),
      v.slots = I ys → fuel = b - f → b ≤ ys.length → f ≤ b → (∀ h, seek = .lastTrue h → h < f) →
      tc ≤ f + (ys.length - b) →
      ∃ v' res o' ys', partitionLoop fuel v f b tc seek o = .ok (v', res, o') ∧ v'.slots = I ys' ∧ ys'.Perm ys ∧
        v'.len = v.len ∧ v'.dropLog = v.dropLog ∧ v'.escaped = v.escaped ∧ (∀ t, res = some t → t ≤ ys.length) := by
  induction fuel with
  | zero =>
    intro v f b tc seek o ys hs hf hb hfb _ htc
    exact ⟨v, some tc, o, ys, by simp [partitionLoop], hs, List.Perm.refl _, rfl, rfl, rfl, by intro t ht; cases ht; omega⟩
  | succ fuel ih =>
    intro v f b tc seek o ys hs hf hb hfb hhead htc
    have hflt : f < ys.length := by omega
    have hb1 : b - 1 < ys.length := by omega
    have hpf : peek v f = .ok (ys[f]) := by
      unfold peek; rw [hs]; simp [I, hflt]
    have hpb : peek v (b - 1) = .ok (ys[b - 1]) := by
      unfold peek; rw [hs]; simp [I, hb1]
    cases seek with
    | firstFalse =>
      simp only [partitionLoop, hpf]
      match o with
      | [] => exact ⟨v, none, [], ys, rfl, hs, List.Perm.refl _, rfl, rfl, rfl, by intro t ht; cases ht⟩
      | .panic :: o => exact ⟨v, none, o, ys, rfl, hs, List.Perm.refl _, rfl, rfl, rfl, by intro t ht; cases ht⟩
      | .ret p :: o =>
        by_cases hp : p ≠ 0
        · simp only [hp, ne_eq, not_false_eq_true, ↓reduceIte]
          exact ih v (f + 1) b (tc + 1) .firstFalse o ys hs (by omega) hb (by omega) (by intro h hh; cases hh) (by omega)
        · simp only [hp, ↓reduceIte]
          exact ih v (f + 1) b tc (.lastTrue f) o ys hs (by omega) hb (by omega) (by intro h hh; cases hh; omega) (by omega)
    | lastTrue head =>
      have hh := hhead head rfl
      simp only [partitionLoop, hpb]
      match o with
      | [] => exact ⟨v, none, [], ys, rfl, hs, List.Perm.refl _, rfl, rfl, rfl, by intro t ht; cases ht⟩
      | .panic :: o => exact ⟨v, none, o, ys, rfl, hs, List.Perm.refl _, rfl, rfl, rfl, by intro t ht; cases ht⟩
      | .ret p :: o =>
        by_cases hp : p ≠ 0
        · simp only [hp, ne_eq, not_false_eq_true, ↓reduceIte]
          rw [swapSlots_seg hs (show head < b - 1 by omega) hb1]
          simp only
          have hsw := swap_perm ys head (b - 1) (by omega) hb1
          obtain ⟨v', res, o', ys', h1, h2, h3, h4, h5, h6, h7⟩ :=
            ih { v with slots := I ((ys.set head ys[b - 1]).set (b - 1) (ys[head]'(by omega))) } f (b - 1) (tc + 1) .firstFalse o
              ((ys.set head ys[b - 1]).set (b - 1) (ys[head]'(by omega))) rfl (by omega) (by simp; omega) (by omega)
              (by intro h hh; cases hh) (by simp; omega)
          exact ⟨v', res, o', ys', h1, h2, h3.trans hsw, h4, h5, h6, by intro t ht; have := h7 t ht; simpa using this⟩
        · simp only [hp, ↓reduceIte]
          exact ih v f (b - 1) tc (.lastTrue head) o ys hs (by omega) (by omega) (by omega) (by intro h hh'; cases hh'; exact hh) (by omega)

end Coll
