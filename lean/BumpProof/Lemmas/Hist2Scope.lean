/-
  Lemmas/Hist2Scope.lean — histories that run INSIDE a region: as long as the region stack never drops below
  the stack `base` the history started with (`Above`), the marks, the minimum alignment in force at the level of
  `base` and the position of every chunk that existed at the start are tracked (`Inside`); when the stack is
  `base` again, marks and minimum alignment are what they were.  And the core of every "scope exit restores"
  theorem: `reset_to` with the checkpoint taken in `g`, run in a later state that still has the chunks of `g`
  (`resetTo_restores`).
-/
import BumpProof.Lemmas.Hist2Frames
import BumpProof.Lemmas.Hist2Forms
import BumpProof.Lemmas.Hist2Run
import BumpProof.Props.C03
import BumpProof.Props.C18

set_option linter.unusedSimpArgs false
set_option linter.unusedVariables false

namespace Arena.Hist
open Rs Ledger

variable {cfg : Cfg}

/-- the minimum alignment in force just outside the regions `pre` (innermost first), given the one inside -/
def belowAll : List Frame → Nat → Nat
  | [], ma => ma
  | f :: fs, ma => belowAll fs (f.below ma)

/-- number of regions of `pre` that carry a mark -/
def scopeCount : List Frame → Nat
  | [] => 0
  | f :: fs => (if f.scopeLike then 1 else 0) + scopeCount fs

/-- the region stack of every state of the run has `base` as its outer part -/
def Above (cfg : Cfg) (base : List Frame) : GState → List (Op × List BaseResp) → Prop
  | g, [] => ∃ pre, g.s.frames = pre ++ base
  | g, (op, resps) :: rest => (∃ pre, g.s.frames = pre ++ base) ∧
      ∀ g' out reqs, step cfg g op resps = .ok (g', out, reqs) → Above cfg base g' rest

theorem Above.head {base : List Frame} {g : GState} {w : List (Op × List BaseResp)} (h : Above cfg base g w) :
    ∃ pre, g.s.frames = pre ++ base := by
  cases w with
  | nil => exact h
  | cons x rest => exact h.1

/-- `g` is inside the regions `base` (whose marks are `bm`, entered at minimum alignment `a0` from a state with
    the chunks of `s0`) -/
structure Inside (base : List Frame) (bm : List Nat) (a0 : Nat) (s0 : State) (g : GState) : Prop where
  ex : ∃ pre mpre, g.s.frames = pre ++ base ∧ g.marks = mpre ++ bm ∧ mpre.length = scopeCount pre ∧
    belowAll pre g.s.minAlign = a0
  cov : ChunksCov s0 g.s

theorem Inside.frames_ne {base : List Frame} {bm : List Nat} {a0 : Nat} {s0 : State} {g : GState}
    (hb : base ≠ []) (h : Inside base bm a0 s0 g) : g.s.frames ≠ [] := by
  obtain ⟨pre, _, hf, _⟩ := h.ex
  intro h0
  rw [h0] at hf
  have := congrArg List.length hf
  simp only [List.length_nil, List.length_append] at this
  have : base.length = 0 := by omega
  exact hb (List.eq_nil_of_length_eq_zero this)

/-- back at the level of `base`: marks and minimum alignment are those of the entry -/
theorem Inside.at_base {base : List Frame} {bm : List Nat} {a0 : Nat} {s0 : State} {g : GState}
    (h : Inside base bm a0 s0 g) (hf : g.s.frames = base) : g.marks = bm ∧ g.s.minAlign = a0 := by
  obtain ⟨pre, mpre, h1, h2, h3, h4⟩ := h.ex
  have hpre : pre = [] := by
    rw [hf] at h1
    have := congrArg List.length h1
    simp only [List.length_append] at this
    exact List.eq_nil_of_length_eq_zero (by omega)
  subst hpre
  have hm : mpre = [] := List.eq_nil_of_length_eq_zero h3
  subst hm
  exact ⟨by simpa using h2, h4⟩

/-- one step keeps a history inside -/
theorem Inside.step {base : List Frame} {bm : List Nat} {a0 : Nat} {s0 : State} {g g' : GState}
    (hi : Inside base bm a0 s0 g) (hfs : FrameStep g g')
    (hab : ∃ pre, g'.s.frames = pre ++ base) : Inside base bm a0 s0 g' := by
  obtain ⟨pre, mpre, h1, h2, h3, h4⟩ := hi.ex
  cases hfs with
  | same ht hm =>
    exact ⟨⟨pre, mpre, by rw [ht.frames]; exact h1, by rw [hm]; exact h2, h3, by rw [ht.minAlign]; exact h4⟩,
      hi.cov.trans ht.cov⟩
  | push f hf hm hma hc =>
    refine ⟨⟨f :: pre, (if f.scopeLike then [g.s.nextId] else []) ++ mpre, ?_, ?_, ?_, ?_⟩, hi.cov.trans hc⟩
    · rw [hf, h1]; rfl
    · rw [hm, h2]
      cases f.scopeLike <;> simp
    · cases hsl : f.scopeLike <;> simp [scopeCount, hsl, h3] <;> omega
    · show belowAll pre (f.below g'.s.minAlign) = a0
      rw [hma]; exact h4
  | pop f m hf hm hma hc =>
    cases pre with
    | nil =>
      exfalso
      obtain ⟨pre', hp'⟩ := hab
      rw [hf] at h1
      simp only [List.nil_append] at h1
      have := congrArg List.length hp'
      rw [← h1] at this
      simp only [List.length_append, List.length_cons] at this
      omega
    | cons f0 pre0 =>
      rw [hf] at h1
      simp only [List.cons_append, List.cons.injEq] at h1
      obtain ⟨rfl, h1⟩ := h1
      cases hsl : f.scopeLike with
      | false =>
        simp only [hsl, Bool.false_eq_true, ↓reduceIte] at hm
        refine ⟨⟨pre0, mpre, h1, by rw [← hm]; exact h2, ?_, ?_⟩, hi.cov.trans hc⟩
        · simpa [scopeCount, hsl] using h3
        · rw [hma]; exact h4
      | true =>
        simp only [hsl, ↓reduceIte] at hm
        simp only [scopeCount, hsl, ↓reduceIte] at h3
        cases mpre with
        | nil => simp at h3; omega
        | cons m1 mpre0 =>
          rw [hm] at h2
          simp only [List.cons_append, List.cons.injEq] at h2
          refine ⟨⟨pre0, mpre0, h1, h2.2, ?_, ?_⟩, hi.cov.trans hc⟩
          · simp only [List.length_cons] at h3; omega
          · rw [hma]; exact h4

/-- `FrameStep` of a `step` -/
theorem step_frameStep {g g' : GState} {op : Op} {resps : List BaseResp} {out : Out} {reqs : List BaseReq}
    (hs : step cfg g op resps = .ok (g', out, reqs)) : (g.s.frames = [] ∧ op.isBare = true) ∨ FrameStep g g' := by
  rcases stepCore_frameStep (step_ok hs).1 with h | h
  · exact .inl h
  · right
    cases h with
    | same a b => exact .same a b
    | push f a b c d => exact .push f a b c d
    | pop f m a b c d => exact .pop f m a b c d

/-- no exclusive-access operation in the history -/
def NoBare (w : List (Op × List BaseResp)) : Prop := ∀ x ∈ w, x.1.isBare = false

/-- a whole history that stays above `base` keeps it inside -/
theorem inside_runOps {base : List Frame} {bm : List Nat} {a0 : Nat} {s0 : State} :
    ∀ (w : List (Op × List BaseResp)) (g g2 : GState), (base ≠ [] ∨ NoBare w) → Inside base bm a0 s0 g →
      Above cfg base g w → runOps cfg g w = .ok g2 → Inside base bm a0 s0 g2 := by
  intro w
  induction w with
  | nil => intro g g2 _ hi _ hr; cases hr; exact hi
  | cons x rest ih =>
    intro g g2 hb hi ha hr
    obtain ⟨op, resps⟩ := x
    obtain ⟨g1, out, reqs, hs, hrest⟩ := runOps_cons hr
    have ha1 := ha.2 g1 out reqs hs
    have hb' : base ≠ [] ∨ NoBare rest := hb.imp id (fun h y hy => h y (List.mem_cons_of_mem _ hy))
    rcases step_frameStep hs with ⟨hf, hbare⟩ | hfs
    · exfalso
      rcases hb with hb | hb
      · exact hi.frames_ne hb hf
      · have := hb (op, resps) List.mem_cons_self
        rw [hbare] at this; cases this
    · exact ih g1 g2 hb' (hi.step hfs ha1.head) ha1 hrest

/-! ## operations that need an empty region stack cannot run inside -/

theorem drop_frames {g g' : GState} {out : Out} (hs : stepCore cfg g .drop = .ok (g', out)) : g.s.frames = [] :=
  fs_drop hs

theorem reset_frames {g g' : GState} {out : Out} (hs : stepCore cfg g .reset = .ok (g', out)) : g.s.frames = [] :=
  fs_reset hs

/-- inside a region (or in a history without exclusive-access operations) nothing is released to the base
    allocator: the log of the history contains no `dealloc` -/
theorem inside_no_release {base : List Frame} {bm : List Nat} {a0 : Nat} {s0 : State} :
    ∀ (w : List (Op × List BaseResp)) (g g2 : GState) (log : List LogEntry), (base ≠ [] ∨ NoBare w) →
      Inside base bm a0 s0 g → Above cfg base g w → runLog cfg g w = .ok (g2, log) → logReleases log = [] := by
  intro w
  induction w with
  | nil =>
    intro g g2 log _ _ _ hr
    simp only [runLog, pure, Except.pure, Except.ok.injEq, Prod.mk.injEq] at hr
    rw [← hr.2]; rfl
  | cons x rest ih =>
    intro g g2 log hb hi ha hr
    obtain ⟨op, resps⟩ := x
    obtain ⟨g1, out, reqs, log1, hs, hrest, rfl⟩ := runLog_cons hr
    have ha1 := ha.2 g1 out reqs hs
    have hb' : base ≠ [] ∨ NoBare rest := hb.imp id (fun h y hy => h y (List.mem_cons_of_mem _ hy))
    have hnb : op.isBare = true → False := by
      intro hbare
      rcases hb with hb | hb
      · rcases stepCore_frameStep (step_ok hs).1 with ⟨hf, _⟩ | hfs
        · exact hi.frames_ne hb hf
        · cases op <;> simp [Op.isBare] at hbare
          · exact hi.frames_ne hb (fs_drop (g := install g resps) (step_ok hs).1)
          · exact hi.frames_ne hb (fs_reset (g := install g resps) (step_ok hs).1)
          · exact hi.frames_ne hb (fs_resetToStart (g := install g resps) (step_ok hs).1)
          · exact hi.frames_ne hb (fs_withSettings (g := install g resps) (step_ok hs).1)
      · have := hb (op, resps) List.mem_cons_self
        rw [hbare] at this; cases this
    have hd : op ≠ .drop := by rintro rfl; exact hnb rfl
    have hrs : op ≠ .reset := by rintro rfl; exact hnb rfl
    have h0 := step_no_release hd hrs hs
    have hfs : FrameStep g g1 := by
      rcases step_frameStep hs with ⟨_, hbare⟩ | hfs
      · exact (hnb hbare).elim
      · exact hfs
    have h1 := ih g1 g2 log1 hb' (hi.step hfs ha1.head) ha1 hrest
    simp only [logReleases, List.flatMap_cons] at h1 ⊢
    rw [h0, h1]; rfl

/-! ## `reset_to` with the checkpoint of `g`, later -/

/-- after `reset_to_start` nothing is allocated -/
theorem resetToStart_allocated {s : State} (hcur : ∀ j, s.cur = .chunk j → ∃ c, s.chunks[j]? = some c) :
    (stats cfg (resetToStart cfg s)).allocated = (⟨0, 0, 0, 0, 0⟩ : StatsOut).allocated := by
  obtain ⟨cu, hc2⟩ : ∃ cu, s.cur = cu := ⟨_, rfl⟩
  cases cu with
  | chunk j =>
    obtain ⟨cj, hcj⟩ := hcur j hc2
    obtain ⟨l, hch⟩ : ∃ l, s.chunks = l := ⟨_, rfl⟩
    cases l with
    | nil => rw [hch] at hcj; cases hcj
    | cons c0 r0 => exact (C03.resetToStart_allocated_zero (cfg := cfg) (s' := s) (j := j) hc2 hch).2.2.1
  | unallocated =>
    have : resetToStart cfg s = s := by unfold resetToStart; simp only [hc2]
    rw [this, C10.stats_zero (Or.inr hc2)]
  | claimed =>
    have : resetToStart cfg s = s := by unfold resetToStart; simp only [hc2]
    rw [this, C10.stats_zero (Or.inl hc2)]

/-- `g` satisfies the invariant; `s2` is a later state that satisfies the geometry invariant and still has every
    chunk of `g` in place; `reset_to` is run by a handle whose minimum alignment is the one of `g`, with the
    checkpoint taken in `g`.  Then: `stats().allocated()` is what it was in `g`; if `g` had a current chunk, it is
    current again and the bump position is EXACTLY the one of `g`; no chunk was released or moved; the result
    satisfies the geometry invariant with the minimum alignment of `g`. -/
theorem resetTo_restores (hc : CfgOK cfg) {g : GState} (hg : Inv cfg g) {s2 s3 : State} (hg2 : GeomInv cfg s2)
    (hcov : ChunksCov g.s s2)
    (hr : resetTo cfg { s2 with minAlign := g.s.minAlign } (checkpoint cfg g.s) = .ok s3) :
    (stats cfg s3).allocated = (stats cfg g.s).allocated ∧
    (∀ i, g.s.cur = .chunk i → s3.cur = .chunk i ∧ curPos cfg s3 = curPos cfg g.s) ∧
    ChunksCov g.s s3 ∧ ChunksCov s2 s3 ∧ GeomInv cfg s3 ∧ s3.minAlign = g.s.minAlign := by
  have hgeo : CpGeom cfg s2 (checkpoint cfg g.s) := cpGeom_mono hcov (cpOK_checkpoint hg).geom
  have hcp : CheckpointOK cfg s2 (checkpoint cfg g.s) :=
    checkpointOK_of (s := { s2 with minAlign := g.s.minAlign }) hgeo hr
  obtain ⟨s', e1, e2, e3, e4, e5⟩ := C18.resetTo_outer hc hg2 hg.geom.minAlign hcp
  rw [hr] at e1
  cases e1
  have hcov23 : ChunksCov s2 s3 := ChunksCov.of_shape e4
  have hcov3 : ChunksCov g.s s3 := hcov.trans hcov23
  refine ⟨?_, ?_, hcov3, hcov23, e2, e3⟩
  · cases hcu : g.s.cur with
    | claimed => exact absurd hcu hg.notClaimed
    | unallocated =>
      rw [show stats cfg g.s = ⟨0, 0, 0, 0, 0⟩ from C10.stats_zero (Or.inr hcu)]
      have hk : (checkpoint cfg g.s).cur = .unallocated := hcu
      rcases Mem.resetTo_inv hr with ⟨_, h3⟩ | ⟨i, c, p, hi, _⟩
      · subst h3
        refine resetToStart_allocated (s := { s2 with minAlign := g.s.minAlign }) (fun j hj => ?_)
        obtain ⟨cj, hcj, _⟩ := hg2.cur j hj
        exact ⟨cj, hcj⟩
      · rw [hk] at hi; cases hi
    | chunk i =>
      obtain ⟨c, hci, hw, hd⟩ := hg.geom.curChunk hcu
      have hk : (checkpoint cfg g.s).cur = .chunk i := hcu
      have haddr : (checkpoint cfg g.s).addr = c.pos := by
        unfold checkpoint; simp only; exact curPos_chunk hcu hci
      obtain ⟨f1, _, f3⟩ := e5 i hk
      have hp3 := f3 (by rw [haddr]; exact hd)
      obtain ⟨c3, hc3, hb3, hs3⟩ := hcov3 i c hci
      have hpos : c3.pos = c.pos := by rw [← haddr, ← hp3, curPos_chunk f1 hc3]
      exact stats_allocated_congr hcu f1 hci hc3 hb3 hs3 hpos (fun j _ x hx => hcov3 j x hx)
  · intro i hcu
    obtain ⟨c, hci, hw, hd⟩ := hg.geom.curChunk hcu
    have hk : (checkpoint cfg g.s).cur = .chunk i := hcu
    have haddr : (checkpoint cfg g.s).addr = curPos cfg g.s := rfl
    obtain ⟨f1, _, f3⟩ := e5 i hk
    refine ⟨f1, ?_⟩
    rw [f3 (by rw [haddr, curPos_chunk hcu hci]; exact hd), haddr]

theorem keptThrough_head {b : Block} {g : GState} {w : List (Op × List BaseResp)}
    (h : C02.KeptThrough cfg b g w) : b ∈ g.s.live := by
  cases w with
  | nil => exact h
  | cons x rest => exact h.1

/-- the state a scope-like exit (or `reset_to` of a user checkpoint) produces from the result `s3` of `reset_to`:
    region stack `fr`, blocks and checkpoints younger than the mark of `g` forgotten -/
theorem exit_restores (hc : CfgOK cfg) {g g2 : GState} (hg : Inv cfg g) (hg2 : Inv cfg g2) (hcov : ChunksCov g.s g2.s)
    {s3 : State} (hr : resetTo cfg { g2.s with minAlign := g.s.minAlign } (checkpoint cfg g.s) = .ok s3)
    (fr : List Frame) :
    (stats cfg (killFrom { s3 with frames := fr } g.s.nextId)).allocated = (stats cfg g.s).allocated ∧
    (∀ i, g.s.cur = .chunk i → (killFrom { s3 with frames := fr } g.s.nextId).cur = .chunk i ∧
      curPos cfg (killFrom { s3 with frames := fr } g.s.nextId) = curPos cfg g.s) ∧
    ChunksCov g.s (killFrom { s3 with frames := fr } g.s.nextId) ∧
    ChunksCov g2.s (killFrom { s3 with frames := fr } g.s.nextId) ∧
    (killFrom { s3 with frames := fr } g.s.nextId).minAlign = g.s.minAlign ∧
    (∀ b ∈ (killFrom { s3 with frames := fr } g.s.nextId).live, b.id < g.s.nextId ∧ b ∈ g2.s.live) ∧
    (∀ b ∈ g2.s.live, b.id < g.s.nextId → b ∈ (killFrom { s3 with frames := fr } g.s.nextId).live) ∧
    (killFrom { s3 with frames := fr } g.s.nextId).reqs = g2.s.reqs ∧
    (killFrom { s3 with frames := fr } g.s.nextId).resps = g2.s.resps := by
  obtain ⟨r1, r2, r3, r4, r5, r6⟩ := resetTo_restores hc hg hg2.geom hcov hr
  have hl : s3.live = g2.s.live := (C03.resetTo_live hr).1
  have hq := resetTo_quiet hr
  refine ⟨r1, r2, r3, r4, r6, ?_, ?_, hq.1, hq.2.1⟩
  · intro b hb
    have hb' : b ∈ s3.live.filter (·.id < g.s.nextId) := hb
    rw [hl] at hb'
    simp only [List.mem_filter, decide_eq_true_eq] at hb'
    exact ⟨hb'.2, hb'.1⟩
  · intro b hb hlt
    show b ∈ s3.live.filter (·.id < g.s.nextId)
    rw [hl]
    simp only [List.mem_filter, decide_eq_true_eq]
    exact ⟨hb, hlt⟩

end Arena.Hist
