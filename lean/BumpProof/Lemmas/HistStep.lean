/-
  Lemmas/HistStep.lean — `Arena.Hist.Inv` is preserved by `stepCore`, by `step`, and along runs.
-/
import BumpProof.Lemmas.HistOpsD
import BumpProof.Lemmas.HistOpsGrow
import BumpProof.Lemmas.HistOpsShrink
import BumpProof.Lemmas.HistOpsClaimed
import BumpProof.Lemmas.HistOpsTry

set_option linter.unusedSimpArgs false
set_option linter.unusedVariables false

namespace Arena.Hist
open Rs

variable {cfg : Cfg}

/-- preservation by `stepCore`, operation by operation -/
theorem inv_stepCore {g g' : GState} {op : Op} {out : Out} (hcov : op.Covered) (h : Inv cfg g)
    (hr : RespsOK cfg g.s) (hf : RespsFresh g.s) (hs : stepCore cfg g op = .ok (g', out)) : Inv cfg g' := by
  cases op with
  | newWithSize n =>
    have hn : n < 2 ^ 64 := by simpa [Op.Covered, Op.covered] using hcov
    exact inv_newWithSize hn h hr hf hs
  | newWithCapacity L => exact inv_newWithCapacity h hr hf hs
  | newUnallocated => exact inv_newUnallocated h hs
  | drop => exact inv_drop h hs
  | allocate L z via => exact inv_allocate h hr hf hs
  | deallocate b via => exact inv_deallocate h hs
  | grow b L z via => exact inv_grow h hr hf hs
  | shrink b L via => exact inv_shrink h hr hf hs
  | allocLayout L hh => exact inv_allocLayout h hr hf hs
  | shrinkSlice b n => exact inv_shrinkSlice h hr hf hs
  | prepare L => exact inv_prepare h hr hf hs
  | commit size rev => exact inv_commit h hr hs
  | prepareSlice esize ealign minCap rev =>
    have hp : Rs.is_power_of_two ealign = true := by simpa [Op.Covered, Op.covered] using hcov
    exact inv_prepareSlice hp h hr hf hs
  | fillPrepared len seed => exact inv_fillPrepared h hs
  | commitSlice len => exact inv_commitSlice h hr hs
  | abandonPrepared => exact inv_abandonPrepared h hs
  | reserve n dyn => exact inv_reserve h hr hf hs
  | scopeEnter => exact inv_scopeEnter h hs
  | scopeExit => exact inv_scopeExit h hs
  | checkpoint k => exact inv_checkpoint h hs
  | resetTo k => exact inv_resetTo h hs
  | reset => exact inv_reset h hs
  | resetToStart => exact inv_resetToStart h hs
  | claim => exact inv_claim h hs
  | claimEnd => exact inv_claimEnd h hs
  | onClaimed op' => exact inv_onClaimed h hs
  | alignedEnter n => exact inv_alignedEnter h hs
  | alignedExit => exact inv_alignedExit h hs
  | scopedAlignedEnter n => exact inv_scopedAlignedEnter h hs
  | scopedAlignedExit => exact inv_scopedAlignedExit h hs
  | withSettings n ga cl => exact inv_withSettings h hs
  | allocTryWith L off vsize ok inner mut_ =>
    have hsz : L.align ∣ L.size := by
      have : L.size % L.align = 0 := by simpa [Op.Covered, Op.covered] using hcov
      exact Nat.dvd_of_mod_eq_zero this
    exact inv_allocTryWith hsz h hr hf hs
  | write b seed => exact inv_write h hs
  | split b at_ => exact inv_split h hs

/-- what `step` does, taken apart -/
theorem step_ok {g g' : GState} {op : Op} {resps : List BaseResp} {out : Out} {reqs : List BaseReq}
    (hs : step cfg g op resps = .ok (g', out, reqs)) :
    stepCore cfg (install g resps) op = .ok (g', out) ∧ g'.s.resps = [] ∧ reqs = g'.s.reqs := by
  unfold step at hs
  simp only [bind, Except.bind, pure, Except.pure] at hs
  split at hs
  · cases hs
  · rename_i x hx
    obtain ⟨g1, o1⟩ := x
    simp only at hs
    split at hs
    · cases hs
    · rename_i hemp
      cases hs
      refine ⟨hx, ?_, rfl⟩
      simpa using hemp

/-- THE STEP THEOREM: the invariant is preserved by every covered operation under a correct environment -/
theorem inv_step {g g' : GState} {op : Op} {resps : List BaseResp} {out : Out} {reqs : List BaseReq}
    (hcov : op.Covered) (h : Inv cfg g) (henv : EnvOK cfg g resps)
    (hs : step cfg g op resps = .ok (g', out, reqs)) : Inv cfg g' :=
  inv_stepCore hcov (h.install resps) henv.1 henv.2 (step_ok hs).1

theorem runOps_cons {g g'' : GState} {op : Op} {resps : List BaseResp} {rest : List (Op × List BaseResp)}
    (h : runOps cfg g ((op, resps) :: rest) = .ok g'') :
    ∃ g' out reqs, step cfg g op resps = .ok (g', out, reqs) ∧ runOps cfg g' rest = .ok g'' := by
  unfold runOps at h
  simp only [bind, Except.bind] at h
  split at h
  · cases h
  · rename_i x hx
    obtain ⟨g', out, reqs⟩ := x
    exact ⟨g', out, reqs, hx, h⟩

/-- THE RUN THEOREM: every state reached by a finite history of covered operations under a correct
    environment satisfies the invariant -/
theorem inv_runOps : ∀ (ops : List (Op × List BaseResp)) (g g' : GState), Inv cfg g → AllCovered ops →
    RunEnvOK cfg g ops → runOps cfg g ops = .ok g' → Inv cfg g' := by
  intro ops
  induction ops with
  | nil =>
    intro g g' h _ _ hr
    unfold runOps at hr
    cases hr
    exact h
  | cons x rest ih =>
    intro g g' h hc he hr
    obtain ⟨op, resps⟩ := x
    obtain ⟨g1, out, reqs, hs, hrest⟩ := runOps_cons hr
    obtain ⟨he1, he2⟩ := he
    have h1 := inv_step (hc (op, resps) List.mem_cons_self) h he1 hs
    exact ih g1 g' h1 (fun y hy => hc y (List.mem_cons_of_mem _ hy)) (he2 g1 out reqs hs) hrest

/-- reachable from the initial state -/
theorem inv_reachable (hc : CfgOK cfg) {ops : List (Op × List BaseResp)} {g : GState}
    (hcov : AllCovered ops) (henv : RunEnvOK cfg (initG cfg) ops) (hr : runOps cfg (initG cfg) ops = .ok g) :
    Inv cfg g :=
  inv_runOps ops _ _ (inv_init hc) hcov henv hr

end Arena.Hist
