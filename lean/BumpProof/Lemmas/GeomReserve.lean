/-
  Lemmas/GeomReserve.lean — `reserve` (typed and through `dyn BumpAllocatorCore`).
-/
import BumpProof.Lemmas.GeomSlow

set_option linter.unusedSimpArgs false
set_option linter.unusedVariables false

namespace Arena
open Rs Lemmas

section
variable {cfg : Cfg}

theorem walkReserve_le (cfg : Cfg) (chunks : List Chunk) :
    ∀ (fuel i additional rest : Nat), walkReserve cfg chunks fuel i additional = some rest → rest ≤ additional := by
  intro fuel
  induction fuel with
  | zero => intro i a r h; unfold walkReserve at h; cases h; exact Nat.le_refl _
  | succ n ih =>
    intro i a r h
    unfold walkReserve at h
    split at h
    · cases h; exact Nat.le_refl _
    · unfold Rs.checked_sub at h
      split at h
      · cases h
      · rename_i r' hr'
        split at hr'
        · cases hr'
          have := ih _ _ _ h
          omega
        · cases hr'

/-- a byte layout `{size, align := 1}` accepted by `layoutOk` is a valid layout -/
theorem bytes_layout_valid {n : Nat} (h : layoutOk n 1 = true) : ({ size := n, align := 1 } : Layout).Valid := by
  unfold layoutOk at h
  exact ⟨⟨0, by decide, rfl⟩, by simpa using h⟩

/-- post-condition of `reserve` -/
structure ReservePost (cfg : Cfg) (s s' : State) : Prop where
  inv : GeomInv cfg s'
  resps : RespsOK cfg s'
  minAlign : s'.minAlign = s.minAlign
  trace : Trace s s'

theorem reserve_ok (hc : CfgOK cfg) {s : State} (h : GeomInv cfg s) (hr : RespsOK cfg s) (additional : Nat) :
    (∀ s' r, reserve cfg s additional = .ok (s', r) → ReservePost cfg s s') ∧
    ((∀ rest, rest ≤ additional → BaseOK cfg s { size := rest, align := 1 }) →
      ∃ s' r, reserve cfg s additional = .ok (s', r)) := by
  unfold reserve
  cases hcur : s.cur with
  | claimed =>
    refine ⟨?_, fun _ => ⟨_, _, rfl⟩⟩
    intro s' r he; cases he
    exact ⟨h, hr, rfl, Trace.refl _⟩
  | unallocated =>
    simp only
    cases hlo : layoutOk additional 1
    · refine ⟨?_, fun _ => ⟨_, _, rfl⟩⟩
      intro s' r he; cases he
      exact ⟨h, hr, rfl, Trace.refl _⟩
    · have hL := bytes_layout_valid hlo
      obtain ⟨n1, n2⟩ := newChunkForCapacity_post hc h hr hL
      simp only [Bool.not_true, Bool.false_eq_true, ↓reduceIte]
      constructor
      · intro s' r he
        cases hn : newChunkForCapacity cfg s { size := additional, align := 1 } with
        | error f => rw [hn] at he; cases he
        | ok x =>
          obtain ⟨s1, r1⟩ := x
          have np := n1 s1 r1 hn
          rw [hn] at he
          cases r1 with
          | error e => cases he; exact ⟨np.inv, np.resps, np.minAlign, np.trace⟩
          | ok i =>
            cases he
            exact ⟨np.withCur, np.resps, np.minAlign, np.trace⟩
      · intro hb
        have : ∃ s1 r1, newChunkForCapacity cfg s { size := additional, align := 1 } = .ok (s1, r1) := by
          apply n2
          intro size hs
          apply hb additional (Nat.le_refl _) size
          unfold requestSize; simp only [hcur]; exact hs
        obtain ⟨s1, r1, hn⟩ := this
        rw [hn]
        cases r1 <;> exact ⟨_, _, rfl⟩
  | chunk i =>
    obtain ⟨c, hi, hw, hd⟩ := h.curChunk hcur
    simp only [hi]
    cases hsub : Rs.checked_sub additional (c.remaining cfg) with
    | none =>
      refine ⟨?_, fun _ => ⟨_, _, rfl⟩⟩
      intro s' r he; cases he
      exact ⟨h, hr, rfl, Trace.refl _⟩
    | some rest =>
      simp only
      have hrest : rest ≤ additional := by
        unfold Rs.checked_sub at hsub
        split at hsub
        · cases hsub; omega
        · cases hsub
      cases hwr : walkReserve cfg s.chunks (s.chunks.length - (i + 1)) i rest with
      | none =>
        refine ⟨?_, fun _ => ⟨_, _, rfl⟩⟩
        intro s' r he; cases he
        exact ⟨h, hr, rfl, Trace.refl _⟩
      | some rest2 =>
        simp only
        have hrest2 := walkReserve_le cfg _ _ _ _ _ hwr
        by_cases h0 : rest2 = 0
        · simp only [h0, ↓reduceIte]
          refine ⟨?_, fun _ => ⟨_, _, rfl⟩⟩
          intro s' r he; cases he
          exact ⟨h, hr, rfl, Trace.refl _⟩
        · simp only [h0, ↓reduceIte]
          cases hlo : layoutOk rest2 1
          · refine ⟨?_, fun _ => ⟨_, _, rfl⟩⟩
            intro s' r he; cases he
            exact ⟨h, hr, rfl, Trace.refl _⟩
          · have hL := bytes_layout_valid hlo
            obtain ⟨last, hlast⟩ := getLast?_isSome_of_getElem? hi
            obtain ⟨n1, n2⟩ := appendFor_post hc h hr hL hlast
            simp only [Bool.not_true, Bool.false_eq_true, ↓reduceIte]
            constructor
            · intro s' r he
              cases hn : appendFor cfg s { size := rest2, align := 1 } with
              | error f => rw [hn] at he; cases he
              | ok x =>
                obtain ⟨s1, r1⟩ := x
                have np := n1 s1 r1 hn
                rw [hn] at he
                cases r1 with
                | error e => cases he; exact ⟨np.inv, np.resps, np.minAlign, np.trace⟩
                | ok i => cases he; exact ⟨np.inv, np.resps, np.minAlign, np.trace⟩
            · intro hb
              have : ∃ s1 r1, appendFor cfg s { size := rest2, align := 1 } = .ok (s1, r1) := by
                apply n2
                intro size hs
                apply hb rest2 (by omega) size
                unfold requestSize; simp only [hcur, hlast]; exact hs
              obtain ⟨s1, r1, hn⟩ := this
              rw [hn]
              cases r1 <;> exact ⟨_, _, rfl⟩

theorem reserveDyn_ok (hc : CfgOK cfg) {s : State} (h : GeomInv cfg s) (hr : RespsOK cfg s) (additional : Nat) :
    (∀ s' r, reserveDyn cfg s additional = .ok (s', r) → ReservePost cfg s s') ∧
    (BaseOK cfg s { size := additional, align := 1 } → ∃ s' r, reserveDyn cfg s additional = .ok (s', r)) := by
  unfold reserveDyn
  cases hlo : layoutOk additional 1
  · refine ⟨?_, fun _ => ⟨_, _, rfl⟩⟩
    intro s' r he; cases he
    exact ⟨h, hr, rfl, Trace.refl _⟩
  · have hL := bytes_layout_valid hlo
    have hcu : Hints.custom.sma = true → ({ size := additional, align := 1 } : Layout).align ∣
        ({ size := additional, align := 1 } : Layout).size := fun hx => by cases hx
    obtain ⟨a1, a2⟩ := allocGeneric_ok hc h hr .range hL hcu hcu (fun _ => Nat.one_dvd _)
      (hints := Hints.custom) (hSlow := Hints.custom)
    simp only [Bool.not_true, Bool.false_eq_true, ↓reduceIte]
    constructor
    · intro s' r he
      cases hg : allocGeneric cfg .range s { size := additional, align := 1 } Hints.custom Hints.custom with
      | error f => rw [hg] at he; cases he
      | ok x =>
        obtain ⟨s1, r1⟩ := x
        rw [hg] at he
        cases he
        have sp := a1 _ _ hg
        exact ⟨sp.inv, sp.resps, sp.minAlign, sp.trace⟩
    · intro hb
      obtain ⟨s1, r1, hg⟩ := a2 hb
      rw [hg]
      exact ⟨_, _, rfl⟩

/-- `RawBump::make_allocated` -/
theorem makeAllocated_ok (hc : CfgOK cfg) {s : State} (h : GeomInv cfg s) (hr : RespsOK cfg s) :
    (∀ s' r, makeAllocated cfg s = .ok (s', r) → ReservePost cfg s s' ∧ (r = .ok () → ∃ j, s'.cur = .chunk j)) ∧
    ((∀ size, Spec.calcSize cfg.up cfg.hdr cfg.minChunk = some size → HeadOK cfg s size) →
      (∃ size, Spec.calcSize cfg.up cfg.hdr cfg.minChunk = some size) → ∃ s' r, makeAllocated cfg s = .ok (s', r)) := by
  unfold makeAllocated
  cases hcur : s.cur with
  | claimed =>
    refine ⟨?_, fun _ _ => ⟨_, _, rfl⟩⟩
    intro s' r he; cases he
    exact ⟨⟨h, hr, rfl, Trace.refl _⟩, fun hx => by cases hx⟩
  | chunk i =>
    refine ⟨?_, fun _ _ => ⟨_, _, rfl⟩⟩
    intro s' r he; cases he
    exact ⟨⟨h, hr, rfl, Trace.refl _⟩, fun _ => ⟨i, hcur⟩⟩
  | unallocated =>
    have hmm : Nat.max cfg.minChunk cfg.minChunk = cfg.minChunk := Nat.max_self _
    simp only [calcSize_eq hc hc.minChunk, hmm, r_ok_bind]
    cases hs : Spec.calcSize cfg.up cfg.hdr cfg.minChunk with
    | none =>
      refine ⟨?_, ?_⟩
      · intro s' r he; cases he
      · intro _ hex
        obtain ⟨size, hx⟩ := hex
        cases hx
    | some size =>
      obtain ⟨_, hsa, hsz, _, _⟩ := C12.calcSize_some hc.hdr hs
      simp only
      constructor
      · intro s' r he
        cases hn : newChunk cfg s size with
        | error f => rw [hn] at he; cases he
        | ok x =>
          obtain ⟨s1, r1⟩ := x
          have np := (newChunk_post hc h hr hsz hn).1
          rw [hn] at he
          cases r1 with
          | error e =>
            cases he
            exact ⟨⟨np.inv, np.resps, np.minAlign, np.trace⟩, fun hx => by cases hx⟩
          | ok i =>
            cases he
            exact ⟨⟨np.withCur, np.resps, np.minAlign, np.trace⟩, fun _ => ⟨i, rfl⟩⟩
      · intro hb _
        obtain ⟨s1, r1, hn⟩ := newChunk_noFault hc hr hsa (hb size rfl)
        rw [hn]
        cases r1 <;> exact ⟨_, _, rfl⟩

/-- `RawBump::manually_drop`: every chunk is released -/
theorem manuallyDrop_inv {s : State} (h : GeomInv cfg s) : GeomInv cfg (manuallyDrop cfg s) := by
  unfold manuallyDrop
  split
  · refine ⟨?_, h.minAlign, ?_⟩
    · intro i c hi; simp at hi
    · intro i hi; cases hi
  · exact ⟨h.chunks, h.minAlign, h.cur⟩

end
end Arena
