/-
  Lemmas/LifeStep.lean — one step of the region calculus preserves the invariant of `Lemmas/LifeInv.lean`
  and does not fault, for every signature table that satisfies `sigOK`.
-/
import BumpProof.Lemmas.LifeInv

namespace Life

/-! ### inversion of the small static functions -/

theorem lookupValid_ok {Γ : SEnv} {v : Var} {e : Entry} (h : Γ.lookupValid v = .ok e) :
    e ∈ Γ.ents ∧ e.var = v ∧ e.valid = true := by
  unfold SEnv.lookupValid at h
  split at h
  · cases h
  · split at h
    · cases h
    · rename_i e' hf
      split at h
      · cases h
        rename_i hv
        unfold SEnv.find at hf
        refine ⟨List.mem_of_find?_eq_some hf, ?_, hv⟩
        have := List.find?_some hf
        simpa using this
      · cases h

theorem declare_ok {Γ Γ' : SEnv} {e : Entry} (h : Γ.declare e = .ok Γ') :
    e.var ∉ Γ.used ∧ Γ' = { Γ with ents := e :: Γ.ents, used := e.var :: Γ.used } := by
  unfold SEnv.declare at h
  split at h
  · cases h
  · rename_i hc
    cases h
    exact ⟨by simpa using hc, rfl⟩

/-! ### facts that follow from the invariant -/

theorem Inv.handle_arena_lt {Γ : SEnv} {σ : DState} (inv : Inv Γ σ) {e : Entry} (he : e ∈ Γ.ents) (hv : e.valid = true)
    (hh : e.isHandle = true) {r : Rt} (hr : σ.get e.var = some r) : r.arena < σ.arenas.length := by
  rcases inv.typed e he hv with ⟨r', hr', _, _, _, h4, _⟩
  rw [hr] at hr'; cases hr'
  exact DState.lt_of_epochs_ne_nil (h4 hh)

theorem Inv.val_arena_lt {Γ : SEnv} {σ : DState} (inv : Inv Γ σ) {e : Entry} (he : e ∈ Γ.ents) (hv : e.valid = true)
    (hk : e.kind = .val) {r : Rt} (hr : σ.get e.var = some r) {ex : Nat} (hex : r.epoch = some ex) :
    r.arena < σ.arenas.length :=
  DState.lt_of_epochs_ne_nil (List.ne_nil_of_mem (inv.vals e he hv hk r hr ex hex).1)

/-- an entry that can end epochs of arena `a` lives below the end of the arena table (if `a` has epochs at all) -/
theorem Inv.ender_arena_lt {Γ : SEnv} {σ : DState} (inv : Inv Γ σ) {g : Entry} (hg : g ∈ Γ.ents) (hv : g.valid = true)
    {rg : Rt} (hr : σ.get g.var = some rg) {a : Nat} (hon : EnderOn σ g rg a) : a < σ.arenas.length := by
  rcases hon with ⟨hk, ha, _⟩ | ⟨hk, _, ha⟩ | ⟨hk, ha⟩
  · have : g.isHandle = true := by simp [Entry.isHandle, hk]
    exact ha ▸ inv.handle_arena_lt hg hv this hr
  · have : g.isHandle = true := by simp [Entry.isHandle, hk]
    exact ha ▸ inv.handle_arena_lt hg hv this hr
  · rcases inv.typed g hg hv with ⟨r', hr', _, _, h3, _⟩
    rw [hr] at hr'; cases hr'
    exact (h3 hk).2 a ha

/-! ### a new arena -/

/-- the arena table grows by one arena with a single fresh epoch -/
def DState.newArena (σ : DState) : DState := { σ with arenas := σ.arenas ++ [[σ.next]], next := σ.next + 1 }

theorem DState.epochs_newArena_lt (σ : DState) {a : Nat} (h : a < σ.arenas.length) : σ.newArena.epochs a = σ.epochs a := by
  simp [DState.epochs, DState.newArena, List.getD, List.getElem?_append_left h]

theorem DState.epochs_newArena_self (σ : DState) : σ.newArena.epochs σ.arenas.length = [σ.next] := by
  simp [DState.epochs, DState.newArena, List.getD]

theorem DState.epochs_newArena_gt (σ : DState) {a : Nat} (h : σ.arenas.length < a) : σ.newArena.epochs a = [] := by
  have : (σ.arenas ++ [[σ.next]]).length ≤ a := by simp; omega
  simp [DState.epochs, DState.newArena, List.getD, List.getElem?_eq_none this]

theorem Inv.newArena {Γ : SEnv} {σ : DState} (inv : Inv Γ σ) : Inv Γ σ.newArena := by
  apply inv.dyn (σ' := σ.newArena) rfl rfl
  · intro a
    rcases Nat.lt_trichotomy a σ.arenas.length with h | h | h
    · rw [DState.epochs_newArena_lt σ h]
      exact ⟨(inv.epochs a).1, fun e he => Nat.lt_succ_of_lt ((inv.epochs a).2 e he)⟩
    · subst h
      rw [DState.epochs_newArena_self]
      exact ⟨by simp, fun e he => by simp at he; subst he; exact Nat.lt_succ_self _⟩
    · rw [DState.epochs_newArena_gt σ h]
      exact ⟨by simp, fun e he => by cases he⟩
  · exact Nat.le_succ _
  · simp [DState.newArena]
  · intro h hh hv hH rh hrh
    have hlt := inv.handle_arena_lt hh hv hH hrh
    rw [DState.epochs_newArena_lt σ hlt]
    rcases inv.typed h hh hv with ⟨r', hr', _, _, _, h4, _⟩
    rw [hrh] at hr'; cases hr'
    exact h4 hH
  · intro e he hv hk r hr ex hex
    rw [DState.epochs_newArena_lt σ (inv.val_arena_lt he hv hk hr hex)]
    exact (inv.vals e he hv hk r hr ex hex).1
  · intro g hg hv hk rg hr eg heg
    have hH : g.isHandle = true := by simp [Entry.isHandle, hk]
    rw [DState.epochs_newArena_lt σ (inv.handle_arena_lt hg hv hH hr)]
    rcases inv.typed g hg hv with ⟨r', hr', _, _, _, _, _, _, h7⟩
    rw [hr] at hr'; cases hr'
    exact h7 hk eg heg
  · intro g hg hv rg hr a hon
    rcases hon with ⟨hk, ha, i, hi, hlt⟩ | h | h
    · have hH : g.isHandle = true := by simp [Entry.isHandle, hk]
      have hal := ha ▸ inv.handle_arena_lt hg hv hH hr
      rw [DState.epochs_newArena_lt σ hal] at hlt
      exact Or.inl ⟨hk, ha, i, hi, hlt⟩
    · exact Or.inr (Or.inl h)
    · exact Or.inr (Or.inr h)
  · intro g hg hv hk rg hr i hi _ ex hex hex' hnot
    have hH : g.isHandle = true := by simp [Entry.isHandle, hk]
    rw [DState.epochs_newArena_lt σ (inv.handle_arena_lt hg hv hH hr)] at hnot
    exact hnot

theorem EnderOn_of_newArena {Γ : SEnv} {σ : DState} (inv : Inv Γ σ) {g : Entry} (hg : g ∈ Γ.ents) (hv : g.valid = true)
    {rg : Rt} (hr : σ.get g.var = some rg) {a : Nat} (hon : EnderOn σ.newArena g rg a) : EnderOn σ g rg a := by
  rcases hon with ⟨hk, ha, i, hi, hlt⟩ | h | h
  · have hH : g.isHandle = true := by simp [Entry.isHandle, hk]
    have hal := ha ▸ inv.handle_arena_lt hg hv hH hr
    rw [DState.epochs_newArena_lt σ hal] at hlt
    exact Or.inl ⟨hk, ha, i, hi, hlt⟩
  · exact Or.inr (Or.inl h)
  · exact Or.inr (Or.inr h)

/-- declaring a handle that owns a brand-new arena: nothing that existed before is on that arena -/
theorem Inv.addOnNewArena {Γ : SEnv} {σ : DState} (inv : Inv Γ σ) (ne : Entry) (r : Rt)
    (hfresh : ne.var ∉ Γ.used) (hvalid : ne.valid = true) (harena : r.arena = σ.arenas.length)
    (hT : Typed σ.newArena ne r) (hself : ne.self = []) (hparam : ne.param = [])
    (hk : ne.kind = .bump ∨ ne.kind = .pool) (hpool : ne.kind = .pool → r.arenas = []) :
    Inv { Γ with ents := ne :: Γ.ents, used := ne.var :: Γ.used } (σ.newArena.set ne.var r) := by
  have inv1 := inv.newArena
  have hkv : ne.kind ≠ .val := by rcases hk with h | h <;> rw [h] <;> decide
  have notOn : ∀ a, EnderOn σ.newArena ne r a → a = σ.arenas.length := by
    intro a hon
    rcases hon with ⟨_, ha, _⟩ | ⟨_, _, ha⟩ | ⟨hp, ha⟩
    · rw [← ha, harena]
    · rw [← ha, harena]
    · rw [hpool hp] at ha; cases ha
  apply inv1.add ne r hfresh hvalid hT
  · refine ⟨?_, ?_, ?_⟩
    · intro l hl; rw [hparam] at hl; cases hl
    · intro p m h; rw [hself] at h; cases h
    · intro p m h; rw [hparam] at h; cases h
  · intro h; exact absurd h hkv
  · intro e he hv hke re hre ex hex hend
    have h1 := notOn _ hend.1
    have h2 := inv.val_arena_lt he hv hke hre hex
    omega
  · intro _ g hg hgv rg hrg hon
    have := inv.ender_arena_lt hg hgv hrg (EnderOn_of_newArena inv hg hgv hrg hon)
    omega
  · intro h hh hv hH rh hrh hon
    have h1 := notOn _ hon
    have h2 := inv.handle_arena_lt hh hv hH hrh
    omega
  · intro _ _ h2 hh2 hv2 hH2 r2 hr2 har
    have := inv.handle_arena_lt hh2 hv2 hH2 hr2
    omega
  · intro _ h1 hh1 hv1 hH1 _ r1 hr1 har
    have := inv.handle_arena_lt hh1 hv1 hH1 hr1
    omega

theorem step_newBump {fl : Flags} {Γ Γ' : SEnv} {σ : DState} (inv : Inv Γ σ) {b : Var}
    (hc : Γ.declare ⟨b, .bump, .own, [], [], true, Γ.depth⟩ = .ok Γ') :
    ∃ σ', runStmt fl σ (.newBump b) = .ok σ' ∧ Inv Γ' σ' := by
  rcases declare_ok hc with ⟨hfresh, rfl⟩
  refine ⟨_, rfl, ?_⟩
  refine inv.addOnNewArena ⟨b, .bump, .own, [], [], true, Γ.depth⟩ ⟨.bump, σ.arenas.length, none, true, []⟩ hfresh rfl rfl ?_ rfl rfl
    (Or.inl rfl) (fun h => by cases h)
  refine ⟨rfl, ?_, ?_, ?_, ?_, ?_, ?_⟩
  · intro _; exact ⟨by simp, fun _ => rfl⟩
  · intro h; cases h
  · intro _
    show σ.newArena.epochs σ.arenas.length ≠ []
    rw [DState.epochs_newArena_self]; simp
  · intro h; cases h
  · intro ex h; cases h
  · intro h; cases h

/-- declaring an entry with empty regions whose run-time object can end nothing and points nowhere -/
theorem Inv.addInert {Γ : SEnv} {σ : DState} (inv : Inv Γ σ) (ne : Entry) (r : Rt)
    (hfresh : ne.var ∉ Γ.used) (hvalid : ne.valid = true)
    (hT : Typed σ ne r) (hself : ne.self = []) (hparam : ne.param = [])
    (hk : ne.kind = .val ∨ ne.kind = .pool) (hep : r.epoch = none) (hpool : r.arenas = []) :
    Inv { Γ with ents := ne :: Γ.ents, used := ne.var :: Γ.used } (σ.set ne.var r) := by
  have hH : ne.isHandle = false := by rcases hk with h | h <;> simp [Entry.isHandle, h]
  have notOn : ∀ a, ¬ EnderOn σ ne r a := by
    intro a hon
    rcases hon with ⟨hg, _⟩ | ⟨hb, _⟩ | ⟨_, ha⟩
    · rcases hk with h | h <;> rw [h] at hg <;> cases hg
    · rcases hk with h | h <;> rw [h] at hb <;> cases hb
    · rw [hpool] at ha; cases ha
  apply inv.add ne r hfresh hvalid hT
  · refine ⟨?_, ?_, ?_⟩
    · intro l hl; rw [hparam] at hl; cases hl
    · intro p m h; rw [hself] at h; cases h
    · intro p m h; rw [hparam] at h; cases h
  · intro _ ex hex; rw [hep] at hex; cases hex
  · intro e he hv hke re hre ex hex hend; exact absurd hend.1 (notOn _)
  · intro h; rw [hH] at h; cases h
  · intro h hh hv hH' rh hrh hon; exact absurd hon (notOn _)
  · intro h; rw [hH] at h; cases h
  · intro h; rw [hH] at h; cases h

theorem step_newPool {fl : Flags} {Γ Γ' : SEnv} {σ : DState} (inv : Inv Γ σ) {p : Var}
    (hc : Γ.declare ⟨p, .pool, .own, [], [], true, Γ.depth⟩ = .ok Γ') :
    ∃ σ', runStmt fl σ (.newPool p) = .ok σ' ∧ Inv Γ' σ' := by
  rcases declare_ok hc with ⟨hfresh, rfl⟩
  refine ⟨_, rfl, ?_⟩
  refine inv.addInert ⟨p, .pool, .own, [], [], true, Γ.depth⟩ ⟨.pool, 0, none, true, []⟩ hfresh rfl ?_ rfl rfl (Or.inr rfl) rfl rfl
  refine ⟨rfl, ?_, ?_, ?_, ?_, ?_, ?_⟩
  · intro h; cases h
  · intro _; exact ⟨rfl, fun a ha => by cases ha⟩
  · intro h; simp [Entry.isHandle] at h
  · intro h; cases h
  · intro ex h; cases h
  · intro h; cases h

theorem step_slot {fl : Flags} {Γ Γ' : SEnv} {σ : DState} (inv : Inv Γ σ) {o : Var}
    (hc : Γ.declare ⟨o, .val, .own, [], [], true, Γ.depth⟩ = .ok Γ') :
    ∃ σ', runStmt fl σ (.slot o) = .ok σ' ∧ Inv Γ' σ' := by
  rcases declare_ok hc with ⟨hfresh, rfl⟩
  refine ⟨_, rfl, ?_⟩
  refine inv.addInert ⟨o, .val, .own, [], [], true, Γ.depth⟩ (Rt.val 0 none) hfresh rfl ?_ rfl rfl (Or.inl rfl) rfl rfl
  refine ⟨rfl, ?_, ?_, ?_, ?_, ?_, ?_⟩
  · intro h; cases h
  · intro h; cases h
  · intro h; simp [Entry.isHandle] at h
  · intro h; cases h
  · intro ex hex; cases hex
  · intro h; cases h

theorem Inv.get_of_valid {Γ : SEnv} {σ : DState} (inv : Inv Γ σ) {e : Entry} (he : e ∈ Γ.ents) (hv : e.valid = true) :
    ∃ r, σ.get e.var = some r ∧ Typed σ e r := inv.typed e he hv

/-- the memory of a valid value is still there -/
theorem Inv.alive {Γ : SEnv} {σ : DState} (inv : Inv Γ σ) {e : Entry} (he : e ∈ Γ.ents) (hv : e.valid = true)
    (hk : e.kind = .val) {r : Rt} (hr : σ.get e.var = some r) : σ.alive r = true := by
  unfold DState.alive
  cases hep : r.epoch with
  | none => rfl
  | some ex =>
    have := (inv.vals e he hv hk r hr ex hep).1
    simpa using this

theorem Inv.useShr {Γ : SEnv} {σ : DState} (inv : Inv Γ σ) (v : Var) : Inv (Γ.useShr v) σ := inv.kill (·.mutOn v)
theorem Inv.useMut {Γ : SEnv} {σ : DState} (inv : Inv Γ σ) (v : Var) : Inv (Γ.useMut v) σ := inv.kill (·.on v)

theorem step_use {t : Table} {fl : Flags} {Γ Γ' : SEnv} {σ : DState} (inv : Inv Γ σ) {x : Var}
    (hc : checkStmt t fl Γ (.use x) = .ok Γ') :
    ∃ σ', runStmt fl σ (.use x) = .ok σ' ∧ Inv Γ' σ' := by
  simp only [checkStmt] at hc
  split at hc
  · cases hc
  · rename_i e hl
    cases hc
    rcases lookupValid_ok hl with ⟨he, rfl, hv⟩
    rcases inv.get_of_valid he hv with ⟨r, hr, ht⟩
    refine ⟨σ, ?_, ?_⟩
    · simp only [runStmt, hr]
      by_cases hk : e.kind = .val
      · have := inv.alive he hv hk hr
        simp [this]
      · have : (r.kind == Kind.val) = false := by rw [ht.1]; simpa using hk
        simp [this]
    · by_cases hk : e.kind = .val
      · simp [hk]; exact inv
      · have : (e.kind == Kind.val) = false := by simpa using hk
        simp [this]; exact inv.useShr _

/-! ### the epochs of one arena change -/

/-- arena `a` gets the epoch stack `eps'` (fresh epochs are numbered from `σ.next` on) -/
def DState.withEpochs (σ : DState) (a : Nat) (eps' : List Nat) (n' : Nat) : DState := { σ.setEpochs a eps' with next := n' }

theorem DState.epochs_withEpochs_ne (σ : DState) {a b : Nat} (h : b ≠ a) (eps' : List Nat) (n' : Nat) :
    (σ.withEpochs a eps' n').epochs b = σ.epochs b := DState.epochs_setEpochs_ne σ h eps'

theorem DState.epochs_withEpochs_self {σ : DState} {a : Nat} (h : a < σ.arenas.length ∨ eps' = []) (n' : Nat) :
    (σ.withEpochs a eps' n').epochs a = eps' := by
  rcases h with h | h
  · exact DState.epochs_setEpochs_self h eps'
  · subst h; exact DState.epochs_setEpochs_nil σ a

theorem Inv.changeArena {Γ : SEnv} {σ : DState} (inv : Inv Γ σ) (a : Nat) (eps' : List Nat) (n' : Nat)
    (ha : a < σ.arenas.length ∨ eps' = [])
    (hnd : eps'.Nodup) (hlt : ∀ e ∈ eps', e < n') (hn : σ.next ≤ n')
    (hfresh : ∀ e ∈ eps', e ∈ σ.epochs a ∨ σ.next ≤ e)
    (hH : ∀ h ∈ Γ.ents, h.valid = true → h.isHandle = true → ∀ rh, σ.get h.var = some rh → rh.arena = a → eps' ≠ [])
    (hV : ∀ e ∈ Γ.ents, e.valid = true → e.kind = .val → ∀ r, σ.get e.var = some r → r.arena = a →
          ∀ ex, r.epoch = some ex → ex ∈ eps')
    (hG : ∀ g ∈ Γ.ents, g.valid = true → g.kind = .guard → ∀ rg, σ.get g.var = some rg → rg.arena = a →
          ∀ eg, rg.epoch = some eg → eps'.head? ≠ some eg)
    (hC : ∀ eg ex, eg ∈ σ.epochs a → eg ∈ eps' → ex ∈ σ.epochs a → ex ∈ eps' →
          ex ∉ cutAt eg eps' → ex ∉ cutAt eg (σ.epochs a)) :
    Inv Γ (σ.withEpochs a eps' n') := by
  have hself := DState.epochs_withEpochs_self (σ := σ) ha n'
  have hother : ∀ b, b ≠ a → (σ.withEpochs a eps' n').epochs b = σ.epochs b :=
    fun b hb => DState.epochs_withEpochs_ne σ hb eps' n'
  apply inv.dyn (σ' := σ.withEpochs a eps' n') rfl rfl
  · intro b
    by_cases hb : b = a
    · subst hb; rw [hself]; exact ⟨hnd, hlt⟩
    · rw [hother b hb]
      exact ⟨(inv.epochs b).1, fun e he => Nat.lt_of_lt_of_le ((inv.epochs b).2 e he) hn⟩
  · exact hn
  · simp [DState.withEpochs, DState.setEpochs]
  · intro h hh hv hH' rh hrh
    by_cases hb : rh.arena = a
    · rw [hb, hself]; exact hH h hh hv hH' rh hrh hb
    · rw [hother _ hb]
      rcases inv.typed h hh hv with ⟨r', hr', _, _, _, h4, _⟩
      rw [hrh] at hr'; cases hr'
      exact h4 hH'
  · intro e he hv hk r hr ex hex
    by_cases hb : r.arena = a
    · rw [hb, hself]; exact hV e he hv hk r hr hb ex hex
    · rw [hother _ hb]; exact (inv.vals e he hv hk r hr ex hex).1
  · intro g hg hv hk rg hr eg heg
    by_cases hb : rg.arena = a
    · rw [hb, hself]; exact hG g hg hv hk rg hr hb eg heg
    · rw [hother _ hb]
      rcases inv.typed g hg hv with ⟨r', hr', _, _, _, _, _, _, h7⟩
      rw [hr] at hr'; cases hr'
      exact h7 hk eg heg
  · intro g hg hv rg hr b hon
    rcases hon with ⟨hk, hab, eg, heg, hm⟩ | h | h
    · refine Or.inl ⟨hk, hab, eg, heg, ?_⟩
      by_cases hb : b = a
      · subst hb
        rw [hself] at hm
        rcases hfresh eg hm with h | h
        · exact h
        · rcases inv.typed g hg hv with ⟨r', hr', _, _, _, _, _, h6, _⟩
          rw [hr] at hr'; cases hr'
          have := h6 eg heg
          omega
      · rw [hother b hb] at hm; exact hm
    · exact Or.inr (Or.inl h)
    · exact Or.inr (Or.inr h)
  · intro g hg hv hk rg hr eg heg hm ex hex hex' hnot
    by_cases hb : rg.arena = a
    · rw [hb] at hm hex hex' hnot ⊢
      rw [hself] at hm hex' hnot
      have hm0 : eg ∈ σ.epochs a := by
        rcases hfresh eg hm with h | h
        · exact h
        · rcases inv.typed g hg hv with ⟨r', hr', _, _, _, _, _, h6, _⟩
          rw [hr] at hr'; cases hr'
          have := h6 eg heg
          omega
      exact hC eg ex hm0 hm hex hex' hnot
    · rw [hother _ hb] at hnot; exact hnot

theorem DState.killArena_eq (σ : DState) (a : Nat) : σ.killArena a = σ.withEpochs a [] σ.next := rfl
theorem DState.resetArena_eq (σ : DState) (a : Nat) : σ.resetArena a = σ.withEpochs a [σ.next] (σ.next + 1) := rfl
theorem DState.push_eq (σ : DState) (a : Nat) : (σ.push a).2 = σ.withEpochs a (σ.epochs a ++ [σ.next]) (σ.next + 1) := rfl
theorem DState.endFrom_eq (σ : DState) (a e : Nat) : σ.endFrom a e = σ.withEpochs a (cutAt e (σ.epochs a)) σ.next := rfl

theorem Inv.guard_epoch {Γ : SEnv} {σ : DState} (inv : Inv Γ σ) {g : Entry} (hg : g ∈ Γ.ents) (hv : g.valid = true)
    {rg : Rt} (hr : σ.get g.var = some rg) {eg : Nat} (heg : rg.epoch = some eg) : eg < σ.next := by
  rcases inv.typed g hg hv with ⟨r', hr', _, _, _, _, _, h6, _⟩
  rw [hr] at hr'; cases hr'
  exact h6 eg heg

/-- an arena dies: nothing valid may still be on it -/
theorem Inv.killArena {Γ : SEnv} {σ : DState} (inv : Inv Γ σ) (a : Nat)
    (hH : ∀ h ∈ Γ.ents, h.valid = true → h.isHandle = true → ∀ rh, σ.get h.var = some rh → rh.arena ≠ a)
    (hV : ∀ e ∈ Γ.ents, e.valid = true → e.kind = .val → ∀ r, σ.get e.var = some r → ∀ ex, r.epoch = some ex → r.arena ≠ a) :
    Inv Γ (σ.killArena a) := by
  rw [DState.killArena_eq]
  apply inv.changeArena a [] σ.next (Or.inr rfl) (by simp) (by simp) (Nat.le_refl _) (by simp)
  · intro h hh hv hH' rh hrh hb; exact absurd hb (hH h hh hv hH' rh hrh)
  · intro e he hv hk r hr hb ex hex; exact absurd hb (hV e he hv hk r hr ex hex)
  · intro g _ _ _ rg _ _ eg _; simp
  · intro eg ex _ h; cases h

/-- `reset`: every epoch of the arena ends, a fresh one begins; no valid value may still be on the arena -/
theorem Inv.resetArena {Γ : SEnv} {σ : DState} (inv : Inv Γ σ) (a : Nat) (ha : a < σ.arenas.length)
    (hV : ∀ e ∈ Γ.ents, e.valid = true → e.kind = .val → ∀ r, σ.get e.var = some r → ∀ ex, r.epoch = some ex → r.arena ≠ a) :
    Inv Γ (σ.resetArena a) := by
  rw [DState.resetArena_eq]
  apply inv.changeArena a [σ.next] (σ.next + 1) (Or.inl ha) (by simp) (by simp) (Nat.le_succ _) (by simp)
  · intro _ _ _ _ _ _ _; simp
  · intro e he hv hk r hr hb ex hex; exact absurd hb (hV e he hv hk r hr ex hex)
  · intro g hg hv _ rg hr _ eg heg
    have := inv.guard_epoch hg hv hr heg
    simp; omega
  · intro eg ex h1 h2
    have := (inv.epochs a).2 eg h1
    simp at h2; omega

/-- a new epoch on top -/
theorem Inv.push {Γ : SEnv} {σ : DState} (inv : Inv Γ σ) (a : Nat) (ha : a < σ.arenas.length) : Inv Γ (σ.push a).2 := by
  rw [DState.push_eq]
  apply inv.changeArena a (σ.epochs a ++ [σ.next]) (σ.next + 1) (Or.inl ha)
  · rw [List.nodup_append]
    refine ⟨(inv.epochs a).1, by simp, ?_⟩
    intro x hx y hy
    simp at hy; subst hy
    have := (inv.epochs a).2 x hx
    omega
  · intro e he
    rcases List.mem_append.1 he with h | h
    · exact Nat.lt_succ_of_lt ((inv.epochs a).2 e h)
    · simp at h; omega
  · exact Nat.le_succ _
  · intro e he
    rcases List.mem_append.1 he with h | h
    · exact Or.inl h
    · simp at h; exact Or.inr (by omega)
  · intro _ _ _ _ _ _ _; simp
  · intro e he hv hk r hr hb ex hex
    exact List.mem_append_left _ (hb ▸ (inv.vals e he hv hk r hr ex hex).1)
  · intro g hg hv hk rg hr hb eg heg
    rcases inv.typed g hg hv with ⟨r', hr', _, _, _, _, _, h6, h7⟩
    rw [hr] at hr'; cases hr'
    have h7' := hb ▸ h7 hk eg heg
    cases hl : σ.epochs a with
    | nil => simp; have := h6 eg heg; omega
    | cons x l => rw [hl] at h7'; simpa using h7'
  · intro eg ex h1 _ _ _ hnot
    rw [cutAt_append_of_mem h1] at hnot; exact hnot

/-- the epochs from `e0` upwards end (guard drop / reset); no valid value may be in them -/
theorem Inv.endFrom {Γ : SEnv} {σ : DState} (inv : Inv Γ σ) (a e0 : Nat) (ha : a < σ.arenas.length)
    (hH : ∀ h ∈ Γ.ents, h.valid = true → h.isHandle = true → ∀ rh, σ.get h.var = some rh → rh.arena = a →
          cutAt e0 (σ.epochs a) ≠ [])
    (hV : ∀ e ∈ Γ.ents, e.valid = true → e.kind = .val → ∀ r, σ.get e.var = some r → r.arena = a →
          ∀ ex, r.epoch = some ex → ex ∈ cutAt e0 (σ.epochs a)) :
    Inv Γ (σ.endFrom a e0) := by
  rw [DState.endFrom_eq]
  apply inv.changeArena a (cutAt e0 (σ.epochs a)) σ.next (Or.inl ha) (nodup_cutAt (inv.epochs a).1)
    (fun e he => (inv.epochs a).2 e (mem_cutAt he)) (Nat.le_refl _) (fun e he => Or.inl (mem_cutAt he)) hH hV
  · intro g hg hv hk rg hr hb eg heg
    rcases inv.typed g hg hv with ⟨r', hr', _, _, _, _, _, _, h7⟩
    rw [hr] at hr'; cases hr'
    have h7' := hb ▸ h7 hk eg heg
    rcases head?_cutAt e0 (σ.epochs a) with h | h
    · rw [h]; simp
    · rw [h]; exact h7'
  · intro eg ex _ h2 _ _ hnot
    rw [cutAt_cutAt_of_mem h2] at hnot; exact hnot

/-! ### what is still valid after an exclusive use / a removal holds no loan on the variable -/

theorem mem_useMut_valid {Γ : SEnv} {v : Var} {e : Entry} (he : e ∈ (Γ.useMut v).ents) (hv : e.valid = true) :
    e ∈ Γ.ents ∧ e.self.on v = false := valid_of_killEnts he hv

theorem mem_useShr_valid {Γ : SEnv} {v : Var} {e : Entry} (he : e ∈ (Γ.useShr v).ents) (hv : e.valid = true) :
    e ∈ Γ.ents ∧ e.self.mutOn v = false := valid_of_killEnts he hv

theorem mem_remove_valid {Γ : SEnv} {v : Var} {e : Entry} (he : e ∈ (Γ.remove v).ents) (hv : e.valid = true) :
    e ∈ Γ.ents ∧ e.self.on v = false ∧ e.var ≠ v := by
  have h1 := List.mem_filter.1 he
  rcases valid_of_killEnts h1.1 hv with ⟨h2, h3⟩
  exact ⟨h2, h3, by simpa using h1.2⟩

theorem Region.on_of_subset {r s : Region} {v : Var} (hsub : ∀ l ∈ r, l ∈ s) (h : r.on v = true) : s.on v = true := by
  unfold Region.on at *
  rcases List.any_eq_true.1 h with ⟨l, hl, hp⟩
  exact List.any_eq_true.2 ⟨l, hsub l hl, hp⟩

theorem Region.mutOn_of_subset {r s : Region} {v : Var} (hsub : ∀ l ∈ r, l ∈ s) (h : r.mutOn v = true) : s.mutOn v = true := by
  unfold Region.mutOn at *
  rcases List.any_eq_true.1 h with ⟨l, hl, hp⟩
  exact List.any_eq_true.2 ⟨l, hsub l hl, hp⟩

theorem Loan.on_of_mutOn {l : Loan} {v : Var} (h : l.mutOn v = true) : l.on v = true := by
  cases l with
  | borrow w m => cases m <;> simp [Loan.mutOn, Loan.on] at h ⊢ <;> exact h
  | frame g => simp [Loan.mutOn] at h

theorem Region.on_of_mutOn {r : Region} {v : Var} (h : r.mutOn v = true) : r.on v = true := by
  unfold Region.on Region.mutOn at *
  rcases List.any_eq_true.1 h with ⟨l, hl, hp⟩
  exact List.any_eq_true.2 ⟨l, hl, Loan.on_of_mutOn hp⟩

/-- a valid handle whose allocation region borrows from `v` borrows from `v` -/
theorem Inv.self_on_of_param_on {Γ : SEnv} {σ : DState} (inv : Inv Γ σ) {h : Entry} (hh : h ∈ Γ.ents) (hv : h.valid = true)
    {v : Var} (hp : h.param.on v = true) : h.self.on v = true :=
  Region.on_of_subset (inv.closed h hh hv).1 hp

/-- **coverage of values**: once every loan on the ender `g` has ended, no valid value is left in an epoch `g` can end -/
theorem Inv.no_val_covered {Γ : SEnv} {σ : DState} (inv : Inv Γ σ) {g : Entry} (hg : g ∈ Γ.ents) (hgv : g.valid = true)
    {rg : Rt} (hrg : σ.get g.var = some rg)
    {e : Entry} (he : e ∈ Γ.ents) (hv : e.valid = true) (hk : e.kind = .val) (hno : e.self.on g.var = false)
    {r : Rt} (hr : σ.get e.var = some r) {ex : Nat} (hex : r.epoch = some ex) : ¬ Ender σ g rg r.arena ex := by
  intro hend
  have := (inv.vals e he hv hk r hr ex hex).2 g hg hgv rg hrg hend
  rw [hno] at this; exact Bool.false_ne_true this

/-- **coverage of handles**: once every loan on the ender `g` has ended, every other valid handle of the arena is
    mutably borrowed by `g` -/
theorem Inv.handle_covered {Γ : SEnv} {σ : DState} (inv : Inv Γ σ) {g : Entry} (hg : g ∈ Γ.ents) (hgv : g.valid = true)
    {rg : Rt} (hrg : σ.get g.var = some rg)
    {h : Entry} (hh : h ∈ Γ.ents) (hv : h.valid = true) (hH : h.isHandle = true) (hne : g.var ≠ h.var)
    (hno : h.self.on g.var = false) {rh : Rt} (hrh : σ.get h.var = some rh) (hon : EnderOn σ g rg rh.arena) :
    g.self.mutOn h.var = true := by
  rcases inv.handles h hh hv hH rh hrh g hg hgv hne rg hrg hon with h1 | h1
  · have := inv.self_on_of_param_on hh hv h1
    rw [hno] at this; exact absurd this Bool.false_ne_true
  · exact h1

@[simp] theorem DState.get_killArena (σ : DState) (a : Nat) (v : Var) : (σ.killArena a).get v = σ.get v := rfl
@[simp] theorem DState.frames_killArena (σ : DState) (a : Nat) : (σ.killArena a).frames = σ.frames := rfl
@[simp] theorem DState.get_resetArena (σ : DState) (a : Nat) (v : Var) : (σ.resetArena a).get v = σ.get v := rfl
@[simp] theorem DState.frames_resetArena (σ : DState) (a : Nat) : (σ.resetArena a).frames = σ.frames := rfl
@[simp] theorem DState.arenas_length_resetArena (σ : DState) (a : Nat) : (σ.resetArena a).arenas.length = σ.arenas.length := by
  simp [DState.resetArena, DState.setEpochs]

theorem Inv.killArenas {Γ : SEnv} (as : List Nat) : ∀ {σ : DState}, Inv Γ σ →
    (∀ h ∈ Γ.ents, h.valid = true → h.isHandle = true → ∀ rh, σ.get h.var = some rh → rh.arena ∉ as) →
    (∀ e ∈ Γ.ents, e.valid = true → e.kind = .val → ∀ r, σ.get e.var = some r → ∀ ex, r.epoch = some ex → r.arena ∉ as) →
    Inv Γ (as.foldl (fun σ a => σ.killArena a) σ) ∧ (as.foldl (fun σ a => σ.killArena a) σ).frames = σ.frames := by
  induction as with
  | nil => intro σ inv _ _; exact ⟨inv, rfl⟩
  | cons a as ih =>
    intro σ inv hH hV
    have inv1 : Inv Γ (σ.killArena a) := inv.killArena a
      (fun h hh hv hH' rh hrh hb => hH h hh hv hH' rh hrh (hb ▸ List.mem_cons_self))
      (fun e he hv hk r hr ex hex hb => hV e he hv hk r hr ex hex (hb ▸ List.mem_cons_self))
    have := ih inv1
      (fun h hh hv hH' rh hrh hm => hH h hh hv hH' rh (by simpa using hrh) (List.mem_cons_of_mem _ hm))
      (fun e he hv hk r hr ex hex hm => hV e he hv hk r (by simpa using hr) ex hex (List.mem_cons_of_mem _ hm))
    exact ⟨this.1, by rw [List.foldl_cons, this.2]; rfl⟩

theorem Inv.resetArenas {Γ : SEnv} (as : List Nat) : ∀ {σ : DState}, Inv Γ σ → (∀ a ∈ as, a < σ.arenas.length) →
    (∀ e ∈ Γ.ents, e.valid = true → e.kind = .val → ∀ r, σ.get e.var = some r → ∀ ex, r.epoch = some ex → r.arena ∉ as) →
    Inv Γ (as.foldl (fun σ a => σ.resetArena a) σ) := by
  induction as with
  | nil => intro σ inv _ _; exact inv
  | cons a as ih =>
    intro σ inv hlt hV
    have inv1 : Inv Γ (σ.resetArena a) := inv.resetArena a (hlt a List.mem_cons_self)
      (fun e he hv hk r hr ex hex hb => hV e he hv hk r hr ex hex (hb ▸ List.mem_cons_self))
    exact ih inv1 (fun b hb => by simpa using hlt b (List.mem_cons_of_mem _ hb))
      (fun e he hv hk r hr ex hex hm => hV e he hv hk r (by simpa using hr) ex hex (List.mem_cons_of_mem _ hm))

@[simp] theorem DState.frames_endFrom (σ : DState) (a e : Nat) : (σ.endFrom a e).frames = σ.frames := rfl

/-- dropping (or moving away) a valid entry: the run-time effect never faults and the invariant holds for the
    environment without the entry -/
theorem dropRt_sound {Γ : SEnv} {σ : DState} (inv : Inv Γ σ) {e : Entry} (he : e ∈ Γ.ents) (hv : e.valid = true)
    {r : Rt} (hr : σ.get e.var = some r) :
    ∃ σ', σ.dropRt r = .ok σ' ∧ Inv (Γ.remove e.var) σ' ∧ σ'.frames = σ.frames := by
  rcases inv.typed e he hv with ⟨r', hr', ht1, ht2, ht3, ht4, ht5, ht6, ht7⟩
  rw [hr] at hr'; cases hr'
  have inv1 := inv.remove e.var
  unfold DState.dropRt
  cases hk : e.kind <;> rw [hk] at ht1 <;> simp only [ht1]
  case val =>
    rw [inv.alive he hv hk hr]
    exact ⟨σ, rfl, inv1, rfl⟩
  case guard =>
    cases hep : r.epoch with
    | none => exact ⟨σ, rfl, inv1, rfl⟩
    | some eg =>
      have hH : e.isHandle = true := by simp [Entry.isHandle, hk]
      have hlive := ht4 hH
      refine ⟨_, rfl, ?_, rfl⟩
      apply inv1.endFrom r.arena eg (DState.lt_of_epochs_ne_nil hlive)
      · intro _ _ _ _ _ _ _
        exact cutAt_ne_nil hlive (ht7 hk eg hep)
      · intro e' he' hv' hk' r1 hr1 hb ex hex
        rcases mem_remove_valid he' hv' with ⟨he0, hno, _⟩
        have hin := (inv.vals e' he0 hv' hk' r1 hr1 ex hex).1
        rw [hb] at hin
        by_cases hm : eg ∈ σ.epochs r.arena
        · by_cases hc : ex ∈ cutAt eg (σ.epochs r.arena)
          · exact hc
          · exfalso
            apply inv.no_val_covered he hv hr he0 hv' hk' hno hr1 hex
            rw [hb]
            refine ⟨Or.inl ⟨hk, rfl, eg, hep, hm⟩, ?_⟩
            intro _ eg' heg'
            rw [hep] at heg'; cases heg'; exact hc
        · rw [cutAt_of_not_mem hm]; exact hin
  case bump =>
    by_cases hown : r.own = true
    · simp only [hown, if_true]
      have hacc : e.acc = .own := (ht2 hk).1.1 hown
      have hself : e.self = [] := (ht2 hk).2 hacc
      have hon : ∀ a, r.arena = a → EnderOn σ e r a := fun a ha => Or.inr (Or.inl ⟨hk, by rw [hacc]; decide, ha⟩)
      refine ⟨_, rfl, ?_, rfl⟩
      apply inv1.killArena
      · intro h hh hvh hHh rh hrh hb
        rcases mem_remove_valid hh hvh with ⟨hh0, hno, hne⟩
        have := inv.handle_covered he hv hr hh0 hvh hHh (Ne.symm hne) hno hrh (hon _ hb.symm)
        rw [hself] at this; simp [Region.mutOn] at this
      · intro e' he' hv' hk' r1 hr1 ex hex hb
        rcases mem_remove_valid he' hv' with ⟨he0, hno, _⟩
        apply inv.no_val_covered he hv hr he0 hv' hk' hno hr1 hex
        exact ⟨hon _ hb.symm, fun hg => by rw [hk] at hg; cases hg⟩
    · have : r.own = false := by simpa using hown
      simp only [this]
      exact ⟨σ, rfl, inv1, rfl⟩
  case pool =>
    have hself : e.self = [] := (ht3 hk).1
    have hon : ∀ a, a ∈ r.arenas → EnderOn σ e r a := fun a ha => Or.inr (Or.inr ⟨hk, ha⟩)
    have := Inv.killArenas r.arenas inv1
      (by
        intro h hh hvh hHh rh hrh hm
        rcases mem_remove_valid hh hvh with ⟨hh0, hno, hne⟩
        have := inv.handle_covered he hv hr hh0 hvh hHh (Ne.symm hne) hno hrh (hon _ hm)
        rw [hself] at this; simp [Region.mutOn] at this)
      (by
        intro e' he' hv' hk' r1 hr1 ex hex hm
        rcases mem_remove_valid he' hv' with ⟨he0, hno, _⟩
        apply inv.no_val_covered he hv hr he0 hv' hk' hno hr1 hex
        exact ⟨hon _ hm, fun hg => by rw [hk] at hg; cases hg⟩)
    exact ⟨_, rfl, this.1, this.2⟩
  all_goals exact ⟨σ, rfl, inv1, rfl⟩

/-! ### threads -/

theorem mem_allFlags (fl : Flags) : fl ∈ allFlags := by
  rcases fl with ⟨a, b⟩
  cases a <;> cases b <;> simp [allFlags]

theorem sendOK_probe (t : Table) (fl : Flags) (e : Entry) : sendOK t fl e = sendOK t fl (probe e.kind e.acc) := rfl
theorem shareOK_probe (t : Table) (fl : Flags) (e : Entry) : shareOK t fl e = shareOK t fl (probe e.kind e.acc) := rfl

theorem threads_share {t : Table} (h : threadsAdequate t = true) (fl : Flags) (e : Entry) (hk : e.kind ≠ .val)
    (hs : shareOK t fl e = true) : e.kind = .pool ∧ fl.allocSend = true ∧ fl.allocSync = true := by
  unfold threadsAdequate at h
  have h1 := List.all_eq_true.1 h fl (mem_allFlags fl)
  have hkm : e.kind ∈ [Kind.bump, .scope, .guard, .claim, .pool, .poolGuard, .coll] := by
    cases hke : e.kind <;> simp_all
  have h2 := List.all_eq_true.1 h1 e.kind hkm
  rw [Bool.and_eq_true] at h2
  have ham : e.acc ∈ [Acc.own, .mutRef, .shrRef] := by cases e.acc <;> simp
  have h3 := List.all_eq_true.1 h2.1 e.acc ham
  rw [← shareOK_probe, hs] at h3
  simp at h3
  exact ⟨h3.1.1, h3.1.2, h3.2⟩

theorem threads_send {t : Table} (h : threadsAdequate t = true) (fl : Flags) (e : Entry) (hk : e.kind ≠ .val)
    (ha : e.acc = .own) (hs : sendOK t fl e = true) :
    ((e.kind = .bump ∨ e.kind = .pool) ∧ fl.allocSend = true) ∨
    (e.kind = .poolGuard ∧ fl.allocSend = true ∧ fl.allocSync = true) := by
  unfold threadsAdequate at h
  have h1 := List.all_eq_true.1 h fl (mem_allFlags fl)
  have hkm : e.kind ∈ [Kind.bump, .scope, .guard, .claim, .pool, .poolGuard, .coll] := by
    cases hke : e.kind <;> simp_all
  have h2 := List.all_eq_true.1 h1 e.kind hkm
  rw [Bool.and_eq_true] at h2
  have h3 := h2.2
  rw [← ha, ← sendOK_probe, hs] at h3
  simp at h3
  rcases h3 with h3 | h3
  · exact Or.inl h3
  · exact Or.inr ⟨h3.1.1, h3.1.2, h3.2⟩

theorem step_drop {t : Table} {fl : Flags} {Γ Γ' : SEnv} {σ : DState} (inv : Inv Γ σ) {x : Var}
    (hc : checkStmt t fl Γ (.drop x) = .ok Γ') :
    ∃ σ', runStmt fl σ (.drop x) = .ok σ' ∧ Inv Γ' σ' := by
  simp only [checkStmt] at hc
  split at hc
  · cases hc
  · rename_i e hl
    split at hc
    · cases hc
    · cases hc
      rcases lookupValid_ok hl with ⟨he, rfl, hv⟩
      rcases inv.get_of_valid he hv with ⟨r, hr, _⟩
      rcases dropRt_sound inv he hv hr with ⟨σ', h1, h2, _⟩
      exact ⟨σ', by simp only [runStmt, hr]; exact h1, h2⟩

theorem step_send {t : Table} (hok : sigOK t = true) {fl : Flags} {Γ Γ' : SEnv} {σ : DState} (inv : Inv Γ σ) {x : Var}
    (hc : checkStmt t fl Γ (.send x) = .ok Γ') :
    ∃ σ', runStmt fl σ (.send x) = .ok σ' ∧ Inv Γ' σ' := by
  have hth : threadsAdequate t = true := by
    unfold sigOK at hok; simp only [Bool.and_eq_true] at hok; exact hok.1.2
  simp only [checkStmt] at hc
  split at hc
  · cases hc
  · rename_i e hl
    split at hc
    · cases hc
    · rename_i hmv
      split at hc
      · cases hc
      · rename_i hsend
        cases hc
        rcases lookupValid_ok hl with ⟨he, rfl, hv⟩
        rcases inv.get_of_valid he hv with ⟨r, hr, ht⟩
        rcases dropRt_sound inv he hv hr with ⟨σ', h1, h2, _⟩
        refine ⟨σ', ?_, h2⟩
        simp only [runStmt, hr]
        have hsafe : threadSafe fl r false = true := by
          unfold threadSafe
          by_cases hk : e.kind = .val
          · rw [ht.1, hk]
          · have hs : sendOK t fl e = true := by simpa using hsend
            have hmv' : e.movable = true := by
              have : (e.kind != Kind.val) = true := by simpa using hk
              simpa [this] using hmv
            have hacc : e.acc = .own := by
              unfold Entry.movable at hmv'
              rcases (Bool.or_eq_true _ _).mp hmv' with h | h
              · simpa using h
              · -- a collection is never `Send`
                exfalso
                have hc : e.kind = .coll := by simpa using h
                unfold sendOK at hs; rw [hc] at hs; simp at hs
            rcases threads_send hth fl e hk hacc hs with ⟨hb | hp, hsnd⟩ | ⟨hpg, hsnd, hsyn⟩
            · rw [ht.1, hb]
              have := ((ht.2.1 hb).1.2 hacc)
              simp [this, hsnd]
            · rw [ht.1, hp]; simp [hsnd]
            · rw [ht.1, hpg]; simp [hsnd, hsyn]
        simp [hsafe]; exact h1

theorem step_share {t : Table} (hok : sigOK t = true) {fl : Flags} {Γ Γ' : SEnv} {σ : DState} (inv : Inv Γ σ) {x : Var}
    (hc : checkStmt t fl Γ (.share x) = .ok Γ') :
    ∃ σ', runStmt fl σ (.share x) = .ok σ' ∧ Inv Γ' σ' := by
  have hth : threadsAdequate t = true := by
    unfold sigOK at hok; simp only [Bool.and_eq_true] at hok; exact hok.1.2
  simp only [checkStmt] at hc
  split at hc
  · cases hc
  · rename_i e hl
    split at hc
    · cases hc
    · rename_i hshare
      cases hc
      rcases lookupValid_ok hl with ⟨he, rfl, hv⟩
      rcases inv.get_of_valid he hv with ⟨r, hr, ht⟩
      refine ⟨σ, ?_, ?_⟩
      · simp only [runStmt, hr]
        by_cases hk : e.kind = .val
        · have h1 : threadSafe fl r true = true := by unfold threadSafe; rw [ht.1, hk]
          have h2 := inv.alive he hv hk hr
          simp [h1, h2]
        · have hs : shareOK t fl e = true := by simpa using hshare
          rcases threads_share hth fl e hk hs with ⟨hp, hsnd, hsyn⟩
          have h1 : threadSafe fl r true = true := by unfold threadSafe; rw [ht.1, hp]; simp [hsnd, hsyn]
          have h2 : (r.kind == Kind.val) = false := by rw [ht.1]; simpa using hk
          simp [h1, h2]
      · by_cases hk : e.kind = .val
        · simp [hk]; exact inv
        · have : (e.kind == Kind.val) = false := by simpa using hk
          simp [this]; exact inv.useShr _

/-! ### new entries derived from a receiver -/

/-- no still-valid entry holds a loan on `v` that conflicts with a use of `v` in mode `m` -/
def NoConflict (Γ : SEnv) (v : Var) (m : Mode) : Prop :=
  ∀ g ∈ Γ.ents, g.valid = true → (match m with | .shr => g.self.mutOn v = false | .mut => g.self.on v = false)

theorem NoConflict.mutOn {Γ : SEnv} {v : Var} {m : Mode} (h : NoConflict Γ v m) {g : Entry} (hg : g ∈ Γ.ents)
    (hv : g.valid = true) : g.self.mutOn v = false := by
  have := h g hg hv
  cases m
  · exact this
  · cases hm : g.self.mutOn v
    · rfl
    · have h2 := Region.on_of_mutOn hm
      simp only at this
      rw [this] at h2; exact absurd h2 Bool.false_ne_true

theorem Region.on_cons_self (v : Var) (m : Mode) (r : Region) : Region.on (Loan.borrow v m :: r) v = true := by
  simp [Region.on, Loan.on]

theorem Region.on_of_mem {r : Region} {v : Var} {m : Mode} (h : Loan.borrow v m ∈ r) : r.on v = true :=
  List.any_eq_true.2 ⟨_, h, by simp [Loan.on]⟩

theorem Region.mutOn_of_mem {r : Region} {v : Var} (h : Loan.borrow v .mut ∈ r) : r.mutOn v = true :=
  List.any_eq_true.2 ⟨_, h, by simp [Loan.mutOn]⟩

/-- a new value allocated through the (valid, already used in mode `m`) receiver `e`, in the top epoch of its arena -/
theorem Inv.addVal {Γ : SEnv} {σ : DState} (inv : Inv Γ σ) {e : Entry} {rh : Rt}
    (hpre : ∀ g ∈ Γ.ents, g.valid = true → g.var ≠ e.var → ∀ rg, σ.get g.var = some rg → EnderOn σ g rg rh.arena →
            e.param.on g.var = true)
    (x : Var) (R : Region) (d : Nat) (hfresh : x ∉ Γ.used)
    (hclosed : ∀ p m, Loan.borrow p m ∈ R →
        ∃ ep ∈ Γ.ents, ep.var = p ∧ ep.valid = true ∧ ep.kind ≠ .val ∧ ∀ l ∈ ep.self, l ∈ R)
    (hcov : ∀ l ∈ e.param, l ∈ R)
    (hself : ∀ g ∈ Γ.ents, g.valid = true → g.var = e.var → ∀ rg, σ.get g.var = some rg → EnderOn σ g rg rh.arena →
             R.on g.var = true) :
    Inv { Γ with ents := ⟨x, .val, .own, R, R, true, d⟩ :: Γ.ents, used := x :: Γ.used }
        (σ.set x (Rt.val rh.arena (σ.epochs rh.arena).getLast?)) := by
  have hnv : ∀ a, ¬ EnderOn σ ⟨x, .val, .own, R, R, true, d⟩ (Rt.val rh.arena (σ.epochs rh.arena).getLast?) a := by
    intro a hon
    rcases hon with ⟨hk, _⟩ | ⟨hk, _⟩ | ⟨hk, _⟩ <;> cases hk
  apply inv.add ⟨x, .val, .own, R, R, true, d⟩ (Rt.val rh.arena (σ.epochs rh.arena).getLast?) hfresh rfl
  · refine ⟨rfl, ?_, ?_, ?_, ?_, ?_, ?_⟩
    · intro h; cases h
    · intro h; cases h
    · intro h; simp [Entry.isHandle] at h
    · intro h; cases h
    · intro ex hex
      exact (inv.epochs rh.arena).2 ex (List.mem_of_getLast? hex)
    · intro h; cases h
  · refine ⟨fun l hl => hl, hclosed, ?_⟩
    intro p m hp ep hep hvar l hl
    rcases hclosed p m hp with ⟨ep0, hep0, h1, _, _, h4⟩
    have := inv.eq_of_var_eq hep hep0 (hvar.trans h1.symm)
    subst this; exact h4 l hl
  · intro _ ex hex
    have hex' : (σ.epochs rh.arena).getLast? = some ex := hex
    refine ⟨List.mem_of_getLast? hex', ?_⟩
    intro g hg hgv rg hrg hend
    have hend' : EnderOn σ g rg rh.arena := hend.1
    by_cases hge : g.var = e.var
    · exact hself g hg hgv hge rg hrg hend'
    · exact Region.on_of_subset hcov (hpre g hg hgv hge rg hrg hend')
  · intro e' _ _ _ re _ ex _ hend; exact absurd hend.1 (hnv _)
  · intro h; simp [Entry.isHandle] at h
  · intro h _ _ _ rh' _ hon; exact absurd hon (hnv _)
  · intro h; simp [Entry.isHandle] at h
  · intro h; simp [Entry.isHandle] at h

/-- a new handle `ne` on the arena of the (valid, already used in mode `m`) receiver `e`, borrowing `e` -/
theorem Inv.addDerived {Γ : SEnv} {σ : DState} (inv : Inv Γ σ) {e : Entry} (he : e ∈ Γ.ents) (hev : e.valid = true)
    (heH : e.isHandle = true) {rh : Rt} (hrh : σ.get e.var = some rh) (m : Mode) (hK : NoConflict Γ e.var m)
    (ne : Entry) (rn : Rt) (hfresh : ne.var ∉ Γ.used) (hvalid : ne.valid = true)
    (hkind : ne.isHandle = true) (hrk : rn.kind = ne.kind) (hra : rn.arena = rh.arena) (hro : rn.own = false)
    (hself1 : Loan.borrow e.var m ∈ ne.self) (hself2 : ∀ l ∈ e.self, l ∈ ne.self)
    (hself3 : ∀ l ∈ ne.self, l = .borrow e.var m ∨ l ∈ e.self ∨ ∃ k, l = .frame k)
    (hparam1 : ∀ l ∈ ne.param, l ∈ ne.self) (hparam2 : ∀ l ∈ e.param, l ∈ ne.param)
    (hparam3 : (e.kind = .guard ∨ (e.kind = .bump ∧ e.acc ≠ .shrRef)) → Loan.borrow e.var m ∈ ne.param)
    (hparam4 : ∀ p mo, Loan.borrow p mo ∈ ne.param → ∀ ep ∈ Γ.ents, ep.var = p → ∀ l ∈ ep.self, l ∈ ne.param)
    (hexcl : ne.acc ≠ .shrRef → m = .mut ∧ e.acc ≠ .shrRef)
    (hW : ne.kind = .scope → ne.acc = .own → ∀ l ∈ ne.self, l ∈ ne.param)
    (hbump : ne.kind = .bump → ne.acc ≠ .own) (hgacc : ne.kind = .guard → ne.acc = .own)
    (hep : ∀ n, rn.epoch = some n → ne.kind = .guard ∧ n < σ.next ∧ n ∈ σ.epochs rh.arena ∧
           (σ.epochs rh.arena).head? ≠ some n ∧
           (∀ ex ∈ σ.epochs rh.arena, ex ∉ cutAt n (σ.epochs rh.arena) → ex = n) ∧
           (∀ v ∈ Γ.ents, v.valid = true → v.kind = .val → ∀ rv, σ.get v.var = some rv → rv.epoch ≠ some n))
    (hnoVals : ne.kind = .bump → ne.acc ≠ .shrRef → ∀ v ∈ Γ.ents, v.valid = true → v.kind = .val →
           ∀ rv, σ.get v.var = some rv → ∀ ex, rv.epoch = some ex → rv.arena ≠ rh.arena) :
    Inv { Γ with ents := ne :: Γ.ents, used := ne.var :: Γ.used } (σ.set ne.var rn) := by
  rcases inv.typed e he hev with ⟨r0, hr0, ht1, ht2, ht3, ht4, ht5, ht6, ht7⟩
  rw [hrh] at hr0; cases hr0
  have hec := inv.closed e he hev
  have hnk : ne.kind ≠ .val ∧ ne.kind ≠ .pool := by
    simp [Entry.isHandle] at hkind; exact hkind
  have hek : e.kind ≠ .val := by
    simp [Entry.isHandle] at heH; exact heH.1
  -- if the new entry can end epochs it is exclusive, hence the receiver was used exclusively
  have hender_excl : ∀ a, EnderOn σ ne rn a → m = .mut ∧ e.acc ≠ .shrRef ∧ a = rh.arena := by
    intro a hon
    rcases hon with ⟨hk, ha, _⟩ | ⟨hk, hacc, ha⟩ | ⟨hk, _⟩
    · have := hexcl (by rw [hgacc hk]; decide)
      exact ⟨this.1, this.2, by rw [← ha, hra]⟩
    · have := hexcl hacc
      exact ⟨this.1, this.2, by rw [← ha, hra]⟩
    · exact absurd hk hnk.2
  apply inv.add ne rn hfresh hvalid
  · refine ⟨hrk, ?_, ?_, ?_, hW, ?_, ?_⟩
    · intro hk
      refine ⟨Iff.intro (fun h => ?_) (fun h => absurd h (hbump hk)), fun h => absurd h (hbump hk)⟩
      rw [hro] at h; cases h
    · intro hk; exact absurd hk hnk.2
    · intro _; rw [hra]; exact ht4 heH
    · intro n hn; exact (hep n hn).2.1
    · intro _ n hn; rw [hra]; exact (hep n hn).2.2.2.1
  · refine ⟨hparam1, ?_, hparam4⟩
    intro p mo hp
    rcases hself3 _ hp with h | h | ⟨k, h⟩
    · cases h
      exact ⟨e, he, rfl, hev, hek, hself2⟩
    · rcases hec.2.1 p mo h with ⟨ep, hep', h1, h2, h3, h4⟩
      exact ⟨ep, hep', h1, h2, h3, fun l hl => hself2 l (h4 l hl)⟩
    · cases h
  · intro hk; exact absurd hk hnk.1
  · -- old values against the new entry as an ender
    intro v hv hvv hvk rv hrv ex hex hend
    exfalso
    rcases hend.1 with ⟨hk, ha, eg, heg, hm⟩ | ⟨hk, hacc, ha⟩ | ⟨hk, _⟩
    · rcases hep eg heg with ⟨_, _, _, _, h5, h6⟩
      have harena : rv.arena = rh.arena := by rw [← ha, hra]
      have hin := (inv.vals v hv hvv hvk rv hrv ex hex).1
      rw [harena] at hin
      have hnot := hend.2 hk eg heg
      rw [harena] at hnot
      have := h5 ex hin hnot
      exact h6 v hv hvv hvk rv hrv (this ▸ hex)
    · exact hnoVals hk hacc v hv hvv hvk rv hrv ex hex (by rw [← ha, hra])
    · exact hnk.2 hk
  · -- the new handle against the old enders
    intro _ g hg hgv rg hrg hon
    rw [hra] at hon
    by_cases hge : g.var = e.var
    · have := inv.eq_of_var_eq hg he hge; subst this
      rw [hrh] at hrg; cases hrg
      left
      apply Region.on_of_mem (m := m)
      apply hparam3
      rcases hon with ⟨hk, _⟩ | ⟨hk, hacc, _⟩ | ⟨hk, _⟩
      · exact Or.inl hk
      · exact Or.inr ⟨hk, hacc⟩
      · simp [Entry.isHandle, hk] at heH
    · rcases inv.handles e he hev heH rh hrh g hg hgv hge rg hrg hon with h | h
      · exact Or.inl (Region.on_of_subset hparam2 h)
      · rw [hK.mutOn hg hgv] at h; exact absurd h Bool.false_ne_true
  · -- the old handles against the new entry as an ender
    intro h hh hvh hH' rh' hrh' hon
    rcases hender_excl _ hon with ⟨hm, hacc, harena⟩
    right
    by_cases hhe : h.var = e.var
    · have := inv.eq_of_var_eq hh he hhe; subst this
      apply Region.mutOn_of_mem
      rw [← hm]; exact hself1
    · rcases inv.uniq e he hev heH hacc h hh hvh hH' (Ne.symm hhe) rh rh' hrh hrh' harena.symm with h1 | h1
      · exact Region.mutOn_of_subset hself2 h1
      · have := hK h hh hvh
        rw [hm] at this; simp only at this
        rw [this] at h1; exact absurd h1 Bool.false_ne_true
  · -- the new handle, if exclusive, against the old handles
    intro _ hacc h2 hh2 hv2 hH2 r2 hr2 har
    rcases hexcl hacc with ⟨hm, heacc⟩
    by_cases hhe : h2.var = e.var
    · have := inv.eq_of_var_eq hh2 he hhe; subst this
      left; apply Region.mutOn_of_mem; rw [← hm]; exact hself1
    · rcases inv.uniq e he hev heH heacc h2 hh2 hv2 hH2 (Ne.symm hhe) rh r2 hrh hr2 (by rw [← hra]; exact har) with h1 | h1
      · exact Or.inl (Region.mutOn_of_subset hself2 h1)
      · have := hK h2 hh2 hv2
        rw [hm] at this; simp only at this
        rw [this] at h1; exact absurd h1 Bool.false_ne_true
  · -- the old exclusive handles against the new handle
    intro _ h1 hh1 hv1 hH1 hacc1 r1 hr1 har
    right
    by_cases hhe : h1.var = e.var
    · have := inv.eq_of_var_eq hh1 he hhe; subst this
      exact Region.on_of_mem hself1
    · rcases inv.uniq h1 hh1 hv1 hH1 hacc1 e he hev heH hhe r1 rh hr1 hrh (by rw [har, hra]) with h | h
      · rw [hK.mutOn hh1 hv1] at h; exact absurd h Bool.false_ne_true
      · exact Region.on_of_subset hself2 h

/-! ### method calls -/

/-- how a call's result (if any) is declared -/
def DeclRes (Γ1 Γ' : SEnv) (res : Option Entry) : Prop :=
  match res with
  | none => Γ' = Γ1
  | some ne => Γ1.declare ne = .ok Γ'

theorem checkCall_ok {t : Table} {Γ Γ' : SEnv} {x h : Var} {op : Op} {owner name : String}
    (hc : checkCall t Γ x h op owner name = .ok Γ') :
    ∃ sig e Γ1 res, sig ∈ t.sigs ∧ sig.op = op ∧ op ≠ .enterScoped ∧ op ≠ .enterAligned ∧
      Γ.lookupValid h = .ok e ∧ applicable t sig.ownerK e = true ∧ Γ.access e (effRecv sig) = .ok Γ1 ∧
      mkResult x Γ.depth e (effRecv sig).mode sig.ret sig.lts = some res ∧
      DeclRes Γ1 Γ' res := by
  unfold checkCall at hc
  cases hl : t.lookup owner name with
  | none => rw [hl] at hc; cases hc
  | some sig =>
    rw [hl] at hc; simp only at hc
    have hmem : sig ∈ t.sigs := List.mem_of_find?_eq_some hl
    by_cases hcond : (sig.op != op || op == .enterScoped || op == .enterAligned) = true
    · rw [if_pos hcond] at hc; cases hc
    · rw [if_neg hcond] at hc
      simp only [Bool.or_eq_true, not_or, bne_iff_ne, ne_eq, Decidable.not_not, beq_iff_eq] at hcond
      cases hle : Γ.lookupValid h with
      | error r => rw [hle] at hc; cases hc
      | ok e =>
        rw [hle] at hc; simp only at hc
        by_cases happ : (!applicable t sig.ownerK e) = true
        · rw [if_pos happ] at hc; cases hc
        · rw [if_neg happ] at hc
          have happ' : applicable t sig.ownerK e = true := by simpa using happ
          cases hacc : Γ.access e (effRecv sig) with
          | error r => rw [hacc] at hc; cases hc
          | ok Γ1 =>
            rw [hacc] at hc; simp only at hc
            cases hres : mkResult x Γ.depth e (effRecv sig).mode sig.ret sig.lts with
            | none => rw [hres] at hc; cases hc
            | some res =>
              rw [hres] at hc
              cases res with
              | none =>
                simp only at hc; cases hc
                exact ⟨sig, e, _, none, hmem, hcond.1.1, hcond.1.2, hcond.2, rfl, happ', hacc, hres, rfl⟩
              | some ne =>
                simp only at hc
                exact ⟨sig, e, Γ1, some ne, hmem, hcond.1.1, hcond.1.2, hcond.2, rfl, happ', hacc, hres, hc⟩

theorem access_ok {Γ Γ1 : SEnv} {e : Entry} {r : Recv} (h : Γ.access e r = .ok Γ1) :
    (r = .ref ∧ Γ1 = Γ.useShr e.var) ∨ (r = .refMut ∧ e.acc ≠ .shrRef ∧ Γ1 = Γ.useMut e.var) ∨
    (r = .value ∧ e.movable = true ∧ e.kind ≠ .claim ∧ e.kind ≠ .poolGuard ∧ Γ1 = Γ.remove e.var) := by
  unfold SEnv.access at h
  cases r with
  | ref => cases h; exact Or.inl ⟨rfl, rfl⟩
  | refMut =>
    simp only at h
    split at h
    · cases h
    · rename_i hne
      cases h
      exact Or.inr (Or.inl ⟨rfl, by simpa using hne, rfl⟩)
  | value =>
    simp only at h
    split at h
    · rename_i hmv
      cases h
      simp only [Bool.and_eq_true, bne_iff_ne, ne_eq] at hmv
      exact Or.inr (Or.inr ⟨rfl, hmv.1.1, hmv.1.2, hmv.2, rfl⟩)
    · cases h

theorem sigOK_sig {t : Table} (hok : sigOK t = true) {s : Sig} (hs : s ∈ t.sigs) : sigAdequate s = true := by
  unfold sigOK at hok; simp only [Bool.and_eq_true] at hok
  exact List.all_eq_true.1 hok.1.1.1.1.1.1 s hs

theorem sigOK_conv {t : Table} (hok : sigOK t = true) {input name : String} {c : ValueConv}
    (hl : t.lookupConv input name = some c) : c.tied = true := by
  unfold sigOK at hok; simp only [Bool.and_eq_true] at hok
  exact List.all_eq_true.1 hok.2 c (List.mem_of_find?_eq_some hl)

theorem sigOK_impls {t : Table} (hok : sigOK t = true) : t.implLt .refMutBump = none := by
  unfold sigOK at hok; simp only [Bool.and_eq_true] at hok
  have h := hok.1.1.1.1.1.2
  unfold Table.implLt
  cases hf : t.scopeImpls.find? (fun i => i.ty == ImplTy.refMutBump) with
  | none => rfl
  | some i =>
    exfalso
    have hm := List.mem_of_find?_eq_some hf
    have hty : i.ty = .refMutBump := by simpa using List.find?_some hf
    have := List.all_eq_true.1 h i hm
    unfold implAdequate at this
    rw [hty] at this
    cases hlt : i.lt <;> rw [hlt] at this <;> simp at this

/-- the receiver is still there, valid, after a shared or exclusive use of itself -/
theorem Inv.receiver_survives {Γ : SEnv} {σ : DState} (inv : Inv Γ σ) {e : Entry} (he : e ∈ Γ.ents) (hv : e.valid = true)
    (p : Loan → Bool) (hp : ∀ l, p l = true → l.on e.var = true) : e ∈ killEnts p Γ.ents := by
  apply mem_killEnts_of_survivor he
  apply Bool.eq_false_iff.2
  intro h
  rcases List.any_eq_true.1 h with ⟨l, hl, hpl⟩
  have : e.self.on e.var = true := List.any_eq_true.2 ⟨l, hl, hp l hpl⟩
  rw [(inv.closed e he hv).2.2.1] at this
  exact absurd this Bool.false_ne_true

theorem noConflict_useShr (Γ : SEnv) (v : Var) : NoConflict (Γ.useShr v) v .shr := by
  intro g hg hv; exact (mem_useShr_valid hg hv).2

theorem noConflict_useMut (Γ : SEnv) (v : Var) : NoConflict (Γ.useMut v) v .mut := by
  intro g hg hv; exact (mem_useMut_valid hg hv).2

end Life
