/-
  Lemmas/MemEx.lean — small concrete arena states used by the non-vacuity examples of C01 / C02.
-/
import BumpProof.Lemmas.MemFresh

namespace Arena.Mem.Ex
open Arena Arena.Mem Rs

def cfgUp : Cfg :=
  { up := true, minAlign0 := 1, ga := true, claimable := false, deallocates := true,
    shrinks := true, minChunk := 512, hdr := { size := 32, align := 8 } }
def cfgDown : Cfg := { cfgUp with up := false }

/-- upwards: chunk `[64, 128)`, header `[64, 96)`, one 8-byte block at `96`, position `104` -/
def chunkUp : Chunk :=
  { base := 64, size := 64, pos := 104, granted := 64, reqSize := 64, data := Array.replicate 64 7 }
/-- downwards: chunk `[64, 128)`, header `[96, 128)`, one 8-byte block at `80`, position `80` -/
def chunkDown : Chunk := { chunkUp with pos := 80 }

def blk (addr : Nat) : Block := { id := 0, addr := addr, size := 8, align := 8, depth := 0, init := 0 }

def stUp : State :=
  { chunks := [chunkUp], cur := .chunk 0, minAlign := 1, frames := [], live := [blk 96],
    nextId := 1, userCps := [], prepared := none, resps := [], reqs := [], dropped := false }
def stDown : State := { stUp with chunks := [chunkDown], live := [blk 80] }

theorem stUp_wf : MemWF stUp := by
  refine ⟨List.pairwise_singleton _ _, ?_⟩
  intro c hc
  simp only [stUp, List.mem_singleton] at hc
  subst hc
  simp [chunkUp]

theorem stDown_wf : MemWF stDown := by
  refine ⟨List.pairwise_singleton _ _, ?_⟩
  intro c hc
  simp only [stDown, List.mem_singleton] at hc
  subst hc
  simp [chunkDown, chunkUp]

theorem stUp_fresh : HeadFresh stUp := by
  intro p g rest h; simp [stUp] at h

theorem stDown_fresh : HeadFresh stDown := by
  intro p g rest h; simp [stDown, stUp] at h

theorem stUp_in (a : Nat) (h1 : 64 ≤ a) (h2 : a < 128) : InChunks stUp a :=
  ⟨chunkUp, by simp [stUp], by simp [chunkUp]; omega, by simp [chunkUp]; omega⟩

theorem stDown_in (a : Nat) (h1 : 64 ≤ a) (h2 : a < 128) : InChunks stDown a :=
  ⟨chunkDown, by simp [stDown], by simp [chunkDown, chunkUp]; omega, by simp [chunkDown, chunkUp]; omega⟩

/-- `stUp` with a pending base-allocator response that grants `[256, 1280)` -/
def stUpR : State := { stUp with resps := [.granted 256 1024] }

theorem stUpR_wf : MemWF stUpR := stUp_wf

theorem stUpR_fresh : HeadFresh stUpR := by
  intro p g rest h x hx
  simp only [stUpR, stUp, List.cons.injEq, BaseResp.granted.injEq] at h
  obtain ⟨⟨rfl, rfl⟩, _⟩ := h
  simp only [shapeOf, stUpR, stUp, List.map_cons, List.map_nil, List.mem_singleton] at hx
  subst hx
  simp [Chunk.memShape, chunkUp]

end Arena.Mem.Ex
