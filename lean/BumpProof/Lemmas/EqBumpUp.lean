/-
  Lemmas/EqBumpUp.lean — `bump_up` computes `Spec.bumpUp`.

  The proof is split by `size_is_const` and by the three ways the final re-alignment of the new
  position is decided; every piece first runs `bump_up_setup`, then `bump_up_phase1_*`, which
  enumerates the paths through the first half of the function; `bump_up_leaf` evaluates one path.
-/
import BumpProof.Lemmas.RsOps
set_option linter.unusedSimpArgs false
set_option linter.unusedVariables false
namespace Lemmas
open Gen.Bumping Rs C11
attribute [local congr] rs_bind_congr rs_ite_congr

/- common set-up -/
set_option hygiene false in
local macro "bump_up_setup" : tactic => `(tactic| (
  have hdav := debug_assert_valid_eq h
  have hf := Valid.facts h
  unfold bump_up
  rw [mca, hdav]
  simp only [ok_bind]
  obtain ⟨s, e, m, ⟨sz, a⟩, aic, sic, smoa⟩ := p
  simp only at hf ⊢
  clear hdav h
  obtain ⟨hm, hm16, hm16d, ha, ha64, hap, hmp, hs0, he0, hs64, he64, hsz, htr, h16, hr⟩ := hf
  simp only [↓reduceIte] at hr
  have hszI : as_isize sz = (sz : Int) := as_isize_small' (by omega)
  unfold Spec.bumpUp
  have he16 : 16 ∣ e := by
    rcases hr with ⟨_, _, _, h⟩ | ⟨_, h, _⟩ <;> exact h
  have heM : e + 16 ≤ 2 ^ 64 := add_le_of_dvd_of_lt he16 ⟨2 ^ 60, by decide⟩ he64
  have hsM : s + 16 ≤ 2 ^ 64 := by
    rcases hr with ⟨_, _, _, _⟩ | ⟨_, _, h⟩
    · omega
    · exact add_le_of_dvd_of_lt h ⟨2 ^ 60, by decide⟩ hs64
  have hme : m ∣ e := Nat.dvd_trans hm16d he16
  have hms : m ∣ s := by
    rcases hr with ⟨_, _, h, _⟩ | ⟨_, _, h⟩
    · exact h
    · exact Nat.dvd_trans hm16d h
  have hS1 := upAlign_dvd s a
  have hS2 := le_upAlign s hap
  have hS3 := upAlign_lt s hap
  have hS4 : ∀ q, a ∣ q → s ≤ q → Spec.upAlign s a ≤ q := fun q h1 h2 => upAlign_le_of_dvd hap h1 h2
  have hSm : m ∣ Spec.upAlign s a := hm.dvd_upAlign ha hms
  have hUle : ∀ x, x ≤ e → Spec.upAlign x m ≤ e := fun x hx => upAlign_le_of_dvd hmp hme hx
  have hUge : ∀ x, x ≤ Spec.upAlign x m := fun x => le_upAlign x hmp
  have hUd : ∀ x, m ∣ Spec.upAlign x m := fun x => upAlign_dvd x m))

/- final evaluation of one path -/
syntax "bump_up_leaf" " [" Lean.Parser.Tactic.simpLemma,* "]" : tactic
set_option hygiene false in
macro_rules
  | `(tactic| bump_up_leaf [$ls,*]) =>
    `(tactic| rs_simp [hszI, assert_band_add, upAlign_add_self, Option.map_some, Option.map_none, $ls,*])

/- fast path (`align ≤ 16` known at compile time), for the block address `X` -/
set_option hygiene false in
local macro "bump_up_fast_true" X:term : tactic => `(tactic| (
  rcases hr with ⟨h1, h2, h3, h4⟩ | ⟨h1, h2, h3⟩
  · have hXe : $X ≤ e := hS4 e (Nat.dvd_trans ha16 he16) h1
    by_cases b1 : sz < 16
    · by_cases hlt : e < $X + sz
      · have hfit : ¬ ($X + sz ≤ e) := by omega
        bump_up_leaf [b1, hlt, hfit]
      · have hfit : $X + sz ≤ e := by omega
        have hU1 := hUd ($X + sz)
        have hU2 := hUge ($X + sz)
        have hU3 := hUle _ hfit
        bump_up_leaf [b1, hlt, hfit]
    · by_cases hcmp : (sz : Int) > ((e - $X : Nat) : Int)
      · have hfit : ¬ ($X + sz ≤ e) := by omega
        bump_up_leaf [b1, hcmp, hfit]
      · have hfit : $X + sz ≤ e := by omega
        have hU1 := hUd ($X + sz)
        have hU2 := hUge ($X + sz)
        have hU3 := hUle _ hfit
        bump_up_leaf [b1, hcmp, hfit]
  · have hXs : $X = s := hXd h3
    have hrem : as_isize (wrapping_sub e $X) = -16 := by
      rw [hXs, h1]; exact remaining_dummy (by omega)
    have hfit : ¬ ($X + sz ≤ e) := by omega
    by_cases b1 : sz < 16
    · have hlt : e < $X + sz := by omega
      bump_up_leaf [b1, hlt, hfit]
    · have h5 : (sz : Int) > -16 := by omega
      bump_up_leaf [b1, hrem, h5, hfit]))

/- fast path, `size_is_const = false`: the size is always checked against the remaining capacity -/
set_option hygiene false in
local macro "bump_up_fast_false" X:term : tactic => `(tactic| (
  rcases hr with ⟨h1, h2, h3, h4⟩ | ⟨h1, h2, h3⟩
  · have hXe : $X ≤ e := hS4 e (Nat.dvd_trans ha16 he16) h1
    by_cases hcmp : (sz : Int) > ((e - $X : Nat) : Int)
    · have hfit : ¬ ($X + sz ≤ e) := by omega
      bump_up_leaf [hcmp, hfit]
    · have hfit : $X + sz ≤ e := by omega
      have hU1 := hUd ($X + sz)
      have hU2 := hUge ($X + sz)
      have hU3 := hUle _ hfit
      bump_up_leaf [hcmp, hfit]
  · have hXs : $X = s := hXd h3
    have hrem : as_isize (wrapping_sub e $X) = -16 := by
      rw [hXs, h1]; exact remaining_dummy (by omega)
    have hfit : ¬ ($X + sz ≤ e) := by omega
    have h5 : (sz : Int) > -16 := by omega
    bump_up_leaf [hrem, h5, hfit]))

/- generic path -/
set_option hygiene false in
local macro "bump_up_generic" : tactic => `(tactic| (
  have hs1 : s - 1 < 2 ^ 64 := by omega
  have hband : band (s - 1) (bnot (a - 1)) = Spec.downAlign (s - 1) a := ha.band_bnot ha64 hs1
  have hadd := downAlign_pred_add hs0 hap
  have hasz : a + sz < 2 ^ 64 := by omega
  by_cases hsat : Spec.upAlign s a + sz < 2 ^ 64
  · have hsat' : saturating_add (Spec.downAlign (s - 1) a) (a + sz) = Spec.upAlign s a + sz := by
      rw [saturating_add_ok (by omega)]; omega
    by_cases hgt : Spec.upAlign s a + sz > e
    · have hfit : ¬ (Spec.upAlign s a + sz ≤ e) := by omega
      bump_up_leaf [hband, hsat', hgt, hfit]
    · have hfit : Spec.upAlign s a + sz ≤ e := by omega
      have hU1 := hUd (Spec.upAlign s a + sz)
      have hU2 := hUge (Spec.upAlign s a + sz)
      have hU3 := hUle _ hfit
      bump_up_leaf [hband, hsat', hadd, hgt, hfit]
  · have hsat' : saturating_add (Spec.downAlign (s - 1) a) (a + sz) = Rs.MAX :=
      saturating_add_sat (by omega)
    have hgt : Rs.MAX > e := by rw [MAX_eq]; omega
    have hfit : ¬ (Spec.upAlign s a + sz ≤ e) := by omega
    bump_up_leaf [hband, hsat', hgt, hfit]))

/- the three ways of computing the block address, `size_is_const = true` -/
set_option hygiene false in
local macro "bump_up_phase1_true" : tactic => `(tactic| (
  by_cases b0 : (aic && decide (a ≤ 16)) = true
  · simp only [b0, ↓reduceIte]
    simp only [Bool.and_eq_true, decide_eq_true_eq] at b0
    have ha16 : a ∣ 16 := ha.dvd_of_le h16 b0.2
    by_cases bam : a ≤ m
    · have has : a ∣ s := Nat.dvd_trans (ha.dvd_of_le hm bam) hms
      have hSs := upAlign_eq_self hap has
      rw [hSs] at hS1 hS2 hS3 hS4 hSm ⊢
      simp only [bam, decide_true, ↓reduceIte]
      have hXd : 16 ∣ s → s = s := fun _ => rfl
      bump_up_fast_true s
    · simp only [bam, decide_false, ↓reduceIte, Bool.false_eq_true]
      have hov : s + (a - 1) < 2 ^ 64 := by omega
      simp only [up_align_unchecked_eq ha ha64 hov, ok_bind]
      have hXd : 16 ∣ s → Spec.upAlign s a = s := fun h => upAlign_eq_self hap (Nat.dvd_trans ha16 h)
      bump_up_fast_true (Spec.upAlign s a)
  · simp only [b0, ↓reduceIte, Bool.false_eq_true]
    bump_up_generic))

/- the three ways of computing the block address, `size_is_const = false` -/
set_option hygiene false in
local macro "bump_up_phase1_false" : tactic => `(tactic| (
  by_cases b0 : (aic && decide (a ≤ 16)) = true
  · simp only [b0, ↓reduceIte]
    simp only [Bool.and_eq_true, decide_eq_true_eq] at b0
    have ha16 : a ∣ 16 := ha.dvd_of_le h16 b0.2
    by_cases bam : a ≤ m
    · have has : a ∣ s := Nat.dvd_trans (ha.dvd_of_le hm bam) hms
      have hSs := upAlign_eq_self hap has
      rw [hSs] at hS1 hS2 hS3 hS4 hSm ⊢
      simp only [bam, decide_true, ↓reduceIte]
      have hXd : 16 ∣ s → s = s := fun _ => rfl
      bump_up_fast_false s
    · simp only [bam, decide_false, ↓reduceIte, Bool.false_eq_true]
      have hov : s + (a - 1) < 2 ^ 64 := by omega
      simp only [up_align_unchecked_eq ha ha64 hov, ok_bind]
      have hXd : 16 ∣ s → Spec.upAlign s a = s := fun h => upAlign_eq_self hap (Nat.dvd_trans ha16 h)
      bump_up_fast_false (Spec.upAlign s a)
  · simp only [b0, ↓reduceIte, Bool.false_eq_true]
    bump_up_generic))

/-! ## `size_is_const = true` -/

/-- no re-alignment needed because the (constant) size is a multiple of `min_align` -/
theorem bump_up_true_1 (p : BumpProps) (h : Valid true p) (hsic : p.size_is_const = true)
    (c7 : (!(p.align_is_const && p.size_is_multiple_of_align && decide (p.layout.align ≥ p.min_align))) = true) (hz : p.layout.size % p.min_align = 0) :
    bump_up p = .ok ((Spec.bumpUp p.start p.«end» p.layout.size p.layout.align p.min_align).map
      fun r => { new_pos := r.2, ptr := r.1 }) := by
  bump_up_setup
  simp only at hsic c7 hz
  subst hsic
  have hm0 : m ≠ 0 := by omega
  have hmsz : m ∣ sz := Nat.dvd_of_mod_eq_zero hz
  simp only [c7, rem_ok hm0, ok_bind, hz, ↓reduceIte, decide_true, Bool.true_and]
  bump_up_phase1_true

/-- re-alignment of the new position -/
theorem bump_up_true_2 (p : BumpProps) (h : Valid true p) (hsic : p.size_is_const = true)
    (c7 : (!(p.align_is_const && p.size_is_multiple_of_align && decide (p.layout.align ≥ p.min_align))) = true) (hz : ¬ p.layout.size % p.min_align = 0) :
    bump_up p = .ok ((Spec.bumpUp p.start p.«end» p.layout.size p.layout.align p.min_align).map
      fun r => { new_pos := r.2, ptr := r.1 }) := by
  bump_up_setup
  simp only at hsic c7 hz
  subst hsic
  have hm0 : m ≠ 0 := by omega
  simp only [c7, rem_ok hm0, ok_bind, hz, ↓reduceIte, decide_false, Bool.true_and, Bool.false_eq_true]
  bump_up_phase1_true

/-- no re-alignment needed because size and address are multiples of `align ≥ min_align` -/
theorem bump_up_true_3 (p : BumpProps) (h : Valid true p) (hsic : p.size_is_const = true)
    (c7 : ¬ (!(p.align_is_const && p.size_is_multiple_of_align && decide (p.layout.align ≥ p.min_align))) = true) :
    bump_up p = .ok ((Spec.bumpUp p.start p.«end» p.layout.size p.layout.align p.min_align).map
      fun r => { new_pos := r.2, ptr := r.1 }) := by
  bump_up_setup
  simp only at hsic c7
  subst hsic
  simp only [c7, ↓reduceIte, Bool.false_eq_true, Bool.true_and]
  simp only [Bool.not_eq_true', Bool.not_eq_false, Bool.and_eq_true, decide_eq_true_eq] at c7
  have hmsz : m ∣ sz := Nat.dvd_trans (hm.dvd_of_le ha c7.2) (htr c7.1.2)
  bump_up_phase1_true

/-! ## `size_is_const = false` -/

theorem bump_up_false_1 (p : BumpProps) (h : Valid true p) (hsic : p.size_is_const = false)
    (c7 : (!(p.align_is_const && p.size_is_multiple_of_align && decide (p.layout.align ≥ p.min_align))) = true) :
    bump_up p = .ok ((Spec.bumpUp p.start p.«end» p.layout.size p.layout.align p.min_align).map
      fun r => { new_pos := r.2, ptr := r.1 }) := by
  bump_up_setup
  simp only at hsic c7
  subst hsic
  simp only [c7, ↓reduceIte, Bool.false_and, Bool.false_eq_true]
  bump_up_phase1_false

theorem bump_up_false_2 (p : BumpProps) (h : Valid true p) (hsic : p.size_is_const = false)
    (c7 : ¬ (!(p.align_is_const && p.size_is_multiple_of_align && decide (p.layout.align ≥ p.min_align))) = true) :
    bump_up p = .ok ((Spec.bumpUp p.start p.«end» p.layout.size p.layout.align p.min_align).map
      fun r => { new_pos := r.2, ptr := r.1 }) := by
  bump_up_setup
  simp only at hsic c7
  subst hsic
  simp only [c7, ↓reduceIte, Bool.false_and, Bool.false_eq_true]
  simp only [Bool.not_eq_true', Bool.not_eq_false, Bool.and_eq_true, decide_eq_true_eq] at c7
  have hmsz : m ∣ sz := Nat.dvd_trans (hm.dvd_of_le ha c7.2) (htr c7.1.2)
  bump_up_phase1_false

/-! ## All cases -/

theorem bump_up_ok (p : BumpProps) (h : Valid true p) :
    bump_up p = .ok ((Spec.bumpUp p.start p.«end» p.layout.size p.layout.align p.min_align).map
      fun r => { new_pos := r.2, ptr := r.1 }) := by
  by_cases c7 : (!(p.align_is_const && p.size_is_multiple_of_align && decide (p.layout.align ≥ p.min_align))) = true
  · cases hsic : p.size_is_const
    · exact bump_up_false_1 p h hsic c7
    · by_cases hz : p.layout.size % p.min_align = 0
      · exact bump_up_true_1 p h hsic c7 hz
      · exact bump_up_true_2 p h hsic c7 hz
  · cases hsic : p.size_is_const
    · exact bump_up_false_2 p h hsic c7
    · exact bump_up_true_3 p h hsic c7

end Lemmas
