/-
  Lemmas/CollStd.lean — the list-level descriptions of `Coll/Spec.lean` under oracles that do not
  panic are the plain `List` functions that `std::vec::Vec` implements (used by `Props/C08.lean`).
-/
import BumpProof.Coll.Spec

namespace Coll

/-- the oracle "every callback returns, with these values" -/
def rets (bs : List Nat) : List Outcome := bs.map Outcome.ret

/-- elements of `xs` whose answer satisfies `keep` -/
def keptBy (keep : Nat → Bool) (xs : List Id) (bs : List Nat) : List Id :=
  ((xs.zip bs).filter (fun p => keep p.2)).map (·.1)

theorem keptBy_cons (keep : Nat → Bool) (x : Id) (xs : List Id) (b : Nat) (bs : List Nat) :
    keptBy keep (x :: xs) (b :: bs) = if keep b then x :: keptBy keep xs bs else keptBy keep xs bs := by
  unfold keptBy
  simp only [List.zip_cons_cons, List.filter_cons]
  split <;> simp

/-- with answers `bs` (one per element) and no panicking `Drop`, the pass keeps exactly `keptBy` -/
theorem sieve_rets (keep : Nat → Bool) (xs : List Id) :
    ∀ (kept : List Id) (bs : List Nat) (o : List Outcome), bs.length = xs.length →
      sieve keep [] kept xs (rets bs ++ o) =
        { final := kept ++ keptBy keep xs bs, dropped := keptBy (fun b => !keep b) xs bs, exit := .ret (), rest := o } := by
  induction xs with
  | nil =>
    intro kept bs o h
    have : bs = [] := List.eq_nil_of_length_eq_zero (by simpa using h)
    subst this
    simp [sieve, rets, keptBy]
  | cons x xs ih =>
    intro kept bs o h
    match bs, h with
    | b :: bs, h =>
      simp only [List.length_cons, Nat.add_right_cancel_iff] at h
      simp only [rets, List.map_cons, List.cons_append, sieve, keptBy_cons]
      have := ih (kept ++ [x]) bs o h
      have := ih kept bs o h
      simp only [rets] at *
      by_cases hk : keep b = true
      · simp [hk, ih (kept ++ [x]) bs o h, rets]
      · have hk' : keep b = false := by simpa using hk
        simp [hk', ih kept bs o h, rets]

/-- `n` clones with ids `ids` -/
theorem extendCloneSpec_rets (ids : List Id) : ∀ (xs : List Id) (o : List Outcome),
    extendCloneSpec xs ids.length (rets ids ++ o) = { final := xs ++ ids, exit := .ret (), rest := o } := by
  induction ids with
  | nil => intro xs o; simp [extendCloneSpec, rets]
  | cons id ids ih =>
    intro xs o
    simp only [List.length_cons, rets, List.map_cons, List.cons_append, extendCloneSpec]
    have := ih (xs ++ [id]) o
    simp only [rets] at this
    rw [this]; simp

theorem clonedIds_rets (ids : List Id) (o : List Outcome) : clonedIds ids.length (rets ids ++ o) = ids := by
  induction ids with
  | nil => simp [clonedIds]
  | cons id ids ih => simp only [List.length_cons, rets, List.map_cons, List.cons_append, clonedIds]; simp only [rets] at ih; rw [ih]

end Coll
