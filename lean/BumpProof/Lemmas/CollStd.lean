/-
  Lemmas/CollStd.lean — the list-level descriptions of `Coll/Spec.lean` under oracles that do not
  panic are the plain `List` functions that `std::vec::Vec` implements (used by `Props/C08.lean`).
-/
import BumpProof.Coll.Spec

namespace Coll

/-- the oracle "every callback returns, with these values" -/
def rets (bs : List Nat) : List Outcome := bs.map Outcome.ret

/-- elements of `xs` whose answer satisfies `keep` -/
def keptBy (keep : Nat → Bool) (xs : List Id) (bs : List Nat) : List Id :=
  ((xs.zip bs).filter (fun p => keep p.2)).map (·.1)

theorem keptBy_cons (keep : Nat → Bool) (x : Id) (xs : List Id) (b : Nat) (bs : List Nat) :
    keptBy keep (x :: xs) (b :: bs) = if keep b then x :: keptBy keep xs bs else keptBy keep xs bs := by
  unfold keptBy
  simp only [List.zip_cons_cons, List.filter_cons]
  split <;> simp

/-- with answers `bs` (one per element) and no panicking `Drop`, the pass keeps exactly `keptBy` -/
theorem sieve_rets (keep : Nat → Bool) (xs : List Id) :
    ∀ (kept : List Id) (bs : List Nat) (o : List Outcome), bs.length = xs.length →
      sieve keep [] kept xs (rets bs ++ o) =
        { final := kept ++ keptBy keep xs bs, dropped := keptBy (fun b => !keep b) xs bs, exit := .ret (), rest := o } := by
  induction xs with
  | nil =>
    intro kept bs o h
    have : bs = [] := List.eq_nil_of_length_eq_zero (by simpa using h)
    subst this
    simp [sieve, rets, keptBy]
  | cons x xs ih =>
    intro kept bs o h
    match bs, h with
    | b :: bs, h =>
      simp only [List.length_cons, Nat.add_right_cancel_iff] at h
      simp only [rets, List.map_cons, List.cons_append, sieve, keptBy_cons]
      have := ih (kept ++ [x]) bs o h
      have := ih kept bs o h
      simp only [rets] at *
      by_cases hk : keep b = true
      · simp [hk, ih (kept ++ [x]) bs o h, rets]
      · have hk' : keep b = false := by simpa using hk
        simp [hk', ih kept bs o h, rets]

/-- `n` clones with ids `ids` -/
theorem extendCloneSpec_rets (ids : List Id) : ∀ (xs : List Id) (o : List Outcome),
    extendCloneSpec xs ids.length (rets ids ++ o) = { final := xs ++ ids, exit := .ret (), rest := o } := by
  induction ids with
  | nil => intro xs o; simp [extendCloneSpec, rets]
  | cons id ids ih =>
    intro xs o
    simp only [List.length_cons, rets, List.map_cons, List.cons_append, extendCloneSpec]
    have := ih (xs ++ [id]) o
    simp only [rets] at this
    rw [this]; simp

theorem clonedIds_rets (ids : List Id) (o : List Outcome) : clonedIds ids.length (rets ids ++ o) = ids := by
  induction ids with
  | nil => simp [clonedIds]
  | cons id ids ih => simp only [List.length_cons, rets, List.map_cons, List.cons_append, clonedIds]; simp only [rets] at ih; rw [ih]

/-- `extract_if` driven to the end (`calls > len`) with answers `bs`: the elements whose answer is
    `true` are extracted in order, the others stay in order -/
theorem extractRun_rets (xs : List Id) : ∀ (kept : List Id) (bs : List Nat) (o : List Outcome) (calls : Nat),
    bs.length = xs.length → calls > xs.length →
    extractRun calls kept xs (rets bs ++ o) = (kept ++ keptBy (· == 0) xs bs, [], false, keptBy (· != 0) xs bs, o) := by
  induction xs with
  | nil =>
    intro kept bs o calls hb hc
    have : bs = [] := List.eq_nil_of_length_eq_zero (by simpa using hb)
    subst this
    obtain ⟨c, rfl⟩ : ∃ c, calls = c + 1 := ⟨calls - 1, by omega⟩
    simp [extractRun, scanSpec, rets, keptBy]
  | cons x xs ih =>
    intro kept bs o calls hb hc
    match bs, hb with
    | b :: bs, hb =>
      simp only [List.length_cons, Nat.add_right_cancel_iff] at hb
      simp only [List.length_cons] at hc
      obtain ⟨c, rfl⟩ : ∃ c, calls = c + 1 := ⟨calls - 1, by omega⟩
      by_cases h0 : b = 0
      · -- retained: the scan goes on within the same call
        subst h0
        have e : extractRun (c + 1) kept (x :: xs) (rets (0 :: bs) ++ o) = extractRun (c + 1) (kept ++ [x]) xs (rets bs ++ o) := by
          simp [extractRun, scanSpec, rets]
        rw [e, ih (kept ++ [x]) bs o (c + 1) hb (by omega)]
        simp [keptBy_cons]
      · have hne : (b != 0) = true := by simp [h0]
        have heq : (b == 0) = false := by simp [h0]
        have e : extractRun (c + 1) kept (x :: xs) (rets (b :: bs) ++ o) =
            ((extractRun c kept xs (rets bs ++ o)).1, (extractRun c kept xs (rets bs ++ o)).2.1, (extractRun c kept xs (rets bs ++ o)).2.2.1,
              x :: (extractRun c kept xs (rets bs ++ o)).2.2.2.1, (extractRun c kept xs (rets bs ++ o)).2.2.2.2) := by
          simp [extractRun, scanSpec, rets, h0]
        rw [e, ih kept bs o c hb (by omega)]
        simp [keptBy_cons, hne, heq]

/-- `map_in_place` whose closure returns the values `ids` -/
theorem mapSpec_rets (xs : List Id) : ∀ (done ids : List Id) (o : List Outcome), ids.length = xs.length →
    mapSpec done xs (rets ids ++ o) = { final := done ++ ids, escaped := xs, exit := .ret (), rest := o } := by
  induction xs with
  | nil =>
    intro done ids o h
    have : ids = [] := List.eq_nil_of_length_eq_zero (by simpa using h)
    subst this
    simp [mapSpec, rets]
  | cons x xs ih =>
    intro done ids o h
    match ids, h with
    | id :: ids, h =>
      simp only [List.length_cons, Nat.add_right_cancel_iff] at h
      simp only [rets, List.map_cons, List.cons_append, mapSpec]
      have := ih (done ++ [id]) ids o h
      simp only [rets] at this
      rw [this]; simp

end Coll
