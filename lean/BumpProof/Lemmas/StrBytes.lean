/-
  Lemmas/StrBytes.lean — byte-level effect of the model operations (no UTF-8 yet): under
  `len ≤ capacity` no copy leaves the allocation and the contents change as the list
  specification says.
-/
import BumpProof.Str.Model

namespace Str

/-- pointwise proof of an equation between lists built from `take`/`drop`/`++` -/
macro "list_pw" : tactic => `(tactic| (
  apply List.ext_getElem?
  intro i
  simp only [List.getElem?_append, List.getElem?_take, List.getElem?_drop, List.length_append,
    List.length_take, List.length_drop, List.length_replicate, List.length_nil, List.length_cons]
  repeat' split
  all_goals first
    | rfl
    | omega
    | (congr 1; omega)
    | (rw [List.getElem?_eq_none (by omega)])
    | (symm; rw [List.getElem?_eq_none (by omega)])))

/-- the length never exceeds the capacity -/
def WFL (s : State) : Prop := s.len ≤ s.buf.length

theorem bytes_length {s : State} (h : WFL s) : s.bytes.length = s.len := by
  unfold State.bytes WFL at *; simp; omega

theorem bytes_setLen (s : State) (n : Nat) (h : n ≤ s.len) :
    ({ s with len := n } : State).bytes = s.bytes.take n := by
  simp only [State.bytes, List.take_take]; congr 1; omega

theorem wfl_ofBytes (l : Bytes) (cap : Nat) : WFL (State.ofBytes l cap) := by
  simp [WFL, State.ofBytes]

theorem bytes_ofBytes (l : Bytes) (cap : Nat) : (State.ofBytes l cap).bytes = l := by
  simp [State.bytes, State.ofBytes]

/-! ## memory primitives -/

theorem writeAt_eq (buf : Bytes) (dst : Nat) (data : Bytes) (h : dst + data.length ≤ buf.length) :
    writeAt buf dst data = some (buf.take dst ++ data ++ buf.drop (dst + data.length)) := by
  simp [writeAt, h]

theorem copyWithin_eq (buf : Bytes) (src dst n : Nat) (h1 : src + n ≤ buf.length) (h2 : dst + n ≤ buf.length) :
    copyWithin buf src dst n = some (buf.take dst ++ (buf.drop src).take n ++ buf.drop (dst + n)) := by
  have : ((buf.drop src).take n).length = n := by simp; omega
  simp [copyWithin, h1, writeAt, this, h2]

/-! ## reserve -/

theorem reserve_some {fixed : Bool} {s s1 : State} {n : Nat} (h : WFL s) (hr : reserve fixed s n = some s1) :
    s1.len = s.len ∧ s1.bytes = s.bytes ∧ s.len + n ≤ s1.buf.length ∧ WFL s1 ∧
      (fixed = true → s1 = s) ∧ s.buf.length ≤ s1.buf.length ∧ s1.buf.take s.buf.length = s.buf := by
  unfold reserve at hr
  unfold WFL at *
  split at hr
  · simp only [Option.some.injEq] at hr; subst hr
    exact ⟨rfl, rfl, by omega, h, fun _ => rfl, Nat.le_refl _, by simp⟩
  · split at hr
    · simp at hr
    · rename_i hf
      simp only [Option.some.injEq] at hr; subst hr
      refine ⟨rfl, ?_, by simp; omega, by simp; omega, fun hx => absurd hx hf, by simp, by simp⟩
      simp only [State.bytes]
      rw [List.take_append_of_le_length h]

theorem reserve_none_iff {fixed : Bool} {s : State} {n : Nat} :
    reserve fixed s n = none ↔ fixed = true ∧ s.buf.length - s.len < n := by
  unfold reserve
  split
  · simp; omega
  · split <;> simp_all

/-- outcome of an operation that may need `need` more bytes: a FIXED string without that room
    reports an allocation error and is unchanged; otherwise the contents become `out`
    (a fixed string keeps its capacity) -/
def GrowsTo (fixed : Bool) (s : State) (need : Nat) (r : Res Unit) (out : Bytes) : Prop :=
  if fixed = true ∧ s.cap - s.len < need then r = .err s
  else ∃ s', r = .ok () s' ∧ WFL s' ∧ s'.bytes = out ∧ (fixed = true → s'.cap = s.cap)

theorem appendBytes_spec (fixed : Bool) (s : State) (data : Bytes) (h : WFL s) :
    GrowsTo fixed s data.length (appendBytes fixed s data) (s.bytes ++ data) := by
  unfold GrowsTo appendBytes
  match hr : reserve fixed s data.length with
  | none =>
    have := reserve_none_iff.1 hr
    rw [if_pos (by simpa [State.cap] using this)]
  | some s1 =>
    have hn : ¬ (fixed = true ∧ s.cap - s.len < data.length) := by
      intro hc
      have := (reserve_none_iff (fixed := fixed) (s := s) (n := data.length)).2 (by simpa [State.cap] using hc)
      rw [this] at hr; simp at hr
    rw [if_neg hn]
    obtain ⟨hlen, hb, hcap, hw, hfix, _, _⟩ := reserve_some h hr
    simp only
    rw [writeAt_eq _ _ _ (by omega)]
    refine ⟨_, rfl, by simp [WFL]; omega, ?_, ?_⟩
    · rw [← hb]
      simp only [State.bytes]
      unfold WFL at hw
      list_pw
    · intro hf; have hs := hfix hf; subst hs; simp [State.cap]; unfold WFL at h; omega

theorem insertBytes_spec (fixed : Bool) (s : State) (idx : Nat) (data : Bytes) (h : WFL s) (hi : idx ≤ s.len) :
    GrowsTo fixed s data.length (insertBytes fixed s idx data)
      (s.bytes.take idx ++ data ++ s.bytes.drop idx) := by
  unfold GrowsTo insertBytes
  match hr : reserve fixed s data.length with
  | none =>
    have := reserve_none_iff.1 hr
    rw [if_pos (by simpa [State.cap] using this)]
  | some s1 =>
    have hn : ¬ (fixed = true ∧ s.cap - s.len < data.length) := by
      intro hc
      have := (reserve_none_iff (fixed := fixed) (s := s) (n := data.length)).2 (by simpa [State.cap] using hc)
      rw [this] at hr; simp at hr
    rw [if_neg hn]
    obtain ⟨hlen, hb, hcap, hw, hfix, _, _⟩ := reserve_some h hr
    simp only
    rw [copyWithin_eq _ _ _ _ (by omega) (by omega)]
    simp only
    rw [writeAt_eq _ _ _ (by simp; omega)]
    refine ⟨_, rfl, by simp [WFL]; omega, ?_, ?_⟩
    · rw [← hb]
      simp only [State.bytes]
      unfold WFL at hw
      rw [hlen] at *
      list_pw
    · intro hf; have hs := hfix hf; subst hs; simp [State.cap]; unfold WFL at h; omega

end Str
