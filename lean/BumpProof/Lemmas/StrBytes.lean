/-
  Lemmas/StrBytes.lean — byte-level effect of the model operations (no UTF-8 yet): under
  `len ≤ capacity` no copy leaves the allocation and the contents change as the list
  specification says.
-/
import BumpProof.Str.Model

namespace Str

/-- pointwise proof of an equation between lists built from `take`/`drop`/`++` -/
macro "list_pw" : tactic => `(tactic| (
  apply List.ext_getElem?
  intro i
  simp only [List.getElem?_append, List.getElem?_take, List.getElem?_drop, List.length_append,
    List.length_take, List.length_drop, List.length_replicate, List.length_nil, List.length_cons]
  repeat' split
  all_goals first
    | rfl
    | omega
    | (congr 1; omega)
    | (rw [List.getElem?_eq_none (by omega)])
    | (symm; rw [List.getElem?_eq_none (by omega)])))

/-- the length never exceeds the capacity -/
def WFL (s : State) : Prop := s.len ≤ s.buf.length

theorem bytes_length {s : State} (h : WFL s) : s.bytes.length = s.len := by
  unfold State.bytes WFL at *; simp; omega

theorem bytes_setLen (s : State) (n : Nat) (h : n ≤ s.len) :
    ({ s with len := n } : State).bytes = s.bytes.take n := by
  simp only [State.bytes, List.take_take]; congr 1; omega

theorem wfl_ofBytes (l : Bytes) (cap : Nat) : WFL (State.ofBytes l cap) := by
  simp [WFL, State.ofBytes]

theorem bytes_ofBytes (l : Bytes) (cap : Nat) : (State.ofBytes l cap).bytes = l := by
  simp [State.bytes, State.ofBytes]

/-! ## memory primitives -/

theorem writeAt_eq (buf : Bytes) (dst : Nat) (data : Bytes) (h : dst + data.length ≤ buf.length) :
    writeAt buf dst data = some (buf.take dst ++ data ++ buf.drop (dst + data.length)) := by
  simp [writeAt, h]

theorem copyWithin_eq (buf : Bytes) (src dst n : Nat) (h1 : src + n ≤ buf.length) (h2 : dst + n ≤ buf.length) :
    copyWithin buf src dst n = some (buf.take dst ++ (buf.drop src).take n ++ buf.drop (dst + n)) := by
  have : ((buf.drop src).take n).length = n := by simp; omega
  simp [copyWithin, h1, writeAt, this, h2]

/-! ## reserve -/

theorem amortizedCap_ge (cap req : Nat) : req ≤ amortizedCap cap req ∧ cap * 2 ≤ amortizedCap cap req ∧
    minNonZeroCap ≤ amortizedCap cap req := by
  unfold amortizedCap; omega

/-- the capacity `c` after reserving `n` more bytes on `s`: unchanged — NO reallocation — while the
    spare room suffices; otherwise (growable strings only) the amortized capacity
    `max(2·cap, len + n, 8)`, or the arena's grant if that is larger (`MutBumpString`) -/
def CapAfter (a : Alloc) (s : State) (n : Nat) (c : Nat) : Prop :=
  (n ≤ s.cap - s.len → c = s.cap) ∧
  (s.cap - s.len < n →
    match a with
    | .fixed => False
    | .exact => c = amortizedCap s.cap (s.len + n)
    | .atLeast g => c = max g (amortizedCap s.cap (s.len + n)))

theorem reserve_some {a : Alloc} {s s1 : State} {n : Nat} (h : WFL s) (hr : reserve a s n = some s1) :
    s1.len = s.len ∧ s1.bytes = s.bytes ∧ s.len + n ≤ s1.buf.length ∧ WFL s1 ∧
      CapAfter a s n s1.buf.length := by
  unfold reserve at hr
  unfold WFL at *
  split at hr
  · rename_i hle
    simp only [Option.some.injEq] at hr; subst hr
    exact ⟨rfl, rfl, by omega, h, fun _ => rfl, fun hlt => by simp only [State.cap] at hlt; omega⟩
  · rename_i hnle
    have hge := amortizedCap_ge s.buf.length (s.len + n)
    cases a with
    | fixed => simp [growTo] at hr
    | exact =>
      simp only [growTo, Option.some.injEq] at hr; subst hr
      refine ⟨rfl, ?_, by simp; omega, by simp; omega, fun hle => by simp only [State.cap] at hle; omega,
        fun _ => by simp only [List.length_append, List.length_replicate, State.cap]; omega⟩
      simp only [State.bytes]
      rw [List.take_append_of_le_length h]
    | atLeast g =>
      simp only [growTo, Option.some.injEq] at hr; subst hr
      refine ⟨rfl, ?_, by simp; omega, by simp; omega, fun hle => by simp only [State.cap] at hle; omega,
        fun _ => by simp only [List.length_append, List.length_replicate, State.cap]; omega⟩
      simp only [State.bytes]
      rw [List.take_append_of_le_length h]

theorem reserve_none_iff {a : Alloc} {s : State} {n : Nat} :
    reserve a s n = none ↔ a.isFixed = true ∧ s.buf.length - s.len < n := by
  unfold reserve
  split
  · simp; omega
  · cases a <;> simp_all [growTo, Alloc.isFixed]

/-- outcome of an operation that may need `need` more bytes: a FIXED string without that room
    reports an allocation error and is unchanged; otherwise the contents become `out` and the
    capacity follows `CapAfter` (in particular: no reallocation while the room suffices) -/
def GrowsTo (a : Alloc) (s : State) (need : Nat) (r : Res Unit) (out : Bytes) : Prop :=
  if a.isFixed = true ∧ s.cap - s.len < need then r = .err s
  else ∃ s', r = .ok () s' ∧ WFL s' ∧ s'.bytes = out ∧ CapAfter a s need s'.cap

theorem appendBytes_spec (al : Alloc) (s : State) (data : Bytes) (h : WFL s) :
    GrowsTo al s data.length (appendBytes al s data) (s.bytes ++ data) := by
  unfold GrowsTo appendBytes
  match hr : reserve al s data.length with
  | none =>
    have := reserve_none_iff.1 hr
    rw [if_pos (by simpa [State.cap] using this)]
  | some s1 =>
    have hn : ¬ (al.isFixed = true ∧ s.cap - s.len < data.length) := by
      intro hc
      have := (reserve_none_iff (a := al) (s := s) (n := data.length)).2 (by simpa [State.cap] using hc)
      rw [this] at hr; simp at hr
    rw [if_neg hn]
    obtain ⟨hlen, hb, hcap, hw, hca⟩ := reserve_some h hr
    simp only
    rw [writeAt_eq _ _ _ (by omega)]
    refine ⟨_, rfl, by simp [WFL]; omega, ?_, ?_⟩
    · rw [← hb]
      simp only [State.bytes]
      unfold WFL at hw
      list_pw
    · have hc : ∀ b l, b.length = s1.buf.length → ({ buf := b, len := l } : State).cap = s1.buf.length := fun _ _ hb => hb
      rw [hc _ _ (by simp; unfold WFL at hw; omega)]; exact hca

theorem insertBytes_spec (al : Alloc) (s : State) (idx : Nat) (data : Bytes) (h : WFL s) (hi : idx ≤ s.len) :
    GrowsTo al s data.length (insertBytes al s idx data)
      (s.bytes.take idx ++ data ++ s.bytes.drop idx) := by
  unfold GrowsTo insertBytes
  match hr : reserve al s data.length with
  | none =>
    have := reserve_none_iff.1 hr
    rw [if_pos (by simpa [State.cap] using this)]
  | some s1 =>
    have hn : ¬ (al.isFixed = true ∧ s.cap - s.len < data.length) := by
      intro hc
      have := (reserve_none_iff (a := al) (s := s) (n := data.length)).2 (by simpa [State.cap] using hc)
      rw [this] at hr; simp at hr
    rw [if_neg hn]
    obtain ⟨hlen, hb, hcap, hw, hca⟩ := reserve_some h hr
    simp only
    rw [copyWithin_eq _ _ _ _ (by omega) (by omega)]
    simp only
    rw [writeAt_eq _ _ _ (by simp; omega)]
    refine ⟨_, rfl, by simp [WFL]; omega, ?_, ?_⟩
    · rw [← hb]
      simp only [State.bytes]
      unfold WFL at hw
      rw [hlen] at *
      list_pw
    · have hc : ∀ b l, b.length = s1.buf.length → ({ buf := b, len := l } : State).cap = s1.buf.length := fun _ _ hb => hb
      rw [hc _ _ (by simp; unfold WFL at hw; omega)]; exact hca

/-! ## ranges -/

theorem sliceRange_some {sb eb : Bound} {len a b : Nat} (h : sliceRange sb eb len = some (a, b)) :
    a ≤ b ∧ b ≤ len := by
  unfold sliceRange at h
  cases hs : sb.start? with
  | none => rw [hs] at h; simp at h
  | some st =>
    cases he : eb.end? len with
    | none => rw [hs, he] at h; simp at h
    | some en =>
      rw [hs, he] at h
      simp only at h
      split at h
      · simp at h
      · split at h
        · simp at h
        · simp only [Option.some.injEq, Prod.mk.injEq] at h
          obtain ⟨rfl, rfl⟩ := h
          omega

/-- the explicit form `start..end` -/
theorem sliceRange_incl_excl (a b len : Nat) :
    sliceRange (.incl a) (.excl b) len = if a ≤ b ∧ b ≤ len then some (a, b) else none := by
  unfold sliceRange
  simp only [Bound.start?, Bound.end?]
  by_cases h1 : a > b
  · rw [if_pos h1, if_neg (by omega)]
  · rw [if_neg h1]
    by_cases h2 : b > len
    · rw [if_pos h2, if_neg (by omega)]
    · rw [if_neg h2, if_pos (by omega)]

/-! ## drain, replace_range, extend_from_within (byte level) -/

theorem vecDrainDrop_spec (s : State) (a b : Nat) (h : WFL s) (hab : a ≤ b) (hb : b ≤ s.len) :
    ∃ s', vecDrainDrop s a b = .ok () s' ∧ WFL s' ∧ s'.bytes = s.bytes.take a ++ s.bytes.drop b ∧
      s'.buf.length = s.buf.length := by
  unfold vecDrainDrop
  rw [sliceRange_incl_excl, if_pos ⟨hab, hb⟩]
  simp only
  unfold WFL at h
  split
  · split
    · rw [copyWithin_eq _ _ _ _ (by omega) (by omega)]
      refine ⟨_, rfl, by simp [WFL]; omega, ?_, by simp; omega⟩
      simp only [State.bytes]
      list_pw
    · refine ⟨_, rfl, by simp [WFL]; omega, ?_, rfl⟩
      have : a = b := by omega
      subst this
      simp only [State.bytes]
      list_pw
  · refine ⟨_, rfl, by simp [WFL]; omega, ?_, rfl⟩
    have : b = s.len := by omega
    subst this
    simp only [State.bytes]
    list_pw

/-- the part of `replace_range` after the range check and the boundary assertions -/
theorem replaceRange_bytes (al : Alloc) (s : State) (sb eb : Bound) (str : Bytes) (a b : Nat) (h : WFL s)
    (hr : sliceRange sb eb s.len = some (a, b)) (ha : boundaryOk s a = true) (hb : boundaryOk s b = true) :
    GrowsTo al s (str.length - (b - a)) (replaceRange al s sb eb str)
      (s.bytes.take a ++ str ++ s.bytes.drop b) := by
  obtain ⟨hab, hbl⟩ := sliceRange_some hr
  unfold GrowsTo replaceRange
  rw [hr]
  simp only [ha, hb, Bool.not_true, Bool.false_eq_true, ↓reduceIte]
  match hres : reserve al s (str.length - (b - a)) with
  | none =>
    have := reserve_none_iff.1 hres
    rw [if_pos (by simpa [State.cap] using this)]
  | some s1 =>
    have hn : ¬ (al.isFixed = true ∧ s.cap - s.len < str.length - (b - a)) := by
      intro hc
      have := (reserve_none_iff (a := al) (s := s) (n := str.length - (b - a))).2 (by simpa [State.cap] using hc)
      rw [this] at hres; simp at hres
    rw [if_neg hn]
    obtain ⟨hlen, hbytes, hcap, hw, hca⟩ := reserve_some h hres
    unfold WFL at hw h
    simp only
    by_cases heq : b - a = str.length
    · -- same length: no move
      rw [if_neg (by omega)]
      simp only
      rw [writeAt_eq _ _ _ (by omega)]
      simp only
      rw [if_neg (by omega)]
      refine ⟨_, rfl, by simp [WFL]; omega, ?_, ?_⟩
      · rw [← hbytes]
        simp only [State.bytes]
        have e : ((s1.len : Int) + ((str.length : Int) - ((b - a : Nat) : Int))).toNat = s1.len := by omega
        rw [e, hlen] at *
        list_pw
      · have hc : ∀ b l, b.length = s1.buf.length → ({ buf := b, len := l } : State).cap = s1.buf.length := fun _ _ hb => hb
        rw [hc _ _ (by simp; omega)]; exact hca
    · rw [if_pos (by omega)]
      rw [copyWithin_eq _ _ _ _ (by omega) (by omega)]
      simp only
      rw [writeAt_eq _ _ _ (by simp; omega)]
      simp only
      rw [if_neg (by omega)]
      refine ⟨_, rfl, by simp [WFL]; omega, ?_, ?_⟩
      · rw [← hbytes]
        simp only [State.bytes]
        have e : ((s1.len : Int) + ((str.length : Int) - ((b - a : Nat) : Int))).toNat = s1.len + str.length - (b - a) := by omega
        rw [e, hlen] at *
        list_pw
      · have hc : ∀ b l, b.length = s1.buf.length → ({ buf := b, len := l } : State).cap = s1.buf.length := fun _ _ hb => hb
        rw [hc _ _ (by simp; omega)]; exact hca

theorem extendFromWithin_bytes (al : Alloc) (s : State) (sb eb : Bound) (a b : Nat) (h : WFL s)
    (hr : sliceRange sb eb s.len = some (a, b)) (ha : boundaryOk s a = true) (hb : boundaryOk s b = true) :
    GrowsTo al s (b - a) (extendFromWithin al s sb eb)
      (s.bytes ++ (s.bytes.drop a).take (b - a)) := by
  obtain ⟨hab, hbl⟩ := sliceRange_some hr
  unfold GrowsTo extendFromWithin
  rw [hr]
  simp only [ha, hb, Bool.not_true, Bool.false_eq_true, ↓reduceIte]
  match hres : reserve al s (b - a) with
  | none =>
    have := reserve_none_iff.1 hres
    rw [if_pos (by simpa [State.cap] using this)]
  | some s1 =>
    have hn : ¬ (al.isFixed = true ∧ s.cap - s.len < b - a) := by
      intro hc
      have := (reserve_none_iff (a := al) (s := s) (n := b - a)).2 (by simpa [State.cap] using hc)
      rw [this] at hres; simp at hres
    rw [if_neg hn]
    obtain ⟨hlen, hbytes, hcap, hw, hca⟩ := reserve_some h hres
    unfold WFL at hw h
    simp only
    rw [copyWithin_eq _ _ _ _ (by omega) (by omega)]
    refine ⟨_, rfl, by simp [WFL]; omega, ?_, ?_⟩
    · rw [← hbytes]
      simp only [State.bytes]
      rw [hlen] at *
      list_pw
    · have hc : ∀ b l, b.length = s1.buf.length → ({ buf := b, len := l } : State).cap = s1.buf.length := fun _ _ hb => hb
      rw [hc _ _ (by simp; omega)]; exact hca

/-! ## split_off (byte level) -/

theorem splitOff_bytes (f : Bool) (s : State) (sb eb : Bound) (a b : Nat) (h : WFL s)
    (hr : sliceRange sb eb s.len = some (a, b)) (ha : boundaryOk s a = true) (hb : boundaryOk s b = true) :
    ∃ o s', splitOff f s sb eb = .ok o s' ∧ WFL o ∧ WFL s' ∧ o.bytes = (s.bytes.drop a).take (b - a) ∧
      s'.bytes = s.bytes.take a ++ s.bytes.drop b ∧ o.cap + s'.cap = s.cap := by
  obtain ⟨hab, hbl⟩ := sliceRange_some hr
  unfold WFL at h
  unfold splitOff
  simp only [hr, ha, hb, Bool.not_true, Bool.false_eq_true, ↓reduceIte]
  by_cases h1 : b = s.len
  · rw [if_pos h1]
    subst h1
    refine ⟨_, _, rfl, by simp [WFL]; omega, by simp [WFL]; omega, ?_, ?_, by simp [State.cap]; omega⟩
    · simp only [State.bytes]; list_pw
    · simp only [State.bytes]; list_pw
  · rw [if_neg h1]
    by_cases h2 : a = 0
    · rw [if_pos h2]
      subst h2
      refine ⟨_, _, rfl, by simp [WFL]; omega, by simp [WFL]; omega, ?_, ?_, by simp [State.cap]; omega⟩
      · simp only [State.bytes]; list_pw
      · simp only [State.bytes]; list_pw
    · rw [if_neg h2]
      by_cases h3 : a = b
      · subst h3
        have hx : ((!f && decide (a = a)) = true) ∨ ((f && decide (a = a)) = true) := by cases f <;> simp
        have hres : (if (!f && decide (a = a)) = true then Res.ok ({ buf := [], len := 0 } : State) s
            else if (f && decide (a = a)) = true then Res.ok ({ buf := [], len := 0 } : State) s
            else
              if a < s.len - a then
                Res.ok { buf := List.take (a - a) (rotateRight (List.take a s.buf) (a - a) ++ List.drop a s.buf), len := a - a }
                  { buf := List.drop (a - a) (rotateRight (List.take a s.buf) (a - a) ++ List.drop a s.buf), len := s.len - (a - a) }
              else
                Res.ok { buf := List.drop (s.len - (a - a)) (List.take a s.buf ++ rotateLeft (List.drop a (List.take s.len s.buf)) (a - a) ++ List.drop s.len s.buf), len := a - a }
                  { buf := List.take (s.len - (a - a)) (List.take a s.buf ++ rotateLeft (List.drop a (List.take s.len s.buf)) (a - a) ++ List.drop s.len s.buf), len := s.len - (a - a) })
            = Res.ok ({ buf := [], len := 0 } : State) s := by
          rcases hx with hx | hx
          · rw [if_pos hx]
          · by_cases hy : (!f && decide (a = a)) = true
            · rw [if_pos hy]
            · rw [if_neg hy, if_pos hx]
        rw [hres]
        refine ⟨_, _, rfl, by simp [WFL], h, ?_, ?_, by simp [State.cap]⟩
        · simp [State.bytes]
        · simp
      · have hy1 : ¬ ((!f && decide (a = b)) = true) := by simp [h3]
        have hy2 : ¬ ((f && decide (a = b)) = true) := by simp [h3]
        rw [if_neg hy1, if_neg hy2]
        by_cases h4 : a < s.len - b
        · rw [if_pos h4]
          refine ⟨_, _, rfl, by simp [WFL, rotateRight]; omega, by simp [WFL, rotateRight]; omega, ?_, ?_,
            by simp [State.cap, rotateRight]; omega⟩
          · simp only [State.bytes, rotateRight]; list_pw
          · simp only [State.bytes, rotateRight]; list_pw
        · rw [if_neg h4]
          refine ⟨_, _, rfl, by simp [WFL, rotateLeft]; omega, by simp [WFL, rotateLeft]; omega, ?_, ?_,
            by simp [State.cap, rotateLeft]; omega⟩
          · simp only [State.bytes, rotateLeft]; list_pw
          · simp only [State.bytes, rotateLeft]; list_pw

end Str
