/-
  Lemmas/Hist2Sf.lean — FRAME IRRELEVANCE: no function of the arena model reads the stack of open regions
  (`State.frames`).  For each model function `f`:  `f cfg (sf fs s) … = (f cfg s …).map (… sf fs …)`,
  where `sf fs s` is `s` with its region stack replaced by `fs`.
-/
import BumpProof.Props.Hist
import BumpProof.Lemmas.Hist2SfAttr

set_option linter.unusedSimpArgs false
set_option linter.unusedVariables false

namespace Arena.Hist
open Rs Ledger

variable {cfg : Cfg}

/-- replace the region stack -/
def sf (fs : List Frame) (s : State) : State := { s with frames := fs }

/-- lift over a result `(state, value)` -/
def l1 {α : Type} (fs : List Frame) (x : State × α) : State × α := (sf fs x.1, x.2)

@[simp, sf_simp] theorem sf_cur (fs : List Frame) (s : State) : (sf fs s).cur = s.cur := rfl
@[simp, sf_simp] theorem sf_chunks (fs : List Frame) (s : State) : (sf fs s).chunks = s.chunks := rfl
@[simp, sf_simp] theorem sf_minAlign (fs : List Frame) (s : State) : (sf fs s).minAlign = s.minAlign := rfl
@[simp, sf_simp] theorem sf_resps (fs : List Frame) (s : State) : (sf fs s).resps = s.resps := rfl
@[simp, sf_simp] theorem sf_reqs (fs : List Frame) (s : State) : (sf fs s).reqs = s.reqs := rfl
@[simp, sf_simp] theorem sf_live (fs : List Frame) (s : State) : (sf fs s).live = s.live := rfl
@[simp, sf_simp] theorem sf_nextId (fs : List Frame) (s : State) : (sf fs s).nextId = s.nextId := rfl
@[simp, sf_simp] theorem sf_userCps (fs : List Frame) (s : State) : (sf fs s).userCps = s.userCps := rfl
@[simp, sf_simp] theorem sf_prepared (fs : List Frame) (s : State) : (sf fs s).prepared = s.prepared := rfl
@[simp, sf_simp] theorem sf_frames (fs : List Frame) (s : State) : (sf fs s).frames = fs := rfl
@[simp, sf_simp] theorem sf_sf (fs fs' : List Frame) (s : State) : sf fs (sf fs' s) = sf fs s := rfl
theorem sf_self (s : State) : sf s.frames s = s := rfl

/-! ### readers -/
@[simp, sf_simp] theorem sf_freeRange (fs : List Frame) (s : State) : freeRange cfg (sf fs s) = freeRange cfg s := rfl
@[simp, sf_simp] theorem sf_curPos (fs : List Frame) (s : State) : curPos cfg (sf fs s) = curPos cfg s := rfl
@[simp, sf_simp] theorem sf_bumpProps (fs : List Frame) (s : State) (L : Layout) (h : Hints) :
    bumpProps cfg (sf fs s) L h = bumpProps cfg s L h := rfl
@[simp, sf_simp] theorem sf_isLast (fs : List Frame) (s : State) (p n : Nat) : isLast cfg (sf fs s) p n = isLast cfg s p n := rfl
@[simp, sf_simp] theorem sf_curChunk (fs : List Frame) (s : State) : curChunk? (sf fs s) = curChunk? s := rfl
@[simp, sf_simp] theorem sf_readByte (fs : List Frame) (s : State) (a : Nat) : readByte (sf fs s) a = readByte s a := rfl
@[simp, sf_simp] theorem sf_checkpoint (fs : List Frame) (s : State) : checkpoint cfg (sf fs s) = checkpoint cfg s := rfl
@[simp, sf_simp] theorem sf_findBlock (fs : List Frame) (s : State) (b : Nat) : findBlock (sf fs s) b = findBlock s b := rfl
@[simp, sf_simp] theorem sf_noPrepared (fs : List Frame) (s : State) : noPrepared (sf fs s) = noPrepared s := rfl

/-! ### position updates -/
@[simp, sf_simp] theorem sf_setPos (fs : List Frame) (s : State) (i p : Nat) : setPos (sf fs s) i p = sf fs (setPos s i p) := rfl

@[simp, sf_simp] theorem sf_setCurPos (fs : List Frame) (s : State) (p : Nat) : setCurPos (sf fs s) p = sf fs (setCurPos s p) := by
  unfold setCurPos; simp only [sf_cur]; split <;> rfl

/-! ### monad plumbing -/
@[sf_simp] theorem map_ok' {α β : Type} (f : α → β) (a : α) : Except.map f (Except.ok a : R α) = .ok (f a) := rfl
@[sf_simp] theorem map_err' {α β : Type} (f : α → β) (e : Fault) : Except.map f (Except.error e : R α) = .error e := rfl

/-! ### memory -/

@[sf_simp] theorem sf_writeRange (fs : List Frame) (s : State) (lo hi : Nat) (f : Nat → UInt8) :
    writeRange cfg (sf fs s) lo hi f = (writeRange cfg s lo hi f).map (sf fs) := by
  unfold writeRange
  simp only [sf_chunks]
  split
  · rfl
  · split
    · rfl
    · split
      · rfl
      · split <;> rfl

@[sf_simp] theorem sf_zeroRange (fs : List Frame) (s : State) (a n : Nat) :
    zeroRange cfg (sf fs s) a n = (zeroRange cfg s a n).map (sf fs) := sf_writeRange fs s _ _ _

@[sf_simp] theorem sf_copyBytes (fs : List Frame) (s : State) (src dst len : Nat) (no : Bool) :
    copyBytes cfg (sf fs s) src dst len no = (copyBytes cfg s src dst len no).map (sf fs) := by
  unfold copyBytes
  simp only [sf_chunks]
  split
  · rfl
  · split
    · rfl
    · split
      · rfl
      · have : (fun a => readByte (sf fs s) (src + (a - dst))) = (fun a => readByte s (src + (a - dst))) := rfl
        rw [this]
        exact sf_writeRange fs s _ _ _

/-! ### the fast path -/

/-- lift over `Option ((Nat × Nat) × State)` -/
def liftO (fs : List Frame) (o : Option ((Nat × Nat) × State)) : Option ((Nat × Nat) × State) :=
  o.map (fun x => (x.1, sf fs x.2))

@[sf_simp] theorem sf_tryCur (fs : List Frame) (k : Kind) (s : State) (L : Layout) (h : Hints) :
    tryCur cfg k (sf fs s) L h = (tryCur cfg k s L h).map (liftO fs) := by
  unfold tryCur
  simp only [sf_bumpProps]
  cases k <;> simp only
  · split
    · cases liftM (Gen.Bumping.bump_up (bumpProps cfg s L h)) with
      | error e => rfl
      | ok o => cases o <;> simp [bind, Except.bind, pure, Except.pure, Except.map, liftO, sf_setCurPos]
    · cases liftM (Gen.Bumping.bump_down (bumpProps cfg s L h)) with
      | error e => rfl
      | ok o => cases o <;> simp [bind, Except.bind, pure, Except.pure, Except.map, liftO, sf_setCurPos]
  · split
    · cases liftM (Gen.Bumping.bump_up (bumpProps cfg s L h)) with
      | error e => rfl
      | ok o => cases o <;> simp [bind, Except.bind, pure, Except.pure, Except.map, liftO]
    · cases liftM (Gen.Bumping.bump_down (bumpProps cfg s L h)) with
      | error e => rfl
      | ok o => cases o <;> simp [bind, Except.bind, pure, Except.pure, Except.map, liftO]
  · cases liftM (if cfg.up = true then Gen.Bumping.bump_prepare_up (bumpProps cfg s L h)
      else Gen.Bumping.bump_prepare_down (bumpProps cfg s L h)) with
    | error e => rfl
    | ok o => cases o <;> simp [bind, Except.bind, pure, Except.pure, Except.map, liftO]

/-! ### chunk creation -/

@[sf_simp] theorem sf_newChunk (fs : List Frame) (s : State) (size : Nat) :
    newChunk cfg (sf fs s) size = (newChunk cfg s size).map (l1 fs) := by
  unfold newChunk
  simp only [sf_resps, sf_reqs, sf_chunks]
  split
  · rfl
  · cases hr : s.resps with
    | nil => rfl
    | cons r rest =>
      cases r with
      | fail => rfl
      | granted p g =>
        simp only [bind, Except.bind, pure, Except.pure]
        cases liftM (Gen.SizeConfig.align_size (sizeCfg cfg) g) with
        | error e => rfl
        | ok size' =>
          simp only
          cases liftM (Rs.assert (decide (size' ≥ size))) with
          | error e => rfl
          | ok u =>
            simp only
            cases liftM (Rs.assert (decide (size' % 16 = 0))) with
            | error e => rfl
            | ok u2 => rfl

@[sf_simp] theorem sf_newChunkForCapacity (fs : List Frame) (s : State) (L : Layout) :
    newChunkForCapacity cfg (sf fs s) L = (newChunkForCapacity cfg s L).map (l1 fs) := by
  unfold newChunkForCapacity
  simp only [bind, Except.bind, pure, Except.pure]
  cases liftM (Gen.SizeConfig.calc_hint_from_capacity (sizeCfg cfg) L) with
  | error e => rfl
  | ok o =>
    cases o with
    | none => rfl
    | some hint =>
      simp only
      cases calcSize cfg hint with
      | error e => rfl
      | ok o2 =>
        cases o2 with
        | none => rfl
        | some size => exact sf_newChunk fs s size

@[sf_simp] theorem sf_appendFor (fs : List Frame) (s : State) (L : Layout) :
    appendFor cfg (sf fs s) L = (appendFor cfg s L).map (l1 fs) := by
  unfold appendFor
  simp only [sf_chunks, bind, Except.bind, pure, Except.pure]
  cases s.chunks.getLast? with
  | none => rfl
  | some last =>
    simp only
    cases liftM (Gen.SizeConfig.calc_hint_from_capacity (sizeCfg cfg) L) with
    | error e => rfl
    | ok o =>
      cases o with
      | none => rfl
      | some required =>
        simp only
        cases Rs.checked_mul last.size 2 with
        | none => rfl
        | some grown =>
          simp only
          cases calcSize cfg (if required > grown then required else grown) with
          | error e => rfl
          | ok o2 =>
            cases o2 with
            | none => rfl
            | some size => exact sf_newChunk fs s size

/-! ### the slow path -/

/-- lift over the result of `walkNext` -/
def lW (fs : List Frame) (x : Option ((Nat × Nat) × State) × State) : Option ((Nat × Nat) × State) × State :=
  (liftO fs x.1, sf fs x.2)

@[sf_simp] theorem sf_walkNext (fs : List Frame) (k : Kind) (L : Layout) (h : Hints) :
    ∀ (fuel i : Nat) (s : State),
      walkNext cfg k L h fuel i (sf fs s) = (walkNext cfg k L h fuel i s).map (lW fs) := by
  intro fuel
  induction fuel with
  | zero => intro i s; rfl
  | succ fuel ih =>
    intro i s
    unfold walkNext
    simp only [sf_chunks]
    cases hc : s.chunks[i+1]? with
    | none => rfl
    | some c =>
      simp only [bind, Except.bind, pure, Except.pure]
      have e : ({ sf fs s with chunks := s.chunks.set (i+1) (c.resetPos cfg), cur := .chunk (i+1) } : State) =
          sf fs { s with chunks := s.chunks.set (i+1) (c.resetPos cfg), cur := .chunk (i+1) } := rfl
      rw [e, sf_tryCur]
      cases tryCur cfg k { s with chunks := s.chunks.set (i+1) (c.resetPos cfg), cur := .chunk (i+1) } L h with
      | error e => rfl
      | ok o =>
        cases o with
        | some r => rfl
        | none => exact ih (i+1) _

@[sf_simp] theorem sf_inAnotherChunk (fs : List Frame) (k : Kind) (s : State) (L : Layout) (h : Hints) :
    inAnotherChunk cfg k (sf fs s) L h = (inAnotherChunk cfg k s L h).map (l1 fs) := by
  rw [Ledger.inAnotherChunk_eq, Ledger.inAnotherChunk_eq]
  simp only [sf_cur, sf_chunks]
  have hfresh : ∀ (x : State × Except AErr Nat),
      Ledger.freshStep cfg k L h (l1 fs x) = (Ledger.freshStep cfg k L h x).map (l1 fs) := by
    intro x
    obtain ⟨s1, r⟩ := x
    cases r with
    | error e => rfl
    | ok i =>
      unfold Ledger.freshStep l1
      simp only [bind, Except.bind, pure, Except.pure]
      have e : ({ sf fs s1 with cur := .chunk i } : State) = sf fs { s1 with cur := .chunk i } := rfl
      rw [e, sf_tryCur]
      cases tryCur cfg k { s1 with cur := .chunk i } L h with
      | error e => rfl
      | ok o => cases o <;> rfl
  cases hcur : s.cur with
  | claimed => rfl
  | unallocated =>
    simp only [sf_newChunkForCapacity, bind, Except.bind]
    cases newChunkForCapacity cfg s L with
    | error e => rfl
    | ok x => exact hfresh x
  | chunk i =>
    simp only [sf_walkNext, bind, Except.bind]
    cases walkNext cfg k L h (s.chunks.length - (i + 1)) i s with
    | error e => rfl
    | ok w =>
      obtain ⟨o, s'⟩ := w
      cases o with
      | some x => rfl
      | none =>
        simp only [lW, liftO, Option.map_none, Except.map, sf_appendFor, pure, Except.pure]
        cases appendFor cfg s' L with
        | error e => rfl
        | ok y =>
          obtain ⟨s2, r⟩ := y
          cases r with
          | error e => rfl
          | ok idx =>
            simp only [Except.map, Ledger.appendStep_ok]
            exact hfresh (s2, .ok idx)

@[sf_simp] theorem sf_allocGeneric (fs : List Frame) (k : Kind) (s : State) (L : Layout) (h hs : Hints) :
    allocGeneric cfg k (sf fs s) L h hs = (allocGeneric cfg k s L h hs).map (l1 fs) := by
  unfold allocGeneric
  simp only [sf_tryCur, bind, Except.bind, pure, Except.pure]
  cases tryCur cfg k s L h with
  | error e => rfl
  | ok o =>
    cases o with
    | some x => rfl
    | none => exact sf_inAnotherChunk fs k s L hs

@[sf_simp] theorem sf_alloc (fs : List Frame) (s : State) (L : Layout) :
    alloc cfg (sf fs s) L = (alloc cfg s L).map (l1 fs) := by
  unfold alloc
  simp only [sf_allocGeneric, bind, Except.bind, pure, Except.pure]
  cases allocGeneric cfg .alloc s L Hints.custom Hints.custom with
  | error e => rfl
  | ok x => rfl

/-! ### a generic tactic: symbolic execution of the function on `s`, replayed on `sf fs s` -/

@[sf_simp] theorem l1_mk {α : Type} (fs : List Frame) (s : State) (a : α) : l1 fs (s, a) = (sf fs s, a) := rfl

/-- `h : f cfg s … = x` has been unfolded; the goal is `f cfg (sf fs s) … = x.map …`, unfolded -/
syntax "sf_fun " ident : tactic
macro_rules
  | `(tactic| sf_fun $h) =>
    `(tactic| (simp only [bind, Except.bind, pure, Except.pure, throw, throwThe, MonadExceptOf.throw] at $h:ident ⊢
               (repeat' split at $h:ident) <;>
                 (subst $h:ident
                  simp_all only [sf_simp, l1, liftO, lW, Option.map_some, Option.map_none, ↓reduceIte, Bool.false_eq_true, not_true_eq_false, not_false_eq_true, Prod.mk.injEq]
                  try rfl)))

/-! ### `allocator_impl` -/

@[sf_simp] theorem sf_deallocAssumeLast (fs : List Frame) (s : State) (ptr size : Nat) :
    deallocAssumeLast cfg (sf fs s) ptr size = (deallocAssumeLast cfg s ptr size).map (sf fs) := by
  obtain ⟨x, h⟩ : ∃ x, deallocAssumeLast cfg s ptr size = x := ⟨_, rfl⟩
  rw [h]
  unfold deallocAssumeLast at h ⊢
  sf_fun h

@[sf_simp] theorem sf_deallocate (fs : List Frame) (s : State) (ptr size : Nat) :
    deallocate cfg (sf fs s) ptr size = (deallocate cfg s ptr size).map (sf fs) := by
  obtain ⟨x, h⟩ : ∃ x, deallocate cfg s ptr size = x := ⟨_, rfl⟩
  rw [h]
  unfold deallocate at h ⊢
  sf_fun h

@[sf_simp] theorem sf_grow (fs : List Frame) (s : State) (ptr oldSize : Nat) (newL : Layout) :
    grow cfg (sf fs s) ptr oldSize newL = (grow cfg s ptr oldSize newL).map (l1 fs) := by
  obtain ⟨x, h⟩ : ∃ x, grow cfg s ptr oldSize newL = x := ⟨_, rfl⟩
  rw [h]
  unfold grow at h ⊢
  sf_fun h

@[sf_simp] theorem sf_shrink (fs : List Frame) (s : State) (ptr oldSize : Nat) (newL : Layout) :
    shrink cfg (sf fs s) ptr oldSize newL = (shrink cfg s ptr oldSize newL).map (l1 fs) := by
  obtain ⟨x, h⟩ : ∃ x, shrink cfg s ptr oldSize newL = x := ⟨_, rfl⟩
  rw [h]
  unfold shrink at h ⊢
  sf_fun h

@[sf_simp] theorem sf_shrinkWithoutShrink (fs : List Frame) (s : State) (ptr oldSize : Nat) (newL : Layout) :
    shrinkWithoutShrink cfg (sf fs s) ptr oldSize newL = (shrinkWithoutShrink cfg s ptr oldSize newL).map (l1 fs) := by
  obtain ⟨x, h⟩ : ∃ x, shrinkWithoutShrink cfg s ptr oldSize newL = x := ⟨_, rfl⟩
  rw [h]
  unfold shrinkWithoutShrink at h ⊢
  sf_fun h

@[sf_simp] theorem sf_shrinkSlice (fs : List Frame) (s : State) (ptr oldSize newSize ealign : Nat) :
    shrinkSlice cfg (sf fs s) ptr oldSize newSize ealign = (shrinkSlice cfg s ptr oldSize newSize ealign).map (l1 fs) := by
  obtain ⟨x, h⟩ : ∃ x, shrinkSlice cfg s ptr oldSize newSize ealign = x := ⟨_, rfl⟩
  rw [h]
  unfold shrinkSlice at h ⊢
  sf_fun h

/-! ### reserve, reset_to, alignment, prepared allocations -/

@[sf_simp] theorem sf_walkReserve (fs : List Frame) (s : State) (fuel i add : Nat) :
    walkReserve cfg (sf fs s).chunks fuel i add = walkReserve cfg s.chunks fuel i add := rfl

@[sf_simp] theorem sf_reserve (fs : List Frame) (s : State) (n : Nat) :
    reserve cfg (sf fs s) n = (reserve cfg s n).map (l1 fs) := by
  obtain ⟨x, h⟩ : ∃ x, reserve cfg s n = x := ⟨_, rfl⟩
  rw [h]
  unfold reserve at h ⊢
  sf_fun h

@[sf_simp] theorem sf_reserveDyn (fs : List Frame) (s : State) (n : Nat) :
    reserveDyn cfg (sf fs s) n = (reserveDyn cfg s n).map (l1 fs) := by
  obtain ⟨x, h⟩ : ∃ x, reserveDyn cfg s n = x := ⟨_, rfl⟩
  rw [h]
  unfold reserveDyn at h ⊢
  sf_fun h

@[sf_simp] theorem sf_resetToStart (fs : List Frame) (s : State) :
    resetToStart cfg (sf fs s) = sf fs (resetToStart cfg s) := by
  unfold resetToStart
  simp only [sf_cur, sf_chunks]
  split
  · split <;> rfl
  · rfl

@[sf_simp] theorem sf_resetTo (fs : List Frame) (s : State) (cp : Checkpoint) :
    resetTo cfg (sf fs s) cp = (resetTo cfg s cp).map (sf fs) := by
  obtain ⟨x, h⟩ : ∃ x, resetTo cfg s cp = x := ⟨_, rfl⟩
  rw [h]
  unfold resetTo at h ⊢
  sf_fun h

@[sf_simp] theorem sf_alignTo (fs : List Frame) (s : State) (n : Nat) :
    alignTo cfg (sf fs s) n = (alignTo cfg s n).map (sf fs) := by
  obtain ⟨x, h⟩ : ∃ x, alignTo cfg s n = x := ⟨_, rfl⟩
  rw [h]
  unfold alignTo at h ⊢
  sf_fun h

@[sf_simp] theorem sf_alignGuardDrop (fs : List Frame) (s : State) (n : Nat) :
    alignGuardDrop cfg (sf fs s) n = (alignGuardDrop cfg s n).map (sf fs) := by
  obtain ⟨x, h⟩ : ∃ x, alignGuardDrop cfg s n = x := ⟨_, rfl⟩
  rw [h]
  unfold alignGuardDrop at h ⊢
  sf_fun h

@[sf_simp] theorem sf_alignChunkAt (fs : List Frame) (s : State) (n : Nat) (st : Cur) :
    alignChunkAt cfg (sf fs s) n st = (alignChunkAt cfg s n st).map (sf fs) := by
  obtain ⟨x, h⟩ : ∃ x, alignChunkAt cfg s n st = x := ⟨_, rfl⟩
  rw [h]
  unfold alignChunkAt at h ⊢
  sf_fun h

@[sf_simp] theorem sf_allocatePrepared (fs : List Frame) (s : State) (size rstart rend : Nat) (rev : Bool) :
    allocatePrepared cfg (sf fs s) size rstart rend rev = (allocatePrepared cfg s size rstart rend rev).map (l1 fs) := by
  obtain ⟨x, h⟩ : ∃ x, allocatePrepared cfg s size rstart rend rev = x := ⟨_, rfl⟩
  rw [h]
  unfold allocatePrepared at h ⊢
  sf_fun h

@[sf_simp] theorem sf_setPosAlignFrom (fs : List Frame) (s : State) (pos al : Nat) :
    setPosAlignFrom cfg (sf fs s) pos al = (setPosAlignFrom cfg s pos al).map (sf fs) := by
  obtain ⟨x, h⟩ : ∃ x, setPosAlignFrom cfg s pos al = x := ⟨_, rfl⟩
  rw [h]
  unfold setPosAlignFrom at h ⊢
  sf_fun h

@[sf_simp] theorem sf_allocatePreparedSlice (fs : List Frame) (s : State) (ptr len cap esize ealign : Nat) (rev : Bool) :
    allocatePreparedSlice cfg (sf fs s) ptr len cap esize ealign rev = (allocatePreparedSlice cfg s ptr len cap esize ealign rev).map (l1 fs) := by
  obtain ⟨x, h⟩ : ∃ x, allocatePreparedSlice cfg s ptr len cap esize ealign rev = x := ⟨_, rfl⟩
  rw [h]
  unfold allocatePreparedSlice at h ⊢
  sf_fun h

end Arena.Hist
