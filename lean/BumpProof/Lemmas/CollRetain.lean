/-
  Lemmas/CollRetain.lean — `Coll.retain` (cursor/guard model of `BumpBox<[T]>::retain`) computes
  `Coll.retainSpec` on every well-formed vector, for every oracle and every set of panicking drops.
-/
import BumpProof.Coll.Spec
import BumpProof.Lemmas.CollPrim

namespace Coll

/-! ## facts about the list-level function -/

theorem sieve_escaped (keep : Nat → Bool) (bombs : List Id) (rest : List Id) :
    ∀ kept o, (sieve keep bombs kept rest o).escaped = [] := by
  induction rest with
  | nil => intro kept o; rfl
  | cons x rest ih =>
    intro kept o
    match o with
    | [] => rfl
    | .panic :: o => rfl
    | .ret b :: o =>
      simp only [sieve]
      split
      · exact ih _ o
      · split
        · rfl
        · exact ih kept o

/-- nothing is lost, nothing is duplicated: survivors and dropped values together are the input -/
theorem sieve_perm (keep : Nat → Bool) (bombs : List Id) (rest : List Id) :
    ∀ kept o, ((sieve keep bombs kept rest o).final ++ (sieve keep bombs kept rest o).dropped).Perm (kept ++ rest) := by
  induction rest with
  | nil => intro kept o; simp [sieve]
  | cons x rest ih =>
    intro kept o
    match o with
    | [] => simp [sieve]
    | .panic :: o => simp [sieve]
    | .ret b :: o =>
      simp only [sieve]
      split
      · have := ih (kept ++ [x]) o
        simpa using this
      · split
        · simp only [List.append_assoc]
          exact List.Perm.append_left kept (List.perm_append_singleton x rest)
        · have := ih kept o
          simp only
          refine List.Perm.trans ?_ (List.Perm.trans (List.Perm.cons x this) ?_)
          · exact List.perm_middle
          · exact List.perm_middle.symm

theorem sieve_length_le (keep : Nat → Bool) (bombs : List Id) (kept rest : List Id) (o : List Outcome) :
    (sieve keep bombs kept rest o).final.length ≤ kept.length + rest.length := by
  have := (sieve_perm keep bombs rest kept o).length_eq
  simp at this
  omega

/-- the guard of `retain` on a segmented buffer -/
theorem retainGuard_seg {v : Vec} {kept rest : List Id} {k read write origLen : Nat} {T : List Slot}
    (hs : v.slots = I kept ++ H k ++ I rest ++ T) (hr : read = kept.length + k) (hw : write = kept.length)
    (ho : origLen = read + rest.length) :
    retainGuard v read write origLen =
      .ok { v with slots := I (kept ++ rest) ++ H k ++ T, len := kept.length + rest.length } := by
  unfold retainGuard
  have hrem : origLen - read = (I rest).length := by simp; omega
  simp only [hrem]
  rw [copy_back hs (by simp [hr]) (by simp [hw]) rfl]
  simp [setLen, hw]

/-- second loop of `retain` = `sieve`, started with `k + 1` holes between the cursors -/
theorem retainLoop_eq (bombs : List Id) (rest : List Id) :
    ∀ (kept : List Id) (k : Nat) (T : List Slot) (v : Vec) (o : List Outcome) (origLen : Nat),
      v.slots = I kept ++ H (k + 1) ++ I rest ++ T → origLen = kept.length + (k + 1) + rest.length →
      retainLoop bombs origLen rest.length v (kept.length + (k + 1)) kept.length o =
        .ok ⟨{ v with slots := I (sieve (· != 0) bombs kept rest o).final ++ H (origLen - (sieve (· != 0) bombs kept rest o).final.length) ++ T,
                      len := (sieve (· != 0) bombs kept rest o).final.length,
                      dropLog := v.dropLog ++ (sieve (· != 0) bombs kept rest o).dropped },
             (sieve (· != 0) bombs kept rest o).exit, (sieve (· != 0) bombs kept rest o).rest⟩ := by
  induction rest with
  | nil =>
    intro kept k T v o origLen hs ho
    simp only [List.length_nil, Nat.add_zero] at ho
    have : origLen - kept.length = k + 1 := by omega
    simp only [List.length_nil, retainLoop, sieve, setLen, List.append_nil, this]
    congr 2
    simp [hs]
  | cons x rest ih =>
    intro kept k T v o origLen hs ho
    simp only [List.length_cons] at ho
    have hs1 : v.slots = (I kept ++ H (k + 1)) ++ Slot.init x :: (I rest ++ T) := by
      simp [hs]
    have hpeek : peek v (kept.length + (k + 1)) = .ok x := peek_mid hs1 (by simp)
    simp only [List.length_cons, retainLoop, hpeek]
    have hguard := retainGuard_seg (v := v) (kept := kept) (rest := x :: rest) (k := k + 1)
      (read := kept.length + (k + 1)) (write := kept.length) (origLen := origLen) (T := T) hs rfl rfl
      (by simp; omega)
    have hgap : origLen - (kept ++ x :: rest).length = k + 1 := by simp; omega
    match o with
    | [] =>
      simp only [sieve, hguard, Except.map, hgap]
      simp
    | .panic :: o =>
      simp only [sieve, hguard, Except.map, hgap]
      simp
    | .ret b :: o =>
      have hs2 : (I kept ++ H (k + 1)) ++ Slot.hole :: (I rest ++ T) = I kept ++ H (k + 1 + 1) ++ I rest ++ T := by
        simp
      by_cases hb : b = 0
      · simp only [hb, ↓reduceIte, sieve, bne_self_eq_false, Bool.false_eq_true]
        rw [dropAt_mid hs1 (by simp)]
        simp only [Bool.not_false, Bool.true_and]
        by_cases hbomb : bombs.contains x = true
        · simp only [hbomb, ↓reduceIte]
          have hg := retainGuard_seg (v := { v with slots := (I kept ++ H (k + 1)) ++ Slot.hole :: (I rest ++ T), dropLog := v.dropLog ++ [x] })
            (kept := kept) (rest := rest) (k := k + 1 + 1)
            (read := kept.length + (k + 1) + 1) (write := kept.length) (origLen := origLen) (T := T) hs2 (by omega) rfl
            (by omega)
          have hgap2 : origLen - (kept ++ rest).length = k + 1 + 1 := by simp; omega
          rw [hg]
          simp only [Except.map, hgap2]
          simp
        · simp only [hbomb, Bool.false_eq_true, ↓reduceIte]
          have := ih kept (k + 1) T { v with slots := (I kept ++ H (k + 1)) ++ Slot.hole :: (I rest ++ T), dropLog := v.dropLog ++ [x] }
            o origLen hs2 (by omega)
          have e : kept.length + (k + 1) + 1 = kept.length + (k + 1 + 1) := by omega
          rw [e, this]
          simp
      · have hk : (b != 0) = true := by simp [hb]
        simp only [hb, ↓reduceIte, sieve, hk]
        have hs3 : v.slots = I kept ++ H (k + 1) ++ [Slot.init x] ++ (I rest ++ T) := by simp [hs]
        rw [copyNonoverlapping_back hs3 (by simp) (by simp) (by simp) (by simp)]
        have hs4 : I kept ++ [Slot.init x] ++ H (k + 1) ++ (I rest ++ T) = I (kept ++ [x]) ++ H (k + 1) ++ I rest ++ T := by
          simp
        have := ih (kept ++ [x]) k T { v with slots := I kept ++ [Slot.init x] ++ H (k + 1) ++ (I rest ++ T) } o origLen hs4
          (by simp; omega)
        have e1 : kept.length + (k + 1) + 1 = (kept ++ [x]).length + (k + 1) := by simp; omega
        have e2 : kept.length + 1 = (kept ++ [x]).length := by simp
        simp only [e1, e2, this]

/-- first loop followed by the rest of `retain` = `sieve` from the start -/
theorem retainScan_eq (bombs : List Id) (rest : List Id) :
    ∀ (pre : List Id) (T : List Slot) (v : Vec) (o : List Outcome),
      v.slots = I pre ++ I rest ++ T → rest ≠ [] → v.len = pre.length + rest.length →
      (retainScan v rest.length pre.length o).bind (retainAfterScan bombs v v.len) =
        .ok ⟨{ v with slots := I (sieve (· != 0) bombs pre rest o).final ++ H (v.len - (sieve (· != 0) bombs pre rest o).final.length) ++ T,
                      len := (sieve (· != 0) bombs pre rest o).final.length,
                      dropLog := v.dropLog ++ (sieve (· != 0) bombs pre rest o).dropped },
             (sieve (· != 0) bombs pre rest o).exit, (sieve (· != 0) bombs pre rest o).rest⟩ := by
  induction rest with
  | nil => intro pre T v o _ h; exact absurd rfl h
  | cons x rest ih =>
    intro pre T v o hs _ hl
    have hs1 : v.slots = I pre ++ Slot.init x :: (I rest ++ T) := by simp [hs]
    have hpeek : peek v pre.length = .ok x := peek_mid hs1 (by simp)
    have hgap : v.len - (pre ++ x :: rest).length = 0 := by simp [hl]
    have hsame := Vec.eta_seg (v := v) (s := I (pre ++ x :: rest) ++ H 0 ++ T) (n := (pre ++ x :: rest).length)
      (by simp [hs]) (by simp [hl])
    simp only [List.length_cons, retainScan, hpeek, Except.bind]
    match o with
    | [] => simp only [retainAfterScan, sieve, hgap, hsame]
    | .panic :: o => simp only [retainAfterScan, sieve, hgap, hsame]
    | .ret b :: o =>
      by_cases hb : b = 0
      · simp only [hb, ↓reduceIte, sieve, retainAfterScan, bne_self_eq_false, Bool.false_eq_true]
        rw [dropAt_mid hs1 (by simp)]
        simp only [Bool.not_false, Bool.true_and]
        have hs2 : I pre ++ Slot.hole :: (I rest ++ T) = I pre ++ H (0 + 1) ++ I rest ++ T := by simp
        by_cases hbomb : bombs.contains x = true
        · simp only [hbomb, ↓reduceIte]
          have hg := retainGuard_seg (v := { v with slots := I pre ++ Slot.hole :: (I rest ++ T), dropLog := v.dropLog ++ [x] })
            (kept := pre) (rest := rest) (k := 0 + 1)
            (read := pre.length + 1) (write := pre.length) (origLen := v.len) (T := T) hs2 (by omega) rfl
            (by simp [hl]; omega)
          have hgap2 : v.len - (pre ++ rest).length = 0 + 1 := by simp [hl]; omega
          rw [hg]
          simp only [Except.map, hgap2]
          simp
        · simp only [hbomb, Bool.false_eq_true, ↓reduceIte]
          have := retainLoop_eq bombs rest pre 0 T { v with slots := I pre ++ Slot.hole :: (I rest ++ T), dropLog := v.dropLog ++ [x] }
            o v.len hs2 (by simp [hl]; omega)
          have e : v.len - (pre.length + 1) = rest.length := by simp [hl]; omega
          rw [e, this]
          simp
      · have hk : (b != 0) = true := by simp [hb]
        simp only [hb, ↓reduceIte, sieve, hk]
        by_cases hr : rest = []
        · subst hr
          simp only [List.length_nil, ↓reduceIte, retainAfterScan, sieve]
          have hgap' : v.len - (pre ++ [x]).length = 0 := by simp [hl]
          have hsame' := Vec.eta_seg (v := v) (s := I (pre ++ [x]) ++ H 0 ++ T) (n := (pre ++ [x]).length)
            (by simp [hs]) (by simp [hl])
          simp only [hgap', hsame']
        · have hne : rest.length ≠ 0 := by simpa using hr
          simp only [hne, ↓reduceIte]
          have hs3 : v.slots = I (pre ++ [x]) ++ I rest ++ T := by simp [hs]
          have := ih (pre ++ [x]) T v o hs3 hr (by simp [hl]; omega)
          have e : pre.length + 1 = (pre ++ [x]).length := by simp
          rw [e]
          exact this

/-- **refinement**: on a vector holding `xs` (any spare capacity) `retain` behaves as `retainSpec` -/
theorem retain_eq (bombs : List Id) (v : Vec) (xs : List Id) (o : List Outcome)
    (hs : v.slots = I xs ++ H (v.cap - v.len)) (hl : xs.length = v.len) :
    retain bombs v o =
      .ok ⟨v.after (retainSpec bombs xs o), (retainSpec bombs xs o).exit, (retainSpec bombs xs o).rest⟩ := by
  unfold retain retainSpec
  by_cases h0 : v.len = 0
  · have : xs = [] := List.eq_nil_of_length_eq_zero (by omega)
    subst this
    simp only [h0, ↓reduceIte, sieve, Vec.after]
    congr 2
    have := Vec.eta_seg (v := v) (s := I [] ++ H (v.cap - ([] : List Id).length)) (n := ([] : List Id).length)
      (by simp [hs, h0]) (by simp [h0])
    simpa using this.symm
  · simp only [h0, ↓reduceIte]
    have hne : xs ≠ [] := by intro h; subst h; simp at hl; omega
    have := retainScan_eq bombs xs [] (H (v.cap - v.len)) v o (by simpa using hs) hne (by simp [hl])
    simp only [List.length_nil] at this
    rw [hl] at this
    rw [this]
    simp only [Vec.after, sieve_escaped, List.append_nil]
    have hle := sieve_length_le (· != 0) bombs [] xs o
    simp only [List.length_nil, Nat.zero_add] at hle
    congr 3
    rw [List.append_assoc, ← H_add]
    congr 2
    have : v.len ≤ v.cap := by
      have := congrArg List.length hs
      simp [Vec.cap] at this ⊢
      omega
    omega

end Coll
