/-
  Lemmas/LifeSettings.lean — the compile-time assertions of a settings conversion, as extracted, entail
  what property C04 requires of the conversion, for ALL settings (any minimum alignment).
-/
import BumpProof.Life.SigOK

namespace Life

theorem has_holds {b : SettingsAssert} {f : Setting} {p : Rel → Bool} (hh : b.has f p = true) {old new : Settings}
    (hall : (b.rels.all fun (f, r) => r.holds (new.get f) (old.get f)) = true) :
    ∃ r, p r = true ∧ r.holds (new.get f) (old.get f) = true := by
  unfold SettingsAssert.has at hh
  rcases List.any_eq_true.1 hh with ⟨⟨g, r⟩, hm, hp⟩
  simp only [Bool.and_eq_true, beq_iff_eq] at hp
  have := List.all_eq_true.1 hall ⟨g, r⟩ hm
  simp only at this
  rw [hp.1] at this
  exact ⟨r, hp.2, this⟩

theorem holds_eq {r : Rel} (h : r.impliesEq = true) {n o : Nat} (hh : r.holds n o = true) : n = o := by
  cases r <;> simp [Rel.impliesEq] at h
  simpa [Rel.holds] using hh

theorem holds_ge {r : Rel} (h : r.impliesGe = true) {n o : Nat} (hh : r.holds n o = true) : o ≤ n := by
  cases r <;> simp [Rel.impliesGe] at h <;> simp [Rel.holds] at hh <;> omega

theorem holds_le {r : Rel} (h : r.impliesLe = true) {n o : Nat} (hh : r.holds n o = true) : n ≤ o := by
  cases r <;> simp [Rel.impliesLe] at h <;> simp [Rel.holds] at hh <;> omega

theorem toNat_inj {a b : Bool} (h : a.toNat = b.toNat) : a = b := by cases a <;> cases b <;> simp at h ⊢

/-- if the block's assertions hold for a pair of settings, the conversion does not weaken a guarantee -/
theorem blockEntails_sound {k : ConvKind} {b : SettingsAssert} (he : blockEntails k b = true) {old new : Settings}
    (hall : (b.rels.all fun (f, r) => r.holds (new.get f) (old.get f)) = true) : required k old new = true := by
  unfold blockEntails at he
  rw [Bool.and_eq_true] at he
  rcases has_holds he.1 hall with ⟨r, hr, hh⟩
  have hup : new.up = old.up := toNat_inj (holds_eq hr hh)
  unfold required
  rw [Bool.and_eq_true]
  refine ⟨by simp [hup], ?_⟩
  cases k <;> simp only at he ⊢
  · rcases has_holds he.2 hall with ⟨r, hr, hh⟩
    have := holds_ge hr hh
    simpa [Settings.get] using this
  · simp only [Bool.and_eq_true] at he
    rcases has_holds he.2.1.1 hall with ⟨r1, hr1, hh1⟩
    rcases has_holds he.2.1.2 hall with ⟨r2, hr2, hh2⟩
    rcases has_holds he.2.2 hall with ⟨r3, hr3, hh3⟩
    have h1 := holds_ge hr1 hh1
    have h2 := holds_le hr2 hh2
    have h3 := toNat_inj (holds_eq hr3 hh3)
    simp only [Settings.get] at h1 h2
    simp only [Bool.and_eq_true, Bool.or_eq_true, decide_eq_true_eq, Bool.not_eq_true', beq_iff_eq]
    refine ⟨⟨h1, ?_⟩, h3⟩
    cases hg : new.guaranteedAllocated
    · exact Or.inl rfl
    · right
      rw [hg] at h2
      cases ho : old.guaranteedAllocated
      · rw [ho] at h2; simp at h2
      · rfl
  · simp only [Bool.and_eq_true] at he
    rcases has_holds he.2.1.1 hall with ⟨r1, hr1, hh1⟩
    rcases has_holds he.2.1.2 hall with ⟨r2, hr2, hh2⟩
    rcases has_holds he.2.2 hall with ⟨r3, hr3, hh3⟩
    have h1 := holds_ge hr1 hh1
    have h2 := holds_le hr2 hh2
    have h3 := toNat_inj (holds_eq hr3 hh3)
    simp only [Settings.get] at h1 h2
    simp only [Bool.and_eq_true, Bool.or_eq_true, decide_eq_true_eq, Bool.not_eq_true', beq_iff_eq]
    refine ⟨⟨h1, ?_⟩, h3⟩
    cases hg : new.guaranteedAllocated
    · exact Or.inl rfl
    · right
      rw [hg] at h2
      cases ho : old.guaranteedAllocated
      · rw [ho] at h2; simp at h2
      · rfl

/-- for every table that passes `settingsOK`: a conversion that compiles (all assertions of its block hold)
    satisfies the requirement of the property, whatever the settings are -/
theorem conv_sound {t : Table} (hok : settingsOK t = true) {owner name : String} {old new : Settings}
    (hc : convOK t owner name old new = some true) :
    ∃ k, convKind owner name = some k ∧ required k old new = true := by
  unfold settingsOK at hok
  rw [Bool.and_eq_true] at hok
  unfold convOK Table.convBlock at hc
  cases hf : t.conversions.find? (fun c => c.owner == owner && c.name == name) with
  | none => rw [hf] at hc; cases hc
  | some c =>
    rw [hf] at hc; simp only at hc
    have hm := List.mem_of_find?_eq_some hf
    have hp := List.find?_some hf
    simp only [Bool.and_eq_true, beq_iff_eq] at hp
    have h1 := List.all_eq_true.1 hok.2 c hm
    cases hb : t.settingsAsserts.find? (fun b => b.block == c.block) with
    | none => rw [hb] at hc; cases hc
    | some b =>
      rw [hb] at hc h1
      simp only [Option.map_some, Option.some.injEq] at hc
      cases hk : convKind c.owner c.name with
      | none => rw [hk] at h1; cases h1
      | some k =>
        rw [hk] at h1
        simp only at h1
        refine ⟨k, by rw [← hp.1, ← hp.2]; exact hk, blockEntails_sound h1 hc⟩

end Life
