/-
  Lemmas/Hist2Claim.lean — operations addressed to the CLAIMED (original) handle, for every outcome of
  `stepCore cfg g (.onClaimed op)` that is not a fault: what the state and the output are.
-/
import BumpProof.Props.Hist
import BumpProof.Props.C07

set_option linter.unusedSimpArgs false
set_option linter.unusedVariables false

namespace Arena.Hist
open Rs Ledger

variable {cfg : Cfg}

theorem claim_mem_of_any (p : Frame → Bool) (hp : ∀ f, p f = true → f = .claim) (fs : List Frame)
    (h : fs.any p = true) : Frame.claim ∈ fs := by
  obtain ⟨f, hf, hpf⟩ := List.any_eq_true.1 h
  rw [← hp f hpf]; exact hf

/-- the error a claimed handle reports is `claimed` -/
theorem claimed_err_alloc {s s' : State} {L : Layout} {e : AErr} (hc : s.cur = .claimed)
    (h : alloc cfg s L = .ok (s', .error e)) : e = .claimed :=
  (C07.alloc_error_intact h).2.2.2.2.2 hc

theorem claimed_err_allocGeneric {k : Kind} {s s' : State} {L : Layout} {h1 h2 : Hints} {e : AErr}
    (hc : s.cur = .claimed) (h : allocGeneric cfg k s L h1 h2 = .ok (s', .error e)) : e = .claimed :=
  (C07.allocGeneric_error_intact h).2.2.2.2.2 hc

theorem claimed_err_grow {s s' : State} {p o : Nat} {L : Layout} {e : AErr} (hc : s.cur = .claimed)
    (h : grow cfg s p o L = .ok (s', .error e)) : e = .claimed :=
  (C07.grow_error_intact h).2.2.2.2.2 hc

theorem claimed_err_reserve {s s' : State} {n : Nat} {e : AErr} (hc : s.cur = .claimed)
    (h : reserve cfg s n = .ok (s', .error e)) : e = .claimed :=
  (C07.reserve_error_intact h).2.1.2.2.2.2 hc

theorem claimed_err_reserveDyn {s s' : State} {n : Nat} {e : AErr} (hc : s.cur = .claimed)
    (h : reserveDyn cfg s n = .ok (s', .error e)) : e = .claimed ∨ (e = .capacityOverflow ∧ ¬ n ≤ Rs.IMAX) := by
  unfold reserveDyn at h
  split at h
  · rename_i hl
    simp only [pure_eq_ok, Except.ok.injEq, Prod.mk.injEq, Except.error.injEq] at h
    right
    refine ⟨h.2.symm, ?_⟩
    unfold layoutOk at hl
    simpa using hl
  · obtain ⟨⟨s1, r1⟩, h1, h⟩ := bind_eq_ok h
    simp only [pure_eq_ok, Except.ok.injEq, Prod.mk.injEq] at h
    obtain ⟨rfl, h2⟩ := h
    cases r1 with
    | ok v => simp only [Except.map] at h2; cases h2
    | error e1 =>
      simp only [Except.map, Except.error.injEq] at h2
      subst h2
      exact Or.inl (claimed_err_allocGeneric hc h1)

theorem claimed_err_alloc_p {s : State} {L : Layout} {e : AErr} {v : State × Except AErr Nat} (hc : s.cur = .claimed)
    (h : alloc cfg s L = .ok v) (he : v.snd = .error e) : e = .claimed := by
  obtain ⟨s', r⟩ := v
  cases he
  exact claimed_err_alloc hc h

theorem claimed_err_allocGeneric_p {k : Kind} {s : State} {L : Layout} {h1 h2 : Hints} {e : AErr}
    {v : State × Except AErr (Nat × Nat)}
    (hc : s.cur = .claimed) (h : allocGeneric cfg k s L h1 h2 = .ok v) (he : v.snd = .error e) : e = .claimed := by
  obtain ⟨s', r⟩ := v
  cases he
  exact claimed_err_allocGeneric hc h

theorem claimed_err_grow_p {s : State} {p o : Nat} {L : Layout} {e : AErr} {v : State × Except AErr Nat}
    (hc : s.cur = .claimed) (h : grow cfg s p o L = .ok v) (he : v.snd = .error e) : e = .claimed := by
  obtain ⟨s', r⟩ := v
  cases he
  exact claimed_err_grow hc h

theorem claimed_err_reserve_p {s : State} {n : Nat} {e : AErr} {v : State × Except AErr Unit} (hc : s.cur = .claimed)
    (h : reserve cfg s n = .ok v) (he : v.snd = .error e) : e = .claimed := by
  obtain ⟨s', r⟩ := v
  cases he
  exact claimed_err_reserve hc h

theorem claimed_err_reserveDyn_p {s : State} {n : Nat} {e : AErr} {v : State × Except AErr Unit} (hc : s.cur = .claimed)
    (h : reserveDyn cfg s n = .ok v) (he : v.snd = .error e) :
    e = .claimed ∨ (e = .capacityOverflow ∧ ¬ n ≤ Rs.IMAX) := by
  obtain ⟨s', r⟩ := v
  cases he
  exact claimed_err_reserveDyn hc h

/-- outcome of an operation on the claimed handle -/
inductive ClaimedOutcome (cfg : Cfg) (g g' : GState) (op : Op) (out : Out) : Prop
  /-- a second `claim` panics; nothing changes -/
  | panic (msg : String) : op = .claim → out = .panic msg → g' = g → ClaimedOutcome cfg g g' op out
  /-- every request for memory (`allocate`, typed allocation, `grow`, `reserve`) and a failing `shrink` report
      `claimed` (a `dyn` reserve of more than `isize::MAX` bytes: `capacityOverflow`); nothing changes -/
  | refused (e : AErr) : out = .err e → g' = g →
      (e = .claimed ∨ (e = .capacityOverflow ∧ ∃ n, op = .reserve n true ∧ ¬ n ≤ Rs.IMAX)) → ClaimedOutcome cfg g g' op out
  /-- `deallocate` does nothing to the arena: only the ghost block is forgotten -/
  | dealloc (b : Nat) (via : Via) : op = .deallocate b via → out = .unit → g' = { g with s := removeBlock g.s b } →
      ClaimedOutcome cfg g g' op out
  /-- `shrink` (alignment fits) hands the block back as it is (same address, same size): only the ghost block is
      re-registered -/
  | shrunk (b : Nat) (L : Layout) (via : Via) (blk : Block) : op = .shrink b L via → findBlock g.s b = .ok blk →
      out = .block g.s.nextId blk.addr blk.size →
      g' = { g with s := (okOut (removeBlock g.s b) blk.addr blk.size L.align (Nat.min blk.init blk.size)).1 } →
      ClaimedOutcome cfg g g' op out

theorem onClaimed_outcome {g g' : GState} {out : Out} {op : Op}
    (hs : stepCore cfg g (.onClaimed op) = .ok (g', out)) :
    Frame.claim ∈ g.s.frames ∧ ClaimedOutcome cfg g g' op out := by
  unfold stepCore at hs
  simp only [bind, Except.bind, pure, Except.pure] at hs
  split at hs
  · cases hs
  · rename_i hany
    have hmem : Frame.claim ∈ g.s.frames := by
      refine claim_mem_of_any _ ?_ _ (by simpa using hany)
      intro f hf
      cases f <;> first | rfl | (simp at hf)
    refine ⟨hmem, ?_⟩
    cases op
    all_goals simp only [] at hs
    all_goals first | (cases hs; done) | skip
    case claim => cases hs; exact .panic _ rfl rfl rfl
    case allocate =>
      (repeat' split at hs) <;> first | (cases hs; done) |
        (cases hs; exact .refused _ rfl rfl (Or.inl (claimed_err_alloc_p rfl (by assumption) (by assumption))))
    case allocLayout =>
      (repeat' split at hs) <;> first | (cases hs; done) |
        (cases hs; exact .refused _ rfl rfl (Or.inl (claimed_err_allocGeneric_p rfl (by assumption) (by assumption))))
    case grow =>
      (repeat' split at hs) <;> first | (cases hs; done) |
        (cases hs; exact .refused _ rfl rfl (Or.inl (claimed_err_grow_p rfl (by assumption) (by assumption))))
    case reserve n dyn =>
      cases dyn
      · simp only [Bool.false_eq_true, ↓reduceIte] at hs
        (repeat' split at hs) <;> first | (cases hs; done) |
          (cases hs; exact .refused _ rfl rfl (Or.inl (claimed_err_reserve_p rfl (by assumption) (by assumption))))
      · simp only [↓reduceIte] at hs
        (repeat' split at hs) <;> first | (cases hs; done) | skip
        cases hs
        refine .refused _ rfl rfl ?_
        rcases claimed_err_reserveDyn_p rfl (by assumption) (by assumption) with h | ⟨h1, h2⟩
        · exact Or.inl h
        · exact Or.inr ⟨h1, n, rfl, h2⟩
    case deallocate b via =>
      split at hs
      · cases hs
      · rename_i blk hb
        split at hs
        · cases hs
        · rename_i s' hd
          have e := deallocate_claimed_eq rfl hd
          subst e
          cases hs
          exact .dealloc b via rfl rfl rfl
    case shrink b L via =>
      split at hs
      · cases hs
      · split at hs
        · cases hs
        · rename_i blk hb
          split at hs
          · split at hs
            · cases hs
            · rename_i heq; cases heq
          · split at hs
            · split at hs
              · cases hs
              · rename_i heq; cases heq
            · rename_i hnfit
              have hfit : alignFits blk.addr L.align = true := by
                cases hq : alignFits blk.addr L.align
                · rw [hq] at hnfit; exact absurd rfl hnfit
                · rfl
              split at hs
              · cases hs
              · rename_i v hv
                obtain ⟨s', r⟩ := v
                obtain ⟨e1, e2⟩ := shrink_claimed_eq rfl hfit hv
                subst e1 e2
                simp only at hs
                cases hs
                exact .shrunk b L via blk rfl hb rfl rfl

end Arena.Hist
