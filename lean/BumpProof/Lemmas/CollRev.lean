/-
  Lemmas/CollRev.lean — refinement lemmas for the `MutBumpVecRev` model (`Coll/Rev.lean`): on a
  well-formed reverse vector (`slots = holes ++ I xs`) every operation computes its list-level
  description of `Coll/RevSpec.lean`.
-/
import BumpProof.Coll.RevSpec
import BumpProof.Lemmas.CollPrim
import BumpProof.Lemmas.CollWF
import BumpProof.Lemmas.CollBasic
import BumpProof.Lemmas.CollGrow
import BumpProof.Lemmas.CollDrain

namespace Coll

theorem rseg_len_le_cap {v : Vec} {xs : List Id} (hs : v.slots = H (v.cap - v.len) ++ I xs) (hl : xs.length = v.len) :
    v.len ≤ v.cap := by
  have := congrArg List.length hs
  simp [Vec.cap] at this ⊢
  omega

theorem rafter_noop {α} {v : Vec} {xs : List Id} (hs : v.slots = H (v.cap - v.len) ++ I xs) (hl : xs.length = v.len)
    (e : Exit α) (o : List Outcome) : v.rafter { final := xs, exit := e, rest := o } = v := by
  apply Vec.eq_of <;> simp [Vec.rafter, hs, hl]

/-! ## reservation -/

/-- what a (re)allocation of a reverse vector preserves -/
structure RGrows (v v' : Vec) (xs : List Id) : Prop where
  slots : v'.slots = H (v'.cap - v'.len) ++ I xs
  len : v'.len = v.len
  dropLog : v'.dropLog = v.dropLog
  escaped : v'.escaped = v.escaped
  cap : v.cap ≤ v'.cap

theorem rreserve_some {env : Env} {v v' : Vec} {xs : List Id} {n : Nat}
    (hs : v.slots = H (v.cap - v.len) ++ I xs) (hl : xs.length = v.len)
    (h : rreserve env v n = some v') : RGrows v v' xs ∧ v.len + n ≤ v'.cap := by
  have hcap := rseg_len_le_cap hs hl
  unfold rreserve at h
  split at h
  · unfold rgrowAmortized at h
    split at h
    · cases h
      have hdrop : v.slots.drop v.rstart = I xs := by
        rw [hs, Vec.rstart]
        exact List.drop_left' (by simp)
      have hc : (rgrowTo v env.capIn).cap = max env.capIn v.cap := by
        simp [rgrowTo, Vec.cap, hdrop, hl] ; simp [Vec.cap] at hcap; omega
      refine ⟨⟨?_, rfl, rfl, rfl, by omega⟩, by omega⟩
      rw [hc]; simp [rgrowTo, hdrop]
    · cases h
  · cases h; exact ⟨⟨hs, rfl, rfl, rfl, Nat.le_refl _⟩, by omega⟩

def rgrown (env : Env) (v : Vec) (n : Nat) : Vec := (rreserve env v n).getD v
def rroom (env : Env) (v : Vec) (n : Nat) : Bool := (rreserve env v n).isSome

theorem rreserve_fits (env : Env) (v : Vec) (n : Nat) (h : v.len + n ≤ v.cap) : rreserve env v n = some v := by
  unfold rreserve; rw [if_neg (by omega)]

/-! ## push / pop / clear / truncate / drop -/

theorem rpush_eq (env : Env) (v : Vec) (xs : List Id) (id : Id)
    (hs : v.slots = H (v.cap - v.len) ++ I xs) (hl : xs.length = v.len) :
    rpush env v id =
      .ok ⟨(rgrown env v 1).rafter (rpushSpec (rroom env v 1) xs id), (rpushSpec (rroom env v 1) xs id).exit, []⟩ := by
  unfold rpush rgrown rroom
  cases hr : rreserve env v 1 with
  | none =>
    simp only [Option.getD_none, Option.isSome_none, rpushSpec, Bool.false_eq_true, ↓reduceIte]
    congr 2
    apply Vec.eq_of <;> simp [Vec.rafter, dropArg, hs, hl]
  | some v' =>
    have ⟨g, hc⟩ := rreserve_some hs hl hr
    have hlen := g.len
    simp only [Option.getD_some, Option.isSome_some, rpushSpec, ↓reduceIte]
    have hs1 : (setLen v' (v'.len + 1)).slots = H (v'.cap - v'.len - 1) ++ Slot.hole :: I xs := by
      simp only [setLen]; rw [g.slots]
      have : v'.cap - v'.len = (v'.cap - v'.len - 1) + 1 := by omega
      conv => lhs; rw [this]
      simp
    rw [write_mid hs1 (by simp [setLen, Vec.rstart, Vec.cap]; omega)]
    simp only
    congr 2
    apply Vec.eq_of <;> simp [Vec.rafter, setLen, g.dropLog, g.escaped, hlen, hl]
    exact H_congr (by omega)

theorem rpop_eq (v : Vec) (xs : List Id)
    (hs : v.slots = H (v.cap - v.len) ++ I xs) (hl : xs.length = v.len) :
    rpop v = .ok ⟨v.rafter (rpopSpec xs), (rpopSpec xs).exit, []⟩ := by
  have hcap := rseg_len_le_cap hs hl
  unfold rpop rpopSpec
  cases xs with
  | nil =>
    have h0 : v.len = 0 := by simpa using hl.symm
    simp only [h0, ↓reduceIte]
    rw [rafter_noop (by simpa using hs) (by simpa using hl)]
  | cons x rest =>
    have h0 : v.len ≠ 0 := by simp at hl; omega
    simp only [h0, ↓reduceIte]
    have hs1 : v.slots = H (v.cap - v.len) ++ Slot.init x :: I rest := by simpa using hs
    rw [readOut_mid hs1 (by simp [Vec.rstart])]
    simp only
    congr 2
    apply Vec.eq_of <;> simp [Vec.rafter, setLen]
    · simp at hl
      have : v.cap - rest.length = (v.cap - v.len) + 1 := by omega
      rw [this]; simp
    · simp at hl; omega

theorem rclear_eq (bombs : List Id) (v : Vec) (xs : List Id)
    (hs : v.slots = H (v.cap - v.len) ++ I xs) (hl : xs.length = v.len) :
    rclear bombs v = .ok ⟨v.rafter (clearSpec bombs xs), (clearSpec bombs xs).exit, []⟩ := by
  have hcap := rseg_len_le_cap hs hl
  unfold rclear clearSpec
  have := dropRange_seg bombs xs false (setLen v 0) (H (v.cap - v.len)) [] v.rstart (by simpa [setLen] using hs)
    (by simp [Vec.rstart])
  rw [← hl, this]
  simp only [Bool.not_false, Bool.true_and, dropExit]
  congr 2
  apply Vec.eq_of <;> simp [Vec.rafter, setLen]
  rw [← H_add]; congr 1; omega

theorem rdropVec_eq (bombs : List Id) (u : Bool) (v : Vec) (xs : List Id)
    (hs : v.slots = H (v.cap - v.len) ++ I xs) (hl : xs.length = v.len) :
    rdropVec bombs u v =
      .ok ⟨{ v with slots := H v.cap, len := 0, dropLog := v.dropLog ++ xs },
           if (!u && xs.any bombs.contains) then .panic true else .ret (), []⟩ := by
  have hcap := rseg_len_le_cap hs hl
  unfold rdropVec
  have := dropRange_seg bombs xs u (setLen v 0) (H (v.cap - v.len)) [] v.rstart (by simpa [setLen] using hs)
    (by simp [Vec.rstart])
  rw [← hl, this]
  simp only [setLen]
  congr 3
  simp; rw [← H_add]; congr 1; omega

theorem rtruncate_eq (bombs : List Id) (v : Vec) (xs : List Id) (n : Nat)
    (hs : v.slots = H (v.cap - v.len) ++ I xs) (hl : xs.length = v.len) :
    rtruncate bombs v n = .ok ⟨v.rafter (rtruncateSpec bombs xs n), (rtruncateSpec bombs xs n).exit, []⟩ := by
  have hcap := rseg_len_le_cap hs hl
  unfold rtruncate rtruncateSpec
  by_cases h : n ≥ v.len
  · simp only [h, hl, ↓reduceIte, rafter_noop hs hl]
  · have h' : ¬ n ≥ xs.length := by omega
    simp only [h, h', ↓reduceIte]
    have hsplit : v.slots = H (v.cap - v.len) ++ I (xs.take (xs.length - n)) ++ I (xs.drop (xs.length - n)) := by
      rw [List.append_assoc, ← I_append, List.take_append_drop]; exact hs
    have hdl : (xs.take (xs.length - n)).length = v.len - n := by simp [hl]
    have := dropRange_seg bombs (xs.take (xs.length - n)) false (setLen v n) (H (v.cap - v.len)) (I (xs.drop (xs.length - n)))
      v.rstart (by simpa [setLen] using hsplit) (by simp [Vec.rstart])
    rw [hdl] at this
    rw [this]
    simp only [Bool.not_false, Bool.true_and, dropExit]
    congr 2
    apply Vec.eq_of <;> simp [Vec.rafter, setLen]
    · rw [← List.append_assoc, ← H_add]; congr 2; omega
    · omega

/-! ## insert / remove / swap_remove -/

theorem rinsert_eq (env : Env) (v : Vec) (xs : List Id) (i : Nat) (id : Id)
    (hs : v.slots = H (v.cap - v.len) ++ I xs) (hl : xs.length = v.len) :
    rinsert env v i id =
      .ok ⟨(if i ≤ v.len then rgrown env v 1 else v).rafter (insertSpec (rroom env v 1) xs i id),
           (insertSpec (rroom env v 1) xs i id).exit, []⟩ := by
  unfold rinsert rgrown rroom
  by_cases hi : i > v.len
  · have : ¬ i ≤ v.len := by omega
    have h2 : ¬ (i ≤ xs.length ∧ (rreserve env v 1).isSome = true) := by omega
    simp only [hi, this, ↓reduceIte, insertSpec, h2]
    congr 2
    apply Vec.eq_of <;> simp [Vec.rafter, dropArg, hs, hl]
  · have hle : i ≤ v.len := by omega
    simp only [hi, hle, ↓reduceIte]
    cases hr : rreserve env v 1 with
    | none =>
      simp only [Option.getD_none, Option.isSome_none, insertSpec, Bool.false_eq_true, and_false, ↓reduceIte]
      congr 2
      apply Vec.eq_of <;> simp [Vec.rafter, dropArg, hs, hl]
    | some v' =>
      have ⟨g, hc⟩ := rreserve_some hs hl hr
      have hle' : i ≤ xs.length := by omega
      have hlen := g.len
      simp only [Option.getD_some, Option.isSome_some, insertSpec, hle', and_self, ↓reduceIte]
      have hm : v'.cap - v'.len = (v'.cap - v'.len - 1) + 1 := by omega
      by_cases h0 : i = 0
      · subst h0
        simp only [↓reduceIte]
        have hs1 : (setLen v' (v'.len + 1)).slots = H (v'.cap - v'.len - 1) ++ Slot.hole :: I xs := by
          simp only [setLen]; rw [g.slots]; conv => lhs; rw [hm]
          simp
        rw [write_mid hs1 (by simp [setLen, Vec.rstart, Vec.cap]; omega)]
        simp only
        congr 2
        apply Vec.eq_of <;> simp [Vec.rafter, setLen, g.dropLog, g.escaped, hlen, hl]
        exact H_congr (by omega)
      · simp only [h0, ↓reduceIte]
        have hs1 : v'.slots = H (v'.cap - v'.len - 1) ++ H 1 ++ I (xs.take i) ++ I (xs.drop i) := by
          rw [g.slots]; conv => lhs; rw [hm, H_add]
          rw [List.append_assoc (H _ ++ H 1), ← I_append, List.take_append_drop]
        rw [copy_back hs1 (by simp [Vec.rstart] <;> omega) (by simp [Vec.rstart] <;> omega) (by simp <;> omega)]
        simp only
        have hs2 : H (v'.cap - v'.len - 1) ++ I (xs.take i) ++ H 1 ++ I (xs.drop i)
            = (H (v'.cap - v'.len - 1) ++ I (xs.take i)) ++ Slot.hole :: I (xs.drop i) := by simp
        rw [write_mid (v := { v' with slots := _ }) hs2 (by simp [Vec.rstart]; omega)]
        simp only
        congr 2
        apply Vec.eq_of <;> simp [Vec.rafter, setLen, g.dropLog, g.escaped]
        · exact H_congr (by omega)
        · omega

theorem rremove_eq (v : Vec) (xs : List Id) (i : Nat)
    (hs : v.slots = H (v.cap - v.len) ++ I xs) (hl : xs.length = v.len) :
    rremove v i = .ok ⟨v.rafter (removeSpec xs i), (removeSpec xs i).exit, []⟩ := by
  have hcap := rseg_len_le_cap hs hl
  unfold rremove removeSpec
  by_cases h : i ≥ v.len
  · have : xs[i]? = none := by simp; omega
    simp only [h, ↓reduceIte, this, rafter_noop hs hl]
  · have hi : i < xs.length := by omega
    simp only [h, ↓reduceIte, List.getElem?_eq_getElem hi]
    have hs1 : v.slots = (H (v.cap - v.len) ++ I (xs.take i)) ++ Slot.init xs[i] :: I (xs.drop (i + 1)) := by
      rw [hs, I_split_at xs i hi]; simp
    rw [readOut_mid hs1 (by simp [Vec.rstart]; omega)]
    simp only
    have hs2 : (H (v.cap - v.len) ++ I (xs.take i)) ++ Slot.hole :: I (xs.drop (i + 1))
        = H (v.cap - v.len) ++ I (xs.take i) ++ H 1 ++ I (xs.drop (i + 1)) := by simp
    by_cases h0 : i = 0
    · subst h0
      simp only [ne_eq, not_true_eq_false, ↓reduceIte]
      congr 2
      apply Vec.eq_of <;> simp [Vec.rafter, setLen]
      · exact H_cons_append _ (by omega)
      · omega
    · simp only [ne_eq, h0, not_false_eq_true, ↓reduceIte]
      rw [copy_fwd (v := { v with slots := _, escaped := _ }) hs2 (by simp [Vec.rstart]) (by simp [Vec.rstart]) (by simp <;> omega)]
      simp only
      congr 2
      apply Vec.eq_of <;> simp [Vec.rafter, setLen, List.eraseIdx_eq_take_drop_succ]
      · exact H_cons_append _ (by omega)
      · omega

theorem rswapRemove_eq (v : Vec) (xs : List Id) (i : Nat)
    (hs : v.slots = H (v.cap - v.len) ++ I xs) (hl : xs.length = v.len) :
    rswapRemove v i = .ok ⟨v.rafter (rswapRemoveSpec xs i), (rswapRemoveSpec xs i).exit, []⟩ := by
  have hcap := rseg_len_le_cap hs hl
  unfold rswapRemove rswapRemoveSpec
  by_cases h : i ≥ v.len
  · have : xs[i]? = none := by simp; omega
    simp only [h, ↓reduceIte, this, rafter_noop hs hl]
  · have hi : i < xs.length := by omega
    obtain ⟨f, rest, rfl⟩ : ∃ f rest, xs = f :: rest := by
      cases xs with
      | nil => simp at hi
      | cons f rest => exact ⟨f, rest, rfl⟩
    simp only [h, ↓reduceIte, List.getElem?_eq_getElem hi, List.head?_cons]
    have hl' : rest.length + 1 = v.len := by simpa using hl
    cases i with
    | zero =>
      -- the first element itself: the copy moves a hole onto itself
      have hs1 : v.slots = H (v.cap - v.len) ++ Slot.init f :: I rest := by simpa using hs
      rw [readOut_mid hs1 (by simp [Vec.rstart])]
      simp only [List.getElem_cons_zero, Nat.add_zero]
      have hidx : v.rstart < ({ v with slots := H (v.cap - v.len) ++ Slot.hole :: I rest, escaped := v.escaped ++ [f] } : Vec).cap := by
        simp only [Vec.cap, Vec.rstart, List.length_append, length_H, List.length_cons, length_I]
        simp only [Vec.cap] at hcap; omega
      rw [copy_self hidx]
      simp only
      congr 2
      apply Vec.eq_of <;> simp [Vec.rafter, setLen]
      · exact H_cons_append _ (by omega)
      · omega
    | succ j =>
      have hj : j < rest.length := by simpa using hi
      have hsp := I_split_at rest j hj
      have hs1 : v.slots = (H (v.cap - v.len) ++ [Slot.init f] ++ I (rest.take j)) ++ Slot.init rest[j] :: I (rest.drop (j + 1)) := by
        rw [hs]; simp only [I_cons]; rw [hsp]; simp
      rw [readOut_mid hs1 (by simp [Vec.rstart]; omega)]
      simp only [List.getElem_cons_succ]
      have hs2 : (H (v.cap - v.len) ++ [Slot.init f] ++ I (rest.take j)) ++ Slot.hole :: I (rest.drop (j + 1))
          = H (v.cap - v.len) ++ [Slot.init f] ++ I (rest.take j) ++ [Slot.hole] ++ I (rest.drop (j + 1)) := by simp
      rw [copy_one_fwd (v := { v with slots := _, escaped := _ }) hs2 (by simp [Vec.rstart]) (by simp [Vec.rstart]; omega)]
      simp only
      congr 2
      have e1 : ((f :: rest).set (j + 1) f).tail = rest.take j ++ f :: rest.drop (j + 1) := by
        simp only [List.set_cons_succ, List.tail_cons]
        rw [List.set_eq_take_append_cons_drop, if_pos hj]
      rw [e1]
      apply Vec.eq_of <;> simp [Vec.rafter, setLen]
      · exact H_cons_append _ (by omega)
      · omega

/-! ## extend_from_slice_clone / extend_with / resize -/

theorem rextendCloneSpec_length (n : Nat) : ∀ (xs : List Id) (o : List Outcome),
    (rextendCloneSpec xs n o).final.length ≤ xs.length + n ∧ xs.length ≤ (rextendCloneSpec xs n o).final.length ∧
    (rextendCloneSpec xs n o).dropped = [] ∧ (rextendCloneSpec xs n o).escaped = [] := by
  induction n with
  | zero => intro xs o; simp [rextendCloneSpec]
  | succ n ih =>
    intro xs o
    match o with
    | [] => simp [rextendCloneSpec]
    | .panic :: o => simp [rextendCloneSpec]
    | .ret id :: o =>
      simp only [rextendCloneSpec]
      have := ih (id :: xs) o
      simp only [List.length_cons] at this
      exact ⟨by omega, by omega, this.2.2.1, this.2.2.2⟩

theorem rextendCloneLoop_eq (n : Nat) : ∀ (xs : List Id) (v : Vec) (o : List Outcome) (m : Nat),
    v.slots = H m ++ I xs → v.len = xs.length → n ≤ m →
    rextendCloneLoop n v o =
      .ok ⟨{ v with slots := H (xs.length + m - (rextendCloneSpec xs n o).final.length) ++ I (rextendCloneSpec xs n o).final,
                    len := (rextendCloneSpec xs n o).final.length },
           (rextendCloneSpec xs n o).exit, (rextendCloneSpec xs n o).rest⟩ := by
  induction n with
  | zero =>
    intro xs v o m hs hl _
    simp only [rextendCloneLoop, rextendCloneSpec]
    congr 2
    apply Vec.eq_of <;> simp [hs, hl]
  | succ n ih =>
    intro xs v o m hs hl hm
    match o with
    | [] =>
      simp only [rextendCloneLoop, rextendCloneSpec]
      congr 2
      apply Vec.eq_of <;> simp [hs, hl]
    | .panic :: o =>
      simp only [rextendCloneLoop, rextendCloneSpec]
      congr 2
      apply Vec.eq_of <;> simp [hs, hl]
    | .ret id :: o =>
      simp only [rextendCloneLoop, rextendCloneSpec]
      have hs1 : (setLen v (v.len + 1)).slots = H (m - 1) ++ Slot.hole :: I xs := by
        simp only [setLen]; rw [hs]; exact (H_append_cons _ (by omega)).symm
      have hr : (setLen v (v.len + 1)).rstart = (H (m - 1)).length := by
        simp only [setLen, Vec.rstart, Vec.cap, hs, hl, List.length_append, length_H, length_I]; omega
      rw [write_mid hs1 hr]
      simp only
      have := ih (id :: xs) { v with slots := H (m - 1) ++ Slot.init id :: I xs, len := v.len + 1 } o (m - 1)
        (by simp) (by simp [hl]) (by omega)
      simp only [setLen] at this ⊢
      rw [this]
      congr 3
      simp
      congr 2
      omega

theorem rextendFromSliceClone_eq (env : Env) (v : Vec) (xs : List Id) (n : Nat) (o : List Outcome)
    (hs : v.slots = H (v.cap - v.len) ++ I xs) (hl : xs.length = v.len) :
    rextendFromSliceClone env v n o =
      .ok ⟨(rgrown env v n).rafter (rextendCloneSpecR (rroom env v n) xs n o),
           (rextendCloneSpecR (rroom env v n) xs n o).exit, (rextendCloneSpecR (rroom env v n) xs n o).rest⟩ := by
  unfold rextendFromSliceClone rgrown rroom
  cases hr : rreserve env v n with
  | none =>
    simp only [Option.getD_none, Option.isSome_none, rextendCloneSpecR, Bool.false_eq_true, ↓reduceIte, rafter_noop hs hl]
  | some v' =>
    have ⟨g, hc⟩ := rreserve_some hs hl hr
    simp only [Option.getD_some, Option.isSome_some, rextendCloneSpecR, ↓reduceIte]
    have hlen := g.len
    rw [rextendCloneLoop_eq n xs v' o (v'.cap - v'.len) g.slots (by omega) (by omega)]
    have ⟨h1, h2, h3, h4⟩ := rextendCloneSpec_length n xs o
    congr 2
    apply Vec.eq_of <;> simp [Vec.rafter, h3, h4, g.dropLog, g.escaped]
    exact H_congr (by omega)

theorem rextendWithLoop_eq (n : Nat) : ∀ (xs : List Id) (v : Vec) (o : List Outcome) (m : Nat) (ll : Nat),
    v.slots = H m ++ I xs → n ≤ m →
    rextendWithLoop n v (m - 1) ll o =
      .ok ({ v with slots := H (xs.length + m - (rextendCloneSpec xs n o).final.length) ++ I (rextendCloneSpec xs n o).final },
           m - 1 - ((rextendCloneSpec xs n o).final.length - xs.length),
           ll + ((rextendCloneSpec xs n o).final.length - xs.length),
           (match (rextendCloneSpec xs n o).exit with | .ret _ => false | .panic _ => true),
           (rextendCloneSpec xs n o).rest) := by
  induction n with
  | zero =>
    intro xs v o m ll hs _
    simp only [rextendWithLoop, rextendCloneSpec, Nat.sub_self, Nat.sub_zero, Nat.add_zero]
    congr 2
    apply Vec.eq_of <;> simp [hs]
  | succ n ih =>
    intro xs v o m ll hs hm
    match o with
    | [] =>
      simp only [rextendWithLoop, rextendCloneSpec, Nat.sub_self, Nat.sub_zero, Nat.add_zero]
      congr 2
      apply Vec.eq_of <;> simp [hs]
    | .panic :: o =>
      simp only [rextendWithLoop, rextendCloneSpec, Nat.sub_self, Nat.sub_zero, Nat.add_zero]
      congr 2
      apply Vec.eq_of <;> simp [hs]
    | .ret id :: o =>
      simp only [rextendWithLoop, rextendCloneSpec]
      have hs1 : v.slots = H (m - 1) ++ Slot.hole :: I xs := by
        rw [hs]; exact (H_append_cons _ (by omega)).symm
      rw [write_mid hs1 (by simp)]
      simp only
      have := ih (id :: xs) { v with slots := H (m - 1) ++ Slot.init id :: I xs } o (m - 1) (ll + 1) (by simp) (by omega)
      rw [this]
      have ⟨h1, h2, _, _⟩ := rextendCloneSpec_length n (id :: xs) o
      simp only [List.length_cons] at h1 h2 ⊢
      congr 2
      · apply Vec.eq_of <;> simp
        exact H_congr (by omega)
      · congr 1
        · omega
        · congr 1; omega

theorem rextendWith_eq (env : Env) (v : Vec) (xs : List Id) (n : Nat) (value : Id) (o : List Outcome)
    (hs : v.slots = H (v.cap - v.len) ++ I xs) (hl : xs.length = v.len) :
    rextendWith env v n value o =
      .ok ⟨(rgrown env v n).rafter (rextendWithSpecR (rroom env v n) env.bombs xs n value o),
           (rextendWithSpecR (rroom env v n) env.bombs xs n value o).exit,
           (rextendWithSpecR (rroom env v n) env.bombs xs n value o).rest⟩ := by
  unfold rextendWith rgrown rroom
  cases hr : rreserve env v n with
  | none =>
    simp only [Option.getD_none, Option.isSome_none, rextendWithSpecR, Bool.false_eq_true, ↓reduceIte]
    congr 2
    apply Vec.eq_of <;> simp [Vec.rafter, dropArg, hs, hl]
  | some v' =>
    have ⟨g, hc⟩ := rreserve_some hs hl hr
    have hlen := g.len
    simp only [Option.getD_some, Option.isSome_some, rextendWithSpecR, ↓reduceIte]
    have hloop := rextendWithLoop_eq (n - 1) xs v' o (v'.cap - v'.len) v'.len g.slots (by omega)
    have hrs : v'.rstart - 1 = v'.cap - v'.len - 1 := by simp [Vec.rstart]
    rw [hrs, hloop]
    have ⟨h1, h2, h3, h4⟩ := rextendCloneSpec_length (n - 1) xs o
    cases n with
    | zero =>
      simp only [Nat.zero_sub, rextendCloneSpec, Nat.lt_irrefl, ↓reduceIte, rextendWithSpec, Nat.sub_self, Nat.add_zero]
      congr 2
      apply Vec.eq_of <;> simp [Vec.rafter, dropArg, setLen, g.dropLog, g.escaped, hlen, hl]
    | succ m =>
      simp only [Nat.add_sub_cancel, rextendWithSpec] at *
      cases he : (rextendCloneSpec xs m o).exit with
      | ret u =>
        simp only [Nat.zero_lt_succ, ↓reduceIte]
        have hs1 : H (xs.length + (v'.cap - v'.len) - (rextendCloneSpec xs m o).final.length) ++ I (rextendCloneSpec xs m o).final
            = H (xs.length + (v'.cap - v'.len) - (rextendCloneSpec xs m o).final.length - 1) ++ Slot.hole :: I (rextendCloneSpec xs m o).final :=
          (H_append_cons _ (by omega)).symm
        rw [write_mid (v := { v' with slots := _ }) hs1 (by simp; omega)]
        simp only
        congr 2
        apply Vec.eq_of <;> simp [Vec.rafter, setLen, h3, h4, g.dropLog, g.escaped]
        · exact H_congr (by omega)
        · omega
      | panic d =>
        simp only
        congr 2
        apply Vec.eq_of <;> simp [Vec.rafter, dropArg, setLen, h3, h4, g.dropLog, g.escaped]
        · exact H_congr (by omega)
        · omega

theorem rtruncateSpec_escaped (bombs : List Id) (xs : List Id) (n : Nat) : (rtruncateSpec bombs xs n).escaped = [] := by
  unfold rtruncateSpec; split <;> rfl

theorem rresize_eq (env : Env) (v : Vec) (xs : List Id) (newLen : Nat) (value : Id) (o : List Outcome)
    (hs : v.slots = H (v.cap - v.len) ++ I xs) (hl : xs.length = v.len) :
    rresize env v newLen value o =
      .ok ⟨(if newLen > v.len then rgrown env v (newLen - v.len) else v).rafter
              (rresizeSpec (rroom env v (newLen - v.len)) env.bombs xs newLen value o),
           (rresizeSpec (rroom env v (newLen - v.len)) env.bombs xs newLen value o).exit,
           (rresizeSpec (rroom env v (newLen - v.len)) env.bombs xs newLen value o).rest⟩ := by
  unfold rresize rresizeSpec
  by_cases h : newLen > v.len
  · have h' : newLen > xs.length := by omega
    simp only [h, h', ↓reduceIte, hl]
    exact rextendWith_eq env v xs (newLen - v.len) value o hs hl
  · have h' : ¬ newLen > xs.length := by omega
    simp only [h, h', ↓reduceIte]
    rw [rtruncate_eq env.bombs v xs newLen hs hl]
    simp only
    cases he : (rtruncateSpec env.bombs xs newLen).exit with
    | ret u =>
      simp only
      congr 2
      apply Vec.eq_of <;> simp [Vec.rafter, dropArg, rtruncateSpec_escaped]
    | panic d =>
      simp only
      congr 2
      apply Vec.eq_of <;> simp [Vec.rafter, dropArg, rtruncateSpec_escaped]

theorem rextendCloneSpec_exit (n : Nat) : ∀ (xs : List Id) (o : List Outcome),
    (rextendCloneSpec xs n o).exit = .ret () ∨ (rextendCloneSpec xs n o).exit = .panic false := by
  induction n with
  | zero => intro xs o; simp [rextendCloneSpec]
  | succ n ih =>
    intro xs o
    match o with
    | [] => simp [rextendCloneSpec]
    | .panic :: o => simp [rextendCloneSpec]
    | .ret id :: o => simp only [rextendCloneSpec]; exact ih _ o

theorem rresizeWith_eq (env : Env) (v : Vec) (xs : List Id) (newLen : Nat) (o : List Outcome)
    (hs : v.slots = H (v.cap - v.len) ++ I xs) (hl : xs.length = v.len) :
    rresizeWith env v newLen o =
      .ok ⟨(if newLen > v.len then rgrown env v (newLen - v.len) else v).rafter
              (rresizeWithSpec (rroom env v (newLen - v.len)) env.bombs xs newLen o),
           (rresizeWithSpec (rroom env v (newLen - v.len)) env.bombs xs newLen o).exit,
           (rresizeWithSpec (rroom env v (newLen - v.len)) env.bombs xs newLen o).rest⟩ := by
  unfold rresizeWith rresizeWithSpec
  by_cases h : newLen > v.len
  · have h' : newLen > xs.length := by omega
    simp only [h, h', ↓reduceIte, hl]
    unfold rgrown rroom
    cases hr : rreserve env v (newLen - v.len) with
    | none =>
      simp only [Option.getD_none, Option.isSome_none, rextendCloneSpecR, Bool.false_eq_true, ↓reduceIte, rafter_noop hs hl]
    | some v' =>
      have ⟨g, hc⟩ := rreserve_some hs hl hr
      have hlen := g.len
      simp only [Option.getD_some, Option.isSome_some, rextendCloneSpecR, ↓reduceIte]
      have hloop := rextendWithLoop_eq (newLen - v.len) xs v' o (v'.cap - v'.len) v'.len g.slots (by omega)
      have hrs : v'.rstart - 1 = v'.cap - v'.len - 1 := by simp [Vec.rstart]
      rw [hrs, hloop]
      have ⟨h1, h2, h3, h4⟩ := rextendCloneSpec_length (newLen - v.len) xs o
      simp only
      congr 2
      · apply Vec.eq_of <;> simp [Vec.rafter, setLen, h3, h4, g.dropLog, g.escaped]
        · exact H_congr (by omega)
        · omega
      · rcases rextendCloneSpec_exit (newLen - v.len) xs o with h | h <;> rw [h] <;> rfl
  · have h' : ¬ newLen > xs.length := by omega
    simp only [h, h', ↓reduceIte]
    rw [rtruncate_eq env.bombs v xs newLen hs hl]
    simp only [Vec.rafter]

theorem rpopIf_eq (v : Vec) (xs : List Id) (o : List Outcome)
    (hs : v.slots = H (v.cap - v.len) ++ I xs) (hl : xs.length = v.len) :
    rpopIf v o = .ok ⟨v.rafter (rpopIfSpec xs o), (rpopIfSpec xs o).exit, (rpopIfSpec xs o).rest⟩ := by
  unfold rpopIf rpopIfSpec
  cases xs with
  | nil =>
    have h0 : v.len = 0 := by simpa using hl.symm
    simp only [h0, ↓reduceIte]
    rw [rafter_noop (by simpa using hs) (by simpa using hl)]
  | cons x rest =>
    have h0 : v.len ≠ 0 := by simp at hl; omega
    simp only [h0, ↓reduceIte]
    have hs1 : v.slots = H (v.cap - v.len) ++ Slot.init x :: I rest := by simpa using hs
    rw [peek_mid hs1 (by simp [Vec.rstart])]
    simp only
    match o with
    | [] => simp only [rafter_noop hs hl]
    | .panic :: o => simp only [rafter_noop hs hl]
    | .ret b :: o =>
      by_cases hb : b ≠ 0
      · simp only [hb, ne_eq, not_false_eq_true, ↓reduceIte]
        rw [rpop_eq v (x :: rest) hs hl]
        simp only [rpopSpec]
        congr 2
      · simp only [hb, ↓reduceIte, rafter_noop hs hl]

/-! ## append / into_iter -/

theorem rappend_eq (env : Env) (v other : Vec) (xs ys : List Id)
    (hs : v.slots = H (v.cap - v.len) ++ I xs) (hl : xs.length = v.len)
    (hso : other.slots = I ys ++ H (other.cap - other.len)) (hlo : ys.length = other.len) :
    rappend env v other =
      .ok (⟨(rgrown env v other.len).rafter (rappendSpec (rroom env v other.len) xs ys),
            (rappendSpec (rroom env v other.len) xs ys).exit, []⟩,
           appendedOther (rroom env v other.len) other ys) := by
  have hcapo := seg_len_le_cap hso hlo
  unfold rappend rgrown rroom
  simp only
  cases hr : rreserve env v other.len with
  | none =>
    simp only [Option.getD_none, Option.isSome_none, rappendSpec, Bool.false_eq_true, ↓reduceIte]
    have := dropRange_seg env.bombs ys true (setLen other 0) [] (H (other.cap - other.len)) 0 (by simpa [setLen] using hso) rfl
    rw [← hlo, this]
    simp only [rafter_noop hs hl]
    congr 2
    apply Vec.eq_of <;> simp [appendedOther, setLen]
    rw [← H_add]; congr 1; omega
  | some v' =>
    have ⟨g, hc⟩ := rreserve_some hs hl hr
    have hlen := g.len
    simp only [Option.getD_some, Option.isSome_some, rappendSpec, ↓reduceIte]
    have htake : other.slots.take other.len = I ys := by
      rw [hso, ← hlo]; exact List.take_left' (by simp)
    rw [htake, mapM_init]
    simp only
    have hst : v'.rstart = v'.cap - v'.len := rfl
    rw [if_neg (by rw [hst]; omega)]
    have htk : v'.slots.take v'.rstart = H (v'.cap - v'.len) := by
      rw [g.slots, hst]; exact List.take_left' (by simp)
    have hdr : v'.slots.drop v'.rstart = I xs := by
      rw [g.slots, hst]; exact List.drop_left' (by simp)
    have htk2 : (v'.slots.take v'.rstart).drop (v'.rstart - other.len) = H other.len := by
      rw [htk, hst]; simp only [H, List.drop_replicate]; congr 1; omega
    rw [if_neg (by rw [htk2]; simp)]
    congr 2
    · congr 1
      apply Vec.eq_of <;> simp [Vec.rafter, setLen, g.dropLog, g.escaped, hlen, hl, hlo]
      · have ht3 : v'.slots.take (v'.rstart - other.len) = H (v'.cap - v'.len - other.len) := by
          rw [g.slots, hst]
          rw [List.take_append_of_le_length (by simp)]
          simp only [H, List.take_replicate]; congr 1; omega
        rw [ht3, hdr]
        congr 1
        exact H_congr (by omega)
      · omega
    · apply Vec.eq_of <;> simp [appendedOther, setLen]
      have hd : other.slots.drop other.len = H (other.cap - other.len) := by
        rw [hso, ← hlo]; exact List.drop_left' (by simp)
      rw [hd, ← H_add]; congr 1; omega

theorem rintoIter_eq (bombs : List Id) (v : Vec) (xs : List Id) (script : List Pull)
    (hs : v.slots = H (v.cap - v.len) ++ I xs) (hl : xs.length = v.len) :
    rintoIter bombs v script =
      .ok ⟨v.rafter (intoIterSpec bombs xs script), (intoIterSpec bombs xs script).exit, []⟩ := by
  have hcap := rseg_len_le_cap hs hl
  unfold rintoIter intoIterSpec
  have hs0 : (setLen v 0).slots = H (v.cap - v.len) ++ H 0 ++ I xs ++ H 0 ++ [] := by
    simp only [setLen]; rw [hs]; simp
  obtain ⟨a', b', hp, hab⟩ := drainPulls_eq script (setLen v 0)
    { tailStart := v.cap, tailLen := 0, ptr := v.rstart, end_ := v.cap } (H (v.cap - v.len)) [] 0 0 xs [] hs0
    (by simp [Vec.rstart]) (by simp; omega)
  simp only
  rw [hp]
  obtain ⟨u, hu⟩ : ∃ l, l = (pullsSpec xs script).2 := ⟨_, rfl⟩
  obtain ⟨rs, hrs⟩ : ∃ l, l = (pullsSpec xs script).1 := ⟨_, rfl⟩
  rw [← hu] at hab
  rw [← hu, ← hrs]
  simp only [setLen, List.nil_append, length_H, List.append_nil]
  have e1 : v.cap - v.len + a' + u.length - (v.cap - v.len + a') = u.length := by omega
  rw [e1, dropRange_seg bombs u false _ (H (v.cap - v.len) ++ H a') (H b') (v.cap - v.len + a') (by simp) (by simp)]
  simp only [Bool.not_false, Bool.true_and]
  congr 2
  apply Vec.eq_of <;> simp [Vec.rafter]
  rw [← H_add, ← H_add, ← H_add]; congr 1; simp at hab; omega

end Coll
