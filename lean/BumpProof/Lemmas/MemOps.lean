/-
  Lemmas/MemOps.lean — frame lemmas for the reallocating operations of the model
  (`grow`, `shrink`, `shrinkWithoutShrink`, `shrinkSlice`, `allocatePrepared`, `allocatePreparedSlice`).
-/
import BumpProof.Lemmas.MemAlloc

set_option linter.unusedSimpArgs false

namespace Arena.Mem
open Rs

/-- effect of a reallocation from `ptr` to `np` on memory: the first `n` bytes were carried over and
    no byte outside the new block `[np, np+total)` that belonged to a chunk of `s` changed -/
structure Realloc (s s' : State) (ptr np n total : Nat) : Prop where
  prefix_eq : ∀ k, k < n → readByte s' (np + k) = readByte s (ptr + k)
  frame : ∀ a, (a < np ∨ np + total ≤ a) → InChunks s a → readByte s' a = readByte s a

theorem Realloc.of_memOf {s s' : State} (h : memOf s' = memOf s) (ptr n total : Nat) : Realloc s s' ptr ptr n total :=
  ⟨fun _ _ => readByte_congr h _, fun _ _ _ => readByte_congr h _⟩

theorem Realloc.of_copy {cfg : Cfg} {s s1 s2 : State} {ptr np n total : Nat} {b : Bool}
    (hext : MemExt s s1) (hwf : MemWF s2) (hold : ∀ k, k < n → InChunks s (ptr + k))
    (hcopy : copyBytes cfg s1 ptr np n b = .ok s2) (hn : n ≤ total) : Realloc s s2 ptr np n total := by
  have hwf1 : MemWF s1 := MemWF.of_shape (copyBytes_shape hcopy).symm hwf
  constructor
  · intro k hk
    rw [copyBytes_read_dst hwf1 hcopy hk, hext.readByte (hold k hk)]
  · intro a ha hin
    rw [copyBytes_read_out hcopy (by omega), hext.readByte hin]

theorem Realloc.setCurPos {s s' : State} {ptr np n total : Nat} (h : Realloc s s' ptr np n total) (p : Nat) :
    Realloc s (setCurPos s' p) ptr np n total :=
  ⟨fun k hk => by rw [readByte_setCurPos]; exact h.prefix_eq k hk,
   fun a ha hin => by rw [readByte_setCurPos]; exact h.frame a ha hin⟩

theorem MemWF.of_setCurPos {s : State} {p : Nat} (h : MemWF (setCurPos s p)) : MemWF s :=
  MemWF.of_shape (shapeOf_setCurPos s p).symm h

theorem grow_size_le {cfg : Cfg} {s : State} {ptr oldSize : Nat} {newL : Layout} {x : State × Except AErr Nat}
    (h : grow cfg s ptr oldSize newL = .ok x) : oldSize ≤ newL.size := by
  unfold grow at h
  simp only [bind, Except.bind] at h
  split at h
  · cases h
  · rename_i u hu
    have := liftM_ok hu
    unfold Rs.assert at this
    split at this
    · rename_i hd; exact of_decide_eq_true hd
    · cases this

theorem inAnotherChunk_memExt_pair {cfg : Cfg} {k : Kind} {s s1 : State} {L : Layout} {h : Hints}
    {v : State × Except AErr (Nat × Nat)} {α : Type} {x y : α}
    (hv : inAnotherChunk cfg k s L h = .ok v) (he : (v.fst, x) = (s1, y)) : MemExt s s1 := by
  obtain ⟨v1, v2⟩ := v
  cases he
  exact inAnotherChunk_memExt hv

theorem inAnotherChunk_memExt_fst {cfg : Cfg} {k : Kind} {s : State} {L : Layout} {h : Hints}
    {v : State × Except AErr (Nat × Nat)} (hv : inAnotherChunk cfg k s L h = .ok v) : MemExt s v.fst := by
  obtain ⟨v1, v2⟩ := v
  exact inAnotherChunk_memExt hv

theorem grow_frame {cfg : Cfg} {s s' : State} {ptr oldSize np : Nat} {newL : Layout}
    (hwf : MemWF s') (hold : ∀ k, k < oldSize → InChunks s (ptr + k))
    (h : grow cfg s ptr oldSize newL = .ok (s', .ok np)) : Realloc s s' ptr np oldSize newL.size := by
  have hsz := grow_size_le h
  unfold grow at h
  simp only [bind, Except.bind, pure, Except.pure, throw, throwThe, MonadExceptOf.throw] at h
  repeat' split at h
  all_goals first | (cases h; done) | (cases h)
  all_goals first
    | exact Realloc.of_memOf (memOf_setCurPos _ _) _ _ _
    | exact Realloc.of_copy (alloc_memExt (by assumption)) hwf hold (by assumption) hsz
    | exact Realloc.of_copy (inAnotherChunk_memExt_pair (by assumption) (by assumption)) hwf hold (by assumption) hsz
    | exact (Realloc.of_copy (MemExt.refl _) hwf.of_setCurPos hold (by assumption) hsz).setCurPos _

theorem shrink_frame {cfg : Cfg} {s s' : State} {ptr oldSize np nsize : Nat} {newL : Layout}
    (hwf : MemWF s') (hold : ∀ k, k < newL.size → InChunks s (ptr + k))
    (h : shrink cfg s ptr oldSize newL = .ok (s', .ok (np, nsize))) : Realloc s s' ptr np newL.size nsize := by
  unfold shrink at h
  simp only [bind, Except.bind, pure, Except.pure, throw, throwThe, MonadExceptOf.throw] at h
  repeat' split at h
  all_goals first | (cases h; done) | (cases h)
  all_goals first
    | exact Realloc.of_memOf rfl _ _ _
    | exact Realloc.of_memOf (memOf_setCurPos _ _) _ _ _
    | exact Realloc.of_copy (alloc_memExt (by assumption)) hwf hold (by assumption) (Nat.le_refl _)
    | exact (Realloc.of_copy (MemExt.refl _) hwf.of_setCurPos hold (by assumption) (Nat.le_refl _)).setCurPos _
    | exact Realloc.of_copy (MemExt.of_eq ((tryCur_memOf (by assumption)).trans (deallocAssumeLast_memOf (by assumption))))
        hwf hold (by assumption) (Nat.le_refl _)
    | exact Realloc.of_copy
        ((MemExt.of_eq ((memOf_setCurPos _ _).trans (deallocAssumeLast_memOf (by assumption)))).trans
          (inAnotherChunk_memExt_fst (by assumption)))
        hwf hold (by assumption) (Nat.le_refl _)

theorem shrinkWithoutShrink_frame {cfg : Cfg} {s s' : State} {ptr oldSize np nsize : Nat} {newL : Layout}
    (hwf : MemWF s') (hold : ∀ k, k < newL.size → InChunks s (ptr + k))
    (h : shrinkWithoutShrink cfg s ptr oldSize newL = .ok (s', .ok (np, nsize))) :
    Realloc s s' ptr np newL.size nsize ∧ nsize = newL.size := by
  unfold shrinkWithoutShrink at h
  simp only [bind, Except.bind, pure, Except.pure, throw, throwThe, MonadExceptOf.throw] at h
  repeat' split at h
  all_goals first | (cases h; done) | (cases h)
  all_goals refine ⟨?_, rfl⟩
  all_goals first
    | exact Realloc.of_memOf rfl _ _ _
    | exact Realloc.of_copy (alloc_memExt (by assumption)) hwf hold (by assumption) (Nat.le_refl _)

theorem shrinkSlice_frame {cfg : Cfg} {s s' : State} {ptr oldSize newSize ealign np : Nat}
    (hwf : MemWF s') (hold : ∀ k, k < newSize → InChunks s (ptr + k))
    (h : shrinkSlice cfg s ptr oldSize newSize ealign = .ok (s', some np)) :
    Realloc s s' ptr np newSize newSize := by
  unfold shrinkSlice at h
  simp only [bind, Except.bind, pure, Except.pure, throw, throwThe, MonadExceptOf.throw] at h
  repeat' split at h
  all_goals first | (cases h; done) | (cases h)
  all_goals first
    | exact Realloc.of_memOf (memOf_setCurPos _ _) _ _ _
    | exact (Realloc.of_copy (MemExt.refl _) hwf.of_setCurPos hold (by assumption) (Nat.le_refl _)).setCurPos _

/-- `shrinkSlice` that declines (`none`) leaves the whole state alone -/
theorem shrinkSlice_none {cfg : Cfg} {s s' : State} {ptr oldSize newSize ealign : Nat}
    (h : shrinkSlice cfg s ptr oldSize newSize ealign = .ok (s', none)) : s' = s := by
  unfold shrinkSlice at h
  simp only [bind, Except.bind, pure, Except.pure, throw, throwThe, MonadExceptOf.throw] at h
  repeat' split at h
  all_goals first | (cases h; done) | (cases h)
  all_goals rfl

theorem setPosAlignFrom_memOf {cfg : Cfg} {s s' : State} {pos posAlign : Nat}
    (h : setPosAlignFrom cfg s pos posAlign = .ok s') : memOf s' = memOf s := by
  unfold setPosAlignFrom at h
  split_ok h with exact memOf_setCurPos _ _

theorem Realloc.of_memOf_right {s s1 s' : State} {ptr np n total : Nat} (h : Realloc s s1 ptr np n total)
    (hm : memOf s' = memOf s1) : Realloc s s' ptr np n total :=
  ⟨fun k hk => by rw [readByte_congr hm]; exact h.prefix_eq k hk,
   fun a ha hin => by rw [readByte_congr hm]; exact h.frame a ha hin⟩

theorem liftM_sub_ok {a b v : Nat} (h : liftM (Rs.sub a b) = .ok v) : v = a - b ∧ b ≤ a := by
  have := liftM_ok h
  unfold Rs.sub at this
  split at this
  · cases this; exact ⟨rfl, by assumption⟩
  · cases this

theorem allocatePrepared_frame {cfg : Cfg} {s s' : State} {size rstart rend addr : Nat} {rev : Bool}
    (hwf : MemWF s') (hold : ∀ k, k < size → InChunks s ((if rev then rend - size else rstart) + k))
    (h : allocatePrepared cfg s size rstart rend rev = .ok (s', addr)) :
    Realloc s s' (if rev then rend - size else rstart) addr size size := by
  unfold allocatePrepared at h
  cases rev
  all_goals simp only [bind, Except.bind, pure, Except.pure, throw, throwThe, MonadExceptOf.throw,
    Bool.false_eq_true, ↓reduceIte] at h hold ⊢
  all_goals repeat' split at h
  all_goals first | (cases h; done) | (cases h)
  all_goals first
    | exact Realloc.of_memOf (memOf_setCurPos _ _) _ _ _
    | exact (Realloc.of_copy (MemExt.refl _) hwf.of_setCurPos hold (by assumption) (Nat.le_refl _)).setCurPos _
    | (have e := (liftM_sub_ok (by assumption)).1
       subst e
       exact Realloc.of_memOf (memOf_setCurPos _ _) _ _ _)

theorem allocatePreparedSlice_frame {cfg : Cfg} {s s' : State} {ptr len cap esize ealign addr : Nat} {rev : Bool}
    (hwf : MemWF s')
    (hold : ∀ k, k < len * esize → InChunks s ((if rev then ptr - len * esize else ptr) + k))
    (h : allocatePreparedSlice cfg s ptr len cap esize ealign rev = .ok (s', addr)) :
    Realloc s s' (if rev then ptr - len * esize else ptr) addr (len * esize) (len * esize) := by
  unfold allocatePreparedSlice at h
  cases rev
  all_goals simp only [bind, Except.bind, pure, Except.pure, throw, throwThe, MonadExceptOf.throw,
    Bool.false_eq_true, ↓reduceIte, Bool.not_false, Bool.not_true] at h hold ⊢
  all_goals repeat' split at h
  all_goals first | (cases h; done) | (cases h)
  all_goals first
    | exact Realloc.of_memOf (setPosAlignFrom_memOf (by assumption)) _ _ _
    | exact (Realloc.of_copy (MemExt.refl _)
        (MemWF.of_shape (shapeOf_of_memOf (setPosAlignFrom_memOf (by assumption))).symm hwf) hold (by assumption)
        (Nat.le_refl _)).of_memOf_right (setPosAlignFrom_memOf (by assumption))

end Arena.Mem
