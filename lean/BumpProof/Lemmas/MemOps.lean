/-
  Lemmas/MemOps.lean — frame lemmas for the reallocating operations of the model
  (`grow`, `shrink`, `shrinkWithoutShrink`, `shrinkSlice`, `allocatePrepared`, `allocatePreparedSlice`).
-/
import BumpProof.Lemmas.MemAlloc

namespace Arena
open Rs

/-- effect of a reallocation from `ptr` to `np` on memory: the first `n` bytes were carried over and
    no byte outside the new block `[np, np+total)` that belonged to a chunk of `s` changed -/
structure Realloc (s s' : State) (ptr np n total : Nat) : Prop where
  prefix_eq : ∀ k, k < n → readByte s' (np + k) = readByte s (ptr + k)
  frame : ∀ a, (a < np ∨ np + total ≤ a) → InChunks s a → readByte s' a = readByte s a

theorem Realloc.of_memOf {s s' : State} (h : memOf s' = memOf s) (ptr n total : Nat) : Realloc s s' ptr ptr n total :=
  ⟨fun _ _ => readByte_congr h _, fun _ _ _ => readByte_congr h _⟩

theorem Realloc.of_copy {cfg : Cfg} {s s1 s2 : State} {ptr np n total : Nat} {b : Bool}
    (hext : MemExt s s1) (hwf : MemWF s2) (hold : ∀ k, k < n → InChunks s (ptr + k))
    (hcopy : copyBytes cfg s1 ptr np n b = .ok s2) (hn : n ≤ total) : Realloc s s2 ptr np n total := by
  have hwf1 : MemWF s1 := MemWF.of_shape (copyBytes_shape hcopy).symm hwf
  constructor
  · intro k hk
    rw [copyBytes_read_dst hwf1 hcopy hk, hext.readByte (hold k hk)]
  · intro a ha hin
    rw [copyBytes_read_out hcopy (by omega), hext.readByte hin]

theorem Realloc.setCurPos {s s' : State} {ptr np n total : Nat} (h : Realloc s s' ptr np n total) (p : Nat) :
    Realloc s (setCurPos s' p) ptr np n total :=
  ⟨fun k hk => by rw [readByte_setCurPos]; exact h.prefix_eq k hk,
   fun a ha hin => by rw [readByte_setCurPos]; exact h.frame a ha hin⟩

theorem MemWF.of_setCurPos {s : State} {p : Nat} (h : MemWF (setCurPos s p)) : MemWF s :=
  MemWF.of_shape (shapeOf_setCurPos s p).symm h

theorem grow_size_le {cfg : Cfg} {s : State} {ptr oldSize : Nat} {newL : Layout} {x : State × Except AErr Nat}
    (h : grow cfg s ptr oldSize newL = .ok x) : oldSize ≤ newL.size := by
  unfold grow at h
  simp only [bind, Except.bind] at h
  split at h
  · cases h
  · rename_i u hu
    have := liftM_ok hu
    unfold Rs.assert at this
    split at this
    · rename_i hd; exact of_decide_eq_true hd
    · cases this

theorem inAnotherChunk_memExt_pair {cfg : Cfg} {k : Kind} {s s1 : State} {L : Layout} {h : Hints}
    {v : State × Except AErr (Nat × Nat)} {α : Type} {x y : α}
    (hv : inAnotherChunk cfg k s L h = .ok v) (he : (v.fst, x) = (s1, y)) : MemExt s s1 := by
  obtain ⟨v1, v2⟩ := v
  cases he
  exact inAnotherChunk_memExt hv

theorem grow_frame {cfg : Cfg} {s s' : State} {ptr oldSize np : Nat} {newL : Layout}
    (hwf : MemWF s') (hold : ∀ k, k < oldSize → InChunks s (ptr + k))
    (h : grow cfg s ptr oldSize newL = .ok (s', .ok np)) : Realloc s s' ptr np oldSize newL.size := by
  have hsz := grow_size_le h
  unfold grow at h
  simp only [bind, Except.bind, pure, Except.pure, throw, throwThe, MonadExceptOf.throw] at h
  repeat' split at h
  all_goals first | (cases h; done) | (cases h)
  all_goals first
    | exact Realloc.of_memOf (memOf_setCurPos _ _) _ _ _
    | exact Realloc.of_copy (alloc_memExt (by assumption)) hwf hold (by assumption) hsz
    | exact Realloc.of_copy (inAnotherChunk_memExt_pair (by assumption) (by assumption)) hwf hold (by assumption) hsz
    | exact (Realloc.of_copy (MemExt.refl _) hwf.of_setCurPos hold (by assumption) hsz).setCurPos _

end Arena
