/-
  Lemmas/MemFresh.lean — the allocation paths keep the chunk list well-formed (`MemWF`) provided the
  next base-allocator response does not overlap an existing chunk (`HeadFresh`).
-/
import BumpProof.Lemmas.MemOps

set_option linter.unusedSimpArgs false

namespace Arena.Mem
open Rs

theorem down_align_le {a al r : Nat} (h : Gen.SizeConfig.down_align a al = .ok r) : r ≤ a := by
  unfold Gen.SizeConfig.down_align at h
  simp only [bind, Except.bind, pure, Except.pure] at h
  repeat' split at h
  all_goals first | (cases h; done) | (cases h)
  exact Nat.and_le_left

theorem align_size_le {c : Gen.SizeConfig.ChunkSizeConfig} {g r : Nat}
    (h : Gen.SizeConfig.align_size c g = .ok r) : r ≤ g := by
  unfold Gen.SizeConfig.align_size at h
  simp only [bind, Except.bind] at h
  split at h
  · exact down_align_le h
  · split at h
    · cases h
    · exact down_align_le h

/-- the next response of the base allocator (if it grants memory) does not overlap any chunk -/
def HeadFresh (s : State) : Prop :=
  ∀ p g rest, s.resps = .granted p g :: rest → ∀ x ∈ shapeOf s, p + g ≤ x.1 ∨ x.1 + x.2.1 ≤ p

/-- same chunk shapes, same pending responses -/
def ShapeSame (s s' : State) : Prop := shapeOf s' = shapeOf s ∧ s'.resps = s.resps

/-- well-formedness is carried from `s` to `s'` -/
def WFPres (s s' : State) : Prop := MemWF s → HeadFresh s → MemWF s'

theorem ShapeSame.refl (s : State) : ShapeSame s s := ⟨rfl, rfl⟩
theorem ShapeSame.trans {s t u : State} (h1 : ShapeSame s t) (h2 : ShapeSame t u) : ShapeSame s u :=
  ⟨h2.1.trans h1.1, h2.2.trans h1.2⟩
theorem ShapeSame.wfPres {s s' : State} (h : ShapeSame s s') : WFPres s s' :=
  fun hw _ => MemWF.of_shape h.1 hw
theorem WFPres.refl (s : State) : WFPres s s := fun h _ => h
theorem WFPres.same_left {s t u : State} (h1 : ShapeSame s t) (h2 : WFPres t u) : WFPres s u := by
  intro hw hf
  refine h2 (MemWF.of_shape h1.1 hw) ?_
  intro p g rest hr x hx
  rw [h1.2] at hr
  rw [h1.1] at hx
  exact hf p g rest hr x hx
theorem WFPres.shape_right {s t u : State} (h1 : WFPres s t) (h2 : shapeOf u = shapeOf t) : WFPres s u :=
  fun hw hf => MemWF.of_shape h2 (h1 hw hf)

theorem ShapeSame.setCurPos (s : State) (p : Nat) : ShapeSame s (setCurPos s p) := by
  refine ⟨shapeOf_setCurPos s p, ?_⟩
  unfold Arena.setCurPos
  split <;> rfl

theorem tryCur_shapeSame {cfg : Cfg} {k : Kind} {s s' : State} {L : Layout} {h : Hints} {v : Nat × Nat}
    (hr : tryCur cfg k s L h = .ok (some (v, s'))) : ShapeSame s s' := by
  rcases tryCur_state hr with rfl | ⟨p, rfl⟩
  · exact ShapeSame.refl _
  · exact ShapeSame.setCurPos s p

theorem newChunk_wfPres {cfg : Cfg} {s s' : State} {size : Nat} {r : Except AErr Nat}
    (h : newChunk cfg s size = .ok (s', r)) : WFPres s s' := by
  rcases newChunk_ok h with ⟨hc, _⟩ | ⟨p, g, rest, size', hresp, hal, _, _, hc⟩
  · intro hw _
    exact MemWF.of_shape (by unfold shapeOf; rw [hc]) hw
  · intro hw hf
    have hle := align_size_le hal
    have hfr := hf p g rest hresp
    unfold MemWF ChunksDisjoint DataOK at hw ⊢
    rw [hc]
    constructor
    · rw [List.pairwise_append]
      refine ⟨hw.1, List.pairwise_singleton _ _, ?_⟩
      intro c hcm d hd
      simp only [List.mem_singleton] at hd
      subst hd
      have := hfr c.memShape (List.mem_map_of_mem hcm)
      simp only [freshChunk, Chunk.memShape] at this ⊢
      omega
    · intro c hcm
      rcases List.mem_append.mp hcm with h1 | h1
      · exact hw.2 c h1
      · simp only [List.mem_singleton] at h1
        subst h1
        simp [freshChunk]

theorem newChunkForCapacity_wfPres {cfg : Cfg} {s s' : State} {L : Layout} {r : Except AErr Nat}
    (h : newChunkForCapacity cfg s L = .ok (s', r)) : WFPres s s' := by
  unfold newChunkForCapacity at h
  simp only [bind, Except.bind, pure, Except.pure] at h
  split at h
  · cases h
  · split at h
    · cases h; exact WFPres.refl _
    · split at h
      · cases h
      · split at h
        · cases h; exact WFPres.refl _
        · exact newChunk_wfPres h

theorem appendFor_wfPres {cfg : Cfg} {s s' : State} {L : Layout} {r : Except AErr Nat}
    (h : appendFor cfg s L = .ok (s', r)) : WFPres s s' := by
  unfold appendFor at h
  simp only [bind, Except.bind, pure, Except.pure] at h
  split at h
  · cases h
  · split at h
    · cases h
    · split at h
      · cases h; exact WFPres.refl _
      · split at h
        · cases h; exact WFPres.refl _
        · split at h
          · cases h
          · split at h
            · cases h; exact WFPres.refl _
            · exact newChunk_wfPres h

theorem walkNext_shapeSame {cfg : Cfg} {k : Kind} {L : Layout} {h : Hints} (fuel : Nat) :
    ∀ (i : Nat) (s : State) (r : Option ((Nat × Nat) × State)) (s2 : State),
      walkNext cfg k L h fuel i s = .ok (r, s2) →
      ShapeSame s s2 ∧ ∀ v s', r = some (v, s') → ShapeSame s s' := by
  induction fuel with
  | zero =>
    intro i s r s2 hw
    unfold walkNext at hw
    cases hw
    exact ⟨ShapeSame.refl _, fun _ _ h => by cases h⟩
  | succ n ih =>
    intro i s r s2 hw
    unfold walkNext at hw
    split at hw
    · cases hw
      exact ⟨ShapeSame.refl _, fun _ _ h => by cases h⟩
    · rename_i c hc
      simp only [bind, Except.bind, pure, Except.pure] at hw
      have hm : ShapeSame s { s with chunks := s.chunks.set (i+1) (c.resetPos cfg), cur := .chunk (i+1) } :=
        ⟨shapeOf_of_memOf (memOf_set_resetPos cfg s (i+1) c hc (.chunk (i+1))), rfl⟩
      split at hw
      · cases hw
      · rename_i o ho
        split at hw
        · rename_i x
          cases hw
          obtain ⟨v, s'⟩ := x
          have := tryCur_shapeSame ho
          exact ⟨hm.trans this, fun v' s'' h => by cases h; exact hm.trans this⟩
        · have := ih _ _ _ _ hw
          exact ⟨hm.trans this.1, fun v s' h => hm.trans (this.2 v s' h)⟩

theorem shapeSame_with_cur (s : State) (c : Cur) : ShapeSame s { s with cur := c } := ⟨rfl, rfl⟩

theorem inAnotherChunk_wfPres {cfg : Cfg} {k : Kind} {s s' : State} {L : Layout} {h : Hints}
    {r : Except AErr (Nat × Nat)} (hr : inAnotherChunk cfg k s L h = .ok (s', r)) : WFPres s s' := by
  unfold inAnotherChunk at hr
  simp only [bind, Except.bind, pure, Except.pure] at hr
  split at hr
  · cases hr; exact WFPres.refl _
  · split at hr
    · cases hr
    · rename_i x hx
      have hx' : WFPres s x.1 := newChunkForCapacity_wfPres (r := x.2) (by rw [hx])
      obtain ⟨x1, x2⟩ := x
      cases x2 with
      | error e => simp only at hr; cases hr; exact hx'
      | ok i =>
        simp only at hr
        split at hr
        · cases hr
        · rename_i v hv
          split at hr
          · cases hr
            have h3 := tryCur_shapeSame hv
            have h1 : WFPres s x1 := hx'
            exact h1.shape_right h3.1
          · cases hr
  · rename_i i
    split at hr
    · cases hr
    · rename_i w hw
      obtain ⟨wr, ws⟩ := w
      have hwm := walkNext_shapeSame _ _ _ _ _ hw
      split at hr
      · rename_i v s1 _ heq
        cases hr
        cases heq
        exact (hwm.2 _ _ rfl).wfPres
      · rename_i s1 heq
        cases heq
        split at hr
        · cases hr
        · rename_i x hx
          have hx' : WFPres s x.1 :=
            WFPres.same_left hwm.1 (appendFor_wfPres (r := x.2) (by rw [hx]))
          obtain ⟨x1, x2⟩ := x
          cases x2 with
          | error e => simp only at hr; cases hr; exact hx'
          | ok i =>
            simp only at hr
            split at hr
            · cases hr
            · rename_i v hv
              split at hr
              · cases hr
                have h3 := tryCur_shapeSame hv
                have h1 : WFPres s x1 := hx'
                exact h1.shape_right h3.1
              · cases hr

theorem inAnotherChunk_wfPres_fst {cfg : Cfg} {k : Kind} {s : State} {L : Layout} {h : Hints}
    {v : State × Except AErr (Nat × Nat)} (hv : inAnotherChunk cfg k s L h = .ok v) : WFPres s v.fst := by
  obtain ⟨v1, v2⟩ := v
  exact inAnotherChunk_wfPres hv

theorem allocGeneric_wfPres {cfg : Cfg} {k : Kind} {s s' : State} {L : Layout} {h hSlow : Hints}
    {r : Except AErr (Nat × Nat)} (hr : allocGeneric cfg k s L h hSlow = .ok (s', r)) : WFPres s s' := by
  unfold allocGeneric at hr
  simp only [bind, Except.bind, pure, Except.pure] at hr
  split at hr
  · cases hr
  · rename_i o ho
    split at hr
    · cases hr
      exact (tryCur_shapeSame ho).wfPres
    · exact inAnotherChunk_wfPres hr

/-- `alloc` keeps the chunk list well-formed when the base allocator hands out fresh memory -/
theorem alloc_wfPres {cfg : Cfg} {s s' : State} {L : Layout} {r : Except AErr Nat}
    (hr : alloc cfg s L = .ok (s', r)) : WFPres s s' := by
  unfold alloc at hr
  simp only [bind, Except.bind, pure, Except.pure] at hr
  split at hr
  · cases hr
  · rename_i x hx
    obtain ⟨x1, x2⟩ := x
    cases hr
    exact allocGeneric_wfPres hx

theorem copyBytes_shapeSame {cfg : Cfg} {s s' : State} {src dst len : Nat} {b : Bool}
    (h : copyBytes cfg s src dst len b = .ok s') : ShapeSame s s' := by
  refine ⟨copyBytes_shape h, ?_⟩
  have := (copyBytes_onlyData h).1
  rw [this]

theorem inAnotherChunk_wfPres_pair {cfg : Cfg} {k : Kind} {s s1 : State} {L : Layout} {h : Hints}
    {v : State × Except AErr (Nat × Nat)} {α : Type} {x y : α}
    (hv : inAnotherChunk cfg k s L h = .ok v) (he : (v.fst, x) = (s1, y)) : WFPres s s1 := by
  obtain ⟨v1, v2⟩ := v
  cases he
  exact inAnotherChunk_wfPres hv

theorem deallocAssumeLast_shapeSame {cfg : Cfg} {s s' : State} {ptr size : Nat}
    (h : deallocAssumeLast cfg s ptr size = .ok s') : ShapeSame s s' := by
  unfold deallocAssumeLast at h
  split_ok h with first | exact ShapeSame.refl _ | exact ShapeSame.setCurPos _ _

theorem grow_wfPres {cfg : Cfg} {s s' : State} {ptr oldSize : Nat} {newL : Layout} {r : Except AErr Nat}
    (h : grow cfg s ptr oldSize newL = .ok (s', r)) : WFPres s s' := by
  unfold grow at h
  simp only [bind, Except.bind, pure, Except.pure, throw, throwThe, MonadExceptOf.throw] at h
  repeat' split at h
  all_goals first | (cases h; done) | (cases h)
  all_goals first
    | exact (ShapeSame.setCurPos _ _).wfPres
    | exact alloc_wfPres (by assumption)
    | exact (alloc_wfPres (by assumption)).shape_right (copyBytes_shape (by assumption))
    | exact inAnotherChunk_wfPres_pair (by assumption) (by assumption)
    | exact (inAnotherChunk_wfPres_pair (by assumption) (by assumption)).shape_right (copyBytes_shape (by assumption))
    | exact ((copyBytes_shapeSame (by assumption)).trans (ShapeSame.setCurPos _ _)).wfPres

theorem shrink_wfPres {cfg : Cfg} {s s' : State} {ptr oldSize : Nat} {newL : Layout} {r : Except AErr (Nat × Nat)}
    (h : shrink cfg s ptr oldSize newL = .ok (s', r)) : WFPres s s' := by
  unfold shrink at h
  simp only [bind, Except.bind, pure, Except.pure, throw, throwThe, MonadExceptOf.throw] at h
  repeat' split at h
  all_goals first | (cases h; done) | (cases h)
  all_goals first
    | exact WFPres.refl _
    | exact (ShapeSame.setCurPos _ _).wfPres
    | exact alloc_wfPres (by assumption)
    | exact (alloc_wfPres (by assumption)).shape_right (copyBytes_shape (by assumption))
    | exact ((copyBytes_shapeSame (by assumption)).trans (ShapeSame.setCurPos _ _)).wfPres
    | exact (((deallocAssumeLast_shapeSame (by assumption)).trans (tryCur_shapeSame (by assumption))).trans
        (copyBytes_shapeSame (by assumption))).wfPres
    | exact WFPres.same_left ((deallocAssumeLast_shapeSame (by assumption)).trans (ShapeSame.setCurPos _ _))
        (inAnotherChunk_wfPres_fst (by assumption))
    | exact (WFPres.same_left ((deallocAssumeLast_shapeSame (by assumption)).trans (ShapeSame.setCurPos _ _))
        (inAnotherChunk_wfPres_fst (by assumption))).shape_right (copyBytes_shape (by assumption))

theorem shrinkWithoutShrink_wfPres {cfg : Cfg} {s s' : State} {ptr oldSize : Nat} {newL : Layout}
    {r : Except AErr (Nat × Nat)} (h : shrinkWithoutShrink cfg s ptr oldSize newL = .ok (s', r)) : WFPres s s' := by
  unfold shrinkWithoutShrink at h
  simp only [bind, Except.bind, pure, Except.pure, throw, throwThe, MonadExceptOf.throw] at h
  repeat' split at h
  all_goals first | (cases h; done) | (cases h)
  all_goals first
    | exact WFPres.refl _
    | exact alloc_wfPres (by assumption)
    | exact (alloc_wfPres (by assumption)).shape_right (copyBytes_shape (by assumption))

theorem shrinkSlice_shapeSame {cfg : Cfg} {s s' : State} {ptr oldSize newSize ealign : Nat} {r : Option Nat}
    (h : shrinkSlice cfg s ptr oldSize newSize ealign = .ok (s', r)) : ShapeSame s s' := by
  unfold shrinkSlice at h
  simp only [bind, Except.bind, pure, Except.pure, throw, throwThe, MonadExceptOf.throw] at h
  repeat' split at h
  all_goals first | (cases h; done) | (cases h)
  all_goals first
    | exact ShapeSame.refl _
    | exact ShapeSame.setCurPos _ _
    | exact (copyBytes_shapeSame (by assumption)).trans (ShapeSame.setCurPos _ _)

theorem setPosAlignFrom_shapeSame {cfg : Cfg} {s s' : State} {pos posAlign : Nat}
    (h : setPosAlignFrom cfg s pos posAlign = .ok s') : ShapeSame s s' := by
  unfold setPosAlignFrom at h
  split_ok h with exact ShapeSame.setCurPos _ _

theorem allocatePrepared_shapeSame {cfg : Cfg} {s s' : State} {size rstart rend addr : Nat} {rev : Bool}
    (h : allocatePrepared cfg s size rstart rend rev = .ok (s', addr)) : ShapeSame s s' := by
  unfold allocatePrepared at h
  simp only [bind, Except.bind, pure, Except.pure, throw, throwThe, MonadExceptOf.throw] at h
  repeat' split at h
  all_goals first | (cases h; done) | (cases h)
  all_goals first
    | exact ShapeSame.setCurPos _ _
    | exact (copyBytes_shapeSame (by assumption)).trans (ShapeSame.setCurPos _ _)

theorem allocatePreparedSlice_shapeSame {cfg : Cfg} {s s' : State} {ptr len cap esize ealign addr : Nat} {rev : Bool}
    (h : allocatePreparedSlice cfg s ptr len cap esize ealign rev = .ok (s', addr)) : ShapeSame s s' := by
  unfold allocatePreparedSlice at h
  simp only [bind, Except.bind, pure, Except.pure, throw, throwThe, MonadExceptOf.throw] at h
  repeat' split at h
  all_goals first | (cases h; done) | (cases h)
  all_goals first
    | exact setPosAlignFrom_shapeSame (by assumption)
    | exact (copyBytes_shapeSame (by assumption)).trans (setPosAlignFrom_shapeSame (by assumption))

/-- what a sane base allocator answers: non-null 16-aligned blocks that do not wrap, do not overlap
    a chunk of the arena or each other -/
def RespsSane (cfg : Cfg) (s : State) (resps : List BaseResp) : Prop :=
  (∀ p g, BaseResp.granted p g ∈ resps → p ≠ 0 ∧ 16 ∣ p ∧ cfg.hdr.align ∣ p ∧ p + g < 2 ^ 64 ∧
      ∀ c ∈ s.chunks, p + g ≤ c.base ∨ c.base + c.size ≤ p) ∧
  resps.Pairwise (fun a b => match a, b with
    | .granted p g, .granted q k => p + g ≤ q ∨ q + k ≤ p
    | _, _ => True)


end Arena.Mem
