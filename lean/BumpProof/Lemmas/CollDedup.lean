/-
  Lemmas/CollDedup.lean — `Coll.dedupBy` (cursor/guard model of `BumpBox<[T]>::dedup_by`) computes
  `Coll.dedupSpec` on every well-formed vector, for every oracle and every set of panicking drops.
-/
import BumpProof.Coll.Spec
import BumpProof.Lemmas.CollPrim
import BumpProof.Lemmas.CollRetain

namespace Coll

/-- `FillGapOnDrop::drop` on a segmented buffer -/
theorem dedupGuard_seg {v : Vec} {kept rest : List Id} {k read write : Nat} {T : List Slot}
    (hs : v.slots = I kept ++ H k ++ I rest ++ T) (hr : read = kept.length + k) (hw : write = kept.length)
    (hl : v.len = read + rest.length) :
    dedupGuard v read write =
      .ok { v with slots := I (kept ++ rest) ++ H k ++ T, len := kept.length + rest.length } := by
  unfold dedupGuard
  have hrem : v.len - read = (I rest).length := by simp; omega
  simp only [hrem]
  rw [copy_back hs (by simp [hr]) (by simp [hw]) rfl]
  simp only [setLen, I_append]
  congr 2
  omega

/-- the loop of `dedup_by` = `sieve (· == 0)`; `k` holes lie between the cursors (`k = 0` at the start) -/
theorem dedupLoop_eq (bombs : List Id) (rest : List Id) :
    ∀ (kept : List Id) (k : Nat) (T : List Slot) (v : Vec) (o : List Outcome),
      v.slots = I kept ++ H k ++ I rest ++ T → kept ≠ [] → v.len = kept.length + k + rest.length →
      dedupLoop bombs rest.length v (kept.length + k) kept.length o =
        .ok ⟨{ v with slots := I (sieve (· == 0) bombs kept rest o).final ++ H (v.len - (sieve (· == 0) bombs kept rest o).final.length) ++ T,
                      len := (sieve (· == 0) bombs kept rest o).final.length,
                      dropLog := v.dropLog ++ (sieve (· == 0) bombs kept rest o).dropped },
             (sieve (· == 0) bombs kept rest o).exit, (sieve (· == 0) bombs kept rest o).rest⟩ := by
  induction rest with
  | nil =>
    intro kept k T v o hs _ hl
    simp only [List.length_nil, Nat.add_zero] at hl
    have : v.len - kept.length = k := by omega
    simp only [List.length_nil, dedupLoop, sieve, setLen, List.append_nil, this]
    congr 2
    simp [hs]
  | cons x rest ih =>
    intro kept k T v o hs hne hl
    simp only [List.length_cons] at hl
    have hs1 : v.slots = (I kept ++ H k) ++ Slot.init x :: (I rest ++ T) := by simp [hs]
    have hpeek : peek v (kept.length + k) = .ok x := peek_mid hs1 (by simp)
    -- the previous kept element
    obtain ⟨kinit, klast, hk⟩ : ∃ a b, kept = a ++ [b] := by
      refine ⟨kept.dropLast, kept.getLast hne, ?_⟩
      exact (List.dropLast_concat_getLast hne).symm
    have hs0 : v.slots = I kinit ++ Slot.init klast :: (H k ++ I (x :: rest) ++ T) := by
      simp [hs, hk]
    have hpeek2 : peek v (kept.length - 1) = .ok klast := peek_mid hs0 (by simp [hk])
    simp only [List.length_cons, dedupLoop, hpeek, hpeek2]
    have hguard := dedupGuard_seg (v := v) (kept := kept) (rest := x :: rest) (k := k)
      (read := kept.length + k) (write := kept.length) (T := T) hs rfl rfl (by simp; omega)
    have hgap : v.len - (kept ++ x :: rest).length = k := by simp; omega
    match o with
    | [] =>
      simp only [sieve, hguard, Except.map, hgap]
      simp
    | .panic :: o =>
      simp only [sieve, hguard, Except.map, hgap]
      simp
    | .ret b :: o =>
      have hs2 : (I kept ++ H k) ++ Slot.hole :: (I rest ++ T) = I kept ++ H (k + 1) ++ I rest ++ T := by
        simp
      by_cases hb : b = 0
      · -- not a duplicate: keep
        simp only [hb, ne_eq, not_true_eq_false, ↓reduceIte, sieve, BEq.rfl]
        have hs3 : v.slots = I kept ++ H k ++ [Slot.init x] ++ (I rest ++ T) := by simp [hs]
        rw [copy_back hs3 (by simp) (by simp) (by simp)]
        have hs4 : I kept ++ [Slot.init x] ++ H k ++ (I rest ++ T) = I (kept ++ [x]) ++ H k ++ I rest ++ T := by
          simp
        have := ih (kept ++ [x]) k T { v with slots := I kept ++ [Slot.init x] ++ H k ++ (I rest ++ T) } o hs4
          (by simp) (by simp; omega)
        have e1 : kept.length + k + 1 = (kept ++ [x]).length + k := by simp; omega
        have e2 : kept.length + 1 = (kept ++ [x]).length := by simp
        simp only [e1, e2, this]
      · -- duplicate: drop it
        have hk0 : (b == 0) = false := by simp [hb]
        simp only [hb, ne_eq, not_false_eq_true, ↓reduceIte, sieve, hk0, Bool.false_eq_true]
        rw [dropAt_mid hs1 (by simp)]
        simp only [Bool.not_false, Bool.true_and]
        by_cases hbomb : bombs.contains x = true
        · simp only [hbomb, ↓reduceIte]
          have hg := dedupGuard_seg (v := { v with slots := (I kept ++ H k) ++ Slot.hole :: (I rest ++ T), dropLog := v.dropLog ++ [x] })
            (kept := kept) (rest := rest) (k := k + 1)
            (read := kept.length + k + 1) (write := kept.length) (T := T) hs2 (by omega) rfl
            (by simp; omega)
          have hgap2 : v.len - (kept ++ rest).length = k + 1 := by simp; omega
          rw [hg]
          simp only [Except.map, hgap2]
          simp
        · simp only [hbomb, Bool.false_eq_true, ↓reduceIte]
          have := ih kept (k + 1) T { v with slots := (I kept ++ H k) ++ Slot.hole :: (I rest ++ T), dropLog := v.dropLog ++ [x] }
            o hs2 hne (by simp; omega)
          have e : kept.length + k + 1 = kept.length + (k + 1) := by omega
          rw [e, this]
          simp

/-- the ghost trace of the loop = the list-level calls: each inspected element goes with the last RETAINED one -/
theorem dedupCallsLoop_eq (bombs : List Id) (rest : List Id) :
    ∀ (kinit : List Id) (klast : Id) (k : Nat) (T : List Slot) (v : Vec) (o : List Outcome),
      v.slots = I (kinit ++ [klast]) ++ H k ++ I rest ++ T →
      dedupCallsLoop bombs rest.length v ((kinit ++ [klast]).length + k) (kinit ++ [klast]).length o =
        dedupCallsSpec bombs klast rest o := by
  induction rest with
  | nil => intro kinit klast k T v o _; simp [dedupCallsLoop, dedupCallsSpec]
  | cons x rest ih =>
    intro kinit klast k T v o hs
    have hs1 : v.slots = (I (kinit ++ [klast]) ++ H k) ++ Slot.init x :: (I rest ++ T) := by simp [hs]
    have hpeek : peek v ((kinit ++ [klast]).length + k) = .ok x := peek_mid hs1 (by simp <;> omega)
    have hs0 : v.slots = I kinit ++ Slot.init klast :: (H k ++ I (x :: rest) ++ T) := by simp [hs]
    have hpeek2 : peek v ((kinit ++ [klast]).length - 1) = .ok klast := peek_mid hs0 (by simp)
    simp only [List.length_cons, dedupCallsLoop, hpeek, hpeek2]
    match o with
    | [] => simp [dedupCallsSpec]
    | .panic :: o => simp [dedupCallsSpec]
    | .ret b :: o =>
      simp only [dedupCallsSpec]
      congr 1
      by_cases hb : b = 0
      · simp only [hb, ne_eq, not_true_eq_false, ↓reduceIte]
        have hs3 : v.slots = I (kinit ++ [klast]) ++ H k ++ [Slot.init x] ++ (I rest ++ T) := by simp [hs]
        rw [copy_back hs3 (by simp) (by simp) (by simp)]
        have hs4 : I (kinit ++ [klast]) ++ [Slot.init x] ++ H k ++ (I rest ++ T) =
            I ((kinit ++ [klast]) ++ [x]) ++ H k ++ I rest ++ T := by simp
        have := ih (kinit ++ [klast]) x k T { v with slots := I (kinit ++ [klast]) ++ [Slot.init x] ++ H k ++ (I rest ++ T) } o hs4
        have e1 : (kinit ++ [klast]).length + k + 1 = ((kinit ++ [klast]) ++ [x]).length + k := by simp; omega
        have e2 : (kinit ++ [klast]).length + 1 = ((kinit ++ [klast]) ++ [x]).length := by simp
        simp only [e1, e2, this]
      · simp only [hb, ne_eq, not_false_eq_true, ↓reduceIte]
        rw [dropAt_mid hs1 (by simp <;> omega)]
        simp only [Bool.not_false, Bool.true_and]
        by_cases hbomb : bombs.contains x = true
        · simp only [hbomb, ↓reduceIte]
        · have hb' : bombs.contains x = false := by simpa using hbomb
          simp only [hb', Bool.false_eq_true, ↓reduceIte]
          have hs2 : (I (kinit ++ [klast]) ++ H k) ++ Slot.hole :: (I rest ++ T) = I (kinit ++ [klast]) ++ H (k + 1) ++ I rest ++ T := by
            simp
          have := ih kinit klast (k + 1) T { v with slots := (I (kinit ++ [klast]) ++ H k) ++ Slot.hole :: (I rest ++ T), dropLog := v.dropLog ++ [x] } o hs2
          have e : (kinit ++ [klast]).length + k + 1 = (kinit ++ [klast]).length + (k + 1) := by omega
          rw [e, this]

/-- **the calls of `dedup_by`**: on a vector holding `x :: xs`, `same_bucket` is called with exactly the pairs
    `Vec::dedup_by` would call it with — (inspected element, last retained element) -/
theorem dedupCalls_eq (bombs : List Id) (v : Vec) (x : Id) (xs : List Id) (o : List Outcome)
    (hs : v.slots = I (x :: xs) ++ H (v.cap - v.len)) (hl : (x :: xs).length = v.len) :
    dedupCalls bombs v o = dedupCallsSpec bombs x xs o := by
  unfold dedupCalls
  simp only [List.length_cons] at hl
  by_cases h1 : v.len ≤ 1
  · have : xs = [] := List.eq_nil_of_length_eq_zero (by omega)
    subst this
    simp [h1, dedupCallsSpec]
  · simp only [h1, ↓reduceIte]
    have hs' : v.slots = I ([] ++ [x]) ++ H 0 ++ I xs ++ H (v.cap - v.len) := by simpa using hs
    have := dedupCallsLoop_eq bombs xs [] x 0 (H (v.cap - v.len)) v o hs'
    have e : v.len - 1 = xs.length := by omega
    simpa [e] using this

/-- **refinement**: on a vector holding `xs` (any spare capacity) `dedup_by` behaves as `dedupSpec` -/
theorem dedupBy_eq (bombs : List Id) (v : Vec) (xs : List Id) (o : List Outcome)
    (hs : v.slots = I xs ++ H (v.cap - v.len)) (hl : xs.length = v.len) :
    dedupBy bombs v o =
      .ok ⟨v.after (dedupSpec bombs xs o), (dedupSpec bombs xs o).exit, (dedupSpec bombs xs o).rest⟩ := by
  have hcap : v.len ≤ v.cap := by
    have := congrArg List.length hs
    simp [Vec.cap] at this ⊢
    omega
  unfold dedupBy
  match xs, hs, hl with
  | [], hs, hl =>
    have h0 : v.len = 0 := by simpa using hl.symm
    simp only [h0, Nat.zero_le, ↓reduceIte, dedupSpec, Vec.after, List.length_nil, Nat.sub_zero, List.append_nil]
    congr 2
    have := Vec.eta_seg (v := v) (s := I [] ++ H v.cap) (n := 0) (by simpa [h0] using hs) h0
    simpa using this.symm
  | [x], hs, hl =>
    have h1 : v.len = 1 := by simpa using hl.symm
    simp only [h1, Nat.le_refl, ↓reduceIte, dedupSpec, sieve, Vec.after, List.append_nil, List.length_cons, List.length_nil]
    congr 2
    have := Vec.eta_seg (v := v) (s := I [x] ++ H (v.cap - 1)) (n := 1) (by simpa [h1] using hs) h1
    simpa using this.symm
  | x :: y :: rest, hs, hl =>
    have hlen : v.len = rest.length + 2 := by simpa using hl.symm
    have hgt : ¬ v.len ≤ 1 := by omega
    simp only [hgt, ↓reduceIte, dedupSpec]
    have hs' : v.slots = I [x] ++ H 0 ++ I (y :: rest) ++ H (v.cap - v.len) := by simpa using hs
    have := dedupLoop_eq bombs (y :: rest) [x] 0 (H (v.cap - v.len)) v o hs' (by simp) (by simp [hlen]; omega)
    have e : v.len - 1 = (y :: rest).length := by simp [hlen]
    simp only [List.length_cons, List.length_nil, Nat.zero_add, Nat.add_zero] at this
    rw [e]
    simp only [List.length_cons]
    rw [this]
    simp only [Vec.after, sieve_escaped, List.append_nil]
    have hle := sieve_length_le (· == 0) bombs [x] (y :: rest) o
    simp only [List.length_cons, List.length_nil] at hle
    congr 3
    rw [List.append_assoc, ← H_add]
    congr 2
    omega

/-! ## dedup_by_key = dedup_by with the answers `key(a) == key(b)` -/

/-- the observable part of a result (the unconsumed oracle is bookkeeping) -/
def proj {α} (x : M (Out α)) : M (Vec × Exit α) := x.map (fun r => (r.vec, r.exit))

theorem proj_guard {v : Vec} {r w : Nat} {e : Exit Unit} {o1 o2 : List Outcome} :
    proj ((dedupGuard v r w).map (⟨·, e, o1⟩)) = proj ((dedupGuard v r w).map (⟨·, e, o2⟩)) := by
  unfold proj; cases dedupGuard v r w <;> rfl

theorem dedupKeyLoop_pair (bombs : List Id) (fuel : Nat) : ∀ (v : Vec) (r w : Nat) (o : List Outcome),
    proj (dedupKeyLoop bombs fuel v r w o) = proj (dedupLoop bombs fuel v r w (pairUp o)) := by
  induction fuel with
  | zero => intro v r w o; simp [dedupKeyLoop, dedupLoop, proj, Except.map]
  | succ fuel ih =>
    intro v r w o
    simp only [dedupKeyLoop, dedupLoop]
    cases h1 : peek v r with
    | error e => rfl
    | ok a =>
      cases h2 : peek v (w - 1) with
      | error e => rfl
      | ok b =>
        simp only
        match o with
        | [] => simp only [pairUp] <;> first | rfl | exact proj_guard
        | .panic :: o => simp only [pairUp] <;> first | rfl | exact proj_guard
        | [.ret _] => simp only [pairUp] <;> first | rfl | exact proj_guard
        | .ret _ :: .panic :: o => simp only [pairUp] <;> first | rfl | exact proj_guard
        | .ret ka :: .ret kb :: o =>
          simp only [pairUp]
          by_cases hk : ka = kb
          · simp only [hk, ↓reduceIte, ne_eq, Nat.succ_ne_zero, not_false_eq_true, Nat.add_one_ne_zero]
            cases h3 : dropAt bombs false v r with
            | error e => rfl
            | ok p =>
              obtain ⟨v1, pk⟩ := p
              simp only
              cases pk with
              | true => simp only [↓reduceIte]; exact proj_guard
              | false => simp only [Bool.false_eq_true, ↓reduceIte]; exact ih _ _ _ _
          · simp only [hk, ↓reduceIte, ne_eq, not_true_eq_false]
            cases h3 : copy v r w 1 with
            | error e => rfl
            | ok v1 => simp only; exact ih _ _ _ _

theorem dedupByKey_pair (bombs : List Id) (v : Vec) (o : List Outcome) :
    proj (dedupByKey bombs v o) = proj (dedupBy bombs v (pairUp o)) := by
  unfold dedupByKey dedupBy
  simp only
  split
  · rfl
  · exact dedupKeyLoop_pair bombs _ v 1 1 o

theorem proj_ok {α} {x y : M (Out α)} {r : Out α} (h : proj x = proj y) (hy : y = .ok r) :
    ∃ r', x = .ok r' ∧ r'.vec = r.vec ∧ r'.exit = r.exit := by
  subst hy
  cases x with
  | error e => simp [proj, Except.map] at h
  | ok r' =>
    simp only [proj, Except.map, Except.ok.injEq, Prod.mk.injEq] at h
    exact ⟨r', rfl, h.1, h.2⟩

end Coll
