/-
  Lemmas/Hist2Stats.lean — `stats().allocated()` never decreases across the allocation paths of the model
  (`tryCur`, the slow path, `allocGeneric`, `alloc`) nor when the position moves towards the free side.
-/
import BumpProof.Props.Hist
import BumpProof.Props.C07
import BumpProof.Props.C15

set_option linter.unusedSimpArgs false
set_option linter.unusedVariables false

namespace Arena.Hist
open Rs Ledger

variable {cfg : Cfg}

/-- sum of the capacities of a list of chunks, as `stats` computes it -/
def capL (cfg : Cfg) (l : List Chunk) : Nat := (l.map (Chunk.capacity cfg)).foldl (· + ·) 0

theorem foldl_add (l : List Nat) (a : Nat) : l.foldl (· + ·) a = a + l.foldl (· + ·) 0 := by
  induction l generalizing a with
  | nil => simp
  | cons x xs ih =>
    simp only [List.foldl_cons]
    rw [ih (a + x), ih (0 + x)]; omega

theorem capL_nil : capL cfg [] = 0 := rfl

theorem capL_append (l1 l2 : List Chunk) : capL cfg (l1 ++ l2) = capL cfg l1 + capL cfg l2 := by
  unfold capL
  rw [List.map_append, List.foldl_append, foldl_add]

theorem capL_take_le (l : List Chunk) {i j : Nat} (h : i ≤ j) : capL cfg (l.take i) ≤ capL cfg (l.take j) := by
  have : l.take j = l.take i ++ (l.take j).drop i := by
    have := (List.take_append_drop i (l.take j)).symm
    rw [List.take_take, Nat.min_eq_left h] at this
    exact this
  rw [this, capL_append]; omega

theorem capL_take_succ {l : List Chunk} {i : Nat} {c : Chunk} (hc : l[i]? = some c) :
    capL cfg (l.take (i+1)) = capL cfg (l.take i) + c.capacity cfg := by
  rw [List.take_succ, hc, capL_append]
  simp [capL]

/-- address range of a chunk -/
def bs (c : Chunk) : Nat × Nat := (c.base, c.size)

/-- the capacity of a chunk is a function of its address range -/
def capBs (cfg : Cfg) (x : Nat × Nat) : Nat :=
  (if cfg.up then x.1 + x.2 else x.1 + x.2 - cfg.hdr.size) - (if cfg.up then x.1 + cfg.hdr.size else x.1)

theorem capL_congr {l l' : List Chunk} (h : l'.map bs = l.map bs) : capL cfg l' = capL cfg l := by
  unfold capL
  have e : ∀ m : List Chunk, m.map (Chunk.capacity cfg) = (m.map bs).map (capBs cfg) := by
    intro m; rw [List.map_map]; rfl
  rw [e l', e l, h]

theorem bs_of_shape {l l' : List Chunk} (h : l'.map Chunk.shape = l.map Chunk.shape) : l'.map bs = l.map bs := by
  have e : ∀ m : List Chunk, m.map bs = (m.map Chunk.shape).map (fun sh => (sh.1, sh.2.1)) := by
    intro m; rw [List.map_map]; rfl
  rw [e l', e l, h]

theorem bs_of_geom {l l' : List Chunk} (h : l'.map Chunk.memGeom = l.map Chunk.memGeom) : l'.map bs = l.map bs := by
  have e : ∀ m : List Chunk, m.map bs = (m.map Chunk.memGeom).map (fun sh => (sh.1, sh.2.1)) := by
    intro m; rw [List.map_map]; rfl
  rw [e l', e l, h]

theorem stats_allocated_eq {s : State} {i : Nat} {c : Chunk} (hcur : s.cur = .chunk i) (hc : s.chunks[i]? = some c) :
    (stats cfg s).allocated = c.allocated cfg + capL cfg (s.chunks.take i) := by
  unfold stats capL
  simp only [hcur, hc]

theorem allocated_le_capacity {c : Chunk} (hw : ChunkWF cfg c) : c.allocated cfg ≤ c.capacity cfg := by
  have h1 := hw.pos_ge
  have h2 := hw.pos_le
  unfold Chunk.allocated Chunk.capacity
  cases cfg.up <;> simp only [Bool.false_eq_true, ↓reduceIte] <;> omega

theorem pre_of_bs {l l' : List Chunk} (h : l'.map bs = l.map bs) (j : Nat) :
    (l'.take j).map bs = (l.take j).map bs := by
  simp only [List.map_take]
  rw [h]

theorem pre_of_shape {s s' : State} (h : SameShape s s') (j : Nat) :
    (s'.chunks.take j).map bs = (s.chunks.take j).map bs := pre_of_bs (bs_of_shape h) j

/-- `stats().allocated()` as a function of the two fields it looks at -/
def allocOf (cfg : Cfg) (chunks : List Chunk) : Cur → Nat
  | .chunk i => match chunks[i]? with
    | none => 0
    | some c => c.allocated cfg + capL cfg (chunks.take i)
  | _ => 0

theorem stats_allocOf (s : State) : (stats cfg s).allocated = allocOf cfg s.chunks s.cur := by
  unfold stats allocOf capL
  cases s.cur <;> simp only
  rename_i i
  cases s.chunks[i]? <;> rfl

/-- `s ≼ s'`: `stats().allocated()` did not decrease -/
def Adv (cfg : Cfg) (s s' : State) : Prop := (stats cfg s).allocated ≤ (stats cfg s').allocated

theorem adv_iff (s s' : State) : Adv cfg s s' ↔ allocOf cfg s.chunks s.cur ≤ allocOf cfg s'.chunks s'.cur := by
  unfold Adv; rw [stats_allocOf, stats_allocOf]

theorem Adv.refl (s : State) : Adv cfg s s := Nat.le_refl _
theorem Adv.trans {a b c : State} (h1 : Adv cfg a b) (h2 : Adv cfg b c) : Adv cfg a c := Nat.le_trans h1 h2
theorem Adv.of_eq {s s' : State} (h : (stats cfg s').allocated = (stats cfg s).allocated) : Adv cfg s s' := Nat.le_of_eq h.symm
theorem Adv.of_zero {s s' : State} (h : s.cur = .claimed ∨ s.cur = .unallocated) : Adv cfg s s' := by
  unfold Adv; rw [C10.stats_zero h]; exact Nat.zero_le _

/-- same chunk list and same current chunk (ghost updates) -/
theorem Adv.of_chunks {s s' : State} (h1 : s'.chunks = s.chunks) (h2 : s'.cur = s.cur) : Adv cfg s s' := by
  unfold Adv stats; rw [h1, h2]; exact Nat.le_refl _

/-- the current chunk moved forward to a later (existing or new) chunk -/
theorem adv_forward {s s' : State} (hg : GeomInv cfg s) {i j : Nat} (hcur : s.cur = .chunk i) (hcur' : s'.cur = .chunk j)
    (hij : i < j) {cj : Chunk} (hc' : s'.chunks[j]? = some cj)
    (hpre : (s'.chunks.take j).map bs = (s.chunks.take j).map bs) : Adv cfg s s' := by
  obtain ⟨c, hci, hw, _⟩ := hg.curChunk hcur
  unfold Adv
  rw [stats_allocated_eq hcur hci, stats_allocated_eq hcur' hc', capL_congr hpre]
  have h1 := capL_take_le (cfg := cfg) s.chunks (show i + 1 ≤ j from hij)
  rw [capL_take_succ hci] at h1
  have h2 := allocated_le_capacity hw
  omega

/-- the current chunk is the same and its position moved towards the free side (or not at all) -/
theorem adv_same {s s' : State} {i : Nat} {c c' : Chunk} (hcur : s.cur = .chunk i) (hc : s.chunks[i]? = some c)
    (hcur' : s'.cur = .chunk i) (hc' : s'.chunks[i]? = some c') (hb : c'.base = c.base) (hs : c'.size = c.size)
    (hp : if cfg.up then c.pos ≤ c'.pos else c'.pos ≤ c.pos)
    (hpre : (s'.chunks.take i).map bs = (s.chunks.take i).map bs) : Adv cfg s s' := by
  unfold Adv
  rw [stats_allocated_eq hcur hc, stats_allocated_eq hcur' hc', capL_congr hpre]
  have : c.allocated cfg ≤ c'.allocated cfg := by
    unfold Chunk.allocated Chunk.contentStart Chunk.contentEnd
    rw [hb, hs]
    cases hup : cfg.up <;> simp only [hup, Bool.false_eq_true, ↓reduceIte] at hp ⊢ <;> omega
  omega

theorem adv_setPos {s : State} {i : Nat} {c : Chunk} (hcur : s.cur = .chunk i) (hc : s.chunks[i]? = some c) {p : Nat}
    (hp : if cfg.up then c.pos ≤ p else p ≤ c.pos) : Adv cfg s (setPos s i p) :=
  adv_same hcur hc hcur (Mem.setPos_getElem?_self hc p) rfl rfl hp (pre_of_shape (setPos_shape s i p) i)

theorem adv_setCurPos {s : State} {i : Nat} {c : Chunk} (hcur : s.cur = .chunk i) (hc : s.chunks[i]? = some c) {p : Nat}
    (hp : if cfg.up then c.pos ≤ p else p ≤ c.pos) : Adv cfg s (setCurPos s p) := by
  have : setCurPos s p = setPos s i p := by unfold Arena.setCurPos; rw [hcur]
  rw [this]; exact adv_setPos hcur hc hp

/-- only bytes changed -/
theorem adv_onlyData {s s' : State} (h : Mem.OnlyDataChanged s s') : Adv cfg s s' := by
  obtain ⟨h1, h2⟩ := h
  have hcur : s'.cur = s.cur := by rw [h1]
  cases hc : s.cur with
  | claimed => exact Adv.of_zero (Or.inl hc)
  | unallocated => exact Adv.of_zero (Or.inr hc)
  | chunk i =>
    cases hi : s.chunks[i]? with
    | none =>
      unfold Adv stats
      simp only [hc, hi]; exact Nat.zero_le _
    | some c =>
      obtain ⟨c', hc', hg⟩ := Mem.getElem?_geom h2 hi
      have hg' : c'.base = c.base ∧ c'.size = c.size ∧ c'.pos = c.pos := by
        unfold Chunk.memGeom at hg
        simp only [Prod.mk.injEq] at hg
        exact ⟨hg.1, hg.2.1, hg.2.2.1⟩
      exact adv_same hc hi (hcur.trans hc) hc' hg'.1 hg'.2.1 (by rw [hg'.2.2]; split <;> exact Nat.le_refl _)
        (pre_of_bs (bs_of_geom h2) i)

/-! ## the allocation paths -/

theorem tryCurSpec_form {k : Kind} {s s' : State} {L : Layout} {v : Nat × Nat}
    (h : tryCurSpec cfg k s L = some (v, s')) : s' = s ∨ ∃ p, s' = setCurPos s p := by
  unfold tryCurSpec at h
  cases k <;> simp only at h
  · split at h
    · simp only [Option.map_eq_some_iff, Prod.mk.injEq] at h
      obtain ⟨x, _, _, rfl⟩ := h
      exact Or.inr ⟨_, rfl⟩
    · simp only [Option.map_eq_some_iff, Prod.mk.injEq] at h
      obtain ⟨x, _, _, rfl⟩ := h
      exact Or.inr ⟨_, rfl⟩
  · split at h
    · simp only [Option.map_eq_some_iff, Prod.mk.injEq] at h
      obtain ⟨x, _, _, rfl⟩ := h
      exact Or.inl rfl
    · simp only [Option.map_eq_some_iff, Prod.mk.injEq] at h
      obtain ⟨x, _, _, rfl⟩ := h
      exact Or.inl rfl
  · simp only [Option.map_eq_some_iff, Prod.mk.injEq] at h
    obtain ⟨x, _, _, rfl⟩ := h
    exact Or.inl rfl

theorem tryCurSpec_cur_shape {k : Kind} {s s' : State} {L : Layout} {v : Nat × Nat}
    (h : tryCurSpec cfg k s L = some (v, s')) : s'.cur = s.cur ∧ SameShape s s' := by
  rcases tryCurSpec_form h with rfl | ⟨p, rfl⟩
  · exact ⟨rfl, SameShape.refl _⟩
  · exact ⟨Ledger.setCurPos_cur _ _, setCurPos_shape _ _⟩

/-- the fast path -/
theorem tryCur_adv (hc : CfgOK cfg) {s : State} (h : GeomInv cfg s) {k : Kind} {L : Layout} {hints : Hints} (hL : L.Valid)
    (hh : hints.sma = true → L.align ∣ L.size) {v : Nat × Nat} {s' : State}
    (he : tryCur cfg k s L hints = .ok (some (v, s'))) : Adv cfg s s' := by
  cases k with
  | alloc =>
    obtain ⟨i, c, np, hcur, hi, rfl, _, _, _, _, _, hside⟩ := C10.tryCur_alloc_block hc h hL hh he
    refine adv_setCurPos hcur hi ?_
    cases hup : cfg.up <;> simp only [hup, Bool.false_eq_true, ↓reduceIte] at hside ⊢
    · exact hside.2.2
    · exact hside.2.2.2
  | prepare => rw [Ctrl.tryCur_keeps (by decide) he]; exact Adv.refl _
  | range => rw [Ctrl.tryCur_keeps (by decide) he]; exact Adv.refl _

/-- an error leaves `allocated` as it was -/
theorem adv_intact {s s' : State} (hg : GeomInv cfg s) (hi : Intact s s') :
    (stats cfg s').allocated = (stats cfg s).allocated := by
  have hgeoP : ∀ n, SameGeometryPrefix n s s' := by
    intro n j _ c hcj
    have hgm : (geometry s')[j]? = (geometry s)[j]? := by rw [hi.geometry]
    simp only [geometry, List.getElem?_map, hcj, Option.map_some] at hgm
    cases hb : s'.chunks[j]? with
    | none => rw [hb] at hgm; cases hgm
    | some c' =>
      rw [hb] at hgm
      simp only [Option.map_some, Option.some.injEq, Prod.mk.injEq] at hgm
      exact ⟨c', rfl, hgm.1, hgm.2.1⟩
  cases hcu : s.cur with
  | unallocated =>
    have : s'.cur = .unallocated := hi.sameCur.trans hcu
    unfold stats; simp only [hcu, this]
  | claimed =>
    have : s'.cur = .claimed := hi.sameCur.trans hcu
    unfold stats; simp only [hcu, this]
  | chunk i =>
    obtain ⟨c, hci, _⟩ := hg.cur i hcu
    obtain ⟨c', hci', hb, hsz⟩ := hgeoP (i+1) i (Nat.lt_succ_self i) c hci
    have hp := hi.pos i hcu i (Nat.le_refl i)
    rw [hci, hci'] at hp
    simp only [Option.map_some, Option.some.injEq] at hp
    exact stats_allocated_congr hcu (hi.sameCur.trans hcu) hci hci' hb hsz hp (hgeoP i)

/-- the slow path -/
theorem inAnotherChunk_adv (hc : CfgOK cfg) {s : State} (h : GeomInv cfg s) (hr : RespsOK cfg s) (k : Kind)
    {L : Layout} {hints : Hints} (hL : L.Valid) (hh : hints.sma = true → L.align ∣ L.size)
    (hk : k = .range → L.align ∣ L.size) {s' : State} {r : Except AErr (Nat × Nat)}
    (he : inAnotherChunk cfg k s L hints = .ok (s', r)) : Adv cfg s s' := by
  cases r with
  | error e => exact Adv.of_eq (adv_intact h (C07.inAnotherChunk_error_intact he).1)
  | ok v =>
    obtain ⟨post, hfrom⟩ := (inAnotherChunk_ok' hc h hr k hL hh hk).1 s' _ he
    obtain ⟨sx, hgx, _, hspec, hcase⟩ := hfrom v rfl
    obtain ⟨hcur', hsh⟩ := tryCurSpec_cur_shape hspec
    cases hcu : s.cur with
    | claimed => exact Adv.of_zero (Or.inl hcu)
    | unallocated => exact Adv.of_zero (Or.inr hcu)
    | chunk i =>
      rcases hcase with ⟨hss, i', j, hi', hj, hlt⟩ | ⟨p, g, rest, c, _, _, _, hshape, hcurx⟩
      · have : i' = i := by rw [hcu] at hi'; cases hi'; rfl
        subst this
        obtain ⟨cj, hcj, _⟩ := post.inv.cur j (hcur'.trans hj)
        exact adv_forward h hcu (hcur'.trans hj) hlt hcj
          ((pre_of_shape hsh j).trans (pre_of_shape hss j))
      · have hlt := h.lt_length hcu
        obtain ⟨cj, hcj, _⟩ := post.inv.cur _ (hcur'.trans hcurx)
        refine adv_forward h hcu (hcur'.trans hcurx) hlt hcj ((pre_of_shape hsh _).trans ?_)
        have hb : sx.chunks.map bs = s.chunks.map bs ++ [bs c] := by
          have e : ∀ m : List Chunk, m.map bs = (m.map Chunk.shape).map (fun sh => (sh.1, sh.2.1)) := by
            intro m; rw [List.map_map]; rfl
          rw [e sx.chunks, hshape, List.map_append, ← e s.chunks]; rfl
        simp only [List.map_take]
        rw [hb, List.take_append_of_le_length (by simp), List.take_of_length_le (by simp)]
        try rw [List.take_of_length_le (by simp)]

/-- fast path, then slow path -/
theorem allocGeneric_adv (hc : CfgOK cfg) {s : State} (h : GeomInv cfg s) (hr : RespsOK cfg s) (k : Kind)
    {L : Layout} {hints hSlow : Hints} (hL : L.Valid) (hh : hints.sma = true → L.align ∣ L.size)
    (hhs : hSlow.sma = true → L.align ∣ L.size) (hk : k = .range → L.align ∣ L.size)
    {s' : State} {r : Except AErr (Nat × Nat)} (he : allocGeneric cfg k s L hints hSlow = .ok (s', r)) : Adv cfg s s' := by
  rcases allocGeneric_split he with ⟨v, rfl, ht⟩ | ⟨_, hs⟩
  · exact tryCur_adv hc h hL hh ht
  · exact inAnotherChunk_adv hc h hr k hL hhs hk hs

theorem alloc_adv (hc : CfgOK cfg) {s : State} (h : GeomInv cfg s) (hr : RespsOK cfg s) {L : Layout} (hL : L.Valid)
    {s' : State} {r : Except AErr Nat} (he : alloc cfg s L = .ok (s', r)) : Adv cfg s s' := by
  obtain ⟨r', h1, _⟩ := alloc_split he
  exact allocGeneric_adv hc h hr .alloc hL (custom_truthful L) (custom_truthful L) (fun hx => by cases hx) h1

end Arena.Hist
