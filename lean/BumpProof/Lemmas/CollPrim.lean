/-
  Lemmas/CollPrim.lean — what the primitive slot operations of `Coll/Prim.lean` do to a buffer that
  is given as a concatenation of segments (`A ++ x :: B`, `A ++ holes ++ M ++ T`, …), plus the
  bookkeeping lemmas (`idsOf`, `total`, `WF`) used by the per-algorithm refinement proofs.
-/
import BumpProof.Coll.Slice

namespace Coll

/-! ## list indexing helpers -/

theorem getElem?_map_range {α} (f : Nat → α) (n j : Nat) :
    ((List.range n).map f)[j]? = if j < n then some (f j) else none := by
  by_cases h : j < n <;> simp [h]

theorem get4 {α} (A B C D : List α) (j : Nat) :
    (A ++ B ++ C ++ D)[j]? =
      if j < A.length then A[j]?
      else if j < A.length + B.length then B[j - A.length]?
      else if j < A.length + B.length + C.length then C[j - A.length - B.length]?
      else D[j - A.length - B.length - C.length]? := by
  grind

theorem getH (k j : Nat) : (H k)[j]? = if j < k then some Slot.hole else none := by
  simp [H, List.getElem?_replicate]

theorem some_getD_eq {L : List Slot} {i i' : Nat} {d : Slot} (h : i = i') (hl : i' < L.length) :
    some (L[i]?.getD d) = L[i']? := by
  subst h; simp [hl]

/-- closes goals made of nested `if`s over index arithmetic with list lookups at the leaves -/
macro "idx_tac" : tactic => `(tactic| (
  repeat' split
  all_goals first
    | omega | rfl | (congr 1; omega) | (apply some_getD_eq <;> omega)
    | (simp; omega) | simp | skip))

/-! ## segment algebra: `I ids` (initialised slots) and `H k` (holes) -/

@[simp] theorem I_nil : I [] = [] := rfl
@[simp] theorem I_cons (x : Id) (a : List Id) : I (x :: a) = Slot.init x :: I a := rfl
@[simp] theorem I_append (a b : List Id) : I (a ++ b) = I a ++ I b := by simp [I]
@[simp] theorem length_I (a : List Id) : (I a).length = a.length := by simp [I]
@[simp] theorem length_H (k : Nat) : (H k).length = k := by simp [H]
@[simp] theorem H_zero : H 0 = [] := rfl
@[simp] theorem H_succ (k : Nat) : H (k + 1) = Slot.hole :: H k := by simp [H, List.replicate_succ]
/-- holes commute to the front: normal form of a run of holes is `hole :: … :: hole :: H k ++ X` -/
@[simp] theorem H_comm (k : Nat) (X : List Slot) : H k ++ Slot.hole :: X = Slot.hole :: (H k ++ X) := by
  induction k with
  | zero => simp
  | succ k ih => simp [ih]
theorem H_add (a b : Nat) : H (a + b) = H a ++ H b := by
  simp [H, List.replicate_append_replicate]
theorem H_congr {a b : Nat} (h : a = b) : H a = H b := by rw [h]
theorem H_eq_cons {a b : Nat} (h : b = a + 1) : Slot.hole :: H a = H b := by rw [h]; simp
theorem H_cons_append {a b : Nat} (X : List Slot) (h : b = a + 1) : Slot.hole :: (H a ++ X) = H b ++ X := by
  rw [h]; simp
theorem H_append_cons {a b : Nat} (X : List Slot) (h : b = a + 1) : H a ++ Slot.hole :: X = H b ++ X := by
  rw [h]; simp

theorem Vec.ext' {v : Vec} {s : List Slot} (h : v.slots = s) :
    v = { v with slots := s } := by cases v; simp_all

theorem Vec.eta_seg {v : Vec} {s : List Slot} {n : Nat} (h : v.slots = s) (hn : v.len = n) :
    ({ v with slots := s, len := n, dropLog := v.dropLog ++ [] } : Vec) = v := by
  cases v; simp_all

/-! ## primitives on segmented buffers -/

theorem peek_mid {v : Vec} {A B : List Slot} {x i : Nat} (hs : v.slots = A ++ Slot.init x :: B) (hi : i = A.length) :
    peek v i = .ok x := by
  subst hi; simp [peek, hs]

theorem dropAt_mid {bombs u} {v : Vec} {A B : List Slot} {x i : Nat} (hs : v.slots = A ++ Slot.init x :: B)
    (hi : i = A.length) :
    dropAt bombs u v i =
      .ok ({ v with slots := A ++ Slot.hole :: B, dropLog := v.dropLog ++ [x] }, !u && bombs.contains x) := by
  subst hi; simp [dropAt, hs]

theorem readOut_mid {v : Vec} {A B : List Slot} {x i : Nat} (hs : v.slots = A ++ Slot.init x :: B) (hi : i = A.length) :
    readOut v i = .ok (x, { v with slots := A ++ Slot.hole :: B, escaped := v.escaped ++ [x] }) := by
  subst hi; simp [readOut, hs]

theorem write_mid {v : Vec} {A B : List Slot} {x i : Nat} (hs : v.slots = A ++ Slot.hole :: B) (hi : i = A.length) :
    write v i x = .ok { v with slots := A ++ Slot.init x :: B } := by
  subst hi; simp [write, hs]

/-- dropping a run of initialised slots: all of them are dropped front to back (also past a panicking
    `Drop`), the flag reports whether one of them panicked -/
theorem dropRange_seg (bombs : List Id) (xs : List Id) :
    ∀ (u : Bool) (v : Vec) (A B : List Slot) (i : Nat), v.slots = A ++ I xs ++ B → i = A.length →
      dropRange bombs u v i xs.length =
        .ok ({ v with slots := A ++ H xs.length ++ B, dropLog := v.dropLog ++ xs }, !u && xs.any bombs.contains) := by
  induction xs with
  | nil =>
    intro u v A B i hs hi
    simp only [List.length_nil, dropRange, List.any_nil, Bool.and_false, H_zero, List.append_nil]
    congr 2
    exact Vec.ext' (by simpa using hs)
  | cons x xs ih =>
    intro u v A B i hs hi
    have hs1 : v.slots = A ++ Slot.init x :: (I xs ++ B) := by simp [hs]
    simp only [List.length_cons, dropRange]
    rw [dropAt_mid hs1 hi]
    have hs2 : A ++ Slot.hole :: (I xs ++ B) = (A ++ [Slot.hole]) ++ I xs ++ B := by simp
    have := ih (u || (!u && bombs.contains x)) { v with slots := A ++ Slot.hole :: (I xs ++ B), dropLog := v.dropLog ++ [x] }
      (A ++ [Slot.hole]) B (i + 1) hs2 (by simp [hi])
    simp only [this]
    congr 2
    · simp
    · simp only [List.any_cons]
      generalize bombs.contains x = c
      generalize xs.any bombs.contains = a
      cases u <;> cases c <;> cases a <;> rfl

theorem copyClobbers_none_of {s : List Slot} {src dst n : Nat}
    (h : ∀ k, k < n → (src ≤ dst + k ∧ dst + k < src + n) ∨ s[dst + k]?.getD .hole = .hole) :
    copyClobbers s src dst n = none := by
  unfold copyClobbers
  simp only [Option.map_eq_none_iff, List.find?_eq_none, List.mem_range]
  intro k hk
  rcases h k hk with h | h
  · simp [h]
  · simp [h]

/-- backshift (`ptr::copy` towards the front over a gap of holes):
    `A ++ holes ++ M ++ T` becomes `A ++ M ++ holes ++ T` -/
theorem copy_back {v : Vec} {A M T : List Slot} {k src dst n : Nat} (hs : v.slots = A ++ H k ++ M ++ T)
    (hsrc : src = A.length + k) (hdst : dst = A.length) (hn : n = M.length) :
    copy v src dst n = .ok { v with slots := A ++ M ++ H k ++ T } := by
  subst hsrc hdst hn
  unfold copy
  by_cases h0 : M.length = 0
  · have : M = [] := List.eq_nil_of_length_eq_zero h0
    subst this
    rw [if_pos (by rfl)]
    congr 1
    apply Vec.ext'
    simp [hs]
  · rw [if_neg h0]
    have hcap : v.cap = A.length + k + M.length + T.length := by simp [Vec.cap, hs]; omega
    rw [if_neg (by omega), if_neg (by omega)]
    rw [copyClobbers_none_of]
    · simp only
      congr 2
      apply List.ext_getElem?
      intro j
      simp only [getElem?_map_range, copySlot, hcap, hs, List.getD_eq_getElem?_getD, get4, getH, length_H]
      idx_tac
    · intro j hj
      simp only [hs, get4, getH, length_H]
      idx_tac

/-- forward shift (`ptr::copy` towards the back into a gap of holes):
    `A ++ M ++ holes ++ T` becomes `A ++ holes ++ M ++ T` -/
theorem copy_fwd {v : Vec} {A M T : List Slot} {k src dst n : Nat} (hs : v.slots = A ++ M ++ H k ++ T)
    (hsrc : src = A.length) (hdst : dst = A.length + k) (hn : n = M.length) :
    copy v src dst n = .ok { v with slots := A ++ H k ++ M ++ T } := by
  subst hsrc hdst hn
  unfold copy
  by_cases h0 : M.length = 0
  · have : M = [] := List.eq_nil_of_length_eq_zero h0
    subst this
    rw [if_pos (by rfl)]
    congr 1
    apply Vec.ext'
    simp [hs]
  · rw [if_neg h0]
    have hcap : v.cap = A.length + k + M.length + T.length := by simp [Vec.cap, hs]; omega
    rw [if_neg (by omega), if_neg (by omega)]
    rw [copyClobbers_none_of]
    · simp only
      congr 2
      apply List.ext_getElem?
      intro j
      simp only [getElem?_map_range, copySlot, hcap, hs, List.getD_eq_getElem?_getD, get4, getH, length_H]
      idx_tac
    · intro j hj
      simp only [hs, get4, getH, length_H]
      idx_tac

theorem get5 {α} (A B C D E : List α) (j : Nat) :
    (A ++ B ++ C ++ D ++ E)[j]? =
      if j < A.length then A[j]?
      else if j < A.length + B.length then B[j - A.length]?
      else if j < A.length + B.length + C.length then C[j - A.length - B.length]?
      else if j < A.length + B.length + C.length + D.length then D[j - A.length - B.length - C.length]?
      else E[j - A.length - B.length - C.length - D.length]? := by
  rw [List.getElem?_append]
  simp only [get4, List.length_append]
  repeat' split
  all_goals first | rfl | omega | (congr 1; omega)

theorem single_get (x : Slot) (j : Nat) : [x][j]? = if j = 0 then some x else none := by
  cases j <;> simp

/-- one element jumps back over `B` into a hole: `A ++ hole :: B ++ x :: T` → `A ++ x :: B ++ hole :: T` -/
theorem copy_one_back {v : Vec} {A B T : List Slot} {x : Slot} {src dst : Nat}
    (hs : v.slots = A ++ [Slot.hole] ++ B ++ [x] ++ T) (hsrc : src = A.length + 1 + B.length) (hdst : dst = A.length) :
    copy v src dst 1 = .ok { v with slots := A ++ [x] ++ B ++ [Slot.hole] ++ T } := by
  subst hsrc hdst
  unfold copy
  rw [if_neg (by omega)]
  have hcap : v.cap = A.length + 1 + B.length + 1 + T.length := by simp [Vec.cap, hs]; omega
  rw [if_neg (by omega), if_neg (by omega)]
  rw [copyClobbers_none_of]
  · simp only
    congr 2
    apply List.ext_getElem?
    intro j
    simp only [getElem?_map_range, copySlot, hcap, hs, List.getD_eq_getElem?_getD, get5, single_get, List.length_singleton]
    repeat' split
    all_goals first
      | omega | rfl | (congr 1; omega) | (apply some_getD_eq <;> omega)
      | (simp; omega) | simp | skip
  · intro j hj
    simp only [hs, get5, single_get, List.length_singleton]
    repeat' split
    all_goals first
      | omega | rfl | (congr 1; omega) | (apply some_getD_eq <;> omega)
      | (simp; omega) | simp | skip

/-- one element jumps forward over `B` into a hole: `A ++ x :: B ++ hole :: T` → `A ++ hole :: B ++ x :: T` -/
theorem copy_one_fwd {v : Vec} {A B T : List Slot} {x : Slot} {src dst : Nat}
    (hs : v.slots = A ++ [x] ++ B ++ [Slot.hole] ++ T) (hsrc : src = A.length) (hdst : dst = A.length + 1 + B.length) :
    copy v src dst 1 = .ok { v with slots := A ++ [Slot.hole] ++ B ++ [x] ++ T } := by
  subst hsrc hdst
  unfold copy
  rw [if_neg (by omega)]
  have hcap : v.cap = A.length + 1 + B.length + 1 + T.length := by simp [Vec.cap, hs]; omega
  rw [if_neg (by omega), if_neg (by omega)]
  rw [copyClobbers_none_of]
  · simp only
    congr 2
    apply List.ext_getElem?
    intro j
    simp only [getElem?_map_range, copySlot, hcap, hs, List.getD_eq_getElem?_getD, get5, single_get, List.length_singleton]
    repeat' split
    all_goals first
      | omega | rfl | (congr 1; omega) | (apply some_getD_eq <;> omega)
      | (simp; omega) | simp | skip
  · intro j hj
    simp only [hs, get5, single_get, List.length_singleton]
    repeat' split
    all_goals first
      | omega | rfl | (congr 1; omega) | (apply some_getD_eq <;> omega)
      | (simp; omega) | simp | skip

/-- copying a slot onto itself changes nothing -/
theorem copy_self {v : Vec} {i : Nat} (h : i < v.cap) : copy v i i 1 = .ok v := by
  unfold copy
  rw [if_neg (by omega), if_neg (by omega), if_neg (by omega)]
  rw [copyClobbers_none_of]
  · simp only
    congr 1
    refine (Vec.ext' ?_).symm
    apply List.ext_getElem?
    intro j
    simp only [getElem?_map_range, copySlot, List.getD_eq_getElem?_getD, Vec.cap]
    by_cases hj : j < v.slots.length
    · simp only [hj, ↓reduceIte]
      by_cases hij : i ≤ j ∧ j < i + 1
      · have : j = i := by omega
        subst this
        simp [hj]
      · simp only [hij, ↓reduceIte]
        simp [hj]
    · simp only [hj, ↓reduceIte]
      simp at hj; simp [hj]
  · intro k hk
    left; omega

theorem copyNonoverlapping_back {v : Vec} {A M T : List Slot} {k src dst n : Nat} (hs : v.slots = A ++ H k ++ M ++ T)
    (hsrc : src = A.length + k) (hdst : dst = A.length) (hn : n = M.length) (hk : M.length ≤ k) :
    copyNonoverlapping v src dst n = .ok { v with slots := A ++ M ++ H k ++ T } := by
  unfold copyNonoverlapping
  rw [if_neg (by omega)]
  exact copy_back hs hsrc hdst hn

end Coll
