/-
  Lemmas/StrUtf8.lean — the hand-written decoder of Str/Utf8.lean is the inverse of Lean core's
  UTF-8 encoder (`String.utf8EncodeChar`); consequences for `Valid`.
-/
import BumpProof.Str.Model

namespace Str

macro "ifs" : tactic => `(tactic| repeat (first | rw [if_pos (by omega)] | rw [if_neg (by omega)]))

theorem charRange (c : Char) : c.toNat < 0xD800 ∨ (0xDFFF < c.toNat ∧ c.toNat < 0x110000) := by
  have := c.valid
  simpa [UInt32.isValidChar, Nat.isValidChar] using this

theorem toNat_ofNat_valid (n : Nat) (h : n < 0xD800 ∨ (0xDFFF < n ∧ n < 0x110000)) :
    (Char.ofNat n).toNat = n := by
  have h' : n.isValidChar := h
  rw [Char.ofNat, dif_pos h']
  rfl

theorem ofNat_eq (b : UInt8) (n : Nat) (h : n = b.toNat) : UInt8.ofNat n = b := by
  subst h; simp

/-! ## decoding an encoded character -/

theorem decodeFirst_encodeChar_append (c : Char) (r : Bytes) :
    decodeFirst (encodeChar c ++ r) = some (c, r) := by
  have hv := charRange c
  have hc : Char.ofNat c.toNat = c := Char.ofNat_toNat c
  unfold encodeChar String.utf8EncodeChar
  simp only [Char.toNat_val]
  generalize c.toNat = v at *
  split
  · simp only [List.cons_append, List.nil_append, decodeFirst, UInt8.toNat_ofNat']
    ifs
    have : v % 2^8 = v := by omega
    rw [this, hc]
  · split
    · simp only [List.cons_append, List.nil_append, decodeFirst, decode2, IsCont, UInt8.toNat_ofNat']
      ifs
      have : ((v / 64 % 32 + 192) % 2^8 - 192) * 64 + ((v % 64 + 128) % 2^8 - 128) = v := by omega
      rw [this, hc]
    · split
      · simp only [List.cons_append, List.nil_append, decodeFirst, decode3, IsCont, UInt8.toNat_ofNat']
        ifs
        have : ((v / 4096 % 16 + 224) % 2^8 - 224) * 4096 + ((v / 64 % 64 + 128) % 2^8 - 128) * 64 + ((v % 64 + 128) % 2^8 - 128) = v := by omega
        rw [this, hc]
      · simp only [List.cons_append, List.nil_append, decodeFirst, decode4, IsCont, UInt8.toNat_ofNat']
        ifs
        have : ((v / 262144 % 8 + 240) % 2^8 - 240) * 262144 + ((v / 4096 % 64 + 128) % 2^8 - 128) * 4096 + ((v / 64 % 64 + 128) % 2^8 - 128) * 64 + ((v % 64 + 128) % 2^8 - 128) = v := by omega
        rw [this, hc]

theorem encodeChar_ofNat1 (b0 : UInt8) (h : b0.toNat < 0x80) : encodeChar (Char.ofNat b0.toNat) = [b0] := by
  unfold encodeChar String.utf8EncodeChar
  simp only [Char.toNat_val]
  rw [toNat_ofNat_valid _ (by omega)]
  ifs
  rw [ofNat_eq b0 _ rfl]

/-- whatever `decodeFirst` accepts is the encoding of the character it returns -/
theorem decodeFirst_some {l : Bytes} {c : Char} {r : Bytes} (h : decodeFirst l = some (c, r)) :
    l = encodeChar c ++ r := by
  cases l with
  | nil => simp [decodeFirst] at h
  | cons b0 r0 =>
    simp only [decodeFirst] at h
    split at h
    · simp only [Option.some.injEq, Prod.mk.injEq] at h
      obtain ⟨rfl, rfl⟩ := h
      rw [encodeChar_ofNat1 b0 (by assumption)]; rfl
    · split at h
      · simp at h
      · split at h
        · cases r0 with
          | nil => simp [decode2] at h
          | cons b1 r1 =>
            simp only [decode2, IsCont] at h
            by_cases hc : 128 ≤ b1.toNat ∧ b1.toNat < 192
            · rw [if_pos hc] at h
              simp only [Option.some.injEq, Prod.mk.injEq] at h
              obtain ⟨rfl, rfl⟩ := h
              unfold encodeChar String.utf8EncodeChar
              simp only [Char.toNat_val]
              rw [toNat_ofNat_valid _ (by omega)]
              ifs
              rw [ofNat_eq b0 _ (by omega), ofNat_eq b1 _ (by omega)]; rfl
            · rw [if_neg hc] at h; simp at h
        · split at h
          · match r0, h with
            | [], h => simp [decode3] at h
            | [_], h => simp [decode3] at h
            | b1 :: b2 :: r2, h =>
              simp only [decode3, IsCont] at h
              by_cases hc : (128 ≤ b1.toNat ∧ b1.toNat < 192) ∧ (128 ≤ b2.toNat ∧ b2.toNat < 192) ∧
                  2048 ≤ (b0.toNat - 224) * 4096 + (b1.toNat - 128) * 64 + (b2.toNat - 128) ∧
                  ¬(55296 ≤ (b0.toNat - 224) * 4096 + (b1.toNat - 128) * 64 + (b2.toNat - 128) ∧
                    (b0.toNat - 224) * 4096 + (b1.toNat - 128) * 64 + (b2.toNat - 128) ≤ 57343)
              · rw [if_pos hc] at h
                simp only [Option.some.injEq, Prod.mk.injEq] at h
                obtain ⟨rfl, rfl⟩ := h
                unfold encodeChar String.utf8EncodeChar
                simp only [Char.toNat_val]
                rw [toNat_ofNat_valid _ (by omega)]
                ifs
                rw [ofNat_eq b0 _ (by omega), ofNat_eq b1 _ (by omega), ofNat_eq b2 _ (by omega)]; rfl
              · rw [if_neg hc] at h; simp at h
          · split at h
            · match r0, h with
              | [], h => simp [decode4] at h
              | [_], h => simp [decode4] at h
              | [_, _], h => simp [decode4] at h
              | b1 :: b2 :: b3 :: r3, h =>
                simp only [decode4, IsCont] at h
                by_cases hc : (128 ≤ b1.toNat ∧ b1.toNat < 192) ∧ (128 ≤ b2.toNat ∧ b2.toNat < 192) ∧ (128 ≤ b3.toNat ∧ b3.toNat < 192) ∧
                    65536 ≤ (b0.toNat - 240) * 262144 + (b1.toNat - 128) * 4096 + (b2.toNat - 128) * 64 + (b3.toNat - 128) ∧
                    (b0.toNat - 240) * 262144 + (b1.toNat - 128) * 4096 + (b2.toNat - 128) * 64 + (b3.toNat - 128) ≤ 1114111
                · rw [if_pos hc] at h
                  simp only [Option.some.injEq, Prod.mk.injEq] at h
                  obtain ⟨rfl, rfl⟩ := h
                  unfold encodeChar String.utf8EncodeChar
                  simp only [Char.toNat_val]
                  rw [toNat_ofNat_valid _ (by omega)]
                  ifs
                  rw [ofNat_eq b0 _ (by omega), ofNat_eq b1 _ (by omega), ofNat_eq b2 _ (by omega), ofNat_eq b3 _ (by omega)]; rfl
                · rw [if_neg hc] at h; simp at h
            · simp at h

/-! ## shape of an encoded character -/

/-- the byte classes of an encoded character: a non-continuation first byte, then 0–3 continuation bytes -/
theorem encodeChar_cases (c : Char) :
    (∃ b0, encodeChar c = [b0] ∧ b0.toNat < 0x80) ∨
    (∃ b0 b1, encodeChar c = [b0, b1] ∧ 0xC2 ≤ b0.toNat ∧ b0.toNat < 0xE0 ∧ IsCont b1) ∨
    (∃ b0 b1 b2, encodeChar c = [b0, b1, b2] ∧ 0xE0 ≤ b0.toNat ∧ b0.toNat < 0xF0 ∧ IsCont b1 ∧ IsCont b2) ∨
    (∃ b0 b1 b2 b3, encodeChar c = [b0, b1, b2, b3] ∧ 0xF0 ≤ b0.toNat ∧ b0.toNat < 0xF5 ∧ IsCont b1 ∧ IsCont b2 ∧ IsCont b3) := by
  have hv := charRange c
  unfold encodeChar String.utf8EncodeChar
  simp only [Char.toNat_val]
  generalize c.toNat = v at *
  split
  · left; exact ⟨_, rfl, by simp only [UInt8.toNat_ofNat']; omega⟩
  · split
    · right; left
      exact ⟨_, _, rfl, by simp only [UInt8.toNat_ofNat']; omega, by simp only [UInt8.toNat_ofNat']; omega,
        by simp only [IsCont, UInt8.toNat_ofNat']; omega⟩
    · split
      · right; right; left
        exact ⟨_, _, _, rfl, by simp only [UInt8.toNat_ofNat']; omega, by simp only [UInt8.toNat_ofNat']; omega,
          by simp only [IsCont, UInt8.toNat_ofNat']; omega, by simp only [IsCont, UInt8.toNat_ofNat']; omega⟩
      · right; right; right
        exact ⟨_, _, _, _, rfl, by simp only [UInt8.toNat_ofNat']; omega, by simp only [UInt8.toNat_ofNat']; omega,
          by simp only [IsCont, UInt8.toNat_ofNat']; omega, by simp only [IsCont, UInt8.toNat_ofNat']; omega,
          by simp only [IsCont, UInt8.toNat_ofNat']; omega⟩

theorem encodeChar_length (c : Char) : (encodeChar c).length = c.utf8Size := by
  unfold encodeChar; simp

theorem encodeChar_length_pos (c : Char) : 0 < (encodeChar c).length := by
  rw [encodeChar_length]; exact Char.utf8Size_pos c

theorem encodeChar_length_le (c : Char) : (encodeChar c).length ≤ 4 := by
  rw [encodeChar_length]; exact Char.utf8Size_le_four c

theorem isBoundaryByte_iff (b : UInt8) : isBoundaryByte b = true ↔ ¬ IsCont b := by
  unfold isBoundaryByte asI8 IsCont
  rw [decide_eq_true_iff]
  split <;> omega

/-- byte `i` of an encoded character passes the boundary test iff `i = 0` -/
theorem encodeChar_getElem_boundary (c : Char) (i : Nat) (b : UInt8) (h : (encodeChar c)[i]? = some b) :
    isBoundaryByte b = true ↔ i = 0 := by
  rw [isBoundaryByte_iff]
  rcases encodeChar_cases c with ⟨b0, he, h0⟩ | ⟨b0, b1, he, h0, h0', h1⟩ | ⟨b0, b1, b2, he, h0, h0', h1, h2⟩ |
      ⟨b0, b1, b2, b3, he, h0, h0', h1, h2, h3⟩ <;> rw [he] at h
  · match i, h with
    | 0, h => simp at h; subst h; simp [IsCont]; omega
  · match i, h with
    | 0, h => simp at h; subst h; simp [IsCont]; omega
    | 1, h => simp at h; subst h; simpa using h1
  · match i, h with
    | 0, h => simp at h; subst h; simp [IsCont]; omega
    | 1, h => simp at h; subst h; simpa using h1
    | 2, h => simp at h; subst h; simpa using h2
  · match i, h with
    | 0, h => simp at h; subst h; simp [IsCont]; omega
    | 1, h => simp at h; subst h; simpa using h1
    | 2, h => simp at h; subst h; simpa using h2
    | 3, h => simp at h; subst h; simpa using h3

/-! ## `encode`, `Valid` -/

@[simp] theorem encode_nil : encode [] = [] := rfl
@[simp] theorem encode_cons (c : Char) (cs : List Char) : encode (c :: cs) = encodeChar c ++ encode cs := rfl

theorem encode_append (a b : List Char) : encode (a ++ b) = encode a ++ encode b := by
  induction a with
  | nil => rfl
  | cons c cs ih => simp [ih]

theorem encode_singleton (c : Char) : encode [c] = encodeChar c := by simp

theorem encode_eq_nil {cs : List Char} (h : encode cs = []) : cs = [] := by
  cases cs with
  | nil => rfl
  | cons c cs =>
    have := encodeChar_length_pos c
    simp only [encode_cons, List.append_eq_nil_iff] at h
    rw [h.1] at this; simp at this

theorem length_le_encode_length (cs : List Char) : cs.length ≤ (encode cs).length := by
  induction cs with
  | nil => simp
  | cons c cs ih =>
    have := encodeChar_length_pos c
    simp only [encode_cons, List.length_cons, List.length_append]; omega

/-- the encoding determines the characters -/
theorem encode_inj {a b : List Char} (h : encode a = encode b) : a = b := by
  induction a generalizing b with
  | nil => exact (encode_eq_nil h.symm).symm
  | cons c cs ih =>
    cases b with
    | nil => exact encode_eq_nil h
    | cons d ds =>
      have h1 := decodeFirst_encodeChar_append c (encode cs)
      have h2 := decodeFirst_encodeChar_append d (encode ds)
      simp only [encode_cons] at h
      rw [h, h2] at h1
      simp only [Option.some.injEq, Prod.mk.injEq] at h1
      rw [h1.1, ih h1.2.symm]

theorem decodeAux_encode (cs : List Char) (fuel : Nat) (h : cs.length ≤ fuel) :
    decodeAux fuel (encode cs) = some cs := by
  induction cs generalizing fuel with
  | nil => cases fuel <;> rfl
  | cons c cs ih =>
    cases fuel with
    | zero => simp at h
    | succ fuel =>
      have hne : encode (c :: cs) ≠ [] := fun h0 => by simpa using encode_eq_nil h0
      match hl : encode (c :: cs), hne with
      | b :: r, _ =>
        simp only [decodeAux]
        rw [← hl, encode_cons, decodeFirst_encodeChar_append]
        simp only
        rw [ih fuel (by simpa using h)]

theorem decodeAux_some {fuel : Nat} {l : Bytes} {cs : List Char} (h : decodeAux fuel l = some cs) :
    l = encode cs := by
  induction fuel generalizing l cs with
  | zero =>
    cases l with
    | nil => simp [decodeAux] at h; subst h; rfl
    | cons b r => simp [decodeAux] at h
  | succ fuel ih =>
    cases l with
    | nil => simp [decodeAux] at h; subst h; rfl
    | cons b r =>
      simp only [decodeAux] at h
      split at h
      · simp at h
      · rename_i c rest hd
        split at h
        · simp at h
        · rename_i cs' hr
          simp only [Option.some.injEq] at h
          subst h
          rw [decodeFirst_some hd, ih hr]; rfl

/-- `decode` inverts `encode` -/
theorem decode_encode (cs : List Char) : decode (encode cs) = some cs :=
  decodeAux_encode cs _ (length_le_encode_length cs)

/-- whatever `decode` accepts is the encoding of what it returns -/
theorem decode_some {l : Bytes} {cs : List Char} (h : decode l = some cs) : l = encode cs :=
  decodeAux_some h

/-- the executable validity test decides `Valid` -/
theorem validUtf8_iff (l : Bytes) : validUtf8 l = true ↔ Valid l := by
  constructor
  · intro h
    unfold validUtf8 at h
    match hd : decode l with
    | some cs => exact ⟨cs, decode_some hd⟩
    | none => rw [hd] at h; simp at h
  · rintro ⟨cs, rfl⟩
    simp [validUtf8, decode_encode]

instance (l : Bytes) : Decidable (Valid l) := decidable_of_iff _ (validUtf8_iff l)

theorem valid_nil : Valid [] := ⟨[], rfl⟩
theorem valid_encode (cs : List Char) : Valid (encode cs) := ⟨cs, rfl⟩
theorem valid_encodeChar (c : Char) : Valid (encodeChar c) := ⟨[c], by simp⟩

theorem Valid.append {a b : Bytes} (ha : Valid a) (hb : Valid b) : Valid (a ++ b) := by
  obtain ⟨ca, rfl⟩ := ha
  obtain ⟨cb, rfl⟩ := hb
  exact ⟨ca ++ cb, (encode_append ca cb).symm⟩

/-! ## link to Lean core's validity predicate -/

theorem encode_eq_flatMap (cs : List Char) : encode cs = cs.flatMap String.utf8EncodeChar := by
  induction cs with
  | nil => rfl
  | cons c cs ih => simp [encode_cons, encodeChar, ih]

/-- `Valid` is Lean core's `ByteArray.IsValidUTF8` (the invariant of core's `String`) -/
theorem valid_iff_core (l : Bytes) : Valid l ↔ ByteArray.IsValidUTF8 l.toByteArray := by
  constructor
  · rintro ⟨cs, rfl⟩
    exact ⟨cs, by rw [List.utf8Encode, encode_eq_flatMap]⟩
  · rintro ⟨cs, h⟩
    refine ⟨cs, ?_⟩
    rw [encode_eq_flatMap]
    have := congrArg (fun b => b.data.toList) h
    simpa [List.utf8Encode, List.toList_data_toByteArray] using this

end Str
