/-
  Lemmas/Hist2Fail.lean — what a `stepCore` that REPORTS AN ERROR (`Out.err e`) leaves behind, for every
  constructor of `Op`: the state is `Ledger.Intact`, the marks are the same, at most one base-allocator
  request was made and none unless the error is a refusal of the base allocator.  Used by `C07` in
  `Props/Hist2.lean`.
-/
import BumpProof.Props.Hist
import BumpProof.Props.C07

set_option linter.unusedSimpArgs false
set_option linter.unusedVariables false

namespace Arena.Hist
open Rs Ledger

variable {cfg : Cfg}

/-- state part of "a failed call keeps everything": intact, at most one `alloc` request with the header
    alignment, no base-allocator traffic at all unless the error is `.alloc` -/
def FK (cfg : Cfg) (s s' : State) (e : AErr) : Prop :=
  Intact s s' ∧ (s'.reqs = s.reqs ∨ ∃ size, s'.reqs = s.reqs ++ [BaseReq.alloc size cfg.hdr.align]) ∧
  (e ≠ .alloc → s'.reqs = s.reqs ∧ s'.resps = s.resps)

theorem FK.refl (cfg : Cfg) (s : State) (e : AErr) : FK cfg s s e :=
  ⟨Intact.refl s, Or.inl rfl, fun _ => ⟨rfl, rfl⟩⟩

theorem FK.of_ledger {s s' : State} {e : AErr} (h : Intact s s' ∧ C07.FailLedger cfg s s' e) : FK cfg s s' e :=
  ⟨h.1, h.2.1, h.2.2.2.1⟩

theorem fk_alloc {s s' : State} {L : Layout} {e : AErr} (h : alloc cfg s L = .ok (s', .error e)) : FK cfg s s' e :=
  FK.of_ledger (C07.alloc_error_intact h)

theorem fk_allocGeneric {k : Kind} {s s' : State} {L : Layout} {h1 h2 : Hints} {e : AErr}
    (h : allocGeneric cfg k s L h1 h2 = .ok (s', .error e)) : FK cfg s s' e :=
  FK.of_ledger (C07.allocGeneric_error_intact h)

theorem fk_grow {s s' : State} {p o : Nat} {L : Layout} {e : AErr} (h : grow cfg s p o L = .ok (s', .error e)) :
    FK cfg s s' e := FK.of_ledger (C07.grow_error_intact h)

theorem fk_shrink {s s' : State} {p o : Nat} {L : Layout} {e : AErr} (h : shrink cfg s p o L = .ok (s', .error e)) :
    FK cfg s s' e := FK.of_ledger (C07.shrink_error_intact h)

theorem fk_reserve {s s' : State} {n : Nat} {e : AErr} (h : reserve cfg s n = .ok (s', .error e)) : FK cfg s s' e :=
  let ⟨a, b, _⟩ := C07.reserve_error_intact h
  FK.of_ledger ⟨a, b⟩

theorem fk_reserveDyn {s s' : State} {n : Nat} {e : AErr} (h : reserveDyn cfg s n = .ok (s', .error e)) :
    FK cfg s s' e := by
  unfold reserveDyn at h
  split at h
  · simp only [pure_eq_ok, Except.ok.injEq, Prod.mk.injEq] at h
    rw [← h.1]; exact FK.refl _ _ _
  · obtain ⟨⟨s1, r1⟩, h1, h⟩ := bind_eq_ok h
    simp only [pure_eq_ok, Except.ok.injEq, Prod.mk.injEq] at h
    obtain ⟨rfl, h2⟩ := h
    cases r1 with
    | ok v => simp only [Except.map] at h2; cases h2
    | error e1 =>
      simp only [Except.map, Except.error.injEq] at h2
      subst h2
      exact fk_allocGeneric h1

theorem fk_shrinkWithoutShrink {s s' : State} {p o : Nat} {L : Layout} {e : AErr}
    (h : shrinkWithoutShrink cfg s p o L = .ok (s', .error e)) : FK cfg s s' e := by
  unfold shrinkWithoutShrink at h
  simp only [bind, Except.bind, pure, Except.pure] at h
  (repeat' split at h) <;> (first | (cases h; done) | cases h)
  exact fk_alloc (by assumption)

theorem fk_create {s s' : State} {r : Except AErr Nat} {e : AErr} (h : CreateFrame cfg s s' r) (he : r = .error e) :
    FK cfg s s' e := by
  obtain ⟨c1, c2, c3, c4, c5, c6, c7⟩ := h
  obtain ⟨d1, d2⟩ := c3 e he
  refine ⟨Intact.of_ext (fun n _ => c2 n) (by rw [d1]) c1, c6, fun hne => ?_⟩
  rcases d2 with rfl | rfl
  · exact absurd rfl hne
  · rw [c5 he]; exact ⟨rfl, rfl⟩

theorem fk_newChunk {s s' : State} {size : Nat} {e : AErr} (h : newChunk cfg s size = .ok (s', .error e)) :
    FK cfg s s' e := fk_create (newChunk_frame h) rfl

theorem fk_newChunkForCapacity {s s' : State} {L : Layout} {e : AErr}
    (h : newChunkForCapacity cfg s L = .ok (s', .error e)) : FK cfg s s' e :=
  fk_create (newChunkForCapacity_frame h) rfl

/-- close one path of a taken-apart `stepCore` -/
syntax "fk_auto" : tactic
macro_rules
  | `(tactic| fk_auto) =>
    `(tactic| first
      | exact ⟨FK.refl _ _ _, rfl⟩
      | exact ⟨fk_alloc (by assumption), rfl⟩
      | exact ⟨fk_allocGeneric (by assumption), rfl⟩
      | exact ⟨fk_grow (by assumption), rfl⟩
      | exact ⟨fk_shrink (by assumption), rfl⟩
      | exact ⟨fk_shrinkWithoutShrink (by assumption), rfl⟩
      | exact ⟨fk_reserve (by assumption), rfl⟩
      | exact ⟨fk_reserveDyn (by assumption), rfl⟩
      | exact ⟨fk_newChunk (by assumption), rfl⟩
      | exact ⟨fk_newChunkForCapacity (by assumption), rfl⟩)

/-- take one constructor of `stepCore` apart into its paths; paths that do not end in `Out.err` are
    closed at once, the others by `fk_auto` -/
syntax "fk_op " ident : tactic
macro_rules
  | `(tactic| fk_op $h) =>
    `(tactic| (unfold stepCore at $h:ident
               simp only [bind, Except.bind, pure, Except.pure, throw, throwThe, MonadExceptOf.throw,
                 okOut, addBlock, removeBlock, killFrom, Bool.false_eq_true, ↓reduceIte, Bool.true_or, Bool.false_or] at $h:ident
               (repeat' split at $h:ident) <;>
                 (first | (cases $h:ident; done)
                        | (cases $h:ident; intro e he; first | (cases he; done) | (cases he; fk_auto)))))

/-- the conclusion for one constructor -/
abbrev ErrKeeps (cfg : Cfg) (g g' : GState) (out : Out) : Prop :=
  ∀ e, out = .err e → FK cfg g.s g'.s e ∧ g'.marks = g.marks

theorem ek_newWithSize {g g' : GState} {out : Out} {n : Nat}
    (hs : stepCore cfg g (.newWithSize n) = .ok (g', out)) : ErrKeeps cfg g g' out := by fk_op hs
theorem ek_newWithCapacity {g g' : GState} {out : Out} {L : Layout}
    (hs : stepCore cfg g (.newWithCapacity L) = .ok (g', out)) : ErrKeeps cfg g g' out := by fk_op hs
theorem ek_newUnallocated {g g' : GState} {out : Out}
    (hs : stepCore cfg g .newUnallocated = .ok (g', out)) : ErrKeeps cfg g g' out := by fk_op hs
theorem ek_drop {g g' : GState} {out : Out}
    (hs : stepCore cfg g .drop = .ok (g', out)) : ErrKeeps cfg g g' out := by fk_op hs
theorem ek_allocate {g g' : GState} {out : Out} {L : Layout} {z : Bool} {via : Via}
    (hs : stepCore cfg g (.allocate L z via) = .ok (g', out)) : ErrKeeps cfg g g' out := by fk_op hs
theorem ek_deallocate {g g' : GState} {out : Out} {b : Nat} {via : Via}
    (hs : stepCore cfg g (.deallocate b via) = .ok (g', out)) : ErrKeeps cfg g g' out := by fk_op hs
theorem ek_grow {g g' : GState} {out : Out} {b : Nat} {L : Layout} {z : Bool} {via : Via}
    (hs : stepCore cfg g (.grow b L z via) = .ok (g', out)) : ErrKeeps cfg g g' out := by fk_op hs
theorem ek_shrink {g g' : GState} {out : Out} {b : Nat} {L : Layout} {via : Via}
    (hs : stepCore cfg g (.shrink b L via) = .ok (g', out)) : ErrKeeps cfg g g' out := by fk_op hs
theorem ek_allocLayout {g g' : GState} {out : Out} {L : Layout} {hh : Hints}
    (hs : stepCore cfg g (.allocLayout L hh) = .ok (g', out)) : ErrKeeps cfg g g' out := by fk_op hs
theorem ek_shrinkSlice {g g' : GState} {out : Out} {b n : Nat}
    (hs : stepCore cfg g (.shrinkSlice b n) = .ok (g', out)) : ErrKeeps cfg g g' out := by fk_op hs
theorem ek_prepare {g g' : GState} {out : Out} {L : Layout}
    (hs : stepCore cfg g (.prepare L) = .ok (g', out)) : ErrKeeps cfg g g' out := by fk_op hs
theorem ek_commit {g g' : GState} {out : Out} {size : Nat} {rev : Bool}
    (hs : stepCore cfg g (.commit size rev) = .ok (g', out)) : ErrKeeps cfg g g' out := by fk_op hs
theorem ek_prepareSlice {g g' : GState} {out : Out} {esize ealign minCap : Nat} {rev : Bool}
    (hs : stepCore cfg g (.prepareSlice esize ealign minCap rev) = .ok (g', out)) : ErrKeeps cfg g g' out := by fk_op hs
theorem ek_fillPrepared {g g' : GState} {out : Out} {len seed : Nat}
    (hs : stepCore cfg g (.fillPrepared len seed) = .ok (g', out)) : ErrKeeps cfg g g' out := by fk_op hs
theorem ek_commitSlice {g g' : GState} {out : Out} {len : Nat}
    (hs : stepCore cfg g (.commitSlice len) = .ok (g', out)) : ErrKeeps cfg g g' out := by fk_op hs
theorem ek_abandonPrepared {g g' : GState} {out : Out}
    (hs : stepCore cfg g .abandonPrepared = .ok (g', out)) : ErrKeeps cfg g g' out := by fk_op hs
theorem ek_reserve {g g' : GState} {out : Out} {n : Nat} {dyn : Bool}
    (hs : stepCore cfg g (.reserve n dyn) = .ok (g', out)) : ErrKeeps cfg g g' out := by cases dyn <;> fk_op hs
theorem ek_scopeEnter {g g' : GState} {out : Out}
    (hs : stepCore cfg g .scopeEnter = .ok (g', out)) : ErrKeeps cfg g g' out := by fk_op hs
theorem ek_scopeExit {g g' : GState} {out : Out}
    (hs : stepCore cfg g .scopeExit = .ok (g', out)) : ErrKeeps cfg g g' out := by fk_op hs
theorem ek_checkpoint {g g' : GState} {out : Out} {k : Nat}
    (hs : stepCore cfg g (.checkpoint k) = .ok (g', out)) : ErrKeeps cfg g g' out := by fk_op hs
theorem ek_resetTo {g g' : GState} {out : Out} {k : Nat}
    (hs : stepCore cfg g (.resetTo k) = .ok (g', out)) : ErrKeeps cfg g g' out := by fk_op hs
theorem ek_reset {g g' : GState} {out : Out}
    (hs : stepCore cfg g .reset = .ok (g', out)) : ErrKeeps cfg g g' out := by fk_op hs
theorem ek_resetToStart {g g' : GState} {out : Out}
    (hs : stepCore cfg g .resetToStart = .ok (g', out)) : ErrKeeps cfg g g' out := by fk_op hs
theorem ek_claim {g g' : GState} {out : Out}
    (hs : stepCore cfg g .claim = .ok (g', out)) : ErrKeeps cfg g g' out := by fk_op hs
theorem ek_claimEnd {g g' : GState} {out : Out}
    (hs : stepCore cfg g .claimEnd = .ok (g', out)) : ErrKeeps cfg g g' out := by fk_op hs
theorem ek_onClaimed {g g' : GState} {out : Out} {op : Op}
    (hs : stepCore cfg g (.onClaimed op) = .ok (g', out)) : ErrKeeps cfg g g' out := by fk_op hs
theorem ek_alignedEnter {g g' : GState} {out : Out} {n : Nat}
    (hs : stepCore cfg g (.alignedEnter n) = .ok (g', out)) : ErrKeeps cfg g g' out := by fk_op hs
theorem ek_alignedExit {g g' : GState} {out : Out}
    (hs : stepCore cfg g .alignedExit = .ok (g', out)) : ErrKeeps cfg g g' out := by fk_op hs
theorem ek_scopedAlignedEnter {g g' : GState} {out : Out} {n : Nat}
    (hs : stepCore cfg g (.scopedAlignedEnter n) = .ok (g', out)) : ErrKeeps cfg g g' out := by fk_op hs
theorem ek_scopedAlignedExit {g g' : GState} {out : Out}
    (hs : stepCore cfg g .scopedAlignedExit = .ok (g', out)) : ErrKeeps cfg g g' out := by fk_op hs
theorem ek_withSettings {g g' : GState} {out : Out} {n : Nat} {ga cl : Bool}
    (hs : stepCore cfg g (.withSettings n ga cl) = .ok (g', out)) : ErrKeeps cfg g g' out := by fk_op hs
theorem ek_write {g g' : GState} {out : Out} {b seed : Nat}
    (hs : stepCore cfg g (.write b seed) = .ok (g', out)) : ErrKeeps cfg g g' out := by fk_op hs
theorem ek_split {g g' : GState} {out : Out} {b a : Nat}
    (hs : stepCore cfg g (.split b a) = .ok (g', out)) : ErrKeeps cfg g g' out := by fk_op hs

theorem ek_allocTryWith {g g' : GState} {out : Out} {L : Layout} {off vsize : Nat} {ok : Bool}
    {inner : Option Layout} {m : Bool}
    (hs : stepCore cfg g (.allocTryWith L off vsize ok inner m) = .ok (g', out)) : ErrKeeps cfg g g' out := by
  cases inner <;> cases m <;> cases ok <;> fk_op hs

/-- every constructor: a `stepCore` that reports an error leaves the state intact -/
theorem stepCore_err_keeps {g g' : GState} {op : Op} {out : Out}
    (hs : stepCore cfg g op = .ok (g', out)) : ErrKeeps cfg g g' out := by
  cases op with
  | drop => exact ek_drop hs
  | reset => exact ek_reset hs
  | newWithSize n => exact ek_newWithSize hs
  | newWithCapacity L => exact ek_newWithCapacity hs
  | newUnallocated => exact ek_newUnallocated hs
  | allocate L z via => exact ek_allocate hs
  | deallocate b via => exact ek_deallocate hs
  | grow b L z via => exact ek_grow hs
  | shrink b L via => exact ek_shrink hs
  | allocLayout L hh => exact ek_allocLayout hs
  | shrinkSlice b n => exact ek_shrinkSlice hs
  | prepare L => exact ek_prepare hs
  | commit size rev => exact ek_commit hs
  | prepareSlice esize ealign minCap rev => exact ek_prepareSlice hs
  | fillPrepared len seed => exact ek_fillPrepared hs
  | commitSlice len => exact ek_commitSlice hs
  | abandonPrepared => exact ek_abandonPrepared hs
  | reserve n dyn => exact ek_reserve hs
  | scopeEnter => exact ek_scopeEnter hs
  | scopeExit => exact ek_scopeExit hs
  | checkpoint k => exact ek_checkpoint hs
  | resetTo k => exact ek_resetTo hs
  | resetToStart => exact ek_resetToStart hs
  | claim => exact ek_claim hs
  | claimEnd => exact ek_claimEnd hs
  | onClaimed op' => exact ek_onClaimed hs
  | alignedEnter n => exact ek_alignedEnter hs
  | alignedExit => exact ek_alignedExit hs
  | scopedAlignedEnter n => exact ek_scopedAlignedEnter hs
  | scopedAlignedExit => exact ek_scopedAlignedExit hs
  | withSettings n ga cl => exact ek_withSettings hs
  | allocTryWith L off vsize ok inner m => exact ek_allocTryWith hs
  | write b seed => exact ek_write hs
  | split b at_ => exact ek_split hs

/-! ## a refusing base allocator -/

/-- how many base-allocator calls an operation can make (`alloc_try_with` whose closure allocates: two) -/
def maxRequests : Op → Nat
  | .allocTryWith _ _ _ _ (some _) _ => 2
  | _ => 1

theorem baseOK_of_fail {s : State} {L : Layout} {rest : List BaseResp} (h : s.resps = .fail :: rest) :
    BaseOK cfg s L := fun size _ => ⟨.fail, rest, h, trivial⟩

/-- a refusing base allocator "answers" every request (`Answered` only asks that a response is pending and,
    if it is a grant, large enough) -/
theorem answered_of_allFail (g : GState) (op : Op) {resps : List BaseResp} (hall : (∀ r ∈ resps, r = BaseResp.fail))
    (hlen : maxRequests op ≤ resps.length) : Answered cfg (install g resps).s op := by
  obtain ⟨r0, rest, rfl⟩ : ∃ r0 rest, resps = r0 :: rest := by
    cases resps with
    | nil => unfold maxRequests at hlen; split at hlen <;> simp at hlen
    | cons a l => exact ⟨a, l, rfl⟩
  have hr0 : r0 = .fail := hall r0 List.mem_cons_self
  subst hr0
  have hb : ∀ L, BaseOK cfg (install g (.fail :: rest)).s L := fun L => baseOK_of_fail rfl
  cases op with
  | newWithSize n => exact fun size _ => ⟨.fail, rest, rfl, trivial⟩
  | reserve n dyn =>
    cases dyn
    · exact fun _ _ => hb _
    · exact hb _
  | allocTryWith L off vsize ok inner m =>
    refine ⟨hb L, fun Li hLi s1 r hal => ?_⟩
    subst hLi
    obtain ⟨r1, rest1, rfl⟩ : ∃ r1 rest1, rest = r1 :: rest1 := by
      cases rest with
      | nil => simp [maxRequests] at hlen
      | cons a l => exact ⟨a, l, rfl⟩
    have hr1 : r1 = .fail := hall r1 (List.mem_cons_of_mem _ List.mem_cons_self)
    subst hr1
    rcases (allocGeneric_frame hal).2.2.1 with h | ⟨x, h⟩
    · exact baseOK_of_fail (rest := .fail :: rest1) h
    · have h' : (BaseResp.fail :: BaseResp.fail :: rest1) = x :: s1.resps := h
      simp only [List.cons.injEq] at h'
      exact baseOK_of_fail h'.2.symm
  | _ => first | exact hb _ | trivial


end Arena.Hist
