/-
  Lemmas/CtrlRealloc.lean — allocate / deallocate / allocate again on the current chunk, through the
  wide-integer specification (helper lemmas for C13 part 3).
-/
import BumpProof.Lemmas.CtrlState

set_option linter.unusedVariables false
set_option linter.unusedSimpArgs false

namespace Ctrl
open Arena Rs Lemmas

theorem valid_of_regular {cfg : Cfg} {s : State} {L : Layout} {h : Hints} {up : Bool} {a b : Nat}
    (hfr : freeRange cfg s = (a, b)) (ha0 : a ≠ 0) (hb0 : b ≠ 0) (ha : a < 2 ^ 64) (hb : b < 2 ^ 64)
    (hm : MinAlignOk s.minAlign) (hL : L.Valid) (ht : Truthful L h)
    (hreg : a ≤ b ∧ b - a ≤ Rs.IMAX ∧ (if up then s.minAlign ∣ a ∧ 16 ∣ b else 16 ∣ a ∧ s.minAlign ∣ b)) :
    C11.Valid up (bumpProps cfg s L h) := by
  refine ⟨⟨?_, ?_, ?_, ?_, hm, hL, ht⟩, Or.inl ?_⟩
  all_goals (try unfold C11.Regular); simp only [bumpProps_start, bumpProps_end, bumpProps_min, hfr]
  · exact ha0
  · exact hb0
  · exact ha
  · exact hb
  · exact hreg

/-- a successful bump computation happened in a real chunk with a regular free range -/
theorem regular_of_success {cfg : Cfg} {s : State} {L : Layout} {h : Hints} {up : Bool}
    (hv : C11.Valid up (bumpProps cfg s L h))
    (hnd : ¬ C11.Dummy (bumpProps cfg s L h)) :
    ∃ i c, CurChunk s i c ∧ C11.Regular up (bumpProps cfg s L h) := by
  rcases hv.2 with hreg | hd
  · have : freeRange cfg s ≠ (dummyAddr + 16, dummyAddr) := by
      intro heq
      apply hnd
      unfold C11.Dummy
      rw [bumpProps_start, bumpProps_end, heq]
      exact ⟨rfl, dummyAddr_dvd⟩
    obtain ⟨i, c, hc⟩ := curChunk_of_freeRange this
    exact ⟨i, c, hc, hreg⟩
  · exact absurd hd hnd

theorem end_add_16 {e : Nat} (h16 : 16 ∣ e) (he : e < 2 ^ 64) : e + 16 ≤ 2 ^ 64 :=
  add_le_of_dvd_of_lt h16 ⟨2 ^ 60, by decide⟩ he

end Ctrl
