/-
  Lemmas/Hist2Run.lean — runs: concatenation of histories, reachability is closed under further covered
  steps / histories, and small facts about `step` used by `Props/Hist2.lean`.
-/
import BumpProof.Props.Hist

set_option linter.unusedSimpArgs false
set_option linter.unusedVariables false

namespace Arena.Hist
open Rs

variable {cfg : Cfg}

theorem runOps_nil (g : GState) : runOps cfg g [] = .ok g := rfl

theorem runOps_cons_eq {g g1 : GState} {op : Op} {resps : List BaseResp} {out : Out} {reqs : List BaseReq}
    (rest : List (Op × List BaseResp)) (hs : step cfg g op resps = .ok (g1, out, reqs)) :
    runOps cfg g ((op, resps) :: rest) = runOps cfg g1 rest := by
  rw [runOps]
  simp only [bind, Except.bind, hs]

/-- a run of `a ++ b` is a run of `a` followed by a run of `b` -/
theorem runOps_append : ∀ (a b : List (Op × List BaseResp)) (g g'' : GState),
    runOps cfg g (a ++ b) = .ok g'' ↔ ∃ g', runOps cfg g a = .ok g' ∧ runOps cfg g' b = .ok g'' := by
  intro a
  induction a with
  | nil =>
    intro b g g''
    simp only [List.nil_append]
    constructor
    · intro h; exact ⟨g, rfl, h⟩
    · rintro ⟨g', h1, h2⟩
      cases h1; exact h2
  | cons x a ih =>
    intro b g g''
    obtain ⟨op, resps⟩ := x
    constructor
    · intro h
      obtain ⟨g1, out, reqs, hs, hr⟩ := runOps_cons (show runOps cfg g ((op, resps) :: (a ++ b)) = .ok g'' from h)
      obtain ⟨g', h1, h2⟩ := (ih b g1 g'').1 hr
      exact ⟨g', by rw [runOps_cons_eq a hs]; exact h1, h2⟩
    · rintro ⟨g', h1, h2⟩
      obtain ⟨g1, out, reqs, hs, hr⟩ := runOps_cons h1
      show runOps cfg g ((op, resps) :: (a ++ b)) = .ok g''
      rw [runOps_cons_eq (a ++ b) hs]
      exact (ih b g1 g'').2 ⟨g', hr, h2⟩

theorem runEnvOK_append : ∀ (a b : List (Op × List BaseResp)) (g : GState),
    RunEnvOK cfg g a → (∀ g', runOps cfg g a = .ok g' → RunEnvOK cfg g' b) → RunEnvOK cfg g (a ++ b) := by
  intro a
  induction a with
  | nil => intro b g _ h; exact h g rfl
  | cons x a ih =>
    intro b g h1 h2
    obtain ⟨op, resps⟩ := x
    obtain ⟨e1, e2⟩ := h1
    refine ⟨e1, fun g1 out reqs hs => ih b g1 (e2 g1 out reqs hs) (fun g' hr => h2 g' ?_)⟩
    rw [runOps_cons_eq a hs]; exact hr

theorem runEnvOK_of_append : ∀ (a b : List (Op × List BaseResp)) (g : GState),
    RunEnvOK cfg g (a ++ b) → RunEnvOK cfg g a ∧ (∀ g', runOps cfg g a = .ok g' → RunEnvOK cfg g' b) := by
  intro a
  induction a with
  | nil => intro b g h; exact ⟨trivial, fun g' hr => by cases hr; exact h⟩
  | cons x a ih =>
    intro b g h
    obtain ⟨op, resps⟩ := x
    obtain ⟨e1, e2⟩ := h
    refine ⟨⟨e1, fun g1 out reqs hs => (ih b g1 (e2 g1 out reqs hs)).1⟩, fun g' hr => ?_⟩
    obtain ⟨g1, out, reqs, hs, hr'⟩ := runOps_cons hr
    exact (ih b g1 (e2 g1 out reqs hs)).2 g' hr'

theorem allCovered_append {a b : List (Op × List BaseResp)} (ha : AllCovered a) (hb : AllCovered b) :
    AllCovered (a ++ b) := by
  intro x hx
  rcases List.mem_append.mp hx with h | h
  · exact ha x h
  · exact hb x h

theorem allCovered_cons {op : Op} {resps : List BaseResp} {rest : List (Op × List BaseResp)}
    (h : AllCovered ((op, resps) :: rest)) : op.Covered ∧ AllCovered rest :=
  ⟨h (op, resps) List.mem_cons_self, fun y hy => h y (List.mem_cons_of_mem _ hy)⟩

/-- reachability is closed under any further covered history with a correct environment -/
theorem Reachable.append {g g' : GState} (h : Reachable cfg g) {w : List (Op × List BaseResp)}
    (hcov : AllCovered w) (henv : RunEnvOK cfg g w) (hr : runOps cfg g w = .ok g') : Reachable cfg g' := by
  obtain ⟨ops, h1, h2, h3⟩ := h
  refine ⟨ops ++ w, allCovered_append h1 hcov, runEnvOK_append ops w _ h2 (fun g1 hg1 => ?_), ?_⟩
  · rw [h3] at hg1; cases hg1; exact henv
  · exact (runOps_append ops w _ _).2 ⟨g, h3, hr⟩

/-- … in particular under one more covered step -/
theorem Reachable.snoc {g g' : GState} (h : Reachable cfg g) {op : Op} {resps : List BaseResp} {out : Out}
    {reqs : List BaseReq} (hcov : op.Covered) (henv : EnvOK cfg g resps)
    (hs : Arena.step cfg g op resps = .ok (g', out, reqs)) : Reachable cfg g' := by
  refine h.append (w := [(op, resps)]) ?_ ⟨henv, fun _ _ _ _ => trivial⟩ ?_
  · intro x hx
    simp only [List.mem_singleton] at hx
    subst hx; exact hcov
  · rw [runOps_cons_eq [] hs]; rfl

/-- `stepCore` run through `step`: the requests of the step are the requests of the final state -/
theorem step_of_stepCore {g g' : GState} {op : Op} {resps : List BaseResp} {out : Out}
    (h : stepCore cfg (install g resps) op = .ok (g', out)) (hr : g'.s.resps = []) :
    step cfg g op resps = .ok (g', out, g'.s.reqs) := by
  unfold step
  have : stepCore cfg { g with s := { g.s with resps := resps, reqs := [] } } op = .ok (g', out) := h
  simp only [bind, Except.bind, this, hr, List.isEmpty_nil, Bool.not_true, Bool.false_eq_true, ↓reduceIte]
  rfl

/-- a bug fault of `step` is a bug fault of `stepCore` -/
theorem step_bug {g : GState} {op : Op} {resps : List BaseResp} {f : Fault}
    (h : step cfg g op resps = .error f) (hb : Fault.isBug f) : stepCore cfg (install g resps) op = .error f := by
  unfold step at h
  simp only [bind, Except.bind, pure, Except.pure] at h
  split at h
  · rename_i f' hf
    cases h
    exact hf
  · rename_i x hx
    split at h
    · cases h; exact (hb).elim
    · cases h

/-- every base-allocator response is a refusal -/
def AllFail (resps : List BaseResp) : Prop := ∀ r ∈ resps, r = BaseResp.fail

theorem envOK_allFail (g : GState) {resps : List BaseResp} (h : AllFail resps) : EnvOK cfg g resps := by
  refine ⟨fun r hr => ?_, ?_, fun p gr hpg => ?_⟩
  · have : r = .fail := h r hr
    subst this; trivial
  · show List.Pairwise _ resps
    induction resps with
    | nil => exact List.Pairwise.nil
    | cons x xs ih =>
      refine List.Pairwise.cons (fun y hy => ?_) (ih (fun r hr => h r (List.mem_cons_of_mem _ hr)))
      have : x = .fail := h x List.mem_cons_self
      subst this; trivial
  · have := h _ hpg
    cases this

theorem envOK_nil (g : GState) : EnvOK cfg g [] := envOK_allFail g (by intro r hr; cases hr)

end Arena.Hist
