/-
  Lemmas/HistOpsB.lean — preservation of `Arena.Hist.Inv` by: minimum-alignment regions
  (`aligned`, `scoped_aligned`, `with_settings`), `deallocate`, `drop`, `reset`, `reset_to_start`,
  and the constructors.
-/
import BumpProof.Lemmas.HistOpsA

set_option linter.unusedSimpArgs false
set_option linter.unusedVariables false

namespace Arena.Hist
open Rs

variable {cfg : Cfg}

/-! ## re-aligning the position / switching the minimum alignment -/

/-- the state after a position-only change `s'` of `g.s`, switched to minimum alignment `n`, with frames
    `fs` / marks `ms` -/
theorem inv_realign {g : GState} (h : Inv cfg g) {n : Nat} {s' : State}
    (hg : GeomInv cfg { s' with minAlign := n }) (hsh : SameShape g.s s') (hcur : s'.cur = g.s.cur)
    (hl : Mem.LiveOK cfg s') (hst : Stable g.s s') (hprep : g.s.prepared = none)
    {fs : List Frame} {ms : List Nat} (hfr : FramesOK cfg g.s n fs ms) (hms : ∀ x ∈ ms, x ≤ g.s.nextId) :
    Inv cfg ⟨{ s' with frames := fs, minAlign := n }, ms⟩ := by
  have hsub : LiveSub g.s { s' with frames := fs, minAlign := n } := LiveSub.of_eq hst.live
  have hn : g.s.nextId ≤ ({ s' with frames := fs, minAlign := n } : State).nextId := Nat.le_of_eq hst.nextId.symm
  refine h.step_to (s' := { s' with frames := fs, minAlign := n }) (geom_congr (s := { s' with minAlign := n }) rfl rfl rfl hg)
    (disj_congr (s := s') rfl (hsh.disjoint h.disj)) (liveOK_congr (s := s') rfl rfl rfl hl) ?_ ?_ ?_
    hst.cov hsub hn ?_ (hfr.mono' hst.cov hsub hn) (fun x hx => Nat.le_trans (hms x hx) hn)
    (fun x hx => Or.inl (hst.userCps ▸ hx)) ?_
  · intro hu
    have h1 := h.unalloc (hcur ▸ hu)
    have h2 := hsh.length
    rw [h1] at h2
    exact List.eq_nil_of_length_eq_zero h2
  · intro hu; exact h.notClaimed (hcur ▸ hu)
  · intro hu
    have := h.liveCur (hcur ▸ hu)
    exact hst.live.trans this
  · intro b hb
    have hb' : b ∈ g.s.live := hst.live ▸ hb
    have := h.ids b hb'
    exact Nat.lt_of_lt_of_le this hn
  · intro p hp
    have : s'.prepared = none := hst.prepared.trans hprep
    rw [show ({ s' with frames := fs, minAlign := n } : State).prepared = s'.prepared from rfl, this] at hp
    cases hp

theorem inv_after_alignTo {g : GState} (h : Inv cfg g) {n : Nat} (hn : MinAlignOK n) {s' : State}
    (ha : alignTo cfg g.s n = .ok s') (hprep : g.s.prepared = none)
    {fs : List Frame} {ms : List Nat} (hfr : FramesOK cfg g.s n fs ms) (hms : ∀ x ∈ ms, x ≤ g.s.nextId) :
    Inv cfg ⟨{ s' with frames := fs, minAlign := n }, ms⟩ := by
  obtain ⟨_, g2, g3, g4, _⟩ := C10.alignTo_inv h.cfgOK h.geom hn ha
  exact inv_realign h g2 g3 g4 (liveOK_alignTo h.live hn ha) (alignTo_stable ha) hprep hfr hms

/-- the current chunk of a well-formed state is an admissible `start` of a `BumpAlignGuard` -/
theorem startOK_cur {s : State} (h : GeomInv cfg s) : StartOK s s.cur := by
  cases hc : s.cur with
  | chunk i =>
    obtain ⟨c, hi, _⟩ := h.cur i hc
    exact ⟨c, hi⟩
  | unallocated => trivial
  | claimed => trivial

theorem inv_alignedEnter {g g' : GState} {out : Out} {n : Nat} (h : Inv cfg g)
    (hs : stepCore cfg g (.alignedEnter n) = .ok (g', out)) : Inv cfg g' := by
  unfold stepCore at hs
  simp only [bind, Except.bind, pure, Except.pure] at hs
  split at hs
  · cases hs
  · rename_i u hu
    have hp := noPrepared_ok hu
    split at hs
    · cases hs
    · rename_i hchk
      have hn : MinAlignOK n := minAlignOK_of_not_check hchk
      split at hs
      · rename_i hlt
        cases hs
        have hfr : FramesOK cfg g.s n (.alignedLower g.s.minAlign g.s.cur :: g.s.frames) g.marks := by
          simp only [FramesOK]; exact ⟨h.geom.minAlign, startOK_cur h.geom, h.frames⟩
        exact inv_realign (s' := g.s) h (C18.lower_minAlign h.geom hn (Nat.le_of_lt hlt)) (SameShape.refl _) rfl h.live
          (Stable.refl _) hp hfr h.marks
      · rename_i hge
        split at hs
        · cases hs
        · rename_i s' hs'
          cases hs
          have hfr : FramesOK cfg g.s n (.alignedRaise g.s.minAlign :: g.s.frames) g.marks := by
            simp only [FramesOK]; exact ⟨h.geom.minAlign, by omega, h.frames⟩
          exact inv_after_alignTo h hn hs' hp hfr h.marks

theorem inv_alignedExit {g g' : GState} {out : Out} (h : Inv cfg g)
    (hs : stepCore cfg g .alignedExit = .ok (g', out)) : Inv cfg g' := by
  unfold stepCore at hs
  simp only [bind, Except.bind, pure, Except.pure] at hs
  split at hs
  · cases hs
  · rename_i u hu
    have hp := noPrepared_ok hu
    split at hs
    · rename_i outer start rest hfr
      split at hs
      · cases hs
      · rename_i s1 hs1
        split at hs
        · cases hs
        · rename_i s' hs'
          cases hs
          have hf := h.frames
          rw [hfr] at hf
          simp only [FramesOK] at hf
          obtain ⟨g1, g2, g3, g4, _⟩ := C10.alignGuardDrop_inv h.cfgOK h.geom hf.1 hs1
          obtain ⟨_, k2, k3, k4, _⟩ := C10.alignChunkAt_inv h.cfgOK g1 hf.1 hs'
          exact inv_realign h (k2 g2) (g3.trans k3) (k4.trans g4)
            (liveOK_alignChunkAt (liveOK_alignGuardDrop h.live hf.1 hs1) hs')
            ((alignGuardDrop_stable hs1).trans (alignChunkAt_stable hs')) hp hf.2.2 h.marks
    · rename_i outer rest hfr
      cases hs
      have hf := h.frames
      rw [hfr] at hf
      simp only [FramesOK] at hf
      exact inv_realign (s' := g.s) h (C18.lower_minAlign h.geom hf.1 hf.2.1) (SameShape.refl _) rfl h.live
        (Stable.refl _) hp hf.2.2 h.marks
    · cases hs

theorem inv_scopedAlignedEnter {g g' : GState} {out : Out} {n : Nat} (h : Inv cfg g)
    (hs : stepCore cfg g (.scopedAlignedEnter n) = .ok (g', out)) : Inv cfg g' := by
  unfold stepCore at hs
  simp only [bind, Except.bind, pure, Except.pure] at hs
  split at hs
  · cases hs
  · rename_i u hu
    have hp := noPrepared_ok hu
    split at hs
    · cases hs
    · rename_i hchk
      have hn : MinAlignOK n := minAlignOK_of_not_check hchk
      split at hs
      · cases hs
      · rename_i s' hs'
        cases hs
        have hfr : FramesOK cfg g.s n (.scopedAligned (checkpoint cfg g.s) g.s.minAlign :: g.s.frames)
            (g.s.nextId :: g.marks) := by
          simp only [FramesOK]; exact ⟨h.geom.minAlign, cpOK_checkpoint h, h.frames⟩
        refine inv_after_alignTo h hn hs' hp hfr ?_
        intro x hx
        rcases List.mem_cons.mp hx with rfl | hx
        · exact Nat.le_refl _
        · exact h.marks x hx

theorem inv_withSettings {g g' : GState} {out : Out} {n : Nat} {ga cl : Bool} (h : Inv cfg g)
    (hs : stepCore cfg g (.withSettings n ga cl) = .ok (g', out)) : Inv cfg g' := by
  unfold stepCore at hs
  simp only [bind, Except.bind, pure, Except.pure] at hs
  split at hs
  · cases hs
  · rename_i u hu
    have hf0 := noFrames_ok hu
    split at hs
    · cases hs
    · rename_i u2 hu2
      have hp := noPrepared_ok hu2
      split at hs
      · cases hs
      · rename_i hchk
        have hn : MinAlignOK n := minAlignOK_of_not_check hchk
        split at hs
        · cases hs; exact h
        · split at hs
          · cases hs; exact h
          · split at hs
            · cases hs
            · rename_i s' hs'
              cases hs
              have hf := h.frames
              rw [hf0] at hf
              have hm := hf.nil_marks
              have hfr : FramesOK cfg g.s n [] g.marks := by rw [hm]; simp only [FramesOK]
              have := inv_after_alignTo h hn hs' hp hfr h.marks
              have hfr' : s'.frames = [] := (alignTo_stable hs').frames.trans hf0
              have e : ({ s' with frames := [], minAlign := n } : State) = { s' with minAlign := n } := by rw [← hfr']
              rw [e] at this
              exact this

/-! ## deallocate -/

theorem inv_deallocate {g g' : GState} {out : Out} {b : Nat} {via : Via} (h : Inv cfg g)
    (hs : stepCore cfg g (.deallocate b via) = .ok (g', out)) : Inv cfg g' := by
  have hlive := C01.stepCore_deallocate h.live h.minAlignOK hs
  unfold stepCore at hs
  simp only [bind, Except.bind, pure, Except.pure] at hs
  split at hs
  · cases hs
  · rename_i u hu
    have hp := noPrepared_ok hu
    split at hs
    · cases hs
    · rename_i blk hblk
      obtain ⟨hmem, hid⟩ := Mem.findBlock_ok hblk
      have key : ∀ s', Stable g.s s' → GeomInv cfg s' → SameShape g.s s' → s'.cur = g.s.cur →
          s'.minAlign = g.s.minAlign → Mem.LiveOK cfg (removeBlock s' b) → Inv cfg ⟨removeBlock s' b, g.marks⟩ := by
        intro s' hst hg hsh hcur hma hl
        have hsub : LiveSub g.s (removeBlock s' b) := fun x hx => Or.inl (hst.live ▸ mem_filter_sub hx)
        have hn : g.s.nextId ≤ (removeBlock s' b).nextId := Nat.le_of_eq hst.nextId.symm
        refine h.step_to (geom_congr (s := s') rfl rfl rfl hg) (disj_congr (s := s') rfl (hsh.disjoint h.disj)) hl
          ?_ ?_ ?_ hst.cov hsub hn ?_ ?_ (fun x hx => Nat.le_trans (h.marks x hx) hn)
          (fun x hx => Or.inl (hst.userCps ▸ hx)) ?_
        · intro hu'
          have h1 := h.unalloc (hcur ▸ hu')
          have h2 := hsh.length
          rw [h1] at h2
          exact List.eq_nil_of_length_eq_zero h2
        · intro hu'; exact h.notClaimed (hcur ▸ hu')
        · intro hu'
          have := h.liveCur (hcur ▸ hu')
          show s'.live.filter _ = []
          rw [hst.live, this]; rfl
        · intro x hx
          have := h.ids x (hst.live ▸ mem_filter_sub hx)
          exact Nat.lt_of_lt_of_le this hn
        · show FramesOK cfg _ s'.minAlign s'.frames g.marks
          rw [hma, hst.frames]
          exact h.frames.mono' hst.cov hsub hn
        · intro p hp'
          have : s'.prepared = none := hst.prepared.trans hp
          rw [show (removeBlock s' b).prepared = s'.prepared from rfl, this] at hp'
          cases hp'
      split at hs
      · cases hs
        exact key g.s (Stable.refl _) h.geom (SameShape.refl _) rfl rfl hlive
      · split at hs
        · cases hs
        · rename_i s' hs'
          cases hs
          obtain ⟨g1, g2, g3, g4, _⟩ := C10.deallocate_inv h.cfgOK h.geom (h.blockInCur' hmem) hs'
          exact key s' (deallocate_stable hs') g1 g2 g3 g4 hlive

/-! ## drop, reset, reset_to_start -/

/-- everything handed out is gone -/
theorem inv_cleared (hc : CfgOK cfg) {s' : State} (hg : GeomInv cfg s') (hd : ChunksDisjoint s')
    (hu : UnallocEmpty s') (hnc : s'.cur ≠ .claimed) (hfr : s'.frames = []) (hp : s'.prepared = none) :
    Inv cfg ⟨{ s' with live := [], userCps := [] }, []⟩ := by
  refine ⟨hc, geom_congr (s := s') rfl rfl rfl hg, disj_congr (s := s') rfl hd, liveOK_nil rfl, hu, hnc, fun _ => rfl,
    (fun b hb => by cases hb), (fun b hb => by cases hb), ?_, (fun m hm => by cases hm), (fun x hx => by cases hx), fun p hp' => ?_⟩
  · show FramesOK cfg _ s'.minAlign s'.frames []
    rw [hfr]; simp only [FramesOK]
  · rw [show ({ s' with live := [], userCps := [] } : State).prepared = s'.prepared from rfl, hp] at hp'
    cases hp'

theorem marks_nil {g : GState} (h : Inv cfg g) (hf : g.s.frames = []) : g.marks = [] := by
  have := h.frames
  rw [hf] at this
  exact this.nil_marks

theorem manuallyDrop_cases (cfg : Cfg) (s : State) :
    (manuallyDrop cfg s).frames = s.frames ∧ (manuallyDrop cfg s).prepared = s.prepared ∧
    (((manuallyDrop cfg s).chunks = [] ∧ (manuallyDrop cfg s).cur = .unallocated) ∨
     ((manuallyDrop cfg s).chunks = s.chunks ∧ (manuallyDrop cfg s).cur = s.cur ∧ ∀ i, s.cur ≠ .chunk i)) := by
  unfold manuallyDrop
  split
  · exact ⟨rfl, rfl, Or.inl ⟨rfl, rfl⟩⟩
  · rename_i hcur
    exact ⟨rfl, rfl, Or.inr ⟨rfl, rfl, fun i hi => hcur i hi⟩⟩

theorem inv_drop {g g' : GState} {out : Out} (h : Inv cfg g)
    (hs : stepCore cfg g .drop = .ok (g', out)) : Inv cfg g' := by
  unfold stepCore at hs
  simp only [bind, Except.bind, pure, Except.pure] at hs
  split at hs
  · cases hs
  · rename_i u hu
    have hf0 := noFrames_ok hu
    split at hs
    · cases hs
    · rename_i u2 hu2
      have hp := noPrepared_ok hu2
      cases hs
      rw [marks_nil h hf0]
      obtain ⟨e1, e2, e3⟩ := manuallyDrop_cases cfg g.s
      refine inv_cleared h.cfgOK (C10.manuallyDrop_inv h.geom) ?_ ?_ ?_ (e1.trans hf0) (e2.trans hp)
      · rcases e3 with ⟨c1, _⟩ | ⟨c1, _, _⟩
        · intro i j a b _ ha _; rw [c1] at ha; simp at ha
        · exact disj_congr c1 h.disj
      · rcases e3 with ⟨c1, _⟩ | ⟨c1, c2, _⟩
        · intro _; exact c1
        · intro hu'; exact c1.trans (h.unalloc (c2 ▸ hu'))
      · rcases e3 with ⟨_, c2⟩ | ⟨_, c2, _⟩
        · rw [c2]; simp
        · rw [c2]; exact h.notClaimed

theorem reset_cases (cfg : Cfg) (s : State) :
    (reset cfg s).frames = s.frames ∧ (reset cfg s).prepared = s.prepared ∧
    (reset cfg s = s ∨ (reset cfg s).cur = .chunk 0) := by
  unfold reset
  split
  · split
    · exact ⟨rfl, rfl, Or.inl rfl⟩
    · exact ⟨rfl, rfl, Or.inr rfl⟩
  · exact ⟨rfl, rfl, Or.inl rfl⟩

theorem inv_reset {g g' : GState} {out : Out} (h : Inv cfg g)
    (hs : stepCore cfg g .reset = .ok (g', out)) : Inv cfg g' := by
  unfold stepCore at hs
  simp only [bind, Except.bind, pure, Except.pure] at hs
  split at hs
  · cases hs
  · rename_i u hu
    have hf0 := noFrames_ok hu
    split at hs
    · cases hs
    · rename_i u2 hu2
      have hp := noPrepared_ok hu2
      cases hs
      rw [marks_nil h hf0]
      obtain ⟨e1, e2, e3⟩ := reset_cases cfg g.s
      refine inv_cleared h.cfgOK (C10.reset_inv h.cfgOK h.geom) (C10.reset_disjoint h.disj) ?_ ?_ (e1.trans hf0) (e2.trans hp)
      · rcases e3 with c | c
        · rw [c]; exact h.unalloc
        · intro hu'; rw [c] at hu'; cases hu'
      · rcases e3 with c | c
        · rw [c]; exact h.notClaimed
        · rw [c]; simp

theorem inv_resetToStart {g g' : GState} {out : Out} (h : Inv cfg g)
    (hs : stepCore cfg g .resetToStart = .ok (g', out)) : Inv cfg g' := by
  unfold stepCore at hs
  simp only [bind, Except.bind, pure, Except.pure] at hs
  split at hs
  · cases hs
  · rename_i u hu
    have hf0 := noFrames_ok hu
    split at hs
    · cases hs
    · rename_i u2 hu2
      have hp := noPrepared_ok hu2
      cases hs
      rw [marks_nil h hf0]
      have hst := resetToStart_stable cfg g.s
      obtain ⟨g1, g2⟩ := C10.resetToStart_inv (cfg := cfg) h.cfgOK h.geom
      refine inv_cleared h.cfgOK g1 (g2.disjoint h.disj) ?_ ?_ (hst.frames.trans hf0) (hst.prepared.trans hp)
      · rcases resetToStart_cases cfg g.s with c | ⟨i, c0, rest, _, _, c⟩
        · rw [c]; exact h.unalloc
        · intro hu'; rw [c] at hu'; cases hu'
      · rcases resetToStart_cases cfg g.s with c | ⟨i, c0, rest, _, _, c⟩
        · rw [c]; exact h.notClaimed
        · rw [c]; simp

/-! ## the constructors -/

/-- a successful or refused `newChunk`-like call on a pristine (unallocated, empty) arena -/
theorem inv_after_new {g : GState} (h : Inv cfg g) (hf : RespsFresh g.s) (hch : g.s.chunks = [])
    (hcur : g.s.cur = .unallocated) {s' : State} {r : Except AErr Nat} (p : NewPost cfg g.s s' r)
    (hst : Stable g.s s') :
    (∀ e, r = .error e → Inv cfg ⟨s', g.marks⟩) ∧
    (∀ i, r = .ok i → Inv cfg ⟨{ s' with cur := .chunk i }, g.marks⟩) := by
  have hlive0 : g.s.live = [] := h.liveCur hcur
  have hd := (p.trace.disjoint h.disj hf).1
  constructor
  · intro e he
    have hsub : LiveSub g.s s' := LiveSub.of_eq hst.live
    have hn : g.s.nextId ≤ s'.nextId := Nat.le_of_eq hst.nextId.symm
    refine h.step_to p.inv hd (liveOK_nil (hst.live.trans hlive0)) ?_ ?_ (fun _ => hst.live.trans hlive0)
      hst.cov hsub hn ?_ ?_ (fun x hx => Nat.le_trans (h.marks x hx) hn) (fun x hx => Or.inl (hst.userCps ▸ hx)) ?_
    · intro _; exact (p.err e he).trans hch
    · rw [p.cur]; exact h.notClaimed
    · intro b hb; rw [hst.live, hlive0] at hb; cases hb
    · rw [p.minAlign, hst.frames]; exact h.frames.mono' hst.cov hsub hn
    · intro q hq
      obtain ⟨i, c, hi, _⟩ := (h.prep q (hst.prepared ▸ hq)).range
      rw [hcur] at hi; cases hi
  · intro i hi
    subst hi
    have hsub : LiveSub g.s { s' with cur := .chunk i } := LiveSub.of_eq hst.live
    have hn : g.s.nextId ≤ ({ s' with cur := .chunk i } : State).nextId := Nat.le_of_eq hst.nextId.symm
    refine h.step_to p.withCur (disj_congr (s := s') rfl hd) (liveOK_nil (hst.live.trans hlive0)) ?_ ?_ ?_
      hst.cov hsub hn ?_ ?_ (fun x hx => Nat.le_trans (h.marks x hx) hn) (fun x hx => Or.inl (hst.userCps ▸ hx)) ?_
    · intro hu; cases hu
    · intro hu; cases hu
    · intro hu; cases hu
    · intro b hb
      rw [show ({ s' with cur := .chunk i } : State).live = s'.live from rfl, hst.live, hlive0] at hb; cases hb
    · show FramesOK cfg _ s'.minAlign s'.frames g.marks
      rw [p.minAlign, hst.frames]; exact h.frames.mono' hst.cov hsub hn
    · intro q hq
      obtain ⟨j, c, hj, _⟩ := (h.prep q (hst.prepared ▸ hq)).range
      rw [hcur] at hj; cases hj

theorem pristine_of_check {s : State} (h : ¬ (!s.chunks.isEmpty || s.cur != .unallocated) = true) :
    s.chunks = [] ∧ s.cur = .unallocated := by
  simp only [Bool.or_eq_true, Bool.not_eq_true', bne_iff_ne, ne_eq, not_or, Bool.not_eq_false, Decidable.not_not,
    List.isEmpty_iff] at h
  exact h

theorem newChunk_stable {s s' : State} {size : Nat} {r : Except AErr Nat}
    (h : newChunk cfg s size = .ok (s', r)) : Stable s s' :=
  Stable.of_ext ((Ledger.newChunk_frame h).2.1 0)

theorem newChunkForCapacity_stable {s s' : State} {L : Layout} {r : Except AErr Nat}
    (h : newChunkForCapacity cfg s L = .ok (s', r)) : Stable s s' :=
  Stable.of_ext ((Ledger.newChunkForCapacity_frame h).2.1 0)

theorem inv_newWithSize {g g' : GState} {out : Out} {n : Nat} (hn : n < 2 ^ 64) (h : Inv cfg g)
    (hr : RespsOK cfg g.s) (hf : RespsFresh g.s)
    (hs : stepCore cfg g (.newWithSize n) = .ok (g', out)) : Inv cfg g' := by
  unfold stepCore at hs
  simp only [bind, Except.bind, pure, Except.pure] at hs
  split at hs
  · cases hs
  · rename_i hchk
    obtain ⟨hch, hcur⟩ := pristine_of_check hchk
    have e : liftM (Gen.SizeConfig.calc_size_from_hint (sizeCfg cfg) (if n > cfg.minChunk then n else cfg.minChunk)) =
        calcSize cfg n := rfl
    rw [e, calcSize_eq h.cfgOK hn] at hs
    simp only at hs
    split at hs
    · cases hs; exact h
    · rename_i size hsize
      obtain ⟨_, hsa, hsz, _, _⟩ := C12.calcSize_some h.cfgOK.hdr hsize
      split at hs
      · cases hs
      · rename_i x hx
        obtain ⟨s1, r1⟩ := x
        have p := (newChunk_post h.cfgOK h.geom hr hsz hx).1
        obtain ⟨k1, k2⟩ := inv_after_new h hf hch hcur p (newChunk_stable hx)
        cases r1 with
        | error e' => simp only at hs; cases hs; exact k1 e' rfl
        | ok i => simp only at hs; cases hs; exact k2 i rfl

theorem inv_newWithCapacity {g g' : GState} {out : Out} {L : Layout} (h : Inv cfg g)
    (hr : RespsOK cfg g.s) (hf : RespsFresh g.s)
    (hs : stepCore cfg g (.newWithCapacity L) = .ok (g', out)) : Inv cfg g' := by
  unfold stepCore at hs
  simp only [bind, Except.bind, pure, Except.pure] at hs
  split at hs
  · cases hs
  · rename_i u hu
    have hL := validLayout_valid hu
    split at hs
    · cases hs
    · rename_i hchk
      obtain ⟨hch, hcur⟩ := pristine_of_check hchk
      split at hs
      · cases hs
      · rename_i x hx
        obtain ⟨s1, r1⟩ := x
        have p := (newChunkForCapacity_post h.cfgOK h.geom hr hL).1 s1 r1 hx
        obtain ⟨k1, k2⟩ := inv_after_new h hf hch hcur p (newChunkForCapacity_stable hx)
        cases r1 with
        | error e' => simp only at hs; cases hs; exact k1 e' rfl
        | ok i => simp only at hs; cases hs; exact k2 i rfl

end Arena.Hist
