/-
  Lemmas/MemExLive.lean — concrete states satisfying `LiveOK` and the other hypotheses of the C01 /
  C02 theorems about `stepCore` (non-vacuity witnesses).
-/
import BumpProof.Lemmas.MemSlow
import BumpProof.Lemmas.MemEx

namespace Arena.Mem.Ex
open Arena Arena.Mem Rs


def L8 : Layout := { size := 8, align := 8 }

theorem exValidUp : C11.Valid cfgUp.up (bumpProps cfgUp stUp L8 Hints.custom) := by
  refine ⟨⟨by decide, by decide, by decide, by decide, by decide, ⟨⟨3, by decide, by decide⟩, by decide⟩, by decide⟩, Or.inl ?_⟩
  exact ⟨by decide, by decide, by decide⟩

theorem stUp_liveOK : LiveOK cfgUp stUp := by
  refine ⟨?_, ?_, List.pairwise_singleton _ _⟩
  · intro b hb
    simp only [stUp, List.mem_singleton] at hb
    subst hb; decide
  · intro b hb _
    simp only [stUp, List.mem_singleton] at hb
    subst hb
    exact ⟨0, 0, chunkUp, rfl, Nat.le_refl _, rfl, by unfold InContent; decide, fun _ => by unfold OnAllocatedSide; decide⟩

theorem stUp_curPosOK : CurPosOK cfgUp stUp := by
  intro i c hcur hc
  simp only [stUp, Cur.chunk.injEq] at hcur
  subst hcur
  simp only [stUp, List.getElem?_cons_zero, Option.some.injEq] at hc
  subst hc
  decide

/-- no slow-path state exists for `stUp` (no later chunk, no pending response) -/
theorem stUp_noSlow : ∀ t i' ct, SlowTry cfgUp stUp t i' ct → C11.Valid cfgUp.up (bumpProps cfgUp t L8 Hints.custom) := by
  intro t i' ct h
  exfalso
  rcases h.origin with ⟨c, hc, _⟩ | ⟨p, g, rest, size, size', hr, _⟩
  · have := h.after 0 (by decide) (fun i hi => Nat.zero_le i)
    have hlt : i' < stUp.chunks.length := (List.getElem?_eq_some_iff.mp hc).1
    simp only [stUp, List.length_singleton] at hlt
    omega
  · simp [stUp] at hr

def L200 : Layout := { size := 200, align := 1 }

theorem stUpR_liveOK : LiveOK cfgUp stUpR := LiveOK.of_geom (s := stUp) rfl rfl rfl stUp_liveOK

theorem stUpR_curPosOK : CurPosOK cfgUp stUpR := stUp_curPosOK

theorem exValidUpR : C11.Valid cfgUp.up (bumpProps cfgUp stUpR L200 Hints.custom) := by
  refine ⟨⟨by decide, by decide, by decide, by decide, by decide, ⟨⟨0, by decide, by decide⟩, by decide⟩, by decide⟩, Or.inl ?_⟩
  exact ⟨by decide, by decide, by decide⟩

/-- the only slow-path state for `stUpR` has the granted chunk `[256, 1280)` current; its bump request is valid -/
theorem stUpR_slowValid : ∀ t i' ct, SlowTry cfgUp stUpR t i' ct →
    C11.Valid cfgUp.up (bumpProps cfgUp t L200 Hints.custom) := by
  intro t i' ct h
  rcases h.origin with ⟨c, hc, _⟩ | ⟨p, g, rest, size, size', hr, hal, hct, _⟩
  · exfalso
    have := h.after 0 (by decide) (fun i hi => Nat.zero_le i)
    have hlt : i' < stUpR.chunks.length := (List.getElem?_eq_some_iff.mp hc).1
    simp only [stUpR, stUp, List.length_singleton] at hlt
    omega
  · simp only [stUpR, stUp, List.cons.injEq, BaseResp.granted.injEq] at hr
    obtain ⟨⟨rfl, rfl⟩, _⟩ := hr
    have hs : size' = 1024 := by
      have e : Gen.SizeConfig.align_size (sizeCfg cfgUp) 1024 = .ok 1024 := rfl
      rw [e] at hal; cases hal; rfl
    subst hs
    have hfr := freeRange_chunk (cfg := cfgUp) h.cur h.chunk
    have hma : t.minAlign = 1 := h.ghost.2
    have hprops : bumpProps cfgUp t L200 Hints.custom =
        { start := 288, «end» := 1280, min_align := 1, layout := L200, align_is_const := false,
          size_is_const := false, size_is_multiple_of_align := false } := by
      unfold bumpProps; rw [hfr, hma, hct]; rfl
    rw [hprops]
    refine ⟨⟨by decide, by decide, by decide, by decide, by decide, ⟨⟨0, by decide, by decide⟩, by decide⟩, by decide⟩, Or.inl ?_⟩
    exact ⟨by decide, by decide, by decide⟩

/-- scope exit: `stUp` inside a scope entered when the block already existed -/
def gScope : GState :=
  { s := { stUp with frames := [.scope { cur := .chunk 0, addr := 104 }] }, marks := [1] }

theorem gScope_placedAt : ∀ cp rest m ms, gScope.s.frames = .scope cp :: rest → gScope.marks = m :: ms →
    ∀ b ∈ gScope.s.live, b.id < m → 0 < b.size → PlacedAt cfgUp gScope.s cp b.addr b.size := by
  intro cp rest m ms hf hm b hb _ _
  simp only [gScope, List.cons.injEq, Frame.scope.injEq] at hf
  obtain ⟨rfl, _⟩ := hf
  simp only [gScope, stUp, List.mem_singleton] at hb
  subst hb
  exact ⟨0, 0, chunkUp, rfl, Nat.le_refl _, rfl, by unfold InContent; decide, fun _ => by decide⟩

theorem stDown_liveOK : LiveOK cfgDown stDown := by
  refine ⟨?_, ?_, List.pairwise_singleton _ _⟩
  · intro b hb
    simp only [stDown, stUp, List.mem_singleton] at hb
    subst hb; decide
  · intro b hb _
    simp only [stDown, stUp, List.mem_singleton] at hb
    subst hb
    exact ⟨0, 0, chunkDown, rfl, Nat.le_refl _, rfl, by unfold InContent; decide,
      fun _ => by unfold OnAllocatedSide; decide⟩

end Arena.Mem.Ex
