/-
  Lemmas/StrBoundary.lean — `is_char_boundary` as implemented (index 0, index len, or the byte test
  `(b as i8) >= -0x40`) coincides, on valid UTF-8, with "the prefix is a whole number of encoded
  characters" (`CharPos`); `chars().next_back()`.
-/
import BumpProof.Lemmas.StrUtf8

namespace Str

/-- byte index `i` splits `cs` between two characters: some prefix of `cs` encodes to exactly `i` bytes -/
def CharPos (cs : List Char) (i : Nat) : Prop :=
  ∃ cs1 cs2, cs = cs1 ++ cs2 ∧ (encode cs1).length = i

theorem charPos_zero (cs : List Char) : CharPos cs 0 := ⟨[], cs, rfl, rfl⟩

theorem charPos_len (cs : List Char) : CharPos cs (encode cs).length := ⟨cs, [], by simp, rfl⟩

theorem charPos_le {cs : List Char} {i : Nat} (h : CharPos cs i) : i ≤ (encode cs).length := by
  obtain ⟨a, b, rfl, rfl⟩ := h
  simp [encode_append]

theorem charPos_nil (i : Nat) : CharPos [] i ↔ i = 0 := by
  constructor
  · rintro ⟨a, b, h, rfl⟩
    have : a = [] := by
      cases a with
      | nil => rfl
      | cons x xs => simp at h
    subst this; rfl
  · rintro rfl; exact charPos_zero _

theorem charPos_cons (c : Char) (cs : List Char) (i : Nat) :
    CharPos (c :: cs) i ↔ i = 0 ∨ ((encodeChar c).length ≤ i ∧ CharPos cs (i - (encodeChar c).length)) := by
  constructor
  · rintro ⟨a, b, h, rfl⟩
    cases a with
    | nil => left; rfl
    | cons x xs =>
      right
      simp only [List.cons_append, List.cons.injEq] at h
      obtain ⟨rfl, rfl⟩ := h
      refine ⟨by simp, xs, b, rfl, by simp⟩
  · rintro (rfl | ⟨hle, a, b, rfl, hl⟩)
    · exact charPos_zero _
    · exact ⟨c :: a, b, rfl, by simp only [encode_cons, List.length_append]; omega⟩

/-- split at a character position: the two byte halves are the encodings of the two character halves -/
theorem charPos_split {cs : List Char} {i : Nat} (h : CharPos cs i) :
    ∃ cs1 cs2, cs = cs1 ++ cs2 ∧ (encode cs).take i = encode cs1 ∧ (encode cs).drop i = encode cs2 ∧
      (encode cs1).length = i := by
  obtain ⟨a, b, rfl, rfl⟩ := h
  exact ⟨a, b, rfl, by simp [encode_append], by simp [encode_append], rfl⟩

/-- the first byte of a non-empty valid string passes the boundary test -/
theorem encode_head_boundary (cs : List Char) (b : UInt8) (h : (encode cs)[0]? = some b) :
    isBoundaryByte b = true := by
  cases cs with
  | nil => simp at h
  | cons c cs =>
    have hp := encodeChar_length_pos c
    simp only [encode_cons] at h
    rw [List.getElem?_append_left hp] at h
    exact (encodeChar_getElem_boundary c 0 b h).2 rfl

theorem isCharBoundary_zero (l : Bytes) : isCharBoundary l 0 = true := by simp [isCharBoundary]

/-- shifting the index over a prefix `e` (the rest `l'` is valid) -/
theorem isCharBoundary_append_ge (e : Bytes) (cs : List Char) (i : Nat) (he : 0 < e.length) (hi : e.length ≤ i) :
    isCharBoundary (e ++ encode cs) i = isCharBoundary (encode cs) (i - e.length) := by
  simp only [isCharBoundary, List.length_append, ge_iff_le]
  have hi0 : ¬ i = 0 := by omega
  rw [if_neg hi0]
  by_cases heq : i = e.length
  · subst heq
    rw [if_pos (Nat.sub_self _)]
    by_cases hl : (encode cs).length = 0
    · rw [if_pos (show e.length + (encode cs).length ≤ e.length by omega)]; simp [hl]
    · rw [if_neg (show ¬ e.length + (encode cs).length ≤ e.length by omega),
        List.getElem?_append_right (Nat.le_refl _), Nat.sub_self]
      match hb : (encode cs)[0]? with
      | some b => exact encode_head_boundary cs b hb
      | none => simp at hb; simp [hb] at hl
  · rw [if_neg (show ¬ i - e.length = 0 by omega)]
    by_cases hge : e.length + (encode cs).length ≤ i
    · rw [if_pos hge, if_pos (show (encode cs).length ≤ i - e.length by omega)]
      by_cases hx : i = e.length + (encode cs).length
      · have hy : i - e.length = (encode cs).length := by omega
        rw [hy]; simp [hx]
      · have hy : ¬ i - e.length = (encode cs).length := by omega
        rw [beq_eq_false_iff_ne.2 hx, beq_eq_false_iff_ne.2 hy]
    · rw [if_neg hge, if_neg (show ¬ (encode cs).length ≤ i - e.length by omega), List.getElem?_append_right hi]

/-- **`is_char_boundary` as implemented = "prefix is a whole number of encoded characters"** -/
theorem isCharBoundary_iff (cs : List Char) (i : Nat) :
    isCharBoundary (encode cs) i = true ↔ CharPos cs i := by
  induction cs generalizing i with
  | nil =>
    rw [charPos_nil]
    unfold isCharBoundary
    by_cases h : i = 0
    · simp [h]
    · simp [h]
  | cons c cs ih =>
    rw [charPos_cons]
    have hp := encodeChar_length_pos c
    by_cases h0 : i = 0
    · subst h0; simp [isCharBoundary_zero]
    · by_cases hlt : i < (encodeChar c).length
      · -- inside the first character: a continuation byte
        have hne : ¬ ((encodeChar c).length ≤ i) := by omega
        simp only [h0, hne, false_and, or_false, iff_false, Bool.not_eq_true]
        unfold isCharBoundary
        rw [if_neg h0, if_neg (by simp only [encode_cons, List.length_append]; omega)]
        simp only [encode_cons]
        rw [List.getElem?_append_left hlt]
        match hb : (encodeChar c)[i]? with
        | some b =>
          have := encodeChar_getElem_boundary c i b hb
          simp only
          cases hbb : isBoundaryByte b with
          | false => rfl
          | true => exact absurd (this.1 hbb) h0
        | none => rfl
      · have hge : (encodeChar c).length ≤ i := by omega
        simp only [encode_cons]
        rw [isCharBoundary_append_ge _ _ _ hp hge, ih]
        simp [h0, hge]

theorem isCharBoundary_false_of_gt (l : Bytes) (i : Nat) (h : l.length < i) : isCharBoundary l i = false := by
  unfold isCharBoundary
  rw [if_neg (by omega), if_pos (by omega)]
  simp; omega

/-! ## `chars().next_back()` -/

theorem charPos_snoc (cs : List Char) (c : Char) (i : Nat) :
    CharPos (cs ++ [c]) i ↔ CharPos cs i ∨ i = (encode cs).length + (encodeChar c).length := by
  constructor
  · rintro ⟨a, b, h, rfl⟩
    rcases List.append_eq_append_iff.1 h with ⟨x, hx, hb⟩ | ⟨x, hx, hb⟩
    · -- a = cs ++ x, [c] = x ++ b
      cases x with
      | nil => left; simp at hx; subst hx; exact charPos_len _
      | cons y ys =>
        simp only [List.cons_append] at hb
        have : ys = [] ∧ b = [] := by
          have := congrArg List.length hb
          simp at this
          constructor
          · cases ys with
            | nil => rfl
            | cons _ _ => simp at this
          · cases b with
            | nil => rfl
            | cons _ _ => simp at this
        obtain ⟨rfl, rfl⟩ := this
        simp only [List.append_nil, List.cons.injEq, and_true] at hb
        subst hb
        right; subst hx; simp [encode_append]
    · -- cs = a ++ x
      left; exact ⟨a, x, hx, rfl⟩
  · rintro (⟨a, b, rfl, rfl⟩ | rfl)
    · exact ⟨a, b ++ [c], by simp, rfl⟩
    · exact ⟨cs ++ [c], [], by simp, by simp [encode_append]⟩

theorem lastChar_nil : lastChar [] = none := rfl

/-- `next_back` on a valid non-empty string returns its last character and where it starts -/
theorem lastChar_snoc (cs : List Char) (c : Char) :
    lastChar (encode (cs ++ [c])) = some (c, (encode cs).length) := by
  have hp := encodeChar_length_pos c
  have h4 := encodeChar_length_le c
  have hlen : (encode (cs ++ [c])).length = (encode cs).length + (encodeChar c).length := by
    simp [encode_append]
  -- which indices near the end are boundaries
  have hb : ∀ j, 0 < j → j < (encodeChar c).length →
      isCharBoundary (encode (cs ++ [c])) ((encode (cs ++ [c])).length - j) = false := by
    intro j hj0 hj
    cases hbb : isCharBoundary (encode (cs ++ [c])) ((encode (cs ++ [c])).length - j) with
    | false => rfl
    | true =>
      rw [isCharBoundary_iff, charPos_snoc] at hbb
      rcases hbb with h | h
      · have := charPos_le h; omega
      · omega
  have ht : isCharBoundary (encode (cs ++ [c])) ((encode (cs ++ [c])).length - (encodeChar c).length) = true := by
    rw [isCharBoundary_iff, charPos_snoc]; left
    rw [hlen, Nat.add_sub_cancel]; exact charPos_len cs
  have hd : ∀ s, s = (encode cs).length → decodeFirst ((encode (cs ++ [c])).drop s) = some (c, []) := by
    intro s hs
    subst hs
    rw [encode_append, List.drop_left, encode_singleton]
    simpa using decodeFirst_encodeChar_append c []
  unfold lastChar
  simp only
  rw [if_neg (by omega)]
  generalize hn : (encodeChar c).length = n at *
  have hn4 : n = 1 ∨ n = 2 ∨ n = 3 ∨ n = 4 := by omega
  rcases hn4 with rfl | rfl | rfl | rfl
  · rw [if_pos ht, hd _ (by omega)]; simp; omega
  · rw [if_neg (by simp [hb 1 (by omega) (by omega)]), if_pos ht, hd _ (by omega)]; simp; omega
  · rw [if_neg (by simp [hb 1 (by omega) (by omega)]), if_neg (by simp [hb 2 (by omega) (by omega)]), if_pos ht,
      hd _ (by omega)]; simp; omega
  · rw [if_neg (by simp [hb 1 (by omega) (by omega)]), if_neg (by simp [hb 2 (by omega) (by omega)]),
      if_neg (by simp [hb 3 (by omega) (by omega)]), hd _ (by omega)]; simp; omega

end Str
