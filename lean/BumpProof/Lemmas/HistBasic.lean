/-
  Lemmas/HistBasic.lean — basic lemmas about the combined invariant `Arena.Hist.Inv`:
  monotonicity of the checkpoint / frame / prepared predicates under the state changes the
  model makes, bridges between the geometry world (`Arena.GeomInv …`), the memory world
  (`Arena.Mem.LiveOK …`) and the ledger world (`Ledger.Ext`), and the initial state.
-/
import BumpProof.Arena.Hist
import BumpProof.Props.C10
import BumpProof.Props.C01
import BumpProof.Lemmas.LedgerAlloc

set_option linter.unusedSimpArgs false
set_option linter.unusedVariables false

namespace Arena.Hist
open Rs

variable {cfg : Cfg}

/-! ## Chunk covers: every chunk of `s` is still there (same index, same address range) -/

def ChunksCov (s s' : State) : Prop :=
  ∀ (j : Nat) (c : Chunk), s.chunks[j]? = some c → ∃ c' : Chunk, s'.chunks[j]? = some c' ∧ c'.base = c.base ∧ c'.size = c.size

theorem ChunksCov.refl (s : State) : ChunksCov s s := fun j c h => ⟨c, h, rfl, rfl⟩

theorem ChunksCov.trans {a b c : State} (h1 : ChunksCov a b) (h2 : ChunksCov b c) : ChunksCov a c := by
  intro j x hx
  obtain ⟨y, hy, e1, e2⟩ := h1 j x hx
  obtain ⟨z, hz, f1, f2⟩ := h2 j y hy
  exact ⟨z, hz, f1.trans e1, f2.trans e2⟩

theorem ChunksCov.of_eq {s s' : State} (h : s'.chunks = s.chunks) : ChunksCov s s' :=
  fun j c hc => ⟨c, by rw [h]; exact hc, rfl, rfl⟩

theorem ChunksCov.of_shape {s s' : State} (h : SameShape s s') : ChunksCov s s' := by
  intro j c hc
  obtain ⟨c', hc', he⟩ := h.getElem?' hc
  obtain ⟨e1, e2⟩ := shape_base he
  exact ⟨c', hc', e1, e2⟩

theorem ChunksCov.of_ext {n : Nat} {s s' : State} (h : Ledger.Ext n s s') : ChunksCov s s' := by
  intro j c hc
  obtain ⟨c', hc', hsp, _⟩ := h.chunk j c hc
  exact ⟨c', hc', hsp.1, hsp.2.1⟩

theorem ChunksCov.of_memExt {s s' : State} (h : Mem.MemExt s s') : ChunksCov s s' :=
  fun j c hc => Mem.MemExt.getElem? h hc

theorem ChunksCov.of_geom {s s' : State} (h : s'.chunks.map Chunk.memGeom = s.chunks.map Chunk.memGeom) :
    ChunksCov s s' := by
  intro j c hc
  obtain ⟨c', hc', he⟩ := Mem.getElem?_geom h hc
  exact ⟨c', hc', congrArg (·.1) he, congrArg (·.2.1) he⟩

theorem ChunksCov.setPos (s : State) (i p : Nat) : ChunksCov s (setPos s i p) :=
  ChunksCov.of_shape (setPos_shape s i p)

theorem ChunksCov.setCurPos (s : State) (p : Nat) : ChunksCov s (setCurPos s p) :=
  ChunksCov.of_shape (setCurPos_shape s p)

theorem contentStart_same {c c' : Chunk} (hb : c'.base = c.base) : c'.contentStart cfg = c.contentStart cfg := by
  unfold Chunk.contentStart; rw [hb]

theorem contentEnd_same {c c' : Chunk} (hb : c'.base = c.base) (hs : c'.size = c.size) :
    c'.contentEnd cfg = c.contentEnd cfg := by
  unfold Chunk.contentEnd; rw [hb, hs]

/-! ## Monotonicity of the checkpoint predicates -/

theorem placedAt_mono {s s' : State} (hc : ChunksCov s s') {cp : Checkpoint} {a sz : Nat}
    (h : Mem.PlacedAt cfg s cp a sz) : Mem.PlacedAt cfg s' cp a sz := by
  obtain ⟨i, j, c, h1, h2, h3, h4, h5⟩ := h
  obtain ⟨c', hc', e1, e2⟩ := hc j c h3
  exact ⟨i, j, c', h1, h2, hc', Mem.InContent.of_same e1 e2 h4, h5⟩

theorem cpGeom_mono {s s' : State} (hc : ChunksCov s s') {cp : Checkpoint} (h : CpGeom cfg s cp) :
    CpGeom cfg s' cp := by
  unfold CpGeom at h ⊢
  split
  · rename_i i hi
    rw [hi] at h
    obtain ⟨c, h1, h2, h3⟩ := h
    obtain ⟨c', hc', e1, e2⟩ := hc i c h1
    exact ⟨c', hc', by rw [contentStart_same e1]; exact h2, by rw [contentEnd_same e1 e2]; exact h3⟩
  · trivial
  · rename_i hi
    rw [hi] at h
    exact h

/-- what may happen to the ghost list of live blocks: blocks disappear, new ones get fresh ids -/
def LiveSub (s s' : State) : Prop :=
  ∀ b ∈ s'.live, b ∈ s.live ∨ (s.nextId ≤ b.id ∧ ∃ k, k < 64 ∧ b.align = 2 ^ k)

theorem LiveSub.of_eq {s s' : State} (h : s'.live = s.live) : LiveSub s s' :=
  fun b hb => Or.inl (h ▸ hb)

theorem CpOK.mono {s s' : State} {cp : Checkpoint} {m : Nat} (h : CpOK cfg s cp m) (hc : ChunksCov s s')
    (hl : LiveSub s s') (hn : s.nextId ≤ s'.nextId) : CpOK cfg s' cp m := by
  refine ⟨cpGeom_mono hc h.geom, Nat.le_trans h.mark hn, ?_⟩
  intro b hb hid hs
  rcases hl b hb with hb' | hb'
  · exact placedAt_mono hc (h.older b hb' hid hs)
  · have := h.mark; have := hb'.1; omega

theorem StartOK.mono {s s' : State} {st : Cur} (h : StartOK s st) (hc : ChunksCov s s') : StartOK s' st := by
  cases st with
  | chunk j =>
    obtain ⟨c, hj⟩ := h
    obtain ⟨c', hc', _⟩ := hc j c hj
    exact ⟨c', hc'⟩
  | unallocated => trivial
  | claimed => trivial

theorem FramesOK.mono {s s' : State} (hc : ChunksCov s s') (hl : LiveSub s s') (hn : s.nextId ≤ s'.nextId) :
    ∀ (fs : List Frame) (ma : Nat) (ms : List Nat), FramesOK cfg s ma fs ms → FramesOK cfg s' ma fs ms := by
  intro fs
  induction fs with
  | nil =>
    intro ma ms h
    cases ms with
    | nil => simp only [FramesOK]
    | cons m ms => simp only [FramesOK] at h
  | cons f fs ih =>
    intro ma ms h
    cases f with
    | scope cp =>
      cases ms with
      | nil => simp only [FramesOK] at h
      | cons m ms =>
        simp only [FramesOK] at h ⊢
        exact ⟨h.1.mono hc hl hn, ih _ _ h.2⟩
    | scopedAligned cp outer =>
      cases ms with
      | nil => simp only [FramesOK] at h
      | cons m ms =>
        simp only [FramesOK] at h ⊢
        exact ⟨h.1, h.2.1.mono hc hl hn, ih _ _ h.2.2⟩
    | alignedLower outer start =>
      simp only [FramesOK] at h ⊢
      exact ⟨h.1, h.2.1.mono hc, ih _ _ h.2.2⟩
    | alignedRaise outer =>
      simp only [FramesOK] at h ⊢
      exact ⟨h.1, h.2.1, ih _ _ h.2.2⟩
    | claim =>
      simp only [FramesOK] at h ⊢
      exact ih _ _ h

theorem FramesOK.mono' {s s' : State} {ma : Nat} {fs : List Frame} {ms : List Nat} (h : FramesOK cfg s ma fs ms)
    (hc : ChunksCov s s') (hl : LiveSub s s') (hn : s.nextId ≤ s'.nextId) : FramesOK cfg s' ma fs ms :=
  FramesOK.mono hc hl hn fs ma ms h

/-- the frame predicate does not look at anything but chunks, live blocks and the id counter -/
theorem FramesOK.congr {s s' : State} {ma : Nat} {fs : List Frame} {ms : List Nat} (h : FramesOK cfg s ma fs ms)
    (hch : s'.chunks = s.chunks) (hl : s'.live = s.live) (hn : s'.nextId = s.nextId) : FramesOK cfg s' ma fs ms :=
  h.mono' (ChunksCov.of_eq hch) (LiveSub.of_eq hl) (Nat.le_of_eq hn.symm)

/-- with no frame open there are no marks -/
theorem FramesOK.nil_marks {s : State} {ma : Nat} {ms : List Nat} (h : FramesOK cfg s ma [] ms) : ms = [] := by
  cases ms with
  | nil => rfl
  | cons m ms => simp only [FramesOK] at h

/-- a prepared range depends on the current chunk (address range and position) only -/
theorem PrepOK.congr {s s' : State} {p : Prepared} (h : PrepOK cfg s p)
    (hcur : s'.cur = s.cur)
    (hch : ∀ i c, s.cur = .chunk i → s.chunks[i]? = some c →
      ∃ c', s'.chunks[i]? = some c' ∧ c'.base = c.base ∧ c'.size = c.size ∧ c'.pos = c.pos) : PrepOK cfg s' p := by
  refine ⟨?_, h.p2, h.start_al, h.end_al, h.typed⟩
  obtain ⟨i, c, h1, h2, h3, h4⟩ := h.range
  obtain ⟨c', hc', e1, e2, e3⟩ := hch i c h1 h2
  refine ⟨i, c', hcur.trans h1, hc', h3, ?_⟩
  rw [contentStart_same e1, contentEnd_same e1 e2, e3]
  exact h4

/-! ## Facts that follow from `Inv` -/

theorem disjoint_iff (s : State) : ChunksDisjoint s ↔ Mem.ChunksDisjoint s.chunks := by
  unfold ChunksDisjoint Mem.ChunksDisjoint
  rw [List.pairwise_iff_getElem]
  constructor
  · intro h i j hi hj hij
    exact h i j _ _ (by omega) (List.getElem?_eq_getElem hi) (List.getElem?_eq_getElem hj)
  · intro h i j a b hij ha hb
    obtain ⟨hi, rfl⟩ := List.getElem?_eq_some_iff.mp ha
    obtain ⟨hj, rfl⟩ := List.getElem?_eq_some_iff.mp hb
    rcases Nat.lt_or_gt_of_ne hij with hlt | hlt
    · exact h i j hi hj hlt
    · have := h j i hj hi hlt
      omega

theorem memWF_of {s : State} (hg : GeomInv cfg s) (hd : ChunksDisjoint s) : Mem.MemWF s :=
  ⟨(disjoint_iff s).mp hd, fun c hc => (hg.mem hc).data⟩

theorem curPosOK_of {s : State} (hg : GeomInv cfg s) : Mem.CurPosOK cfg s := by
  intro i c hcur hc
  have hw := hg.chunks i c hc
  exact ⟨hw.pos_ge, hw.pos_le⟩

theorem Inv.memWF {g : GState} (h : Inv cfg g) : Mem.MemWF g.s := memWF_of h.geom h.disj
theorem Inv.curPosOK {g : GState} (h : Inv cfg g) : Mem.CurPosOK cfg g.s := curPosOK_of h.geom
theorem Inv.minAlignOK {g : GState} (h : Inv cfg g) : Mem.MinAlignOK g.s := h.geom.minAlign

/-- the ghost placement of a non-empty live block, in the vocabulary of `Arena/Inv.lean` -/
theorem liveBlock_of_placed {s : State} {a sz : Nat} (h : Mem.Placed cfg s a sz) : LiveBlock cfg s a sz := by
  obtain ⟨i, j, c, h1, h2, h3, h4, h5⟩ := h
  exact ⟨i, j, c, h1, h2, h3, h4.1, h4.2, h5⟩

/-- THE BRIDGE: a live block that passes the `is_last` test lies in the content range of the current
    chunk on the allocated side of the bump position — this is what the function-level theorems of
    C10 (`deallocate_inv`, `grow_inv`, `shrink_inv`, …) ask for -/
theorem Inv.blockInCur {g : GState} (h : Inv cfg g) {b : Block} (hb : b ∈ g.s.live)
    (hlast : isLast cfg g.s b.addr b.size = true) : BlockInCur cfg g.s b.addr b.size := by
  by_cases hs : 0 < b.size
  · exact (liveBlock_of_placed (h.live.placed b hb hs)).blockInCur h.cfgOK h.geom h.disj hlast
  · have hz : b.size = 0 := by omega
    cases hcur : g.s.cur with
    | claimed => exact absurd hcur h.notClaimed
    | unallocated =>
      have := h.liveCur hcur
      rw [this] at hb; cases hb
    | chunk i =>
      obtain ⟨c, hi, hw, _⟩ := h.geom.curChunk hcur
      have hpos := isLast_pos hlast hcur hi
      refine ⟨i, c, hcur, hi, ?_⟩
      have h1 := hw.pos_ge; have h2 := hw.pos_le
      rw [hz] at hpos ⊢
      cases hup : cfg.up
      · simp only [hup, Bool.false_eq_true, ↓reduceIte] at hpos ⊢; omega
      · simp only [hup, ↓reduceIte] at hpos ⊢; omega

theorem Inv.blockInCur' {g : GState} (h : Inv cfg g) {b : Block} (hb : b ∈ g.s.live) :
    isLast cfg g.s b.addr b.size = true → BlockInCur cfg g.s b.addr b.size := h.blockInCur hb

/-- the pending responses are fresh in the sense of the memory world too -/
theorem headFresh_of {s : State} (hf : RespsFresh s) : Mem.HeadFresh s := by
  intro p g rest hr x hx
  unfold Mem.shapeOf at hx
  obtain ⟨c, hc, rfl⟩ := List.mem_map.mp hx
  obtain ⟨i, hi, rfl⟩ := List.getElem_of_mem hc
  exact hf.2 p g (by rw [hr]; exact List.mem_cons_self) i _ (List.getElem?_eq_getElem hi)

/-! ## The invariant does not depend on the per-step base-allocator fields -/

theorem liveOK_congr {s s' : State} (hch : s'.chunks = s.chunks) (hcur : s'.cur = s.cur) (hl : s'.live = s.live)
    (h : Mem.LiveOK cfg s) : Mem.LiveOK cfg s' :=
  Mem.LiveOK.of_geom (by rw [hch]) hcur hl h

theorem geom_congr {s s' : State} (hch : s'.chunks = s.chunks) (hcur : s'.cur = s.cur)
    (hma : s'.minAlign = s.minAlign) (h : GeomInv cfg s) : GeomInv cfg s' :=
  ⟨fun i c hi => h.chunks i c (hch ▸ hi), hma ▸ h.minAlign, fun i hi => by
    obtain ⟨c, h1, h2⟩ := h.cur i (hcur ▸ hi)
    exact ⟨c, by rw [hch]; exact h1, by rw [hma]; exact h2⟩⟩

theorem disj_congr {s s' : State} (hch : s'.chunks = s.chunks) (h : ChunksDisjoint s) : ChunksDisjoint s' := by
  intro i j a b hij ha hb
  rw [hch] at ha hb
  exact h i j a b hij ha hb

theorem Inv.install {g : GState} (h : Inv cfg g) (resps : List BaseResp) : Inv cfg (install g resps) :=
  ⟨h.cfgOK, geom_congr (s := g.s) rfl rfl rfl h.geom, disj_congr (s := g.s) rfl h.disj,
   liveOK_congr (s := g.s) rfl rfl rfl h.live, h.unalloc,
   h.notClaimed, h.liveCur, h.ids, h.aligns,
   FramesOK.mono (s := g.s) (s' := (Hist.install g resps).s) (ChunksCov.of_eq rfl) (LiveSub.of_eq rfl) (Nat.le_refl _) _ _ _ h.frames, h.marks,
   fun x hx => (h.cps x hx).mono (ChunksCov.of_eq rfl) (LiveSub.of_eq rfl) (Nat.le_refl _),
   fun p hp => (h.prep p hp).congr rfl (fun i c _ hc => ⟨c, hc, rfl, rfl, rfl⟩)⟩

/-! ## The initial state -/

theorem liveOK_nil {s : State} (h : s.live = []) : Mem.LiveOK cfg s :=
  ⟨fun b hb => (by rw [h] at hb; cases hb), fun b hb => (by rw [h] at hb; cases hb),
   (by rw [h]; exact List.Pairwise.nil)⟩

theorem inv_init (hc : CfgOK cfg) : Inv cfg (initG cfg) := by
  obtain ⟨h1, _, h3, h4⟩ := C10.initState_inv hc
  refine ⟨hc, h1, h4, liveOK_nil rfl, h3, by simp [initG, initState], fun _ => rfl, ?_, ?_, ?_, ?_, ?_, ?_⟩
  · intro b hb; simp [initG, initState] at hb
  · intro b hb; simp [initG, initState] at hb
  · simp only [initG, initState, FramesOK]
  · intro m hm; simp [initG] at hm
  · intro x hx; simp [initG, initState] at hx
  · intro p hp; simp [initG, initState] at hp

end Arena.Hist
