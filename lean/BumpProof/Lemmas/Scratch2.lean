import BumpProof.Lemmas.RsOps
namespace Lemmas
open Gen.Bumping Rs C11
theorem assert_dec {P : Prop} {inst : Decidable P} (h : P) : Rs.assert (@decide P inst) = .ok () :=
  assert_ok (decide_eq_true h)
theorem mca : MIN_CHUNK_ALIGN = 16 := rfl

example (m : Nat) (hm16 : m ≤ 16) : (do Rs.assert (decide (m ≤ MIN_CHUNK_ALIGN)); Rs.assert (decide (m ≤ 16))) = .ok () := by
  rw [mca]
  simp (disch := assumption) only [assert_dec, ok_bind]
example (p : BumpProps) : bump_up p = .ok none := by
  unfold bump_up
  rw [mca]
  set_option pp.explicit true in trace_state
  sorry
end Lemmas
