/-
  Lemmas/Align.lean — facts about `Spec.upAlign` / `Spec.downAlign`, powers of two
  and the bit-mask formulas used by the generated code.
-/
import BumpProof.Rs
import BumpProof.Spec.Bump

namespace Lemmas
open Rs

/-! ## `downAlign` / `upAlign` over unbounded naturals -/

theorem downAlign_eq (x a : Nat) : Spec.downAlign x a = x - x % a := by
  unfold Spec.downAlign
  have := Nat.div_add_mod x a
  rw [Nat.mul_comm] at this
  omega

theorem downAlign_dvd (x a : Nat) : a ∣ Spec.downAlign x a :=
  Nat.dvd_mul_left a _

theorem downAlign_le (x a : Nat) : Spec.downAlign x a ≤ x :=
  Nat.div_mul_le_self x a

theorem lt_downAlign_add {a : Nat} (x : Nat) (ha : 0 < a) : x < Spec.downAlign x a + a := by
  rw [downAlign_eq]
  have := Nat.mod_lt x ha
  have := Nat.mod_le x a
  omega

theorem le_downAlign_of_dvd {x a q : Nat} (ha : 0 < a) (hq : a ∣ q) (hqx : q ≤ x) :
    q ≤ Spec.downAlign x a := by
  obtain ⟨c, rfl⟩ := hq
  unfold Spec.downAlign
  rw [Nat.mul_comm a c]
  rw [Nat.mul_comm a c] at hqx
  exact Nat.mul_le_mul_right a ((Nat.le_div_iff_mul_le ha).2 hqx)

theorem downAlign_eq_self {x a : Nat} (h : a ∣ x) : Spec.downAlign x a = x := by
  rw [downAlign_eq, Nat.mod_eq_zero_of_dvd h]; rfl

theorem downAlign_zero (a : Nat) : Spec.downAlign 0 a = 0 := by
  unfold Spec.downAlign; simp

theorem downAlign_mono {x y : Nat} (a : Nat) (h : x ≤ y) : Spec.downAlign x a ≤ Spec.downAlign y a := by
  unfold Spec.downAlign
  exact Nat.mul_le_mul_right a (Nat.div_le_div_right h)

theorem upAlign_eq_downAlign (x a : Nat) : Spec.upAlign x a = Spec.downAlign (x + (a - 1)) a := rfl

theorem upAlign_dvd (x a : Nat) : a ∣ Spec.upAlign x a :=
  Nat.dvd_mul_left a _

theorem le_upAlign {a : Nat} (x : Nat) (ha : 0 < a) : x ≤ Spec.upAlign x a := by
  have := lt_downAlign_add (x + (a - 1)) ha
  rw [upAlign_eq_downAlign]
  omega

theorem upAlign_le_of_dvd {x a q : Nat} (ha : 0 < a) (hq : a ∣ q) (hxq : x ≤ q) :
    Spec.upAlign x a ≤ q := by
  obtain ⟨c, rfl⟩ := hq
  unfold Spec.upAlign
  rw [Nat.mul_comm a c]
  apply Nat.mul_le_mul_right
  apply Nat.le_of_lt_succ
  rw [Nat.div_lt_iff_lt_mul ha]
  have : (c + 1) * a = c * a + a := Nat.succ_mul c a
  rw [Nat.mul_comm a c] at hxq
  show x + (a - 1) < (c + 1) * a
  omega

theorem upAlign_lt {a : Nat} (x : Nat) (ha : 0 < a) : Spec.upAlign x a < x + a := by
  have := downAlign_le (x + (a - 1)) a
  rw [upAlign_eq_downAlign]
  omega

theorem upAlign_eq_self {x a : Nat} (ha : 0 < a) (h : a ∣ x) : Spec.upAlign x a = x :=
  Nat.le_antisymm (upAlign_le_of_dvd ha h (Nat.le_refl x)) (le_upAlign x ha)

theorem upAlign_mono {x y : Nat} (a : Nat) (h : x ≤ y) : Spec.upAlign x a ≤ Spec.upAlign y a := by
  rw [upAlign_eq_downAlign, upAlign_eq_downAlign]
  exact downAlign_mono a (by omega)

/-- the formula used by the generic path of `bump_up` -/
theorem downAlign_pred_add {x a : Nat} (hx : 0 < x) (ha : 0 < a) :
    Spec.downAlign (x - 1) a + a = Spec.upAlign x a := by
  unfold Spec.downAlign Spec.upAlign
  have h1 : x + (a - 1) = (x - 1) + a := by omega
  rw [h1, Nat.add_div_right _ ha, Nat.succ_mul]

/-- `downAlign e a` is at least any `a`-aligned address below `e`. -/
theorem upAlign_le_downAlign {s e a : Nat} (ha : 0 < a) (h : Spec.upAlign s a ≤ e) :
    Spec.upAlign s a ≤ Spec.downAlign e a :=
  le_downAlign_of_dvd ha (upAlign_dvd s a) h

/-! ## Powers of two -/

/-- `a` is a power of two -/
def P2 (a : Nat) : Prop := ∃ k, a = 2 ^ k

theorem P2.pos {a : Nat} (h : P2 a) : 0 < a := by
  obtain ⟨k, rfl⟩ := h; exact Nat.pow_pos (by decide)

theorem P2.dvd_of_le {a b : Nat} (ha : P2 a) (hb : P2 b) (h : a ≤ b) : a ∣ b := by
  obtain ⟨i, rfl⟩ := ha
  obtain ⟨j, rfl⟩ := hb
  exact Nat.pow_dvd_pow 2 ((Nat.pow_le_pow_iff_right (by decide)).1 h)

theorem P2.dvd_or_dvd {a b : Nat} (ha : P2 a) (hb : P2 b) : a ∣ b ∨ b ∣ a := by
  rcases Nat.le_total a b with h | h
  · exact Or.inl (ha.dvd_of_le hb h)
  · exact Or.inr (hb.dvd_of_le ha h)

theorem P2.sixteen : P2 16 := ⟨4, rfl⟩

theorem P2.max {a b : Nat} (ha : P2 a) (hb : P2 b) : P2 (Nat.max a b) := by
  rcases Nat.le_total a b with h | h
  · rw [show Nat.max a b = b from Nat.max_eq_right h]; exact hb
  · rw [show Nat.max a b = a from Nat.max_eq_left h]; exact ha

theorem P2.dvd_two_pow_64 {a : Nat} (ha : P2 a) (h : a < 2 ^ 64) : a ∣ 2 ^ 64 :=
  ha.dvd_of_le ⟨64, rfl⟩ (Nat.le_of_lt h)

/-- aligning up to a power of two keeps every smaller-or-larger power-of-two alignment -/
theorem P2.dvd_upAlign {m a x : Nat} (hm : P2 m) (ha : P2 a) (h : m ∣ x) : m ∣ Spec.upAlign x a := by
  rcases hm.dvd_or_dvd ha with h1 | h1
  · exact Nat.dvd_trans h1 (upAlign_dvd x a)
  · rw [upAlign_eq_self ha.pos (Nat.dvd_trans h1 h)]; exact h

theorem P2.dvd_downAlign {m a x : Nat} (hm : P2 m) (ha : P2 a) (h : m ∣ x) : m ∣ Spec.downAlign x a := by
  rcases hm.dvd_or_dvd ha with h1 | h1
  · exact Nat.dvd_trans h1 (downAlign_dvd x a)
  · rw [downAlign_eq_self (Nat.dvd_trans h1 h)]; exact h

theorem rs_max_eq (a b : Nat) : Rs.max a b = Nat.max a b := by
  unfold Rs.max
  split
  · exact (Nat.max_eq_left ‹_›).symm
  · exact (Nat.max_eq_right (by omega)).symm

theorem dvd_max_left {a b : Nat} (ha : P2 a) (hb : P2 b) : a ∣ Nat.max a b := by
  rcases Nat.le_total a b with h | h
  · rw [show Nat.max a b = b from Nat.max_eq_right h]; exact ha.dvd_of_le hb h
  · rw [show Nat.max a b = a from Nat.max_eq_left h]; exact Nat.dvd_refl a

theorem dvd_max_right {a b : Nat} (ha : P2 a) (hb : P2 b) : b ∣ Nat.max a b := by
  rcases Nat.le_total a b with h | h
  · rw [show Nat.max a b = b from Nat.max_eq_right h]; exact Nat.dvd_refl b
  · rw [show Nat.max a b = a from Nat.max_eq_left h]; exact hb.dvd_of_le ha h

/-! ## Bit masks -/

theorem two_pow_64 : (2:Nat) ^ 64 = 18446744073709551616 := by decide

theorem is_power_of_two_two_pow (k : Nat) : Rs.is_power_of_two (2 ^ k) = true := by
  unfold Rs.is_power_of_two
  have hpos : 0 < 2 ^ k := Nat.pow_pos (by decide)
  have h1 : (2 ^ k &&& (2 ^ k - 1)) = 0 := by
    rw [Nat.and_two_pow_sub_one_eq_mod]
    exact Nat.mod_self _
  simp [h1]

theorem P2.is_power_of_two {a : Nat} (h : P2 a) : Rs.is_power_of_two a = true := by
  obtain ⟨k, rfl⟩ := h; exact is_power_of_two_two_pow k

theorem band_mask_two_pow (x k : Nat) : Rs.band x (2 ^ k - 1) = x % 2 ^ k := by
  unfold Rs.band; exact Nat.and_two_pow_sub_one_eq_mod x k

theorem band_bnot_two_pow {x k : Nat} (hx : x < 2 ^ 64) (hk : k ≤ 64) :
    Rs.band x (Rs.bnot (2 ^ k - 1)) = x - x % 2 ^ k := by
  unfold Rs.band Rs.bnot Rs.MAX
  have hpos : 0 < 2 ^ k := Nat.pow_pos (by decide)
  have hsplit : (2:Nat) ^ 64 = 2 ^ k * 2 ^ (64 - k) := by
    rw [← Nat.pow_add]; congr 1; omega
  have h1 : 2 ^ 64 - 1 - (2 ^ k - 1) = 2 ^ k * (2 ^ (64 - k) - 1) := by
    rw [Nat.mul_sub, Nat.mul_one, ← hsplit]; omega
  have h2 : x - x % 2 ^ k = 2 ^ k * (x / 2 ^ k) := by
    have := Nat.div_add_mod x (2 ^ k); omega
  rw [h1, h2]
  apply Nat.eq_of_testBit_eq
  intro i
  rw [Nat.testBit_and, Nat.testBit_two_pow_mul, Nat.testBit_two_pow_mul, Nat.testBit_two_pow_sub_one,
    Nat.testBit_div_two_pow]
  by_cases hik : k ≤ i
  · have hi : i - k + k = i := by omega
    simp only [hik, decide_true, Bool.true_and, hi]
    by_cases hi64 : i < 64
    · have : i - k < 64 - k := by omega
      simp [this]
    · have : x < 2 ^ i := Nat.lt_of_lt_of_le hx (Nat.pow_le_pow_right (by decide) (by omega))
      simp [Nat.testBit_lt_two_pow this]
  · simp [hik]

/-- `P2` form of the mask lemmas, for alignments below `2^64` -/
theorem P2.band_mask {a : Nat} (ha : P2 a) (x : Nat) : Rs.band x (a - 1) = x % a := by
  obtain ⟨k, rfl⟩ := ha; exact band_mask_two_pow x k

theorem P2.band_bnot {a x : Nat} (ha : P2 a) (ha64 : a < 2 ^ 64) (hx : x < 2 ^ 64) :
    Rs.band x (Rs.bnot (a - 1)) = Spec.downAlign x a := by
  obtain ⟨k, rfl⟩ := ha
  have hk : k < 64 := (Nat.pow_lt_pow_iff_right (by decide)).1 ha64
  rw [band_bnot_two_pow hx (Nat.le_of_lt hk), downAlign_eq]

theorem P2.band_mask_eq_zero {a x : Nat} (ha : P2 a) (h : a ∣ x) : Rs.band x (a - 1) = 0 := by
  rw [ha.band_mask, Nat.mod_eq_zero_of_dvd h]

end Lemmas
