/-
  Lemmas/EqBumpDown.lean — `bump_down` computes `Spec.bumpDown`.
-/
import BumpProof.Lemmas.RsOps
set_option linter.unusedSimpArgs false
set_option linter.unusedVariables false
namespace Lemmas
open Gen.Bumping Rs C11
attribute [local congr] rs_bind_congr rs_ite_congr

/- common set-up of the two halves of the proof (`size_is_const` false / true): unfold,
    discharge `debug_assert_valid`, name the components, collect the facts about
    `M = max align min_align` and the result `D = downAlign (end - size) M`. -/
set_option hygiene false in
local macro "bump_down_setup" : tactic => `(tactic| (
  have hdav := debug_assert_valid_eq h
  have hf := Valid.facts h
  unfold bump_down
  rw [mca, hdav]
  simp only [ok_bind]
  obtain ⟨s, e, m, ⟨sz, a⟩, aic, sic, smoa⟩ := p
  simp only at hf ⊢
  clear hdav h
  obtain ⟨hm, hm16, hm16d, ha, ha64, hap, hmp, hs0, he0, hs64, he64, hsz, htr, h16, hr⟩ := hf
  have hszI : as_isize sz = (sz : Int) := as_isize_small' (by omega)
  simp only [Bool.false_eq_true, ↓reduceIte] at hr
  unfold Spec.bumpDown
  simp only [rs_max_eq, saturating_sub]
  -- facts about the effective alignment `M = max a m`
  have hM : P2 (Nat.max a m) := ha.max hm
  have haM := dvd_max_left ha hm
  have hmM := dvd_max_right ha hm
  have hM64 : Nat.max a m < 2 ^ 64 := by
    rcases Nat.le_total a m with h | h
    · rw [show Nat.max a m = m from Nat.max_eq_right h]; omega
    · rw [show Nat.max a m = a from Nat.max_eq_left h]; omega
  have hMm : a ≤ m → Nat.max a m = m := fun h => Nat.max_eq_right h
  have hM16 : a ≤ 16 → Nat.max a m ∣ 16 := fun h =>
    hM.dvd_of_le h16 (Nat.max_le.2 ⟨h, hm16⟩)
  have hMp := hM.pos
  generalize hMdef : Nat.max a m = M at *
  -- range facts
  have he16 : 16 ≤ e := by
    rcases hr with ⟨h1, h2, h3, h4⟩ | ⟨h1, h2, h3⟩ <;> omega
  have hme : m ∣ e := by
    rcases hr with ⟨h1, h2, h3, h4⟩ | ⟨h1, h2, h3⟩
    · exact h4
    · exact Nat.dvd_trans hm16d h2
  have hs16 : 16 ∣ s := by
    rcases hr with ⟨h1, h2, h3, h4⟩ | ⟨h1, h2, h3⟩
    · exact h3
    · exact h3
  -- facts about the result `D`
  have hspec : (if sz ≤ e then (have ptr := Spec.downAlign (e - sz) M; if s ≤ ptr then some ptr else none) else none)
      = if s ≤ Spec.downAlign (e - sz) M then some (Spec.downAlign (e - sz) M) else none := by
    by_cases h : sz ≤ e
    · simp only [h, ↓reduceIte]
    · have h0 : e - sz = 0 := by omega
      have : ¬ s ≤ 0 := by omega
      simp only [h, h0, downAlign_zero, this, ↓reduceIte]
  rw [hspec]
  have hD1 := downAlign_dvd (e - sz) M
  have hD2 := downAlign_le (e - sz) M
  have hD3 := lt_downAlign_add (e - sz) hMp
  have hDa : a ∣ Spec.downAlign (e - sz) M := Nat.dvd_trans haM hD1
  have hDm : m ∣ Spec.downAlign (e - sz) M := Nat.dvd_trans hmM hD1
  have hD4 : ∀ q, M ∣ q → q ≤ e - sz → q ≤ Spec.downAlign (e - sz) M :=
    fun q h1 h2 => le_downAlign_of_dvd hMp h1 h2
  have hDself : M ∣ e - sz → Spec.downAlign (e - sz) M = e - sz := downAlign_eq_self
  have he0' : e - sz < 2 ^ 64 := by omega
  have hda : down_align (e - sz) M = .ok (Spec.downAlign (e - sz) M) := down_align_eq hM hM64 he0'
  generalize hDdef : Spec.downAlign (e - sz) M = D at *
  -- when aligning is elided, `e - sz` is already aligned
  have hNf : smoa = true → a ≤ m → (m ≤ a ∨ sz % m = 0) → D = e - sz := by
    intro h1 h2 h3
    have hms : m ∣ sz := by
      rcases h3 with h3 | h3
      · have : a = m := Nat.le_antisymm h2 h3
        exact this ▸ htr h1
      · exact Nat.dvd_of_mod_eq_zero h3
    exact hDself ((hMm h2).symm ▸ Nat.dvd_sub hme hms)))

theorem bump_down_ok_false (p : BumpProps) (h : Valid false p) (hsic : p.size_is_const = false) :
    bump_down p = .ok (Spec.bumpDown p.start p.«end» p.layout.size p.layout.align p.min_align) := by
  bump_down_setup
  simp only at hsic
  subst hsic
  simp only [↓reduceIte, Bool.false_and, Bool.false_eq_true]
  by_cases hN : (!(smoa && aic && decide (a ≤ m) && (smoa && aic && decide (a ≥ m) || false))) = true
  · simp only [hN, ↓reduceIte]
    clear hN
    by_cases b2 : (aic && decide (a ≤ 16)) = true
    · simp only [b2, ↓reduceIte]
      simp only [Bool.and_eq_true, decide_eq_true_eq] at b2
      rcases hr with ⟨h1, h2, h3, h4⟩ | ⟨h1, h2, h3⟩
      · by_cases hcmp : (sz : Int) > ((e - s : Nat) : Int)
        · have : ¬ s ≤ D := by omega
          rs_simp [hszI, hda, hDdef, hcmp, this]
        · have : s ≤ D := hD4 s (Nat.dvd_trans (hM16 b2.2) h3) (by omega)
          rs_simp [hszI, hda, hDdef, hcmp, this]
      · subst h1
        have : ¬ (e + 16 ≤ D) := by omega
        have h5 : (sz : Int) > -16 := by omega
        rs_simp [hszI, hda, hDdef, this, h5]
    · simp only [b2, ↓reduceIte, Bool.false_eq_true]
      by_cases hlt : D < s
      · have : ¬ s ≤ D := by omega
        rs_simp [hszI, hda, hDdef, hlt, this]
      · have : s ≤ D := by omega
        rs_simp [hszI, hda, hDdef, hlt, this]
  · simp only [hN, Bool.false_eq_true, ↓reduceIte]
    simp only [Bool.not_eq_true', Bool.not_eq_false, Bool.and_eq_true, Bool.or_eq_true, decide_eq_true_eq, Bool.or_false] at hN
    have hDeq : D = e - sz := hNf hN.1.1.1 hN.1.2 (by omega)
    clear hN
    subst hDeq
    by_cases b2 : (aic && decide (a ≤ 16)) = true
    · simp only [b2, ↓reduceIte]
      simp only [Bool.and_eq_true, decide_eq_true_eq] at b2
      rcases hr with ⟨h1, h2, h3, h4⟩ | ⟨h1, h2, h3⟩
      · by_cases hcmp : (sz : Int) > ((e - s : Nat) : Int)
        · have : ¬ s ≤ (e - sz) := by omega
          rs_simp [hszI, hda, hDdef, hcmp, this]
        · have : s ≤ (e - sz) := by omega
          rs_simp [hszI, hda, hDdef, hcmp, this]
      · subst h1
        have : ¬ (e + 16 ≤ (e - sz)) := by omega
        have h5 : (sz : Int) > -16 := by omega
        rs_simp [hszI, hda, hDdef, this, h5]
    · simp only [b2, ↓reduceIte, Bool.false_eq_true]
      by_cases hlt : (e - sz) < s
      · have : ¬ s ≤ (e - sz) := by omega
        rs_simp [hszI, hda, hDdef, hlt, this]
      · have : s ≤ (e - sz) := by omega
        rs_simp [hszI, hda, hDdef, hlt, this]

theorem bump_down_ok_true (p : BumpProps) (h : Valid false p) (hsic : p.size_is_const = true) :
    bump_down p = .ok (Spec.bumpDown p.start p.«end» p.layout.size p.layout.align p.min_align) := by
  bump_down_setup
  simp only at hsic
  subst hsic
  simp only [↓reduceIte, Bool.true_and]
  simp (disch := omega) only [rem_ok, ok_bind]
  by_cases hN : (!(smoa && aic && decide (a ≤ m) && (smoa && aic && decide (a ≥ m) || decide (sz % m = 0)))) = true
  · simp only [hN, ↓reduceIte]
    clear hN
    by_cases b1 : sz ≤ 16
    · by_cases hlt : D < s
      · have : ¬ s ≤ D := by omega
        rs_simp [hszI, hda, hDdef, b1, hlt, this]
      · have : s ≤ D := by omega
        rs_simp [hszI, hda, hDdef, b1, hlt, this]
    · simp only [b1, decide_false, ↓reduceIte, Bool.false_eq_true]
      by_cases b2 : (aic && decide (a ≤ 16)) = true
      · simp only [b2, ↓reduceIte]
        simp only [Bool.and_eq_true, decide_eq_true_eq] at b2
        rcases hr with ⟨h1, h2, h3, h4⟩ | ⟨h1, h2, h3⟩
        · by_cases hcmp : (sz : Int) > ((e - s : Nat) : Int)
          · have : ¬ s ≤ D := by omega
            rs_simp [hszI, hda, hDdef, hcmp, this]
          · have : s ≤ D := hD4 s (Nat.dvd_trans (hM16 b2.2) h3) (by omega)
            rs_simp [hszI, hda, hDdef, hcmp, this]
        · subst h1
          have : ¬ (e + 16 ≤ D) := by omega
          have h5 : (sz : Int) > -16 := by omega
          rs_simp [hszI, hda, hDdef, this, h5]
      · simp only [b2, ↓reduceIte, Bool.false_eq_true]
        by_cases hlt : D < s
        · have : ¬ s ≤ D := by omega
          rs_simp [hszI, hda, hDdef, hlt, this]
        · have : s ≤ D := by omega
          rs_simp [hszI, hda, hDdef, hlt, this]
  · simp only [hN, Bool.false_eq_true, ↓reduceIte]
    simp only [Bool.not_eq_true', Bool.not_eq_false, Bool.and_eq_true, Bool.or_eq_true, decide_eq_true_eq, Bool.or_false] at hN
    have hDeq : D = e - sz := hNf hN.1.1.1 hN.1.2 (by omega)
    clear hN
    subst hDeq
    by_cases b1 : sz ≤ 16
    · by_cases hlt : (e - sz) < s
      · have : ¬ s ≤ (e - sz) := by omega
        rs_simp [hszI, hda, hDdef, b1, hlt, this]
      · have : s ≤ (e - sz) := by omega
        rs_simp [hszI, hda, hDdef, b1, hlt, this]
    · simp only [b1, decide_false, ↓reduceIte, Bool.false_eq_true]
      by_cases b2 : (aic && decide (a ≤ 16)) = true
      · simp only [b2, ↓reduceIte]
        simp only [Bool.and_eq_true, decide_eq_true_eq] at b2
        rcases hr with ⟨h1, h2, h3, h4⟩ | ⟨h1, h2, h3⟩
        · by_cases hcmp : (sz : Int) > ((e - s : Nat) : Int)
          · have : ¬ s ≤ (e - sz) := by omega
            rs_simp [hszI, hda, hDdef, hcmp, this]
          · have : s ≤ (e - sz) := by omega
            rs_simp [hszI, hda, hDdef, hcmp, this]
        · subst h1
          have : ¬ (e + 16 ≤ (e - sz)) := by omega
          have h5 : (sz : Int) > -16 := by omega
          rs_simp [hszI, hda, hDdef, this, h5]
      · simp only [b2, ↓reduceIte, Bool.false_eq_true]
        by_cases hlt : (e - sz) < s
        · have : ¬ s ≤ (e - sz) := by omega
          rs_simp [hszI, hda, hDdef, hlt, this]
        · have : s ≤ (e - sz) := by omega
          rs_simp [hszI, hda, hDdef, hlt, this]

theorem bump_down_ok (p : BumpProps) (h : Valid false p) :
    bump_down p = .ok (Spec.bumpDown p.start p.«end» p.layout.size p.layout.align p.min_align) := by
  cases hsic : p.size_is_const
  · exact bump_down_ok_false p h hsic
  · exact bump_down_ok_true p h hsic

end Lemmas
