/-
  Lemmas/HistNoFault2.lean — NO-FAULT companion of the preservation of `Arena.Hist.Inv`, part 2:
  the allocating operations, the constructors, the prepared-allocation commits, `shrink_slice`.
-/
import BumpProof.Lemmas.HistNoFault
set_option linter.unusedSimpArgs false
set_option linter.unusedVariables false
namespace Arena.Hist
open Rs
variable {cfg : Cfg}

/-! ## helpers -/

/-- a placed range is writable -/
theorem placed_writable {s : State} (hg : GeomInv cfg s) (hd : ChunksDisjoint s) {a n : Nat}
    (hp : 0 < n → Mem.Placed cfg s a n) (f : Nat → UInt8) : ∃ s', writeRange cfg s a (a + n) f = .ok s' := by
  apply writeRange_noFault hd
  by_cases hs : 0 < n
  · obtain ⟨i, j, c, _, _, hcj, hin, _⟩ := hp hs
    exact Or.inr ⟨j, c, hcj, hg.chunks j c hcj, hin.1, hin.2⟩
  · left; omega

/-! ## allocate, allocLayout, prepare, prepareSlice, reserve -/

theorem noFault_allocate {g : GState} {L : Layout} {z : Bool} {via : Via} (h : Inv cfg g)
    (hr : RespsOK cfg g.s) (hfr : RespsFresh g.s) (hans : BaseOK cfg g.s L) :
    ∀ f, stepCore cfg g (.allocate L z via) = .error f → ¬ Fault.isBug f := by
  intro f hf
  unfold stepCore at hf
  simp only [bind, Except.bind, pure, Except.pure] at hf
  split at hf
  · rename_i e he; cases hf; exact validLayout_err he
  · rename_i u hu
    have hL := validLayout_valid hu
    split at hf
    · rename_i e he; cases hf; exact noPrepared_err he
    · split at hf
      · rename_i e he
        obtain ⟨s', r, hs'⟩ := C10.alloc_noFault h.cfgOK h.geom hr hL hans
        rw [hs'] at he; cases he
      · rename_i x hx
        obtain ⟨s1, r1⟩ := x
        obtain ⟨r', hr', p⟩ := alloc_post h.cfgOK h.geom hr h.disj hfr hL hx
        cases r' with
        | error e =>
          simp only [Except.map] at hr'
          subst hr'
          simp only at hf
          cases hf
        | ok v =>
          simp only [Except.map] at hr'
          subst hr'
          simp only at hf
          cases z
          · simp only [Bool.false_eq_true, ↓reduceIte] at hf
            cases hf
          · simp only [↓reduceIte] at hf
            split at hf
            · rename_i e he
              have hout := p.outcome rfl v rfl h.live
              obtain ⟨s2, hs2⟩ := placed_writable (cfg := cfg) p.inv p.disj (a := v.1) (n := L.size)
                (fun _ => hout.placed) (fun _ => 0)
              unfold zeroRange at he
              rw [hs2] at he; cases he
            · cases hf

theorem noFault_allocLayout {g : GState} {L : Layout} {hh : Hints} (h : Inv cfg g)
    (hr : RespsOK cfg g.s) (hans : BaseOK cfg g.s L) :
    ∀ f, stepCore cfg g (.allocLayout L hh) = .error f → ¬ Fault.isBug f := by
  intro f hf
  unfold stepCore at hf
  simp only [bind, Except.bind, pure, Except.pure] at hf
  split at hf
  · rename_i e he; cases hf; exact validLayout_err he
  · rename_i u hu
    have hL := validLayout_valid hu
    split at hf
    · rename_i e he; cases hf; exact noPrepared_err he
    · split at hf
      · cases hf; exact fun hb => hb
      · rename_i hchk
        have htr : hh.sma = true → L.align ∣ L.size := by
          intro hsma
          simp only [hsma, Bool.true_and, bne_iff_ne, ne_eq, Decidable.not_not] at hchk
          exact Nat.dvd_of_mod_eq_zero hchk
        split at hf
        · rename_i e he
          obtain ⟨s', r, hs'⟩ := C10.allocGeneric_noFault h.cfgOK h.geom hr .alloc hL htr (custom_truthful L)
            (fun hk => by cases hk) hans
          rw [hs'] at he; cases he
        · split at hf <;> cases hf

theorem noFault_prepare {g : GState} {L : Layout} (h : Inv cfg g)
    (hr : RespsOK cfg g.s) (hans : BaseOK cfg g.s L) :
    ∀ f, stepCore cfg g (.prepare L) = .error f → ¬ Fault.isBug f := by
  intro f hf
  unfold stepCore at hf
  simp only [bind, Except.bind, pure, Except.pure] at hf
  split at hf
  · rename_i e he; cases hf; exact validLayout_err he
  · rename_i u hu
    have hL := validLayout_valid hu
    split at hf
    · rename_i e he; cases hf; exact noPrepared_err he
    · split at hf
      · cases hf; exact fun hb => hb
      · rename_i hchk
        have hdvd : L.align ∣ L.size := by
          simp only [bne_iff_ne, ne_eq, Decidable.not_not] at hchk
          exact Nat.dvd_of_mod_eq_zero hchk
        split at hf
        · rename_i e he
          obtain ⟨s', r, hs'⟩ := C10.allocGeneric_noFault h.cfgOK h.geom hr .range hL (custom_truthful L)
            (custom_truthful L) (fun _ => hdvd) hans
          rw [hs'] at he; cases he
        · split at hf <;> cases hf

theorem noFault_prepareSlice {g : GState} {esize ealign minCap : Nat} {rev : Bool}
    (hp2 : Rs.is_power_of_two ealign = true) (h : Inv cfg g)
    (hr : RespsOK cfg g.s) (hans : BaseOK cfg g.s { size := esize * minCap, align := ealign }) :
    ∀ f, stepCore cfg g (.prepareSlice esize ealign minCap rev) = .error f → ¬ Fault.isBug f := by
  intro f hf
  unfold stepCore at hf
  simp only [bind, Except.bind, pure, Except.pure] at hf
  split at hf
  · cases hf; exact fun hb => hb
  · rename_i hchk
    simp only [Bool.or_eq_true, beq_iff_eq, bne_iff_ne, ne_eq, not_or, Decidable.not_not] at hchk
    obtain ⟨hes, hmod⟩ := hchk
    have hae : ealign ∣ esize := Nat.dvd_of_mod_eq_zero hmod
    split at hf
    · cases hf
    · rename_i bytes hbytes
      have hb := checked_mul_some hbytes
      split at hf
      · cases hf
      · rename_i hlo
        have hL : ({ size := bytes, align := ealign } : Layout).Valid := layoutOk_valid hp2 (by simpa using hlo)
        have hdv : ealign ∣ bytes := by rw [hb]; exact Nat.dvd_trans hae (Nat.dvd_mul_right _ _)
        split at hf
        · rename_i e he
          obtain ⟨s', r, hs'⟩ := C10.allocGeneric_noFault h.cfgOK h.geom hr .range hL
            (hints := Hints.array) (hSlow := Hints.array) (fun _ => hdv) (fun _ => hdv) (fun _ => hdv) (hb ▸ hans)
          rw [hs'] at he; cases he
        · split at hf <;> cases hf

theorem noFault_reserve {g : GState} {n : Nat} {dyn : Bool} (h : Inv cfg g)
    (hr : RespsOK cfg g.s)
    (hans : if dyn then BaseOK cfg g.s { size := n, align := 1 }
            else ∀ rest, rest ≤ n → BaseOK cfg g.s { size := rest, align := 1 }) :
    ∀ f, stepCore cfg g (.reserve n dyn) = .error f → ¬ Fault.isBug f := by
  intro f hf
  unfold stepCore at hf
  simp only [bind, Except.bind, pure, Except.pure] at hf
  split at hf
  · rename_i e he; cases hf; exact noPrepared_err he
  · split at hf
    · rename_i e he
      cases dyn
      · simp only [Bool.false_eq_true, ↓reduceIte] at he hans
        obtain ⟨s', r, hs'⟩ := C10.reserve_noFault h.cfgOK h.geom hr hans
        rw [hs'] at he; cases he
      · simp only [↓reduceIte] at he hans
        obtain ⟨s', r, hs'⟩ := C10.reserveDyn_noFault h.cfgOK h.geom hr hans
        rw [hs'] at he; cases he
    · split at hf <;> cases hf

/-! ## the constructors -/

theorem noFault_newWithSize {g : GState} {n : Nat} (hn : n < 2 ^ 64) (h : Inv cfg g)
    (hr : RespsOK cfg g.s)
    (hans : ∀ size, Spec.calcSize cfg.up cfg.hdr (Nat.max n cfg.minChunk) = some size → HeadOK cfg g.s size) :
    ∀ f, stepCore cfg g (.newWithSize n) = .error f → ¬ Fault.isBug f := by
  intro f hf
  unfold stepCore at hf
  simp only [bind, Except.bind, pure, Except.pure] at hf
  split at hf
  · cases hf; exact fun hb => hb
  · have e : liftM (Gen.SizeConfig.calc_size_from_hint (sizeCfg cfg) (if n > cfg.minChunk then n else cfg.minChunk)) =
        calcSize cfg n := rfl
    rw [e, calcSize_eq h.cfgOK hn] at hf
    simp only at hf
    split at hf
    · cases hf
    · rename_i size hsize
      obtain ⟨_, hsa, hsz, _, _⟩ := C12.calcSize_some h.cfgOK.hdr hsize
      split at hf
      · rename_i e he
        obtain ⟨s', r, hs'⟩ := C10.newChunk_noFault h.cfgOK hr hsa (hans size hsize)
        rw [hs'] at he; cases he
      · split at hf <;> cases hf

theorem noFault_newWithCapacity {g : GState} {L : Layout} (h : Inv cfg g)
    (hr : RespsOK cfg g.s) (hans : BaseOK cfg g.s L) :
    ∀ f, stepCore cfg g (.newWithCapacity L) = .error f → ¬ Fault.isBug f := by
  intro f hf
  unfold stepCore at hf
  simp only [bind, Except.bind, pure, Except.pure] at hf
  split at hf
  · rename_i e he; cases hf; exact validLayout_err he
  · rename_i u hu
    have hL := validLayout_valid hu
    split at hf
    · cases hf; exact fun hb => hb
    · rename_i hchk
      obtain ⟨hch, hcur⟩ := pristine_of_check hchk
      split at hf
      · rename_i e he
        obtain ⟨s', r, hs'⟩ := C10.newChunkForCapacity_noFault h.cfgOK h.geom hr hL (by
          intro size hsz
          apply hans size
          simp only [requestSize, hcur]
          exact hsz)
        rw [hs'] at he; cases he
      · split at hf <;> cases hf

/-! ## committing a prepared allocation -/

theorem noFault_commit {g : GState} {size : Nat} {rev : Bool} (h : Inv cfg g) :
    ∀ f, stepCore cfg g (.commit size rev) = .error f → ¬ Fault.isBug f := by
  intro f hf
  unfold stepCore at hf
  simp only [bind, Except.bind, pure, Except.pure] at hf
  split at hf
  · rename_i p hp
    have hpo := h.prep p hp
    split at hf
    · cases hf; exact fun hb => hb
    · split at hf
      · cases hf; exact fun hb => hb
      · rename_i hchk
        simp only [Bool.or_eq_true, decide_eq_true_eq, bne_iff_ne, ne_eq, not_or, Nat.not_lt, Decidable.not_not] at hchk
        obtain ⟨hsz, hmod⟩ := hchk
        split at hf
        · rename_i e he
          have h0 := h.clearPrepared
          have hpo0 : PrepOK cfg ({ g.s with prepared := none } : State) p :=
            hpo.congr rfl (fun i c _ hc => ⟨c, hc, rfl, rfl, rfl⟩)
          obtain ⟨s', a, hs'⟩ := C10.allocatePrepared_noFault h.cfgOK h0.geom h0.disj rev
            (prepOK_rangeInCur h0.geom hpo0) hsz
          rw [hs'] at he; cases he
        · cases hf
  · cases hf; exact fun hb => hb

theorem noFault_commitSlice {g : GState} {len : Nat} (h : Inv cfg g) :
    ∀ f, stepCore cfg g (.commitSlice len) = .error f → ¬ Fault.isBug f := by
  intro f hf
  unfold stepCore at hf
  simp only [bind, Except.bind, pure, Except.pure] at hf
  split at hf
  · rename_i p hp
    have hpo := h.prep p hp
    split at hf
    · cases hf; exact fun hb => hb
    · rename_i htyped
      have hty : p.typed = true := by simpa using htyped
      obtain ⟨hes, hae, hdv⟩ := hpo.typed hty
      split at hf
      · cases hf; exact fun hb => hb
      · rename_i hchk
        have hlen : len ≤ (p.rend - p.rstart) / p.esize := by simpa using hchk
        split at hf
        · rename_i e he
          have h0 := h.clearPrepared
          have hpo0 : PrepOK cfg ({ g.s with prepared := none } : State) p :=
            hpo.congr rfl (fun i c _ hc => ⟨c, hc, rfl, rfl, rfl⟩)
          obtain ⟨_, _, _, _, hlh, _⟩ := hpo.range
          have hcap : (p.rend - p.rstart) / p.esize * p.esize = p.rend - p.rstart := Nat.div_mul_cancel hdv
          have hlo : (if p.rev then (if p.rev then p.rend else p.rstart) - (p.rend - p.rstart) / p.esize * p.esize
              else (if p.rev then p.rend else p.rstart)) = p.rstart := by
            rw [hcap]; cases p.rev <;> simp <;> omega
          have hhi : (if p.rev then (if p.rev then p.rend else p.rstart)
              else (if p.rev then p.rend else p.rstart) + (p.rend - p.rstart) / p.esize * p.esize) = p.rend := by
            rw [hcap]; cases p.rev <;> simp <;> omega
          have hrev : p.rev = true → (p.rend - p.rstart) / p.esize * p.esize ≤ (if p.rev then p.rend else p.rstart) := by
            intro hrv; rw [hcap, hrv]; simp
          have hrange := prepOK_rangeInCur h0.geom hpo0
          have hptr : p.ealign ∣ (if p.rev then p.rend else p.rstart) := by
            cases p.rev
            · simp only [Bool.false_eq_true, ↓reduceIte]; exact hpo.start_al
            · simp only [↓reduceIte]; exact hpo.end_al
          obtain ⟨s', a, hs'⟩ := C10.allocatePreparedSlice_noFault h.cfgOK h0.geom h0.disj p.rev hae hptr
            (by rw [hlo, hhi]; exact hrange) hrev hlen
          rw [hs'] at he; cases he
        · cases hf
  · cases hf; exact fun hb => hb

end Arena.Hist
