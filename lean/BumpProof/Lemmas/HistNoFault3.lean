/-
  Lemmas/HistNoFault3.lean — NO-FAULT companion of the preservation of `Arena.Hist.Inv`, part 3:
  `shrink_slice`, `grow`, `shrink`, operations addressed to the claimed handle, and the main theorem.
-/
import BumpProof.Lemmas.HistNoFault2
import BumpProof.Lemmas.HistOpsGrow
import BumpProof.Props.C14
set_option linter.unusedSimpArgs false
set_option linter.unusedVariables false
namespace Arena.Hist
open Rs Lemmas
variable {cfg : Cfg}

/-! ## where a live block is: `LiveBlock`, or it is empty and not the last allocation -/

theorem blockInCur_liveBlock {s : State} {a n : Nat} (h : BlockInCur cfg s a n) : LiveBlock cfg s a n := by
  obtain ⟨i, c, hcur, hi, h1, h2, h3⟩ := h
  exact ⟨i, i, c, hcur, Nat.le_refl _, hi, h1, h2, fun _ => h3⟩

/-- the ghost placement only records non-empty blocks; an EMPTY live block is either the last allocation
    (then it sits at the bump position of the current chunk) or the model functions never touch memory for it -/
theorem live_cases {g : GState} (h : Inv cfg g) {blk : Block} (hmem : blk ∈ g.s.live) :
    LiveBlock cfg g.s blk.addr blk.size ∨ (blk.size = 0 ∧ isLast cfg g.s blk.addr blk.size = false) := by
  by_cases hs : 0 < blk.size
  · exact Or.inl (liveBlock_of_placed (h.live.placed blk hmem hs))
  · cases hlast : isLast cfg g.s blk.addr blk.size
    · exact Or.inr ⟨by omega, rfl⟩
    · exact Or.inl (blockInCur_liveBlock (h.blockInCur hmem hlast))

theorem copyBytes_zero (s : State) (src dst : Nat) (no : Bool) : copyBytes cfg s src dst 0 no = .ok s := by
  unfold copyBytes; simp only [↓reduceIte]; rfl

theorem shrinkSlice_notLast {s : State} {ptr old new al : Nat} (h : isLast cfg s ptr old = false) :
    ∃ r, shrinkSlice cfg s ptr old new al = .ok r := by
  unfold shrinkSlice
  cases hsh : cfg.shrinks
  · exact ⟨_, rfl⟩
  · simp only [h, Bool.not_true, Bool.false_eq_true, ↓reduceIte, Bool.not_false]
    exact ⟨_, rfl⟩

/-- growing an empty block that is not the last allocation: a fresh allocation, nothing is copied -/
theorem grow_empty_noFault (hc : CfgOK cfg) {s : State} (h : GeomInv cfg s) (hr : RespsOK cfg s)
    {ptr : Nat} {newL : Layout} (hL : newL.Valid) (hlast : isLast cfg s ptr 0 = false) (hb : BaseOK cfg s newL) :
    ∃ s' r, grow cfg s ptr 0 newL = .ok (s', r) := by
  unfold grow
  rw [assert_dec (show newL.size ≥ 0 from Nat.zero_le _)]
  obtain ⟨s1, r1, he⟩ := C10.alloc_noFault hc h hr hL hb
  simp only [liftM_ok, r_ok_bind, hlast, Bool.false_and, Bool.false_eq_true, ↓reduceIte, he]
  cases r1 with
  | error e => cases cfg.up <;> exact ⟨_, _, rfl⟩
  | ok np =>
    simp only [copyBytes_zero, r_ok_bind]
    cases cfg.up <;> exact ⟨_, _, rfl⟩

/-- `WithoutShrink::shrink` to size 0: nothing is copied -/
theorem shrinkWithoutShrink_empty_noFault (hc : CfgOK cfg) {s : State} (h : GeomInv cfg s) (hr : RespsOK cfg s)
    {ptr old : Nat} {newL : Layout} (hL : newL.Valid) (hz : newL.size = 0) (hb : BaseOK cfg s newL) :
    ∃ s' r, shrinkWithoutShrink cfg s ptr old newL = .ok (s', r) := by
  unfold shrinkWithoutShrink
  obtain ⟨s1, r1, he⟩ := C10.alloc_noFault hc h hr hL hb
  cases hfit : alignFits ptr newL.align
  · simp only [Bool.false_eq_true, ↓reduceIte, he, r_ok_bind]
    cases r1 with
    | error e => exact ⟨_, _, rfl⟩
    | ok np =>
      simp only [hz, copyBytes_zero, r_ok_bind]
      exact ⟨_, _, rfl⟩
  · simp only [↓reduceIte]
    exact ⟨_, _, rfl⟩

/-- shrinking an empty block that is not the last allocation -/
theorem shrink_empty_noFault (hc : CfgOK cfg) {s : State} (h : GeomInv cfg s) (hr : RespsOK cfg s)
    {ptr : Nat} {newL : Layout} (hL : newL.Valid) (hz : newL.size = 0) (hlast : isLast cfg s ptr 0 = false)
    (hb : BaseOK cfg s newL) :
    ∃ s' r, shrink cfg s ptr 0 newL = .ok (s', r) := by
  unfold shrink
  rw [assert_dec (show newL.size ≤ 0 by omega)]
  obtain ⟨s1, r1, he⟩ := C10.alloc_noFault hc h hr hL hb
  simp only [liftM_ok, r_ok_bind, hlast, Bool.and_false, Bool.false_eq_true, ↓reduceIte, he, Bool.not_false, Bool.or_true]
  cases hfit : alignFits ptr newL.align
  · simp only [Bool.not_false, ↓reduceIte]
    cases r1 with
    | error e => exact ⟨_, _, rfl⟩
    | ok np =>
      simp only [hz, copyBytes_zero, r_ok_bind]
      exact ⟨_, _, rfl⟩
  · simp only [Bool.not_true, Bool.false_eq_true, ↓reduceIte]
    exact ⟨_, _, rfl⟩

/-! ## shrink_slice -/

theorem noFault_shrinkSlice {g : GState} {b newSize : Nat} (h : Inv cfg g) :
    ∀ f, stepCore cfg g (.shrinkSlice b newSize) = .error f → ¬ Fault.isBug f := by
  intro f hf
  unfold stepCore at hf
  simp only [bind, Except.bind, pure, Except.pure] at hf
  split at hf
  · rename_i e he; cases hf; exact noPrepared_err he
  · split at hf
    · rename_i e he; cases hf; exact findBlock_err he
    · rename_i blk hblk
      obtain ⟨hmem, hid⟩ := Mem.findBlock_ok hblk
      split at hf
      · cases hf; exact fun hb => hb
      · rename_i hchk
        have hsz : newSize ≤ blk.size := by omega
        split at hf
        · rename_i e he
          rcases live_cases h hmem with hl | ⟨_, hlast⟩
          · obtain ⟨s', r, hs'⟩ := C10.shrinkSlice_noFault h.cfgOK h.geom h.disj (h.aligns blk hmem)
              (h.live.aligned blk hmem) hsz hl
            rw [hs'] at he; cases he
          · obtain ⟨r, hs'⟩ := shrinkSlice_notLast (cfg := cfg) (new := newSize) (al := blk.align) hlast
            rw [hs'] at he; cases he
        · split at hf <;> cases hf

/-! ## grow -/

theorem noFault_grow {g : GState} {b : Nat} {L : Layout} {z : Bool} {via : Via} (h : Inv cfg g)
    (hr : RespsOK cfg g.s) (hfr : RespsFresh g.s) (hans : BaseOK cfg g.s L) :
    ∀ f, stepCore cfg g (.grow b L z via) = .error f → ¬ Fault.isBug f := by
  intro f hf
  unfold stepCore at hf
  simp only [bind, Except.bind, pure, Except.pure] at hf
  split at hf
  · rename_i e he; cases hf; exact validLayout_err he
  · rename_i u hu
    have hL := validLayout_valid hu
    split at hf
    · rename_i e he; cases hf; exact noPrepared_err he
    · split at hf
      · rename_i e he; cases hf; exact findBlock_err he
      · rename_i blk hblk
        obtain ⟨hmem, hid⟩ := Mem.findBlock_ok hblk
        split at hf
        · cases hf; exact fun hb => hb
        · rename_i hchk
          have hsz : blk.size ≤ L.size := by omega
          split at hf
          · rename_i e he
            rcases live_cases h hmem with hl | ⟨hz, hlast⟩
            · obtain ⟨s', r, hs'⟩ := C10.grow_noFault h.cfgOK h.geom hr h.disj hfr hL hsz hl hans
              rw [hs'] at he; cases he
            · rw [hz] at he hlast
              obtain ⟨s', r, hs'⟩ := grow_empty_noFault h.cfgOK h.geom hr hL hlast hans
              rw [hs'] at he; cases he
          · rename_i x hx
            obtain ⟨s1, r1⟩ := x
            cases r1 with
            | error e => simp only at hf; cases hf
            | ok np =>
              simp only at hf
              cases z
              · simp only [Bool.false_eq_true, ↓reduceIte] at hf
                cases hf
              · simp only [↓reduceIte] at hf
                split at hf
                · rename_i e he
                  -- the tail `[np + blk.size, np + L.size)` of the new block is writable
                  have hbc := h.blockInCur' hmem
                  obtain ⟨g1, _, _⟩ := C10.grow_inv h.cfgOK h.geom hr hL hbc hx
                  obtain ⟨d1, _⟩ := C10.trace_disjoint (C10.grow_trace h.cfgOK h.geom hr hL hbc hx) h.disj hfr
                  have gp := grow_hist h.cfgOK h.geom hr h.disj hfr h.live hmem hL hbc hx
                  obtain ⟨_, _, _, a4, _⟩ := gp.ok np rfl
                  obtain ⟨s2, hs2⟩ := placed_writable (cfg := cfg) g1 d1 (a := np + blk.size) (n := L.size - blk.size)
                    (fun hpos => placed_sub (a4 (by omega)) (Nat.le_add_right _ _) (by omega)) (fun _ => 0)
                  unfold zeroRange at he
                  rw [hs2] at he; cases he
                · cases hf

/-! ## shrink -/

theorem noFault_shrink {g : GState} {b : Nat} {L : Layout} {via : Via} (h : Inv cfg g)
    (hr : RespsOK cfg g.s) (hfr : RespsFresh g.s) (hans : BaseOK cfg g.s L) :
    ∀ f, stepCore cfg g (.shrink b L via) = .error f → ¬ Fault.isBug f := by
  intro f hf
  unfold stepCore at hf
  simp only [bind, Except.bind, pure, Except.pure] at hf
  split at hf
  · rename_i e he; cases hf; exact validLayout_err he
  · rename_i u hu
    have hL := validLayout_valid hu
    split at hf
    · rename_i e he; cases hf; exact noPrepared_err he
    · split at hf
      · rename_i e he; cases hf; exact findBlock_err he
      · rename_i blk hblk
        obtain ⟨hmem, hid⟩ := Mem.findBlock_ok hblk
        split at hf
        · cases hf; exact fun hb => hb
        · rename_i hchk
          have hsz : L.size ≤ blk.size := by omega
          have hz' : blk.size = 0 → L.size = 0 := by omega
          split at hf
          · -- `WithoutShrink`
            split at hf
            · rename_i e he
              rcases live_cases h hmem with hl | ⟨hz, hlast⟩
              · obtain ⟨s', r, hs'⟩ := C10.shrinkWithoutShrink_noFault h.cfgOK h.geom hr h.disj hfr hL hsz hl hans
                rw [hs'] at he; cases he
              · obtain ⟨s', r, hs'⟩ := shrinkWithoutShrink_empty_noFault (ptr := blk.addr) (old := blk.size)
                  h.cfgOK h.geom hr hL (hz' hz) hans
                rw [hs'] at he; cases he
            · split at hf <;> cases hf
          · split at hf
            · rename_i e he
              rcases live_cases h hmem with hl | ⟨hz, hlast⟩
              · obtain ⟨s', r, hs'⟩ := C10.shrink_noFault h.cfgOK h.geom hr h.disj hfr hL hsz hl hans
                rw [hs'] at he; cases he
              · have hz2 := hz' hz
                rw [hz] at he hlast
                obtain ⟨s', r, hs'⟩ := shrink_empty_noFault h.cfgOK h.geom hr hL hz2 hlast hans
                rw [hs'] at he; cases he
            · split at hf <;> cases hf

/-! ## alloc_try_with(_mut)

`stepCore`'s `.allocTryWith` is cut into the allocation of the `Result`, the closure (`nfInner`) and the end
(`nfTail`), as in `Lemmas/HistOpsTry.lean` (own copies of the three definitions: this file does not depend on it). -/

/-- the closure of `alloc_try_with`: it may allocate `inner` through the same arena -/
def nfInner (cfg : Cfg) (s1 : State) (inner : Option Layout) (mut_ : Bool) : R (State × Option (Nat × Layout)) :=
  match inner with
  | some Li => do
    if mut_ then throw (.contract "closure of alloc_try_with_mut cannot use the arena")
    validLayout Li
    match ← alloc cfg s1 Li with
    | (s', .error _) => pure (s', none)
    | (s', .ok p) => pure (s', some (p, Li))
  | none => pure (s1, none)

/-- registering the block the closure allocated -/
def nfWithInner (s2 : State) (innerOut : Option (Nat × Layout)) : State :=
  match innerOut with
  | some (p, Li) => (addBlock s2 p Li.size Li.align 0).1
  | none => s2

/-- what happens after the closure returned -/
def nfTail (cfg : Cfg) (g : GState) (s2 : State) (ptr off vsize : Nat) (ok canShrink : Bool) : R (GState × Out) :=
  if ok then do
    let s3 ← if canShrink then do
        let np ← if cfg.up then liftM (Gen.LibArith.up_align_usize_unchecked (ptr + off + vsize) s2.minAlign)
                 else liftM (Gen.LibArith.down_align_usize (ptr + off) s2.minAlign)
        match s2.cur with
        | .chunk _ => pure (setCurPos s2 np)
        | _ => throw (.ub "as_non_dummy_unchecked on a dummy chunk")
      else pure s2
    let (s4, o) := okOut s3 (ptr + off) vsize 1 0
    pure ({ g with s := s4 }, o)
  else do
    let s3 ← if canShrink then resetTo cfg s2 (checkpoint cfg g.s) else pure s2
    let s3 := if canShrink then killFrom s3 g.s.nextId else s3
    pure ({ g with s := s3 }, .none_)


theorem resetTo_noBug' (hc : CfgOK cfg) {s : State} (hg : GeomInv cfg s) {cp : Checkpoint}
    (hcp : CpGeom cfg s cp) {f : Fault} (hf : resetTo cfg s cp = .error f) : ¬ Fault.isBug f := by
  have hok : CheckpointOK cfg s cp → ¬ Fault.isBug f := by
    intro hck
    obtain ⟨s1, e1⟩ := C10.resetTo_noFault hc hg hck
    rw [e1] at hf; cases hf
  cases hk : cp.cur with
  | chunk i =>
    apply hok
    unfold CheckpointOK; unfold CpGeom at hcp; rw [hk] at hcp ⊢; exact hcp
  | claimed => unfold CpGeom at hcp; rw [hk] at hcp; exact hcp.elim
  | unallocated =>
    cases hga : cfg.ga
    · apply hok
      unfold CheckpointOK; rw [hk]; exact hga
    · unfold resetTo at hf
      simp only [hk, hga, Bool.not_true, Bool.false_and, Bool.false_eq_true, ↓reduceIte] at hf
      cases hf; exact fun hb => hb

/-- the end of `alloc_try_with`: shrinking the `Result` block to the value (`Ok`) or resetting to the checkpoint
    taken at the start (`Err`) -/
theorem nfTail_noBug (hc : CfgOK cfg) {g : GState} {s2 : State} (hg : GeomInv cfg s2) (hcur : ∃ j, s2.cur = .chunk j)
    (hcp : CpGeom cfg s2 (checkpoint cfg g.s)) {ptr off vsize : Nat}
    (hx : ∃ e, 16 ∣ e ∧ e < 2 ^ 64 ∧ ptr + off + vsize ≤ e) (ok cs : Bool) :
    ∀ f, nfTail cfg g s2 ptr off vsize ok cs = .error f → ¬ Fault.isBug f := by
  intro f hf
  have hm := hg.minAlign
  unfold nfTail at hf
  cases ok <;> cases cs <;>
    simp only [bind, Except.bind, pure, Except.pure, Bool.false_eq_true, ↓reduceIte] at hf
  · cases hf
  · split at hf
    · rename_i e he; cases hf
      exact resetTo_noBug' hc hg hcp he
    · cases hf
  · cases hf
  · obtain ⟨e, h16, h64, hle⟩ := hx
    have hmle := hm.le
    cases hup : cfg.up <;> simp only [hup, Bool.false_eq_true, ↓reduceIte] at hf
    · split at hf
      · rename_i e' he
        rw [down_align_usize_eq hm.p2 hm.lt64 (by omega)] at he
        cases he
      · split at hf
        · cases hf
        · rename_i hne
          obtain ⟨j, hj⟩ := hcur
          exact absurd hj (hne j)
    · split at hf
      · rename_i e' he
        rw [up_align_usize_unchecked_eq hm.p2 hm.lt64 (by rw [two_pow_64] at h64 ⊢; omega)] at he
        cases he
      · split at hf
        · cases hf
        · rename_i hne
          obtain ⟨j, hj⟩ := hcur
          exact absurd hj (hne j)

/-- the facts about an intermediate state the end of the step needs -/
structure TailReady (cfg : Cfg) (g : GState) (s2 : State) : Prop where
  geom : GeomInv cfg s2
  cur : ∃ j, s2.cur = .chunk j
  cp : CpGeom cfg s2 (checkpoint cfg g.s)

theorem TailReady.withInner {g : GState} {s2 : State} (t : TailReady cfg g s2) (io : Option (Nat × Layout)) :
    TailReady cfg g (nfWithInner s2 io) := by
  cases io with
  | none => exact t
  | some x =>
    obtain ⟨p, Li⟩ := x
    exact ⟨geom_congr (s := s2) rfl rfl rfl t.geom, t.cur, cpGeom_mono (ChunksCov.of_eq rfl) t.cp⟩

theorem noFault_allocTryWith {g : GState} {L : Layout} {off vsize : Nat} {ok : Bool} {inner : Option Layout}
    {mut_ : Bool} (hsz : L.align ∣ L.size) (h : Inv cfg g) (hr : RespsOK cfg g.s) (hfr : RespsFresh g.s)
    (hans : BaseOK cfg g.s L)
    (hans2 : ∀ Li, inner = some Li → ∀ s1 r,
      allocGeneric cfg (if mut_ then .prepare else .alloc) g.s L Hints.sized Hints.custom = .ok (s1, r) → BaseOK cfg s1 Li) :
    ∀ f, stepCore cfg g (.allocTryWith L off vsize ok inner mut_) = .error f → ¬ Fault.isBug f := by
  intro f hf
  unfold stepCore at hf
  simp only [bind, Except.bind, pure, Except.pure] at hf
  split at hf
  · rename_i e he; cases hf; exact validLayout_err he
  · rename_i u hu
    have hL := validLayout_valid hu
    split at hf
    · rename_i e he; cases hf; exact noPrepared_err he
    · split at hf
      · cases hf; exact fun hb => hb
      · rename_i hchk
        have hov : off + vsize ≤ L.size := by omega
        have hk : (if mut_ then Kind.prepare else Kind.alloc) = Kind.range → L.align ∣ L.size := fun _ => hsz
        split at hf
        · rename_i e he
          obtain ⟨s', r, hs'⟩ := C10.allocGeneric_noFault h.cfgOK h.geom hr (if mut_ then Kind.prepare else Kind.alloc) hL
            (hints := Hints.sized) (hSlow := Hints.custom) (fun _ => hsz) (custom_truthful L) hk hans
          rw [hs'] at he; cases he
        · rename_i x hx
          obtain ⟨s1, r1⟩ := x
          have p1 := allocGeneric_post h.cfgOK h.geom hr h.disj hfr (if mut_ then Kind.prepare else Kind.alloc) hL
            (hints := Hints.sized) (hSlow := Hints.custom) (fun _ => hsz) (custom_truthful L) hk hx
          cases r1 with
          | error e => simp only at hf; cases hf
          | ok v =>
            obtain ⟨ptr, x⟩ := v
            simp only at hf
            -- facts about the state after the allocation of the `Result`
            have t1 : TailReady cfg g s1 :=
              ⟨p1.inv, p1.cur_ok _ rfl, cpGeom_mono p1.stable.cov (cpOK_checkpoint h).geom⟩
            have hptr : ∃ e, 16 ∣ e ∧ e < 2 ^ 64 ∧ ptr + off + vsize ≤ e := by
              have key : ∃ c, ChunkWF cfg c ∧ ptr + L.size ≤ c.contentEnd cfg := by
                cases mut_ with
                | true =>
                  obtain ⟨_, i, c, f1, f2, f3⟩ := p1.found (ptr, x) rfl
                  have hw := p1.inv.chunks i c f2
                  refine ⟨c, hw, ?_⟩
                  have := hw.pos_le
                  cases hup : cfg.up
                  · simp only [hup, Bool.false_eq_true, ↓reduceIte] at f3; omega
                  · simp only [hup, ↓reduceIte] at f3; omega
                | false =>
                  obtain ⟨i, j, c, _, _, hcj, hin, _⟩ := (p1.outcome rfl (ptr, x) rfl h.live).placed
                  exact ⟨c, p1.inv.chunks j c hcj, hin.2⟩
              obtain ⟨c, hw, hle⟩ := key
              exact ⟨c.contentEnd cfg, hw.end16 h.cfgOK, hw.end_lt64, by omega⟩
            cases inner with
            | none =>
              simp only at hf
              have ht : nfTail cfg g (nfWithInner s1 none) ptr off vsize ok
                  (mut_ || (if cfg.up then curPos cfg s1 else ptr) == curPos cfg s1) = .error f := by
                unfold nfTail nfWithInner
                simp only [bind, Except.bind, pure, Except.pure]
                exact hf
              exact nfTail_noBug h.cfgOK (t1.withInner none).geom (t1.withInner none).cur (t1.withInner none).cp hptr _ _ f ht
            | some Li =>
              simp only at hf
              cases mut_ with
              | true =>
                simp only [↓reduceIte, throw, throwThe, MonadExceptOf.throw] at hf
                cases hf; exact fun hb => hb
              | false =>
                simp only [Bool.false_eq_true, ↓reduceIte] at hf hx
                split at hf
                · rename_i e he; cases hf; exact validLayout_err he
                · rename_i u3 hu3
                  have hLi := validLayout_valid hu3
                  have hb2 : BaseOK cfg s1 Li := hans2 Li rfl s1 _ hx
                  split at hf
                  · rename_i e he
                    obtain ⟨s', r, hs'⟩ := C10.alloc_noFault h.cfgOK p1.inv p1.resps hLi hb2
                    rw [hs'] at he; cases he
                  · rename_i y hy
                    obtain ⟨s2, r2⟩ := y
                    obtain ⟨r', hr', p2⟩ := alloc_post h.cfgOK p1.inv p1.resps p1.disj p1.fresh hLi hy
                    have t2 : TailReady cfg g s2 := by
                      refine ⟨p2.inv, ?_, cpGeom_mono p2.stable.cov t1.cp⟩
                      rcases p2.curKind with hc | hc
                      · obtain ⟨j, hj⟩ := t1.cur
                        exact ⟨j, hc.trans hj⟩
                      · exact hc
                    cases r2 with
                    | error e =>
                      simp only at hf
                      have ht : nfTail cfg g (nfWithInner s2 none) ptr off vsize ok
                          (false || (if cfg.up then curPos cfg s1 else ptr) == curPos cfg s2) = .error f := by
                        unfold nfTail nfWithInner
                        simp only [bind, Except.bind, pure, Except.pure]
                        exact hf
                      exact nfTail_noBug h.cfgOK (t2.withInner none).geom (t2.withInner none).cur (t2.withInner none).cp
                        hptr _ _ f ht
                    | ok p =>
                      simp only at hf
                      have ht : nfTail cfg g (nfWithInner s2 (some (p, Li))) ptr off vsize ok
                          (false || (if cfg.up then curPos cfg s1 else ptr) == curPos cfg s2) = .error f := by
                        unfold nfTail nfWithInner
                        simp only [bind, Except.bind, pure, Except.pure]
                        exact hf
                      exact nfTail_noBug h.cfgOK (t2.withInner _).geom (t2.withInner _).cur (t2.withInner _).cp
                        hptr _ _ f ht


/-! ## operations addressed to the claimed (original) handle -/

/-- The constructors for which `noFault_stepCore_partial` is proved.  Side conditions on numeric arguments that
    come from Rust values (as in `Op.covered`): `newWithSize n` takes a `usize`; the element alignment of
    `prepareSlice` is a power of two; the `Result` layout of `allocTryWith` has a size that is a multiple of its
    alignment (size of a Rust type; the model calls the fast path with `Hints.sized`).  On the claimed handle: the hint of `allocLayout` must be truthful (the
    model checks this contract only for the active handle); `grow / deallocate / shrink` of a block through the
    claimed handle are not covered (see `noFault_onClaimed_block` for what is missing). -/
def _root_.Arena.Op.noFaultCovered : Op → Bool
  | .newWithSize n => decide (n < 2 ^ 64)
  | .prepareSlice _ ealign _ _ => Rs.is_power_of_two ealign
  | .onClaimed (.allocLayout L h) => !h.sma || L.size % L.align == 0
  | .onClaimed (.grow _ _ _ _) => false
  | .onClaimed (.deallocate _ _) => false
  | .onClaimed (.shrink _ _ _) => false
  | .allocTryWith L _ _ _ _ _ => L.size % L.align == 0
  | _ => true


/-- every allocating call on the claimed handle returns `AllocError` (C14): the
    `throw (.ub "… succeeded on a claimed handle")` branches of the model are unreachable -/
theorem noFault_onClaimed {g : GState} {op : Op} (hcov : (Op.onClaimed op).noFaultCovered = true) (h : Inv cfg g) :
    ∀ f, stepCore cfg g (.onClaimed op) = .error f → ¬ Fault.isBug f := by
  intro f hf
  have hm : Ctrl.MinAlignOk g.s.minAlign := h.geom.minAlign
  unfold stepCore at hf
  simp only [bind, Except.bind, pure, Except.pure] at hf
  split at hf
  · cases hf; exact fun hb => hb
  · cases op
    all_goals simp only [] at hf
    all_goals first | (cases hf; exact fun hb => hb) | skip
    case claim => cases hf
    case allocate L z via =>
      split at hf
      · rename_i e he; cases hf; exact validLayout_err he
      · rename_i u hu
        have hL := validLayout_valid hu
        rw [C14.alloc_claimed cfg { g.s with cur := .claimed } L rfl hm hL] at hf
        simp only at hf
        cases hf
    case allocLayout L hh =>
      split at hf
      · rename_i e he; cases hf; exact validLayout_err he
      · rename_i u hu
        have hL := validLayout_valid hu
        have ht : Ctrl.Truthful L hh := by
          intro hsma
          simp only [Op.noFaultCovered, hsma, Bool.not_true, Bool.false_or, beq_iff_eq] at hcov
          exact Nat.dvd_of_mod_eq_zero hcov
        rw [C14.allocGeneric_claimed cfg .alloc { g.s with cur := .claimed } L hh Hints.custom rfl hm hL ht] at hf
        simp only at hf
        cases hf
    case reserve n dyn =>
      cases dyn
      · simp only [Bool.false_eq_true, ↓reduceIte, C14.reserve_claimed cfg { g.s with cur := .claimed } n rfl] at hf
        cases hf
      · simp only [↓reduceIte] at hf
        rw [C14.reserveDyn_claimed cfg { g.s with cur := .claimed } n rfl hm] at hf
        simp only at hf
        cases hf
    case grow => simp [Op.noFaultCovered] at hcov
    case deallocate => simp [Op.noFaultCovered] at hcov
    case shrink => simp [Op.noFaultCovered] at hcov

/-- no live block touches the address of the static dummy chunk header (the crate's dummy chunks are statics of
    the binary; the base allocator never hands out memory that overlaps them — an assumption about the
    environment that `EnvOK` / `Inv` do not record) -/
def DummyApart (cfg : Cfg) (s : State) : Prop :=
  ∀ blk ∈ s.live, isLast cfg { s with cur := .claimed } blk.addr blk.size = false

/-- `grow / deallocate / shrink` of a live block through the claimed handle: no bug fault PROVIDED no live block
    sits at the dummy chunk's address (`DummyApart`; otherwise the model runs into `as_non_dummy_unchecked` on the
    dummy chunk).  Not part of `noFault_stepCore_partial` because `DummyApart` does not follow from `Inv`. -/
theorem noFault_onClaimed_block {g : GState} {op : Op} (h : Inv cfg g) (hda : DummyApart cfg g.s)
    (hop : (∃ b L z via, op = .grow b L z via) ∨ (∃ b via, op = .deallocate b via) ∨ (∃ b L via, op = .shrink b L via)) :
    ∀ f, stepCore cfg g (.onClaimed op) = .error f → ¬ Fault.isBug f := by
  intro f hf
  have hm : Ctrl.MinAlignOk g.s.minAlign := h.geom.minAlign
  unfold stepCore at hf
  simp only [bind, Except.bind, pure, Except.pure] at hf
  split at hf
  · cases hf; exact fun hb => hb
  · rcases hop with ⟨b, L, z, via, rfl⟩ | ⟨b, via, rfl⟩ | ⟨b, L, via, rfl⟩
    · simp only [] at hf
      split at hf
      · rename_i e he; cases hf; exact validLayout_err he
      · rename_i u hu
        have hL := validLayout_valid hu
        split at hf
        · rename_i e he; cases hf; exact findBlock_err he
        · rename_i blk hblk
          obtain ⟨hmem, hid⟩ := Mem.findBlock_ok hblk
          split at hf
          · cases hf; exact fun hb => hb
          · rename_i hchk
            rw [C14.grow_claimed cfg { g.s with cur := .claimed } blk.addr blk.size L rfl hm hL (by omega)
              (hda blk hmem)] at hf
            simp only at hf
            cases hf
    · simp only [] at hf
      split at hf
      · rename_i e he; cases hf; exact findBlock_err he
      · rename_i blk hblk
        obtain ⟨hmem, hid⟩ := Mem.findBlock_ok hblk
        rw [C14.deallocate_claimed cfg { g.s with cur := .claimed } blk.addr blk.size (hda blk hmem)] at hf
        simp only at hf
        cases hf
    · simp only [] at hf
      split at hf
      · rename_i e he; cases hf; exact validLayout_err he
      · rename_i u hu
        have hL := validLayout_valid hu
        split at hf
        · rename_i e he; cases hf; exact findBlock_err he
        · rename_i blk hblk
          obtain ⟨hmem, hid⟩ := Mem.findBlock_ok hblk
          split at hf
          · cases hf; exact fun hb => hb
          · rename_i hchk
            split at hf
            · cases hf; exact fun hb => hb
            · rename_i hnfit
              have hfit : alignFits blk.addr L.align = true := by
                cases hq : alignFits blk.addr L.align
                · rw [hq] at hnfit; exact absurd rfl hnfit
                · rfl
              rw [C14.shrink_claimed cfg { g.s with cur := .claimed } blk.addr blk.size L (by omega) hfit
                (hda blk hmem)] at hf
              simp only at hf
              cases hf

/-- non-vacuity of `DummyApart` (together with `Inv`): the arena after one `allocate` of 24 bytes has one live block,
    at `0x40020`, far from the dummy chunk -/
example : ∃ g : GState, Inv exCfg g ∧ DummyApart exCfg g.s ∧ g.s.live.length = 1 := by
  have h0 : Inv exCfg (install (initG exCfg) [.granted 0x40000 4000]) := (inv_init exCfg_ok).install _
  have hr : RespsOK exCfg (install (initG exCfg) [.granted 0x40000 4000]).s := by
    intro r hr
    simp only [install, initG, initState, List.mem_singleton] at hr
    subst hr
    exact ⟨by decide, by decide, by decide⟩
  have hf : RespsFresh (install (initG exCfg) [.granted 0x40000 4000]).s :=
    ⟨List.pairwise_singleton _ _, fun p gr _ i c hc => by simp [install, initG, initState] at hc⟩
  have hs : ∃ g' out, stepCore exCfg (install (initG exCfg) [.granted 0x40000 4000])
      (.allocate { size := 24, align := 8 } false .plain) = .ok (g', out) ∧
      (∀ blk ∈ g'.s.live, isLast exCfg { g'.s with cur := .claimed } blk.addr blk.size = false) ∧
      g'.s.live.length = 1 := ⟨_, _, rfl, by decide, rfl⟩
  obtain ⟨g', out, h1, h2, h3⟩ := hs
  exact ⟨g', inv_allocate h0 hr hf h1, h2, h3⟩

/-! ## the main theorem -/

/-- the full statement (all 34 constructors, no side condition on the operation) -/
def noFault_stepCore_target : Prop :=
  ∀ (cfg : Cfg) (g : GState) (op : Op), Inv cfg g → RespsOK cfg g.s → RespsFresh g.s → Answered cfg g.s op →
    ∀ f, stepCore cfg g op = .error f → ¬ Fault.isBug f

/-- NO FAULT (C10): from a state satisfying the invariant of histories, with a base allocator that behaves
    correctly (`RespsOK`, `RespsFresh`) and answers the request of the operation (`Answered`), a covered
    operation never ends in an overflow / failed debug assertion (`.rs`) or in undefined behaviour (`.ub`):
    it succeeds, or the caller violated the documented contract (`.contract`). -/
theorem noFault_stepCore_partial {g : GState} {op : Op} (hcov : op.noFaultCovered = true) (h : Inv cfg g)
    (hr : RespsOK cfg g.s) (hf : RespsFresh g.s) (hans : Answered cfg g.s op) :
    ∀ f, stepCore cfg g op = .error f → ¬ Fault.isBug f := by
  cases op with
  | newWithSize n => exact noFault_newWithSize (by simpa [Op.noFaultCovered] using hcov) h hr hans
  | newWithCapacity L => exact noFault_newWithCapacity h hr hans
  | newUnallocated => exact noFault_newUnallocated
  | drop => exact noFault_drop
  | allocate L z via => exact noFault_allocate h hr hf hans
  | deallocate b via => exact noFault_deallocate h
  | grow b L z via => exact noFault_grow h hr hf hans
  | shrink b L via => exact noFault_shrink h hr hf hans
  | allocLayout L hh => exact noFault_allocLayout h hr hans
  | shrinkSlice b n => exact noFault_shrinkSlice h
  | prepare L => exact noFault_prepare h hr hans
  | commit size rev => exact noFault_commit h
  | prepareSlice esize ealign minCap rev =>
    exact noFault_prepareSlice (by simpa [Op.noFaultCovered] using hcov) h hr hans
  | fillPrepared len seed => exact noFault_fillPrepared h
  | commitSlice len => exact noFault_commitSlice h
  | abandonPrepared => exact noFault_abandonPrepared
  | reserve n dyn => exact noFault_reserve h hr hans
  | scopeEnter => exact noFault_scopeEnter
  | scopeExit => exact noFault_scopeExit h
  | checkpoint k => exact noFault_checkpoint
  | resetTo k => exact noFault_resetTo h
  | reset => exact noFault_reset
  | resetToStart => exact noFault_resetToStart
  | claim => exact noFault_claim
  | claimEnd => exact noFault_claimEnd
  | onClaimed op => exact noFault_onClaimed hcov h
  | alignedEnter n => exact noFault_alignedEnter h
  | alignedExit => exact noFault_alignedExit h
  | scopedAlignedEnter n => exact noFault_scopedAlignedEnter h
  | scopedAlignedExit => exact noFault_scopedAlignedExit h
  | withSettings n ga cl => exact noFault_withSettings h
  | allocTryWith L off vsize ok inner mut_ =>
    exact noFault_allocTryWith (Nat.dvd_of_mod_eq_zero (by simpa [Op.noFaultCovered] using hcov)) h hr hf hans.1 hans.2
  | write b seed => exact noFault_write h
  | split b at_ => exact noFault_split

/-- non-vacuity: a fresh arena (upwards, `MIN_ALIGN = 8`) to which the base allocator is about to grant 4000
    bytes at `0x40000` satisfies all hypotheses for a zeroed `allocate` of 24 bytes, which asks for 496 bytes -/
example : ∃ g : GState, Inv exCfg g ∧ RespsOK exCfg g.s ∧ RespsFresh g.s ∧
    Answered exCfg g.s (.allocate { size := 24, align := 8 } true .plain) ∧
    (Op.allocate { size := 24, align := 8 } true .plain).noFaultCovered = true ∧
    ∃ g' out, stepCore exCfg g (.allocate { size := 24, align := 8 } true .plain) = .ok (g', out) := by
  refine ⟨install (initG exCfg) [.granted 0x40000 4000], (inv_init exCfg_ok).install _, ?_,
    ⟨List.pairwise_singleton _ _, ?_⟩, ?_, rfl, ⟨_, _, rfl⟩⟩
  · intro r hr
    simp only [install, initG, initState, List.mem_singleton] at hr
    subst hr
    exact ⟨by decide, by decide, by decide⟩
  · intro p gr _ i c hc
    simp [install, initG, initState] at hc
  · intro size hs
    have : requestSize exCfg (install (initG exCfg) [.granted 0x40000 4000]).s { size := 24, align := 8 } = some 496 := by
      decide
    rw [this] at hs; cases hs
    exact ⟨_, _, rfl, by decide, by decide, by decide, by decide⟩

end Arena.Hist
