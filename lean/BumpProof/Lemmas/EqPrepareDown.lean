/-
  Lemmas/EqPrepareDown.lean — `bump_prepare_down` computes `Spec.prepareDown`.
-/
import BumpProof.Lemmas.RsOps
set_option linter.unusedSimpArgs false
set_option linter.unusedVariables false
namespace Lemmas
open Gen.Bumping Rs C11
attribute [local congr] rs_bind_congr rs_ite_congr

theorem bump_prepare_down_ok (p : BumpProps) (h : Valid false p) :
    bump_prepare_down p = .ok (Spec.prepareDown p.start p.«end» p.layout.size p.layout.align) := by
  have hdav := debug_assert_valid_eq h
  have hf := Valid.facts h
  unfold bump_prepare_down
  rw [mca, hdav]
  simp only [ok_bind]
  obtain ⟨s, e, m, ⟨sz, a⟩, aic, sic, smoa⟩ := p
  simp only at hf ⊢
  clear hdav h
  obtain ⟨hm, hm16, hm16d, ha, ha64, hap, hmp, hs0, he0, hs64, he64, hsz, htr, h16, hr⟩ := hf
  have hszI : as_isize sz = (sz : Int) := as_isize_small' (by omega)
  simp only [Bool.false_eq_true, ↓reduceIte] at hr
  have hE1 := downAlign_dvd e a
  have hE2 := downAlign_le e a
  have hE3 := lt_downAlign_add e hap
  have hS1 := upAlign_dvd s a
  have hS2 := le_upAlign s hap
  have hS3 := upAlign_lt s hap
  have hS4 : ∀ q, a ∣ q → s ≤ q → Spec.upAlign s a ≤ q := fun q h1 h2 => upAlign_le_of_dvd hap h1 h2
  have hE4 : ∀ q, a ∣ q → q ≤ e → q ≤ Spec.downAlign e a := fun q h1 h2 => le_downAlign_of_dvd hap h1 h2
  have hE64 : Spec.downAlign e a + a ≤ 2 ^ 64 :=
    add_le_of_dvd_of_lt hE1 (ha.dvd_two_pow_64 ha64) (by omega)
  unfold Spec.prepareDown
  by_cases c1 : (aic && decide (a ≤ m)) = true
  · simp only [c1, ↓reduceIte]
    simp only [Bool.and_eq_true, decide_eq_true_eq] at c1
    have hae : a ∣ e := by
      rcases hr with ⟨_, _, _, h⟩ | ⟨_, h, _⟩
      · exact Nat.dvd_trans (ha.dvd_of_le hm c1.2) h
      · exact Nat.dvd_trans (Nat.dvd_trans (ha.dvd_of_le hm c1.2) hm16d) h
    have hEe := downAlign_eq_self hae
    rw [hEe] at hE1 hE2 hE3 hE4 hE64 ⊢
    rcases hr with ⟨h1, h2, h3, h4⟩ | ⟨h1, h2, h3⟩
    · by_cases hcmp : (sz : Int) > ((e - s : Nat) : Int)
      · have : ¬ (s + sz ≤ e) := by omega
        rs_simp [hszI]
        simp only [hcmp, this, ↓reduceIte]
      · have : s + sz ≤ e := by omega
        have := hS4 e hae (by omega)
        rs_simp [hszI]
        simp only [hcmp, ‹s + sz ≤ e›, ↓reduceIte]
    · subst h1
      have : ¬ (e + 16 + sz ≤ e) := by omega
      have h5 : (sz : Int) > -16 := by omega
      rs_simp [hszI]
      simp only [this, h5, ↓reduceIte]
  · simp only [c1, ↓reduceIte]
    rs_simp [hszI]
    generalize hE : Spec.downAlign e a = E at *
    by_cases c2 : (aic && decide (a ≤ 16)) = true
    · simp only [c2, ↓reduceIte]
      simp only [Bool.and_eq_true, decide_eq_true_eq] at c2
      have ha16 : a ∣ 16 := ha.dvd_of_le h16 c2.2
      rcases hr with ⟨h1, h2, h3, h4⟩ | ⟨h1, h2, h3⟩
      · have hsE : s ≤ E := hE4 s (Nat.dvd_trans ha16 h3) h1
        by_cases hcmp : (sz : Int) > ((E - s : Nat) : Int)
        · have : ¬ (s + sz ≤ E) := by omega
          rs_simp [hszI]
          simp only [hcmp, this, ↓reduceIte]
        · have : s + sz ≤ E := by omega
          have := hS4 E hE1 hsE
          rs_simp [hszI]
          simp only [hcmp, ‹s + sz ≤ E›, ↓reduceIte]
      · have hEe : E = e := by rw [← hE]; exact downAlign_eq_self (Nat.dvd_trans ha16 h2)
        subst hEe
        subst h1
        have : ¬ (E + 16 + sz ≤ E) := by omega
        have h5 : (sz : Int) > -16 := by omega
        rs_simp [hszI]
        simp only [this, h5, ↓reduceIte]
    · simp only [c2, ↓reduceIte]
      by_cases c3 : E < s
      · have : ¬ (s + sz ≤ E) := by omega
        simp only [c3, this, ↓reduceIte, Bool.false_eq_true]
      · simp only [c3, ↓reduceIte]
        have hsE : s ≤ E := by omega
        have hcap : E - s < 2 ^ 63 := by
          rcases hr with ⟨h1, h2, h3, h4⟩ | ⟨h1, h2, h3⟩ <;> omega
        by_cases hcmp : (sz : Int) > ((E - s : Nat) : Int)
        · have : ¬ (s + sz ≤ E) := by omega
          rs_simp [hszI]
          simp only [hcmp, this, ↓reduceIte]
        · have : s + sz ≤ E := by omega
          have := hS4 E hE1 hsE
          rs_simp [hszI]
          simp only [hcmp, ‹s + sz ≤ E›, ↓reduceIte]
end Lemmas
