/-
  Lemmas/CollFail.lean — the refused-reservation branch of every growing operation (`Coll/Vecs.lean`,
  `Coll/Rev.lean`): `generic_reserve*(…)?` returns early (`try_*`: `Err`, the panicking twin: unwinds) BEFORE
  anything was written, so the vector is literally the one before; a by-value argument is dropped.
-/
import BumpProof.Coll.Vecs
import BumpProof.Coll.Rev
import BumpProof.Coll.Run
import BumpProof.Lemmas.CollPrim
import BumpProof.Lemmas.CollWF

namespace Coll

/-! ## when is a reservation refused -/

theorem reserve_refused_fixed (env : Env) (v : Vec) (n : Nat) (hk : env.kind = .fixed ∨ env.kind = .box)
    (hn : n > v.cap - v.len) : reserve env v n = none := by
  unfold reserve growAmortized
  rcases hk with hk | hk <;> simp [hn, hk]

theorem reserveOne_refused_fixed (env : Env) (v : Vec) (hk : env.kind = .fixed ∨ env.kind = .box)
    (hn : v.len ≥ v.cap) : reserveOne env v = none := by
  unfold reserveOne
  rcases hk with hk | hk <;> simp [hn, hk]

/-- `MutBumpVec` / `MutBumpVecRev` (`capIn` = what the arena can give): refused when even that is not enough -/
theorem reserve_refused_mut (env : Env) (v : Vec) (n : Nat) (hk : env.kind = .mut ∨ env.kind = .rev)
    (hn : n > v.cap - v.len) (hc : v.len + n > env.capIn) : reserve env v n = none := by
  unfold reserve growAmortized
  have : ¬ v.len + n ≤ env.capIn := by omega
  rcases hk with hk | hk <;> simp [hn, hk, this]

theorem reserveOne_refused_mut (env : Env) (v : Vec) (hk : env.kind = .mut ∨ env.kind = .rev)
    (hn : v.cap = v.len) (hc : v.len + 1 > env.capIn) : reserveOne env v = none := by
  unfold reserveOne growAmortized
  have : ¬ v.len + 1 ≤ env.capIn := by omega
  rcases hk with hk | hk <;> simp [hn, hk, this]

theorem reserveExact_refused_mut (env : Env) (v : Vec) (n : Nat) (hk : env.kind = .mut ∨ env.kind = .rev)
    (hn : n > v.cap - v.len) (hc : v.len + n > env.capIn) : reserveExact env v n = none := by
  unfold reserveExact
  have : ¬ v.len + n ≤ env.capIn := by omega
  rcases hk with hk | hk <;> simp [hn, hk, this]

theorem reserveExact_refused_fixed (env : Env) (v : Vec) (n : Nat) (hk : env.kind = .fixed ∨ env.kind = .box)
    (hn : n > v.cap - v.len) : reserveExact env v n = none := by
  unfold reserveExact
  rcases hk with hk | hk <;> simp [hn, hk]

theorem rreserve_refused (env : Env) (v : Vec) (n : Nat) (hn : n > v.cap - v.len) (hc : v.len + n > env.capIn) :
    rreserve env v n = none := by
  unfold rreserve rgrowAmortized
  have : ¬ v.len + n ≤ env.capIn := by omega
  simp [hn, this]

/-! ## "capacity overflow": a request for more elements than have a layout is refused by EVERY kind -/

theorem fits_false {env : Env} {m c : Nat} (hm : env.maxCap = some m) (h : c > m) : env.fits c = false := by
  simp [Env.fits, hm]; omega

theorem reserve_overflow_refused (env : Env) (v : Vec) (n m : Nat) (hm : env.maxCap = some m) (hl : v.len ≤ v.cap)
    (hc : v.cap ≤ m) (h : v.len + n > m) : reserve env v n = none := by
  have hn : n > v.cap - v.len := by omega
  have hf : env.fits (max (max (v.cap * 2) (v.len + n)) env.minCap) = false := fits_false hm (by omega)
  have hf' : env.fits (max (v.cap * 2) (max (v.len + n) env.minCap)) = false := fits_false hm (by omega)
  unfold reserve growAmortized
  cases hk : env.kind <;> simp [hn, hf, hf']

theorem reserveExact_overflow_refused (env : Env) (v : Vec) (n m : Nat) (hm : env.maxCap = some m) (hl : v.len ≤ v.cap)
    (hc : v.cap ≤ m) (h : v.len + n > m) : reserveExact env v n = none := by
  have hn : n > v.cap - v.len := by omega
  have hf : env.fits (v.len + n) = false := fits_false hm h
  unfold reserveExact
  cases hk : env.kind <;> simp [hn, hf]

theorem rreserve_overflow_refused (env : Env) (v : Vec) (n m : Nat) (hm : env.maxCap = some m) (hl : v.len ≤ v.cap)
    (hc : v.cap ≤ m) (h : v.len + n > m) : rreserve env v n = none := by
  have hn : n > v.cap - v.len := by omega
  have hf : env.fits (max (max (v.cap * 2) (v.len + n)) env.minCap) = false := fits_false hm (by omega)
  have hf' : env.fits (max (v.cap * 2) (max (v.len + n) env.minCap)) = false := fits_false hm (by omega)
  unfold rreserve rgrowAmortized
  simp [hn, hf, hf']

/-! ## the operations on a refused reservation -/

theorem push_refused (env : Env) (v : Vec) (id : Id) (h : reserveOne env v = none) :
    push env v id = .ok ⟨dropArg v id, .panic false, []⟩ := by simp [push, h]

theorem insert_refused (env : Env) (v : Vec) (i : Nat) (id : Id) (h : reserveOne env v = none) :
    insert env v i id = .ok ⟨dropArg v id, .panic false, []⟩ := by
  unfold insert; split <;> simp [h]

theorem extendFromSliceClone_refused (env : Env) (v : Vec) (n : Nat) (o : List Outcome) (h : reserve env v n = none) :
    extendFromSliceClone env v n o = .ok ⟨v, .panic false, o⟩ := by simp [extendFromSliceClone, h]

theorem extendFromWithinClone_refused (env : Env) (v : Vec) (s e : Nat) (o : List Outcome)
    (h : reserve env v (e - s) = none) : extendFromWithinClone env v s e o = .ok ⟨v, .panic false, o⟩ := by
  unfold extendFromWithinClone; split <;> simp [h]

theorem resize_refused (env : Env) (v : Vec) (n : Nat) (value : Id) (o : List Outcome)
    (h : reserve env v (n - v.len) = none) : resize env v n value o = .ok ⟨dropArg v value, .panic false, o⟩ := by
  have hn : n > v.len := by
    unfold reserve at h
    by_cases hh : n - v.len > v.cap - v.len
    · omega
    · simp [hh] at h
  simp [resize, hn, extendWith, h]

theorem resizeWith_refused (env : Env) (v : Vec) (n : Nat) (o : List Outcome)
    (h : reserve env v (n - v.len) = none) : resizeWith env v n o = .ok ⟨v, .panic false, o⟩ := by
  have hn : n > v.len := by
    unfold reserve at h
    by_cases hh : n - v.len > v.cap - v.len
    · omega
    · simp [hh] at h
  simp [resizeWith, hn, h]

/-- `append(other)`: `self` is untouched; the owned slice that was passed in is dropped with all its elements -/
theorem append_refused (env : Env) (v other : Vec) (ys : List Id) (k : Nat) (h : reserve env v other.len = none)
    (hs : other.slots = I ys ++ H k) (hl : ys.length = other.len) :
    append env v other =
      .ok (⟨v, .panic false, []⟩, { other with slots := H ys.length ++ H k, len := 0, dropLog := other.dropLog ++ ys }) := by
  unfold append
  simp only [h]
  have := dropRange_seg env.bombs ys true (setLen other 0) [] (H k) 0 (by simpa [setLen] using hs) rfl
  rw [← hl, this]
  simp [setLen]

theorem rpush_refused (env : Env) (v : Vec) (id : Id) (h : rreserve env v 1 = none) :
    rpush env v id = .ok ⟨dropArg v id, .panic false, []⟩ := by simp [rpush, h]

theorem rinsert_refused (env : Env) (v : Vec) (i : Nat) (id : Id) (h : rreserve env v 1 = none) :
    rinsert env v i id = .ok ⟨dropArg v id, .panic false, []⟩ := by
  unfold rinsert; split <;> simp [h]

theorem rextendFromSliceClone_refused (env : Env) (v : Vec) (n : Nat) (o : List Outcome) (h : rreserve env v n = none) :
    rextendFromSliceClone env v n o = .ok ⟨v, .panic false, o⟩ := by simp [rextendFromSliceClone, h]

theorem rresize_refused (env : Env) (v : Vec) (n : Nat) (value : Id) (o : List Outcome)
    (h : rreserve env v (n - v.len) = none) : rresize env v n value o = .ok ⟨dropArg v value, .panic false, o⟩ := by
  have hn : n > v.len := by
    unfold rreserve at h
    by_cases hh : n - v.len > v.cap - v.len
    · omega
    · simp [hh] at h
  simp [rresize, hn, rextendWith, h]

theorem rresizeWith_refused (env : Env) (v : Vec) (n : Nat) (o : List Outcome)
    (h : rreserve env v (n - v.len) = none) : rresizeWith env v n o = .ok ⟨v, .panic false, o⟩ := by
  have hn : n > v.len := by
    unfold rreserve at h
    by_cases hh : n - v.len > v.cap - v.len
    · omega
    · simp [hh] at h
  simp [rresizeWith, hn, h]

theorem rappend_refused (env : Env) (v other : Vec) (ys : List Id) (k : Nat) (h : rreserve env v other.len = none)
    (hs : other.slots = I ys ++ H k) (hl : ys.length = other.len) :
    rappend env v other =
      .ok (⟨v, .panic false, []⟩, { other with slots := H ys.length ++ H k, len := 0, dropLog := other.dropLog ++ ys }) := by
  unfold rappend
  simp only [h]
  have := dropRange_seg env.bombs ys true (setLen other 0) [] (H k) 0 (by simpa [setLen] using hs) rfl
  rw [← hl, this]
  simp [setLen]

/-! ## all of them at once, on the operation type of the histories (`Coll/Run.lean`) -/

/-- the by-value arguments of an operation -/
def argsOf : Op → List Id
  | .push id => [id]
  | .insert _ id => [id]
  | .resize _ value _ => [value]
  | _ => []

/-- a single failed operation: the buffer, the length, the capacity and the hand-outs are the ones before,
    and exactly the by-value arguments were dropped -/
theorem failed_step_unchanged (env : Env) (v : Vec) (op : Op) (h : roomOf env v op = false) :
    stepVec env v op = .ok (match argsOf op with | [] => v | a => { v with dropLog := v.dropLog ++ a }) := by
  cases op <;> simp only [roomOf, Bool.true_eq_false, reduceCtorEq] at h
  case push id =>
    have h' : reserveOne env v = none := by simpa using h
    simp [stepVec, push_refused env v id h', argsOf, Except.map, dropArg]
  case insert i id =>
    have h' : reserveOne env v = none := by simpa using h
    simp [stepVec, insert_refused env v i id h', argsOf, Except.map, dropArg]
  case extendClone n o =>
    have h' : reserve env v n = none := by simpa using h
    simp [stepVec, extendFromSliceClone_refused env v n o h', argsOf, Except.map]
  case extendWithin s e o =>
    have h' : reserve env v (e - s) = none := by simpa using h
    simp [stepVec, extendFromWithinClone_refused env v s e o h', argsOf, Except.map]
  case resize n value o =>
    have h' : reserve env v (n - v.len) = none := by simpa using h
    simp [stepVec, resize_refused env v n value o h', argsOf, Except.map, dropArg]
  case resizeWith n o =>
    have h' : reserve env v (n - v.len) = none := by simpa using h
    simp [stepVec, resizeWith_refused env v n o h', argsOf, Except.map]

end Coll
