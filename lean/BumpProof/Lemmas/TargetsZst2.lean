/-
  Lemmas/TargetsZst2.lean — no function of the arena model touches the ghost list of live blocks
  (`s'.live = s.live`, lemma family `lv_*` and the closing tactic `lv_auto`, built like `tr_*` / `tr_auto`
  of `Lemmas/Hist2Trail.lean`).
-/
import BumpProof.Lemmas.TargetsZst1

set_option linter.unusedSimpArgs false
set_option linter.unusedVariables false

namespace Arena.Hist
open Rs Ledger Lemmas

variable {cfg : Cfg}

theorem lv_setPos (s : State) (i p : Nat) : (Arena.setPos s i p).live = s.live := rfl
theorem lv_setCurPos (s : State) (p : Nat) : (Arena.setCurPos s p).live = s.live := (Stable.setCurPos s p).live

theorem lv_tryCur {k : Kind} {s s' : State} {L : Layout} {hh : Hints} {v : Nat × Nat}
    (h : tryCur cfg k s L hh = .ok (some (v, s'))) : s'.live = s.live :=
  ((tryCur_frame h).2.2.2.2 0 (fun _ _ => Nat.zero_le _)).live

theorem lv_newChunk {s s' : State} {size : Nat} {r : Except AErr Nat}
    (h : newChunk cfg s size = .ok (s', r)) : s'.live = s.live := ((newChunk_frame h).2.1 0).live

theorem lv_newChunkForCapacity {s s' : State} {L : Layout} {r : Except AErr Nat}
    (h : newChunkForCapacity cfg s L = .ok (s', r)) : s'.live = s.live := ((newChunkForCapacity_frame h).2.1 0).live

theorem lv_inAnotherChunk {k : Kind} {s s' : State} {L : Layout} {hh : Hints} {r : Except AErr (Nat × Nat)}
    (h : inAnotherChunk cfg k s L hh = .ok (s', r)) : s'.live = s.live :=
  ((inAnotherChunk_frame h).ext 0 (fun _ _ => Nat.zero_le _)).live

theorem lv_allocGeneric {k : Kind} {s s' : State} {L : Layout} {h1 h2 : Hints} {r : Except AErr (Nat × Nat)}
    (h : allocGeneric cfg k s L h1 h2 = .ok (s', r)) : s'.live = s.live :=
  ((allocGeneric_frame h).1 0 (fun _ _ => Nat.zero_le _)).live

theorem lv_inAnotherChunk_pair {k : Kind} {s s1 : State} {L : Layout} {hh : Hints}
    {v : State × Except AErr (Nat × Nat)} {α : Type} {x y : α}
    (hv : inAnotherChunk cfg k s L hh = .ok v) (he : (v.fst, x) = (s1, y)) : s1.live = s.live := by
  obtain ⟨v1, v2⟩ := v
  cases he
  exact lv_inAnotherChunk hv

theorem lv_alloc {s s' : State} {L : Layout} {r : Except AErr Nat}
    (h : alloc cfg s L = .ok (s', r)) : s'.live = s.live :=
  ((alloc_frame h).1 0 (fun _ _ => Nat.zero_le _)).live

theorem lv_reserve {s s' : State} {n : Nat} {r : Except AErr Unit}
    (h : reserve cfg s n = .ok (s', r)) : s'.live = s.live := ((reserve_frame h).1 0).live

theorem lv_writeRange {s s' : State} {lo hi : Nat} {f : Nat → UInt8}
    (h : writeRange cfg s lo hi f = .ok s') : s'.live = s.live := (Stable.of_onlyData (Mem.writeRange_onlyData h)).live

theorem lv_zeroRange {s s' : State} {a n : Nat} (h : zeroRange cfg s a n = .ok s') : s'.live = s.live := lv_writeRange h

theorem lv_copyBytes {s s' : State} {src dst len : Nat} {b : Bool}
    (h : copyBytes cfg s src dst len b = .ok s') : s'.live = s.live := (Stable.of_onlyData (Mem.copyBytes_onlyData h)).live

theorem lv_deallocAssumeLast {s s' : State} {ptr size : Nat}
    (h : deallocAssumeLast cfg s ptr size = .ok s') : s'.live = s.live := by
  rcases Mem.deallocAssumeLast_inv h with rfl | ⟨i, p, _, _, rfl⟩
  · rfl
  · rfl

theorem lv_deallocate {s s' : State} {ptr size : Nat} (h : deallocate cfg s ptr size = .ok s') : s'.live = s.live :=
  (deallocate_stable h).live

theorem lv_resetToStart (s : State) : (resetToStart cfg s).live = s.live := (resetToStart_stable cfg s).live

theorem lv_resetTo {s s' : State} {cp : Checkpoint} (h : resetTo cfg s cp = .ok s') : s'.live = s.live :=
  (resetTo_stable h).live

theorem lv_alignTo {s s' : State} {n : Nat} (h : alignTo cfg s n = .ok s') : s'.live = s.live := (alignTo_stable h).live

theorem lv_alignGuardDrop {s s' : State} {n : Nat} (h : alignGuardDrop cfg s n = .ok s') : s'.live = s.live :=
  (alignGuardDrop_stable h).live

theorem lv_alignChunkAt {s s' : State} {n : Nat} {st : Cur} (h : alignChunkAt cfg s n st = .ok s') : s'.live = s.live :=
  (alignChunkAt_stable h).live

/-! ### the closing tactic -/

syntax "lv_norm" : tactic
macro_rules
  | `(tactic| lv_norm) =>
    `(tactic| first
      | simp only [lv_setPos, lv_setCurPos, lv_resetToStart]
      | dsimp only)

syntax "lv_peel" : tactic
macro_rules
  | `(tactic| lv_peel) =>
    `(tactic| first
      | rfl
      | refine Eq.trans (lv_tryCur (by assumption)) ?_
      | refine Eq.trans (lv_copyBytes (by assumption)) ?_
      | refine Eq.trans (lv_writeRange (by assumption)) ?_
      | refine Eq.trans (lv_zeroRange (by assumption)) ?_
      | refine Eq.trans (lv_deallocAssumeLast (by assumption)) ?_
      | refine Eq.trans (lv_deallocate (by assumption)) ?_
      | refine Eq.trans (lv_resetTo (by assumption)) ?_
      | refine Eq.trans (lv_alignTo (by assumption)) ?_
      | refine Eq.trans (lv_alignGuardDrop (by assumption)) ?_
      | refine Eq.trans (lv_alignChunkAt (by assumption)) ?_
      | refine Eq.trans (lv_newChunk (by assumption)) ?_
      | refine Eq.trans (lv_newChunkForCapacity (by assumption)) ?_
      | refine Eq.trans (lv_inAnotherChunk (by assumption)) ?_
      | refine Eq.trans (lv_inAnotherChunk_pair (by assumption) (by assumption)) ?_
      | refine Eq.trans (lv_allocGeneric (by assumption)) ?_
      | refine Eq.trans (lv_alloc (by assumption)) ?_
      | refine Eq.trans (lv_reserve (by assumption)) ?_)

syntax "lv_auto" : tactic
macro_rules
  | `(tactic| lv_auto) => `(tactic| (repeat (first | lv_peel | lv_norm)))

/-- split every path of a model function; close the faulting paths; run `lv_auto` on the others -/
syntax "lv_paths " ident : tactic
macro_rules
  | `(tactic| lv_paths $h) =>
    `(tactic| (simp only [bind, Except.bind, pure, Except.pure, throw, throwThe, MonadExceptOf.throw] at $h:ident
               (repeat' split at $h:ident) <;> (first | (cases $h:ident; done) | (cases $h:ident; lv_auto) | lv_auto)))

theorem lv_grow {s s' : State} {ptr oldSize : Nat} {newL : Layout} {r : Except AErr Nat}
    (h : grow cfg s ptr oldSize newL = .ok (s', r)) : s'.live = s.live := by
  unfold grow at h
  lv_paths h

theorem lv_shrink {s s' : State} {ptr oldSize : Nat} {newL : Layout} {r : Except AErr (Nat × Nat)}
    (h : shrink cfg s ptr oldSize newL = .ok (s', r)) : s'.live = s.live := by
  unfold shrink at h
  lv_paths h

theorem lv_shrinkWithoutShrink {s s' : State} {ptr oldSize : Nat} {newL : Layout} {r : Except AErr (Nat × Nat)}
    (h : shrinkWithoutShrink cfg s ptr oldSize newL = .ok (s', r)) : s'.live = s.live := by
  unfold shrinkWithoutShrink at h
  lv_paths h

theorem lv_shrinkSlice {s s' : State} {ptr oldSize newSize ealign : Nat} {r : Option Nat}
    (h : shrinkSlice cfg s ptr oldSize newSize ealign = .ok (s', r)) : s'.live = s.live := by
  unfold shrinkSlice at h
  lv_paths h

theorem lv_reserveDyn {s s' : State} {n : Nat} {r : Except AErr Unit}
    (h : reserveDyn cfg s n = .ok (s', r)) : s'.live = s.live := by
  unfold reserveDyn at h
  lv_paths h

theorem lv_allocatePrepared {s s' : State} {size rstart rend : Nat} {rev : Bool} {a : Nat}
    (h : allocatePrepared cfg s size rstart rend rev = .ok (s', a)) : s'.live = s.live := by
  unfold allocatePrepared at h
  lv_paths h

theorem lv_setPosAlignFrom {s s' : State} {a b : Nat} (h : setPosAlignFrom cfg s a b = .ok s') : s'.live = s.live := by
  unfold setPosAlignFrom at h
  lv_paths h

macro_rules
  | `(tactic| lv_peel) =>
    `(tactic| first
      | refine Eq.trans (lv_setPosAlignFrom (by assumption)) ?_
      | refine Eq.trans (lv_grow (by assumption)) ?_
      | refine Eq.trans (lv_shrink (by assumption)) ?_
      | refine Eq.trans (lv_shrinkWithoutShrink (by assumption)) ?_
      | refine Eq.trans (lv_shrinkSlice (by assumption)) ?_
      | refine Eq.trans (lv_reserveDyn (by assumption)) ?_
      | refine Eq.trans (lv_allocatePrepared (by assumption)) ?_)

theorem lv_allocatePreparedSlice {s s' : State} {ptr len cap esize ealign : Nat} {rev : Bool} {a : Nat}
    (h : allocatePreparedSlice cfg s ptr len cap esize ealign rev = .ok (s', a)) : s'.live = s.live := by
  unfold allocatePreparedSlice at h
  lv_paths h

macro_rules
  | `(tactic| lv_peel) =>
    `(tactic| refine Eq.trans (lv_allocatePreparedSlice (by assumption)) ?_)

end Arena.Hist
