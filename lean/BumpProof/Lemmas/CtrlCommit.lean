/-
  Lemmas/CtrlCommit.lean — committing a prepared allocation: byte copies keep the shape of the arena
  (positions, current chunk, ghost state); `set_pos_addr_and_align_from` evaluated.
-/
import BumpProof.Lemmas.CtrlState

set_option linter.unusedVariables false
set_option linter.unusedSimpArgs false

namespace Ctrl
open Arena Rs Lemmas

theorem lt_length_of_get' {l : List Chunk} {i : Nat} {c : Chunk} (h : l[i]? = some c) : i < l.length := by
  rcases Nat.lt_or_ge i l.length with h1 | h1
  · exact h1
  · rw [List.getElem?_eq_none h1] at h; cases h

/-- `s'` differs from `s` at most in the BYTES stored in the chunks -/
structure SameShape (s s' : State) : Prop where
  cur : s'.cur = s.cur
  chunks : ∀ j : Nat, (s'.chunks[j]?).map (fun c => (c.base, c.size, c.pos)) =
    (s.chunks[j]?).map (fun c => (c.base, c.size, c.pos))
  live : s'.live = s.live
  minAlign : s'.minAlign = s.minAlign
  frames : s'.frames = s.frames
  nextId : s'.nextId = s.nextId
  userCps : s'.userCps = s.userCps
  prepared : s'.prepared = s.prepared

theorem SameShape.refl (s : State) : SameShape s s := ⟨rfl, fun _ => rfl, rfl, rfl, rfl, rfl, rfl, rfl⟩

theorem SameShape.curChunk {s s' : State} {i : Nat} {c : Chunk} (h : SameShape s s') (hc : CurChunk s i c) :
    ∃ c', CurChunk s' i c' ∧ c'.base = c.base ∧ c'.size = c.size ∧ c'.pos = c.pos := by
  have := h.chunks i
  rw [hc.get] at this
  cases hg : s'.chunks[i]? with
  | none => rw [hg] at this; cases this
  | some c' =>
    rw [hg] at this
    simp only [Option.map_some, Option.some.injEq, Prod.mk.injEq] at this
    exact ⟨c', ⟨h.cur.trans hc.cur, hg⟩, this.1, this.2.1, this.2.2⟩

theorem writeRange_shape {cfg : Cfg} {s s' : State} {lo hi : Nat} {f : Nat → UInt8}
    (h : writeRange cfg s lo hi f = .ok s') : SameShape s s' := by
  unfold writeRange at h
  split at h
  · cases h; exact SameShape.refl s
  · split at h
    · cases h
    · split at h
      · cases h
      · split at h
        · simp only [R_pure_eq, Except.ok.injEq] at h
          subst h
          refine ⟨rfl, fun j => ?_, rfl, rfl, rfl, rfl, rfl, rfl⟩
          simp only [List.getElem?_modify]
          cases s.chunks[j]? with
          | none => rfl
          | some c =>
            simp only [Option.map_some]
            split <;> rfl
        · cases h

theorem copyBytes_shape {cfg : Cfg} {s s' : State} {src dst len : Nat} {no : Bool}
    (h : copyBytes cfg s src dst len no = .ok s') : SameShape s s' := by
  unfold copyBytes at h
  split at h
  · cases h; exact SameShape.refl s
  · split at h
    · cases h
    · split at h
      · cases h
      · exact writeRange_shape h

/-- the observable effect of "some bytes were copied, then the position of the current chunk was set to `q`" -/
theorem setCurPos_after_copy (cfg : Cfg) {s s1 : State} {i : Nat} {c : Chunk} (hs : SameShape s s1)
    (hc : CurChunk s i c) (q : Nat) :
    curPos cfg (setCurPos s1 q) = q ∧ (setCurPos s1 q).cur = s.cur ∧ (setCurPos s1 q).live = s.live ∧
    ∀ j : Nat, j ≠ i → ((setCurPos s1 q).chunks[j]?).map (·.pos) = (s.chunks[j]?).map (·.pos) := by
  obtain ⟨c1, hc1, _, _, _⟩ := hs.curChunk hc
  refine ⟨(hc1.setCurPos q).curPos cfg, ?_, ?_, fun j hj => ?_⟩
  · rw [setCurPos_cur]; exact hs.cur
  · rw [setCurPos_live]; exact hs.live
  · rw [setCurPos_chunk hc1.cur, setPos_get_other (Ne.symm hj)]
    have := hs.chunks j
    cases h1 : s1.chunks[j]? <;> cases h2 : s.chunks[j]? <;> rw [h1, h2] at this <;>
      simp only [Option.map_some, Option.map_none, Option.some.injEq, Prod.mk.injEq, reduceCtorEq] at this ⊢
    exact this.2.2

/-! ## `set_pos_addr_and_align_from` -/

theorem setPosAlignFrom_up {cfg : Cfg} {s : State} {pos ea : Nat} (hup : cfg.up = true)
    (hm : MinAlignOk s.minAlign) (hea : P2 ea) (hal : ea ∣ pos) (hb : pos + 16 ≤ 2 ^ 64) :
    setPosAlignFrom cfg s pos ea = .ok (setCurPos s (Spec.upAlign pos s.minAlign)) := by
  unfold setPosAlignFrom
  have ha : Rs.assert (decide (pos % ea = 0)) = .ok () := assert_dec (Nat.mod_eq_zero_of_dvd hal)
  have hle := hm.le
  simp only [ha, liftM_ok, R_ok_bind, hup]
  split
  · rw [lib_align_pos_up hm.p2 hm.lt64 (by omega)]; rfl
  · rename_i hlt
    have hdvd : s.minAlign ∣ pos := Nat.dvd_trans (hm.p2.dvd_of_le hea (by omega)) hal
    rw [upAlign_eq_self hm.pos hdvd]; rfl

theorem setPosAlignFrom_down {cfg : Cfg} {s : State} {pos ea : Nat} (hup : cfg.up = false)
    (hm : MinAlignOk s.minAlign) (hea : P2 ea) (hal : ea ∣ pos) (hb : pos < 2 ^ 64) :
    setPosAlignFrom cfg s pos ea = .ok (setCurPos s (Spec.downAlign pos s.minAlign)) := by
  unfold setPosAlignFrom
  have ha : Rs.assert (decide (pos % ea = 0)) = .ok () := assert_dec (Nat.mod_eq_zero_of_dvd hal)
  simp only [ha, liftM_ok, R_ok_bind, hup]
  split
  · rw [lib_align_pos_down hm.p2 hm.lt64 hb]; rfl
  · rename_i hlt
    have hdvd : s.minAlign ∣ pos := Nat.dvd_trans (hm.p2.dvd_of_le hea (by omega)) hal
    rw [downAlign_eq_self hdvd]; rfl

end Ctrl

namespace Ctrl
open Arena Rs Lemmas

/-! ## Moving a position does not change any byte -/

theorem find?_setpos (a q : Nat) : ∀ (l : List Chunk) (i : Nat),
    ((l.modify i (fun c => { c with pos := q })).find? (fun c => c.base ≤ a ∧ a < c.base + c.size)).map
        (fun c => c.data.getD (a - c.base) 0) =
      (l.find? (fun c => c.base ≤ a ∧ a < c.base + c.size)).map (fun c => c.data.getD (a - c.base) 0) := by
  intro l
  induction l with
  | nil => intro i; rw [List.modify_nil]
  | cons c t ih =>
    intro i
    cases i with
    | zero =>
      rw [List.modify_zero_cons, List.find?_cons, List.find?_cons]
      by_cases hp : (decide (c.base ≤ a ∧ a < c.base + c.size)) = true
      · simp only [hp]; rfl
      · simp only [hp]
    | succ i =>
      rw [List.modify_succ_cons, List.find?_cons, List.find?_cons]
      by_cases hp : (decide (c.base ≤ a ∧ a < c.base + c.size)) = true
      · simp only [hp]
      · simp only [hp]; exact ih i

theorem readByte_setPos (s : State) (i q a : Nat) : readByte (setPos s i q) a = readByte s a := by
  have h := find?_setpos a q s.chunks i
  unfold readByte
  rw [setPos_chunks]
  cases h1 : (s.chunks.modify i (fun c => { c with pos := q })).find? (fun c => c.base ≤ a ∧ a < c.base + c.size) <;>
    cases h2 : s.chunks.find? (fun c => c.base ≤ a ∧ a < c.base + c.size) <;>
    rw [h1, h2] at h <;> simp only [Option.map_some, Option.map_none, Option.some.injEq, reduceCtorEq] at h
  · exact h

theorem readByte_setCurPos (s : State) (q a : Nat) : readByte (setCurPos s q) a = readByte s a := by
  unfold setCurPos
  split
  · exact readByte_setPos s _ q a
  · rfl

end Ctrl
