/-
  Lemmas/StrOps.lean — UTF-8 level specification of every model operation: if the string holds the
  characters `cs` then the operation returns / panics / fails exactly as the `List Char`
  specification says, and the string afterwards holds the specified characters (also after a panic).
-/
import BumpProof.Lemmas.StrBoundary
import BumpProof.Lemmas.StrBytes

namespace Str

/-- the string `s` is well formed and holds the characters `cs` -/
def Holds (s : State) (cs : List Char) : Prop := WFL s ∧ s.bytes = encode cs

/-- well formed: length within capacity, contents valid UTF-8 -/
def WF (s : State) : Prop := WFL s ∧ Valid s.bytes

theorem wf_iff (s : State) : WF s ↔ ∃ cs, Holds s cs := by
  constructor
  · rintro ⟨h, cs, hc⟩; exact ⟨cs, h, hc⟩
  · rintro ⟨cs, h, hc⟩; exact ⟨h, cs, hc⟩

theorem Holds.wf {s : State} {cs : List Char} (h : Holds s cs) : WF s := (wf_iff s).2 ⟨cs, h⟩

theorem Holds.len {s : State} {cs : List Char} (h : Holds s cs) : s.len = (encode cs).length := by
  rw [← h.2, bytes_length h.1]

theorem holds_inj {s : State} {a b : List Char} (ha : Holds s a) (hb : Holds s b) : a = b :=
  encode_inj (ha.2.symm.trans hb.2)

theorem holds_ofBytes (cs : List Char) (cap : Nat) : Holds (State.ofBytes (encode cs) cap) cs :=
  ⟨wfl_ofBytes _ _, bytes_ofBytes _ _⟩

theorem boundaryOk_iff {s : State} {cs : List Char} (h : Holds s cs) (i : Nat) :
    boundaryOk s i = true ↔ CharPos cs i := by
  unfold boundaryOk; rw [h.2]; exact isCharBoundary_iff cs i

/-- UTF-8 level outcome of a growing operation (see `GrowsTo`) -/
def GrowsToText (fixed : Bool) (s : State) (need : Nat) (r : Res Unit) (out : List Char) : Prop :=
  if fixed = true ∧ s.cap - s.len < need then r = .err s
  else ∃ s', r = .ok () s' ∧ Holds s' out ∧ (fixed = true → s'.cap = s.cap)

theorem GrowsTo.text {fixed : Bool} {s : State} {need : Nat} {r : Res Unit} {out : Bytes} {cs : List Char}
    (h : GrowsTo fixed s need r out) (ho : out = encode cs) : GrowsToText fixed s need r cs := by
  unfold GrowsTo at h; unfold GrowsToText
  split
  · rename_i hc; rw [if_pos hc] at h; exact h
  · rename_i hc; rw [if_neg hc] at h
    obtain ⟨s', hr, hw, hb, hcap⟩ := h
    exact ⟨s', hr, ⟨hw, hb.trans ho⟩, hcap⟩

/-- every outcome (ok, allocation error, PANIC) leaves a well-formed string — valid UTF-8 within
    capacity — and the undefined-behaviour fault is not reached -/
def AllWF {α : Type} : Res α → Prop
  | .ok _ s => WF s
  | .err s => WF s
  | .panic s => WF s
  | .fault => False

theorem GrowsToText.allWF {fixed : Bool} {s : State} {need : Nat} {r : Res Unit} {out : List Char}
    (h : GrowsToText fixed s need r out) (hs : WF s) : AllWF r := by
  unfold GrowsToText at h
  split at h
  · rw [h]; exact hs
  · obtain ⟨s', hr, hh, _⟩ := h; rw [hr]; exact hh.wf

theorem GrowsToText.not_panic {fixed : Bool} {s : State} {need : Nat} {r : Res Unit} {out : List Char}
    (h : GrowsToText fixed s need r out) : r.isPanic = false := by
  unfold GrowsToText at h
  split at h
  · rw [h]; rfl
  · obtain ⟨s', hr, _, _⟩ := h; rw [hr]; rfl

/-- a growable string never reports an allocation error -/
theorem GrowsToText.growable {s : State} {need : Nat} {r : Res Unit} {out : List Char}
    (h : GrowsToText false s need r out) : ∃ s', r = .ok () s' ∧ Holds s' out := by
  unfold GrowsToText at h
  rw [if_neg (by simp)] at h
  obtain ⟨s', hr, hh, _⟩ := h
  exact ⟨s', hr, hh⟩

/-! ## push, push_str -/

theorem encodeChar_of_size_one (ch : Char) (h : ch.utf8Size = 1) : encodeChar ch = [UInt8.ofNat ch.toNat] := by
  have h1 : ch.val ≤ 127 := Char.utf8Size_eq_one_iff.1 h
  have h2 : ch.toNat ≤ 127 := by
    have := UInt32.le_iff_toNat_le.1 h1
    simpa using this
  unfold encodeChar String.utf8EncodeChar
  simp only [Char.toNat_val]
  rw [if_pos (by omega)]

theorem push_spec (fixed : Bool) (s : State) (ch : Char) (cs : List Char) (h : Holds s cs) :
    GrowsToText fixed s ch.utf8Size (push fixed s ch) (cs ++ [ch]) := by
  unfold push
  split
  · rename_i h1
    have he := encodeChar_of_size_one ch h1
    rw [← he]
    have := appendBytes_spec fixed s (encodeChar ch) h.1
    rw [encodeChar_length] at this
    exact this.text (cs := cs ++ [ch]) (by rw [h.2, encode_append, encode_singleton])
  · have := appendBytes_spec fixed s (encodeChar ch) h.1
    rw [encodeChar_length] at this
    exact this.text (cs := cs ++ [ch]) (by rw [h.2, encode_append, encode_singleton])

theorem pushStr_spec (fixed : Bool) (s : State) (t cs : List Char) (h : Holds s cs) :
    GrowsToText fixed s (encode t).length (pushStr fixed s (encode t)) (cs ++ t) := by
  unfold pushStr
  exact (appendBytes_spec fixed s (encode t) h.1).text (cs := cs ++ t) (by rw [h.2, encode_append])

/-! ## insert, insert_str -/

theorem insertStr_spec (fixed : Bool) (s : State) (idx : Nat) (t cs1 cs2 : List Char)
    (h : Holds s (cs1 ++ cs2)) (hi : (encode cs1).length = idx) :
    GrowsToText fixed s (encode t).length (insertStr fixed s idx (encode t)) (cs1 ++ t ++ cs2) := by
  unfold insertStr
  have hb : boundaryOk s idx = true := (boundaryOk_iff h idx).2 ⟨cs1, cs2, rfl, hi⟩
  rw [hb]
  simp only [Bool.not_true, Bool.false_eq_true, ↓reduceIte]
  have hle : idx ≤ s.len := by rw [h.len, encode_append, List.length_append]; omega
  refine (insertBytes_spec fixed s idx (encode t) h.1 hle).text (cs := cs1 ++ t ++ cs2) ?_
  rw [h.2, encode_append, encode_append, encode_append, ← hi]
  simp

theorem insertStr_panic (fixed : Bool) (s : State) (idx : Nat) (str : Bytes) (cs : List Char)
    (h : Holds s cs) (hi : ¬ CharPos cs idx) : insertStr fixed s idx str = .panic s := by
  unfold insertStr
  have hb : boundaryOk s idx = false := by
    cases hbb : boundaryOk s idx with
    | false => rfl
    | true => exact absurd ((boundaryOk_iff h idx).1 hbb) hi
  rw [hb]; rfl

theorem insert_spec (fixed : Bool) (s : State) (idx : Nat) (ch : Char) (cs1 cs2 : List Char)
    (h : Holds s (cs1 ++ cs2)) (hi : (encode cs1).length = idx) :
    GrowsToText fixed s ch.utf8Size (insert fixed s idx ch) (cs1 ++ [ch] ++ cs2) := by
  have := insertStr_spec fixed s idx [ch] cs1 cs2 h hi
  simp only [insertStr, encode_singleton, encodeChar_length] at this
  exact this

theorem insert_panic (fixed : Bool) (s : State) (idx : Nat) (ch : Char) (cs : List Char)
    (h : Holds s cs) (hi : ¬ CharPos cs idx) : insert fixed s idx ch = .panic s :=
  insertStr_panic fixed s idx (encodeChar ch) cs h hi

/-! ## pop, truncate, clear -/

theorem eq_nil_or_snoc {α : Type} (l : List α) : l = [] ∨ ∃ l' a, l = l' ++ [a] := by
  induction l with
  | nil => exact Or.inl rfl
  | cons x xs ih =>
    right
    rcases ih with rfl | ⟨l', a, rfl⟩
    · exact ⟨[], x, rfl⟩
    · exact ⟨x :: l', a, rfl⟩

theorem pop_nil (s : State) (h : Holds s []) : pop s = .ok none s := by
  unfold pop; rw [h.2]; rfl

theorem pop_snoc (s : State) (cs : List Char) (c : Char) (h : Holds s (cs ++ [c])) :
    ∃ s', pop s = .ok (some c) s' ∧ Holds s' cs ∧ s'.buf = s.buf := by
  unfold pop
  rw [h.2, lastChar_snoc]
  refine ⟨_, rfl, ⟨?_, ?_⟩, rfl⟩
  · have := h.1; unfold WFL at *; simp only; omega
  · have hl := h.len
    rw [encode_append, List.length_append, encode_singleton, encodeChar_length] at hl
    rw [bytes_setLen s _ (by omega), h.2, encode_append, encode_singleton]
    rw [hl, Nat.add_sub_cancel, List.take_left]

theorem truncate_ok (s : State) (n : Nat) (cs1 cs2 : List Char) (h : Holds s (cs1 ++ cs2))
    (hn : (encode cs1).length = n) :
    ∃ s', truncate s n = .ok () s' ∧ Holds s' cs1 ∧ s'.buf = s.buf := by
  unfold truncate
  have hle : n ≤ s.len := by rw [h.len, encode_append, List.length_append]; omega
  have hb : boundaryOk s n = true := (boundaryOk_iff h n).2 ⟨cs1, cs2, rfl, hn⟩
  rw [if_pos hle, hb]
  refine ⟨_, rfl, ⟨?_, ?_⟩, rfl⟩
  · have := h.1; unfold WFL at *; simp only; omega
  · rw [bytes_setLen s _ hle, h.2, encode_append, ← hn, List.take_left]

theorem truncate_panic (s : State) (n : Nat) (cs : List Char) (h : Holds s cs) (hle : n ≤ s.len)
    (hn : ¬ CharPos cs n) : truncate s n = .panic s := by
  unfold truncate
  have hb : boundaryOk s n = false := by
    cases hbb : boundaryOk s n with
    | false => rfl
    | true => exact absurd ((boundaryOk_iff h n).1 hbb) hn
  rw [if_pos hle, hb]; rfl

theorem truncate_beyond (s : State) (n : Nat) (hn : s.len < n) : truncate s n = .ok () s := by
  unfold truncate; rw [if_neg (by omega)]

theorem clear_spec (s : State) : ∃ s', clear s = .ok () s' ∧ Holds s' [] ∧ s'.buf = s.buf :=
  ⟨_, rfl, ⟨by unfold WFL; simp, by simp [State.bytes]⟩, rfl⟩

/-! ## remove -/

theorem remove_ok (s : State) (idx : Nat) (c : Char) (cs1 cs2 : List Char)
    (h : Holds s (cs1 ++ c :: cs2)) (hi : (encode cs1).length = idx) :
    ∃ s', remove s idx = .ok c s' ∧ Holds s' (cs1 ++ cs2) ∧ s'.buf.length = s.buf.length := by
  unfold remove
  have hb : boundaryOk s idx = true := (boundaryOk_iff h idx).2 ⟨cs1, c :: cs2, rfl, hi⟩
  rw [hb]
  simp only [Bool.not_true, Bool.false_eq_true, ↓reduceIte]
  have hd : decodeFirst (s.bytes.drop idx) = some (c, encode cs2) := by
    rw [h.2, encode_append, ← hi, List.drop_left, encode_cons, decodeFirst_encodeChar_append]
  rw [hd]
  simp only
  have hl := h.len
  rw [encode_append, List.length_append, encode_cons, List.length_append, encodeChar_length, hi] at hl
  have hw := h.1
  unfold WFL at hw
  rw [copyWithin_eq _ _ _ _ (by omega) (by omega)]
  simp only
  refine ⟨_, rfl, ⟨?_, ?_⟩, ?_⟩
  · unfold WFL; simp; omega
  · have hbytes := h.2
    have e1 : encode (cs1 ++ cs2) = s.bytes.take idx ++ s.bytes.drop (idx + c.utf8Size) := by
      rw [hbytes, encode_append, encode_append, encode_cons, ← hi, List.take_left,
        ← encodeChar_length, ← List.length_append, ← List.append_assoc, List.drop_left]
    rw [e1]
    simp only [State.bytes]
    list_pw
  · simp; omega

theorem remove_panic (s : State) (idx : Nat) (cs : List Char) (h : Holds s cs)
    (hi : ¬ CharPos cs idx ∨ s.len ≤ idx) : remove s idx = .panic s := by
  unfold remove
  cases hbb : boundaryOk s idx with
  | false => rfl
  | true =>
    have hcp := (boundaryOk_iff h idx).1 hbb
    rcases hi with hi | hi
    · exact absurd hcp hi
    · have hle := charPos_le hcp
      rw [← h.len] at hle
      have : s.bytes.drop idx = [] := by
        apply List.drop_of_length_le; rw [bytes_length h.1]; exact hi
      rw [this]
      simp [decodeFirst]

end Str
