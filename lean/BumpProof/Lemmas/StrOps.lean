/-
  Lemmas/StrOps.lean — UTF-8 level specification of every model operation: if the string holds the
  characters `cs` then the operation returns / panics / fails exactly as the `List Char`
  specification says, and the string afterwards holds the specified characters (also after a panic).
-/
import BumpProof.Lemmas.StrBoundary
import BumpProof.Lemmas.StrBytes

namespace Str

/-- the string `s` is well formed and holds the characters `cs` -/
def Holds (s : State) (cs : List Char) : Prop := WFL s ∧ s.bytes = encode cs

/-- well formed: length within capacity, contents valid UTF-8 -/
def WF (s : State) : Prop := WFL s ∧ Valid s.bytes

theorem wf_iff (s : State) : WF s ↔ ∃ cs, Holds s cs := by
  constructor
  · rintro ⟨h, cs, hc⟩; exact ⟨cs, h, hc⟩
  · rintro ⟨cs, h, hc⟩; exact ⟨h, cs, hc⟩

theorem Holds.wf {s : State} {cs : List Char} (h : Holds s cs) : WF s := (wf_iff s).2 ⟨cs, h⟩

theorem Holds.len {s : State} {cs : List Char} (h : Holds s cs) : s.len = (encode cs).length := by
  rw [← h.2, bytes_length h.1]

theorem holds_inj {s : State} {a b : List Char} (ha : Holds s a) (hb : Holds s b) : a = b :=
  encode_inj (ha.2.symm.trans hb.2)

theorem holds_ofBytes (cs : List Char) (cap : Nat) : Holds (State.ofBytes (encode cs) cap) cs :=
  ⟨wfl_ofBytes _ _, bytes_ofBytes _ _⟩

theorem boundaryOk_iff {s : State} {cs : List Char} (h : Holds s cs) (i : Nat) :
    boundaryOk s i = true ↔ CharPos cs i := by
  unfold boundaryOk; rw [h.2]; exact isCharBoundary_iff cs i

/-- UTF-8 level outcome of a growing operation (see `GrowsTo`) -/
def GrowsToText (al : Alloc) (s : State) (need : Nat) (r : Res Unit) (out : List Char) : Prop :=
  if al.isFixed = true ∧ s.cap - s.len < need then r = .err s
  else ∃ s', r = .ok () s' ∧ Holds s' out ∧ CapAfter al s need s'.cap

theorem GrowsTo.text {al : Alloc} {s : State} {need : Nat} {r : Res Unit} {out : Bytes} {cs : List Char}
    (h : GrowsTo al s need r out) (ho : out = encode cs) : GrowsToText al s need r cs := by
  unfold GrowsTo at h; unfold GrowsToText
  split
  · rename_i hc; rw [if_pos hc] at h; exact h
  · rename_i hc; rw [if_neg hc] at h
    obtain ⟨s', hr, hw, hb, hcap⟩ := h
    exact ⟨s', hr, ⟨hw, hb.trans ho⟩, hcap⟩

/-- every outcome (ok, allocation error, PANIC) leaves a well-formed string — valid UTF-8 within
    capacity — and the undefined-behaviour fault is not reached -/
def AllWF {α : Type} : Res α → Prop
  | .ok _ s => WF s
  | .err s => WF s
  | .panic s => WF s
  | .fault => False

theorem GrowsToText.allWF {al : Alloc} {s : State} {need : Nat} {r : Res Unit} {out : List Char}
    (h : GrowsToText al s need r out) (hs : WF s) : AllWF r := by
  unfold GrowsToText at h
  split at h
  · rw [h]; exact hs
  · obtain ⟨s', hr, hh, _⟩ := h; rw [hr]; exact hh.wf

theorem GrowsToText.not_panic {al : Alloc} {s : State} {need : Nat} {r : Res Unit} {out : List Char}
    (h : GrowsToText al s need r out) : r.isPanic = false := by
  unfold GrowsToText at h
  split at h
  · rw [h]; rfl
  · obtain ⟨s', hr, _, _⟩ := h; rw [hr]; rfl

/-- a growable string never reports an allocation error -/
theorem GrowsToText.growable {al : Alloc} {s : State} {need : Nat} {r : Res Unit} {out : List Char}
    (h : GrowsToText al s need r out) (hg : al.isFixed = false) : ∃ s', r = .ok () s' ∧ Holds s' out := by
  unfold GrowsToText at h
  rw [if_neg (by simp [hg])] at h
  obtain ⟨s', hr, hh, _⟩ := h
  exact ⟨s', hr, hh⟩

/-! ## push, push_str -/

theorem encodeChar_of_size_one (ch : Char) (h : ch.utf8Size = 1) : encodeChar ch = [UInt8.ofNat ch.toNat] := by
  have h1 : ch.val ≤ 127 := Char.utf8Size_eq_one_iff.1 h
  have h2 : ch.toNat ≤ 127 := by
    have := UInt32.le_iff_toNat_le.1 h1
    simpa using this
  unfold encodeChar String.utf8EncodeChar
  simp only [Char.toNat_val]
  rw [if_pos (by omega)]

theorem push_spec (al : Alloc) (s : State) (ch : Char) (cs : List Char) (h : Holds s cs) :
    GrowsToText al s ch.utf8Size (push al s ch) (cs ++ [ch]) := by
  unfold push
  split
  · rename_i h1
    have he := encodeChar_of_size_one ch h1
    rw [← he]
    have := appendBytes_spec al s (encodeChar ch) h.1
    rw [encodeChar_length] at this
    exact this.text (cs := cs ++ [ch]) (by rw [h.2, encode_append, encode_singleton])
  · have := appendBytes_spec al s (encodeChar ch) h.1
    rw [encodeChar_length] at this
    exact this.text (cs := cs ++ [ch]) (by rw [h.2, encode_append, encode_singleton])

theorem pushStr_spec (al : Alloc) (s : State) (t cs : List Char) (h : Holds s cs) :
    GrowsToText al s (encode t).length (pushStr al s (encode t)) (cs ++ t) := by
  unfold pushStr
  exact (appendBytes_spec al s (encode t) h.1).text (cs := cs ++ t) (by rw [h.2, encode_append])

/-! ## insert, insert_str -/

theorem insertStr_spec (al : Alloc) (s : State) (idx : Nat) (t cs1 cs2 : List Char)
    (h : Holds s (cs1 ++ cs2)) (hi : (encode cs1).length = idx) :
    GrowsToText al s (encode t).length (insertStr al s idx (encode t)) (cs1 ++ t ++ cs2) := by
  unfold insertStr
  have hb : boundaryOk s idx = true := (boundaryOk_iff h idx).2 ⟨cs1, cs2, rfl, hi⟩
  rw [hb]
  simp only [Bool.not_true, Bool.false_eq_true, ↓reduceIte]
  have hle : idx ≤ s.len := by rw [h.len, encode_append, List.length_append]; omega
  refine (insertBytes_spec al s idx (encode t) h.1 hle).text (cs := cs1 ++ t ++ cs2) ?_
  rw [h.2, encode_append, encode_append, encode_append, ← hi]
  simp

theorem insertStr_panic (al : Alloc) (s : State) (idx : Nat) (str : Bytes) (cs : List Char)
    (h : Holds s cs) (hi : ¬ CharPos cs idx) : insertStr al s idx str = .panic s := by
  unfold insertStr
  have hb : boundaryOk s idx = false := by
    cases hbb : boundaryOk s idx with
    | false => rfl
    | true => exact absurd ((boundaryOk_iff h idx).1 hbb) hi
  rw [hb]; rfl

theorem insert_spec (al : Alloc) (s : State) (idx : Nat) (ch : Char) (cs1 cs2 : List Char)
    (h : Holds s (cs1 ++ cs2)) (hi : (encode cs1).length = idx) :
    GrowsToText al s ch.utf8Size (insert al s idx ch) (cs1 ++ [ch] ++ cs2) := by
  have := insertStr_spec al s idx [ch] cs1 cs2 h hi
  simp only [insertStr, encode_singleton, encodeChar_length] at this
  exact this

theorem insert_panic (al : Alloc) (s : State) (idx : Nat) (ch : Char) (cs : List Char)
    (h : Holds s cs) (hi : ¬ CharPos cs idx) : insert al s idx ch = .panic s :=
  insertStr_panic al s idx (encodeChar ch) cs h hi

/-! ## pop, truncate, clear -/

theorem eq_nil_or_snoc {α : Type} (l : List α) : l = [] ∨ ∃ l' a, l = l' ++ [a] := by
  induction l with
  | nil => exact Or.inl rfl
  | cons x xs ih =>
    right
    rcases ih with rfl | ⟨l', a, rfl⟩
    · exact ⟨[], x, rfl⟩
    · exact ⟨x :: l', a, rfl⟩

theorem pop_nil (s : State) (h : Holds s []) : pop s = .ok none s := by
  unfold pop; rw [h.2]; rfl

theorem pop_snoc (s : State) (cs : List Char) (c : Char) (h : Holds s (cs ++ [c])) :
    ∃ s', pop s = .ok (some c) s' ∧ Holds s' cs ∧ s'.buf = s.buf := by
  unfold pop
  rw [h.2, lastChar_snoc]
  refine ⟨_, rfl, ⟨?_, ?_⟩, rfl⟩
  · have := h.1; unfold WFL at *; simp only; omega
  · have hl := h.len
    rw [encode_append, List.length_append, encode_singleton, encodeChar_length] at hl
    rw [bytes_setLen s _ (by omega), h.2, encode_append, encode_singleton]
    rw [hl, Nat.add_sub_cancel, List.take_left]

theorem truncate_ok (s : State) (n : Nat) (cs1 cs2 : List Char) (h : Holds s (cs1 ++ cs2))
    (hn : (encode cs1).length = n) :
    ∃ s', truncate s n = .ok () s' ∧ Holds s' cs1 ∧ s'.buf = s.buf := by
  unfold truncate
  have hle : n ≤ s.len := by rw [h.len, encode_append, List.length_append]; omega
  have hb : boundaryOk s n = true := (boundaryOk_iff h n).2 ⟨cs1, cs2, rfl, hn⟩
  rw [if_pos hle, hb]
  refine ⟨_, rfl, ⟨?_, ?_⟩, rfl⟩
  · have := h.1; unfold WFL at *; simp only; omega
  · rw [bytes_setLen s _ hle, h.2, encode_append, ← hn, List.take_left]

theorem truncate_panic (s : State) (n : Nat) (cs : List Char) (h : Holds s cs) (hle : n ≤ s.len)
    (hn : ¬ CharPos cs n) : truncate s n = .panic s := by
  unfold truncate
  have hb : boundaryOk s n = false := by
    cases hbb : boundaryOk s n with
    | false => rfl
    | true => exact absurd ((boundaryOk_iff h n).1 hbb) hn
  rw [if_pos hle, hb]; rfl

theorem truncate_beyond (s : State) (n : Nat) (hn : s.len < n) : truncate s n = .ok () s := by
  unfold truncate; rw [if_neg (by omega)]

theorem clear_spec (s : State) : ∃ s', clear s = .ok () s' ∧ Holds s' [] ∧ s'.buf = s.buf :=
  ⟨_, rfl, ⟨by unfold WFL; simp, by simp [State.bytes]⟩, rfl⟩

/-! ## remove -/

theorem remove_ok (s : State) (idx : Nat) (c : Char) (cs1 cs2 : List Char)
    (h : Holds s (cs1 ++ c :: cs2)) (hi : (encode cs1).length = idx) :
    ∃ s', remove s idx = .ok c s' ∧ Holds s' (cs1 ++ cs2) ∧ s'.buf.length = s.buf.length := by
  unfold remove
  have hb : boundaryOk s idx = true := (boundaryOk_iff h idx).2 ⟨cs1, c :: cs2, rfl, hi⟩
  rw [hb]
  simp only [Bool.not_true, Bool.false_eq_true, ↓reduceIte]
  have hd : decodeFirst (s.bytes.drop idx) = some (c, encode cs2) := by
    rw [h.2, encode_append, ← hi, List.drop_left, encode_cons, decodeFirst_encodeChar_append]
  rw [hd]
  simp only
  have hl := h.len
  rw [encode_append, List.length_append, encode_cons, List.length_append, encodeChar_length, hi] at hl
  have hw := h.1
  unfold WFL at hw
  rw [copyWithin_eq _ _ _ _ (by omega) (by omega)]
  simp only
  refine ⟨_, rfl, ⟨?_, ?_⟩, ?_⟩
  · unfold WFL; simp; omega
  · have hbytes := h.2
    have e1 : encode (cs1 ++ cs2) = s.bytes.take idx ++ s.bytes.drop (idx + c.utf8Size) := by
      rw [hbytes, encode_append, encode_append, encode_cons, ← hi, List.take_left,
        ← encodeChar_length, ← List.length_append, ← List.append_assoc, List.drop_left]
    rw [e1]
    simp only [State.bytes]
    list_pw
  · simp; omega

theorem remove_panic (s : State) (idx : Nat) (cs : List Char) (h : Holds s cs)
    (hi : ¬ CharPos cs idx ∨ s.len ≤ idx) : remove s idx = .panic s := by
  unfold remove
  cases hbb : boundaryOk s idx with
  | false => rfl
  | true =>
    have hcp := (boundaryOk_iff h idx).1 hbb
    rcases hi with hi | hi
    · exact absurd hcp hi
    · have hle := charPos_le hcp
      rw [← h.len] at hle
      have : s.bytes.drop idx = [] := by
        apply List.drop_of_length_le; rw [bytes_length h.1]; exact hi
      rw [this]
      simp [decodeFirst]

/-! ## ranges: three-way split at two character positions -/

theorem charPos_split3 {cs : List Char} {a b : Nat} (ha : CharPos cs a) (hb : CharPos cs b) (hab : a ≤ b) :
    ∃ cs1 cs2 cs3, cs = cs1 ++ cs2 ++ cs3 ∧ (encode cs1).length = a ∧ (encode (cs1 ++ cs2)).length = b := by
  obtain ⟨x1, y1, h1, rfl⟩ := ha
  obtain ⟨x2, y2, h2, rfl⟩ := hb
  rw [h1] at h2
  rcases List.append_eq_append_iff.1 h2 with ⟨m, hx, hy⟩ | ⟨m, hx, hy⟩
  · -- x2 = x1 ++ m
    exact ⟨x1, m, y2, by rw [h1, hy, List.append_assoc], rfl, by rw [hx]⟩
  · -- x1 = x2 ++ m
    have hm : m = [] := by
      apply encode_eq_nil
      have : (encode x1).length = (encode x2).length + (encode m).length := by
        rw [hx, encode_append, List.length_append]
      apply List.eq_nil_of_length_eq_zero; omega
    subst hm
    simp only [List.append_nil] at hx
    subst hx
    exact ⟨x1, [], y1, by simp [h1], rfl, by simp⟩

/-- the byte pieces of a string holding `cs1 ++ cs2 ++ cs3` -/
theorem bytes_split3 {s : State} {cs1 cs2 cs3 : List Char} (h : Holds s (cs1 ++ cs2 ++ cs3)) {a b : Nat}
    (ha : (encode cs1).length = a) (hb : (encode (cs1 ++ cs2)).length = b) :
    s.bytes.take a = encode cs1 ∧ s.bytes.drop b = encode cs3 ∧
      (s.bytes.drop a).take (b - a) = encode cs2 ∧ a ≤ b ∧ b ≤ s.len := by
  have hl := h.len
  have hbytes := h.2
  rw [encode_append] at hbytes hl
  have hb' : b - a = (encode cs2).length := by
    rw [← hb, ← ha, encode_append, List.length_append]; omega
  have hab : a ≤ b := by
    rw [← hb, ← ha, encode_append, List.length_append]; omega
  refine ⟨?_, ?_, ?_, hab, ?_⟩
  · rw [hbytes, ← ha, encode_append, List.append_assoc, List.take_left]
  · rw [hbytes, ← hb, List.drop_left]
  · rw [hb', hbytes, encode_append, ← ha, List.append_assoc, List.drop_left, List.take_left]
  · rw [hl, List.length_append, hb]; omega

theorem boundaryOk_false {s : State} {cs : List Char} (h : Holds s cs) {i : Nat} (hn : ¬ CharPos cs i) :
    boundaryOk s i = false := by
  cases hbb : boundaryOk s i with
  | false => rfl
  | true => exact absurd ((boundaryOk_iff h i).1 hbb) hn

/-! ## drain -/

theorem drain_ok (s : State) (sb eb : Bound) (k a b : Nat) (cs1 cs2 cs3 : List Char)
    (h : Holds s (cs1 ++ cs2 ++ cs3)) (hr : sliceRange sb eb s.len = some (a, b))
    (ha : (encode cs1).length = a) (hb : (encode (cs1 ++ cs2)).length = b) :
    ∃ s', drain s sb eb k = .ok (cs2.take k) s' ∧ Holds s' (cs1 ++ cs3) ∧ s'.buf.length = s.buf.length := by
  obtain ⟨h1, h3, h2, hab, hbl⟩ := bytes_split3 h ha hb
  unfold drain
  rw [hr]
  have hba : boundaryOk s a = true := (boundaryOk_iff h a).2 ⟨cs1, cs2 ++ cs3, by simp, ha⟩
  have hbb : boundaryOk s b = true := (boundaryOk_iff h b).2 ⟨cs1 ++ cs2, cs3, rfl, hb⟩
  simp only [hba, hbb, Bool.not_true, Bool.false_eq_true, ↓reduceIte]
  rw [h2, decode_encode]
  simp only
  rw [if_pos ⟨hab, hbl⟩]
  obtain ⟨s', hd, hw, hbytes, hcap⟩ := vecDrainDrop_spec s a b h.1 hab hbl
  rw [hd]
  exact ⟨s', rfl, ⟨hw, by rw [hbytes, h1, h3, encode_append]⟩, hcap⟩

theorem drain_panic (s : State) (sb eb : Bound) (k : Nat) (cs : List Char) (h : Holds s cs)
    (hp : sliceRange sb eb s.len = none ∨
          ∃ a b, sliceRange sb eb s.len = some (a, b) ∧ (¬ CharPos cs a ∨ ¬ CharPos cs b)) :
    drain s sb eb k = .panic s := by
  unfold drain
  rcases hp with hn | ⟨a, b, hr, hab⟩
  · rw [hn]
  · rw [hr]
    simp only
    by_cases ha : CharPos cs a
    · have hb : ¬ CharPos cs b := by
        rcases hab with h1 | h1
        · exact absurd ha h1
        · exact h1
      rw [(boundaryOk_iff h a).2 ha, boundaryOk_false h hb]; rfl
    · rw [boundaryOk_false h ha]; rfl

/-! ## replace_range, extend_from_within -/

theorem replaceRange_ok (al : Alloc) (s : State) (sb eb : Bound) (t : List Char) (a b : Nat)
    (cs1 cs2 cs3 : List Char) (h : Holds s (cs1 ++ cs2 ++ cs3)) (hr : sliceRange sb eb s.len = some (a, b))
    (ha : (encode cs1).length = a) (hb : (encode (cs1 ++ cs2)).length = b) :
    GrowsToText al s ((encode t).length - (encode cs2).length) (replaceRange al s sb eb (encode t))
      (cs1 ++ t ++ cs3) := by
  obtain ⟨h1, h3, h2, hab, hbl⟩ := bytes_split3 h ha hb
  have hba : boundaryOk s a = true := (boundaryOk_iff h a).2 ⟨cs1, cs2 ++ cs3, by simp, ha⟩
  have hbb : boundaryOk s b = true := (boundaryOk_iff h b).2 ⟨cs1 ++ cs2, cs3, rfl, hb⟩
  have hl : (encode cs2).length = b - a := by
    rw [← hb, ← ha, encode_append, List.length_append]; omega
  rw [hl]
  exact (replaceRange_bytes al s sb eb (encode t) a b h.1 hr hba hbb).text (cs := cs1 ++ t ++ cs3)
    (by rw [h1, h3, encode_append, encode_append])

theorem replaceRange_panic (al : Alloc) (s : State) (sb eb : Bound) (str : Bytes) (cs : List Char) (h : Holds s cs)
    (hp : sliceRange sb eb s.len = none ∨
          ∃ a b, sliceRange sb eb s.len = some (a, b) ∧ (¬ CharPos cs a ∨ ¬ CharPos cs b)) :
    replaceRange al s sb eb str = .panic s := by
  unfold replaceRange
  rcases hp with hn | ⟨a, b, hr, hab⟩
  · rw [hn]
  · rw [hr]
    simp only
    by_cases ha : CharPos cs a
    · have hb : ¬ CharPos cs b := by
        rcases hab with h1 | h1
        · exact absurd ha h1
        · exact h1
      rw [(boundaryOk_iff h a).2 ha, boundaryOk_false h hb]; rfl
    · rw [boundaryOk_false h ha]; rfl

theorem extendFromWithin_ok (al : Alloc) (s : State) (sb eb : Bound) (a b : Nat)
    (cs1 cs2 cs3 : List Char) (h : Holds s (cs1 ++ cs2 ++ cs3)) (hr : sliceRange sb eb s.len = some (a, b))
    (ha : (encode cs1).length = a) (hb : (encode (cs1 ++ cs2)).length = b) :
    GrowsToText al s (encode cs2).length (extendFromWithin al s sb eb) (cs1 ++ cs2 ++ cs3 ++ cs2) := by
  obtain ⟨h1, h3, h2, hab, hbl⟩ := bytes_split3 h ha hb
  have hba : boundaryOk s a = true := (boundaryOk_iff h a).2 ⟨cs1, cs2 ++ cs3, by simp, ha⟩
  have hbb : boundaryOk s b = true := (boundaryOk_iff h b).2 ⟨cs1 ++ cs2, cs3, rfl, hb⟩
  have hl : (encode cs2).length = b - a := by
    rw [← hb, ← ha, encode_append, List.length_append]; omega
  rw [hl]
  exact (extendFromWithin_bytes al s sb eb a b h.1 hr hba hbb).text (cs := cs1 ++ cs2 ++ cs3 ++ cs2)
    (by rw [h2, h.2, encode_append (cs1 ++ cs2 ++ cs3)])

theorem extendFromWithin_panic (al : Alloc) (s : State) (sb eb : Bound) (cs : List Char) (h : Holds s cs)
    (hp : sliceRange sb eb s.len = none ∨
          ∃ a b, sliceRange sb eb s.len = some (a, b) ∧ (¬ CharPos cs a ∨ ¬ CharPos cs b)) :
    extendFromWithin al s sb eb = .panic s := by
  unfold extendFromWithin
  rcases hp with hn | ⟨a, b, hr, hab⟩
  · rw [hn]
  · rw [hr]
    simp only
    by_cases ha : CharPos cs a
    · have hb : ¬ CharPos cs b := by
        rcases hab with h1 | h1
        · exact absurd ha h1
        · exact h1
      rw [(boundaryOk_iff h a).2 ha, boundaryOk_false h hb]; rfl
    · rw [boundaryOk_false h ha]; rfl

/-! ## split_off -/

theorem splitOff_ok (f : Bool) (s : State) (sb eb : Bound) (a b : Nat) (cs1 cs2 cs3 : List Char)
    (h : Holds s (cs1 ++ cs2 ++ cs3)) (hr : sliceRange sb eb s.len = some (a, b))
    (ha : (encode cs1).length = a) (hb : (encode (cs1 ++ cs2)).length = b) :
    ∃ o s', splitOff f s sb eb = .ok o s' ∧ Holds o cs2 ∧ Holds s' (cs1 ++ cs3) ∧ o.cap + s'.cap = s.cap := by
  obtain ⟨h1, h3, h2, hab, hbl⟩ := bytes_split3 h ha hb
  have hba : boundaryOk s a = true := (boundaryOk_iff h a).2 ⟨cs1, cs2 ++ cs3, by simp, ha⟩
  have hbb : boundaryOk s b = true := (boundaryOk_iff h b).2 ⟨cs1 ++ cs2, cs3, rfl, hb⟩
  obtain ⟨o, s', hs, hwo, hws, hbo, hbs, hcap⟩ := splitOff_bytes f s sb eb a b h.1 hr hba hbb
  exact ⟨o, s', hs, ⟨hwo, by rw [hbo, h2]⟩, ⟨hws, by rw [hbs, h1, h3, encode_append]⟩, hcap⟩

theorem splitOff_panic_range (f : Bool) (s : State) (sb eb : Bound) (hn : sliceRange sb eb s.len = none) :
    splitOff f s sb eb = .panic s := by
  unfold splitOff; simp only [hn]

theorem holds_boundary_zero {s : State} {cs : List Char} (h : Holds s cs) : boundaryOk s 0 = true :=
  (boundaryOk_iff h 0).2 (charPos_zero cs)

theorem holds_boundary_len {s : State} {cs : List Char} (h : Holds s cs) : boundaryOk s s.len = true := by
  rw [boundaryOk_iff h, h.len]; exact charPos_len cs

/-- the repaired order (assertions before the `start == end` return) -/
theorem splitOff_panic_fixed (s : State) (sb eb : Bound) (a b : Nat) (cs : List Char) (h : Holds s cs)
    (hr : sliceRange sb eb s.len = some (a, b)) (hp : ¬ CharPos cs a ∨ ¬ CharPos cs b) :
    splitOff true s sb eb = .panic s := by
  unfold splitOff
  simp only [hr]
  by_cases h1 : b = s.len
  · rw [if_pos h1]
    have hb : CharPos cs b := by rw [h1, h.len]; exact charPos_len cs
    have ha : ¬ CharPos cs a := by
      rcases hp with hp | hp
      · exact hp
      · exact absurd hb hp
    rw [boundaryOk_false h ha]; rfl
  · rw [if_neg h1]
    by_cases h2 : a = 0
    · rw [if_pos h2]
      have ha : CharPos cs a := by rw [h2]; exact charPos_zero cs
      have hb : ¬ CharPos cs b := by
        rcases hp with hp | hp
        · exact absurd ha hp
        · exact hp
      rw [boundaryOk_false h hb]; rfl
    · rw [if_neg h2]
      simp only [Bool.not_true, Bool.false_and, Bool.false_eq_true, ↓reduceIte]
      by_cases ha : CharPos cs a
      · have hb : ¬ CharPos cs b := by
          rcases hp with hp | hp
          · exact absurd ha hp
          · exact hp
        rw [(boundaryOk_iff h a).2 ha, boundaryOk_false h hb]; rfl
      · rw [boundaryOk_false h ha]; rfl

/-- the order before the fix: the same, EXCEPT for an empty range strictly inside the string -/
theorem splitOff_panic_asis (s : State) (sb eb : Bound) (a b : Nat) (cs : List Char) (h : Holds s cs)
    (hr : sliceRange sb eb s.len = some (a, b)) (hp : ¬ CharPos cs a ∨ ¬ CharPos cs b)
    (hne : ¬ (a = b ∧ a ≠ 0 ∧ b ≠ s.len)) :
    splitOff false s sb eb = .panic s := by
  unfold splitOff
  simp only [hr]
  by_cases h1 : b = s.len
  · rw [if_pos h1]
    have hb : CharPos cs b := by rw [h1, h.len]; exact charPos_len cs
    have ha : ¬ CharPos cs a := by
      rcases hp with hp | hp
      · exact hp
      · exact absurd hb hp
    rw [boundaryOk_false h ha]; rfl
  · rw [if_neg h1]
    by_cases h2 : a = 0
    · rw [if_pos h2]
      have ha : CharPos cs a := by rw [h2]; exact charPos_zero cs
      have hb : ¬ CharPos cs b := by
        rcases hp with hp | hp
        · exact absurd ha hp
        · exact hp
      rw [boundaryOk_false h hb]; rfl
    · rw [if_neg h2]
      have h3 : ¬ a = b := fun h3 => hne ⟨h3, h2, h1⟩
      simp only [Bool.not_false, Bool.true_and, decide_eq_true_eq, h3, ↓reduceIte]
      by_cases ha : CharPos cs a
      · have hb : ¬ CharPos cs b := by
          rcases hp with hp | hp
          · exact absurd ha hp
          · exact hp
        rw [(boundaryOk_iff h a).2 ha, boundaryOk_false h hb]; rfl
      · rw [boundaryOk_false h ha]; rfl

/-- finding C09-a (order before the fix): an empty range strictly inside the string returns the
    empty string and leaves the string alone, whether or not the index is on a character boundary -/
theorem splitOff_asis_empty (s : State) (sb eb : Bound) (a : Nat)
    (hr : sliceRange sb eb s.len = some (a, a)) (h0 : a ≠ 0) (hl : a ≠ s.len) :
    splitOff false s sb eb = .ok { buf := [], len := 0 } s := by
  unfold splitOff
  simp only [hr]
  rw [if_neg hl, if_neg h0]
  simp

/-! ## the panic condition of the range operations -/

/-- the panic condition shared by the range operations: the range does not resolve (bound
    overflow, start > end, end > len) or one of its ends is not on a character boundary -/
def RangeBad (cs : List Char) (sb eb : Bound) (len : Nat) : Prop :=
  sliceRange sb eb len = none ∨ ∃ a b, sliceRange sb eb len = some (a, b) ∧ (¬ CharPos cs a ∨ ¬ CharPos cs b)

theorem rangeBad_or_split (cs : List Char) (sb eb : Bound) (len : Nat) :
    RangeBad cs sb eb len ∨
    ∃ a b cs1 cs2 cs3, sliceRange sb eb len = some (a, b) ∧ cs = cs1 ++ cs2 ++ cs3 ∧
      (encode cs1).length = a ∧ (encode (cs1 ++ cs2)).length = b := by
  cases hr : sliceRange sb eb len with
  | none => exact Or.inl (Or.inl hr)
  | some p =>
    obtain ⟨a, b⟩ := p
    by_cases ha : CharPos cs a
    · by_cases hb : CharPos cs b
      · obtain ⟨c1, c2, c3, he, h1, h2⟩ := charPos_split3 ha hb (sliceRange_some hr).1
        exact Or.inr ⟨a, b, c1, c2, c3, rfl, he, h1, h2⟩
      · exact Or.inl (Or.inr ⟨a, b, hr, Or.inr hb⟩)
    · exact Or.inl (Or.inr ⟨a, b, hr, Or.inl ha⟩)

theorem not_rangeBad_of_split {cs : List Char} {sb eb : Bound} {len a b : Nat} {cs1 cs2 cs3 : List Char}
    (hr : sliceRange sb eb len = some (a, b)) (he : cs = cs1 ++ cs2 ++ cs3)
    (ha : (encode cs1).length = a) (hb : (encode (cs1 ++ cs2)).length = b) : ¬ RangeBad cs sb eb len := by
  rintro (hn | ⟨a', b', hr', hp⟩)
  · rw [hn] at hr; simp at hr
  · rw [hr] at hr'
    simp only [Option.some.injEq, Prod.mk.injEq] at hr'
    obtain ⟨rfl, rfl⟩ := hr'
    rcases hp with hp | hp
    · exact hp ⟨cs1, cs2 ++ cs3, by rw [he, List.append_assoc], ha⟩
    · exact hp ⟨cs1 ++ cs2, cs3, he, hb⟩


/-! ## capacity: reserve, reserve_exact, with_capacity, from_str -/

/-- NO growth is requested from the allocator while the spare room suffices -/
theorem reserve_no_grow (al : Alloc) (s : State) (n : Nat) (h : n ≤ s.cap - s.len) : reserve al s n = some s := by
  unfold reserve; rw [if_pos (by simpa [State.cap] using h)]

theorem reserveExact_no_grow (al : Alloc) (s : State) (n : Nat) (h : n ≤ s.cap - s.len) :
    reserveExact al s n = some s := by
  unfold reserveExact; rw [if_pos (by simpa [State.cap] using h)]

/-- `reserve(n)`: the contents are untouched, afterwards at least `n` spare bytes (the promise),
    capacity as `CapAfter`; a fixed string without the room fails -/
theorem reserveOp_spec (al : Alloc) (s : State) (n : Nat) (cs : List Char) (h : Holds s cs) :
    if al.isFixed = true ∧ s.cap - s.len < n then reserveOp al s n = .err s
    else ∃ s', reserveOp al s n = .ok () s' ∧ Holds s' cs ∧ n ≤ s'.cap - s'.len ∧ CapAfter al s n s'.cap := by
  unfold reserveOp
  match hr : reserve al s n with
  | none =>
    have := reserve_none_iff.1 hr
    rw [if_pos (by simpa [State.cap] using this)]
  | some s1 =>
    have hn : ¬ (al.isFixed = true ∧ s.cap - s.len < n) := by
      intro hc
      have := (reserve_none_iff (a := al) (s := s) (n := n)).2 (by simpa [State.cap] using hc)
      rw [this] at hr; simp at hr
    rw [if_neg hn]
    obtain ⟨hlen, hb, hcap, hw, hca⟩ := reserve_some h.1 hr
    exact ⟨s1, rfl, ⟨hw, by rw [hb, h.2]⟩, by simp only [State.cap]; omega, hca⟩

/-- `reserve_exact(n)`: like `reserve`, but a growing `BumpString` gets exactly `len + n` -/
theorem reserveExactOp_spec (al : Alloc) (s : State) (n : Nat) (cs : List Char) (h : Holds s cs) :
    if al.isFixed = true ∧ s.cap - s.len < n then reserveExactOp al s n = .err s
    else ∃ s', reserveExactOp al s n = .ok () s' ∧ Holds s' cs ∧ n ≤ s'.cap - s'.len ∧
      (n ≤ s.cap - s.len → s' = s) ∧ (s.cap - s.len < n → al = .exact → s'.cap = s.len + n) := by
  have hw := h.1
  unfold WFL at hw
  unfold reserveExactOp reserveExact
  by_cases hle : n ≤ s.buf.length - s.len
  · rw [if_pos hle, if_neg (by simp only [State.cap]; omega)]
    exact ⟨s, rfl, h, by simp only [State.cap]; omega, fun _ => rfl, fun hlt => by simp only [State.cap] at hlt; omega⟩
  · rw [if_neg hle]
    cases al with
    | fixed => simp only [growTo]; rw [if_pos ⟨rfl, by simp only [State.cap]; omega⟩]; trivial
    | exact =>
      simp only [growTo]
      rw [if_neg (by simp [Alloc.isFixed])]
      refine ⟨_, rfl, ⟨by unfold WFL; simp; omega, ?_⟩, by simp [State.cap]; omega,
        fun hx => by simp only [State.cap] at hx; omega, fun _ _ => by simp [State.cap]; omega⟩
      simp only [State.bytes]; rw [List.take_append_of_le_length hw]; exact h.2
    | atLeast g =>
      simp only [growTo]
      rw [if_neg (by simp [Alloc.isFixed])]
      refine ⟨_, rfl, ⟨by unfold WFL; simp; omega, ?_⟩, by simp [State.cap]; omega,
        fun hx => by simp only [State.cap] at hx; omega, fun _ hx => by simp at hx⟩
      simp only [State.bytes]; rw [List.take_append_of_le_length hw]; exact h.2

/-- `with_capacity(c)`: empty, capacity at least `c` (exactly `c` unless the arena grants more) -/
theorem withCapacity_spec (al : Alloc) (c : Nat) :
    Holds (withCapacity al c) [] ∧ c ≤ (withCapacity al c).cap ∧
      ((∀ g, al ≠ .atLeast g) → (withCapacity al c).cap = c) := by
  unfold withCapacity
  by_cases h0 : c = 0
  · subst h0; simp [Holds, WFL, State.bytes, State.cap]
  · rw [if_neg h0]
    cases al with
    | fixed => simp [Holds, WFL, State.bytes, State.cap]
    | exact => simp [Holds, WFL, State.bytes, State.cap]
    | atLeast g =>
      refine ⟨⟨by simp [WFL], by simp [State.bytes]⟩, by simp [State.cap]; omega, fun hx => absurd rfl (hx g)⟩

/-- `from_str_in(text)`: holds the text, `len ≤ capacity`; a `BumpString` gets exactly `len` bytes -/
theorem fromStr_spec (al : Alloc) (cs : List Char) :
    Holds (fromStr al (encode cs)) cs ∧ ((∀ g, al ≠ .atLeast g) → (fromStr al (encode cs)).cap = (encode cs).length) := by
  obtain ⟨_, hc, he⟩ := withCapacity_spec al (encode cs).length
  unfold fromStr
  simp only [State.cap] at hc he ⊢
  refine ⟨⟨by unfold WFL; simp, by simp [State.bytes]⟩, fun hx => ?_⟩
  have := he hx
  simp only [List.length_append, List.length_drop]; omega

/-- a run of `push_str`s that fits into the spare room (e.g. the room a `reserve` / `with_capacity`
    promised) never reallocates: the capacity is the same after every one of them -/
theorem pushStr_many_no_realloc (al : Alloc) (ts : List (List Char)) (s : State) (cs : List Char) (h : Holds s cs)
    (hfit : (ts.map fun t => (encode t).length).sum ≤ s.cap - s.len) :
    ∃ s', ts.foldl (fun (r : Option State) t => r.bind fun s => (pushStr al s (encode t)).state?) (some s) = some s' ∧
      Holds s' (cs ++ ts.flatten) ∧ s'.cap = s.cap := by
  induction ts generalizing s cs with
  | nil => exact ⟨s, rfl, by simpa using h, rfl⟩
  | cons t ts ih =>
    simp only [List.map_cons, List.sum_cons] at hfit
    have hp := pushStr_spec al s t cs h
    unfold GrowsToText at hp
    rw [if_neg (by omega)] at hp
    obtain ⟨s1, hr, hh, hca⟩ := hp
    have hc1 : s1.cap = s.cap := hca.1 (by omega)
    have hl1 : s1.len = s.len + (encode t).length := by
      rw [hh.len, h.len, encode_append, List.length_append]
    obtain ⟨s', hf, hh', hc'⟩ := ih s1 (cs ++ t) hh (by rw [hc1, hl1]; omega)
    refine ⟨s', ?_, by simpa using hh', by rw [hc', hc1]⟩
    simp only [List.foldl_cons, Option.bind_some, hr, Res.state?]
    exact hf

end Str
