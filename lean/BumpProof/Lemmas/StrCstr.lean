/-
  Lemmas/StrCstr.lean — C-string constructors: the result is the text up to the first NUL (or all of
  it) followed by exactly one NUL; `into_cstr` keeps the string valid UTF-8 on the way.
-/
import BumpProof.Lemmas.StrOps

namespace Str

/-- specification: the text up to the first NUL byte (or all of it), then one NUL -/
def cstrSpec (text : Bytes) : Bytes := text.takeWhile (· != 0) ++ [0]

/-- the same on characters -/
def cstrText (cs : List Char) : List Char := cs.takeWhile (· != Char.ofNat 0) ++ [Char.ofNat 0]

theorem nulPos_some {l : Bytes} {n : Nat} (h : nulPos l = some n) :
    l.take (n + 1) = l.takeWhile (· != 0) ++ [0] ∧ n + 1 ≤ l.length := by
  induction l generalizing n with
  | nil => simp [nulPos] at h
  | cons b r ih =>
    simp only [nulPos] at h
    split at h
    · rename_i hb
      simp only [Option.some.injEq] at h
      subst h; subst hb
      simp
    · rename_i hb
      cases hr : nulPos r with
      | none => rw [hr] at h; simp at h
      | some m =>
        rw [hr] at h
        simp only [Option.map_some, Option.some.injEq] at h
        subst h
        obtain ⟨h1, h2⟩ := ih hr
        have hb' : (b != 0) = true := by simpa using hb
        simp only [List.take_succ_cons, List.takeWhile_cons, hb', ↓reduceIte, List.cons_append, List.length_cons]
        exact ⟨by rw [h1], by omega⟩

theorem nulPos_none {l : Bytes} (h : nulPos l = none) : l.takeWhile (· != 0) = l := by
  induction l with
  | nil => rfl
  | cons b r ih =>
    simp only [nulPos] at h
    split at h
    · simp at h
    · rename_i hb
      have hb' : (b != 0) = true := by simpa using hb
      cases hr : nulPos r with
      | none => simp only [List.takeWhile_cons, hb', ↓reduceIte]; rw [ih hr]
      | some m => rw [hr] at h; simp at h

/-- `alloc_cstr_from_str`: text up to the first NUL (or all of it) + NUL -/
theorem allocCstrFromStr_eq (src : Bytes) : allocCstrFromStr src = cstrSpec src := by
  unfold allocCstrFromStr cstrSpec allocCstr
  cases h : nulPos src with
  | none => simp only; rw [nulPos_none h]
  | some n => simp only; exact (nulPos_some h).1

theorem takeWhile_no_zero (l : Bytes) : (l.takeWhile (· != 0)).count 0 = 0 := by
  induction l with
  | nil => rfl
  | cons b r ih =>
    simp only [List.takeWhile_cons]
    split
    · rename_i hb
      have : b ≠ 0 := by simpa using hb
      rw [List.count_cons, ih]; simp [this]
    · rfl

/-- exactly one NUL, and it is the last byte -/
theorem cstrSpec_count (text : Bytes) : (cstrSpec text).count 0 = 1 := by
  unfold cstrSpec
  rw [List.count_append, takeWhile_no_zero]; rfl

theorem cstrSpec_getLast (text : Bytes) : (cstrSpec text).getLast? = some 0 := by
  unfold cstrSpec; simp

/-- the bytes of an encoded character are non-zero unless the character is NUL -/
theorem encodeChar_takeWhile (c : Char) :
    (c = Char.ofNat 0 ∧ encodeChar c = [0]) ∨
    (c ≠ Char.ofNat 0 ∧ ∀ r : Bytes, (encodeChar c ++ r).takeWhile (· != 0) = encodeChar c ++ r.takeWhile (· != 0)) := by
  by_cases hc : c = Char.ofNat 0
  · left; subst hc; exact ⟨rfl, by decide⟩
  · right
    refine ⟨hc, fun r => ?_⟩
    have hne : c.toNat ≠ 0 := by
      intro h0
      apply hc
      rw [← Char.ofNat_toNat c, h0]
    have nz : ∀ b : UInt8, 0 < b.toNat → (b != 0) = true := by
      intro b hb
      simp only [bne_iff_ne, ne_eq]
      intro h0; subst h0; simp at hb
    rcases encodeChar_cases c with ⟨b0, he, h0⟩ | ⟨b0, b1, he, h0, _, h1⟩ | ⟨b0, b1, b2, he, h0, _, h1, h2⟩ |
        ⟨b0, b1, b2, b3, he, h0, _, h1, h2, h3⟩
    · have hb0 : 0 < b0.toNat := by
        have hd := decodeFirst_encodeChar_append c []
        rw [he] at hd
        simp only [List.append_nil, decodeFirst] at hd
        rw [if_pos h0] at hd
        simp only [Option.some.injEq, Prod.mk.injEq, and_true] at hd
        have : c.toNat = b0.toNat := by rw [← hd, toNat_ofNat_valid _ (by omega)]
        omega
      rw [he]; simp [nz b0 hb0]
    · rw [he]; simp [nz b0 (by omega), nz b1 (by unfold IsCont at h1; omega)]
    · rw [he]; simp [nz b0 (by omega), nz b1 (by unfold IsCont at h1; omega), nz b2 (by unfold IsCont at h2; omega)]
    · rw [he]; simp [nz b0 (by omega), nz b1 (by unfold IsCont at h1; omega), nz b2 (by unfold IsCont at h2; omega),
        nz b3 (by unfold IsCont at h3; omega)]

/-- the first NUL byte of a valid string is its first NUL character -/
theorem takeWhile_encode (cs : List Char) :
    (encode cs).takeWhile (· != 0) = encode (cs.takeWhile (· != Char.ofNat 0)) := by
  induction cs with
  | nil => rfl
  | cons c cs ih =>
    rcases encodeChar_takeWhile c with ⟨hc, he⟩ | ⟨hc, hr⟩
    · subst hc
      simp only [encode_cons, he]
      simp
    · have : (c != Char.ofNat 0) = true := by simpa using hc
      simp only [encode_cons, List.takeWhile_cons, this, ↓reduceIte]
      rw [hr, ih]

theorem cstrSpec_encode (cs : List Char) : cstrSpec (encode cs) = encode (cstrText cs) := by
  unfold cstrSpec cstrText
  rw [takeWhile_encode, encode_append]
  congr 1

/-- `into_cstr` of a growable string holding `cs`: returns `cstrSpec` of the contents; the string
    (the `BumpBox<str>` the bytes are taken from) still holds valid UTF-8 -/
theorem intoCstr_spec (s : State) (cs : List Char) (h : Holds s cs) :
    ∃ s', intoCstr .exact s = .ok (cstrSpec s.bytes) s' ∧ Holds s' (cstrText cs) ∧ s'.bytes = cstrSpec s.bytes := by
  unfold intoCstr
  cases hn : nulPos s.bytes with
  | some n =>
    simp only
    obtain ⟨h1, h2⟩ := nulPos_some hn
    rw [bytes_length h.1] at h2
    rw [if_pos h2]
    have hb : ({ s with len := n + 1 } : State).bytes = cstrSpec s.bytes := by
      rw [bytes_setLen s _ h2]; exact h1
    refine ⟨_, by rw [hb], ⟨?_, ?_⟩, hb⟩
    · have := h.1; unfold WFL at *; simp only; omega
    · rw [hb, h.2, cstrSpec_encode]
  | none =>
    simp only
    obtain ⟨s', hp, hh⟩ := (push_spec .exact s (Char.ofNat 0) cs h).growable rfl
    rw [hp]
    simp only
    have hb : s'.bytes = cstrSpec s.bytes := by
      rw [hh.2, h.2, cstrSpec_encode]
      unfold cstrText
      have : cs.takeWhile (· != Char.ofNat 0) = cs := by
        have e := takeWhile_encode cs
        rw [← h.2, nulPos_none hn, h.2] at e
        exact (encode_inj e).symm
      rw [this]
    refine ⟨s', by rw [hb], ?_, hb⟩
    refine ⟨hh.1, ?_⟩
    rw [hb, h.2, cstrSpec_encode]

/-- pushing the pieces `core::fmt` produces -/
theorem allocCstrFmt_go (ps : List (List Char)) (s : State) (cs : List Char) (h : Holds s cs) :
    ∃ s', allocCstrFmt.go s (ps.map encode) = .ok () s' ∧ Holds s' (cs ++ ps.flatten) := by
  induction ps generalizing s cs with
  | nil => exact ⟨s, rfl, by simpa using h⟩
  | cons p ps ih =>
    obtain ⟨s1, hp, hh⟩ := (pushStr_spec .exact s p cs h).growable rfl
    simp only [List.map_cons, allocCstrFmt.go, hp]
    obtain ⟨s', hg, hh'⟩ := ih s1 (cs ++ p) hh
    exact ⟨s', hg, by simpa using hh'⟩

theorem allocCstrFmt_pieces (ps : List (List Char)) :
    ∃ s', allocCstrFmt none (ps.map encode) = .ok (cstrSpec (encode ps.flatten)) s' := by
  unfold allocCstrFmt
  obtain ⟨s1, hg, hh⟩ := allocCstrFmt_go ps (State.ofBytes []) [] (holds_ofBytes [] 0)
  simp only [hg]
  obtain ⟨s', hi, _, _⟩ := intoCstr_spec s1 _ hh
  rw [hi, hh.2]
  exact ⟨s', by simp⟩

theorem allocCstrFmt_literal (lit : Bytes) (ps : List Bytes) :
    ∃ s', allocCstrFmt (some lit) ps = .ok (cstrSpec lit) s' := by
  unfold allocCstrFmt
  simp only
  exact ⟨_, by rw [allocCstrFromStr_eq]⟩

end Str
