/-
  Lemmas/Hist2Trail.lean — `Trail s s'`: the open regions and the minimum alignment are the same and every
  chunk of `s` is still present in `s'` at the same index with the same address range.  Every model function
  except `reset` / `manuallyDrop` satisfies it; so does `stepCore` for every constructor that neither opens
  nor closes a region (`stepCore_trail`).  Used by C03 / C18 in `Props/Hist2.lean`.
-/
import BumpProof.Props.Hist

set_option linter.unusedSimpArgs false
set_option linter.unusedVariables false

namespace Arena.Hist
open Rs Ledger

variable {cfg : Cfg}

/-- chunk cover on lists (`ChunksCov s s'` is `CovL s.chunks s'.chunks`) -/
def CovL (l l' : List Chunk) : Prop :=
  ∀ (j : Nat) (c : Chunk), l[j]? = some c → ∃ c' : Chunk, l'[j]? = some c' ∧ c'.base = c.base ∧ c'.size = c.size

theorem CovL.refl (l : List Chunk) : CovL l l := fun j c h => ⟨c, h, rfl, rfl⟩

theorem CovL.trans {a b c : List Chunk} (h1 : CovL a b) (h2 : CovL b c) : CovL a c := by
  intro j x hx
  obtain ⟨y, hy, e1, e2⟩ := h1 j x hx
  obtain ⟨z, hz, f1, f2⟩ := h2 j y hy
  exact ⟨z, hz, f1.trans e1, f2.trans e2⟩

theorem covL_iff (s s' : State) : CovL s.chunks s'.chunks ↔ ChunksCov s s' := Iff.rfl

/-- the relation on the three projections it looks at -/
def TR (f : List Frame) (m : Nat) (c : List Chunk) (f' : List Frame) (m' : Nat) (c' : List Chunk) : Prop :=
  f' = f ∧ m' = m ∧ CovL c c'

def Trail (s s' : State) : Prop := TR s.frames s.minAlign s.chunks s'.frames s'.minAlign s'.chunks

theorem TR.refl (f : List Frame) (m : Nat) (c : List Chunk) : TR f m c f m c := ⟨rfl, rfl, CovL.refl c⟩

theorem TR.step {f : List Frame} {m : Nat} {c : List Chunk} {s s' : State}
    (h1 : TR f m c s.frames s.minAlign s.chunks) (h2 : Trail s s') : TR f m c s'.frames s'.minAlign s'.chunks :=
  ⟨h2.1.trans h1.1, h2.2.1.trans h1.2.1, h1.2.2.trans h2.2.2⟩

theorem Trail.refl (s : State) : Trail s s := TR.refl _ _ _
theorem Trail.trans {a b c : State} (h1 : Trail a b) (h2 : Trail b c) : Trail a c := TR.step h1 h2
theorem Trail.frames {s s' : State} (h : Trail s s') : s'.frames = s.frames := h.1
theorem Trail.minAlign {s s' : State} (h : Trail s s') : s'.minAlign = s.minAlign := h.2.1
theorem Trail.cov {s s' : State} (h : Trail s s') : ChunksCov s s' := h.2.2

theorem Trail.of_ext {n : Nat} {s s' : State} (h : Ext n s s') : Trail s s' :=
  ⟨h.frames, h.minAlign, ChunksCov.of_ext h⟩

theorem Trail.of_onlyData {s s' : State} (h : Mem.OnlyDataChanged s s') : Trail s s' := by
  obtain ⟨h1, h2⟩ := h
  exact ⟨by rw [h1], by rw [h1], ChunksCov.of_geom h2⟩

theorem Trail.setPos (s : State) (i p : Nat) : Trail s (setPos s i p) := ⟨rfl, rfl, ChunksCov.setPos s i p⟩

theorem Trail.setCurPos (s : State) (p : Nat) : Trail s (setCurPos s p) := by
  unfold Arena.setCurPos
  split
  · exact Trail.setPos s _ p
  · exact Trail.refl s

/-! ### normal forms -/

theorem tr_setPos_frames (s : State) (i p : Nat) : (Arena.setPos s i p).frames = s.frames := rfl
theorem tr_setPos_minAlign (s : State) (i p : Nat) : (Arena.setPos s i p).minAlign = s.minAlign := rfl
theorem tr_setCurPos_frames (s : State) (p : Nat) : (Arena.setCurPos s p).frames = s.frames := (Trail.setCurPos s p).1
theorem tr_setCurPos_minAlign (s : State) (p : Nat) : (Arena.setCurPos s p).minAlign = s.minAlign :=
  (Trail.setCurPos s p).2.1

theorem TR.setPos {f : List Frame} {m : Nat} {c : List Chunk} {f' : List Frame} {m' : Nat} {s : State} {i p : Nat}
    (h : TR f m c f' m' s.chunks) : TR f m c f' m' (Arena.setPos s i p).chunks :=
  ⟨h.1, h.2.1, h.2.2.trans (ChunksCov.setPos s i p)⟩

theorem TR.setCurPos {f : List Frame} {m : Nat} {c : List Chunk} {f' : List Frame} {m' : Nat} {s : State} {p : Nat}
    (h : TR f m c f' m' s.chunks) : TR f m c f' m' (Arena.setCurPos s p).chunks :=
  ⟨h.1, h.2.1, h.2.2.trans (ChunksCov.setCurPos s p)⟩

/-! ### the model functions -/

theorem tr_tryCur {k : Kind} {s s' : State} {L : Layout} {hh : Hints} {v : Nat × Nat}
    (h : tryCur cfg k s L hh = .ok (some (v, s'))) : Trail s s' :=
  Trail.of_ext ((tryCur_frame h).2.2.2.2 0 (fun _ _ => Nat.zero_le _))

theorem tr_newChunk {s s' : State} {size : Nat} {r : Except AErr Nat}
    (h : newChunk cfg s size = .ok (s', r)) : Trail s s' := Trail.of_ext ((newChunk_frame h).2.1 0)

theorem tr_newChunkForCapacity {s s' : State} {L : Layout} {r : Except AErr Nat}
    (h : newChunkForCapacity cfg s L = .ok (s', r)) : Trail s s' :=
  Trail.of_ext ((newChunkForCapacity_frame h).2.1 0)

theorem tr_inAnotherChunk {k : Kind} {s s' : State} {L : Layout} {hh : Hints} {r : Except AErr (Nat × Nat)}
    (h : inAnotherChunk cfg k s L hh = .ok (s', r)) : Trail s s' :=
  Trail.of_ext ((inAnotherChunk_frame h).ext 0 (fun _ _ => Nat.zero_le _))

theorem tr_allocGeneric {k : Kind} {s s' : State} {L : Layout} {h1 h2 : Hints} {r : Except AErr (Nat × Nat)}
    (h : allocGeneric cfg k s L h1 h2 = .ok (s', r)) : Trail s s' :=
  Trail.of_ext ((allocGeneric_frame h).1 0 (fun _ _ => Nat.zero_le _))

/-- `inAnotherChunk` followed by a projection of the result (the shape `let (s', r) ← …` leaves behind) -/
theorem tr_inAnotherChunk_pair {k : Kind} {s s1 : State} {L : Layout} {hh : Hints}
    {v : State × Except AErr (Nat × Nat)} {α : Type} {x y : α}
    (hv : inAnotherChunk cfg k s L hh = .ok v) (he : (v.fst, x) = (s1, y)) : Trail s s1 := by
  obtain ⟨v1, v2⟩ := v
  cases he
  exact tr_inAnotherChunk hv

theorem tr_alloc {s s' : State} {L : Layout} {r : Except AErr Nat}
    (h : alloc cfg s L = .ok (s', r)) : Trail s s' :=
  Trail.of_ext ((alloc_frame h).1 0 (fun _ _ => Nat.zero_le _))

theorem tr_reserve {s s' : State} {n : Nat} {r : Except AErr Unit}
    (h : reserve cfg s n = .ok (s', r)) : Trail s s' := Trail.of_ext ((reserve_frame h).1 0)

theorem tr_writeRange {s s' : State} {lo hi : Nat} {f : Nat → UInt8}
    (h : writeRange cfg s lo hi f = .ok s') : Trail s s' := Trail.of_onlyData (Mem.writeRange_onlyData h)

theorem tr_zeroRange {s s' : State} {a n : Nat} (h : zeroRange cfg s a n = .ok s') : Trail s s' := tr_writeRange h

theorem tr_copyBytes {s s' : State} {src dst len : Nat} {b : Bool}
    (h : copyBytes cfg s src dst len b = .ok s') : Trail s s' := Trail.of_onlyData (Mem.copyBytes_onlyData h)

theorem tr_deallocAssumeLast {s s' : State} {ptr size : Nat}
    (h : deallocAssumeLast cfg s ptr size = .ok s') : Trail s s' := by
  rcases Mem.deallocAssumeLast_inv h with rfl | ⟨i, p, _, _, rfl⟩
  · exact Trail.refl _
  · exact Trail.setPos _ _ _

theorem tr_deallocate {s s' : State} {ptr size : Nat} (h : deallocate cfg s ptr size = .ok s') : Trail s s' := by
  rcases Mem.deallocate_inv h with rfl | ⟨i, p, _, _, _, rfl⟩
  · exact Trail.refl _
  · exact Trail.setPos _ _ _

theorem tr_resetToStart (s : State) : Trail s (resetToStart cfg s) := by
  rcases resetToStart_cases cfg s with h | ⟨i, c, rest, _, _, h⟩
  · rw [h]; exact Trail.refl s
  · exact ⟨by rw [h], by rw [h], (resetToStart_stable cfg s).cov⟩

theorem tr_resetTo {s s' : State} {cp : Checkpoint} (h : resetTo cfg s cp = .ok s') : Trail s s' := by
  rcases Mem.resetTo_inv h with ⟨_, rfl⟩ | ⟨i, c, p, _, _, _, rfl⟩
  · exact tr_resetToStart s
  · exact ⟨rfl, rfl, ChunksCov.setPos s i p⟩

theorem tr_alignTo {s s' : State} {n : Nat} (h : alignTo cfg s n = .ok s') : Trail s s' := by
  rcases alignTo_cases h with rfl | ⟨i, c, p, _, _, _, rfl⟩
  · exact Trail.refl _
  · exact Trail.setPos _ _ _

theorem tr_alignGuardDrop {s s' : State} {n : Nat} (h : alignGuardDrop cfg s n = .ok s') : Trail s s' := by
  rcases alignGuardDrop_cases h with rfl | ⟨i, c, p, _, _, _, rfl⟩
  · exact Trail.refl _
  · exact Trail.setPos _ _ _

theorem tr_alignChunkAt {s s' : State} {n : Nat} {st : Cur} (h : alignChunkAt cfg s n st = .ok s') : Trail s s' := by
  rcases alignChunkAt_cases h with rfl | ⟨j, c, p, _, _, _, _, rfl⟩
  · exact Trail.refl _
  · exact Trail.setPos _ _ _

/-! ### the closing tactic: normalise, then peel model-function calls off the right end -/

syntax "tr_norm" : tactic
macro_rules
  | `(tactic| tr_norm) =>
    `(tactic| first
      | simp only [tr_setPos_frames, tr_setPos_minAlign, tr_setCurPos_frames, tr_setCurPos_minAlign]
      | dsimp only)

syntax "tr_peel" : tactic
macro_rules
  | `(tactic| tr_peel) =>
    `(tactic| first
      | exact TR.refl _ _ _
      | refine TR.setCurPos ?_
      | refine TR.setPos ?_
      | refine TR.step ?_ (tr_tryCur (by assumption))
      | refine TR.step ?_ (tr_copyBytes (by assumption))
      | refine TR.step ?_ (tr_writeRange (by assumption))
      | refine TR.step ?_ (tr_zeroRange (by assumption))
      | refine TR.step ?_ (tr_deallocAssumeLast (by assumption))
      | refine TR.step ?_ (tr_deallocate (by assumption))
      | refine TR.step ?_ (tr_resetTo (by assumption))
      | refine TR.step ?_ (tr_alignTo (by assumption))
      | refine TR.step ?_ (tr_alignGuardDrop (by assumption))
      | refine TR.step ?_ (tr_alignChunkAt (by assumption))
      | refine TR.step ?_ (tr_newChunk (by assumption))
      | refine TR.step ?_ (tr_newChunkForCapacity (by assumption))
      | refine TR.step ?_ (tr_inAnotherChunk (by assumption))
      | refine TR.step ?_ (tr_inAnotherChunk_pair (by assumption) (by assumption))
      | refine TR.step ?_ (tr_allocGeneric (by assumption))
      | refine TR.step ?_ (tr_alloc (by assumption))
      | refine TR.step ?_ (tr_reserve (by assumption)))

syntax "tr_auto" : tactic
macro_rules
  | `(tactic| tr_auto) =>
    `(tactic| (unfold Trail; repeat (first | tr_peel | tr_norm)))

/-- split every path of a model function; close the faulting paths; run `tr_auto` on the others -/
syntax "tr_paths " ident : tactic
macro_rules
  | `(tactic| tr_paths $h) =>
    `(tactic| (simp only [bind, Except.bind, pure, Except.pure, throw, throwThe, MonadExceptOf.throw] at $h:ident
               (repeat' split at $h:ident) <;> (first | (cases $h:ident; done) | (cases $h:ident; tr_auto) | tr_auto)))

theorem tr_grow {s s' : State} {ptr oldSize : Nat} {newL : Layout} {r : Except AErr Nat}
    (h : grow cfg s ptr oldSize newL = .ok (s', r)) : Trail s s' := by
  unfold grow at h
  tr_paths h

theorem tr_shrink {s s' : State} {ptr oldSize : Nat} {newL : Layout} {r : Except AErr (Nat × Nat)}
    (h : shrink cfg s ptr oldSize newL = .ok (s', r)) : Trail s s' := by
  unfold shrink at h
  tr_paths h

theorem tr_shrinkWithoutShrink {s s' : State} {ptr oldSize : Nat} {newL : Layout} {r : Except AErr (Nat × Nat)}
    (h : shrinkWithoutShrink cfg s ptr oldSize newL = .ok (s', r)) : Trail s s' := by
  unfold shrinkWithoutShrink at h
  tr_paths h

theorem tr_shrinkSlice {s s' : State} {ptr oldSize newSize ealign : Nat} {r : Option Nat}
    (h : shrinkSlice cfg s ptr oldSize newSize ealign = .ok (s', r)) : Trail s s' := by
  unfold shrinkSlice at h
  tr_paths h

theorem tr_reserveDyn {s s' : State} {n : Nat} {r : Except AErr Unit}
    (h : reserveDyn cfg s n = .ok (s', r)) : Trail s s' := by
  unfold reserveDyn at h
  tr_paths h

theorem tr_allocatePrepared {s s' : State} {size rstart rend : Nat} {rev : Bool} {a : Nat}
    (h : allocatePrepared cfg s size rstart rend rev = .ok (s', a)) : Trail s s' := by
  unfold allocatePrepared at h
  tr_paths h

theorem tr_setPosAlignFrom {s s' : State} {a b : Nat} (h : setPosAlignFrom cfg s a b = .ok s') : Trail s s' := by
  unfold setPosAlignFrom at h
  tr_paths h

macro_rules
  | `(tactic| tr_peel) =>
    `(tactic| first
      | refine TR.step ?_ (tr_setPosAlignFrom (by assumption))
      | refine TR.step ?_ (tr_grow (by assumption))
      | refine TR.step ?_ (tr_shrink (by assumption))
      | refine TR.step ?_ (tr_shrinkWithoutShrink (by assumption))
      | refine TR.step ?_ (tr_shrinkSlice (by assumption))
      | refine TR.step ?_ (tr_reserveDyn (by assumption))
      | refine TR.step ?_ (tr_allocatePrepared (by assumption)))

theorem tr_allocatePreparedSlice {s s' : State} {ptr len cap esize ealign : Nat} {rev : Bool} {a : Nat}
    (h : allocatePreparedSlice cfg s ptr len cap esize ealign rev = .ok (s', a)) : Trail s s' := by
  unfold allocatePreparedSlice at h
  tr_paths h

macro_rules
  | `(tactic| tr_peel) =>
    `(tactic| refine TR.step ?_ (tr_allocatePreparedSlice (by assumption)))

end Arena.Hist
