/-
  Lemmas/HistOpsClaimed.lean — preservation of `Arena.Hist.Inv` by `.onClaimed op` (an operation
  addressed to the claimed original handle while a claim guard lives).
-/
import BumpProof.Lemmas.HistRealloc
import BumpProof.Props.C14
set_option linter.unusedSimpArgs false
set_option linter.unusedVariables false
namespace Arena.Hist
open Rs
variable {cfg : Cfg}

/-! ## the model functions on a claimed handle: no fault ⇒ state untouched -/

/-- `deallocate_assume_last` on a claimed handle either does nothing (`DEALLOCATES = false`) or faults -/
theorem deallocAssumeLast_claimed_eq {s s' : State} {ptr size : Nat} (hc : s.cur = .claimed)
    (h : deallocAssumeLast cfg s ptr size = .ok s') : s' = s := by
  unfold deallocAssumeLast at h
  simp only [bind, Except.bind, pure, Except.pure, hc] at h
  split at h
  · cases h; rfl
  · cases h

/-- `deallocate` on a claimed handle: whenever it does not fault, the state is unchanged -/
theorem deallocate_claimed_eq {s s' : State} {ptr size : Nat} (hc : s.cur = .claimed)
    (h : deallocate cfg s ptr size = .ok s') : s' = s := by
  unfold deallocate at h
  simp only [bind, Except.bind, pure, Except.pure] at h
  split at h
  · cases h; rfl
  · split at h
    · exact deallocAssumeLast_claimed_eq hc h
    · cases h; rfl

/-- `shrink` (alignment fits) on a claimed handle: whenever it does not fault, the state is unchanged and
    the block is returned as it is -/
theorem shrink_claimed_eq {s s' : State} {ptr oldSize : Nat} {newL : Layout} {r : Except AErr (Nat × Nat)}
    (hc : s.cur = .claimed) (hfit : alignFits ptr newL.align = true)
    (h : shrink cfg s ptr oldSize newL = .ok (s', r)) : s' = s ∧ r = .ok (ptr, oldSize) := by
  unfold shrink at h
  simp only [bind, Except.bind, pure, Except.pure, hfit, hc, Bool.not_true, Bool.false_eq_true, ↓reduceIte] at h
  repeat' split at h
  all_goals first | (cases h; done) | skip
  all_goals (cases h; exact ⟨rfl, rfl⟩)

/-! ## re-registering a live block under a new id -/

/-- a live block is forgotten and the very same byte range is registered again (fresh id, possibly weaker
    alignment `al` that its address satisfies, any `init`): the invariant is kept -/
theorem inv_reregister {g : GState} (h : Inv cfg g) {blk : Block} {id al init : Nat}
    (hmem : blk ∈ g.s.live) (hid : blk.id = id) (hal : al ∣ blk.addr) (hp2 : ∃ k, k < 64 ∧ al = 2 ^ k) :
    Inv cfg ⟨(okOut (removeBlock g.s id) blk.addr blk.size al init).1, g.marks⟩ := by
  have hcur : ∃ j, g.s.cur = .chunk j := by
    cases hc : g.s.cur with
    | chunk j => exact ⟨j, rfl⟩
    | unallocated =>
      have := h.liveCur hc
      rw [this] at hmem; cases hmem
    | claimed => exact absurd hc h.notClaimed
  refine h.replaceBlock id ?_ hcur hp2
  refine liveOK_addBlock_of (h.live.removeBlock id) init hal ?_ ?_
  · intro hpos
    exact placed_congr rfl rfl (h.live.placed blk hmem hpos)
  · intro b' hb'
    have hb'' : b' ∈ g.s.live ∧ (b'.id != id) = true := List.mem_filter.mp hb'
    have hne : b' ≠ blk := by
      intro e
      rw [e, hid] at hb''
      simp at hb''
    exact Mem.pairwise_of_mem_ne (fun _ _ => Mem.BlocksDisjoint.symm) h.live.disjoint hb''.1 hmem hne

theorem inv_onClaimed{g g' : GState} {out : Out} {op : Op} (h : Inv cfg g)
    (hs : stepCore cfg g (.onClaimed op) = .ok (g', out)) : Inv cfg g' := by
  unfold stepCore at hs
  simp only [bind, Except.bind, pure, Except.pure] at hs
  split at hs
  · cases hs
  · cases op
    all_goals simp only [] at hs
    all_goals first | (cases hs; done) | skip
    case claim => cases hs; exact h
    case allocate => (repeat' split at hs) <;> first | (cases hs; done) | (cases hs; exact h)
    case allocLayout => (repeat' split at hs) <;> first | (cases hs; done) | (cases hs; exact h)
    case reserve => (repeat' split at hs) <;> first | (cases hs; done) | (cases hs; exact h)
    case grow => (repeat' split at hs) <;> first | (cases hs; done) | (cases hs; exact h)
    case deallocate b via =>
      split at hs
      · cases hs
      · rename_i blk hb
        split at hs
        · cases hs
        · rename_i s' hd
          have e := deallocate_claimed_eq rfl hd
          subst e
          cases hs
          exact h.dropBlock b
    case shrink b L via =>
      split at hs
      · cases hs
      · rename_i u hu
        have hL := validLayout_valid hu
        split at hs
        · cases hs
        · rename_i blk hb
          obtain ⟨hmem, hid⟩ := Mem.findBlock_ok hb
          split at hs
          · split at hs
            · cases hs
            · rename_i heq; cases heq
          · split at hs
            · split at hs
              · cases hs
              · rename_i heq; cases heq
            · rename_i hnfit
              have hfit : alignFits blk.addr L.align = true := by
                cases hq : alignFits blk.addr L.align
                · rw [hq] at hnfit; exact absurd rfl hnfit
                · rfl
              split at hs
              · cases hs
              · rename_i v hv
                obtain ⟨s', r⟩ := v
                obtain ⟨e1, e2⟩ := shrink_claimed_eq rfl hfit hv
                subst e1 e2
                simp only at hs
                cases hs
                exact inv_reregister h hmem hid (alignFits_dvd hfit) hL.1

end Arena.Hist
