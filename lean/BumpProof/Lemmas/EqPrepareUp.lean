/-
  Lemmas/EqPrepareUp.lean — `bump_prepare_up` computes `Spec.prepareUp`.
-/
import BumpProof.Lemmas.RsOps
set_option linter.unusedSimpArgs false
set_option linter.unusedVariables false
namespace Lemmas
open Gen.Bumping Rs C11
attribute [local congr] rs_bind_congr rs_ite_congr

theorem bump_prepare_up_ok (p : BumpProps) (h : Valid true p) :
    bump_prepare_up p = .ok (Spec.prepareUp p.start p.«end» p.layout.size p.layout.align) := by
  have hdav := debug_assert_valid_eq h
  have hf := Valid.facts h
  unfold bump_prepare_up
  rw [mca, hdav]
  simp only [ok_bind]
  obtain ⟨s, e, m, ⟨sz, a⟩, aic, sic, smoa⟩ := p
  simp only at hf ⊢
  clear hdav h
  obtain ⟨hm, hm16, hm16d, ha, ha64, hap, hmp, hs0, he0, hs64, he64, hsz, htr, h16, hr⟩ := hf
  have hszI : as_isize sz = (sz : Int) := as_isize_small' (by omega)
  simp only [↓reduceIte] at hr
  have hE1 := downAlign_dvd e a
  have hE2 := downAlign_le e a
  have hE3 := lt_downAlign_add e hap
  have hS1 := upAlign_dvd s a
  have hS2 := le_upAlign s hap
  have hS3 := upAlign_lt s hap
  have hS4 : ∀ q, a ∣ q → s ≤ q → Spec.upAlign s a ≤ q := fun q h1 h2 => upAlign_le_of_dvd hap h1 h2
  have hE4 : ∀ q, a ∣ q → q ≤ e → q ≤ Spec.downAlign e a := fun q h1 h2 => le_downAlign_of_dvd hap h1 h2
  have hE64 : Spec.downAlign e a + a ≤ 2 ^ 64 :=
    add_le_of_dvd_of_lt hE1 (ha.dvd_two_pow_64 ha64) (by omega)
  unfold Spec.prepareUp
  simp only []
  -- the upper bound `2^64 - 16` of both range ends
  have he16 : 16 ∣ e := by
    rcases hr with ⟨_, _, _, h⟩ | ⟨_, h, _⟩ <;> exact h
  have heM : e + 16 ≤ 2 ^ 64 := add_le_of_dvd_of_lt he16 ⟨2 ^ 60, by decide⟩ he64
  have hsM : s + 16 ≤ 2 ^ 64 := by
    rcases hr with ⟨_, _, _, _⟩ | ⟨_, _, h⟩
    · omega
    · exact add_le_of_dvd_of_lt h ⟨2 ^ 60, by decide⟩ hs64
  by_cases c1 : (aic && decide (a ≤ m)) = true
  · simp only [c1, ↓reduceIte, Bool.false_eq_true]
    simp only [Bool.and_eq_true, decide_eq_true_eq] at c1
    have has : a ∣ s := by
      rcases hr with ⟨_, _, h, _⟩ | ⟨_, _, h⟩
      · exact Nat.dvd_trans (ha.dvd_of_le hm c1.2) h
      · exact Nat.dvd_trans (Nat.dvd_trans (ha.dvd_of_le hm c1.2) hm16d) h
    have hSs := upAlign_eq_self hap has
    rw [hSs] at hS1 hS2 hS3 hS4 ⊢
    rcases hr with ⟨h1, h2, h3, h4⟩ | ⟨h1, h2, h3⟩
    · by_cases hcmp : (sz : Int) > ((e - s : Nat) : Int)
      · have : ¬ (s + sz ≤ e) := by omega
        rs_simp [hszI]
        simp only [hcmp, this, ↓reduceIte]
      · have : s + sz ≤ e := by omega
        have := hE4 s has h1
        rs_simp [hszI]
        simp only [hcmp, ‹s + sz ≤ e›, ↓reduceIte]
    · subst h1
      have : ¬ (e + 16 + sz ≤ e) := by omega
      have h5 : (sz : Int) > -16 := by omega
      rs_simp [hszI]
      simp only [this, h5, ↓reduceIte]
  · simp only [c1, ↓reduceIte, Bool.false_eq_true]
    by_cases c2 : (aic && decide (a ≤ 16)) = true
    · simp only [c2, ↓reduceIte, Bool.false_eq_true]
      simp only [Bool.and_eq_true, decide_eq_true_eq] at c2
      have ha16 : a ∣ 16 := ha.dvd_of_le h16 c2.2
      rs_simp [hszI]
      rcases hr with ⟨h1, h2, h3, h4⟩ | ⟨h1, h2, h3⟩
      · have hSe : Spec.upAlign s a ≤ e := hS4 e (Nat.dvd_trans ha16 h4) h1
        have hSE := hE4 _ hS1 hSe
        by_cases hcmp : (sz : Int) > ((e - Spec.upAlign s a : Nat) : Int)
        · have : ¬ (Spec.upAlign s a + sz ≤ e) := by omega
          rs_simp [hszI]
          simp only [hcmp, this, ↓reduceIte]
        · have : Spec.upAlign s a + sz ≤ e := by omega
          rs_simp [hszI]
          simp only [hcmp, ‹Spec.upAlign s a + sz ≤ e›, ↓reduceIte]
      · have hSs := upAlign_eq_self hap (Nat.dvd_trans ha16 h3)
        rw [hSs] at hS1 hS2 hS3 hS4 ⊢
        subst h1
        have : ¬ (e + 16 + sz ≤ e) := by omega
        have h5 : (sz : Int) > -16 := by omega
        rs_simp [hszI]
        simp only [this, h5, ↓reduceIte]
    · simp only [c2, ↓reduceIte, Bool.false_eq_true]
      by_cases hov : s + (a - 1) < 2 ^ 64
      · rw [up_align_eq_some ha ha64 hs0 hov]
        simp only [ok_bind]
        by_cases c3 : Spec.upAlign s a > e
        · have : ¬ (Spec.upAlign s a + sz ≤ e) := by omega
          simp only [c3, this, ↓reduceIte, decide_true, pure_eq_ok]
        · have hSe : Spec.upAlign s a ≤ e := by omega
          have hSE := hE4 _ hS1 hSe
          have hcap : e - Spec.upAlign s a < 2 ^ 63 := by
            rcases hr with ⟨h1, h2, h3, h4⟩ | ⟨h1, h2, h3⟩ <;> omega
          simp only [c3, ↓reduceIte, decide_false, Bool.false_eq_true]
          by_cases hcmp : (sz : Int) > ((e - Spec.upAlign s a : Nat) : Int)
          · have : ¬ (Spec.upAlign s a + sz ≤ e) := by omega
            rs_simp [hszI]
            simp only [hcmp, this, ↓reduceIte]
          · have : Spec.upAlign s a + sz ≤ e := by omega
            rs_simp [hszI]
            simp only [hcmp, ‹Spec.upAlign s a + sz ≤ e›, ↓reduceIte]
      · have hov' : 2 ^ 64 ≤ s + (a - 1) := by omega
        rw [up_align_eq_none ha hov']
        have := upAlign_ge_of_overflow ha ha64 hov'
        have : ¬ (Spec.upAlign s a + sz ≤ e) := by omega
        simp only [ok_bind, this, ↓reduceIte, pure_eq_ok]
end Lemmas
