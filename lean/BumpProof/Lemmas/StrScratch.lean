import BumpProof.Str.Model
namespace Str

theorem charRange (c : Char) : c.toNat < 0xD800 ∨ (0xDFFF < c.toNat ∧ c.toNat < 0x110000) := by
  have := c.valid
  simpa [UInt32.isValidChar, Nat.isValidChar] using this

theorem u8 (n : Nat) : (UInt8.ofNat n).toNat = n % 256 := by simp

theorem decodeFirst_encodeChar_append (c : Char) (r : Bytes) :
    decodeFirst (encodeChar c ++ r) = some (c, r) := by
  have hv := charRange c
  unfold encodeChar String.utf8EncodeChar
  simp only [Char.toNat_val]
  generalize hn : c.toNat = v at *
  split
  · simp [decodeFirst]
    sorry
  · sorry
end Str
