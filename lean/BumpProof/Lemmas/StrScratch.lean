import BumpProof.Str.Model
namespace Str

macro "list_pw" : tactic => `(tactic| (
  apply List.ext_getElem?
  intro i
  simp only [List.getElem?_append, List.getElem?_take, List.getElem?_drop, List.length_append,
    List.length_take, List.length_drop]
  repeat' split
  all_goals first
    | rfl
    | omega
    | (congr 1; omega)
    | (rw [List.getElem?_eq_none (by omega)])
    | (symm; rw [List.getElem?_eq_none (by omega)])))

example (buf data : Bytes) (len idx : Nat) (h : len + data.length ≤ buf.length) (hi : idx ≤ len) :
   ((List.take idx (List.take (idx + data.length) buf ++ List.take (len - idx) (List.drop idx buf) ++ List.drop (idx + data.length + (len - idx)) buf)) ++ data ++
     List.drop (idx + data.length) (List.take (idx + data.length) buf ++ List.take (len - idx) (List.drop idx buf) ++ List.drop (idx + data.length + (len - idx)) buf)).take (len + data.length)
    = (buf.take len).take idx ++ data ++ (buf.take len).drop idx := by
  list_pw
end Str
