/-
  Lemmas/RsOps.lean — rewriting lemmas for the `Rs` primitives and for the small
  generated helpers (`down_align`, `up_align_unchecked`, `up_align`,
  `debug_assert_valid`).
-/
import BumpProof.Rs
import BumpProof.Gen.Bumping
import BumpProof.Spec.Bump
import BumpProof.Spec.BumpValid
import BumpProof.Lemmas.Align

namespace Lemmas
open Gen.Bumping Rs C11

/-! ## Checked operators -/

theorem add_ok {a b : Nat} (h : a + b ≤ Rs.MAX) : Rs.add a b = .ok (a + b) := by
  unfold Rs.add; rw [if_pos h]; rfl

theorem sub_ok {a b : Nat} (h : b ≤ a) : Rs.sub a b = .ok (a - b) := by
  unfold Rs.sub; rw [if_pos h]; rfl

theorem rem_ok {a b : Nat} (h : b ≠ 0) : Rs.rem a b = .ok (a % b) := by
  unfold Rs.rem; rw [if_neg h]; rfl

theorem assert_ok {b : Bool} (h : b = true) : Rs.assert b = .ok () := by
  subst h; rfl

theorem assert_decide {P : Prop} [Decidable P] (h : P) : Rs.assert (decide P) = .ok () :=
  assert_ok (decide_eq_true h)

theorem sub_one_ok {a : Nat} (h : 0 < a) : Rs.sub a 1 = .ok (a - 1) := sub_ok h

theorem ok_bind {α β : Type} (a : α) (f : α → Rs.M β) : (Except.ok a >>= f) = f a := rfl

theorem MAX_eq : Rs.MAX = 18446744073709551615 := by decide
theorem IMAX_eq : Rs.IMAX = 9223372036854775807 := by decide

/-! ## Signed reinterpretation -/

theorem as_isize_small {a : Nat} (h : a ≤ Rs.IMAX) : Rs.as_isize a = (a : Int) := by
  unfold Rs.as_isize
  rw [IMAX_eq] at h
  rw [if_pos (by omega)]

theorem wrapping_sub_le {a b : Nat} (hb : b ≤ a) (ha : a < 2 ^ 64) : Rs.wrapping_sub a b = a - b := by
  unfold Rs.wrapping_sub
  have : a + 2 ^ 64 - b = (a - b) + 2 ^ 64 := by omega
  rw [this, Nat.add_mod_right, Nat.mod_eq_of_lt (by omega)]

/-- remaining capacity of a regular range -/
theorem remaining_regular {s e : Nat} (hse : s ≤ e) (he : e < 2 ^ 64) (hcap : e - s ≤ Rs.IMAX) :
    Rs.as_isize (Rs.wrapping_sub e s) = ((e - s : Nat) : Int) := by
  rw [wrapping_sub_le hse he, as_isize_small hcap]

/-- remaining capacity of the dummy range -/
theorem remaining_dummy {e : Nat} (he : e + 16 < 2 ^ 64) :
    Rs.as_isize (Rs.wrapping_sub e (e + 16)) = -16 := by
  unfold Rs.wrapping_sub Rs.as_isize
  have h1 : e + 2 ^ 64 - (e + 16) = 2 ^ 64 - 16 := by omega
  rw [h1]
  decide

/-! ## The generated alignment helpers -/

theorem down_align_eq {x a : Nat} (ha : P2 a) (ha64 : a < 2 ^ 64) (hx : x < 2 ^ 64) :
    down_align x a = .ok (Spec.downAlign x a) := by
  unfold down_align
  rw [assert_ok ha.is_power_of_two, ok_bind, sub_one_ok ha.pos, ok_bind]
  show Except.ok _ = _
  rw [ha.band_bnot ha64 hx]

theorem up_align_unchecked_eq {x a : Nat} (ha : P2 a) (ha64 : a < 2 ^ 64) (hx : x + (a - 1) < 2 ^ 64) :
    up_align_unchecked x a = .ok (Spec.upAlign x a) := by
  unfold up_align_unchecked
  have hle : x + (a - 1) ≤ Rs.MAX := by rw [MAX_eq]; rw [two_pow_64] at hx; omega
  simp only [assert_ok ha.is_power_of_two, ok_bind, sub_one_ok ha.pos, add_ok hle]
  show Except.ok _ = _
  rw [ha.band_bnot ha64 hx, upAlign_eq_downAlign]

theorem up_align_eq_some {x a : Nat} (ha : P2 a) (ha64 : a < 2 ^ 64) (hx0 : 0 < x)
    (hx : x + (a - 1) < 2 ^ 64) :
    up_align x a = .ok (some (Spec.upAlign x a)) := by
  unfold up_align
  have hle : x + (a - 1) ≤ Rs.MAX := by rw [MAX_eq]; rw [two_pow_64] at hx; omega
  simp only [assert_ok ha.is_power_of_two, ok_bind, sub_one_ok ha.pos, Rs.checked_add, if_pos hle]
  show Except.ok (Rs.nonZero _) = _
  rw [ha.band_bnot ha64 hx, ← upAlign_eq_downAlign]
  unfold Rs.nonZero
  have := le_upAlign x ha.pos
  rw [if_neg (by omega)]

theorem up_align_eq_none {x a : Nat} (ha : P2 a) (hx : 2 ^ 64 ≤ x + (a - 1)) :
    up_align x a = .ok none := by
  unfold up_align
  have hle : ¬ x + (a - 1) ≤ Rs.MAX := by rw [MAX_eq]; rw [two_pow_64] at hx; omega
  simp only [assert_ok ha.is_power_of_two, ok_bind, sub_one_ok ha.pos, Rs.checked_add, if_neg hle]
  rfl

/-- when the checked addition of `up_align` overflows, the aligned address is beyond
    the address space -/
theorem upAlign_ge_of_overflow {x a : Nat} (ha : P2 a) (ha64 : a < 2 ^ 64) (hx : 2 ^ 64 ≤ x + (a - 1)) :
    2 ^ 64 ≤ Spec.upAlign x a := by
  rw [upAlign_eq_downAlign]
  exact le_downAlign_of_dvd ha.pos (ha.dvd_two_pow_64 ha64) hx

end Lemmas
