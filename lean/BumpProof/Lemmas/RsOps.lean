/-
  Lemmas/RsOps.lean — rewriting lemmas for the `Rs` primitives and for the small
  generated helpers (`down_align`, `up_align_unchecked`, `up_align`,
  `debug_assert_valid`).
-/
import BumpProof.Rs
import BumpProof.Gen.Bumping
import BumpProof.Spec.Bump
import BumpProof.Spec.BumpValid
import BumpProof.Lemmas.Align

set_option linter.unusedSimpArgs false
set_option linter.unusedVariables false

namespace Lemmas
open Gen.Bumping Rs C11

/-! ## Checked operators -/

theorem add_ok {a b : Nat} (h : a + b ≤ Rs.MAX) : Rs.add a b = .ok (a + b) := by
  unfold Rs.add; rw [if_pos h]; rfl

theorem sub_ok {a b : Nat} (h : b ≤ a) : Rs.sub a b = .ok (a - b) := by
  unfold Rs.sub; rw [if_pos h]; rfl

theorem rem_ok {a b : Nat} (h : b ≠ 0) : Rs.rem a b = .ok (a % b) := by
  unfold Rs.rem; rw [if_neg h]; rfl

theorem assert_ok {b : Bool} (h : b = true) : Rs.assert b = .ok () := by
  subst h; rfl

theorem assert_decide {P : Prop} [Decidable P] (h : P) : Rs.assert (decide P) = .ok () :=
  assert_ok (decide_eq_true h)

theorem sub_one_ok {a : Nat} (h : 0 < a) : Rs.sub a 1 = .ok (a - 1) := sub_ok h

/- NB: deliberately *not* `rfl`-theorems (`id rfl`): `simp` then records an explicit proof step
   instead of leaving a big definitional-equality problem to the kernel, which can be very slow. -/
theorem ok_bind {α β : Type} (a : α) (f : α → Rs.M β) : (Except.ok a >>= f) = f a := id rfl

/-- congruence rules that make `simp` evaluate generated code sequentially: only the first action of
    a `>>=` and only the condition of an `if` are simplified; the continuation / the chosen branch is
    visited after `ok_bind` / `↓reduceIte` have fired.  (With the default rules `simp` would first
    simplify every continuation and both branches with the bound variable still abstract, trying —
    and failing — to discharge every side condition there.)  Activated per file with
    `attribute [local congr]`. -/
theorem rs_bind_congr {α β : Type} {x x' : Rs.M α} {f : α → Rs.M β} (h : x = x') :
    (x >>= f) = (x' >>= f) := h ▸ rfl

theorem rs_ite_congr {α : Sort _} {b c : Prop} {x y : α} [Decidable b] [Decidable c] (h : b = c) :
    ite b x y = ite c x y := by
  subst h
  congr

theorem MAX_eq : Rs.MAX = 18446744073709551615 := by decide
theorem IMAX_eq : Rs.IMAX = 9223372036854775807 := by decide

/-! ## Signed reinterpretation -/

theorem as_isize_small {a : Nat} (h : a ≤ Rs.IMAX) : Rs.as_isize a = (a : Int) := by
  unfold Rs.as_isize
  rw [IMAX_eq] at h
  rw [if_pos (by omega)]

theorem wrapping_sub_le {a b : Nat} (hb : b ≤ a) (ha : a < 2 ^ 64) : Rs.wrapping_sub a b = a - b := by
  unfold Rs.wrapping_sub
  have : a + 2 ^ 64 - b = (a - b) + 2 ^ 64 := by omega
  rw [this, Nat.add_mod_right, Nat.mod_eq_of_lt (by omega)]

/-- remaining capacity of a regular range -/
theorem remaining_regular {s e : Nat} (hse : s ≤ e) (he : e < 2 ^ 64) (hcap : e - s ≤ Rs.IMAX) :
    Rs.as_isize (Rs.wrapping_sub e s) = ((e - s : Nat) : Int) := by
  rw [wrapping_sub_le hse he, as_isize_small hcap]

/-- remaining capacity of the dummy range -/
theorem remaining_dummy {e : Nat} (he : e + 16 < 2 ^ 64) :
    Rs.as_isize (Rs.wrapping_sub e (e + 16)) = -16 := by
  unfold Rs.wrapping_sub Rs.as_isize
  have h1 : e + 2 ^ 64 - (e + 16) = 2 ^ 64 - 16 := by omega
  rw [h1]
  decide

/-! ## The generated alignment helpers -/

theorem down_align_eq {x a : Nat} (ha : P2 a) (ha64 : a < 2 ^ 64) (hx : x < 2 ^ 64) :
    down_align x a = .ok (Spec.downAlign x a) := by
  unfold down_align
  rw [assert_ok ha.is_power_of_two, ok_bind, sub_one_ok ha.pos, ok_bind]
  show Except.ok _ = _
  rw [ha.band_bnot ha64 hx]

theorem up_align_unchecked_eq {x a : Nat} (ha : P2 a) (ha64 : a < 2 ^ 64) (hx : x + (a - 1) < 2 ^ 64) :
    up_align_unchecked x a = .ok (Spec.upAlign x a) := by
  unfold up_align_unchecked
  have hle : x + (a - 1) ≤ Rs.MAX := by rw [MAX_eq]; rw [two_pow_64] at hx; omega
  simp only [assert_ok ha.is_power_of_two, ok_bind, sub_one_ok ha.pos, add_ok hle]
  show Except.ok _ = _
  rw [ha.band_bnot ha64 hx, upAlign_eq_downAlign]

theorem up_align_eq_some {x a : Nat} (ha : P2 a) (ha64 : a < 2 ^ 64) (hx0 : 0 < x)
    (hx : x + (a - 1) < 2 ^ 64) :
    up_align x a = .ok (some (Spec.upAlign x a)) := by
  unfold up_align
  have hle : x + (a - 1) ≤ Rs.MAX := by rw [MAX_eq]; rw [two_pow_64] at hx; omega
  simp only [assert_ok ha.is_power_of_two, ok_bind, sub_one_ok ha.pos, Rs.checked_add, if_pos hle]
  show Except.ok (Rs.nonZero _) = _
  rw [ha.band_bnot ha64 hx, ← upAlign_eq_downAlign]
  unfold Rs.nonZero
  have := le_upAlign x ha.pos
  rw [if_neg (by omega)]

theorem up_align_eq_none {x a : Nat} (ha : P2 a) (hx : 2 ^ 64 ≤ x + (a - 1)) :
    up_align x a = .ok none := by
  unfold up_align
  have hle : ¬ x + (a - 1) ≤ Rs.MAX := by rw [MAX_eq]; rw [two_pow_64] at hx; omega
  simp only [assert_ok ha.is_power_of_two, ok_bind, sub_one_ok ha.pos, Rs.checked_add, if_neg hle]
  rfl

/-- when the checked addition of `up_align` overflows, the aligned address is beyond
    the address space -/
theorem upAlign_ge_of_overflow {x a : Nat} (ha : P2 a) (ha64 : a < 2 ^ 64) (hx : 2 ^ 64 ≤ x + (a - 1)) :
    2 ^ 64 ≤ Spec.upAlign x a := by
  rw [upAlign_eq_downAlign]
  exact le_downAlign_of_dvd ha.pos (ha.dvd_two_pow_64 ha64) hx

/-! ## Validity facts and `debug_assert_valid` -/

theorem valid_P2_min {p : BumpProps} (h : ValidCommon p) : P2 p.min_align := by
  rcases h.min_align with h | h | h | h | h <;> rw [h]
  · exact ⟨0, rfl⟩
  · exact ⟨1, rfl⟩
  · exact ⟨2, rfl⟩
  · exact ⟨3, rfl⟩
  · exact ⟨4, rfl⟩

theorem valid_min_le {p : BumpProps} (h : ValidCommon p) : p.min_align ≤ 16 := by
  rcases h.min_align with h | h | h | h | h <;> omega

theorem valid_P2_align {p : BumpProps} (h : ValidCommon p) : P2 p.layout.align := by
  obtain ⟨⟨k, _, hk⟩, _⟩ := h.layout
  exact ⟨k, hk⟩

theorem valid_align_lt {p : BumpProps} (h : ValidCommon p) : p.layout.align < 2 ^ 64 := by
  obtain ⟨⟨k, hk64, hk⟩, _⟩ := h.layout
  rw [hk]
  exact Nat.pow_lt_pow_right (by decide) hk64


theorem add_ok' {a b : Nat} (h : a + b < 2 ^ 64) : Rs.add a b = .ok (a + b) :=
  add_ok (by rw [MAX_eq]; omega)

theorem assert_dec {P : Prop} {inst : Decidable P} (h : P) : Rs.assert (@decide P inst) = .ok () :=
  assert_ok (decide_eq_true h)

theorem assert_band {a x : Nat} {inst : Decidable (Rs.band x (a - 1) = 0)} (ha : P2 a) (h : a ∣ x) :
    Rs.assert (@decide (Rs.band x (a - 1) = 0) inst) = .ok () :=
  assert_dec (ha.band_mask_eq_zero h)

theorem pure_eq_ok {α : Type} (x : α) : (pure x : Rs.M α) = .ok x := id rfl

/-- fails on side conditions (`_ ∣ _`, `P2 _`) that `omega` cannot prove anyway; saves the cost of
    a failing `omega` call -/
macro "rs_arith_goal" : tactic =>
  `(tactic| (fail_if_success (show (_ : Nat) ∣ _); fail_if_success (show P2 _)))

/-- discharger for the side conditions of the rewriting lemmas -/
macro "rs_disch" : tactic =>
  `(tactic| first | assumption | (rs_arith_goal; omega) | (apply Nat.mod_eq_zero_of_dvd; assumption))

theorem mca : MIN_CHUNK_ALIGN = 16 := rfl

theorem debug_assert_valid_eq {up : Bool} {p : BumpProps} (h : Valid up p) :
    debug_assert_valid p up = .ok () := by
  obtain ⟨hc, hr⟩ := h
  have hm := valid_P2_min hc
  have hm16 := valid_min_le hc
  have ha := valid_P2_align hc
  have h16 := P2.sixteen
  have := hc.start_ne
  have := hc.end_ne
  have := hc.start_lt
  have := hc.end_lt
  have hap := ha.pos
  unfold debug_assert_valid
  rw [mca]
  have hmod : p.size_is_multiple_of_align = true → p.layout.size % p.layout.align = 0 :=
    fun h => Nat.mod_eq_zero_of_dvd (hc.truthful h)
  by_cases hs : p.size_is_multiple_of_align = true
  case' pos => have := hmod hs
  all_goals
    rcases hr with hr | hr
    · obtain ⟨h1, h2, h3⟩ := hr
      have h5 : ¬ (p.start > p.end) := by omega
      cases up
      · simp only [Bool.false_eq_true, ↓reduceIte] at h3
        obtain ⟨h3, h4⟩ := h3
        simp (disch := rs_disch) only [assert_dec, assert_ok hm.is_power_of_two, ok_bind,
          assert_band, h5, decide_false, Bool.false_eq_true, ↓reduceIte, pure_eq_ok, hs, rem_ok]
      · simp only [↓reduceIte] at h3
        obtain ⟨h3, h4⟩ := h3
        simp (disch := rs_disch) only [assert_dec, assert_ok hm.is_power_of_two, ok_bind,
          assert_band, h5, decide_false, Bool.false_eq_true, ↓reduceIte, pure_eq_ok, hs, rem_ok]
    · obtain ⟨h1, h2⟩ := hr
      have h5 : p.start > p.end := by omega
      have h6 : 16 ∣ p.start := by rw [h1]; exact (Nat.dvd_add_right h2).2 (Nat.dvd_refl 16)
      simp (disch := rs_disch) only [assert_dec, assert_ok hm.is_power_of_two, ok_bind,
          assert_band, h5, decide_true, ↓reduceIte, pure_eq_ok, add_ok', hs, rem_ok, Bool.false_eq_true]

/-! ## Everything a proof needs from `Valid`, over plain variables -/

theorem add_le_of_dvd_of_lt {a x y : Nat} (hx : a ∣ x) (hy : a ∣ y) (h : x < y) : x + a ≤ y := by
  obtain ⟨c, rfl⟩ := hx
  obtain ⟨d, rfl⟩ := hy
  have hcd : c < d := Nat.lt_of_mul_lt_mul_left h
  calc a * c + a = a * (c + 1) := (Nat.mul_succ a c).symm
    _ ≤ a * d := Nat.mul_le_mul_left a hcd

theorem as_isize_small' {a : Nat} (h : a < 2 ^ 63) : Rs.as_isize a = (a : Int) :=
  as_isize_small (by rw [IMAX_eq]; omega)

theorem remaining_regular' {s e : Nat} (hse : s ≤ e) (he : e < 2 ^ 64) (hcap : e - s < 2 ^ 63) :
    Rs.as_isize (Rs.wrapping_sub e s) = ((e - s : Nat) : Int) :=
  remaining_regular hse he (by rw [IMAX_eq]; omega)

structure Facts (up : Bool) (s e m sz a : Nat) (smoa : Bool) : Prop where
  hm : P2 m
  hm16 : m ≤ 16
  hm16d : m ∣ 16
  ha : P2 a
  ha64 : a < 2 ^ 64
  hap : 0 < a
  hmp : 0 < m
  hs0 : 0 < s
  he0 : 0 < e
  hs64 : s < 2 ^ 64
  he64 : e < 2 ^ 64
  hsz : sz + (a - 1) < 2 ^ 63
  htr : smoa = true → a ∣ sz
  h16 : P2 16
  hr : (s ≤ e ∧ e - s < 2 ^ 63 ∧ (if up then m ∣ s ∧ 16 ∣ e else 16 ∣ s ∧ m ∣ e)) ∨
       (s = e + 16 ∧ 16 ∣ e ∧ 16 ∣ s)

theorem Valid.facts {up : Bool} {p : BumpProps} (h : Valid up p) :
    Facts up p.start p.«end» p.min_align p.layout.size p.layout.align p.size_is_multiple_of_align := by
  obtain ⟨hc, hr⟩ := h
  have hm := valid_P2_min hc
  have ha := valid_P2_align hc
  have hsz := hc.layout.2
  rw [IMAX_eq] at hsz
  refine ⟨hm, valid_min_le hc, hm.dvd_of_le P2.sixteen (valid_min_le hc), ha, valid_align_lt hc, ha.pos, hm.pos,
    Nat.pos_of_ne_zero hc.start_ne, Nat.pos_of_ne_zero hc.end_ne, hc.start_lt, hc.end_lt, by omega,
    hc.truthful, P2.sixteen, ?_⟩
  rcases hr with ⟨h1, h2, h3⟩ | ⟨h1, h2⟩
  · rw [IMAX_eq] at h2
    exact Or.inl ⟨h1, by omega, h3⟩
  · exact Or.inr ⟨h1, h2, by rw [h1]; exact (Nat.dvd_add_right h2).2 (Nat.dvd_refl 16)⟩

/-! ## The simplification tactic used by the equivalence proofs -/

theorem assert_true : Rs.assert true = .ok () := id rfl

theorem assert_band_add {a x y : Nat} {inst : Decidable (Rs.band (x + y) (a - 1) = 0)} (ha : P2 a)
    (hx : a ∣ x) (hy : a ∣ y) : Rs.assert (@decide (Rs.band (x + y) (a - 1) = 0) inst) = .ok () :=
  assert_band ha ((Nat.dvd_add_right hx).2 hy)

theorem upAlign_add_self {m x y : Nat} (hm : 0 < m) (hx : m ∣ x) (hy : m ∣ y) :
    Spec.upAlign (x + y) m = x + y :=
  upAlign_eq_self hm ((Nat.dvd_add_right hx).2 hy)

theorem saturating_add_ok {x y : Nat} (h : x + y < 2 ^ 64) : Rs.saturating_add x y = x + y := by
  unfold Rs.saturating_add; rw [if_pos (by rw [MAX_eq]; omega)]

theorem saturating_add_sat {x y : Nat} (h : 2 ^ 64 ≤ x + y) : Rs.saturating_add x y = Rs.MAX := by
  unfold Rs.saturating_add; rw [if_neg (by rw [MAX_eq]; omega)]

theorem assert_p2 {a : Nat} (ha : P2 a) : Rs.assert (Rs.is_power_of_two a) = .ok () :=
  assert_ok ha.is_power_of_two

/-- `rs_simp [facts]`: evaluate a straight-line piece of generated code: every checked operator,
    assertion and alignment helper whose side condition follows from the context is replaced by its
    value; `facts` decide the `if`s. -/
syntax "rs_simp" (" [" Lean.Parser.Tactic.simpLemma,* "]")? : tactic
macro_rules
  | `(tactic| rs_simp) =>
    `(tactic| simp (disch := rs_disch) only [ok_bind, pure_eq_ok, assert_dec, assert_band, assert_p2, assert_true, add_ok', sub_ok,
      rem_ok, down_align_eq, up_align_unchecked_eq, remaining_regular', remaining_dummy,
      decide_true, decide_false, decide_eq_true_eq, ↓reduceIte, Bool.false_eq_true, Bool.and_true, Bool.and_false,
      Bool.true_and, Bool.false_and])
  | `(tactic| rs_simp [$ls,*]) =>
    `(tactic| simp (disch := rs_disch) only [ok_bind, pure_eq_ok, assert_dec, assert_band, assert_p2, assert_true, add_ok', sub_ok,
      rem_ok, down_align_eq, up_align_unchecked_eq, remaining_regular', remaining_dummy,
      decide_true, decide_false, decide_eq_true_eq, ↓reduceIte, Bool.false_eq_true, Bool.and_true, Bool.and_false,
      Bool.true_and, Bool.false_and, $ls,*])

end Lemmas
