/-
  Lemmas/HistAlloc.lean — the allocation paths (`tryCur`, `inAnotherChunk`, `allocGeneric`, `alloc`)
  seen from all three worlds at once: geometry (`SlowPost`), ghost state (`Stable`) and live blocks
  (`LiveOK`), as one post-condition `AllocPost`.  Also: the general "carve" lemma for `LiveOK`.
-/
import BumpProof.Lemmas.HistOpsB

set_option linter.unusedSimpArgs false
set_option linter.unusedVariables false

namespace Arena.Hist
open Rs

variable {cfg : Cfg}

/-! ## carving a block from the current chunk, possibly while other blocks are given up -/

/-- The general carve: the blocks selected by `keep` survive; every surviving non-empty block inside the
    current chunk `c` lies before the boundary `q`; the new block `[p, p+size)` lies between `q` and the
    new position `np`.  Then the survivors stay `LiveOK`, the new block is placed and disjoint from them. -/
theorem liveOK_recarve {s : State} {i : Nat} {c : Chunk} (keep : Block → Bool) {q p size np : Nat}
    (hl : Mem.LiveOK cfg s) (hd : Mem.ChunksDisjoint s.chunks) (hcur : s.cur = .chunk i) (hc : s.chunks[i]? = some c)
    (hq : ∀ b ∈ s.live, keep b = true → 0 < b.size → Mem.InContent cfg c b.addr b.size →
      if cfg.up then b.addr + b.size ≤ q else q ≤ b.addr)
    (hgeo : if cfg.up then c.contentStart cfg ≤ q ∧ q ≤ p ∧ p + size ≤ np ∧ np ≤ c.contentEnd cfg
            else c.contentStart cfg ≤ np ∧ np ≤ p ∧ p + size ≤ q ∧ q ≤ c.contentEnd cfg) :
    Mem.LiveOK cfg { setPos s i np with live := s.live.filter keep } ∧
    Mem.Placed cfg { setPos s i np with live := s.live.filter keep } p size ∧
    ∀ b ∈ s.live.filter keep, Mem.RangesDisjoint b.addr b.size p size := by
  have hself := Mem.setPos_getElem?_self hc np
  have hnew : Mem.InContent cfg c p size := by
    unfold Mem.InContent
    split at hgeo <;> omega
  refine ⟨⟨?_, ?_, ?_⟩, ?_, ?_⟩
  · intro b hb
    exact hl.aligned b (List.mem_filter.mp hb).1
  · intro b hb hs
    obtain ⟨hbm, hk⟩ := List.mem_filter.mp hb
    obtain ⟨i', j, cj, h1, h2, h3, h4, h5⟩ := hl.placed b hbm hs
    have hii : i' = i := by rw [hcur] at h1; cases h1; rfl
    subst hii
    by_cases hji : j = i'
    · subst hji
      rw [hc] at h3; cases h3
      refine ⟨j, j, _, hcur, Nat.le_refl _, hself, h4, fun _ => ?_⟩
      have hb1 := hq b hbm hk hs h4
      unfold Mem.OnAllocatedSide
      simp only
      split at hgeo
      · rename_i hup; simp only [hup, ↓reduceIte] at hb1 ⊢; omega
      · rename_i hup; simp only [hup, Bool.false_eq_true, ↓reduceIte] at hb1 ⊢; omega
    · exact ⟨i', j, cj, hcur, h2, (Mem.setPos_getElem?_ne hji np).trans h3, h4, fun e => absurd e hji⟩
  · exact hl.disjoint.sublist List.filter_sublist
  · refine ⟨i, i, _, hcur, Nat.le_refl _, hself, hnew, fun _ => ?_⟩
    unfold Mem.OnAllocatedSide
    simp only
    split at hgeo
    · rename_i hup; simp only [hup, ↓reduceIte]; omega
    · rename_i hup; simp only [hup, Bool.false_eq_true, ↓reduceIte]; omega
  · intro b hb
    obtain ⟨hbm, hk⟩ := List.mem_filter.mp hb
    by_cases hs : 0 < b.size
    · obtain ⟨i', j, cj, h1, h2, h3, h4, h5⟩ := hl.placed b hbm hs
      have hii : i' = i := by rw [hcur] at h1; cases h1; rfl
      subst hii
      by_cases hji : j = i'
      · subst hji
        rw [hc] at h3; cases h3
        have hb1 := hq b hbm hk hs h4
        unfold Mem.RangesDisjoint
        split at hgeo
        · rename_i hup; simp only [hup, ↓reduceIte] at hb1; omega
        · rename_i hup; simp only [hup, Bool.false_eq_true, ↓reduceIte] at hb1; omega
      · exact Mem.inContent_disjoint_chunks hd hc h3 hji h4 hnew
    · left; omega

theorem filter_true_eq {α} (l : List α) : l.filter (fun _ => true) = l := by
  induction l with
  | nil => rfl
  | cons x xs ih => simp [ih]

/-- plain allocation from the free part of the current chunk -/
theorem liveOK_carve2 {s : State} {i : Nat} {c : Chunk} {p size np : Nat}
    (hl : Mem.LiveOK cfg s) (hd : Mem.ChunksDisjoint s.chunks) (hpos : c.contentStart cfg ≤ c.pos ∧ c.pos ≤ c.contentEnd cfg)
    (hcur : s.cur = .chunk i) (hc : s.chunks[i]? = some c)
    (hgeo : if cfg.up then c.pos ≤ p ∧ p + size ≤ np ∧ np ≤ c.contentEnd cfg
            else c.contentStart cfg ≤ np ∧ np ≤ p ∧ p + size ≤ c.pos) :
    Mem.AllocOutcome cfg (setPos s i np) p size := by
  have key := liveOK_recarve (cfg := cfg) (fun _ => true) (q := c.pos) (p := p) (size := size) (np := np) hl hd hcur hc
    (by
      intro b hb _ hs hin
      obtain ⟨i', j, cj, h1, h2, h3, h4, h5⟩ := hl.placed b hb hs
      have hii : i' = i := by rw [hcur] at h1; cases h1; rfl
      subst hii
      by_cases hji : j = i'
      · subst hji
        rw [hc] at h3; cases h3
        exact h5 rfl
      · exfalso
        have := Mem.inContent_disjoint_chunks hd hc h3 hji h4 hin
        unfold Mem.RangesDisjoint at this
        omega)
    (by
      cases hup : cfg.up
      · simp only [hup, Bool.false_eq_true, ↓reduceIte] at hgeo ⊢; omega
      · simp only [hup, ↓reduceIte] at hgeo ⊢; omega)
  rw [filter_true_eq] at key
  obtain ⟨k1, k2, k3⟩ := key
  exact ⟨k1, k2, k3⟩

/-! ## the current chunk advances (or not), earlier chunks keep their address ranges -/

theorem liveOK_adv {s s' : State} (hl : Mem.LiveOK cfg s) (hlive : s'.live = s.live)
    (hkeep : ∀ i, s.cur = .chunk i → ∀ j c, j ≤ i → s.chunks[j]? = some c →
      ∃ c', s'.chunks[j]? = some c' ∧ c'.base = c.base ∧ c'.size = c.size ∧ (s'.cur = s.cur → c'.pos = c.pos))
    (hcur : s'.cur = s.cur ∨ ∃ i j, s.cur = .chunk i ∧ i < j ∧ s'.cur = .chunk j) : Mem.LiveOK cfg s' := by
  refine ⟨hlive ▸ hl.aligned, ?_, hlive ▸ hl.disjoint⟩
  intro b hb hs
  rw [hlive] at hb
  obtain ⟨i, j, c, h1, h2, h3, h4, h5⟩ := hl.placed b hb hs
  obtain ⟨c', hc', e1, e2, e3⟩ := hkeep i h1 j c h2 h3
  rcases hcur with hsame | ⟨i0, j0, hi0, hlt, hj0⟩
  · refine ⟨i, j, c', hsame.trans h1, h2, hc', Mem.InContent.of_same e1 e2 h4, fun hji => ?_⟩
    have := h5 hji
    unfold Mem.OnAllocatedSide at this ⊢
    rw [e3 hsame]; exact this
  · have : i0 = i := by rw [h1] at hi0; cases hi0; rfl
    subst this
    exact ⟨j0, j, c', hj0, by omega, hc', Mem.InContent.of_same e1 e2 h4, fun hji => by omega⟩

/-! ## `allocGeneric` split into its two paths -/

theorem allocGeneric_split {k : Kind} {s s' : State} {L : Layout} {hh hs : Hints} {r : Except AErr (Nat × Nat)}
    (h : allocGeneric cfg k s L hh hs = .ok (s', r)) :
    (∃ v, r = .ok v ∧ tryCur cfg k s L hh = .ok (some (v, s'))) ∨
    (tryCur cfg k s L hh = .ok none ∧ inAnotherChunk cfg k s L hs = .ok (s', r)) := by
  unfold allocGeneric at h
  simp only [bind, Except.bind, pure, Except.pure] at h
  split at h
  · cases h
  · rename_i o ho
    split at h
    · cases h
      exact .inl ⟨_, rfl, ho⟩
    · exact .inr ⟨ho, h⟩

/-! ## The combined post-condition -/

/-- where a successful `tryCur`-like call found its block, relative to the FINAL state `s'` -/
def FoundAt (cfg : Cfg) (k : Kind) (L : Layout) (s' : State) (v : Nat × Nat) : Prop :=
  match k with
  | .alloc => L.align ∣ v.1
  | .prepare => L.align ∣ v.1 ∧ ∃ i c, s'.cur = .chunk i ∧ s'.chunks[i]? = some c ∧
      (if cfg.up then c.pos ≤ v.1 ∧ v.1 + L.size ≤ c.contentEnd cfg
       else c.contentStart cfg ≤ v.1 ∧ v.1 + L.size ≤ c.pos)
  | .range => L.align ∣ v.1 ∧ L.align ∣ v.2 ∧ v.1 + L.size ≤ v.2 ∧ ∃ i c, s'.cur = .chunk i ∧ s'.chunks[i]? = some c ∧
      (if cfg.up then c.pos ≤ v.1 ∧ v.2 ≤ c.contentEnd cfg else c.contentStart cfg ≤ v.1 ∧ v.2 ≤ c.pos)

structure AllocPost (cfg : Cfg) (k : Kind) (L : Layout) (s s' : State) (r : Except AErr (Nat × Nat)) : Prop where
  inv : GeomInv cfg s'
  resps : RespsOK cfg s'
  minAlign : s'.minAlign = s.minAlign
  disj : ChunksDisjoint s'
  fresh : RespsFresh s'
  stable : Stable s s'
  unalloc : s'.cur = .unallocated → s.cur = .unallocated ∧ SameShape s s'
  curKind : s'.cur = s.cur ∨ ∃ j, s'.cur = .chunk j
  cur_ok : ∀ v, r = .ok v → ∃ j, s'.cur = .chunk j
  /-- a refused request leaves the chunk it started in current, with its position (fix c107ca6) -/
  cur_err : ∀ e, r = .error e → s'.cur = s.cur ∧ ∀ i c, s.cur = .chunk i → s.chunks[i]? = some c →
    ∃ c', s'.chunks[i]? = some c' ∧ c'.base = c.base ∧ c'.size = c.size ∧ c'.pos = c.pos
  /-- live blocks stay fine whatever the outcome … -/
  live : Mem.LiveOK cfg s → Mem.LiveOK cfg s'
  /-- … and a block that was allocated is placed in the final state and disjoint from all of them -/
  outcome : k = .alloc → ∀ v, r = .ok v → Mem.LiveOK cfg s → Mem.AllocOutcome cfg s' v.1 L.size
  found : ∀ v, r = .ok v → FoundAt cfg k L s' v

theorem AllocPost.unallocEmpty {k : Kind} {L : Layout} {s s' : State} {r : Except AErr (Nat × Nat)}
    (p : AllocPost cfg k L s s' r) (hu : UnallocEmpty s) : UnallocEmpty s' := by
  intro hx
  obtain ⟨h1, h2⟩ := p.unalloc hx
  have h3 := h2.length
  rw [hu h1] at h3
  exact List.eq_nil_of_length_eq_zero h3

theorem AllocPost.notClaimed {k : Kind} {L : Layout} {s s' : State} {r : Except AErr (Nat × Nat)}
    (p : AllocPost cfg k L s s' r) (hn : s.cur ≠ .claimed) : s'.cur ≠ .claimed := by
  rcases p.curKind with h | ⟨j, hj⟩
  · rw [h]; exact hn
  · rw [hj]; simp

theorem AllocPost.liveCur {k : Kind} {L : Layout} {s s' : State} {r : Except AErr (Nat × Nat)}
    (p : AllocPost cfg k L s s' r) (hlc : s.cur = .unallocated → s.live = []) : s'.cur = .unallocated → s'.live = [] := by
  intro hx
  exact p.stable.live.trans (hlc (p.unalloc hx).1)

/-- the fast path -/
theorem tryCur_post (hc : CfgOK cfg) {s : State} (h : GeomInv cfg s) (hr : RespsOK cfg s)
    (hd : ChunksDisjoint s) (hf : RespsFresh s) (k : Kind) {L : Layout} {hints : Hints} (hL : L.Valid)
    (hh : hints.sma = true → L.align ∣ L.size) (hk : k = .range → L.align ∣ L.size)
    {v : Nat × Nat} {s' : State} (he : tryCur cfg k s L hints = .ok (some (v, s'))) :
    AllocPost cfg k L s s' (.ok v) := by
  have hspec : tryCurSpec cfg k s L = some (v, s') := by
    rw [tryCur_eq hc h k hL hh] at he; injection he
  obtain ⟨g1, g2, g3, g4, g5, _⟩ := tryCurSpec_inv hc h hL hspec
  obtain ⟨j, hj⟩ := tryCurSpec_isChunk hL hspec
  have hst : Stable s s' := Stable.of_ext ((Ledger.tryCur_frame he).2.2.2.2 0 (fun _ _ => Nat.zero_le _))
  have hlive : Mem.LiveOK cfg s → Mem.AllocOutcome cfg s' v.1 L.size ∨ (k ≠ .alloc ∧ s' = s) := by
    intro hl
    cases k with
    | alloc =>
      obtain ⟨i, c, np, hcur, hi, hs', h1, h2, h3, h4, h5, h6⟩ := tryCurSpec_alloc_some hc h hL hspec
      have hw := h.chunks i c hi
      left
      rw [hs', Mem.setCurPos_chunk hcur]
      apply liveOK_carve2 hl ((disjoint_iff s).mp hd) ⟨hw.pos_ge, hw.pos_le⟩ hcur hi
      cases hup : cfg.up
      · simp only [hup, Bool.false_eq_true, ↓reduceIte] at h6 ⊢; omega
      · simp only [hup, ↓reduceIte] at h6 ⊢; omega
    | prepare => exact Or.inr ⟨by simp, (tryCurSpec_prepare_some hc h hL hspec).1⟩
    | range => exact Or.inr ⟨by simp, tryCurSpec_range_state hspec⟩
  refine ⟨g1, fun x hx => hr x (g5 ▸ hx), g4, g2.disjoint hd, g2.respsFresh g5 hf, hst,
    fun hx => (by rw [g3, hj] at hx; cases hx), Or.inl g3, fun _ _ => ⟨j, g3.trans hj⟩,
    fun e he => (by cases he), ?_, ?_, ?_⟩
  · intro hl
    rcases hlive hl with ho | ⟨_, rfl⟩
    · exact ho.live
    · exact hl
  · intro hk' v' hv' hl
    cases hv'
    rcases hlive hl with ho | ⟨hne, _⟩
    · exact ho
    · exact absurd hk' hne
  · intro v' hv'
    cases hv'
    unfold FoundAt
    cases k with
    | alloc =>
      obtain ⟨i, c, np, hcur, hi, hs', h1, h2, h3, h4, h5, h6⟩ := tryCurSpec_alloc_some hc h hL hspec
      exact h4
    | prepare =>
      obtain ⟨rfl, i, c, hcur, hi, h4, _, h6⟩ := tryCurSpec_prepare_some hc h hL hspec
      exact ⟨h4, i, c, hcur, hi, h6⟩
    | range =>
      obtain ⟨rfl, i, c, hcur, hi, h4, h5, h6, h7⟩ := tryCurSpec_range_some hc h hL (hk rfl) hspec
      exact ⟨h4, h5, h6, i, c, hcur, hi, h7⟩

/-- while the arena is not backed by a chunk no live block is non-empty -/
theorem liveOK_of_dummy {s s' : State} (hcur : ∀ i, s.cur ≠ .chunk i) (hl : Mem.LiveOK cfg s) (hlive : s'.live = s.live) :
    Mem.LiveOK cfg s' := by
  refine ⟨hlive ▸ hl.aligned, ?_, hlive ▸ hl.disjoint⟩
  intro b hb hs
  rw [hlive] at hb
  obtain ⟨i, _, _, h1, _⟩ := hl.placed b hb hs
  exact absurd h1 (hcur i)

/-- the slow path -/
theorem inAnotherChunk_post (hc : CfgOK cfg) {s : State} (h : GeomInv cfg s) (hr : RespsOK cfg s)
    (hd : ChunksDisjoint s) (hf : RespsFresh s) (k : Kind) {L : Layout} {hints : Hints} (hL : L.Valid)
    (hh : hints.sma = true → L.align ∣ L.size) (hk : k = .range → L.align ∣ L.size)
    {s' : State} {r : Except AErr (Nat × Nat)} (he : inAnotherChunk cfg k s L hints = .ok (s', r)) :
    AllocPost cfg k L s s' r := by
  obtain ⟨sp, sfrom⟩ := (inAnotherChunk_ok' hc h hr k hL hh hk).1 s' r he
  have lf := Ledger.inAnotherChunk_frame he
  obtain ⟨d1, d2⟩ := sp.trace.disjoint hd hf
  have hst : Stable s s' := Stable.of_ext (lf.ext 0 (fun _ _ => Nat.zero_le _))
  -- the situation after a success
  have hsucc : ∀ v, r = .ok v → ∃ sx, GeomInv cfg sx ∧ tryCurSpec cfg k sx L = some (v, s') ∧
      (∀ i, s.cur = .chunk i → ∃ j, sx.cur = .chunk j ∧ i < j) := by
    intro v hv
    obtain ⟨sx, x1, x2, x3, x4⟩ := sfrom v hv
    refine ⟨sx, x1, x3, ?_⟩
    intro i hi
    rcases x4 with ⟨_, i0, j, hi0, hj, hlt⟩ | ⟨p, g, rest, c, _, _, _, _, hcx⟩
    · rw [hi] at hi0; cases hi0
      exact ⟨j, hj, hlt⟩
    · exact ⟨_, hcx, h.lt_length hi⟩
  have hcurKind : s'.cur = s.cur ∨ ∃ j, s'.cur = .chunk j := by
    cases r with
    | ok v => exact Or.inr (sp.cur_ok v rfl)
    | error e => exact Or.inl (lf.err e rfl).2.1
  have hkeep : ∀ i, s.cur = .chunk i → ∀ j c, j ≤ i → s.chunks[j]? = some c →
      ∃ c', s'.chunks[j]? = some c' ∧ c'.base = c.base ∧ c'.size = c.size ∧ (s'.cur = s.cur → c'.pos = c.pos) := by
    intro i hi j c hji hcj
    obtain ⟨c', hc', hsp, hpos⟩ := (lf.ext (i+1) (fun i' hi' => by rw [hi] at hi'; cases hi'; exact Nat.le_refl _)).chunk j c hcj
    exact ⟨c', hc', hsp.1, hsp.2.1, fun _ => hpos (by omega)⟩
  have hlive : Mem.LiveOK cfg s → Mem.LiveOK cfg s' := by
    intro hl
    cases hcs : s.cur with
    | unallocated => exact liveOK_of_dummy (fun i hi => by rw [hcs] at hi; cases hi) hl hst.live
    | claimed => rw [lf.claimed hcs]; exact hl
    | chunk i =>
      refine liveOK_adv hl hst.live hkeep ?_
      cases r with
      | error e => exact Or.inl (lf.err e rfl).2.1
      | ok v =>
        obtain ⟨sx, x1, x2, x3⟩ := hsucc v rfl
        obtain ⟨_, _, g3, _⟩ := tryCurSpec_inv hc x1 hL x2
        obtain ⟨j, hj, hlt⟩ := x3 i hcs
        exact Or.inr ⟨i, j, hcs, hlt, g3.trans hj⟩
  have herr : ∀ e, r = .error e → s'.cur = s.cur ∧ ∀ i c, s.cur = .chunk i → s.chunks[i]? = some c →
      ∃ c', s'.chunks[i]? = some c' ∧ c'.base = c.base ∧ c'.size = c.size ∧ c'.pos = c.pos := by
    intro e he
    refine ⟨(lf.err e he).2.1, fun i c hi hci => ?_⟩
    obtain ⟨c', hc', e1, e2, e3⟩ := hkeep i hi i c (Nat.le_refl _) hci
    exact ⟨c', hc', e1, e2, e3 (lf.err e he).2.1⟩
  refine ⟨sp.inv, sp.resps, sp.minAlign, d1, d2, hst, sp.unalloc, hcurKind, sp.cur_ok, herr, hlive, ?_, ?_⟩
  · intro hk' v hv hl
    subst hk'
    obtain ⟨sx, x1, x2, x3⟩ := hsucc v hv
    obtain ⟨j, c, np, hcur, hi, hs', h1, h2, h3, h4, h5, h6⟩ := tryCurSpec_alloc_some hc x1 hL x2
    have hw := x1.chunks j c hi
    have hcur' : s'.cur = .chunk j := by rw [hs', setCurPos_cur]; exact hcur
    have hself : s'.chunks[j]? = some { c with pos := np } := by
      rw [hs', Mem.setCurPos_chunk hcur]; exact Mem.setPos_getElem?_self hi np
    have hnew : Mem.InContent cfg { c with pos := np } v.1 L.size := by
      have a1 := hw.pos_ge; have a2 := hw.pos_le
      unfold Mem.InContent
      show c.contentStart cfg ≤ v.1 ∧ v.1 + L.size ≤ c.contentEnd cfg
      split at h6 <;> omega
    refine ⟨hlive hl, ⟨j, j, _, hcur', Nat.le_refl _, hself, hnew, fun _ => ?_⟩, ?_⟩
    · unfold Mem.OnAllocatedSide
      simp only
      split at h6
      · rename_i hup; simp only [hup, ↓reduceIte]; omega
      · rename_i hup; simp only [hup, Bool.false_eq_true, ↓reduceIte]; omega
    · intro b hb
      rw [hst.live] at hb
      by_cases hs : 0 < b.size
      · obtain ⟨i, j', cj, g1, g2, g3, g4, _⟩ := hl.placed b hb hs
        obtain ⟨j2, hj2, hlt⟩ := x3 i g1
        have : j2 = j := by rw [hcur] at hj2; cases hj2; rfl
        subst this
        obtain ⟨c', hc', e1, e2⟩ := hst.cov j' cj g3
        exact Mem.inContent_disjoint_chunks ((disjoint_iff s').mp d1) hself hc' (by omega)
          (Mem.InContent.of_same e1 e2 g4) hnew
      · left; omega
  · intro v hv
    obtain ⟨sx, x1, x2, x3⟩ := hsucc v hv
    unfold FoundAt
    cases k with
    | alloc =>
      obtain ⟨j, c, np, hcur, hi, hs', h1, h2, h3, h4, h5, h6⟩ := tryCurSpec_alloc_some hc x1 hL x2
      exact h4
    | prepare =>
      obtain ⟨rfl, i, c, hcur, hi, h4, _, h6⟩ := tryCurSpec_prepare_some hc x1 hL x2
      exact ⟨h4, i, c, hcur, hi, h6⟩
    | range =>
      obtain ⟨rfl, i, c, hcur, hi, h4, h5, h6, h7⟩ := tryCurSpec_range_some hc x1 hL (hk rfl) x2
      exact ⟨h4, h5, h6, i, c, hcur, hi, h7⟩

/-- `allocGeneric`: fast path, then slow path -/
theorem allocGeneric_post (hc : CfgOK cfg) {s : State} (h : GeomInv cfg s) (hr : RespsOK cfg s)
    (hd : ChunksDisjoint s) (hf : RespsFresh s) (k : Kind) {L : Layout} {hints hSlow : Hints} (hL : L.Valid)
    (hh : hints.sma = true → L.align ∣ L.size) (hhs : hSlow.sma = true → L.align ∣ L.size)
    (hk : k = .range → L.align ∣ L.size)
    {s' : State} {r : Except AErr (Nat × Nat)} (he : allocGeneric cfg k s L hints hSlow = .ok (s', r)) :
    AllocPost cfg k L s s' r := by
  rcases allocGeneric_split he with ⟨v, rfl, ht⟩ | ⟨_, hs⟩
  · exact tryCur_post hc h hr hd hf k hL hh hk ht
  · exact inAnotherChunk_post hc h hr hd hf k hL hhs hk hs

/-- `alloc` = `allocGeneric .alloc` with plain hints, result projected to the address -/
theorem alloc_split {s s' : State} {L : Layout} {r : Except AErr Nat} (h : alloc cfg s L = .ok (s', r)) :
    ∃ r', allocGeneric cfg .alloc s L Hints.custom Hints.custom = .ok (s', r') ∧ r = r'.map (·.1) := by
  unfold alloc at h
  simp only [bind, Except.bind, pure, Except.pure] at h
  split at h
  · cases h
  · rename_i x hx
    obtain ⟨x1, x2⟩ := x
    cases h
    exact ⟨x2, hx, rfl⟩

theorem custom_truthful (L : Layout) : Hints.custom.sma = true → L.align ∣ L.size := fun hx => by cases hx

theorem alloc_post (hc : CfgOK cfg) {s : State} (h : GeomInv cfg s) (hr : RespsOK cfg s)
    (hd : ChunksDisjoint s) (hf : RespsFresh s) {L : Layout} (hL : L.Valid)
    {s' : State} {r : Except AErr Nat} (he : alloc cfg s L = .ok (s', r)) :
    ∃ r', r = r'.map (·.1) ∧ AllocPost cfg .alloc L s s' r' := by
  obtain ⟨r', h1, h2⟩ := alloc_split he
  exact ⟨r', h2, allocGeneric_post hc h hr hd hf .alloc hL (custom_truthful L) (custom_truthful L)
    (fun hx => by cases hx) h1⟩

end Arena.Hist
