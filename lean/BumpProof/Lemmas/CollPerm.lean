/-
  Lemmas/CollPerm.lean — list-level facts about the descriptions of `Coll/Spec.lean`: each operation
  only rearranges ids between "still in the vector", "dropped" and "handed out" (conservation), plus
  length bounds; and the bridge from a refinement lemma to the C06 statement.
-/
import BumpProof.Coll.Spec
import BumpProof.Lemmas.CollWF
import BumpProof.Lemmas.CollGrow
import BumpProof.Lemmas.CollRetain

namespace Coll

/-- a grown vector is the same vector as far as ids are concerned -/
theorem Grows.wf {v v' : Vec} (g : Grows v v' v.abs) (hv : v.WF) :
    v'.WF ∧ v'.total = v.total ∧ v'.abs = v.abs := by
  have ⟨hs, hl⟩ := hv.slots_eq
  have habs : v'.abs = v.abs := Vec.WF.abs_eq g.slots (by rw [g.len]; exact hl)
  have htot : v'.total = v.total := by
    rw [hv.total_eq]
    simp [Vec.total, g.slots, g.dropLog, g.escaped]
  refine ⟨⟨⟨v.abs, g.slots, by rw [g.len]; exact hl⟩, ?_⟩, htot, habs⟩
  rw [htot]; exact hv.2

/-! ## conservation for the individual descriptions -/

theorem truncateSpec_perm (bombs : List Id) (xs : List Id) (n : Nat) :
    ((truncateSpec bombs xs n).final ++ (truncateSpec bombs xs n).dropped ++ (truncateSpec bombs xs n).escaped).Perm xs := by
  unfold truncateSpec; split <;> simp

theorem truncateSpec_len (bombs : List Id) (xs : List Id) (n : Nat) :
    (truncateSpec bombs xs n).final.length ≤ xs.length := by
  unfold truncateSpec; split <;> simp; omega

theorem popSpec_perm (xs : List Id) :
    ((popSpec xs).final ++ (popSpec xs).dropped ++ (popSpec xs).escaped).Perm xs := by
  unfold popSpec
  by_cases h : xs = []
  · subst h; simp
  · rw [List.getLast?_eq_some_getLast h]
    simp [List.dropLast_concat_getLast]

theorem popSpec_len (xs : List Id) : (popSpec xs).final.length ≤ xs.length := by
  unfold popSpec; split <;> simp

theorem removeSpec_perm (xs : List Id) (i : Nat) :
    ((removeSpec xs i).final ++ (removeSpec xs i).dropped ++ (removeSpec xs i).escaped).Perm xs := by
  unfold removeSpec
  by_cases h : i < xs.length
  · rw [List.getElem?_eq_getElem h]
    simp only [List.append_nil]
    have hx : xs = xs.take i ++ xs[i] :: xs.drop (i + 1) := by simp
    conv => rhs; rw [hx]
    rw [List.eraseIdx_eq_take_drop_succ]
    simp only [List.append_assoc]
    exact List.Perm.append_left _ (List.perm_append_singleton _ _)
  · have : xs[i]? = none := by simp; omega
    rw [this]; simp

theorem removeSpec_len (xs : List Id) (i : Nat) : (removeSpec xs i).final.length ≤ xs.length := by
  unfold removeSpec; split <;> simp [List.length_eraseIdx]

theorem swapRemoveSpec_len (xs : List Id) (i : Nat) : (swapRemoveSpec xs i).final.length ≤ xs.length := by
  unfold swapRemoveSpec; split <;> simp; omega

end Coll
