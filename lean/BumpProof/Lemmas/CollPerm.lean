/-
  Lemmas/CollPerm.lean — list-level facts about the descriptions of `Coll/Spec.lean`: each operation
  only rearranges ids between "still in the vector", "dropped" and "handed out" (conservation), plus
  length bounds; and the bridge from a refinement lemma to the C06 statement.
-/
import BumpProof.Coll.Spec
import BumpProof.Lemmas.CollWF
import BumpProof.Lemmas.CollGrow
import BumpProof.Lemmas.CollRetain

namespace Coll

/-- a grown vector is the same vector as far as ids are concerned -/
theorem Grows.wf {v v' : Vec} (g : Grows v v' v.abs) (hv : v.WF) :
    v'.WF ∧ v'.total = v.total ∧ v'.abs = v.abs := by
  have ⟨hs, hl⟩ := hv.slots_eq
  have habs : v'.abs = v.abs := Vec.WF.abs_eq g.slots (by rw [g.len]; exact hl)
  have htot : v'.total = v.total := by
    rw [hv.total_eq]
    simp [Vec.total, g.slots, g.dropLog, g.escaped]
  refine ⟨⟨⟨v.abs, g.slots, by rw [g.len]; exact hl⟩, ?_⟩, htot, habs⟩
  rw [htot]; exact hv.2

/-! ## conservation for the individual descriptions -/

theorem truncateSpec_perm (bombs : List Id) (xs : List Id) (n : Nat) :
    ((truncateSpec bombs xs n).final ++ (truncateSpec bombs xs n).dropped ++ (truncateSpec bombs xs n).escaped).Perm xs := by
  unfold truncateSpec; split <;> simp

theorem truncateSpec_len (bombs : List Id) (xs : List Id) (n : Nat) :
    (truncateSpec bombs xs n).final.length ≤ xs.length := by
  unfold truncateSpec; split <;> simp; omega

theorem popSpec_perm (xs : List Id) :
    ((popSpec xs).final ++ (popSpec xs).dropped ++ (popSpec xs).escaped).Perm xs := by
  unfold popSpec
  by_cases h : xs = []
  · subst h; simp
  · rw [List.getLast?_eq_some_getLast h]
    simp [List.dropLast_concat_getLast]

theorem popSpec_len (xs : List Id) : (popSpec xs).final.length ≤ xs.length := by
  unfold popSpec; split <;> simp

theorem removeSpec_perm (xs : List Id) (i : Nat) :
    ((removeSpec xs i).final ++ (removeSpec xs i).dropped ++ (removeSpec xs i).escaped).Perm xs := by
  unfold removeSpec
  by_cases h : i < xs.length
  · rw [List.getElem?_eq_getElem h]
    simp only [List.append_nil]
    have hx : xs = xs.take i ++ xs[i] :: xs.drop (i + 1) := by simp
    conv => rhs; rw [hx]
    rw [List.eraseIdx_eq_take_drop_succ]
    simp only [List.append_assoc]
    exact List.Perm.append_left _ (List.perm_append_singleton _ _)
  · have : xs[i]? = none := by simp; omega
    rw [this]; simp

theorem removeSpec_len (xs : List Id) (i : Nat) : (removeSpec xs i).final.length ≤ xs.length := by
  unfold removeSpec; split <;> simp [List.length_eraseIdx]
  split <;> omega

theorem swapRemoveSpec_len (xs : List Id) (i : Nat) : (swapRemoveSpec xs i).final.length ≤ xs.length := by
  unfold swapRemoveSpec; split <;> simp

theorem set_perm (ini : List Id) (i : Nat) (l : Id) (h : i < ini.length) :
    (ini.set i l ++ [ini[i]]).Perm (ini ++ [l]) := by
  rw [List.set_eq_take_append_cons_drop, if_pos h]
  have hx : ini = ini.take i ++ ini[i] :: ini.drop (i + 1) := by simp
  conv => rhs; rw [hx]
  simp only [List.append_assoc, List.cons_append]
  refine List.Perm.append_left _ ?_
  refine (List.Perm.cons _ (List.perm_append_singleton _ _)).trans ?_
  refine (List.Perm.swap _ _ _).trans ?_
  exact List.Perm.cons _ (List.perm_append_singleton _ _).symm

theorem swapRemoveSpec_perm (xs : List Id) (i : Nat) :
    ((swapRemoveSpec xs i).final ++ (swapRemoveSpec xs i).dropped ++ (swapRemoveSpec xs i).escaped).Perm xs := by
  unfold swapRemoveSpec
  by_cases h : i < xs.length
  · have hne : xs ≠ [] := by intro h'; subst h'; simp at h
    obtain ⟨ini, l, rfl⟩ : ∃ ini l, xs = ini ++ [l] := ⟨_, _, (List.dropLast_concat_getLast hne).symm⟩
    rw [List.getElem?_eq_getElem h]
    simp only [List.getLast?_append, List.getLast?_singleton, Option.some_or, List.append_nil]
    by_cases hi : i < ini.length
    · rw [List.set_append_left _ _ hi, List.dropLast_concat, List.getElem_append_left hi]
      exact set_perm ini i l hi
    · have : i = ini.length := by simp at h; omega
      subst this
      simp
  · have : xs[i]? = none := by simp; omega
    rw [this]; simp

theorem clearSpec_perm (bombs : List Id) (xs : List Id) :
    ((clearSpec bombs xs).final ++ (clearSpec bombs xs).dropped ++ (clearSpec bombs xs).escaped).Perm xs := by
  simp [clearSpec]

theorem pushSpec_perm (room : Bool) (xs : List Id) (id : Id) :
    ((pushSpec room xs id).final ++ (pushSpec room xs id).dropped ++ (pushSpec room xs id).escaped).Perm (xs ++ [id]) := by
  unfold pushSpec; split <;> simp

theorem pushSpec_len (room : Bool) (xs : List Id) (id : Id) :
    (pushSpec room xs id).final.length ≤ xs.length + (if room then 1 else 0) := by
  unfold pushSpec; split <;> simp

theorem insertSpec_perm (room : Bool) (xs : List Id) (i : Nat) (id : Id) :
    ((insertSpec room xs i id).final ++ (insertSpec room xs i id).dropped ++ (insertSpec room xs i id).escaped).Perm (xs ++ [id]) := by
  unfold insertSpec
  split
  · simp only [List.append_nil]
    have : xs = xs.take i ++ xs.drop i := (List.take_append_drop i xs).symm
    conv => rhs; rw [this]
    simp only [List.append_assoc]
    exact List.Perm.append_left _ (List.perm_append_singleton _ _).symm
  · simp

theorem insertSpec_len (room : Bool) (xs : List Id) (i : Nat) (id : Id) :
    (insertSpec room xs i id).final.length ≤ xs.length + (if i ≤ xs.length ∧ room then 1 else 0) := by
  unfold insertSpec
  split
  · rename_i h; simp [h]; omega
  · simp

theorem extendCloneSpec_perm (n : Nat) : ∀ (xs : List Id) (o : List Outcome),
    (extendCloneSpec xs n o).final = xs ++ clonedIds n o := by
  induction n with
  | zero => intro xs o; simp [extendCloneSpec, clonedIds]
  | succ n ih =>
    intro xs o
    match o with
    | [] => simp [extendCloneSpec, clonedIds]
    | .panic :: o => simp [extendCloneSpec, clonedIds]
    | .ret id :: o => simp [extendCloneSpec, clonedIds, ih]

theorem clonedIds_length_le (n : Nat) : ∀ (o : List Outcome), (clonedIds n o).length ≤ n := by
  induction n with
  | zero => intro o; simp [clonedIds]
  | succ n ih =>
    intro o
    match o with
    | [] => simp [clonedIds]
    | .panic :: o => simp [clonedIds]
    | .ret id :: o => simp [clonedIds]; exact ih o

theorem extendWithSpecR_perm (room : Bool) (bombs : List Id) (xs : List Id) (n : Nat) (value : Id) (o : List Outcome) :
    ((extendWithSpecR room bombs xs n value o).final ++ (extendWithSpecR room bombs xs n value o).dropped ++
      (extendWithSpecR room bombs xs n value o).escaped).Perm (xs ++ extendWithIns room n value o) := by
  unfold extendWithSpecR extendWithIns
  cases room
  · simp
  · simp only [↓reduceIte]
    unfold extendWithSpec
    cases n with
    | zero => simp [clonedIds]
    | succ m =>
      simp only [Nat.add_sub_cancel]
      have hf := extendCloneSpec_perm m xs o
      have ⟨hd, he⟩ := extendCloneSpec_logs m xs o
      cases hx : (extendCloneSpec xs m o).exit <;> simp [hf, hd, he]

theorem extendWithSpecR_len (room : Bool) (bombs : List Id) (xs : List Id) (n : Nat) (value : Id) (o : List Outcome) :
    (extendWithSpecR room bombs xs n value o).final.length ≤ xs.length + (if room then n else 0) := by
  unfold extendWithSpecR
  cases room
  · simp
  · simp only [↓reduceIte]
    unfold extendWithSpec
    cases n with
    | zero => simp
    | succ m =>
      have ⟨h1, _⟩ := extendCloneSpec_length_le m xs o
      simp only
      split <;> simp <;> omega

theorem extendCloneSpecR_perm (room : Bool) (xs : List Id) (n : Nat) (o : List Outcome) :
    ((extendCloneSpecR room xs n o).final ++ (extendCloneSpecR room xs n o).dropped ++
      (extendCloneSpecR room xs n o).escaped).Perm (xs ++ (if room then clonedIds n o else [])) := by
  unfold extendCloneSpecR
  cases room
  · simp
  · have ⟨hd, he⟩ := extendCloneSpec_logs n xs o
    simp [extendCloneSpec_perm, hd, he]

theorem extendCloneSpecR_len (room : Bool) (xs : List Id) (n : Nat) (o : List Outcome) :
    (extendCloneSpecR room xs n o).final.length ≤ xs.length + (if room then n else 0) := by
  unfold extendCloneSpecR
  cases room
  · simp
  · have ⟨h1, _⟩ := extendCloneSpec_length_le n xs o
    simpa using h1

theorem resizeSpec_perm (room : Bool) (bombs : List Id) (xs : List Id) (newLen : Nat) (value : Id) (o : List Outcome) :
    ((resizeSpec room bombs xs newLen value o).final ++ (resizeSpec room bombs xs newLen value o).dropped ++
      (resizeSpec room bombs xs newLen value o).escaped).Perm (xs ++ resizeIns room xs newLen value o) := by
  unfold resizeSpec resizeIns
  split
  · exact extendWithSpecR_perm ..
  · have := truncateSpec_perm bombs xs newLen
    rw [truncateSpec_escaped] at this
    simp only [List.append_nil] at this ⊢
    rw [← List.append_assoc]
    exact List.Perm.append_right _ this

theorem resizeSpec_len (room : Bool) (bombs : List Id) (xs : List Id) (newLen : Nat) (value : Id) (o : List Outcome) :
    (resizeSpec room bombs xs newLen value o).final.length ≤ xs.length + (if room then newLen - xs.length else 0) := by
  unfold resizeSpec
  split
  · exact extendWithSpecR_len ..
  · have := truncateSpec_len bombs xs newLen
    simp only; omega

/-- the bridge: a refinement equation + conservation at list level ⇒ the C06 statement -/
theorem wf_after_of_eq {α} {v v' : Vec} {r : SpecOut α} {ins : List Id}
    (hv : v.WF) (hg : Grows v v' v.abs)
    (hperm : (r.final ++ r.dropped ++ r.escaped).Perm (v.abs ++ ins)) (hcap : r.final.length ≤ v'.cap)
    (hins : (v.total ++ ins).Nodup) :
    (v'.after r).WF ∧ (v'.after r).total.Perm (v.total ++ ins) := by
  have ⟨hwf', htot, habs⟩ := hg.wf hv
  have := after_WF v' r ins hwf' (by rw [habs]; exact hperm) hcap (by rw [htot]; exact hins)
  rw [htot] at this
  exact this

theorem grown_grows' {env : Env} {v : Vec} {n : Nat} (hv : v.WF) :
    Grows v (grown env v n) v.abs ∧ (room env v n = true → v.len + n ≤ (grown env v n).cap) := by
  have ⟨hs, hl⟩ := hv.slots_eq
  unfold grown room
  cases hr : reserve env v n with
  | none => exact ⟨Grows.refl hs, by simp⟩
  | some v' => have ⟨g, hc⟩ := reserve_some hs hl hr; exact ⟨g, fun _ => hc⟩

theorem grownOne_grows' {env : Env} {v : Vec} (hv : v.WF) :
    Grows v (grownOne env v) v.abs ∧ (roomOne env v = true → v.len + 1 ≤ (grownOne env v).cap) := by
  have ⟨hs, hl⟩ := hv.slots_eq
  unfold grownOne roomOne
  cases hr : reserveOne env v with
  | none => exact ⟨Grows.refl hs, by simp⟩
  | some v' => have ⟨g, hc⟩ := reserveOne_some hs hl hr; exact ⟨g, fun _ => hc⟩

end Coll
