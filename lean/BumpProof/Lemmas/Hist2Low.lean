/-
  Lemmas/Hist2Low.lean — when every block the base allocator granted during the history ends at or below `2^62`
  (true of user-space addresses), every chunk of every reachable state does, hence no non-empty live block can be
  mistaken for "the last allocation" of the static dummy chunk of a claimed handle; and the three operations on
  the claimed handle that `noFault_stepCore_partial` leaves open are fault-free for such blocks.
-/
import BumpProof.Props.Hist

set_option linter.unusedSimpArgs false
set_option linter.unusedVariables false

namespace Arena.Hist
open Rs Ledger

variable {cfg : Cfg}

/-- every granted block of the history lies at or below `2^62` -/
def LowGrants (ops : List (Op × List BaseResp)) : Prop :=
  ∀ x ∈ ops, ∀ p gr, BaseResp.granted p gr ∈ x.2 → p + gr ≤ 2 ^ 62

/-- reachable by a history whose grants are all low -/
def ReachableLow (cfg : Cfg) (g : GState) : Prop :=
  ∃ ops : List (Op × List BaseResp), AllCovered ops ∧ RunEnvOK cfg (initG cfg) ops ∧ LowGrants ops ∧
    runOps cfg (initG cfg) ops = .ok g

theorem ReachableLow.reachable {g : GState} (h : ReachableLow cfg g) : Reachable cfg g :=
  let ⟨ops, h1, h2, _, h4⟩ := h
  ⟨ops, h1, h2, h4⟩

theorem grantsOf_mem : ∀ (reqs : List BaseReq) (resps : List BaseResp) (gr : Grant), gr ∈ grantsOf reqs resps →
    BaseResp.granted gr.ptr gr.granted ∈ resps := by
  intro reqs
  induction reqs with
  | nil => intro resps gr h; simp [grantsOf] at h
  | cons q qs ih =>
    intro resps gr h
    cases q with
    | dealloc a b c => exact ih resps gr (by simpa [grantsOf] using h)
    | alloc sz al =>
      cases resps with
      | nil => exact absurd (ih [] gr (by simpa [grantsOf] using h)) (by simp)
      | cons r rs =>
        cases r with
        | fail => exact List.mem_cons_of_mem _ (ih rs gr (by simpa [grantsOf] using h))
        | granted p g =>
          simp only [grantsOf, List.mem_cons] at h
          rcases h with rfl | h
          · exact List.mem_cons_self
          · exact List.mem_cons_of_mem _ (ih rs gr h)

theorem runOps_runLog : ∀ (ops : List (Op × List BaseResp)) (g g' : GState),
    runOps cfg g ops = .ok g' → ∃ log, runLog cfg g ops = .ok (g', log) := by
  intro ops
  induction ops with
  | nil => intro g g' h; cases h; exact ⟨[], rfl⟩
  | cons x rest ih =>
    intro g g' h
    obtain ⟨op, resps⟩ := x
    obtain ⟨g1, out, reqs, hs, hrest⟩ := runOps_cons h
    obtain ⟨log, hl⟩ := ih g1 g' hrest
    refine ⟨(reqs, resps) :: log, ?_⟩
    unfold runLog
    simp only [bind, Except.bind, pure, Except.pure, hs, hl]

theorem runLog_entries : ∀ (ops : List (Op × List BaseResp)) (g g' : GState) (log : List LogEntry),
    runLog cfg g ops = .ok (g', log) → ∀ e ∈ log, ∃ x ∈ ops, e.2 = x.2 := by
  intro ops
  induction ops with
  | nil =>
    intro g g' log h e he
    simp only [runLog, pure, Except.pure, Except.ok.injEq, Prod.mk.injEq] at h
    rw [← h.2] at he; cases he
  | cons x rest ih =>
    intro g g' log h e he
    obtain ⟨op, resps⟩ := x
    obtain ⟨g1, out, reqs, log', hs, hrest, rfl⟩ := runLog_cons h
    rcases List.mem_cons.mp he with rfl | he
    · exact ⟨(op, resps), List.mem_cons_self, rfl⟩
    · obtain ⟨x, hx, e2⟩ := ih g1 g' log' hrest e he
      exact ⟨x, List.mem_cons_of_mem _ hx, e2⟩

/-- every chunk of a state reached with low grants ends at or below `2^62` -/
theorem ReachableLow.chunksLow (hc : CfgOK cfg) {g : GState} (h : ReachableLow cfg g) :
    ∀ c ∈ g.s.chunks, c.base + c.size ≤ 2 ^ 62 := by
  obtain ⟨ops, h1, h2, h3, h4⟩ := h
  obtain ⟨log, hl⟩ := runOps_runLog ops _ _ h4
  obtain ⟨acq, hm, hp⟩ := C05.history_ledger hc h1 h2 hl
  intro c hcm
  have hmem : deallocReq cfg c ∈ logReleases log ++ owned cfg g.s :=
    List.mem_append_right _ (List.mem_map.mpr ⟨c, hcm, rfl⟩)
  obtain ⟨c', hc', he⟩ := List.mem_map.mp (hp.subset hmem)
  obtain ⟨gr, hgr, hcg⟩ := hm.exists_right hc'
  obtain ⟨e, he1, he2⟩ := List.mem_flatMap.mp hgr
  obtain ⟨x, hx, hx2⟩ := runLog_entries ops _ _ log hl e he1
  have hg := grantsOf_mem e.1 e.2 gr he2
  rw [hx2] at hg
  have hlow := h3 x hx _ _ hg
  unfold deallocReq at he
  simp only [BaseReq.dealloc.injEq] at he
  have h5 := hcg.1
  have h6 := hcg.2.2.2
  omega

/-- hence no NON-EMPTY live block passes the `is_last` test of the claimed handle's dummy chunk -/
theorem ReachableLow.dummyApart_nonempty (hc : CfgOK cfg) {g : GState} (h : ReachableLow cfg g) :
    ∀ blk ∈ g.s.live, 0 < blk.size → isLast cfg { g.s with cur := .claimed } blk.addr blk.size = false := by
  intro blk hb hpos
  have hi := h.reachable.inv hc
  obtain ⟨i, j, c, _, _, hcj, hin, _⟩ := hi.live.placed blk hb hpos
  have hrange := Mem.inContent_in_chunk hin
  have hlow := h.chunksLow hc c (List.mem_of_getElem? hcj)
  rw [C14.isLast_claimed cfg _ blk.addr blk.size rfl]
  have hd : dummyAddr = 2 ^ 62 + 80 := by decide
  cases cfg.up
  · simp only [Bool.false_eq_true, ↓reduceIte, beq_eq_false_iff_ne]; omega
  · simp only [↓reduceIte, beq_eq_false_iff_ne]; omega

/-- `grow / deallocate / shrink` of a live block `b` through the claimed handle: no bug fault provided THIS block does
    not pass the `is_last` test of the dummy chunk (variant of `noFault_onClaimed_block` with the hypothesis for the
    addressed block only) -/
theorem noFault_onClaimed_block' {g : GState} {op : Op} (h : Inv cfg g) {b : Nat}
    (hda : ∀ blk, findBlock g.s b = .ok blk → isLast cfg { g.s with cur := .claimed } blk.addr blk.size = false)
    (hop : (∃ L z via, op = .grow b L z via) ∨ (∃ via, op = .deallocate b via) ∨ (∃ L via, op = .shrink b L via)) :
    ∀ f, stepCore cfg g (.onClaimed op) = .error f → ¬ Fault.isBug f := by
  intro f hf
  have hm : Ctrl.MinAlignOk g.s.minAlign := h.geom.minAlign
  unfold stepCore at hf
  simp only [bind, Except.bind, pure, Except.pure] at hf
  split at hf
  · cases hf; exact fun hb => hb
  · rcases hop with ⟨L, z, via, rfl⟩ | ⟨via, rfl⟩ | ⟨L, via, rfl⟩
    · simp only [] at hf
      split at hf
      · rename_i e he; cases hf; exact validLayout_err he
      · rename_i u hu
        have hL := validLayout_valid hu
        split at hf
        · rename_i e he; cases hf; exact findBlock_err he
        · rename_i blk hblk
          split at hf
          · cases hf; exact fun hb => hb
          · rename_i hchk
            rw [C14.grow_claimed cfg { g.s with cur := .claimed } blk.addr blk.size L rfl hm hL (by omega)
              (hda blk hblk)] at hf
            simp only at hf
            cases hf
    · simp only [] at hf
      split at hf
      · rename_i e he; cases hf; exact findBlock_err he
      · rename_i blk hblk
        rw [C14.deallocate_claimed cfg { g.s with cur := .claimed } blk.addr blk.size (hda blk hblk)] at hf
        simp only at hf
        cases hf
    · simp only [] at hf
      split at hf
      · rename_i e he; cases hf; exact validLayout_err he
      · rename_i u hu
        have hL := validLayout_valid hu
        split at hf
        · rename_i e he; cases hf; exact findBlock_err he
        · rename_i blk hblk
          split at hf
          · cases hf; exact fun hb => hb
          · rename_i hchk
            split at hf
            · cases hf; exact fun hb => hb
            · rename_i hnfit
              have hfit : alignFits blk.addr L.align = true := by
                cases hq : alignFits blk.addr L.align
                · rw [hq] at hnfit; exact absurd rfl hnfit
                · rfl
              rw [C14.shrink_claimed cfg { g.s with cur := .claimed } blk.addr blk.size L (by omega) hfit
                (hda blk hblk)] at hf
              simp only at hf
              cases hf

/-- executable form of `LowGrants` -/
def lowCheck (ops : List (Op × List BaseResp)) : Bool :=
  ops.all (fun x => x.2.all (fun r => match r with
    | .granted p g => decide (p + g ≤ 2 ^ 62)
    | .fail => true))

theorem lowCheck_sound {ops : List (Op × List BaseResp)} (h : lowCheck ops = true) : LowGrants ops := by
  intro x hx p gr hg
  have h1 := List.all_eq_true.1 h x hx
  have h2 := List.all_eq_true.1 h1 _ hg
  simpa using h2

end Arena.Hist
