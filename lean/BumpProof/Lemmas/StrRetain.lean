/-
  Lemmas/StrRetain.lean — `retain`: the in-place compaction loop with its `SetLenOnDrop` guard refines
  the `List Char` filter for EVERY predicate oracle, including the executions in which the
  predicate panics (the guard then leaves exactly the characters kept so far).
-/
import BumpProof.Lemmas.StrOps

namespace Str

/-- specification: the characters kept, and whether the predicate panicked.  The oracle is
    consumed one outcome per character in order; an exhausted oracle answers `keep`; after a
    panic nothing further is visited and the unvisited tail is dropped (what `SetLenOnDrop` does,
    and what `std::string::String::retain` does). -/
def retainSpec : List Char → List Outcome → List Char × Bool
  | [], _ => ([], false)
  | c :: cs, o =>
    match o.headD .keep with
    | .panic => ([], true)
    | .drop => retainSpec cs o.tail
    | .keep => (c :: (retainSpec cs o.tail).1, (retainSpec cs o.tail).2)

theorem retainSpec_panic (c : Char) (cs : List Char) (o : List Outcome) (h : o.headD .keep = .panic) :
    retainSpec (c :: cs) o = ([], true) := by
  rw [retainSpec, h]

theorem retainSpec_drop (c : Char) (cs : List Char) (o : List Outcome) (h : o.headD .keep = .drop) :
    retainSpec (c :: cs) o = retainSpec cs o.tail := by
  rw [retainSpec, h]

theorem retainSpec_keep (c : Char) (cs : List Char) (o : List Outcome) (h : o.headD .keep = .keep) :
    retainSpec (c :: cs) o = (c :: (retainSpec cs o.tail).1, (retainSpec cs o.tail).2) := by
  rw [retainSpec, h]

/-- loop invariant: the buffer is `kept ++ gap ++ unvisited ++ spare` -/
theorem retainLoop_spec (rest : List Char) :
    ∀ (k : List Char) (J T : Bytes) (oracle : List Outcome) (fuel : Nat) (buf : Bytes) (idx del len : Nat),
      buf = encode k ++ J ++ encode rest ++ T → del = J.length → idx = (encode k).length + del →
      len = idx + (encode rest).length → rest.length ≤ fuel →
      ∃ s', retainLoop len fuel buf idx del oracle =
              (if (retainSpec rest oracle).2 then Res.panic s' else Res.ok () s') ∧
            WFL s' ∧ s'.bytes = encode (k ++ (retainSpec rest oracle).1) ∧ s'.buf.length = buf.length := by
  induction rest with
  | nil =>
    intro k J T oracle fuel buf idx del len hbuf hdel hidx hlen _
    simp only [encode_nil, List.length_nil, Nat.add_zero, List.append_nil] at hbuf hlen
    have hfin : ∀ s' : State, s' = { buf := buf, len := idx - del } →
        WFL s' ∧ s'.bytes = encode (k ++ (retainSpec [] oracle).1) ∧ s'.buf.length = buf.length := by
      intro s' hs'
      subst hs'
      refine ⟨?_, ?_, rfl⟩
      · unfold WFL; subst hbuf; simp; omega
      · simp only [State.bytes, retainSpec, List.append_nil]
        subst hbuf hidx hdel
        rw [Nat.add_sub_cancel, List.append_assoc, List.take_left]
    cases fuel with
    | zero =>
      refine ⟨{ buf := buf, len := idx - del }, ?_, hfin _ rfl⟩
      simp only [retainLoop, retainSpec]
      rw [if_neg (by omega)]; rfl
    | succ fuel =>
      refine ⟨{ buf := buf, len := idx - del }, ?_, hfin _ rfl⟩
      simp only [retainLoop, retainSpec]
      rw [if_neg (by omega)]; rfl
  | cons c rest ih =>
    intro k J T oracle fuel buf idx del len hbuf hdel hidx hlen hfuel
    cases fuel with
    | zero => simp at hfuel
    | succ fuel =>
      have hn := encodeChar_length c
      have hpos := encodeChar_length_pos c
      simp only [encode_cons, List.length_append] at hlen
      have hlt : idx < len := by omega
      -- the next character
      have hdec : decodeFirst ((buf.take len).drop idx) = some (c, encode rest) := by
        have e1 : buf.take len = encode k ++ J ++ encode (c :: rest) := by
          rw [hbuf]; apply List.take_left'
          simp only [List.length_append, encode_cons]; omega
        rw [e1]
        have e2 : (encode k ++ J ++ encode (c :: rest)).drop idx = encode (c :: rest) := by
          apply List.drop_left'; simp only [List.length_append]; omega
        rw [e2, encode_cons, decodeFirst_encodeChar_append]
      simp only [retainLoop]
      rw [if_pos hlt, hdec]
      simp only
      cases ho : oracle.headD Outcome.keep with
      | panic =>
        refine ⟨{ buf := buf, len := idx - del }, ?_, ?_, ?_, rfl⟩
        · rw [retainSpec_panic _ _ _ ho]; rfl
        · unfold WFL; subst hbuf; simp; omega
        · rw [retainSpec_panic _ _ _ ho]
          simp only [State.bytes, List.append_nil]
          subst hbuf hidx hdel
          rw [Nat.add_sub_cancel, List.append_assoc, List.append_assoc, List.take_left]
      | drop =>
        simp only
        have := ih k (J ++ encodeChar c) T oracle.tail fuel buf (idx + c.utf8Size) (del + c.utf8Size) len
          (by rw [hbuf, encode_cons]; simp only [List.append_assoc])
          (by simp only [List.length_append]; omega) (by omega) (by omega) (by simpa using hfuel)
        obtain ⟨s', h1, h2, h3, h4⟩ := this
        refine ⟨s', ?_, h2, ?_, h4⟩
        · rw [h1, retainSpec_drop _ _ _ ho]
        · rw [h3, retainSpec_drop _ _ _ ho]
      | keep =>
        simp only
        by_cases hd : del > 0
        · rw [if_pos hd]
          have hle : idx - del + (encodeChar c).length ≤ buf.length := by
            rw [hbuf]; simp only [List.length_append, encode_cons]; omega
          rw [writeAt_eq _ _ _ hle]
          simp only
          -- the buffer after the write, in the shape of the invariant
          have hb' : buf.take (idx - del) ++ encodeChar c ++ buf.drop (idx - del + (encodeChar c).length) =
              encode (k ++ [c]) ++ (J ++ encodeChar c).drop (encodeChar c).length ++ encode rest ++ T := by
            have hk : idx - del = (encode k).length := by omega
            rw [hk, hbuf, encode_append, encode_singleton]
            have t1 : (encode k ++ J ++ encode (c :: rest) ++ T).take (encode k).length = encode k := by
              simp only [List.append_assoc]; exact List.take_left
            have t2 : (encode k ++ J ++ encode (c :: rest) ++ T).drop ((encode k).length + (encodeChar c).length) =
                (J ++ encodeChar c).drop (encodeChar c).length ++ encode rest ++ T := by
              simp only [List.append_assoc, encode_cons]
              rw [List.drop_length_add_append]
              rw [← List.append_assoc J (encodeChar c), List.drop_append_of_le_length (by simp)]
            rw [t1, t2]; simp only [List.append_assoc]
          have := ih (k ++ [c]) ((J ++ encodeChar c).drop (encodeChar c).length) T oracle.tail fuel _
            (idx + c.utf8Size) del len hb'
            (by simp only [List.length_drop, List.length_append]; omega)
            (by rw [encode_append, encode_singleton, List.length_append]; omega) (by omega) (by simpa using hfuel)
          obtain ⟨s', h1, h2, h3, h4⟩ := this
          refine ⟨s', ?_, h2, ?_, ?_⟩
          · rw [h1, retainSpec_keep _ _ _ ho]
          · rw [h3, retainSpec_keep _ _ _ ho]; simp
          · rw [h4]; simp; omega
        · rw [if_neg hd]
          have hd0 : del = 0 := by omega
          have hJ : J = [] := by apply List.eq_nil_of_length_eq_zero; omega
          have := ih (k ++ [c]) [] T oracle.tail fuel buf (idx + c.utf8Size) del len
            (by rw [hbuf, hJ, encode_append, encode_singleton, encode_cons]; simp only [List.append_assoc, List.append_nil])
            (by simp [hd0])
            (by rw [encode_append, encode_singleton, List.length_append]; omega) (by omega) (by simpa using hfuel)
          obtain ⟨s', h1, h2, h3, h4⟩ := this
          refine ⟨s', ?_, h2, ?_, h4⟩
          · rw [h1, retainSpec_keep _ _ _ ho]
          · rw [h3, retainSpec_keep _ _ _ ho]; simp

/-- `retain` for every string and every oracle: `ok` with the kept characters, or — when the
    predicate panics at some character — `panic` with exactly the characters kept before it -/
theorem retain_spec (s : State) (cs : List Char) (oracle : List Outcome) (h : Holds s cs) :
    ∃ s', retain s oracle = (if (retainSpec cs oracle).2 then Res.panic s' else Res.ok () s') ∧
      Holds s' (retainSpec cs oracle).1 ∧ s'.buf.length = s.buf.length := by
  unfold retain
  have hl := h.len
  have hbuf : s.buf = encode [] ++ [] ++ encode cs ++ s.buf.drop s.len := by
    have := List.take_append_drop s.len s.buf
    rw [← h.2]; simp [State.bytes]
  obtain ⟨s', h1, h2, h3, h4⟩ := retainLoop_spec cs [] [] (s.buf.drop s.len) oracle s.len s.buf 0 0 s.len hbuf rfl
    (by simp) (by simp [hl]) (by rw [hl]; exact length_le_encode_length cs)
  exact ⟨s', h1, ⟨h2, by simp at h3; exact h3⟩, h4⟩

end Str
