/-
  Lemmas/GeomNoFault2.lean — "no fault" of `grow` and `shrink`.
-/
import BumpProof.Lemmas.GeomNoFault

set_option linter.unusedSimpArgs false
set_option linter.unusedVariables false

namespace Arena
open Rs Lemmas

section
variable {cfg : Cfg}

theorem curChunk?_of {s : State} {i : Nat} {c : Chunk} (hcur : s.cur = .chunk i) (hi : s.chunks[i]? = some c) :
    curChunk? s = some c := by
  unfold curChunk?; rw [hcur]; exact hi

/-- slow path, then move the old block (the `moveTo` continuation of `grow`) -/
theorem slow_move_noFault (hc : CfgOK cfg) {s : State} (h : GeomInv cfg s) (hr : RespsOK cfg s)
    (hd : ChunksDisjoint s) (hf : RespsFresh s) {L : Layout} (hL : L.Valid) {ptr n len : Nat}
    (hl : OldBlock cfg s ptr n) (h1 : len ≤ n) (h2 : len ≤ L.size) (hb : BaseOK cfg s L) :
    ∃ s' r, (inAnotherChunk cfg Kind.alloc s L Hints.custom >>= fun x =>
      match x with
      | (s1, r1) => (match (s1, Except.map (fun x => x.fst) r1) with
        | (s', Except.error e) => (pure (s', Except.error e) : R (State × Except AErr Nat))
        | (s', Except.ok np) => do
          let s'' ← copyBytes cfg s' ptr np len true
          pure (s'', Except.ok np))) = .ok (s', r) := by
  have hcu : Hints.custom.sma = true → L.align ∣ L.size := fun hx => by cases hx
  obtain ⟨a1, a2⟩ := inAnotherChunk_ok' hc h hr .alloc hL hcu (fun hx => by cases hx) (hints := Hints.custom)
  obtain ⟨s1, r1, he⟩ := a2 hb
  rw [he]
  simp only [r_ok_bind]
  cases r1 with
  | error e => exact ⟨_, _, rfl⟩
  | ok v =>
    have hfrom := (a1 s1 (.ok v) he).2 v rfl
    have cr := copyReady_slow hc h hd hf hL hl hfrom
    obtain ⟨s2, hcp⟩ := cr.copy h1 h2 true
    simp only [Except.map, hcp, r_ok_bind]
    exact ⟨_, _, rfl⟩

/-- `alloc`, then move the old block -/
theorem alloc_move_noFault (hc : CfgOK cfg) {s : State} (h : GeomInv cfg s) (hr : RespsOK cfg s)
    (hd : ChunksDisjoint s) (hf : RespsFresh s) {L : Layout} (hL : L.Valid) {ptr n len : Nat}
    (hl : LiveBlock cfg s ptr n) (h1 : len ≤ n) (h2 : len ≤ L.size) (hb : BaseOK cfg s L) :
    ∃ s' r, (alloc cfg s L >>= fun x =>
      (match x with
        | (s', Except.error e) => (pure (s', Except.error e) : R (State × Except AErr Nat))
        | (s', Except.ok np) => do
          let s'' ← copyBytes cfg s' ptr np len true
          pure (s'', Except.ok np))) = .ok (s', r) := by
  obtain ⟨s1, r1, he⟩ := (alloc_ok hc h hr hL).2 hb
  rw [he]
  simp only [r_ok_bind]
  cases r1 with
  | error e => exact ⟨_, _, rfl⟩
  | ok np =>
    have cr := alloc_copyReady hc h hr hd hf hL hl he
    obtain ⟨s2, hcp⟩ := cr.copy h1 h2 true
    simp only [hcp, r_ok_bind]
    exact ⟨_, _, rfl⟩

theorem grow_noFault (hc : CfgOK cfg) {s : State} (h : GeomInv cfg s) (hr : RespsOK cfg s)
    (hd : ChunksDisjoint s) (hf : RespsFresh s) {ptr oldSize : Nat} {newL : Layout} (hL : newL.Valid)
    (hsz : oldSize ≤ newL.size) (hl : LiveBlock cfg s ptr oldSize) (hb : BaseOK cfg s newL) :
    ∃ s' r, grow cfg s ptr oldSize newL = .ok (s', r) := by
  unfold grow
  rw [assert_dec (show newL.size ≥ oldSize from hsz)]
  simp only [liftM_ok, r_ok_bind]
  have hslow := slow_move_noFault hc h hr hd hf hL hl.old (Nat.le_refl oldSize) hsz hb
  have halloc := alloc_move_noFault hc h hr hd hf hL hl (Nat.le_refl oldSize) hsz hb
  have hm := h.minAlign
  cases hup : cfg.up
  · -- downwards
    simp only [Bool.false_eq_true, ↓reduceIte]
    cases hlast : isLast cfg s ptr oldSize
    · simp only [Bool.false_eq_true, ↓reduceIte]; exact halloc
    · simp only [↓reduceIte]
      obtain ⟨i, c, hcur, hi, hb1, hb2, hb3⟩ := hl.blockInCur hc h hd hlast
      have hw := h.chunks i c hi
      have hpos := isLast_pos hlast hcur hi
      simp only [hup, Bool.false_eq_true, ↓reduceIte] at hpos hb3
      have hend := hw.end_lt64
      have hsp := hw.start_pos
      rw [curChunk?_of hcur hi]
      simp only
      have hp2 : P2 (Rs.max newL.align s.minAlign) := by rw [rs_max_eq]; exact hL.p2.max hm.p2
      have hlt : Rs.max newL.align s.minAlign < 2 ^ 64 := by
        rw [rs_max_eq, Lemmas.Size.natmax]; have := hL.lt64; have := hm.lt64; omega
      rw [sub_ok hsz]
      simp only [liftM_ok, r_ok_bind]
      rw [lib_bump_down_eq hp2 hlt (by omega : ptr < 2 ^ 64)]
      simp only [liftM_ok, r_ok_bind]
      have hle : Spec.downAlign (ptr - (newL.size - oldSize)) (Rs.max newL.align s.minAlign) ≤ ptr - (newL.size - oldSize) :=
        downAlign_le _ _
      by_cases hge : Spec.downAlign (ptr - (newL.size - oldSize)) (Rs.max newL.align s.minAlign) ≥ c.contentStart cfg
      · simp only [hge, ↓reduceIte]
        rw [add_ok' (by omega)]
        simp only [liftM_ok, r_ok_bind]
        obtain ⟨s1, hcp⟩ := copyBytes_noFault (cfg := cfg) hd (src := ptr)
          (dst := Spec.downAlign (ptr - (newL.size - oldSize)) (Rs.max newL.align s.minAlign)) (len := oldSize)
          (no := decide (Spec.downAlign (ptr - (newL.size - oldSize)) (Rs.max newL.align s.minAlign) + newL.size < ptr))
          (Or.inr ⟨i, c, hi, by have := hw.base_le_start; omega, by have := hw.end_le; omega⟩)
          (Or.inr ⟨i, c, hi, hw, hge, by omega⟩)
          (fun hx => by simp only [decide_eq_true_eq] at hx; right; omega)
        simp only [hcp, r_ok_bind]
        exact ⟨_, _, rfl⟩
      · simp only [hge, ↓reduceIte]
        exact hslow
  · -- upwards
    simp only [↓reduceIte]
    cases hcond : (isLast cfg s ptr oldSize && alignFits ptr newL.align)
    · simp only [Bool.false_eq_true, ↓reduceIte]; exact halloc
    · simp only [↓reduceIte]
      simp only [Bool.and_eq_true] at hcond
      obtain ⟨i, c, hcur, hi, hb1, hb2, hb3⟩ := hl.blockInCur hc h hd hcond.1
      have hw := h.chunks i c hi
      have hend := hw.end_lt64
      have h16 := hw.end16 hc
      have hmle := hm.le
      rw [curChunk?_of hcur hi]
      simp only
      rw [sub_ok (by omega : ptr ≤ c.contentEnd cfg)]
      simp only [liftM_ok, r_ok_bind]
      by_cases hle : newL.size ≤ c.contentEnd cfg - ptr
      · simp only [hle, ↓reduceIte]
        rw [add_ok' (by omega)]
        simp only [liftM_ok, r_ok_bind]
        rw [up_align_usize_unchecked_eq hm.p2 hm.lt64 (by rw [two_pow_64] at hend ⊢; omega)]
        exact ⟨_, _, rfl⟩
      · simp only [hle, ↓reduceIte]
        exact hslow

theorem shrink_noFault (hc : CfgOK cfg) {s : State} (h : GeomInv cfg s) (hr : RespsOK cfg s)
    (hd : ChunksDisjoint s) (hf : RespsFresh s) {ptr oldSize : Nat} {newL : Layout} (hL : newL.Valid)
    (hsz : newL.size ≤ oldSize) (hl : LiveBlock cfg s ptr oldSize) (hb : BaseOK cfg s newL) :
    ∃ s' r, shrink cfg s ptr oldSize newL = .ok (s', r) := by
  unfold shrink
  rw [assert_dec hsz]
  simp only [liftM_ok, r_ok_bind]
  have hm := h.minAlign
  have hcu : Hints.custom.sma = true → newL.align ∣ newL.size := fun hx => by cases hx
  cases hfit : alignFits ptr newL.align
  · -- `shrink_unfit`
    simp only [Bool.not_false, ↓reduceIte]
    cases hcond : (cfg.shrinks && isLast cfg s ptr oldSize)
    · simp only [Bool.false_eq_true, ↓reduceIte]
      obtain ⟨s1, r1, he⟩ := (alloc_ok hc h hr hL).2 hb
      rw [he]
      simp only [r_ok_bind]
      cases r1 with
      | error e => exact ⟨_, _, rfl⟩
      | ok np =>
        have cr := alloc_copyReady hc h hr hd hf hL hl he
        obtain ⟨s2, hcp⟩ := cr.copy hsz (Nat.le_refl _) true
        simp only [hcp, r_ok_bind]
        exact ⟨_, _, rfl⟩
    · simp only [↓reduceIte]
      simp only [Bool.and_eq_true] at hcond
      have hbc := hl.blockInCur hc h hd hcond.2
      obtain ⟨s1, d1, d2, d3, d4, d5, d6, _⟩ := deallocAssumeLast_ok hc h hbc
      have hr1 : RespsOK cfg s1 := fun x hx => hr x (by rw [d6] at hx; exact hx)
      obtain ⟨i, c, hcur, hi, hb1, hb2, hb3⟩ := hbc
      have hw := h.chunks i c hi
      simp only [d1, r_ok_bind, tryCur_eq hc d2 .alloc hL hcu]
      cases ht : tryCurSpec cfg .alloc s1 newL with
      | some x =>
        obtain ⟨⟨np, snd⟩, s2⟩ := x
        simp only
        obtain ⟨j, cj, np', hcur1, hj, hs2, b1, b2, b3, b4, b5, b6⟩ := tryCurSpec_alloc_some hc d2 hL ht
        obtain ⟨g1, g2, _⟩ := tryCurSpec_inv hc d2 hL ht
        rw [d4, hcur] at hcur1; cases hcur1
        obtain ⟨c1, hi1, hsh1⟩ := d3.getElem?' hi
        rw [hi1] at hj; cases hj
        have hw1 := d2.chunks i cj hi1
        obtain ⟨c2, hi2, hsh2⟩ := g2.getElem?' hi1
        have hw2 := g1.chunks i c2 hi2
        have hdst : cj.contentStart cfg ≤ np ∧ np + newL.size ≤ cj.contentEnd cfg := by
          have := hw1.pos_ge; have := hw1.pos_le
          cases hup : cfg.up
          · simp only [hup, Bool.false_eq_true, ↓reduceIte] at b6; omega
          · simp only [hup, ↓reduceIte] at b6; omega
        have hd2 : ChunksDisjoint s2 := (d3.trans g2).disjoint hd
        have hbase : c2.base = c.base ∧ c2.size = c.size := by
          have x1 := shape_base hsh2; have x2 := shape_base hsh1
          exact ⟨x1.1.trans x2.1, x1.2.trans x2.2⟩
        obtain ⟨s3, hcp⟩ := copyBytes_noFault (cfg := cfg) hd2 (src := ptr) (dst := np) (len := newL.size)
          (no := !(if cfg.up = true then decide (ptr + newL.size > np) else decide (np + newL.size > ptr)))
          (Or.inr ⟨i, c2, hi2, by rw [hbase.1]; have := hw.base_le_start; omega,
            by rw [hbase.1, hbase.2]; have := hw.end_le; omega⟩)
          (Or.inr ⟨i, c2, hi2, hw2, by rw [shape_contentStart hsh2]; exact hdst.1,
            by rw [shape_contentEnd hsh2]; exact hdst.2⟩)
          (fun hx => by
            cases hup : cfg.up
            · simp only [hup, Bool.false_eq_true, ↓reduceIte, Bool.not_eq_true', decide_eq_false_iff_not] at hx
              right; omega
            · simp only [hup, ↓reduceIte, Bool.not_eq_true', decide_eq_false_iff_not] at hx
              left; omega)
        simp only [hcp, r_ok_bind]
        exact ⟨_, _, rfl⟩
      | none =>
        simp only
        obtain ⟨c0, hc0, hd0⟩ := h.cur i hcur
        rw [hi] at hc0; cases hc0
        obtain ⟨c1, hi1, hsh1⟩ := d3.getElem?' hi
        have hinv2 : GeomInv cfg (setCurPos s1 (curPos cfg s)) := by
          rw [curPos_chunk hcur hi]
          exact d2.setCurPos (d4.trans hcur) hi1 (by rw [shape_contentStart hsh1]; exact hw.pos_ge)
            (by rw [shape_contentEnd hsh1]; exact hw.pos_le) (by rw [d5]; exact hd0)
        have hsh2 : SameShape s (setCurPos s1 (curPos cfg s)) := d3.trans (setCurPos_shape _ _)
        have hcur2 : (setCurPos s1 (curPos cfg s)).cur = s.cur := (setCurPos_cur _ _).trans d4
        have hresps2 : (setCurPos s1 (curPos cfg s)).resps = s.resps := (setCurPos_resps _ _).trans d6
        have hr2 : RespsOK cfg (setCurPos s1 (curPos cfg s)) := fun x hx => hr x (by rw [hresps2] at hx; exact hx)
        -- the old block in the restored state
        have hold2 : OldBlock cfg (setCurPos s1 (curPos cfg s)) ptr oldSize := by
          obtain ⟨c2, hi2, hsh2'⟩ := hsh2.getElem?' hi
          exact ⟨i, i, c2, hcur2.trans hcur, Nat.le_refl _, hi2, by rw [shape_contentStart hsh2']; exact hb1,
            by rw [shape_contentEnd hsh2']; exact hb2⟩
        obtain ⟨a1, a2⟩ := inAnotherChunk_ok' hc hinv2 hr2 .alloc hL hcu (fun hx => by cases hx) (hints := Hints.custom)
        obtain ⟨s3, r3, he⟩ := a2 (hsh2.baseOK hcur2 hresps2 hb)
        rw [he]
        simp only [r_ok_bind]
        cases r3 with
        | error e => exact ⟨_, _, rfl⟩
        | ok v =>
          obtain ⟨np, snd⟩ := v
          have hfrom := (a1 s3 (.ok (np, snd)) he).2 (np, snd) rfl
          have cr := copyReady_slow hc hinv2 (hsh2.disjoint hd) (hsh2.respsFresh hresps2 hf) hL hold2 hfrom
          obtain ⟨s4, hcp⟩ := cr.copy hsz (Nat.le_refl _) true
          simp only [hcp, r_ok_bind]
          exact ⟨_, _, rfl⟩
  · simp only [Bool.not_true, Bool.false_eq_true, ↓reduceIte]
    cases hcond : (!cfg.shrinks || !isLast cfg s ptr oldSize)
    · simp only [Bool.false_eq_true, ↓reduceIte]
      have hcond' : cfg.shrinks = true ∧ isLast cfg s ptr oldSize = true := by
        simp only [Bool.or_eq_false_iff, Bool.not_eq_false'] at hcond
        exact hcond
      obtain ⟨i, c, hcur, hi, hb1, hb2, hb3⟩ := hl.blockInCur hc h hd hcond'.2
      have hw := h.chunks i c hi
      have hpos := isLast_pos hcond'.2 hcur hi
      have hend := hw.end_lt64
      have h16 := hw.end16 hc
      have hmle := hm.le
      have hple := hw.pos_le
      cases hup : cfg.up
      · simp only [hup, Bool.false_eq_true, ↓reduceIte] at hpos hb3 ⊢
        have hadd : Rs.add ptr oldSize = .ok (ptr + oldSize) := add_ok' (by omega)
        have hp2 : P2 (Rs.max newL.align s.minAlign) := by rw [rs_max_eq]; exact hL.p2.max hm.p2
        have hlt : Rs.max newL.align s.minAlign < 2 ^ 64 := by
          rw [rs_max_eq, Lemmas.Size.natmax]; have := hL.lt64; have := hm.lt64; omega
        have hbd := lib_bump_down_eq (sz := newL.size) hp2 hlt (by omega : ptr + oldSize < 2 ^ 64)
        obtain ⟨g1, g2, g3⟩ := shrink_down_core hc h hcur hi hL.p2 hL.lt64 (alignFits_dvd hfit) hpos hb2 hsz hadd hbd
        have hle : Spec.downAlign (ptr + oldSize - newL.size) (Rs.max newL.align s.minAlign) ≤ ptr + oldSize - newL.size :=
          downAlign_le _ _
        obtain ⟨s1, h1⟩ := copyBytes_noFault (cfg := cfg) hd (src := ptr)
          (dst := Spec.downAlign (ptr + oldSize - newL.size) (Rs.max newL.align s.minAlign)) (len := newL.size)
          (no := !decide (ptr + newL.size > Spec.downAlign (ptr + oldSize - newL.size) (Rs.max newL.align s.minAlign)))
          (Or.inr ⟨i, c, hi, by have := hw.base_le_start; omega, by have := hw.end_le; omega⟩)
          (Or.inr ⟨i, c, hi, hw, g1, by omega⟩)
          (fun hx => by
            simp only [Bool.not_eq_true', decide_eq_false_iff_not] at hx
            left; omega)
        simp only [hadd, hbd, liftM_ok, r_ok_bind, h1, hcur]
        exact ⟨_, _, rfl⟩
      · simp only [hup, ↓reduceIte] at hpos hb3 ⊢
        have hadd : Rs.add ptr newL.size = .ok (ptr + newL.size) := add_ok' (by omega)
        have hua := up_align_usize_unchecked_eq (x := ptr + newL.size) hm.p2 hm.lt64 (by rw [two_pow_64] at hend ⊢; omega)
        simp only [hadd, hua, liftM_ok, r_ok_bind, hcur]
        exact ⟨_, _, rfl⟩
    · simp only [↓reduceIte]
      exact ⟨_, _, rfl⟩

theorem shrinkWithoutShrink_noFault (hc : CfgOK cfg) {s : State} (h : GeomInv cfg s) (hr : RespsOK cfg s)
    (hd : ChunksDisjoint s) (hf : RespsFresh s) {ptr oldSize : Nat} {newL : Layout} (hL : newL.Valid)
    (hsz : newL.size ≤ oldSize) (hl : LiveBlock cfg s ptr oldSize) (hb : BaseOK cfg s newL) :
    ∃ s' r, shrinkWithoutShrink cfg s ptr oldSize newL = .ok (s', r) := by
  unfold shrinkWithoutShrink
  cases hfit : alignFits ptr newL.align
  · simp only [Bool.false_eq_true, ↓reduceIte]
    obtain ⟨s1, r1, he⟩ := (alloc_ok hc h hr hL).2 hb
    rw [he]
    simp only [r_ok_bind]
    cases r1 with
    | error e => exact ⟨_, _, rfl⟩
    | ok np =>
      have cr := alloc_copyReady hc h hr hd hf hL hl he
      obtain ⟨s2, hcp⟩ := cr.copy hsz (Nat.le_refl _) true
      simp only [hcp, r_ok_bind]
      exact ⟨_, _, rfl⟩
  · simp only [↓reduceIte]
    exact ⟨_, _, rfl⟩

/-- `reset` leaves a single chunk -/
theorem reset_disjoint {s : State} (hd : ChunksDisjoint s) : ChunksDisjoint (reset cfg s) := by
  unfold reset
  split
  · split
    · exact hd
    · intro i j a b hij ha hb
      cases i with
      | zero =>
        cases j with
        | zero => exact absurd rfl hij
        | succ n => simp at hb
      | succ n => simp at ha
  · exact hd

end
end Arena
