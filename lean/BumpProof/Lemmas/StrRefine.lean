/-
  Lemmas/StrRefine.lean — every operation of the byte model refines its `List Char` specification
  (`specStep`), and so does every history (`Simulates`).
-/
import BumpProof.Lemmas.StrRun

namespace Str

theorem specGrow_rel {al : Alloc} {s : State} {need : Nat} {r : Res Unit} {out cs : List Char}
    (h : Holds s cs) (hg : GrowsToText al s need r out) :
    OutRel (specGrow al (s.cap - s.len) need cs out) (ofRes (fun _ => .unit) r) := by
  unfold GrowsToText at hg
  unfold specGrow
  split
  · rename_i hc; rw [if_pos hc] at hg; rw [hg]; exact h
  · rename_i hc; rw [if_neg hc] at hg
    obtain ⟨s', hr, hh, _⟩ := hg
    rw [hr]; exact ⟨hh, trivial⟩

theorem rangeBad_len {s : State} {cs : List Char} (h : Holds s cs) {sb eb : Bound}
    (hb : RangeBad cs sb eb (encode cs).length) : RangeBad cs sb eb s.len := by
  rw [h.len]; exact hb

/-- one operation (any arguments, any allocator kind; the repaired `split_off`): related outcomes -/
theorem step_refines (al : Alloc) (s : State) (cs : List Char) (op : Op) (h : Holds s cs) :
    OutRel (specStep al (s.cap - s.len) cs op) (stepOut al true s op) := by
  cases op with
  | push c => exact specGrow_rel h (push_spec al s c cs h)
  | pushStr t => exact specGrow_rel h (pushStr_spec al s t cs h)
  | insert i c =>
    simp only [specStep, stepOut]
    cases hs : splitAtByte cs i with
    | none => rw [insert_panic al s i c cs h (splitAtByte_none hs)]; exact h
    | some p =>
      obtain ⟨a, b⟩ := p
      obtain ⟨rfl, hl⟩ := splitAtByte_some hs
      exact specGrow_rel h (insert_spec al s i c a b h hl)
  | insertStr i t =>
    simp only [specStep, stepOut]
    cases hs : splitAtByte cs i with
    | none => rw [insertStr_panic al s i _ cs h (splitAtByte_none hs)]; exact h
    | some p =>
      obtain ⟨a, b⟩ := p
      obtain ⟨rfl, hl⟩ := splitAtByte_some hs
      exact specGrow_rel h (insertStr_spec al s i t a b h hl)
  | remove i =>
    simp only [specStep, stepOut]
    cases hs : splitAtByte cs i with
    | none => rw [remove_panic s i cs h (Or.inl (splitAtByte_none hs))]; exact h
    | some p =>
      obtain ⟨a, b⟩ := p
      obtain ⟨rfl, hl⟩ := splitAtByte_some hs
      cases b with
      | nil =>
        have : s.len ≤ i := by rw [h.len, ← hl]; simp
        rw [remove_panic s i _ h (Or.inr this)]; exact h
      | cons c b =>
        obtain ⟨s', hr, hh, _⟩ := remove_ok s i c a b h hl
        rw [hr]; exact ⟨hh, rfl⟩
  | pop =>
    simp only [specStep, stepOut]
    rcases eq_nil_or_snoc cs with rfl | ⟨cs', c, rfl⟩
    · rw [pop_nil s h]; exact ⟨h, rfl⟩
    · obtain ⟨s', hp, hh, _⟩ := pop_snoc s cs' c h
      rw [hp]
      simp only [List.dropLast_concat, List.getLast?_append, List.getLast?_singleton]
      exact ⟨hh, by simp [RetRel]⟩
  | truncate n =>
    simp only [specStep, stepOut]
    by_cases hle : n ≤ (encode cs).length
    · rw [if_pos hle]
      cases hs : splitAtByte cs n with
      | none => rw [truncate_panic s n cs h (by rw [h.len]; exact hle) (splitAtByte_none hs)]; exact h
      | some p =>
        obtain ⟨a, b⟩ := p
        obtain ⟨rfl, hl⟩ := splitAtByte_some hs
        obtain ⟨s', ht, hh, _⟩ := truncate_ok s n a b h hl
        rw [ht]; exact ⟨hh, trivial⟩
    · rw [if_neg hle, truncate_beyond s n (by rw [h.len]; omega)]; exact ⟨h, trivial⟩
  | clear =>
    simp only [specStep, stepOut]
    obtain ⟨s', hc, hh, _⟩ := clear_spec s
    rw [hc]; exact ⟨hh, trivial⟩
  | retain o =>
    simp only [specStep, stepOut]
    obtain ⟨s', hr, hh, _⟩ := retain_spec s cs o h
    rw [hr]
    split
    · exact hh
    · exact ⟨hh, trivial⟩
  | drain sb eb k =>
    simp only [specStep, stepOut]
    cases hs : splitRange cs sb eb with
    | none => rw [drain_panic s sb eb k cs h (rangeBad_len h (splitRange_none hs))]; exact h
    | some p =>
      obtain ⟨a, b, c⟩ := p
      obtain ⟨i, j, hr, rfl, h1, h2⟩ := splitRange_some hs
      rw [← h.len] at hr
      obtain ⟨s', hd, hh, _⟩ := drain_ok s sb eb k i j a b c h hr h1 h2
      rw [hd]; exact ⟨hh, rfl⟩
  | replaceRange sb eb t =>
    simp only [specStep, stepOut]
    cases hs : splitRange cs sb eb with
    | none => rw [replaceRange_panic al s sb eb _ cs h (rangeBad_len h (splitRange_none hs))]; exact h
    | some p =>
      obtain ⟨a, b, c⟩ := p
      obtain ⟨i, j, hr, rfl, h1, h2⟩ := splitRange_some hs
      rw [← h.len] at hr
      exact specGrow_rel h (replaceRange_ok al s sb eb t i j a b c h hr h1 h2)
  | extendFromWithin sb eb =>
    simp only [specStep, stepOut]
    cases hs : splitRange cs sb eb with
    | none => rw [extendFromWithin_panic al s sb eb cs h (rangeBad_len h (splitRange_none hs))]; exact h
    | some p =>
      obtain ⟨a, b, c⟩ := p
      obtain ⟨i, j, hr, rfl, h1, h2⟩ := splitRange_some hs
      rw [← h.len] at hr
      exact specGrow_rel h (extendFromWithin_ok al s sb eb i j a b c h hr h1 h2)
  | splitOff sb eb other =>
    simp only [specStep, stepOut]
    cases hs : splitRange cs sb eb with
    | none =>
      rcases rangeBad_len h (splitRange_none hs) with hn | ⟨i, j, hr, hp⟩
      · rw [splitOff_panic_range true s sb eb hn]; exact h
      · rw [splitOff_panic_fixed s sb eb i j cs h hr hp]; exact h
    | some p =>
      obtain ⟨a, b, c⟩ := p
      obtain ⟨i, j, hr, rfl, h1, h2⟩ := splitRange_some hs
      rw [← h.len] at hr
      obtain ⟨o, s', hsp, ho, hs', _⟩ := splitOff_ok true s sb eb i j a b c h hr h1 h2
      rw [hsp]
      cases other with
      | true => exact ⟨ho, hs'⟩
      | false => exact ⟨hs', ho⟩
  | reserve n =>
    simp only [specStep, stepOut, specGrow]
    have := reserveOp_spec al s n cs h
    split
    · rename_i hc; rw [if_pos hc] at this; rw [this]; exact h
    · rename_i hc; rw [if_neg hc] at this
      obtain ⟨s', hr, hh, _⟩ := this
      rw [hr]; exact ⟨hh, trivial⟩
  | reserveExact n =>
    simp only [specStep, stepOut, specGrow]
    have := reserveExactOp_spec al s n cs h
    split
    · rename_i hc; rw [if_pos hc] at this; rw [this]; exact h
    · rename_i hc; rw [if_neg hc] at this
      obtain ⟨s', hr, hh, _⟩ := this
      rw [hr]; exact ⟨hh, trivial⟩

/-- related outcomes continue from related strings -/
theorem outRel_next {so : Out (List Char)} {mo : Out State} (h : OutRel so mo) :
    ∃ s' cs', mo.next = some s' ∧ so.next = some cs' ∧ Holds s' cs' := by
  cases so with
  | ok cs r => cases mo with
    | ok s r' => exact ⟨s, cs, rfl, rfl, h.1⟩
    | err s => exact absurd h (by simp [OutRel])
    | panic s => exact absurd h (by simp [OutRel])
    | fault => exact absurd h (by simp [OutRel])
  | err cs => cases mo with
    | ok s r' => exact absurd h (by simp [OutRel])
    | err s => exact ⟨s, cs, rfl, rfl, h⟩
    | panic s => exact absurd h (by simp [OutRel])
    | fault => exact absurd h (by simp [OutRel])
  | panic cs => cases mo with
    | ok s r' => exact absurd h (by simp [OutRel])
    | err s => exact absurd h (by simp [OutRel])
    | panic s => exact ⟨s, cs, rfl, rfl, h⟩
    | fault => exact absurd h (by simp [OutRel])
  | fault => cases mo <;> exact absurd h (by simp [OutRel])

/-- every history is simulated by the specification -/
theorem run_simulates (s : State) (cs : List Char) (ops : List (Alloc × Op)) (h : Holds s cs) :
    Simulates true s cs ops := by
  induction ops generalizing s cs with
  | nil => trivial
  | cons p ops ih =>
    obtain ⟨al, op⟩ := p
    have hr := step_refines al s cs op h
    obtain ⟨s', cs', h1, h2, hh⟩ := outRel_next hr
    refine ⟨hr, ?_⟩
    rw [h1, h2]
    exact ih s' cs' hh

/-! ## growable strings: the specification does not look at the capacity at all -/

/-- the outcomes of a history on the byte model -/
def modelRun (f : Bool) : State → List (Alloc × Op) → List (Out State)
  | _, [] => []
  | s, (al, op) :: ops =>
    stepOut al f s op ::
      (match (stepOut al f s op).next with
       | some s' => modelRun f s' ops
       | none => [])

/-- the outcomes of a history on the specification of a GROWABLE string (`String` itself) -/
def specRun : List Char → List Op → List (Out (List Char))
  | _, [] => []
  | cs, op :: ops =>
    specStep .exact 0 cs op ::
      (match (specStep .exact 0 cs op).next with
       | some cs' => specRun cs' ops
       | none => [])

/-- the two outcome traces have the same length and are related position by position -/
def TraceRel : List (Out (List Char)) → List (Out State) → Prop
  | [], [] => True
  | a :: as, b :: bs => OutRel a b ∧ TraceRel as bs
  | _, _ => False

theorem specStep_growable (al : Alloc) (spare : Nat) (cs : List Char) (op : Op) (hg : al.isFixed = false) :
    specStep al spare cs op = specStep .exact 0 cs op := by
  have he : Alloc.isFixed .exact = false := rfl
  cases op <;> simp [specStep, specGrow, hg, he]

theorem run_refines_growable (s : State) (cs : List Char) (ops : List (Alloc × Op)) (h : Holds s cs)
    (hg : ∀ p ∈ ops, p.1.isFixed = false) :
    TraceRel (specRun cs (ops.map (·.2))) (modelRun true s ops) := by
  induction ops generalizing s cs with
  | nil => trivial
  | cons p ops ih =>
    obtain ⟨al, op⟩ := p
    have hal : al.isFixed = false := hg (al, op) (by simp)
    have hr := step_refines al s cs op h
    rw [specStep_growable al _ cs op hal] at hr
    obtain ⟨s', cs', h1, h2, hh⟩ := outRel_next hr
    simp only [List.map_cons, specRun, modelRun, h1, h2]
    exact ⟨hr, ih s' cs' hh (fun q hq => hg q (by simp [hq]))⟩

end Str
