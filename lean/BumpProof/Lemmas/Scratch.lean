import BumpProof.Lemmas.RsOps
set_option linter.unusedSimpArgs false
set_option linter.unusedVariables false
namespace Lemmas
open Gen.Bumping Rs C11

theorem bump_prepare_up_ok (p : BumpProps) (h : Valid true p) :
    bump_prepare_up p = .ok (Spec.prepareUp p.start p.«end» p.layout.size p.layout.align) := by
  have hdav := debug_assert_valid_eq h
  have hf := Valid.facts h
  unfold bump_prepare_up
  rw [mca, hdav]
  simp only [ok_bind]
  obtain ⟨s, e, m, ⟨sz, a⟩, aic, sic, smoa⟩ := p
  simp only at hf ⊢
  clear hdav h
  obtain ⟨hm, hm16, hm16d, ha, ha64, hap, hmp, hs0, he0, hs64, he64, hsz, htr, h16, hr⟩ := hf
  simp only [↓reduceIte] at hr
  have hE1 := downAlign_dvd e a
  have hE2 := downAlign_le e a
  have hE3 := lt_downAlign_add e hap
  have hS1 := upAlign_dvd s a
  have hS2 := le_upAlign s hap
  have hS3 := upAlign_lt s hap
  have hS4 : ∀ q, a ∣ q → s ≤ q → Spec.upAlign s a ≤ q := fun q h1 h2 => upAlign_le_of_dvd hap h1 h2
  have hE4 : ∀ q, a ∣ q → q ≤ e → q ≤ Spec.downAlign e a := fun q h1 h2 => le_downAlign_of_dvd hap h1 h2
  have hE64 : Spec.downAlign e a + a ≤ 2 ^ 64 :=
    add_le_of_dvd_of_lt hE1 (ha.dvd_two_pow_64 ha64) (by omega)
  unfold Spec.prepareUp
  trace_state
  sorry
end Lemmas
