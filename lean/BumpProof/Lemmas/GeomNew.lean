/-
  Lemmas/GeomNew.lean — chunk creation: `newChunk`, `newChunkForCapacity`, `appendFor` as
  wide-integer specifications, and the invariant of the states they produce.
-/
import BumpProof.Lemmas.GeomPos
import BumpProof.Props.C12

set_option linter.unusedSimpArgs false
set_option linter.unusedVariables false

namespace Arena
open Rs Lemmas

section
variable {cfg : Cfg} {s : State}

theorem sizeCfg_eq (cfg : Cfg) : sizeCfg cfg = Spec.mkCfg cfg.up cfg.hdr := rfl

/-- the chunk `NonDummyChunk::new` builds in the block `[p, p+g)` -/
def freshChunk (cfg : Cfg) (p g size : Nat) : Chunk :=
  { base := p, size := Spec.downAlign g (Spec.sizeAlign cfg.up cfg.hdr),
    pos := if cfg.up then p + cfg.hdr.size else p + Spec.downAlign g (Spec.sizeAlign cfg.up cfg.hdr) - cfg.hdr.size,
    granted := g, reqSize := size, data := Array.replicate (Spec.downAlign g (Spec.sizeAlign cfg.up cfg.hdr)) 0xAA }

/-- `newChunk` without the generated code: the only faults are a missing response and a granted
    block that is smaller than requested -/
def newChunkSpec (cfg : Cfg) (s : State) (size : Nat) : R (State × Except AErr Nat) :=
  if !layoutOk size cfg.hdr.align then .ok (s, .error .capacityOverflow) else
  match s.resps with
  | [] => .error .noResp
  | .fail :: rest =>
    .ok ({ s with reqs := s.reqs ++ [BaseReq.alloc size cfg.hdr.align], resps := rest }, .error .alloc)
  | .granted p g :: rest =>
    if size ≤ Spec.downAlign g (Spec.sizeAlign cfg.up cfg.hdr) then
      .ok ({ s with reqs := s.reqs ++ [BaseReq.alloc size cfg.hdr.align], resps := rest,
                    chunks := s.chunks ++ [freshChunk cfg p g size] }, .ok s.chunks.length)
    else .error (.rs .assertion)

theorem newChunk_eq (hc : CfgOK cfg) (hr : RespsOK cfg s) (size : Nat) :
    newChunk cfg s size = newChunkSpec cfg s size := by
  unfold newChunk newChunkSpec
  split
  · rfl
  · cases hrs : s.resps with
    | nil => simp only [hrs]; rfl
    | cons r rest =>
      cases r with
      | fail => simp only [hrs]; rfl
      | granted p g =>
        have hg : RespGeomOK cfg (.granted p g) := hr _ (by rw [hrs]; exact List.mem_cons_self)
        obtain ⟨hg1, hg2, hg3⟩ := hg
        have hg64 : g < 2 ^ 64 := by
          have : (2:Nat) ^ 63 < 2 ^ 64 := by decide
          omega
        have h16 : 16 ∣ Spec.downAlign g (Spec.sizeAlign cfg.up cfg.hdr) :=
          Nat.dvd_trans (Lemmas.Size.sizeAlign_16_dvd hc.hdr cfg.up) (Lemmas.Size.downAlign_dvd _ _)
        simp only [hrs, sizeCfg_eq, C12.align_size_eq cfg.up cfg.hdr hc.hdr g hg64, liftM_ok, r_ok_bind]
        by_cases hle : size ≤ Spec.downAlign g (Spec.sizeAlign cfg.up cfg.hdr)
        · rw [if_pos hle]
          have h1 : Rs.assert (decide (Spec.downAlign g (Spec.sizeAlign cfg.up cfg.hdr) ≥ size)) = .ok () :=
            assert_dec hle
          have h2 : Rs.assert (decide (Spec.downAlign g (Spec.sizeAlign cfg.up cfg.hdr) % 16 = 0)) = .ok () :=
            assert_dec (Nat.mod_eq_zero_of_dvd h16)
          simp only [h1, h2, liftM_ok, r_ok_bind]
          rfl
        · rw [if_neg hle]
          have h1 : Rs.assert (decide (Spec.downAlign g (Spec.sizeAlign cfg.up cfg.hdr) ≥ size)) = .error .assertion := by
            unfold Rs.assert
            rw [if_neg (by simpa using hle)]
            rfl
          simp only [h1]
          rfl

/-! ## The fresh chunk -/

theorem freshChunk_wf (hc : CfgOK cfg) {p g size : Nat} (hg : RespGeomOK cfg (.granted p g))
    (hsz : cfg.hdr.size ≤ size) (hle : size ≤ Spec.downAlign g (Spec.sizeAlign cfg.up cfg.hdr)) :
    ChunkWF cfg (freshChunk cfg p g size) ∧ 16 ∣ (freshChunk cfg p g size).pos ∧
      (freshChunk cfg p g size).pos = ((freshChunk cfg p g size).resetPos cfg).pos := by
  obtain ⟨hg1, hg2, hg3⟩ := hg
  have h16 : 16 ∣ Spec.downAlign g (Spec.sizeAlign cfg.up cfg.hdr) :=
    Nat.dvd_trans (Lemmas.Size.sizeAlign_16_dvd hc.hdr cfg.up) (Lemmas.Size.downAlign_dvd _ _)
  have hleg : Spec.downAlign g (Spec.sizeAlign cfg.up cfg.hdr) ≤ g := Lemmas.Size.downAlign_le _ _
  have h63 : (2:Nat) ^ 63 = 9223372036854775808 := by decide
  have hp16 : 16 ∣ p := Nat.dvd_trans (hdr_16 hc) hg1
  have hh16 := hdr_size_16 hc
  have hal : cfg.up = false → cfg.hdr.align ∣ Spec.downAlign g (Spec.sizeAlign cfg.up cfg.hdr) := by
    intro hup
    have hd := Lemmas.Size.downAlign_dvd g (Spec.sizeAlign cfg.up cfg.hdr)
    rcases Lemmas.Size.sizeAlign_cases hc.hdr cfg.up with ⟨hx, he⟩ | ⟨_, he⟩
    · rcases hx with hx | hx
      · rw [hup] at hx; cases hx
      · have := Lemmas.Size.hdr_ge hc.hdr
        have e16 : cfg.hdr.align = 16 := by omega
        rw [e16]; exact h16
    · rw [he] at hd ⊢; exact hd
  unfold freshChunk
  generalize Spec.downAlign g (Spec.sizeAlign cfg.up cfg.hdr) = S at *
  refine ⟨⟨h16, by show cfg.hdr.size ≤ S; omega, hg1, hg2, ?_, ?_, ?_, ?_, ?_, hal, hle, hleg⟩, ?_, ?_⟩
  · show p + S < 2 ^ 64
    rw [two_pow_64]; omega
  · show S ≤ Rs.IMAX
    rw [IMAX_eq]; omega
  · unfold Chunk.contentStart
    cases cfg.up <;> simp only [Bool.false_eq_true, ↓reduceIte] <;> omega
  · unfold Chunk.contentEnd
    cases cfg.up <;> simp only [Bool.false_eq_true, ↓reduceIte] <;> omega
  · show (Array.replicate _ _).size = _
    rw [Array.size_replicate]
  · cases cfg.up <;> simp only [Bool.false_eq_true, ↓reduceIte] <;> omega
  · unfold Chunk.resetPos Chunk.contentStart Chunk.contentEnd
    cases cfg.up <;> simp only [Bool.false_eq_true, ↓reduceIte]

theorem RespsOK.tail {rest : List BaseResp} {r : BaseResp} (hr : RespsOK cfg s) (hrs : s.resps = r :: rest)
    {s' : State} (hs' : s'.resps = rest) : RespsOK cfg s' := by
  intro x hx
  rw [hs'] at hx
  exact hr x (by rw [hrs]; exact List.mem_cons_of_mem _ hx)

/-! ## How the chunk list and the pending responses evolve -/

/-- nothing new (up to positions and bytes; possibly a refusal was consumed), or exactly one new chunk
    inside the block the base allocator just granted (that response was consumed) -/
def Trace (s s' : State) : Prop :=
  (SameShape s s' ∧ (s'.resps = s.resps ∨ s.resps = .fail :: s'.resps)) ∨
  (∃ p g c, s.resps = .granted p g :: s'.resps ∧ c.base = p ∧ c.size ≤ g ∧
     s'.chunks.map Chunk.shape = s.chunks.map Chunk.shape ++ [Chunk.shape c])

theorem Trace.refl (s : State) : Trace s s := Or.inl ⟨SameShape.refl s, Or.inl rfl⟩

theorem Trace.of_shape {s s' : State} (h : SameShape s s') (hr : s'.resps = s.resps) : Trace s s' :=
  Or.inl ⟨h, Or.inl hr⟩

theorem Trace.pre {a b c : State} (h : SameShape a b) (hr : b.resps = a.resps) (t : Trace b c) : Trace a c := by
  rcases t with ⟨t1, t2⟩ | ⟨p, g, ch, t1, t2, t3, t4⟩
  · refine Or.inl ⟨h.trans t1, ?_⟩
    rcases t2 with t2 | t2
    · exact Or.inl (t2.trans hr)
    · exact Or.inr (hr ▸ t2)
  · refine Or.inr ⟨p, g, ch, hr ▸ t1, t2, t3, ?_⟩
    have : b.chunks.map Chunk.shape = a.chunks.map Chunk.shape := h
    rw [t4, this]

theorem Trace.post {a b c : State} (t : Trace a b) (h : SameShape b c) (hr : c.resps = b.resps) : Trace a c := by
  rcases t with ⟨t1, t2⟩ | ⟨p, g, ch, t1, t2, t3, t4⟩
  · refine Or.inl ⟨t1.trans h, ?_⟩
    rcases t2 with t2 | t2
    · exact Or.inl (hr.trans t2)
    · exact Or.inr (by rw [hr]; exact t2)
  · refine Or.inr ⟨p, g, ch, by rw [hr]; exact t1, t2, t3, ?_⟩
    have : c.chunks.map Chunk.shape = b.chunks.map Chunk.shape := h
    rw [this, t4]

theorem newChunkSpec_trace {size : Nat} {s' : State} {r : Except AErr Nat}
    (he : newChunkSpec cfg s size = .ok (s', r)) : Trace s s' := by
  unfold newChunkSpec at he
  split at he
  · cases he; exact Trace.refl _
  · split at he
    · cases he
    · rename_i rest hrs
      cases he
      exact Or.inl ⟨SameShape.refl _, Or.inr hrs⟩
    · rename_i p g rest hrs
      split at he
      · cases he
        refine Or.inr ⟨p, g, freshChunk cfg p g size, hrs, rfl, Lemmas.Size.downAlign_le _ _, ?_⟩
        simp only [List.map_append, List.map_cons, List.map_nil]
      · cases he

/-- appending a well-formed chunk keeps the invariant -/
theorem GeomInv.append (h : GeomInv cfg s) {c : Chunk} (hw : ChunkWF cfg c) {s' : State}
    (hch : s'.chunks = s.chunks ++ [c]) (hcur : s'.cur = s.cur) (hma : s'.minAlign = s.minAlign) : GeomInv cfg s' := by
  refine ⟨?_, hma ▸ h.minAlign, ?_⟩
  · intro j d hj
    rw [hch, List.getElem?_append] at hj
    split at hj
    · exact h.chunks j d hj
    · have : d = c := by
        cases hjj : j - s.chunks.length with
        | zero => rw [hjj] at hj; simp at hj; exact hj.symm
        | succ n => rw [hjj] at hj; simp at hj
      rw [this]; exact hw
  · intro j hj
    rw [hcur] at hj
    obtain ⟨d, hd, hdiv⟩ := h.cur j hj
    refine ⟨d, ?_, hma ▸ hdiv⟩
    rw [hch, List.getElem?_append, if_pos (List.getElem?_eq_some_iff.1 hd).1]
    exact hd

/-- everything the callers need about a successful `newChunk` -/
theorem newChunkSpec_ok (hc : CfgOK cfg) (h : GeomInv cfg s) (hr : RespsOK cfg s) {size : Nat}
    (hsz : cfg.hdr.size ≤ size) {s' : State} {r : Except AErr Nat} (he : newChunkSpec cfg s size = .ok (s', r)) :
    GeomInv cfg s' ∧ RespsOK cfg s' ∧ s'.cur = s.cur ∧ s'.minAlign = s.minAlign ∧
    (∀ e, r = .error e → s'.chunks = s.chunks) ∧
    (∀ i, r = .ok i → i = s.chunks.length ∧ ∃ p g rest, s.resps = .granted p g :: rest ∧ RespGeomOK cfg (.granted p g) ∧
        size ≤ Spec.downAlign g (Spec.sizeAlign cfg.up cfg.hdr) ∧ s'.chunks = s.chunks ++ [freshChunk cfg p g size]) := by
  unfold newChunkSpec at he
  split at he
  · cases he
    exact ⟨h, hr, rfl, rfl, fun _ _ => rfl, fun i hi => by cases hi⟩
  · split at he
    · cases he
    · rename_i rest hrs
      cases he
      exact ⟨⟨h.chunks, h.minAlign, h.cur⟩, hr.tail hrs rfl, rfl, rfl, fun _ _ => rfl, fun i hi => by cases hi⟩
    · rename_i p g rest hrs
      have hg : RespGeomOK cfg (.granted p g) := hr _ (by rw [hrs]; exact List.mem_cons_self)
      split at he
      · rename_i hle
        cases he
        have hw := freshChunk_wf hc hg hsz hle
        refine ⟨h.append hw.1 rfl rfl rfl, hr.tail hrs rfl, rfl, rfl, fun e he => (by cases he), ?_⟩
        intro i hi
        cases hi
        exact ⟨rfl, p, g, rest, hrs, hg, hle, rfl⟩
      · cases he

/-- with a pending correct response `newChunk` does not fault -/
theorem newChunkSpec_noFault (hc : CfgOK cfg) {size : Nat} (hd : Spec.sizeAlign cfg.up cfg.hdr ∣ size)
    (hh : HeadOK cfg s size) : ∃ s' r, newChunkSpec cfg s size = .ok (s', r) := by
  obtain ⟨r, rest, hrs, hok⟩ := hh
  unfold newChunkSpec
  split
  · exact ⟨_, _, rfl⟩
  · rw [hrs]
    cases r with
    | fail => exact ⟨_, _, rfl⟩
    | granted p g =>
      obtain ⟨h1, h2, h3, h4⟩ := hok
      have hle : size ≤ Spec.downAlign g (Spec.sizeAlign cfg.up cfg.hdr) :=
        Lemmas.Size.le_downAlign_of_dvd (Lemmas.Size.sizeAlign_pos hc.hdr cfg.up) hd h1
      simp only [hle, ↓reduceIte]
      exact ⟨_, _, rfl⟩

/-! ## Size computations of the slow path -/

theorem ite_gt_eq_max (a b : Nat) : (if a > b then a else b) = Nat.max a b := by
  rw [Lemmas.Size.natmax]; split <;> omega

theorem calcSize_eq (hc : CfgOK cfg) {hint : Nat} (hh : hint < 2 ^ 64) :
    calcSize cfg hint = .ok (Spec.calcSize cfg.up cfg.hdr (Nat.max hint cfg.minChunk)) := by
  unfold calcSize
  have hm := hc.minChunk
  have hlt : Nat.max hint cfg.minChunk < 2 ^ 64 := by rw [Lemmas.Size.natmax]; omega
  simp only [ite_gt_eq_max, sizeCfg_eq, C12.calc_size_from_hint_eq cfg.up cfg.hdr hc.hdr _ hlt, liftM_ok]

theorem specCalcSize_none_of_ge (cfg : Cfg) (hc : CfgOK cfg) {hint : Nat} (hh : 2 ^ 64 ≤ hint) :
    Spec.calcSize cfg.up cfg.hdr hint = none :=
  (C12.calcSize_none_iff cfg.up cfg.hdr hint).2 (Nat.le_trans hh (Lemmas.calcSizeRaw_ge cfg.hdr hc.hdr hint).1)

/-- `ChunkSize::from_capacity` + `NonDummyChunk::new` -/
theorem newChunkForCapacity_eq (hc : CfgOK cfg) {L : Layout} (hL : L.Valid) :
    newChunkForCapacity cfg s L =
      match Spec.calcSize cfg.up cfg.hdr (Nat.max (Spec.hintFromCapacity cfg.up cfg.hdr L) cfg.minChunk) with
      | none => .ok (s, .error .capacityOverflow)
      | some size => newChunk cfg s size := by
  unfold newChunkForCapacity
  simp only [sizeCfg_eq, C12.calc_hint_from_capacity_eq cfg.up cfg.hdr hc.hdr L hL, liftM_ok, r_ok_bind]
  by_cases hlt : Spec.hintFromCapacity cfg.up cfg.hdr L < 2 ^ 64
  · simp only [hlt, ↓reduceIte, calcSize_eq hc hlt, r_ok_bind]
    cases Spec.calcSize cfg.up cfg.hdr (Nat.max (Spec.hintFromCapacity cfg.up cfg.hdr L) cfg.minChunk) <;> rfl
  · have hn : Spec.calcSize cfg.up cfg.hdr (Nat.max (Spec.hintFromCapacity cfg.up cfg.hdr L) cfg.minChunk) = none :=
      specCalcSize_none_of_ge cfg hc (by rw [Lemmas.Size.natmax]; omega)
    simp only [hlt, ↓reduceIte, hn]
    rfl

/-- `NonDummyChunk::append_for`: the hint is `max(required, 2 * last size)` -/
theorem appendFor_eq (hc : CfgOK cfg) {L : Layout} (hL : L.Valid) {last : Chunk} (hlast : s.chunks.getLast? = some last) :
    appendFor cfg s L =
      match Spec.calcSize cfg.up cfg.hdr
          (Nat.max (Nat.max (Spec.hintFromCapacity cfg.up cfg.hdr L) (2 * last.size)) cfg.minChunk) with
      | none => .ok (s, .error .capacityOverflow)
      | some size => newChunk cfg s size := by
  unfold appendFor
  simp only [hlast, sizeCfg_eq, C12.calc_hint_from_capacity_eq cfg.up cfg.hdr hc.hdr L hL, liftM_ok, r_ok_bind]
  by_cases hlt : Spec.hintFromCapacity cfg.up cfg.hdr L < 2 ^ 64
  · simp only [hlt, ↓reduceIte]
    unfold Rs.checked_mul
    by_cases hm : last.size * 2 ≤ Rs.MAX
    · simp only [hm, ↓reduceIte, ite_gt_eq_max]
      have hm' : last.size * 2 < 2 ^ 64 := by rw [MAX_eq] at hm; rw [two_pow_64]; omega
      have hlt2 : Nat.max (Spec.hintFromCapacity cfg.up cfg.hdr L) (last.size * 2) < 2 ^ 64 := by
        rw [Lemmas.Size.natmax]; omega
      rw [calcSize_eq hc hlt2, Nat.mul_comm last.size 2]
      simp only [r_ok_bind]
      cases Spec.calcSize cfg.up cfg.hdr
        (Nat.max (Nat.max (Spec.hintFromCapacity cfg.up cfg.hdr L) (2 * last.size)) cfg.minChunk) <;> rfl
    · have hn : Spec.calcSize cfg.up cfg.hdr
          (Nat.max (Nat.max (Spec.hintFromCapacity cfg.up cfg.hdr L) (2 * last.size)) cfg.minChunk) = none :=
        specCalcSize_none_of_ge cfg hc (by rw [MAX_eq] at hm; rw [Lemmas.Size.natmax, Lemmas.Size.natmax, two_pow_64]; omega)
      simp only [hm, ↓reduceIte, hn]
      rfl
  · have hn : Spec.calcSize cfg.up cfg.hdr
        (Nat.max (Nat.max (Spec.hintFromCapacity cfg.up cfg.hdr L) (2 * last.size)) cfg.minChunk) = none :=
      specCalcSize_none_of_ge cfg hc (by rw [Lemmas.Size.natmax, Lemmas.Size.natmax]; omega)
    simp only [hlt, ↓reduceIte, hn]
    rfl

/-! ## Post-conditions of the three chunk-creating functions -/

/-- what `newChunk` / `newChunkForCapacity` / `appendFor` leave behind -/
structure NewPost (cfg : Cfg) (s s' : State) (r : Except AErr Nat) : Prop where
  inv : GeomInv cfg s'
  resps : RespsOK cfg s'
  cur : s'.cur = s.cur
  minAlign : s'.minAlign = s.minAlign
  err : ∀ e, r = .error e → s'.chunks = s.chunks
  /-- success: exactly one chunk was appended, `r` is its index, its position is the reset position -/
  ok : ∀ i, r = .ok i → i = s.chunks.length ∧
    ∃ c, s'.chunks = s.chunks ++ [c] ∧ 16 ∣ c.pos ∧ c.pos = (c.resetPos cfg).pos
  trace : Trace s s'

theorem newChunk_post (hc : CfgOK cfg) (h : GeomInv cfg s) (hr : RespsOK cfg s) {size : Nat}
    (hsz : cfg.hdr.size ≤ size) {s' : State} {r : Except AErr Nat} (he : newChunk cfg s size = .ok (s', r)) :
    NewPost cfg s s' r ∧ (∀ i, r = .ok i → ∃ c, s'.chunks[i]? = some c ∧ size ≤ c.size) := by
  rw [newChunk_eq hc hr] at he
  obtain ⟨g1, g2, g3, g4, g5, g6⟩ := newChunkSpec_ok hc h hr hsz he
  refine ⟨⟨g1, g2, g3, g4, g5, ?_, newChunkSpec_trace he⟩, ?_⟩
  · intro i hi
    obtain ⟨e1, p, g, rest, hrs, hg, hle, hch⟩ := g6 i hi
    have hw := freshChunk_wf hc hg hsz hle
    exact ⟨e1, _, hch, hw.2.1, hw.2.2⟩
  · intro i hi
    obtain ⟨e1, p, g, rest, hrs, hg, hle, hch⟩ := g6 i hi
    refine ⟨freshChunk cfg p g size, ?_, hle⟩
    rw [hch, e1, List.getElem?_append, if_neg (Nat.lt_irrefl _), Nat.sub_self]; rfl

theorem newChunk_noFault (hc : CfgOK cfg) (hr : RespsOK cfg s) {size : Nat}
    (hd : Spec.sizeAlign cfg.up cfg.hdr ∣ size) (hh : HeadOK cfg s size) :
    ∃ s' r, newChunk cfg s size = .ok (s', r) := by
  rw [newChunk_eq hc hr]
  exact newChunkSpec_noFault hc hd hh

/-- making the chunk that was just created current -/
theorem NewPost.withCur {s s' : State} {i : Nat} (p : NewPost cfg s s' (.ok i)) :
    GeomInv cfg { s' with cur := .chunk i } := by
  obtain ⟨e1, c, hch, h16, _⟩ := p.ok i rfl
  have hget : s'.chunks[i]? = some c := by
    rw [hch, e1, List.getElem?_append, if_neg (Nat.lt_irrefl _), Nat.sub_self]; rfl
  exact p.inv.withCur hget (p.inv.minAlign.dvd_of_16 h16)

theorem newChunkForCapacity_post (hc : CfgOK cfg) (h : GeomInv cfg s) (hr : RespsOK cfg s) {L : Layout} (hL : L.Valid) :
    (∀ s' r, newChunkForCapacity cfg s L = .ok (s', r) → NewPost cfg s s' r) ∧
    ((∀ size, Spec.calcSize cfg.up cfg.hdr (Nat.max (Spec.hintFromCapacity cfg.up cfg.hdr L) cfg.minChunk) = some size →
        HeadOK cfg s size) → ∃ s' r, newChunkForCapacity cfg s L = .ok (s', r)) := by
  rw [newChunkForCapacity_eq hc hL]
  cases hs : Spec.calcSize cfg.up cfg.hdr (Nat.max (Spec.hintFromCapacity cfg.up cfg.hdr L) cfg.minChunk) with
  | none =>
    refine ⟨?_, fun _ => ⟨_, _, rfl⟩⟩
    intro s' r he
    cases he
    exact ⟨h, hr, rfl, rfl, fun _ _ => rfl, fun i hi => (by cases hi), Trace.refl _⟩
  | some size =>
    obtain ⟨_, hsa, hsz, _, _⟩ := C12.calcSize_some hc.hdr hs
    exact ⟨fun s' r he => (newChunk_post hc h hr hsz he).1, fun hb => newChunk_noFault hc hr hsa (hb size rfl)⟩

theorem appendFor_post (hc : CfgOK cfg) (h : GeomInv cfg s) (hr : RespsOK cfg s) {L : Layout} (hL : L.Valid)
    {last : Chunk} (hlast : s.chunks.getLast? = some last) :
    (∀ s' r, appendFor cfg s L = .ok (s', r) → NewPost cfg s s' r) ∧
    ((∀ size, Spec.calcSize cfg.up cfg.hdr
        (Nat.max (Nat.max (Spec.hintFromCapacity cfg.up cfg.hdr L) (2 * last.size)) cfg.minChunk) = some size →
        HeadOK cfg s size) → ∃ s' r, appendFor cfg s L = .ok (s', r)) := by
  rw [appendFor_eq hc hL hlast]
  cases hs : Spec.calcSize cfg.up cfg.hdr
      (Nat.max (Nat.max (Spec.hintFromCapacity cfg.up cfg.hdr L) (2 * last.size)) cfg.minChunk) with
  | none =>
    refine ⟨?_, fun _ => ⟨_, _, rfl⟩⟩
    intro s' r he
    cases he
    exact ⟨h, hr, rfl, rfl, fun _ _ => rfl, fun i hi => (by cases hi), Trace.refl _⟩
  | some size =>
    obtain ⟨_, hsa, hsz, _, _⟩ := C12.calcSize_some hc.hdr hs
    exact ⟨fun s' r he => (newChunk_post hc h hr hsz he).1, fun hb => newChunk_noFault hc hr hsa (hb size rfl)⟩

end
end Arena
