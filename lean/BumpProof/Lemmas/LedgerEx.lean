/-
  Lemmas/LedgerEx.lean — concrete configurations and states used by the non-vacuity `example`s of
  Props/C05, C07, C03 (all facts about them are checked by evaluation).
-/
import BumpProof.Lemmas.LedgerScope

namespace Ledger.Ex
open Arena Rs

/-- header of `Bump<Global>` -/
def H0 : Layout := { size := 32, align := 16 }
/-- upwards bumping, `MIN_ALIGN = 8`, not guaranteed allocated -/
def cfg0 : Cfg := { up := true, minAlign0 := 8, ga := false, claimable := true, deallocates := true,
                    shrinks := true, minChunk := 512, hdr := H0 }
/-- the same bumping downwards -/
def cfgDown : Cfg := { cfg0 with up := false }
def ch (b sz pos : Nat) : Chunk := { base := b, size := sz, pos := pos, granted := sz, reqSize := sz, data := #[] }
/-- two chunks (content ranges `[4128,4592)` and `[8224,9200)`), the first one current with 72 bytes allocated -/
def s2 : State := { chunks := [ch 4096 496 4200, ch 8192 1008 8224], cur := .chunk 0, minAlign := 8, frames := [],
                    live := [], nextId := 0, userCps := [], prepared := none, resps := [], reqs := [], dropped := false }
/-- `s2` after more allocations: the second chunk is current -/
def s2later : State := { s2 with chunks := [ch 4096 496 4592, ch 8192 1008 8400], cur := .chunk 1 }
/-- one full chunk; the base allocator refuses the next request -/
def sFull : State := { s2 with chunks := [ch 4096 496 4592], resps := [.fail] }
/-- a fresh unallocated arena whose first request is refused -/
def sUnalloc : State := { initState cfg0 with resps := [.fail] }
/-- a claimed handle -/
def sClaimed : State := { s2 with cur := .claimed }
def L100 : Layout := { size := 100, align := 8 }

theorem hH0 : Spec.HeaderOK cfg0.hdr := ⟨⟨4, by decide, by decide, by decide⟩, by decide, by decide, by decide⟩
theorem hL100 : L100.Valid := ⟨⟨3, by decide, rfl⟩, by decide⟩
theorem hmin0 : cfg0.minChunk < 2^64 := by decide

/-- the fast path finds no room in the full chunk (evaluation of the generated `bump_up`) -/
theorem sFull_fast : tryCur cfg0 .alloc sFull L100 Hints.custom = .ok none := rfl
/-- … and there is no later chunk -/
theorem sFull_walk : ∀ i, sFull.cur = .chunk i → i < sFull.chunks.length ∧
    ∃ s1, walkNext cfg0 .alloc L100 Hints.custom (sFull.chunks.length - (i+1)) i sFull = .ok (none, s1) := by
  intro i hi
  cases hi
  exact ⟨by decide, sFull, rfl⟩
/-- the fast path of a claimed handle fails (dummy chunk) -/
theorem sClaimed_fast : tryCur cfg0 .alloc sClaimed L100 Hints.custom = .ok none := rfl

end Ledger.Ex
