/-
  Lemmas/SizeEq.lean — proofs behind Props/C12.lean.
-/
import BumpProof.Gen.SizeConfig
import BumpProof.Spec.Size
import BumpProof.Lemmas.SizeSpec

namespace Lemmas
open Gen.SizeConfig Rs Spec

theorem align_size_eq (up : Bool) (H : Layout) (hH : HeaderOK H) (g : Nat) (hg : g < 2^64) :
    align_size (mkCfg up H) g = .ok (downAlign g (sizeAlign up H)) := by
  unfold align_size
  cases up
  · simp only [mkCfg, Bool.false_eq_true, ↓reduceIte, Size.max_eq, MIN_CHUNK_ALIGN, bind, Except.bind]
    rw [Size.down_align_eq (Size.P2.max ⟨4, rfl⟩ (Size.hdr_p2 hH)) (by
      have := Size.hdr_le hH; rw [Size.natmax, Size.two_pow_64]; omega) hg]
    rfl
  · simp only [mkCfg, ↓reduceIte, MIN_CHUNK_ALIGN]
    rw [Size.down_align_eq ⟨4, rfl⟩ (by decide) hg]
    rfl

theorem calc_size_from_hint_eq (up : Bool) (H : Layout) (hH : HeaderOK H) (hint : Nat) (hh : hint < 2^64) :
    calc_size_from_hint (mkCfg up H) hint = .ok (calcSize up H hint) := by
  have _ := hh
  unfold calc_size_from_hint
  delta mkCfg
  have eh : Nat.max hint (minSize H) = Size.hOf H hint := rfl
  have es : Nat.max 4096 H.align = Size.stepOf H := rfl
  simp only [Size.oal_overhead, Size.oal_header hH, Size.max_eq, ASSUMED_PAGE_SIZE, bind, Except.bind, pure,
    Except.pure, eh, es]
  -- facts about the raw size
  have hApos := (Size.hdr_p2 hH).pos
  have hSpos := (Size.step_p2 hH).pos
  have hmin := Size.minSize_eq hH
  have hge := Size.raw_ge hH hint
  have hsz := hH.ge
  have hA16 := Size.hdr_ge hH
  by_cases hr : calcSizeRaw H hint < 2 ^ 64
  · -- the head computes `some raw` in both branches
    have e1 : Size.hOf H hint < Size.stepOf H →
        checked_next_power_of_two (Size.hOf H hint) = some (calcSizeRaw H hint) := by
      intro hlt
      unfold checked_next_power_of_two
      have : npotFrom (Size.hOf H hint) 64 1 = calcSizeRaw H hint := by
        rw [Size.calcSizeRaw_def, if_pos hlt]; rfl
      simp only [this]
      rw [if_pos (by unfold Rs.MAX; omega)]
    have e2 : ¬ Size.hOf H hint < Size.stepOf H →
        up_align (Size.hOf H hint) (Size.stepOf H) = .ok (some (calcSizeRaw H hint)) := by
      intro hlt
      rw [Size.up_align_eq (Size.step_p2 hH) (Size.step_lt64 hH)]
      have : upAlign (Size.hOf H hint) (Size.stepOf H) = calcSizeRaw H hint := by
        rw [Size.calcSizeRaw_def, if_neg hlt]
      rw [this, if_pos hr]
    -- the checks and the final adjustment
    have f1 : rem (calcSizeRaw H hint) H.align = .ok 0 := by
      rw [Size.rem_ok (by omega), Nat.mod_eq_zero_of_dvd (Size.raw_dvd hH hint)]
    have f2 : assert true = .ok () := rfl
    have f3 : assert (decide (calcSizeRaw H hint ≥ minSize H)) = .ok () :=
      Size.assert_ok (decide_eq_true hge.2)
    have f4 : calcSizeRaw H hint < Size.stepOf H → assert (is_power_of_two (calcSizeRaw H hint)) = .ok () :=
      fun h => Size.assert_ok (Size.raw_lt_step hH h).is_power_of_two
    have f5 : ¬ calcSizeRaw H hint < Size.stepOf H → rem (calcSizeRaw H hint) (Size.stepOf H) = .ok 0 := by
      intro h
      rw [Size.rem_ok (by omega), Nat.mod_eq_zero_of_dvd (Size.raw_ge_step hH (by omega))]
    have f6 : sub (calcSizeRaw H hint) 16 = .ok (calcSizeRaw H hint - 16) := Size.sub_ok (by omega)
    have f7 := align_size_eq up H hH (calcSizeRaw H hint - 16) (by omega)
    unfold mkCfg at f7
    by_cases hlt : Size.hOf H hint < Size.stepOf H
    all_goals first
      | simp only [hlt, decide_true, ↓reduceIte, e1 hlt, f1, f2, f3]
      | simp only [hlt, decide_true, decide_false, Bool.false_eq_true, ↓reduceIte, e2 hlt, f1, f2, f3]
    all_goals by_cases hs : calcSizeRaw H hint < Size.stepOf H
    all_goals first
      | simp only [hs, decide_true, ↓reduceIte, f4 hs]
      | simp only [hs, decide_true, decide_false, Bool.false_eq_true, ↓reduceIte, f5 hs, f2]
    all_goals
      rcases Size.calcSize_cases hH up hint with ⟨h1, _⟩ | ⟨_, hc, hsa, he⟩ | ⟨_, hc, hsa, he⟩
      · omega
      · have : (up || decide (H.align ≤ MIN_CHUNK_ALIGN)) = true := by
          rcases hc with hc | hc
          · rw [hc]; rfl
          · rw [Bool.or_eq_true]; right; exact decide_eq_true hc
        rw [if_pos this]
        simp only [f6, f7, hsa, he]
        have h16 : 16 ∣ calcSizeRaw H hint - 16 := Nat.dvd_sub (Size.raw_16_dvd hH hint) (Nat.dvd_refl 16)
        rw [Size.downAlign_eq_self h16]
        have hne : ¬ (calcSizeRaw H hint - 16 = 0) := by omega
        unfold nonZero
        rw [if_neg hne]
      · have : ¬ (up || decide (H.align ≤ MIN_CHUNK_ALIGN)) = true := by
          rw [hc.1, Bool.false_or, decide_eq_true_eq]; unfold MIN_CHUNK_ALIGN; omega
        rw [if_neg this, he]
        have hne : ¬ (calcSizeRaw H hint = 0) := by omega
        unfold nonZero
        rw [if_neg hne]
  · -- overflow: only possible in the `up_align` branch
    have hlt : ¬ Size.hOf H hint < Size.stepOf H := by
      intro hlt
      have := Size.raw_le_step hH hlt
      have := Size.step_le hH
      rw [Size.two_pow_64] at hr
      omega
    have e2 : up_align (Size.hOf H hint) (Size.stepOf H) = .ok none := by
      rw [Size.up_align_eq (Size.step_p2 hH) (Size.step_lt64 hH)]
      have : upAlign (Size.hOf H hint) (Size.stepOf H) = calcSizeRaw H hint := by
        rw [Size.calcSizeRaw_def, if_neg hlt]
      rw [this, if_neg hr]
    simp only [hlt, decide_false, Bool.false_eq_true, ↓reduceIte, e2]
    rcases Size.calcSize_cases hH up hint with ⟨_, he⟩ | ⟨_, _⟩ | ⟨_, _⟩
    · rw [he]
    · omega
    · omega

theorem calc_hint_from_capacity_bytes_eq (up : Bool) (H : Layout) (hH : HeaderOK H) (bytes : Nat) (hb : bytes < 2^64) :
    calc_hint_from_capacity_bytes (mkCfg up H) bytes =
      .ok (if hintFromBytes up H bytes < 2^64 then some (hintFromBytes up H bytes) else none) := by
  have _ := hb
  unfold calc_hint_from_capacity_bytes
  delta mkCfg
  cases up
  · simp only [Size.oal_overhead, Size.checked_add_eq, MIN_CHUNK_ALIGN, bind, Except.bind, pure,
      Except.pure, Bool.false_eq_true, ↓reduceIte]
    have e : hintFromBytes false H bytes = upAlign (16 + bytes) H.align + H.size + 16 := rfl
    rw [e]
    by_cases h1 : 16 + bytes < 2 ^ 64
    · simp only [h1, ↓reduceIte, Size.offset_add_layout_eq (Size.hdr_p2 hH) (Size.hdr_lt64 hH)]
      by_cases h2 : upAlign (16 + bytes) H.align + H.size < 2 ^ 64
      · simp only [h2, ↓reduceIte]
        by_cases h3 : upAlign (16 + bytes) H.align + H.size + 16 < 2 ^ 64
        · simp only [h3, ↓reduceIte]
        · simp only [h3, ↓reduceIte]
      · have h3 : ¬ upAlign (16 + bytes) H.align + H.size + 16 < 2 ^ 64 := by omega
        simp only [h2, h3, ↓reduceIte]
    · have := Size.le_upAlign (16 + bytes) (Size.hdr_p2 hH).pos
      have h3 : ¬ upAlign (16 + bytes) H.align + H.size + 16 < 2 ^ 64 := by omega
      simp only [h1, h3, ↓reduceIte]
  · simp only [Size.oal_overhead, Size.oal_header hH, Size.checked_add_eq, MIN_CHUNK_ALIGN, bind, Except.bind,
      pure, Except.pure, ↓reduceIte]
    have e : hintFromBytes true H bytes = minSize H + bytes + 16 := rfl
    rw [e]
    by_cases h1 : minSize H + bytes < 2 ^ 64
    · simp only [h1, ↓reduceIte]
      by_cases h2 : minSize H + bytes + 16 < 2 ^ 64
      · simp only [h2, ↓reduceIte]
      · simp only [h2, ↓reduceIte]
    · have h2 : ¬ minSize H + bytes + 16 < 2 ^ 64 := by omega
      simp only [h1, h2, ↓reduceIte]

theorem calc_hint_from_capacity_eq (up : Bool) (H : Layout) (hH : HeaderOK H) (L : Layout) (hL : L.Valid) :
    calc_hint_from_capacity (mkCfg up H) L =
      .ok (if hintFromCapacity up H L < 2^64 then some (hintFromCapacity up H L) else none) := by
  unfold calc_hint_from_capacity
  have hlt : L.size + (L.align - H.align) < 2 ^ 64 := by
    have := hL.2
    unfold Rs.IMAX at this
    rw [Size.two_pow_64]
    have h63 : (2:Nat) ^ 63 = 9223372036854775808 := by decide
    omega
  have e : (mkCfg up H).chunk_header_layout = H := rfl
  simp only [e, Rs.saturating_sub, Size.checked_add_some hlt]
  rw [calc_hint_from_capacity_bytes_eq up H hH _ hlt]
  rfl

theorem calcSize_some {up : Bool} {H : Layout} (hH : HeaderOK H) {hint s : Nat}
    (h : calcSize up H hint = some s) :
    16 ∣ s ∧ sizeAlign up H ∣ s ∧ H.size ≤ s ∧ hint ≤ s + 16 ∧ s < 2^64 := by
  have hge := Size.raw_ge hH hint
  have hmin := Size.minSize_eq hH
  have hA16 := Size.hdr_ge hH
  have h16 := Size.raw_16_dvd hH hint
  rcases Size.calcSize_cases hH up hint with ⟨_, he⟩ | ⟨hr, _, hsa, he⟩ | ⟨hr, _, hsa, he⟩
  · rw [he] at h; cases h
  · rw [he] at h
    obtain rfl : calcSizeRaw H hint - 16 = s := Option.some.inj h
    have d : 16 ∣ calcSizeRaw H hint - 16 := Nat.dvd_sub h16 (Nat.dvd_refl 16)
    exact ⟨d, by rw [hsa]; exact d, by omega, by omega, by omega⟩
  · rw [he] at h
    obtain rfl : calcSizeRaw H hint = s := Option.some.inj h
    exact ⟨h16, by rw [hsa]; exact Size.raw_dvd hH hint, by omega, by omega, hr⟩

theorem calcSize_none_iff (up : Bool) (H : Layout) (hint : Nat) :
    calcSize up H hint = none ↔ 2^64 ≤ calcSizeRaw H hint := by
  by_cases hr : calcSizeRaw H hint ≥ 2 ^ 64
  · have : calcSize up H hint = none := by unfold calcSize; simp only [hr, ↓reduceIte]
    exact ⟨fun _ => hr, fun _ => this⟩
  · constructor
    · intro h
      unfold calcSize at h
      simp only [hr, ↓reduceIte] at h
      split at h <;> cases h
    · intro h; exact absurd h hr

theorem calcSizeRaw_ge (H : Layout) (hH : HeaderOK H) (hint : Nat) :
    hint ≤ calcSizeRaw H hint ∧ minSize H ≤ calcSizeRaw H hint :=
  Size.raw_ge hH hint

theorem align_size_fits {up : Bool} {H : Layout} (hH : HeaderOK H) {hint s g : Nat}
    (h : calcSize up H hint = some s) (hg : s ≤ g) :
    s ≤ downAlign g (sizeAlign up H) ∧ downAlign g (sizeAlign up H) ≤ g ∧
    16 ∣ downAlign g (sizeAlign up H) ∧ sizeAlign up H ∣ downAlign g (sizeAlign up H) := by
  obtain ⟨_, hd, _⟩ := calcSize_some hH h
  exact ⟨Size.le_downAlign_of_dvd (Size.sizeAlign_pos hH up) hd hg, Size.downAlign_le _ _,
    Nat.dvd_trans (Size.sizeAlign_16_dvd hH up) (Size.downAlign_dvd _ _), Size.downAlign_dvd _ _⟩

theorem calcSize_mono {up : Bool} {H : Layout} (hH : HeaderOK H) {h1 h2 s1 s2 : Nat} (hle : h1 ≤ h2)
    (e1 : calcSize up H h1 = some s1) (e2 : calcSize up H h2 = some s2) : s1 ≤ s2 := by
  have hm := Size.raw_mono hH hle
  rcases Size.calcSize_cases hH up h1 with ⟨_, he1⟩ | ⟨_, hc1, _, he1⟩ | ⟨_, hc1, _, he1⟩
  · rw [he1] at e1; cases e1
  · rcases Size.calcSize_cases hH up h2 with ⟨_, he2⟩ | ⟨_, _, _, he2⟩ | ⟨_, hc2, _, he2⟩
    · rw [he2] at e2; cases e2
    · rw [he1] at e1; rw [he2] at e2
      have := Option.some.inj e1
      have := Option.some.inj e2
      omega
    · exfalso
      rcases hc1 with h | h
      · rw [hc2.1] at h; cases h
      · omega
  · rcases Size.calcSize_cases hH up h2 with ⟨_, he2⟩ | ⟨_, hc2, _, he2⟩ | ⟨_, _, _, he2⟩
    · rw [he2] at e2; cases e2
    · exfalso
      rcases hc2 with h | h
      · rw [hc1.1] at h; cases h
      · omega
    · rw [he1] at e1; rw [he2] at e2
      have := Option.some.inj e1
      have := Option.some.inj e2
      omega

theorem grow_ge {up : Bool} {H : Layout} (hH : HeaderOK H) {prev req s : Nat}
    (h : calcSize up H (Nat.max req (2 * prev)) = some s) : 2 * prev ≤ s + 16 := by
  obtain ⟨_, _, _, hle, _⟩ := calcSize_some hH h
  rw [Size.natmax] at hle
  omega

theorem fresh_fits_up {H : Layout} (hH : HeaderOK H) {L : Layout} (hL : L.Valid) {ma : Nat}
    (hma : ma = 1 ∨ ma = 2 ∨ ma = 4 ∨ ma = 8 ∨ ma = 16)
    {hint s g p : Nat} (hhint : hintFromCapacity true H L ≤ hint)
    (hs : calcSize true H hint = some s) (hg : s ≤ g) (hp : H.align ∣ p) :
    let s' := downAlign g (sizeAlign true H)
    let r := freshRange true H p s'
    (∃ x, bumpUp r.1 r.2 L.size L.align ma = some x) ∧
    (L.align ∣ L.size → ∃ x, prepareUp r.1 r.2 L.size L.align = some x) := by
  have _ := hma
  intro s' r
  have hr1 : r.1 = p + H.size := rfl
  have hr2 : r.2 = p + s' := rfl
  have hLp2 : Size.P2 L.align := by obtain ⟨⟨k, _, hk⟩, _⟩ := hL; exact ⟨k, hk⟩
  -- the size leaves room for the header, the padding and the block
  have hhc : hintFromCapacity true H L = minSize H + (L.size + (L.align - H.align)) + 16 := rfl
  have hmin := Size.minSize_eq hH
  obtain ⟨_, _, _, hle, _⟩ := calcSize_some hH hs
  have hs' : s ≤ s' := (align_size_fits hH hs hg).1
  -- the aligned start is at most `L.align - H.align` above the end of the header
  have hptr : upAlign (p + H.size) L.align ≤ p + H.size + (L.align - H.align) :=
    Size.upAlign_le_p2 (Size.hdr_p2 hH) hLp2 ((Nat.dvd_add_right hp).2 hH.dvd)
  have hfit : upAlign (p + H.size) L.align + L.size ≤ p + s' := by omega
  rw [hr1, hr2]
  constructor
  · unfold bumpUp
    simp only []
    rw [if_pos hfit]
    exact ⟨_, rfl⟩
  · intro _
    unfold prepareUp
    simp only []
    rw [if_pos hfit]
    exact ⟨_, rfl⟩

theorem fresh_fits_down {H : Layout} (hH : HeaderOK H) {L : Layout} (hL : L.Valid) {ma : Nat}
    (hma : ma = 1 ∨ ma = 2 ∨ ma = 4 ∨ ma = 8 ∨ ma = 16)
    {hint s g p : Nat} (hhint : hintFromCapacity false H L ≤ hint)
    (hs : calcSize false H hint = some s) (hg : s ≤ g) (hp : H.align ∣ p) :
    let s' := downAlign g (sizeAlign false H)
    let r := freshRange false H p s'
    (∃ x, bumpDown r.1 r.2 L.size L.align ma = some x) ∧
    (L.align ∣ L.size → ∃ x, prepareDown r.1 r.2 L.size L.align = some x) := by
  intro s' r
  have hr1 : r.1 = p := rfl
  have hr2 : r.2 = p + s' - H.size := rfl
  have hLp2 : Size.P2 L.align := by obtain ⟨⟨k, _, hk⟩, _⟩ := hL; exact ⟨k, hk⟩
  have hmap2 : Size.P2 ma := by
    rcases hma with h | h | h | h | h <;> rw [h]
    · exact ⟨0, rfl⟩
    · exact ⟨1, rfl⟩
    · exact ⟨2, rfl⟩
    · exact ⟨3, rfl⟩
    · exact ⟨4, rfl⟩
  have hA16 := Size.hdr_ge hH
  have hApos := (Size.hdr_p2 hH).pos
  -- the size leaves room for 16 spare bytes, the header, the padding and the block
  have hhc : hintFromCapacity false H L =
      upAlign (16 + (L.size + (L.align - H.align))) H.align + H.size + 16 := rfl
  have hup := Size.le_upAlign (16 + (L.size + (L.align - H.align))) hApos
  have hs' : s ≤ s' := (align_size_fits hH hs hg).1
  have hroom : 16 + L.size + (L.align - H.align) + H.size ≤ s := by
    have hge := Size.raw_ge hH hint
    rcases Size.calcSize_cases hH false hint with ⟨_, he⟩ | ⟨_, _, _, he⟩ | ⟨_, _, _, he⟩
    · rw [he] at hs; cases hs
    · rw [he] at hs; have := Option.some.inj hs; omega
    · rw [he] at hs; have := Option.some.inj hs; omega
  rw [hr1, hr2]
  constructor
  · -- a multiple of `max L.align ma` within `L.align - H.align` above `p`
    have hM := Size.P2.max hLp2 hmap2
    have hq := Size.upAlign_le_p2 (Size.hdr_p2 hH) hM hp
    have hMle : Nat.max L.align ma - H.align ≤ L.align - H.align := by
      rw [Size.natmax]
      rcases hma with h | h | h | h | h <;> omega
    have hle : p ≤ downAlign (p + s' - H.size - L.size) (Nat.max L.align ma) :=
      Nat.le_trans (Size.le_upAlign p hM.pos)
        (Size.le_downAlign_of_dvd hM.pos (Size.upAlign_dvd _ _) (by omega))
    unfold bumpDown
    rw [if_pos (by omega)]
    simp only []
    rw [if_pos hle]
    exact ⟨_, rfl⟩
  · intro hdvd
    have hq := Size.upAlign_le_p2 (Size.hdr_p2 hH) hLp2 hp
    have hq2 := Size.le_upAlign p hLp2.pos
    have hle : p + L.size ≤ downAlign (p + s' - H.size) L.align :=
      Nat.le_trans (by omega : p + L.size ≤ upAlign p L.align + L.size)
        (Size.le_downAlign_of_dvd hLp2.pos ((Nat.dvd_add_right (Size.upAlign_dvd _ _)).2 hdvd) (by omega))
    unfold prepareDown
    simp only []
    rw [if_pos hle]
    exact ⟨_, rfl⟩

end Lemmas
