/-
  Lemmas/SizeEq.lean — proofs behind Props/C12.lean.
-/
import BumpProof.Gen.SizeConfig
import BumpProof.Spec.Size

namespace Lemmas
open Gen.SizeConfig Rs Spec

theorem align_size_eq (up : Bool) (H : Layout) (hH : HeaderOK H) (g : Nat) (hg : g < 2^64) :
    align_size (mkCfg up H) g = .ok (downAlign g (sizeAlign up H)) := by sorry

theorem calc_size_from_hint_eq (up : Bool) (H : Layout) (hH : HeaderOK H) (hint : Nat) (hh : hint < 2^64) :
    calc_size_from_hint (mkCfg up H) hint = .ok (calcSize up H hint) := by sorry

theorem calc_hint_from_capacity_bytes_eq (up : Bool) (H : Layout) (hH : HeaderOK H) (bytes : Nat) (hb : bytes < 2^64) :
    calc_hint_from_capacity_bytes (mkCfg up H) bytes =
      .ok (if hintFromBytes up H bytes < 2^64 then some (hintFromBytes up H bytes) else none) := by sorry

theorem calc_hint_from_capacity_eq (up : Bool) (H : Layout) (hH : HeaderOK H) (L : Layout) (hL : L.Valid) :
    calc_hint_from_capacity (mkCfg up H) L =
      .ok (if hintFromCapacity up H L < 2^64 then some (hintFromCapacity up H L) else none) := by sorry

theorem calcSize_some {up : Bool} {H : Layout} (hH : HeaderOK H) {hint s : Nat}
    (h : calcSize up H hint = some s) :
    16 ∣ s ∧ sizeAlign up H ∣ s ∧ H.size ≤ s ∧ hint ≤ s + 16 ∧ s < 2^64 := by sorry

theorem calcSize_none_iff (up : Bool) (H : Layout) (hint : Nat) :
    calcSize up H hint = none ↔ 2^64 ≤ calcSizeRaw H hint := by sorry

theorem calcSizeRaw_ge (H : Layout) (hH : HeaderOK H) (hint : Nat) :
    hint ≤ calcSizeRaw H hint ∧ minSize H ≤ calcSizeRaw H hint := by sorry

theorem align_size_fits {up : Bool} {H : Layout} (hH : HeaderOK H) {hint s g : Nat}
    (h : calcSize up H hint = some s) (hg : s ≤ g) :
    s ≤ downAlign g (sizeAlign up H) ∧ downAlign g (sizeAlign up H) ≤ g ∧
    16 ∣ downAlign g (sizeAlign up H) ∧ sizeAlign up H ∣ downAlign g (sizeAlign up H) := by sorry

theorem calcSize_mono {up : Bool} {H : Layout} (hH : HeaderOK H) {h1 h2 s1 s2 : Nat} (hle : h1 ≤ h2)
    (e1 : calcSize up H h1 = some s1) (e2 : calcSize up H h2 = some s2) : s1 ≤ s2 := by sorry

theorem grow_ge {up : Bool} {H : Layout} (hH : HeaderOK H) {prev req s : Nat}
    (h : calcSize up H (Nat.max req (2 * prev)) = some s) : 2 * prev ≤ s + 16 := by sorry

theorem fresh_fits_up {H : Layout} (hH : HeaderOK H) {L : Layout} (hL : L.Valid) {ma : Nat}
    (hma : ma = 1 ∨ ma = 2 ∨ ma = 4 ∨ ma = 8 ∨ ma = 16)
    {hint s g p : Nat} (hhint : hintFromCapacity true H L ≤ hint)
    (hs : calcSize true H hint = some s) (hg : s ≤ g) (hp : H.align ∣ p) :
    let s' := downAlign g (sizeAlign true H)
    let r := freshRange true H p s'
    (∃ x, bumpUp r.1 r.2 L.size L.align ma = some x) ∧
    (L.align ∣ L.size → ∃ x, prepareUp r.1 r.2 L.size L.align = some x) := by sorry

theorem fresh_fits_down {H : Layout} (hH : HeaderOK H) {L : Layout} (hL : L.Valid) {ma : Nat}
    (hma : ma = 1 ∨ ma = 2 ∨ ma = 4 ∨ ma = 8 ∨ ma = 16)
    {hint s g p : Nat} (hhint : hintFromCapacity false H L ≤ hint)
    (hs : calcSize false H hint = some s) (hg : s ≤ g) (hp : H.align ∣ p) :
    let s' := downAlign g (sizeAlign false H)
    let r := freshRange false H p s'
    (∃ x, bumpDown r.1 r.2 L.size L.align ma = some x) ∧
    (L.align ∣ L.size → ∃ x, prepareDown r.1 r.2 L.size L.align = some x) := by sorry

end Lemmas
