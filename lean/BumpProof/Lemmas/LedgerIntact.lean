/-
  Lemmas/LedgerIntact.lean — the user-facing reading of the frames of `Lemmas/LedgerAlloc.lean`:
  `geometry` (address ranges and bytes of all chunks), `Intact` (what "the state is intact after a
  failed call" means) and the conversions from `Ext` / `SlowFrame`.
-/
import BumpProof.Lemmas.LedgerFail

set_option linter.unusedSimpArgs false
set_option linter.unusedVariables false

namespace Ledger
open Arena Rs

/-! ## geometry, Intact -/
/-- address range and bytes of every chunk: everything about the chunks except the bump positions -/
def geometry (s : State) : List (Nat × Nat × Array UInt8) := s.chunks.map (fun c => (c.base, c.size, c.data))

/-- address ranges of the chunks -/
def ranges (s : State) : List (Nat × Nat) := s.chunks.map (fun c => (c.base, c.size))

theorem Chunk.ext' {c c' : Chunk} (h : SamePlace c c') (hp : c'.pos = c.pos) : c' = c := by
  obtain ⟨h1, h2, h3, h4, h5⟩ := h
  cases c; cases c'
  simp only at h1 h2 h3 h4 h5 hp
  subst h1 h2 h3 h4 h5 hp
  rfl

theorem Ext.getElem?_none {n : Nat} {s s' : State} (h : Ext n s s') (hlen : s'.chunks.length = s.chunks.length)
    {j : Nat} (hc : s.chunks[j]? = none) : s'.chunks[j]? = none := by
  rw [List.getElem?_eq_none_iff] at hc ⊢; omega

theorem Ext.geometry_eq {n : Nat} {s s' : State} (h : Ext n s s') (hlen : s'.chunks.length = s.chunks.length) :
    geometry s' = geometry s := by
  unfold geometry
  apply List.ext_getElem?
  intro j
  simp only [List.getElem?_map]
  cases hc : s.chunks[j]? with
  | none => rw [h.getElem?_none hlen hc]
  | some c =>
    obtain ⟨c', h1, sp, _⟩ := h.chunk j c hc
    rw [h1]
    simp only [Option.map_some, sp.1, sp.2.1, sp.2.2.2.2]

/-- without a length hypothesis: the old chunks are a prefix of the new ones -/
theorem Ext.geometry_prefix {n : Nat} {s s' : State} (h : Ext n s s') :
    geometry s = (geometry s').take s.chunks.length := by
  unfold geometry
  apply List.ext_getElem?
  intro j
  simp only [List.getElem?_map, List.getElem?_take]
  cases hc : s.chunks[j]? with
  | none =>
    have : ¬ j < s.chunks.length := by rw [List.getElem?_eq_none_iff] at hc; omega
    simp only [this, ↓reduceIte, Option.map_none]
  | some c =>
    have hj := (List.getElem?_eq_some_iff.1 hc).1
    obtain ⟨c', h1, sp, _⟩ := h.chunk j c hc
    simp only [hj, ↓reduceIte, h1, Option.map_some, sp.1, sp.2.1, sp.2.2.2.2]

theorem Ext.pos_eq {n : Nat} {s s' : State} (h : Ext n s s') (hlen : s'.chunks.length = s.chunks.length)
    {j : Nat} (hj : j < n) : (s'.chunks[j]?).map (·.pos) = (s.chunks[j]?).map (·.pos) := by
  cases hc : s.chunks[j]? with
  | none => rw [h.getElem?_none hlen hc]
  | some c =>
    obtain ⟨c', h1, _, hp⟩ := h.chunk j c hc
    rw [h1]
    simp only [Option.map_some, hp hj]

theorem Ext.chunks_eq {s s' : State} (h : ∀ n, Ext n s s') (hlen : s'.chunks.length = s.chunks.length) :
    s'.chunks = s.chunks := by
  apply List.ext_getElem?
  intro j
  cases hc : s.chunks[j]? with
  | none => rw [(h 0).getElem?_none hlen hc]
  | some c =>
    obtain ⟨c', h1, sp, hp⟩ := (h (j+1)).chunk j c hc
    rw [h1, Chunk.ext' sp (hp (Nat.lt_succ_self j))]

/-- "All state is intact": what a caller can rely on after a call reported an error.
    * the live blocks and the rest of the ghost state are the same;
    * no chunk was added or removed, no address range changed and NO BYTE of any chunk was written;
    * the bump positions of all chunks up to and including the current one are the same (chunks after
      the current one hold no live data; they may have been rewound while looking for room);
    * the current chunk is the same (since the fix of the crate in commit c107ca6; `cur` is the weaker
      statement "the same or a later, existing one" that held before and is kept for its users);
    * an arena without current chunk (unallocated / claimed) has exactly the same chunk list. -/
structure Intact (s s' : State) : Prop where
  live : s'.live = s.live
  ghost : s'.minAlign = s.minAlign ∧ s'.frames = s.frames ∧ s'.nextId = s.nextId ∧ s'.userCps = s.userCps ∧
    s'.prepared = s.prepared ∧ s'.dropped = s.dropped
  geometry : geometry s' = geometry s
  pos : ∀ i, s.cur = .chunk i → ∀ j, j ≤ i → (s'.chunks[j]?).map (·.pos) = (s.chunks[j]?).map (·.pos)
  noCur : (∀ i, s.cur ≠ .chunk i) → s'.chunks = s.chunks
  cur : CurAdv s s'
  sameCur : s'.cur = s.cur

theorem Intact.refl (s : State) : Intact s s :=
  ⟨rfl, ⟨rfl, rfl, rfl, rfl, rfl, rfl⟩, rfl, fun _ _ _ _ => rfl, fun _ => rfl, CurAdv.refl s, rfl⟩

theorem Intact.of_ext {s s' : State} (h : ∀ n, (∀ i, s.cur = .chunk i → n ≤ i + 1) → Ext n s s')
    (hlen : s'.chunks.length = s.chunks.length) (hcur : s'.cur = s.cur) : Intact s s' := by
  have h0 := h 0 (fun _ _ => Nat.zero_le _)
  refine ⟨h0.live, ⟨h0.minAlign, h0.frames, h0.nextId, h0.userCps, h0.prepared, h0.dropped⟩,
    h0.geometry_eq hlen, fun i hi j hj => ?_, fun hn => ?_, Or.inl hcur, hcur⟩
  · exact (h (i+1) (fun i' hi' => by rw [hi] at hi'; cases hi'; exact Nat.le_refl _)).pos_eq hlen
      (Nat.lt_succ_of_le hj)
  · exact Ext.chunks_eq (fun n => h n (fun i hi => absurd hi (hn i))) hlen

/-- an error from the slow path leaves the state intact -/
theorem SlowFrame.intact {cfg : Cfg} {s s' : State} {α : Type} {r : Except AErr α} {e : AErr}
    (h : SlowFrame cfg s s' r) (he : r = .error e) : Intact s s' :=
  Intact.of_ext h.ext (h.err e he).1 (h.err e he).2.1

end Ledger
