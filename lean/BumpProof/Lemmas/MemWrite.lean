/-
  Lemmas/MemWrite.lean — `writeRange` / `copyBytes` / `zeroRange`: exactly the addressed bytes change.
-/
import BumpProof.Lemmas.MemBasic

set_option linter.unusedSimpArgs false

namespace Arena.Mem
open Rs

/-- the bytes `writeRange` stores into the chunk it hits -/
def writtenData (c : Chunk) (lo hi : Nat) (f : Nat → UInt8) : Array UInt8 :=
  Array.ofFn (n := c.data.size) fun (k : Fin c.data.size) =>
    if lo ≤ c.base + k.val ∧ c.base + k.val < hi then f (c.base + k.val) else c.data.getD k.val 0

/-- inversion of a successful `writeRange` -/
theorem writeRange_ok {cfg : Cfg} {s s' : State} {lo hi : Nat} {f : Nat → UInt8}
    (h : writeRange cfg s lo hi f = .ok s') :
    (hi ≤ lo ∧ s' = s) ∨
    (lo < hi ∧ ∃ i c, s.chunks[i]? = some c ∧ c.base ≤ lo ∧ hi ≤ c.base + c.size ∧
      c.contentStart cfg ≤ lo ∧ hi ≤ c.contentEnd cfg ∧
      s' = { s with chunks := s.chunks.modify i (fun d => { d with data := writtenData c lo hi f }) }) := by
  unfold writeRange at h
  split at h
  · left
    rename_i hle
    cases h
    exact ⟨hle, rfl⟩
  · right
    rename_i hlt
    refine ⟨by omega, ?_⟩
    split at h
    · cases h
    · rename_i i hfind
      split at h
      · cases h
      · rename_i c hc
        split at h
        · rename_i hcont
          cases h
          unfold findChunk at hfind
          rw [List.findIdx?_eq_some_iff_getElem] at hfind
          obtain ⟨hlt', hp, _⟩ := hfind
          have hget : s.chunks[i] = c := by
            have := List.getElem?_eq_some_iff.mp hc
            exact this.2
          rw [hget] at hp
          have hp' := of_decide_eq_true hp
          exact ⟨i, c, hc, hp'.1, hp'.2, hcont.1, hcont.2, rfl⟩
        · cases h

theorem find?_of_findIdx? {α} (p : α → Bool) (l : List α) (i : Nat) (h : l.findIdx? p = some i) :
    l.find? p = l[i]? := by
  induction l generalizing i with
  | nil => simp at h
  | cons x xs ih =>
    rw [List.findIdx?_cons] at h
    rw [List.find?_cons]
    cases hx : p x
    · simp only [hx, Bool.false_eq_true, ↓reduceIte] at h
      cases hk : List.findIdx? p xs with
      | none => simp [hk] at h
      | some k =>
        simp only [hk, Option.map_some, Option.some.injEq] at h
        subst h
        simp [ih k hk]
    · simp only [hx, ↓reduceIte, Option.some.injEq] at h
      subst h
      simp

/-- reading after the bytes of chunk `i` were replaced by `D` -/
theorem readByte_modify_data (s : State) (i : Nat) (c : Chunk) (hc : s.chunks[i]? = some c) (D : Array UInt8) (a : Nat) :
    readByte { s with chunks := s.chunks.modify i (fun d => { d with data := D }) } a =
      if s.chunks.findIdx? (fun c : Chunk => decide (c.base ≤ a ∧ a < c.base + c.size)) = some i
      then D.getD (a - c.base) 0 else readByte s a := by
  unfold readByte
  simp only
  rw [find?_modify (fun c : Chunk => decide (c.base ≤ a ∧ a < c.base + c.size))
    (fun d : Chunk => { d with data := D }) (fun _ => rfl)]
  by_cases hidx : s.chunks.findIdx? (fun c : Chunk => decide (c.base ≤ a ∧ a < c.base + c.size)) = some i
  · rw [if_pos hidx, if_pos hidx, find?_of_findIdx? _ _ _ hidx, hc]
    rfl
  · rw [if_neg hidx, if_neg hidx]

theorem writtenData_getD_in (c : Chunk) (lo hi : Nat) (f : Nat → UInt8) (a : Nat)
    (h1 : c.base ≤ a) (h2 : a - c.base < c.data.size) (h3 : lo ≤ a) (h4 : a < hi) :
    (writtenData c lo hi f).getD (a - c.base) 0 = f a := by
  unfold writtenData
  rw [Array.getD_eq_getD_getElem?, Array.getElem?_ofFn, dif_pos h2]
  have e : c.base + (a - c.base) = a := by omega
  simp only [e, Option.getD_some]
  rw [if_pos ⟨h3, h4⟩]

theorem writtenData_getD_out (c : Chunk) (lo hi : Nat) (f : Nat → UInt8) (a : Nat)
    (h1 : c.base ≤ a) (h3 : a < lo ∨ hi ≤ a) :
    (writtenData c lo hi f).getD (a - c.base) 0 = c.data.getD (a - c.base) 0 := by
  unfold writtenData
  rw [Array.getD_eq_getD_getElem?, Array.getElem?_ofFn]
  split
  · have e : c.base + (a - c.base) = a := by omega
    simp only [e, Option.getD_some]
    rw [if_neg (by omega)]
  · rename_i h
    rfl

theorem writtenData_size (c : Chunk) (lo hi : Nat) (f : Nat → UInt8) : (writtenData c lo hi f).size = c.data.size := by
  unfold writtenData; exact Array.size_ofFn

/-- `writeRange` stores `f` in `[lo, hi)` -/
theorem writeRange_read_in {cfg : Cfg} {s s' : State} {lo hi : Nat} {f : Nat → UInt8}
    (hd : ChunksDisjoint s.chunks) (hdata : DataOK s.chunks)
    (h : writeRange cfg s lo hi f = .ok s') {a : Nat} (h1 : lo ≤ a) (h2 : a < hi) :
    readByte s' a = f a := by
  rcases writeRange_ok h with ⟨hle, _⟩ | ⟨_, i, c, hc, hb1, hb2, _, _, rfl⟩
  · omega
  · rw [readByte_modify_data s i c hc]
    have hown := find_owner hd hc (a := a) (by omega) (by omega)
    rw [if_pos hown.2]
    have hsz := hdata c (List.mem_of_getElem? hc)
    exact writtenData_getD_in c lo hi f a (by omega) (by omega) h1 h2

/-- `writeRange` leaves every byte outside `[lo, hi)` alone -/
theorem writeRange_read_out {cfg : Cfg} {s s' : State} {lo hi : Nat} {f : Nat → UInt8}
    (h : writeRange cfg s lo hi f = .ok s') {a : Nat} (h1 : a < lo ∨ hi ≤ a) :
    readByte s' a = readByte s a := by
  rcases writeRange_ok h with ⟨_, rfl⟩ | ⟨_, i, c, hc, hb1, hb2, _, _, rfl⟩
  · rfl
  · rw [readByte_modify_data s i c hc]
    split
    · rename_i hidx
      have hf := find?_of_findIdx? _ _ _ hidx
      obtain ⟨hlt, hp, _⟩ := List.findIdx?_eq_some_iff_getElem.mp hidx
      have hget : s.chunks[i] = c := (List.getElem?_eq_some_iff.mp hc).2
      rw [hget] at hp
      have hp' := of_decide_eq_true hp
      unfold readByte
      rw [hf, hc]
      exact writtenData_getD_out c lo hi f a hp'.1 h1
    · rfl

/-- `writeRange` changes nothing but chunk bytes -/
theorem writeRange_onlyData {cfg : Cfg} {s s' : State} {lo hi : Nat} {f : Nat → UInt8}
    (h : writeRange cfg s lo hi f = .ok s') : OnlyDataChanged s s' := by
  rcases writeRange_ok h with ⟨_, rfl⟩ | ⟨_, i, c, hc, hb1, hb2, _, _, rfl⟩
  · exact ⟨rfl, rfl⟩
  · refine ⟨rfl, ?_⟩
    apply List.ext_getElem?
    intro j
    simp only [List.getElem?_map, List.getElem?_modify]
    cases s.chunks[j]? with
    | none => rfl
    | some d =>
      simp only [Option.map_eq_map, Option.map_some]
      split <;> rfl

/-! ## shape: what well-formedness depends on -/

def _root_.Arena.Chunk.memShape (c : Chunk) : Nat × Nat × Nat := (c.base, c.size, c.data.size)
def shapeOf (s : State) : List (Nat × Nat × Nat) := s.chunks.map Chunk.memShape

/-- chunk ranges pairwise disjoint and every chunk has `size` bytes -/
def MemWF (s : State) : Prop := ChunksDisjoint s.chunks ∧ DataOK s.chunks

def ShapeWF (l : List (Nat × Nat × Nat)) : Prop :=
  l.Pairwise (fun x y => x.1 + x.2.1 ≤ y.1 ∨ y.1 + y.2.1 ≤ x.1) ∧ ∀ x ∈ l, x.2.2 = x.2.1

theorem memWF_iff (s : State) : MemWF s ↔ ShapeWF (shapeOf s) := by
  unfold MemWF ShapeWF shapeOf ChunksDisjoint DataOK
  rw [List.pairwise_map]
  constructor
  · rintro ⟨h1, h2⟩
    refine ⟨h1, ?_⟩
    intro x hx
    obtain ⟨c, hc, rfl⟩ := List.mem_map.mp hx
    exact h2 c hc
  · rintro ⟨h1, h2⟩
    exact ⟨h1, fun c hc => h2 _ (List.mem_map_of_mem hc)⟩

theorem MemWF.of_shape {s s' : State} (h : shapeOf s' = shapeOf s) (hw : MemWF s) : MemWF s' := by
  rw [memWF_iff] at hw ⊢; rw [h]; exact hw

theorem inChunks_shape {s s' : State} (h : shapeOf s' = shapeOf s) {a : Nat} (ha : InChunks s a) : InChunks s' a := by
  obtain ⟨c, hc, h1, h2⟩ := ha
  have : c.memShape ∈ shapeOf s' := by rw [h]; exact List.mem_map_of_mem hc
  obtain ⟨d, hd, hcd⟩ := List.mem_map.mp this
  have e1 : d.base = c.base := congrArg (·.1) hcd
  have e2 : d.size = c.size := congrArg (·.2.1) hcd
  exact ⟨d, hd, by omega, by omega⟩

theorem blockInChunks_shape {s s' : State} (h : shapeOf s' = shapeOf s) {lo hi : Nat} (hb : BlockInChunks s lo hi) :
    BlockInChunks s' lo hi := by
  obtain ⟨c, hc, h1, h2⟩ := hb
  have : c.memShape ∈ shapeOf s' := by rw [h]; exact List.mem_map_of_mem hc
  obtain ⟨d, hd, hcd⟩ := List.mem_map.mp this
  have e1 : d.base = c.base := congrArg (·.1) hcd
  have e2 : d.size = c.size := congrArg (·.2.1) hcd
  exact ⟨d, hd, by omega, by omega⟩

theorem shapeOf_of_memOf {s s' : State} (h : memOf s' = memOf s) : shapeOf s' = shapeOf s := by
  have : ∀ t : State, shapeOf t = (memOf t).map (fun m => (m.1, m.2.1, m.2.2.size)) := by
    intro t; unfold shapeOf memOf; rw [List.map_map]; rfl
  rw [this, this, h]

theorem shapeOf_setPos (s : State) (i p : Nat) : shapeOf (setPos s i p) = shapeOf s :=
  shapeOf_of_memOf (memOf_setPos s i p)

theorem shapeOf_setCurPos (s : State) (p : Nat) : shapeOf (setCurPos s p) = shapeOf s :=
  shapeOf_of_memOf (memOf_setCurPos s p)

theorem writeRange_shape {cfg : Cfg} {s s' : State} {lo hi : Nat} {f : Nat → UInt8}
    (h : writeRange cfg s lo hi f = .ok s') : shapeOf s' = shapeOf s := by
  rcases writeRange_ok h with ⟨_, rfl⟩ | ⟨_, i, c, hc, hb1, hb2, _, _, rfl⟩
  · rfl
  · unfold shapeOf
    apply List.ext_getElem?
    intro j
    simp only [List.getElem?_map, List.getElem?_modify]
    by_cases hij : i = j
    · subst hij
      rw [hc]
      simp [Chunk.memShape, writtenData_size]
    · cases s.chunks[j]? with
      | none => rfl
      | some d => simp [hij]

/-! ## `copyBytes` -/

theorem copyBytes_ok {cfg : Cfg} {s s' : State} {src dst len : Nat} {b : Bool}
    (h : copyBytes cfg s src dst len b = .ok s') :
    (len = 0 ∧ s' = s) ∨
    (0 < len ∧ ¬ (b = true ∧ src < dst + len ∧ dst < src + len) ∧
      (∃ i, findChunk s.chunks src (src + len) = some i) ∧
      writeRange cfg s dst (dst + len) (fun a => readByte s (src + (a - dst))) = .ok s') := by
  unfold copyBytes at h
  split at h
  · rename_i h0
    cases h
    exact .inl ⟨h0, rfl⟩
  · rename_i h0
    right
    split at h
    · cases h
    · rename_i hno
      split at h
      · cases h
      · rename_i i hi
        exact ⟨by omega, hno, ⟨i, hi⟩, h⟩

/-- memmove semantics: afterwards the destination holds what the source held before (also when the
    two ranges overlap) -/
theorem copyBytes_read_dst {cfg : Cfg} {s s' : State} {src dst len : Nat} {b : Bool}
    (hw : MemWF s) (h : copyBytes cfg s src dst len b = .ok s') {k : Nat} (hk : k < len) :
    readByte s' (dst + k) = readByte s (src + k) := by
  rcases copyBytes_ok h with ⟨h0, _⟩ | ⟨_, _, _, hwr⟩
  · omega
  · rw [writeRange_read_in hw.1 hw.2 hwr (a := dst + k) (by omega) (by omega)]
    simp

theorem copyBytes_read_out {cfg : Cfg} {s s' : State} {src dst len : Nat} {b : Bool}
    (h : copyBytes cfg s src dst len b = .ok s') {a : Nat} (ha : a < dst ∨ dst + len ≤ a) :
    readByte s' a = readByte s a := by
  rcases copyBytes_ok h with ⟨_, rfl⟩ | ⟨_, _, _, hwr⟩
  · rfl
  · exact writeRange_read_out hwr ha

theorem copyBytes_onlyData {cfg : Cfg} {s s' : State} {src dst len : Nat} {b : Bool}
    (h : copyBytes cfg s src dst len b = .ok s') : OnlyDataChanged s s' := by
  rcases copyBytes_ok h with ⟨_, rfl⟩ | ⟨_, _, _, hwr⟩
  · exact ⟨rfl, rfl⟩
  · exact writeRange_onlyData hwr

theorem copyBytes_shape {cfg : Cfg} {s s' : State} {src dst len : Nat} {b : Bool}
    (h : copyBytes cfg s src dst len b = .ok s') : shapeOf s' = shapeOf s := by
  rcases copyBytes_ok h with ⟨_, rfl⟩ | ⟨_, _, _, hwr⟩
  · rfl
  · exact writeRange_shape hwr

/-- `copy_nonoverlapping` on overlapping ranges is undefined behaviour: the model faults -/
theorem copyBytes_overlap_faults (cfg : Cfg) (s : State) {src dst len : Nat}
    (hlen : 0 < len) (h1 : src < dst + len) (h2 : dst < src + len) :
    ∃ what, copyBytes cfg s src dst len true = .error (.ub what) := by
  unfold copyBytes
  rw [if_neg (by omega), if_pos ⟨by simp, h1, h2⟩]
  exact ⟨_, rfl⟩

/-- the source of a successful non-empty copy lies inside one chunk -/
theorem copyBytes_src_inChunks {cfg : Cfg} {s s' : State} {src dst len : Nat} {b : Bool}
    (h : copyBytes cfg s src dst len b = .ok s') (hlen : 0 < len) : BlockInChunks s src (src + len) := by
  rcases copyBytes_ok h with ⟨h0, _⟩ | ⟨_, _, ⟨i, hi⟩, _⟩
  · omega
  · unfold findChunk at hi
    obtain ⟨hlt, hp, _⟩ := List.findIdx?_eq_some_iff_getElem.mp hi
    have hp' := of_decide_eq_true hp
    exact ⟨s.chunks[i], List.getElem_mem hlt, hp'.1, hp'.2⟩

/-- the destination of a successful non-empty copy lies inside the content range of one chunk -/
theorem copyBytes_dst_inChunks {cfg : Cfg} {s s' : State} {src dst len : Nat} {b : Bool}
    (h : copyBytes cfg s src dst len b = .ok s') (hlen : 0 < len) : BlockInChunks s dst (dst + len) := by
  rcases copyBytes_ok h with ⟨h0, _⟩ | ⟨_, _, _, hwr⟩
  · omega
  · rcases writeRange_ok hwr with ⟨h0, _⟩ | ⟨_, i, c, hc, hb1, hb2, _, _, _⟩
    · omega
    · exact ⟨c, List.mem_of_getElem? hc, hb1, hb2⟩

/-! ## `zeroRange` -/

theorem zeroRange_read_in {cfg : Cfg} {s s' : State} {addr len : Nat} (hw : MemWF s)
    (h : zeroRange cfg s addr len = .ok s') {a : Nat} (h1 : addr ≤ a) (h2 : a < addr + len) :
    readByte s' a = 0 :=
  writeRange_read_in hw.1 hw.2 h h1 h2

theorem zeroRange_read_out {cfg : Cfg} {s s' : State} {addr len : Nat}
    (h : zeroRange cfg s addr len = .ok s') {a : Nat} (h1 : a < addr ∨ addr + len ≤ a) :
    readByte s' a = readByte s a :=
  writeRange_read_out h h1
