/-
  Lemmas/GeomPos.lean — operations that only move the position of a chunk or select another
  existing chunk: deallocate, reset_to, reset, reset_to_start, align_to, BumpAlignGuard::drop.
-/
import BumpProof.Lemmas.GeomTry
import BumpProof.Lemmas.AlignChunk

set_option linter.unusedSimpArgs false
set_option linter.unusedVariables false

namespace Arena
open Rs Lemmas

section
variable {cfg : Cfg} {s : State}

/-! ## generic updates -/

theorem GeomInv.withCur (h : GeomInv cfg s) {i : Nat} {c : Chunk} (hi : s.chunks[i]? = some c) (hd : s.minAlign ∣ c.pos) :
    GeomInv cfg { s with cur := .chunk i } := by
  refine ⟨h.chunks, h.minAlign, ?_⟩
  intro j hj
  simp only [Cur.chunk.injEq] at hj
  subst hj
  exact ⟨c, hi, hd⟩

theorem GeomInv.withMinAlign (h : GeomInv cfg s) {n : Nat} (hn : MinAlignOK n)
    (hd : ∀ i c, s.cur = .chunk i → s.chunks[i]? = some c → n ∣ c.pos) :
    GeomInv cfg { s with minAlign := n } := by
  refine ⟨h.chunks, hn, ?_⟩
  intro j hj
  obtain ⟨c, hc, _⟩ := h.cur j hj
  exact ⟨c, hc, hd j c hj hc⟩

theorem GeomInv.withDummyCur (h : GeomInv cfg s) {k : Cur} (hk : ∀ i, k ≠ .chunk i) :
    GeomInv cfg { s with cur := k } := by
  refine ⟨h.chunks, h.minAlign, ?_⟩
  intro j hj
  exact absurd hj (hk j)

/-- move the position of chunk `i` and make it the current chunk -/
theorem GeomInv.setPosCur (h : GeomInv cfg s) {i p : Nat} {c : Chunk} (hi : s.chunks[i]? = some c)
    (h1 : c.contentStart cfg ≤ p) (h2 : p ≤ c.contentEnd cfg) (h3 : s.minAlign ∣ p) :
    GeomInv cfg { Arena.setPos s i p with cur := .chunk i } := by
  have h' := h.setPos hi h1 h2 (fun _ => h3)
  have hi' : (Arena.setPos s i p).chunks[i]? = some { c with pos := p } := by
    rw [setPos_getElem?, if_pos rfl, hi]; rfl
  exact h'.withCur hi' h3

/-- bounds for aligning a position inside the content range of a well-formed chunk -/
theorem ChunkWF.alignPos_mem (hc : CfgOK cfg) {c : Chunk} (hw : ChunkWF cfg c) {m x : Nat} (hm : MinAlignOK m)
    (h1 : c.contentStart cfg ≤ x) (h2 : x ≤ c.contentEnd cfg) :
    c.contentStart cfg ≤ alignPos cfg.up m x ∧ alignPos cfg.up m x ≤ c.contentEnd cfg :=
  Arena.alignPos_mem hm.pos (hm.dvd_of_16 (hw.start16 hc)) (hm.dvd_of_16 (hw.end16 hc)) h1 h2

/-- `align_pos` of a position inside the content range does not fault -/
theorem ChunkWF.align_pos_eq (hc : CfgOK cfg) {c : Chunk} (hw : ChunkWF cfg c) {m x : Nat} (hm : MinAlignOK m)
    (h2 : x ≤ c.contentEnd cfg) (up : Bool) :
    Gen.LibArith.align_pos up m x = .ok (alignPos up m x) := by
  apply Arena.align_pos_eq hm.p2 hm.lt64
  have h3 := hw.end_lt64
  have h4 := hw.end16 hc
  have h5 := hm.le
  rw [two_pow_64] at h3 ⊢
  split <;> omega

/-! ## deallocate -/

theorem deallocAssumeLast_ok (hc : CfgOK cfg) (h : GeomInv cfg s) {ptr size : Nat} (hb : BlockInCur cfg s ptr size) :
    ∃ s', deallocAssumeLast cfg s ptr size = .ok s' ∧ GeomInv cfg s' ∧ SameShape s s' ∧ s'.cur = s.cur ∧
      s'.minAlign = s.minAlign ∧ s'.resps = s.resps ∧
      (cfg.deallocates = true → s' = setCurPos s (alignPos cfg.up s.minAlign (if cfg.up then ptr else ptr + size))) ∧
      (cfg.deallocates = false → s' = s) := by
  unfold deallocAssumeLast
  cases hde : cfg.deallocates
  · exact ⟨s, rfl, h, SameShape.refl _, rfl, rfl, rfl, fun hx => (by cases hx), fun _ => rfl⟩
  · obtain ⟨i, c, hcur, hi, hb1, hb2, hb3⟩ := hb
    have hw := h.chunks i c hi
    simp only [Bool.not_true, Bool.false_eq_true, ↓reduceIte, hcur]
    have hlt := hw.end_lt64
    have ht1 : c.contentStart cfg ≤ (if cfg.up then ptr else ptr + size) := by split <;> omega
    have ht2 : (if cfg.up then ptr else ptr + size) ≤ c.contentEnd cfg := by split <;> omega
    have hnot : ¬ (if cfg.up = true then ptr else ptr + size) > Rs.MAX := by rw [MAX_eq]; rw [two_pow_64] at hlt; omega
    have hmem := hw.alignPos_mem hc h.minAlign ht1 ht2
    rw [if_neg hnot]
    simp only [r_pure, r_ok_bind, hw.align_pos_eq hc h.minAlign ht2, liftM_ok]
    refine ⟨_, rfl, h.setCurPos hcur hi hmem.1 hmem.2 (alignPos_dvd _ _ _), setCurPos_shape _ _, (setCurPos_cur _ _).trans hcur,
      setCurPos_minAlign _ _, setCurPos_resps _ _, fun _ => rfl, fun hx => (by cases hx)⟩

theorem deallocate_ok (hc : CfgOK cfg) (h : GeomInv cfg s) {ptr size : Nat}
    (hb : isLast cfg s ptr size = true → BlockInCur cfg s ptr size) :
    ∃ s', deallocate cfg s ptr size = .ok s' ∧ GeomInv cfg s' ∧ SameShape s s' ∧ s'.cur = s.cur ∧
      s'.minAlign = s.minAlign ∧ s'.resps = s.resps := by
  unfold deallocate
  cases hde : cfg.deallocates
  · exact ⟨s, rfl, h, SameShape.refl _, rfl, rfl, rfl⟩
  · simp only [Bool.not_true, Bool.false_eq_true, ↓reduceIte]
    cases hl : isLast cfg s ptr size
    · exact ⟨s, rfl, h, SameShape.refl _, rfl, rfl, rfl⟩
    · obtain ⟨s', h1, h2, h3, h4, h5, h6, _⟩ := deallocAssumeLast_ok hc h (hb hl)
      exact ⟨s', h1, h2, h3, h4, h5, h6⟩

/-! ## reset_to_start, reset, reset_to -/

theorem resetToStart_inv (hc : CfgOK cfg) (h : GeomInv cfg s) : GeomInv cfg (resetToStart cfg s) := by
  unfold resetToStart
  split
  · split
    · exact h
    · rename_i i c rest hch
      have hw : ChunkWF cfg c := h.chunks 0 c (by rw [hch]; rfl)
      refine ⟨?_, h.minAlign, ?_⟩
      · intro j d hj
        cases j with
        | zero =>
          simp only [List.getElem?_cons_zero, Option.some.injEq] at hj
          subst hj; exact hw.resetPos
        | succ n =>
          simp only [List.getElem?_cons_succ] at hj
          exact h.chunks (n+1) d (by rw [hch]; simpa only [List.getElem?_cons_succ] using hj)
      · intro j hj
        simp only [Cur.chunk.injEq] at hj
        subst hj
        exact ⟨_, rfl, h.minAlign.dvd_of_16 (resetPos_pos16 hc hw)⟩
  · exact h

theorem resetToStart_shape (s : State) : SameShape s (resetToStart cfg s) := by
  unfold resetToStart
  split
  · split
    · exact SameShape.refl _
    · rename_i i c rest hch
      unfold SameShape
      rw [hch]
      rfl
  · exact SameShape.refl _

theorem reset_inv (hc : CfgOK cfg) (h : GeomInv cfg s) : GeomInv cfg (reset cfg s) := by
  unfold reset
  split
  · split
    · exact h
    · rename_i i last hl
      have hw : ChunkWF cfg last := by
        rw [List.getLast?_eq_getElem?] at hl
        exact h.chunks _ last hl
      refine ⟨?_, h.minAlign, ?_⟩
      · intro j d hj
        cases j with
        | zero =>
          simp only [List.getElem?_cons_zero, Option.some.injEq] at hj
          subst hj; exact hw.resetPos
        | succ n => simp at hj
      · intro j hj
        simp only [Cur.chunk.injEq] at hj
        subst hj
        exact ⟨_, rfl, h.minAlign.dvd_of_16 (resetPos_pos16 hc hw)⟩
  · exact h

theorem reset_sizesIncreasing (hs : SizesIncreasing s) : SizesIncreasing (reset cfg s) := by
  unfold reset
  split
  · split
    · exact hs
    · intro j a b ha hb
      simp at hb
  · exact hs

theorem resetToStart_sizesIncreasing (hs : SizesIncreasing s) : SizesIncreasing (resetToStart cfg s) :=
  (resetToStart_shape s).sizesIncreasing hs

theorem resetTo_ok (hc : CfgOK cfg) (h : GeomInv cfg s) {cp : Checkpoint} (hcp : CheckpointOK cfg s cp) :
    ∃ s', resetTo cfg s cp = .ok s' ∧ GeomInv cfg s' ∧ SameShape s s' ∧ s'.minAlign = s.minAlign ∧ s'.resps = s.resps ∧
      (∀ i, cp.cur = .chunk i → s'.cur = .chunk i ∧ curPos cfg s' = alignPos cfg.up s.minAlign cp.addr) := by
  unfold resetTo
  unfold CheckpointOK at hcp
  cases hk : cp.cur with
  | unallocated =>
    rw [hk] at hcp
    simp only [hcp, hk, Bool.not_false, beq_self_eq_true, Bool.and_self, ↓reduceIte]
    refine ⟨_, rfl, resetToStart_inv hc h, resetToStart_shape s, ?_, ?_, fun i hi => by cases hi⟩
    · unfold resetToStart; split
      · split <;> rfl
      · rfl
    · unfold resetToStart; split
      · split <;> rfl
      · rfl
  | claimed => rw [hk] at hcp; exact hcp.elim
  | chunk i =>
    rw [hk] at hcp
    obtain ⟨c, hi, h1, h2⟩ := hcp
    have hw := h.chunks i c hi
    have hne : (Cur.chunk i == Cur.unallocated) = false := by simp
    simp only [hne, Bool.and_false, Bool.false_eq_true, ↓reduceIte, hi, h1, h2, and_self]
    simp only [r_pure, r_ok_bind, hw.align_pos_eq hc h.minAlign h2, liftM_ok]
    have hmem := hw.alignPos_mem hc h.minAlign h1 h2
    refine ⟨_, rfl, h.setPosCur hi hmem.1 hmem.2 (alignPos_dvd _ _ _), setPos_shape _ _ _, rfl, rfl, ?_⟩
    intro j hj
    simp only [Cur.chunk.injEq] at hj
    subst hj
    refine ⟨rfl, ?_⟩
    unfold curPos
    simp only [setPos_getElem?, hi, ↓reduceIte, Option.map_some]

/-! ## reset_to by a handle with another minimum alignment (`scoped_aligned` exit) -/

/-- move the position of chunk `i`, make it current, and switch to minimum alignment `m` -/
theorem GeomInv.setPosCurMin (h : GeomInv cfg s) {m : Nat} (hm : MinAlignOK m) {i p : Nat} {c : Chunk}
    (hi : s.chunks[i]? = some c) (h1 : c.contentStart cfg ≤ p) (h2 : p ≤ c.contentEnd cfg) (h3 : m ∣ p) :
    GeomInv cfg { Arena.setPos { s with minAlign := m } i p with cur := .chunk i } := by
  refine ⟨?_, hm, ?_⟩
  · intro j d hj
    have hj' : (Arena.setPos s i p).chunks[j]? = some d := hj
    rw [setPos_getElem?] at hj'
    split at hj'
    · subst ‹i = j›
      rw [hi] at hj'
      simp only [Option.map_some, Option.some.injEq] at hj'
      subst hj'
      exact (h.chunks i c hi).withPos h1 h2
    · exact h.chunks j d hj'
  · intro j hj
    simp only [Cur.chunk.injEq] at hj
    subst hj
    refine ⟨{ c with pos := p }, ?_, h3⟩
    show (Arena.setPos s i p).chunks[i]? = _
    rw [setPos_getElem?, if_pos rfl, hi]; rfl

theorem resetToStart_inv_min (hc : CfgOK cfg) (h : GeomInv cfg s) {m : Nat} (hm : MinAlignOK m) :
    GeomInv cfg (resetToStart cfg { s with minAlign := m }) := by
  unfold resetToStart
  cases hcur : s.cur with
  | chunk i =>
    simp only [hcur]
    cases hch : s.chunks with
    | nil =>
      obtain ⟨c, hc', _⟩ := h.cur i hcur
      rw [hch] at hc'; simp at hc'
    | cons c rest =>
      simp only
      have hw : ChunkWF cfg c := h.chunks 0 c (by rw [hch]; rfl)
      refine ⟨?_, hm, ?_⟩
      · intro j d hj
        cases j with
        | zero =>
          simp only [List.getElem?_cons_zero, Option.some.injEq] at hj
          subst hj; exact hw.resetPos
        | succ n =>
          simp only [List.getElem?_cons_succ] at hj
          exact h.chunks (n+1) d (by rw [hch]; simpa only [List.getElem?_cons_succ] using hj)
      · intro j hj
        simp only [Cur.chunk.injEq] at hj
        subst hj
        exact ⟨_, rfl, hm.dvd_of_16 (resetPos_pos16 hc hw)⟩
  | unallocated =>
    simp only [hcur]
    exact ⟨h.chunks, hm, fun i hi => by cases hi⟩
  | claimed =>
    simp only [hcur]
    exact ⟨h.chunks, hm, fun i hi => by cases hi⟩

theorem resetToStart_shape_min (s : State) (m : Nat) : SameShape s (resetToStart cfg { s with minAlign := m }) :=
  resetToStart_shape (cfg := cfg) { s with minAlign := m }

/-- `reset_to` executed by a handle whose minimum alignment is `m` (the arena itself may currently be in a
    region with another minimum alignment) -/
theorem resetTo_ok_min (hc : CfgOK cfg) (h : GeomInv cfg s) {m : Nat} (hm : MinAlignOK m) {cp : Checkpoint}
    (hcp : CheckpointOK cfg s cp) :
    ∃ s', resetTo cfg { s with minAlign := m } cp = .ok s' ∧ GeomInv cfg s' ∧ SameShape s s' ∧ s'.minAlign = m ∧
      s'.resps = s.resps ∧
      (∀ i, cp.cur = .chunk i → s'.cur = .chunk i ∧ curPos cfg s' = alignPos cfg.up m cp.addr) := by
  unfold resetTo
  unfold CheckpointOK at hcp
  cases hk : cp.cur with
  | unallocated =>
    rw [hk] at hcp
    simp only [hcp, hk, Bool.not_false, beq_self_eq_true, Bool.and_self, ↓reduceIte]
    refine ⟨_, rfl, resetToStart_inv_min hc h hm, resetToStart_shape_min s m, ?_, ?_, fun i hi => by cases hi⟩
    · unfold resetToStart; split
      · split <;> rfl
      · rfl
    · unfold resetToStart; split
      · split <;> rfl
      · rfl
  | claimed => rw [hk] at hcp; exact hcp.elim
  | chunk i =>
    rw [hk] at hcp
    obtain ⟨c, hi, h1, h2⟩ := hcp
    have hw := h.chunks i c hi
    have hne : (Cur.chunk i == Cur.unallocated) = false := by simp
    simp only [hne, Bool.and_false, Bool.false_eq_true, ↓reduceIte, hi, h1, h2, and_self]
    simp only [r_pure, r_ok_bind, hw.align_pos_eq hc hm h2, liftM_ok]
    have hmem := hw.alignPos_mem hc hm h1 h2
    refine ⟨_, rfl, h.setPosCurMin hm hi hmem.1 hmem.2 (alignPos_dvd _ _ _), setPos_shape s _ _, rfl, rfl, ?_⟩
    intro j hj
    simp only [Cur.chunk.injEq] at hj
    subst hj
    refine ⟨rfl, ?_⟩
    unfold curPos
    have : (Arena.setPos { s with minAlign := m } i (alignPos cfg.up m cp.addr)).chunks[i]? =
        some { c with pos := alignPos cfg.up m cp.addr } := by
      show (Arena.setPos s i _).chunks[i]? = _
      rw [setPos_getElem?, if_pos rfl, hi]; rfl
    simp only [this]

/-! ## align_to, BumpAlignGuard::drop -/

/-- `alignTo` to a supported alignment never faults; afterwards the position is aligned for the old
    AND the new minimum alignment -/
theorem alignTo_ok (hc : CfgOK cfg) (h : GeomInv cfg s) {n : Nat} (hn : MinAlignOK n) :
    ∃ s', alignTo cfg s n = .ok s' ∧ GeomInv cfg s' ∧ GeomInv cfg { s' with minAlign := n } ∧ SameShape s s' ∧
      s'.cur = s.cur ∧ s'.minAlign = s.minAlign ∧ s'.resps = s.resps ∧
      (∀ i c, s.cur = .chunk i → s.chunks[i]? = some c →
        s' = setPos s i (if n > s.minAlign then alignPos cfg.up n c.pos else c.pos)) := by
  unfold alignTo
  by_cases hgt : n > s.minAlign
  · simp only [hgt, ↓reduceIte]
    cases hcur : s.cur with
    | chunk i =>
      obtain ⟨c, hi, hw, hd⟩ := h.curChunk hcur
      simp only [hi, r_pure, r_ok_bind, hw.align_pos_eq hc hn hw.pos_le, liftM_ok]
      have hmem := hw.alignPos_mem hc hn hw.pos_ge hw.pos_le
      have hdn : s.minAlign ∣ n := h.minAlign.p2.dvd_of_le hn.p2 (Nat.le_of_lt hgt)
      have hd1 : s.minAlign ∣ alignPos cfg.up n c.pos := Nat.dvd_trans hdn (alignPos_dvd _ _ _)
      have h' := h.setPos hi hmem.1 hmem.2 (fun _ => hd1)
      refine ⟨_, rfl, h', ?_, setPos_shape _ _ _, hcur, rfl, rfl, ?_⟩
      · apply h'.withMinAlign hn
        intro j d hj hdj
        rw [setPos_cur, hcur] at hj
        simp only [Cur.chunk.injEq] at hj
        subst hj
        rw [setPos_getElem?, if_pos rfl, hi] at hdj
        simp only [Option.map_some, Option.some.injEq] at hdj
        subst hdj
        exact alignPos_dvd _ _ _
      · intro j d hj hdj
        simp only [Cur.chunk.injEq] at hj
        subst hj
        rw [hi] at hdj; cases hdj
        rfl
    | unallocated =>
      refine ⟨s, rfl, h, ?_, SameShape.refl _, hcur.symm ▸ rfl, rfl, rfl, fun i c hi => by cases hi⟩
      exact h.withMinAlign hn (fun i c hi => by rw [hcur] at hi; cases hi)
    | claimed =>
      refine ⟨s, rfl, h, ?_, SameShape.refl _, hcur.symm ▸ rfl, rfl, rfl, fun i c hi => by cases hi⟩
      exact h.withMinAlign hn (fun i c hi => by rw [hcur] at hi; cases hi)
  · simp only [hgt, ↓reduceIte]
    refine ⟨s, rfl, h, ?_, SameShape.refl _, rfl, rfl, rfl, ?_⟩
    · apply h.withMinAlign hn
      intro i c hi hci
      obtain ⟨c', hc', hd⟩ := h.cur i hi
      rw [hci] at hc'; cases hc'
      exact Nat.dvd_trans (hn.p2.dvd_of_le h.minAlign.p2 (by omega)) hd
    · intro i c hi hci
      unfold setPos
      have : s.chunks.modify i (fun c' => { c' with pos := c.pos }) = s.chunks := by
        apply List.ext_getElem?
        intro j
        rw [List.getElem?_modify]
        by_cases hij : i = j
        · subst hij; rw [hci]; simp
        · cases s.chunks[j]? <;> simp [hij]
      rw [this]

/-- `BumpAlignGuard::drop` -/
theorem alignGuardDrop_ok (hc : CfgOK cfg) (h : GeomInv cfg s) {outer : Nat} (hn : MinAlignOK outer) :
    ∃ s', alignGuardDrop cfg s outer = .ok s' ∧ GeomInv cfg s' ∧ GeomInv cfg { s' with minAlign := outer } ∧ SameShape s s' ∧
      s'.cur = s.cur ∧ s'.minAlign = s.minAlign ∧ s'.resps = s.resps ∧
      (∀ i c, s.cur = .chunk i → s.chunks[i]? = some c → s' = setPos s i (alignPos cfg.up outer c.pos)) := by
  unfold alignGuardDrop
  cases hcur : s.cur with
  | chunk i =>
    obtain ⟨c, hi, hw, hd⟩ := h.curChunk hcur
    simp only [hi, r_pure, r_ok_bind, hw.align_pos_eq hc hn hw.pos_le, liftM_ok]
    have hmem := hw.alignPos_mem hc hn hw.pos_ge hw.pos_le
    have hd1 : s.minAlign ∣ alignPos cfg.up outer c.pos := by
      rcases h.minAlign.p2.dvd_or_dvd hn.p2 with hx | hx
      · exact Nat.dvd_trans hx (alignPos_dvd _ _ _)
      · rw [alignPos_eq_self hn.pos (Nat.dvd_trans hx hd)]; exact hd
    have h' := h.setPos hi hmem.1 hmem.2 (fun _ => hd1)
    refine ⟨_, rfl, h', ?_, setPos_shape _ _ _, hcur, rfl, rfl, ?_⟩
    · apply h'.withMinAlign hn
      intro j d hj hdj
      rw [setPos_cur, hcur] at hj
      simp only [Cur.chunk.injEq] at hj
      subst hj
      rw [setPos_getElem?, if_pos rfl, hi] at hdj
      simp only [Option.map_some, Option.some.injEq] at hdj
      subst hdj
      exact alignPos_dvd _ _ _
    · intro j d hj hdj
      simp only [Cur.chunk.injEq] at hj
      subst hj
      rw [hi] at hdj; cases hdj
      rfl
  | unallocated =>
    refine ⟨s, rfl, h, ?_, SameShape.refl _, hcur.symm ▸ rfl, rfl, rfl, fun i c hi => by cases hi⟩
    exact h.withMinAlign hn (fun i c hi => by rw [hcur] at hi; cases hi)
  | claimed =>
    refine ⟨s, rfl, h, ?_, SameShape.refl _, hcur.symm ▸ rfl, rfl, rfl, fun i c hi => by cases hi⟩
    exact h.withMinAlign hn (fun i c hi => by rw [hcur] at hi; cases hi)

/-- `BumpAlignGuard::drop`, second half: re-aligning the chunk the guard started in (when it is not the
    current one) never faults, keeps the geometry invariant under the inner and under the outer minimum
    alignment, and does not touch the current chunk -/
theorem alignChunkAt_ok (hc : CfgOK cfg) (h : GeomInv cfg s) {outer : Nat} (hn : MinAlignOK outer) (st : Cur) :
    ∃ s', alignChunkAt cfg s outer st = .ok s' ∧ GeomInv cfg s' ∧
      (GeomInv cfg { s with minAlign := outer } → GeomInv cfg { s' with minAlign := outer }) ∧ SameShape s s' ∧
      s'.cur = s.cur ∧ s'.minAlign = s.minAlign ∧ s'.resps = s.resps ∧
      (∀ i, s.cur = .chunk i → s'.chunks[i]? = s.chunks[i]?) := by
  unfold alignChunkAt
  cases st with
  | chunk j =>
    by_cases hcur : s.cur = .chunk j
    · simp only [if_pos hcur, r_pure]
      exact ⟨s, rfl, h, id, SameShape.refl _, rfl, rfl, rfl, fun _ _ => rfl⟩
    · simp only [if_neg hcur]
      cases hj : s.chunks[j]? with
      | none => exact ⟨s, rfl, h, id, SameShape.refl _, rfl, rfl, rfl, fun _ _ => rfl⟩
      | some c =>
        have hw := h.chunks j c hj
        simp only [r_pure, r_ok_bind, hw.align_pos_eq hc hn hw.pos_le, liftM_ok]
        have hmem := hw.alignPos_mem hc hn hw.pos_ge hw.pos_le
        refine ⟨_, rfl, h.setPos hj hmem.1 hmem.2 (fun e => absurd e hcur), ?_, setPos_shape _ _ _, rfl, rfl, rfl, ?_⟩
        · intro h2
          exact GeomInv.setPos (s := { s with minAlign := outer }) h2 hj hmem.1 hmem.2 (fun e => absurd e hcur)
        · intro i hi
          rw [setPos_getElem?, if_neg]
          intro e; subst e; exact hcur hi
  | unallocated => exact ⟨s, rfl, h, id, SameShape.refl _, rfl, rfl, rfl, fun _ _ => rfl⟩
  | claimed => exact ⟨s, rfl, h, id, SameShape.refl _, rfl, rfl, rfl, fun _ _ => rfl⟩

end
end Arena
