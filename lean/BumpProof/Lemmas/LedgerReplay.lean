/-
  Lemmas/LedgerReplay.lean — replaying an allocation in a state that has (at least) the chunks the
  first run ended with, and the same current chunk and position the first run started from, takes
  the same decisions, returns the same address and never consults the base allocator.
-/
import BumpProof.Lemmas.LedgerScope

set_option linter.unusedSimpArgs false
set_option linter.unusedVariables false

namespace Ledger
open Arena Rs

/-! ## tryCur only depends on the bump properties -/
/-- `tryCur` with the bump properties passed explicitly -/
def tryCurP (cfg : Cfg) (k : Kind) (props : Gen.Bumping.BumpProps) (s : State) : R (Option ((Nat × Nat) × State)) := do
  match k with
  | .alloc =>
    if cfg.up then
      match ← Arena.liftM (Gen.Bumping.bump_up props) with
      | none => pure none
      | some r => pure (some ((r.ptr, 0), setCurPos s r.new_pos))
    else
      match ← Arena.liftM (Gen.Bumping.bump_down props) with
      | none => pure none
      | some p => pure (some ((p, 0), setCurPos s p))
  | .prepare =>
    if cfg.up then
      match ← Arena.liftM (Gen.Bumping.bump_up props) with
      | none => pure none
      | some r => pure (some ((r.ptr, 0), s))
    else
      match ← Arena.liftM (Gen.Bumping.bump_down props) with
      | none => pure none
      | some p => pure (some ((p, 0), s))
  | .range =>
    let r ← Arena.liftM (if cfg.up then Gen.Bumping.bump_prepare_up props else Gen.Bumping.bump_prepare_down props)
    match r with
    | none => pure none
    | some x => pure (some (x, s))

theorem tryCur_eq_P (cfg : Cfg) (k : Kind) (s : State) (L : Layout) (h : Hints) :
    tryCur cfg k s L h = tryCurP cfg k (bumpProps cfg s L h) s := by
  unfold tryCur tryCurP; rfl

/-- the decision of `tryCurP` and the value returned do not depend on the state; the new state is
    the old one or the old one with a new current position that does not depend on the state -/
theorem tryCurP_mirror (cfg : Cfg) (k : Kind) (props : Gen.Bumping.BumpProps) (s t : State) :
    (tryCurP cfg k props s = .ok none → tryCurP cfg k props t = .ok none) ∧
    (∀ v s', tryCurP cfg k props s = .ok (some (v, s')) →
      ∃ t', tryCurP cfg k props t = .ok (some (v, t')) ∧
        ((s' = s ∧ t' = t) ∨ ∃ q, s' = setCurPos s q ∧ t' = setCurPos t q)) := by
  unfold tryCurP
  cases k with
  | alloc =>
    by_cases hup : cfg.up = true
    · simp only [hup, ↓reduceIte]
      cases Arena.liftM (Gen.Bumping.bump_up props) with
      | error f => exact ⟨fun h => (by cases h), fun v s' h => (by cases h)⟩
      | ok o =>
        cases o with
        | none => exact ⟨fun _ => rfl, fun v s' h => (by cases h)⟩
        | some r =>
          refine ⟨fun h => (by cases h), fun v s' h => ?_⟩
          simp only [bind_ok, pure_eq_ok, Except.ok.injEq, Option.some.injEq, Prod.mk.injEq] at h
          obtain ⟨rfl, rfl⟩ := h
          exact ⟨_, rfl, Or.inr ⟨_, rfl, rfl⟩⟩
    · simp only [hup, Bool.false_eq_true, ↓reduceIte]
      cases Arena.liftM (Gen.Bumping.bump_down props) with
      | error f => exact ⟨fun h => (by cases h), fun v s' h => (by cases h)⟩
      | ok o =>
        cases o with
        | none => exact ⟨fun _ => rfl, fun v s' h => (by cases h)⟩
        | some r =>
          refine ⟨fun h => (by cases h), fun v s' h => ?_⟩
          simp only [bind_ok, pure_eq_ok, Except.ok.injEq, Option.some.injEq, Prod.mk.injEq] at h
          obtain ⟨rfl, rfl⟩ := h
          exact ⟨_, rfl, Or.inr ⟨_, rfl, rfl⟩⟩
  | prepare =>
    by_cases hup : cfg.up = true
    · simp only [hup, ↓reduceIte]
      cases Arena.liftM (Gen.Bumping.bump_up props) with
      | error f => exact ⟨fun h => (by cases h), fun v s' h => (by cases h)⟩
      | ok o =>
        cases o with
        | none => exact ⟨fun _ => rfl, fun v s' h => (by cases h)⟩
        | some r =>
          refine ⟨fun h => (by cases h), fun v s' h => ?_⟩
          simp only [bind_ok, pure_eq_ok, Except.ok.injEq, Option.some.injEq, Prod.mk.injEq] at h
          obtain ⟨rfl, rfl⟩ := h
          exact ⟨_, rfl, Or.inl ⟨rfl, rfl⟩⟩
    · simp only [hup, Bool.false_eq_true, ↓reduceIte]
      cases Arena.liftM (Gen.Bumping.bump_down props) with
      | error f => exact ⟨fun h => (by cases h), fun v s' h => (by cases h)⟩
      | ok o =>
        cases o with
        | none => exact ⟨fun _ => rfl, fun v s' h => (by cases h)⟩
        | some r =>
          refine ⟨fun h => (by cases h), fun v s' h => ?_⟩
          simp only [bind_ok, pure_eq_ok, Except.ok.injEq, Option.some.injEq, Prod.mk.injEq] at h
          obtain ⟨rfl, rfl⟩ := h
          exact ⟨_, rfl, Or.inl ⟨rfl, rfl⟩⟩
  | range =>
    simp only
    cases Arena.liftM (if cfg.up = true then Gen.Bumping.bump_prepare_up props else Gen.Bumping.bump_prepare_down props) with
    | error f => exact ⟨fun h => (by cases h), fun v s' h => (by cases h)⟩
    | ok o =>
      cases o with
      | none => exact ⟨fun _ => rfl, fun v s' h => (by cases h)⟩
      | some r =>
        refine ⟨fun h => (by cases h), fun v s' h => ?_⟩
        simp only [bind_ok, pure_eq_ok, Except.ok.injEq, Option.some.injEq, Prod.mk.injEq] at h
        obtain ⟨rfl, rfl⟩ := h
        exact ⟨_, rfl, Or.inl ⟨rfl, rfl⟩⟩

/-! ## Similar states -/
/-- every chunk of `a` is present in `b` at the same index, with the same range and bytes -/
def CovC (a b : List Chunk) : Prop := ∀ (j : Nat) (c : Chunk), a[j]? = some c → ∃ c', b[j]? = some c' ∧ SamePlace c c'

theorem CovC.refl (a : List Chunk) : CovC a a := fun j c h => ⟨c, h, SamePlace.refl c⟩
theorem CovC.trans {a b c : List Chunk} (h1 : CovC a b) (h2 : CovC b c) : CovC a c := fun j x hx => by
  obtain ⟨y, hy, s1⟩ := h1 j x hx
  obtain ⟨z, hz, s2⟩ := h2 j y hy
  exact ⟨z, hz, s1.trans s2⟩
theorem CovC.length_le {a b : List Chunk} (h : CovC a b) : a.length ≤ b.length := by
  by_cases hl : a.length = 0
  · omega
  · have hlt : a.length - 1 < a.length := by omega
    obtain ⟨c', h1, _⟩ := h (a.length - 1) _ (List.getElem?_eq_getElem hlt)
    have := (List.getElem?_eq_some_iff.1 h1).1
    omega
theorem Ext.covC {n : Nat} {s s' : State} (h : Ext n s s') : CovC s.chunks s'.chunks := fun j c hc => by
  obtain ⟨c', h1, sp, _⟩ := h.chunk j c hc
  exact ⟨c', h1, sp⟩

theorem SamePlace.symm {a b : Chunk} (h : SamePlace a b) : SamePlace b a :=
  ⟨h.1.symm, h.2.1.symm, h.2.2.1.symm, h.2.2.2.1.symm, h.2.2.2.2.symm⟩

theorem CovC.modify_pos (l : List Chunk) (i q : Nat) : CovC l (l.modify i (fun c => { c with pos := q })) :=
  fun j c hc => by
    simp only [List.getElem?_modify, hc, Option.map_some]
    by_cases hij : i = j
    · simp only [hij, ↓reduceIte]; exact ⟨_, rfl, SamePlace.refl c⟩
    · simp only [hij, ↓reduceIte]; exact ⟨c, rfl, SamePlace.refl c⟩

/-- `t` has the minimum alignment of `s` and covers its chunks -/
def Cov (s t : State) : Prop := t.minAlign = s.minAlign ∧ CovC s.chunks t.chunks

/-- … and additionally the same current chunk at the same position -/
def Sim (s t : State) : Prop :=
  Cov s t ∧ t.cur = s.cur ∧
  ∀ i c, s.cur = .chunk i → s.chunks[i]? = some c → ∃ c', t.chunks[i]? = some c' ∧ c'.pos = c.pos

/-- the current chunk exists -/
def CurOK (s : State) : Prop := ∀ i, s.cur = .chunk i → i < s.chunks.length

theorem contentStart_congr (cfg : Cfg) {c c' : Chunk} (h : SamePlace c c') : c'.contentStart cfg = c.contentStart cfg := by
  unfold Chunk.contentStart; rw [h.1]
theorem contentEnd_congr (cfg : Cfg) {c c' : Chunk} (h : SamePlace c c') : c'.contentEnd cfg = c.contentEnd cfg := by
  unfold Chunk.contentEnd; rw [h.1, h.2.1]

theorem Sim.props_eq {cfg : Cfg} {s t : State} (h : Sim s t) (hok : CurOK s) (L : Layout) (hh : Hints) :
    bumpProps cfg s L hh = bumpProps cfg t L hh := by
  obtain ⟨⟨hm, hc⟩, hcur, hpos⟩ := h
  unfold bumpProps freeRange
  rw [hm, hcur]
  obtain ⟨cu, hcu⟩ : ∃ cu, s.cur = cu := ⟨_, rfl⟩
  cases cu with
  | unallocated => simp only [hcu]
  | claimed => simp only [hcu]
  | chunk i =>
    have hi := hok i hcu
    obtain ⟨c', h1, sp⟩ := hc i _ (List.getElem?_eq_getElem hi)
    obtain ⟨c'', h2, hp⟩ := hpos i _ hcu (List.getElem?_eq_getElem hi)
    rw [h1] at h2; cases h2
    simp only [hcu, List.getElem?_eq_getElem hi, h1, hp, contentStart_congr cfg sp, contentEnd_congr cfg sp]

theorem Sim.setCurPos {s t : State} (h : Sim s t) (q : Nat) : Sim (Arena.setCurPos s q) (Arena.setCurPos t q) := by
  obtain ⟨⟨hm, hc⟩, hcur, hpos⟩ := h
  obtain ⟨cu, hcu⟩ : ∃ cu, s.cur = cu := ⟨_, rfl⟩
  have ht : t.cur = cu := hcur.trans hcu
  unfold Arena.setCurPos
  cases cu with
  | unallocated => simp only [hcu, ht]; exact ⟨⟨hm, hc⟩, hcur, hpos⟩
  | claimed => simp only [hcu, ht]; exact ⟨⟨hm, hc⟩, hcur, hpos⟩
  | chunk i =>
    simp only [hcu, ht]
    refine ⟨⟨hm, ?_⟩, hcur, ?_⟩
    · intro j c hj
      simp only [setPos_chunks, List.getElem?_modify] at hj ⊢
      cases hs : s.chunks[j]? with
      | none => rw [hs] at hj; simp at hj
      | some x =>
        obtain ⟨y, hy, sp⟩ := hc j x hs
        rw [hs] at hj
        rw [hy]
        by_cases hij : i = j
        · simp only [hij, ↓reduceIte, Option.map_eq_map, Option.map_some, Option.some.injEq, id_eq, Option.map_id'] at hj ⊢
          subst hj
          exact ⟨_, rfl, sp⟩
        · simp only [hij, ↓reduceIte, Option.map_eq_map, Option.map_some, Option.some.injEq, id_eq, Option.map_id'] at hj ⊢
          subst hj
          exact ⟨_, rfl, sp⟩
    · intro i' c hi' hci
      simp only [setPos_cur, hcu, Cur.chunk.injEq] at hi'
      subst hi'
      simp only [setPos_chunks, List.getElem?_modify, ↓reduceIte] at hci ⊢
      cases hs : s.chunks[i]? with
      | none => rw [hs] at hci; simp at hci
      | some x =>
        obtain ⟨y, hy, sp⟩ := hc i x hs
        rw [hs] at hci
        simp only [Option.map_eq_map, Option.map_some, Option.some.injEq] at hci
        subst hci
        rw [hy]
        exact ⟨_, rfl, rfl⟩

/-- `tryCur` in two similar states: same decision, same value, similar resulting states -/
theorem tryCur_mirror {cfg : Cfg} {k : Kind} {s t : State} {L : Layout} {hh : Hints} (h : Sim s t) (hok : CurOK s) :
    (tryCur cfg k s L hh = .ok none → tryCur cfg k t L hh = .ok none) ∧
    (∀ v s', tryCur cfg k s L hh = .ok (some (v, s')) →
      ∃ t', tryCur cfg k t L hh = .ok (some (v, t')) ∧ Sim s' t' ∧ t'.reqs = t.reqs ∧ t'.resps = t.resps ∧
        CovC t.chunks t'.chunks ∧ t'.chunks.length = t.chunks.length) := by
  rw [tryCur_eq_P, tryCur_eq_P, ← h.props_eq hok L hh]
  obtain ⟨m1, m2⟩ := tryCurP_mirror cfg k (bumpProps cfg s L hh) s t
  refine ⟨m1, fun v s' e => ?_⟩
  obtain ⟨t', e', hcase⟩ := m2 v s' e
  refine ⟨t', e', ?_⟩
  rcases hcase with ⟨rfl, rfl⟩ | ⟨q, rfl, rfl⟩
  · exact ⟨h, rfl, rfl, CovC.refl _, rfl⟩
  · refine ⟨h.setCurPos q, setCurPos_reqs _ _, setCurPos_resps _ _, ?_, setCurPos_length _ _⟩
    rcases setCurPos_eq t q with e1 | ⟨i, _, e1⟩
    · rw [e1]; exact CovC.refl _
    · rw [e1]; exact CovC.modify_pos _ _ _

/-! ## walkNext in a covering state -/
theorem resetPos_samePlace (cfg : Cfg) {c c' : Chunk} (h : SamePlace c c') :
    SamePlace (c.resetPos cfg) (c'.resetPos cfg) ∧ (c'.resetPos cfg).pos = (c.resetPos cfg).pos := by
  refine ⟨h, ?_⟩
  show (if cfg.up then c'.contentStart cfg else c'.contentEnd cfg) = (if cfg.up then c.contentStart cfg else c.contentEnd cfg)
  rw [contentStart_congr cfg h, contentEnd_congr cfg h]

/-- entering chunk `i+1` in two states of which the second covers the first -/
theorem Sim.enter (cfg : Cfg) {s t : State} {i : Nat} {c c' : Chunk} (h : Cov s t)
    (hc : s.chunks[i+1]? = some c) (hc' : t.chunks[i+1]? = some c') (sp : SamePlace c c') :
    Sim { s with chunks := s.chunks.set (i+1) (c.resetPos cfg), cur := .chunk (i+1) }
        { t with chunks := t.chunks.set (i+1) (c'.resetPos cfg), cur := .chunk (i+1) } := by
  obtain ⟨hm, hcov⟩ := h
  have hls := (List.getElem?_eq_some_iff.1 hc).1
  have hlt := (List.getElem?_eq_some_iff.1 hc').1
  refine ⟨⟨hm, ?_⟩, rfl, ?_⟩
  · intro j x hx
    show ∃ y, (t.chunks.set (i+1) (c'.resetPos cfg))[j]? = some y ∧ _
    have hx' : (s.chunks.set (i+1) (c.resetPos cfg))[j]? = some x := hx
    rw [List.getElem?_set] at hx' ⊢
    by_cases hij : i + 1 = j
    · simp only [hij, ↓reduceIte] at hx' ⊢
      subst hij
      simp only [hls, hlt, ↓reduceIte, Option.some.injEq] at hx' ⊢
      subst hx'
      exact ⟨_, rfl, (resetPos_samePlace cfg sp).1⟩
    · simp only [hij, ↓reduceIte] at hx' ⊢
      exact hcov j x hx'
  · intro i' x hi' hx
    simp only [Cur.chunk.injEq] at hi'
    subst hi'
    have hx' : (s.chunks.set (i+1) (c.resetPos cfg))[i+1]? = some x := hx
    show ∃ y, (t.chunks.set (i+1) (c'.resetPos cfg))[i+1]? = some y ∧ _
    rw [List.getElem?_set] at hx' ⊢
    simp only [↓reduceIte, hls, hlt, Option.some.injEq] at hx' ⊢
    subst hx'
    exact ⟨_, rfl, (resetPos_samePlace cfg sp).2⟩

theorem CovC.set_reset (cfg : Cfg) {l : List Chunk} {j : Nat} {c : Chunk} (hc : l[j]? = some c) :
    CovC l (l.set j (c.resetPos cfg)) := by
  intro k x hx
  rw [List.getElem?_set]
  have hl := (List.getElem?_eq_some_iff.1 hc).1
  by_cases hjk : j = k
  · subst hjk
    rw [hc] at hx; cases hx
    simp only [↓reduceIte, hl]
    exact ⟨_, rfl, SamePlace.refl _⟩
  · simp only [hjk, ↓reduceIte]
    exact ⟨x, hx, SamePlace.refl x⟩

/-- `walkNext` in a state `t` that covers `s` takes the same decisions as in `s` for all chunks of `s`:
    (a) if it finds room in `s` it finds the same room in `t`;
    (b) if it finds none in `s`, the walk in `t` continues behind the chunks of `s`. -/
theorem walkNext_mirror {cfg : Cfg} {k : Kind} {L : Layout} {hh : Hints} :
    ∀ (n i : Nat) (s t : State) (ft : Nat), Cov s t → s.chunks.length = i + 1 + n → n ≤ ft →
    (∀ v s' s2, walkNext cfg k L hh n i s = .ok (some (v, s'), s2) →
      ∃ t', walkNext cfg k L hh ft i t = .ok (some (v, t'), t') ∧ Sim s' t' ∧ t'.reqs = t.reqs ∧
        t'.resps = t.resps ∧ CovC t.chunks t'.chunks ∧ t'.chunks.length = t.chunks.length) ∧
    (∀ s', walkNext cfg k L hh n i s = .ok (none, s') →
      ∃ t', walkNext cfg k L hh ft i t = walkNext cfg k L hh (ft - n) (i + n) t' ∧ Cov s' t' ∧ t'.reqs = t.reqs ∧
        t'.resps = t.resps ∧ CovC t.chunks t'.chunks ∧ t'.chunks.length = t.chunks.length) := by
  intro n
  induction n with
  | zero =>
    intro i s t ft hcov hlen hft
    refine ⟨fun v s' s2 e => ?_, fun s' e => ?_⟩
    · simp only [walkNext, pure_eq_ok, Except.ok.injEq, Prod.mk.injEq] at e
      cases e.1
    · simp only [walkNext, pure_eq_ok, Except.ok.injEq, Prod.mk.injEq] at e
      obtain ⟨_, rfl⟩ := e
      exact ⟨t, rfl, hcov, rfl, rfl, CovC.refl _, rfl⟩
  | succ n ih =>
    intro i s t ft hcov hlen hft
    obtain ⟨ft', rfl⟩ : ∃ ft', ft = ft' + 1 := ⟨ft - 1, by omega⟩
    have hi1 : i + 1 < s.chunks.length := by omega
    have hc : s.chunks[i+1]? = some s.chunks[i+1] := List.getElem?_eq_getElem hi1
    obtain ⟨c', hc', sp⟩ := hcov.2 (i+1) _ hc
    have hsim := Sim.enter cfg hcov hc hc' sp
    have hok : CurOK { s with chunks := s.chunks.set (i+1) ((s.chunks[i+1]).resetPos cfg), cur := Cur.chunk (i+1) } := by
      intro j hj
      simp only [Cur.chunk.injEq] at hj
      subst hj
      show i + 1 < (s.chunks.set (i+1) _).length
      rw [List.length_set]; exact hi1
    obtain ⟨m1, m2⟩ := tryCur_mirror (cfg := cfg) (k := k) (L := L) (hh := hh) hsim hok
    have hcovt : CovC t.chunks (t.chunks.set (i+1) (c'.resetPos cfg)) := CovC.set_reset cfg hc'
    have hlent : (t.chunks.set (i+1) (c'.resetPos cfg)).length = t.chunks.length := List.length_set
    refine ⟨fun v s' s2 e => ?_, fun s' e => ?_⟩
    · unfold walkNext at e ⊢
      simp only [hc, hc'] at e ⊢
      obtain ⟨o, ho, e⟩ := bind_eq_ok e
      cases o with
      | some r =>
        simp only [pure_eq_ok, Except.ok.injEq, Prod.mk.injEq, Option.some.injEq] at e
        obtain ⟨rfl, rfl⟩ := e
        obtain ⟨t', ht', g1, g2, g3, g4, g5⟩ := m2 v s' ho
        refine ⟨t', ?_, g1, g2, g3, hcovt.trans g4, g5.trans hlent⟩
        rw [ht']; rfl
      | none =>
        simp only at e
        rw [m1 ho]
        simp only [bind_ok]
        have hlen' : ({ s with chunks := s.chunks.set (i+1) ((s.chunks[i+1]).resetPos cfg), cur := Cur.chunk (i+1) } : State).chunks.length
            = (i + 1) + 1 + n := by
          show (s.chunks.set (i+1) _).length = _
          rw [List.length_set]; omega
        obtain ⟨a1, _⟩ := ih (i+1) _ _ ft' hsim.1 hlen' (by omega)
        obtain ⟨t', ht', g1, g2, g3, g4, g5⟩ := a1 v s' s2 e
        exact ⟨t', ht', g1, g2, g3, hcovt.trans g4, g5.trans hlent⟩
    · unfold walkNext at e
      simp only [hc] at e
      obtain ⟨o, ho, e⟩ := bind_eq_ok e
      cases o with
      | some r =>
        simp only [pure_eq_ok, Except.ok.injEq, Prod.mk.injEq] at e
        cases e.1
      | none =>
        simp only at e
        have hlen' : ({ s with chunks := s.chunks.set (i+1) ((s.chunks[i+1]).resetPos cfg), cur := Cur.chunk (i+1) } : State).chunks.length
            = (i + 1) + 1 + n := by
          show (s.chunks.set (i+1) _).length = _
          rw [List.length_set]; omega
        obtain ⟨_, a2⟩ := ih (i+1) _ _ ft' hsim.1 hlen' (by omega)
        obtain ⟨t', ht', g1, g2, g3, g4, g5⟩ := a2 s' e
        refine ⟨t', ?_, g1, g2, g3, hcovt.trans g4, g5.trans hlent⟩
        have e1 : ft' + 1 - (n + 1) = ft' - n := by omega
        have e2 : i + (n + 1) = i + 1 + n := by omega
        rw [e1, e2, ← ht']
        conv => lhs; unfold walkNext
        simp only [hc', m1 ho, bind_ok]

/-! ## Replay of the slow path, of alloc and of a workload -/
theorem freshChunk_pos (cfg : Cfg) (p g size size' : Nat) :
    ((freshChunk cfg p g size size').resetPos cfg).pos = (freshChunk cfg p g size size').pos := by
  cases h : cfg.up <;> simp [freshChunk, Chunk.resetPos, Chunk.contentStart, Chunk.contentEnd, h]

/-- making chunk `j` current: in `s` it already is at its reset position, in `t` it is reset -/
theorem Sim.enterFresh (cfg : Cfg) {s t : State} {j : Nat} {c c' : Chunk} (h : Cov s t)
    (hc : s.chunks[j]? = some c) (hpos : (c.resetPos cfg).pos = c.pos)
    (hc' : t.chunks[j]? = some c') (sp : SamePlace c c') :
    Sim { s with cur := .chunk j }
        { t with chunks := t.chunks.set j (c'.resetPos cfg), cur := .chunk j } := by
  obtain ⟨hm, hcov⟩ := h
  have hlt := (List.getElem?_eq_some_iff.1 hc').1
  refine ⟨⟨hm, ?_⟩, rfl, ?_⟩
  · intro k x hx
    show ∃ y, (t.chunks.set j (c'.resetPos cfg))[k]? = some y ∧ _
    have hx' : s.chunks[k]? = some x := hx
    rw [List.getElem?_set]
    by_cases hjk : j = k
    · subst hjk
      rw [hc] at hx'; cases hx'
      simp only [↓reduceIte, hlt]
      exact ⟨_, rfl, sp⟩
    · simp only [hjk, ↓reduceIte]
      exact hcov k x hx'
  · intro i' x hi' hx
    simp only [Cur.chunk.injEq] at hi'
    subst hi'
    have hx' : s.chunks[j]? = some x := hx
    rw [hc] at hx'; cases hx'
    show ∃ y, (t.chunks.set j (c'.resetPos cfg))[j]? = some y ∧ _
    rw [List.getElem?_set]
    simp only [↓reduceIte, hlt]
    exact ⟨_, rfl, (resetPos_samePlace cfg sp).2.trans hpos⟩

/-- Replay of the slow path.  `s` is the state of the first run (current chunk `i`), `s1` its result
    (success with value `v`); `t` has the same current chunk and minimum alignment, covers the chunks
    of `s` and of `s1` (all chunks the first run ended with are still there).  Then the slow path in `t`
    succeeds with the same value and never consults the base allocator. -/
theorem inAnotherChunk_replay {cfg : Cfg} {k : Kind} {L : Layout} {hh : Hints} {s t s1 : State} {i : Nat}
    {v : Nat × Nat}
    (hcur : s.cur = .chunk i) (hi : i < s.chunks.length) (hcov : Cov s t) (htcur : t.cur = s.cur)
    (e : inAnotherChunk cfg k s L hh = .ok (s1, .ok v)) (hfin : CovC s1.chunks t.chunks) :
    ∃ t1, inAnotherChunk cfg k t L hh = .ok (t1, .ok v) ∧ Sim s1 t1 ∧ t1.reqs = t.reqs ∧ t1.resps = t.resps ∧
      CovC t.chunks t1.chunks ∧ t1.chunks.length = t.chunks.length ∧
      ∃ j, s1.cur = .chunk j ∧ j < s1.chunks.length := by
  rw [inAnotherChunk_eq] at e ⊢
  have htc : t.cur = .chunk i := htcur.trans hcur
  simp only [hcur] at e
  simp only [htc]
  obtain ⟨n, hn⟩ : ∃ n, s.chunks.length = i + 1 + n := ⟨s.chunks.length - (i+1), by omega⟩
  have hst := hcov.2.length_le
  have e1 : s.chunks.length - (i+1) = n := by omega
  rw [e1] at e
  obtain ⟨⟨o, sw⟩, hw, e⟩ := bind_eq_ok e
  obtain ⟨ma, mb⟩ := walkNext_mirror (cfg := cfg) (k := k) (L := L) (hh := hh) n i s t (t.chunks.length - (i+1))
    hcov hn (by omega)
  obtain ⟨w1, w2, w3, w4, w5, w6⟩ := walkNext_frame _ _ _ hw
  cases o with
  | some x =>
    obtain ⟨v', s'⟩ := x
    simp only [pure_eq_ok, Except.ok.injEq, Prod.mk.injEq] at e
    obtain ⟨rfl, rfl⟩ := e
    obtain ⟨t', ht', g1, g2, g3, g4, g5⟩ := ma v' s' sw hw
    refine ⟨t', by rw [ht']; rfl, g1, g2, g3, g4, g5, ?_⟩
    have hs' : s' = sw := w6 _ rfl
    subst hs'
    rw [w3]
    rcases w5 with h5 | ⟨j', _, hj2, hj3⟩
    · exact ⟨i, h5.trans hcur, hi⟩
    · exact ⟨j', hj3, hj2⟩
  | none =>
    simp only at e
    obtain ⟨⟨sa, r1⟩, ha, e⟩ := bind_eq_ok e
    cases r1 with
    | error er =>
      rw [appendStep_error] at e
      simp only [Except.ok.injEq, Prod.mk.injEq] at e; cases e.2
    | ok idx =>
      rw [appendStep_ok] at e
      simp only [freshStep] at e
      obtain ⟨o2, ho2, e⟩ := bind_eq_ok e
      cases o2 with
      | none => cases e
      | some x =>
        obtain ⟨v', s2⟩ := x
        simp only [pure_eq_ok, Except.ok.injEq, Prod.mk.injEq] at e
        obtain ⟨rfl, rfl⟩ := e
        -- the chunk that was created
        obtain ⟨last, _, hov | ⟨_, _, size, _, _, _, hnc⟩⟩ := appendFor_cases ha
        · cases hov.2
        rcases newChunk_cases hnc with ⟨_, _, h3⟩ | ⟨_, _, _, _, h3⟩ | ⟨_, p, g, rest, size', _, _, _, _, hsa, hidx⟩
        · cases h3
        · cases h3
        simp only [Except.ok.injEq] at hidx
        subst hidx
        obtain ⟨f1, f2, f3, f4, f5⟩ := tryCur_frame ho2
        have hsalen : sa.chunks.length = sw.chunks.length + 1 := by
          rw [hsa]; simp only [List.length_append, List.length_cons, List.length_nil]
        have hfreshAt : sa.chunks[sw.chunks.length]? = some (freshChunk cfg p g size size') := by
          rw [hsa]; simp only [List.getElem?_append_right (Nat.le_refl _), Nat.sub_self, List.getElem?_cons_zero]
        -- the replay walks past the chunks of `s`
        obtain ⟨t', ht', g1, g2, g3, g4, g5⟩ := mb sw hw
        have hs1len : s2.chunks.length = sw.chunks.length + 1 := by rw [← hsalen]; exact f4
        have hx0 := (f5 0 (fun _ _ => Nat.zero_le _)).chunk sw.chunks.length _ hfreshAt
        obtain ⟨x, hx, spx, _⟩ := hx0
        obtain ⟨y, hy, spy⟩ := hfin _ x hx
        obtain ⟨y', hy', spy'⟩ := g4 _ y hy
        have spf : SamePlace (freshChunk cfg p g size size') y' := (spx.trans spy).trans spy'
        have htl : sw.chunks.length < t.chunks.length := (List.getElem?_eq_some_iff.1 hy).1
        obtain ⟨m, hm⟩ : ∃ m, t.chunks.length - (i + 1) - n = m + 1 := ⟨t.chunks.length - (i+1) - n - 1, by omega⟩
        have hin : i + n + 1 = sw.chunks.length := by omega
        have hcovsa : Cov sa t' := by
          refine ⟨?_, ?_⟩
          · rw [g1.1, hsa]
          · intro j c hc
            rw [hsa] at hc
            simp only at hc
            by_cases hj : j < sw.chunks.length
            · rw [List.getElem?_append_left hj] at hc
              exact g1.2 j c hc
            · have hlt := (List.getElem?_eq_some_iff.1 hc).1
              simp only [List.length_append, List.length_cons, List.length_nil] at hlt
              have : j = sw.chunks.length := by omega
              subst this
              simp only [List.getElem?_append_right (Nat.le_refl _), Nat.sub_self, List.getElem?_cons_zero,
                Option.some.injEq] at hc
              subst hc
              exact ⟨y', hy', spf⟩
        have hsim := Sim.enterFresh cfg hcovsa hfreshAt (freshChunk_pos cfg p g size size') hy' spf
        have hok : CurOK { sa with cur := Cur.chunk sw.chunks.length } := by
          intro j hj
          simp only [Cur.chunk.injEq] at hj
          subst hj
          show sw.chunks.length < sa.chunks.length
          omega
        obtain ⟨_, m2⟩ := tryCur_mirror (cfg := cfg) (k := k) (L := L) (hh := hh) hsim hok
        obtain ⟨t1, ht1, q1, q2, q3, q4, q5⟩ := m2 v' s2 ho2
        refine ⟨t1, ?_, q1, q2.trans g2, q3.trans g3, g4.trans ((CovC.set_reset cfg hy').trans q4), ?_, ?_⟩
        · rw [ht', hm]
          unfold walkNext
          rw [hin]
          simp only [hy', ht1, bind_ok]
          rfl
        · rw [q5]; show (t'.chunks.set _ _).length = _; rw [List.length_set]; exact g5
        · exact ⟨sw.chunks.length, f1, by omega⟩

/-- replay of `allocGeneric` (fast path, then slow path) -/
theorem allocGeneric_replay {cfg : Cfg} {k : Kind} {L : Layout} {hh hs : Hints} {s t s1 : State} {i : Nat}
    {v : Nat × Nat}
    (hcur : s.cur = .chunk i) (hi : i < s.chunks.length) (hsim : Sim s t)
    (e : allocGeneric cfg k s L hh hs = .ok (s1, .ok v)) (hfin : CovC s1.chunks t.chunks) :
    ∃ t1, allocGeneric cfg k t L hh hs = .ok (t1, .ok v) ∧ Sim s1 t1 ∧ t1.reqs = t.reqs ∧ t1.resps = t.resps ∧
      CovC t.chunks t1.chunks ∧ t1.chunks.length = t.chunks.length ∧
      ∃ j, s1.cur = .chunk j ∧ j < s1.chunks.length := by
  have hok : CurOK s := fun j hj => by rw [hcur] at hj; cases hj; exact hi
  obtain ⟨m1, m2⟩ := tryCur_mirror (cfg := cfg) (k := k) (L := L) (hh := hh) hsim hok
  unfold allocGeneric at e ⊢
  obtain ⟨o, ho, e⟩ := bind_eq_ok e
  cases o with
  | some x =>
    obtain ⟨v', s'⟩ := x
    simp only [pure_eq_ok, Except.ok.injEq, Prod.mk.injEq] at e
    obtain ⟨rfl, rfl⟩ := e
    obtain ⟨t', ht', g1, g2, g3, g4, g5⟩ := m2 v' s' ho
    obtain ⟨f1, _, _, f4, _⟩ := tryCur_frame ho
    exact ⟨t', by rw [ht']; rfl, g1, g2, g3, g4, g5, i, f1.trans hcur, by rw [f4]; exact hi⟩
  | none =>
    simp only at e
    rw [m1 ho]
    simp only [bind_ok]
    exact inAnotherChunk_replay hcur hi hsim.1 hsim.2.1 e hfin

theorem alloc_replay {cfg : Cfg} {L : Layout} {s t s1 : State} {i p : Nat}
    (hcur : s.cur = .chunk i) (hi : i < s.chunks.length) (hsim : Sim s t)
    (e : alloc cfg s L = .ok (s1, .ok p)) (hfin : CovC s1.chunks t.chunks) :
    ∃ t1, alloc cfg t L = .ok (t1, .ok p) ∧ Sim s1 t1 ∧ t1.reqs = t.reqs ∧ t1.resps = t.resps ∧
      CovC t.chunks t1.chunks ∧ t1.chunks.length = t.chunks.length ∧
      ∃ j, s1.cur = .chunk j ∧ j < s1.chunks.length := by
  unfold alloc at e ⊢
  obtain ⟨⟨s', r⟩, h1, e⟩ := bind_eq_ok e
  simp only [pure_eq_ok, Except.ok.injEq, Prod.mk.injEq] at e
  obtain ⟨rfl, h2⟩ := e
  cases r with
  | error er => simp only [Except.map] at h2; cases h2
  | ok v =>
    simp only [Except.map, Except.ok.injEq] at h2
    obtain ⟨t1, g0, g⟩ := allocGeneric_replay hcur hi hsim h1 hfin
    refine ⟨t1, ?_, g⟩
    rw [g0]
    simp only [bind_ok, pure_eq_ok, Except.map, h2]

/-- a workload: a sequence of allocations that all succeed, with the addresses returned -/
inductive Run (cfg : Cfg) : State → List Layout → State → List Nat → Prop
  | nil (s : State) : Run cfg s [] s []
  | cons {s s1 s' : State} {L : Layout} {Ls : List Layout} {p : Nat} {ps : List Nat} :
      alloc cfg s L = .ok (s1, .ok p) → Run cfg s1 Ls s' ps → Run cfg s (L :: Ls) s' (p :: ps)

theorem Run.ext {cfg : Cfg} {s s' : State} {Ls : List Layout} {ps : List Nat} (h : Run cfg s Ls s' ps) :
    Ext 0 s s' := by
  induction h with
  | nil s => exact Ext.refl 0 s
  | cons ha _ ih => exact ((alloc_frame ha).1 0 (fun _ _ => Nat.zero_le _)).trans ih

/-- replaying a whole workload in a state that has the same current chunk and position as the start
    of the first run and still has all chunks the first run ended with: every allocation succeeds
    at the same address and the base allocator is never consulted -/
theorem Run.replay {cfg : Cfg} {s s' : State} {Ls : List Layout} {ps : List Nat} (h : Run cfg s Ls s' ps) :
    ∀ (t : State), (∃ i, s.cur = .chunk i ∧ i < s.chunks.length) → Sim s t → CovC s'.chunks t.chunks →
    ∃ t', Run cfg t Ls t' ps ∧ t'.reqs = t.reqs ∧ t'.resps = t.resps ∧ Sim s' t' ∧
      t'.chunks.length = t.chunks.length ∧ ∃ j, s'.cur = .chunk j ∧ j < s'.chunks.length := by
  induction h with
  | nil s => intro t hc hsim _; exact ⟨t, Run.nil t, rfl, rfl, hsim, rfl, hc⟩
  | cons ha hr ih =>
    intro t ⟨i, hcur, hi⟩ hsim hfin
    obtain ⟨t1, g0, g1, g2, g3, g4, g5, g6⟩ := alloc_replay hcur hi hsim ha (hr.ext.covC.trans hfin)
    obtain ⟨t', r0, r1, r2, r3, r4, r5⟩ := ih t1 g6 g1 (hfin.trans g4)
    exact ⟨t', Run.cons g0 r0, r1.trans g2, r2.trans g3, r3, r4.trans g5, r5⟩

end Ledger
