/-
  Lemmas/LedgerReplay.lean — replaying an allocation in a state that has (at least) the chunks the
  first run ended with, and the same current chunk and position the first run started from, takes
  the same decisions, returns the same address and never consults the base allocator.
-/
import BumpProof.Lemmas.LedgerScope

set_option linter.unusedSimpArgs false
set_option linter.unusedVariables false

namespace Ledger
open Arena Rs

/-! ## tryCur only depends on the bump properties -/
/-- `tryCur` with the bump properties passed explicitly -/
def tryCurP (cfg : Cfg) (k : Kind) (props : Gen.Bumping.BumpProps) (s : State) : R (Option ((Nat × Nat) × State)) := do
  match k with
  | .alloc =>
    if cfg.up then
      match ← Arena.liftM (Gen.Bumping.bump_up props) with
      | none => pure none
      | some r => pure (some ((r.ptr, 0), setCurPos s r.new_pos))
    else
      match ← Arena.liftM (Gen.Bumping.bump_down props) with
      | none => pure none
      | some p => pure (some ((p, 0), setCurPos s p))
  | .prepare =>
    if cfg.up then
      match ← Arena.liftM (Gen.Bumping.bump_up props) with
      | none => pure none
      | some r => pure (some ((r.ptr, 0), s))
    else
      match ← Arena.liftM (Gen.Bumping.bump_down props) with
      | none => pure none
      | some p => pure (some ((p, 0), s))
  | .range =>
    let r ← Arena.liftM (if cfg.up then Gen.Bumping.bump_prepare_up props else Gen.Bumping.bump_prepare_down props)
    match r with
    | none => pure none
    | some x => pure (some (x, s))

theorem tryCur_eq_P (cfg : Cfg) (k : Kind) (s : State) (L : Layout) (h : Hints) :
    tryCur cfg k s L h = tryCurP cfg k (bumpProps cfg s L h) s := by
  unfold tryCur tryCurP; rfl

/-- the decision of `tryCurP` and the value returned do not depend on the state; the new state is
    the old one or the old one with a new current position that does not depend on the state -/
theorem tryCurP_mirror (cfg : Cfg) (k : Kind) (props : Gen.Bumping.BumpProps) (s t : State) :
    (tryCurP cfg k props s = .ok none → tryCurP cfg k props t = .ok none) ∧
    (∀ v s', tryCurP cfg k props s = .ok (some (v, s')) →
      ∃ t', tryCurP cfg k props t = .ok (some (v, t')) ∧
        ((s' = s ∧ t' = t) ∨ ∃ q, s' = setCurPos s q ∧ t' = setCurPos t q)) := by
  unfold tryCurP
  cases k with
  | alloc =>
    by_cases hup : cfg.up = true
    · simp only [hup, ↓reduceIte]
      cases Arena.liftM (Gen.Bumping.bump_up props) with
      | error f => exact ⟨fun h => (by cases h), fun v s' h => (by cases h)⟩
      | ok o =>
        cases o with
        | none => exact ⟨fun _ => rfl, fun v s' h => (by cases h)⟩
        | some r =>
          refine ⟨fun h => (by cases h), fun v s' h => ?_⟩
          simp only [bind_ok, pure_eq_ok, Except.ok.injEq, Option.some.injEq, Prod.mk.injEq] at h
          obtain ⟨rfl, rfl⟩ := h
          exact ⟨_, rfl, Or.inr ⟨_, rfl, rfl⟩⟩
    · simp only [hup, Bool.false_eq_true, ↓reduceIte]
      cases Arena.liftM (Gen.Bumping.bump_down props) with
      | error f => exact ⟨fun h => (by cases h), fun v s' h => (by cases h)⟩
      | ok o =>
        cases o with
        | none => exact ⟨fun _ => rfl, fun v s' h => (by cases h)⟩
        | some r =>
          refine ⟨fun h => (by cases h), fun v s' h => ?_⟩
          simp only [bind_ok, pure_eq_ok, Except.ok.injEq, Option.some.injEq, Prod.mk.injEq] at h
          obtain ⟨rfl, rfl⟩ := h
          exact ⟨_, rfl, Or.inr ⟨_, rfl, rfl⟩⟩
  | prepare =>
    by_cases hup : cfg.up = true
    · simp only [hup, ↓reduceIte]
      cases Arena.liftM (Gen.Bumping.bump_up props) with
      | error f => exact ⟨fun h => (by cases h), fun v s' h => (by cases h)⟩
      | ok o =>
        cases o with
        | none => exact ⟨fun _ => rfl, fun v s' h => (by cases h)⟩
        | some r =>
          refine ⟨fun h => (by cases h), fun v s' h => ?_⟩
          simp only [bind_ok, pure_eq_ok, Except.ok.injEq, Option.some.injEq, Prod.mk.injEq] at h
          obtain ⟨rfl, rfl⟩ := h
          exact ⟨_, rfl, Or.inl ⟨rfl, rfl⟩⟩
    · simp only [hup, Bool.false_eq_true, ↓reduceIte]
      cases Arena.liftM (Gen.Bumping.bump_down props) with
      | error f => exact ⟨fun h => (by cases h), fun v s' h => (by cases h)⟩
      | ok o =>
        cases o with
        | none => exact ⟨fun _ => rfl, fun v s' h => (by cases h)⟩
        | some r =>
          refine ⟨fun h => (by cases h), fun v s' h => ?_⟩
          simp only [bind_ok, pure_eq_ok, Except.ok.injEq, Option.some.injEq, Prod.mk.injEq] at h
          obtain ⟨rfl, rfl⟩ := h
          exact ⟨_, rfl, Or.inl ⟨rfl, rfl⟩⟩
  | range =>
    simp only
    cases Arena.liftM (if cfg.up = true then Gen.Bumping.bump_prepare_up props else Gen.Bumping.bump_prepare_down props) with
    | error f => exact ⟨fun h => (by cases h), fun v s' h => (by cases h)⟩
    | ok o =>
      cases o with
      | none => exact ⟨fun _ => rfl, fun v s' h => (by cases h)⟩
      | some r =>
        refine ⟨fun h => (by cases h), fun v s' h => ?_⟩
        simp only [bind_ok, pure_eq_ok, Except.ok.injEq, Option.some.injEq, Prod.mk.injEq] at h
        obtain ⟨rfl, rfl⟩ := h
        exact ⟨_, rfl, Or.inl ⟨rfl, rfl⟩⟩

/-! ## Similar states -/
/-- every chunk of `a` is present in `b` at the same index, with the same range and bytes -/
def CovC (a b : List Chunk) : Prop := ∀ (j : Nat) (c : Chunk), a[j]? = some c → ∃ c', b[j]? = some c' ∧ SamePlace c c'

theorem CovC.refl (a : List Chunk) : CovC a a := fun j c h => ⟨c, h, SamePlace.refl c⟩
theorem CovC.trans {a b c : List Chunk} (h1 : CovC a b) (h2 : CovC b c) : CovC a c := fun j x hx => by
  obtain ⟨y, hy, s1⟩ := h1 j x hx
  obtain ⟨z, hz, s2⟩ := h2 j y hy
  exact ⟨z, hz, s1.trans s2⟩
theorem CovC.length_le {a b : List Chunk} (h : CovC a b) : a.length ≤ b.length := by
  by_cases hl : a.length = 0
  · omega
  · have hlt : a.length - 1 < a.length := by omega
    obtain ⟨c', h1, _⟩ := h (a.length - 1) _ (List.getElem?_eq_getElem hlt)
    have := (List.getElem?_eq_some_iff.1 h1).1
    omega
theorem Ext.covC {n : Nat} {s s' : State} (h : Ext n s s') : CovC s.chunks s'.chunks := fun j c hc => by
  obtain ⟨c', h1, sp, _⟩ := h.chunk j c hc
  exact ⟨c', h1, sp⟩

theorem SamePlace.symm {a b : Chunk} (h : SamePlace a b) : SamePlace b a :=
  ⟨h.1.symm, h.2.1.symm, h.2.2.1.symm, h.2.2.2.1.symm, h.2.2.2.2.symm⟩

theorem CovC.modify_pos (l : List Chunk) (i q : Nat) : CovC l (l.modify i (fun c => { c with pos := q })) :=
  fun j c hc => by
    simp only [List.getElem?_modify, hc, Option.map_some]
    by_cases hij : i = j
    · simp only [hij, ↓reduceIte]; exact ⟨_, rfl, SamePlace.refl c⟩
    · simp only [hij, ↓reduceIte]; exact ⟨c, rfl, SamePlace.refl c⟩

/-- `t` has the minimum alignment of `s` and covers its chunks -/
def Cov (s t : State) : Prop := t.minAlign = s.minAlign ∧ CovC s.chunks t.chunks

/-- … and additionally the same current chunk at the same position -/
def Sim (s t : State) : Prop :=
  Cov s t ∧ t.cur = s.cur ∧
  ∀ i c, s.cur = .chunk i → s.chunks[i]? = some c → ∃ c', t.chunks[i]? = some c' ∧ c'.pos = c.pos

/-- the current chunk exists -/
def CurOK (s : State) : Prop := ∀ i, s.cur = .chunk i → i < s.chunks.length

theorem contentStart_congr (cfg : Cfg) {c c' : Chunk} (h : SamePlace c c') : c'.contentStart cfg = c.contentStart cfg := by
  unfold Chunk.contentStart; rw [h.1]
theorem contentEnd_congr (cfg : Cfg) {c c' : Chunk} (h : SamePlace c c') : c'.contentEnd cfg = c.contentEnd cfg := by
  unfold Chunk.contentEnd; rw [h.1, h.2.1]

theorem Sim.props_eq {cfg : Cfg} {s t : State} (h : Sim s t) (hok : CurOK s) (L : Layout) (hh : Hints) :
    bumpProps cfg s L hh = bumpProps cfg t L hh := by
  obtain ⟨⟨hm, hc⟩, hcur, hpos⟩ := h
  unfold bumpProps freeRange
  rw [hm, hcur]
  obtain ⟨cu, hcu⟩ : ∃ cu, s.cur = cu := ⟨_, rfl⟩
  cases cu with
  | unallocated => simp only [hcu]
  | claimed => simp only [hcu]
  | chunk i =>
    have hi := hok i hcu
    obtain ⟨c', h1, sp⟩ := hc i _ (List.getElem?_eq_getElem hi)
    obtain ⟨c'', h2, hp⟩ := hpos i _ hcu (List.getElem?_eq_getElem hi)
    rw [h1] at h2; cases h2
    simp only [hcu, List.getElem?_eq_getElem hi, h1, hp, contentStart_congr cfg sp, contentEnd_congr cfg sp]

theorem Sim.setCurPos {s t : State} (h : Sim s t) (q : Nat) : Sim (Arena.setCurPos s q) (Arena.setCurPos t q) := by
  obtain ⟨⟨hm, hc⟩, hcur, hpos⟩ := h
  obtain ⟨cu, hcu⟩ : ∃ cu, s.cur = cu := ⟨_, rfl⟩
  have ht : t.cur = cu := hcur.trans hcu
  unfold Arena.setCurPos
  cases cu with
  | unallocated => simp only [hcu, ht]; exact ⟨⟨hm, hc⟩, hcur, hpos⟩
  | claimed => simp only [hcu, ht]; exact ⟨⟨hm, hc⟩, hcur, hpos⟩
  | chunk i =>
    simp only [hcu, ht]
    refine ⟨⟨hm, ?_⟩, hcur, ?_⟩
    · intro j c hj
      simp only [setPos_chunks, List.getElem?_modify] at hj ⊢
      cases hs : s.chunks[j]? with
      | none => rw [hs] at hj; simp at hj
      | some x =>
        obtain ⟨y, hy, sp⟩ := hc j x hs
        rw [hs] at hj
        rw [hy]
        by_cases hij : i = j
        · simp only [hij, ↓reduceIte, Option.map_eq_map, Option.map_some, Option.some.injEq, id_eq, Option.map_id'] at hj ⊢
          subst hj
          exact ⟨_, rfl, sp⟩
        · simp only [hij, ↓reduceIte, Option.map_eq_map, Option.map_some, Option.some.injEq, id_eq, Option.map_id'] at hj ⊢
          subst hj
          exact ⟨_, rfl, sp⟩
    · intro i' c hi' hci
      simp only [setPos_cur, hcu, Cur.chunk.injEq] at hi'
      subst hi'
      simp only [setPos_chunks, List.getElem?_modify, ↓reduceIte] at hci ⊢
      cases hs : s.chunks[i]? with
      | none => rw [hs] at hci; simp at hci
      | some x =>
        obtain ⟨y, hy, sp⟩ := hc i x hs
        rw [hs] at hci
        simp only [Option.map_eq_map, Option.map_some, Option.some.injEq] at hci
        subst hci
        rw [hy]
        exact ⟨_, rfl, rfl⟩

/-- `tryCur` in two similar states: same decision, same value, similar resulting states -/
theorem tryCur_mirror {cfg : Cfg} {k : Kind} {s t : State} {L : Layout} {hh : Hints} (h : Sim s t) (hok : CurOK s) :
    (tryCur cfg k s L hh = .ok none → tryCur cfg k t L hh = .ok none) ∧
    (∀ v s', tryCur cfg k s L hh = .ok (some (v, s')) →
      ∃ t', tryCur cfg k t L hh = .ok (some (v, t')) ∧ Sim s' t' ∧ t'.reqs = t.reqs ∧ t'.resps = t.resps ∧
        CovC t.chunks t'.chunks ∧ t'.chunks.length = t.chunks.length) := by
  rw [tryCur_eq_P, tryCur_eq_P, ← h.props_eq hok L hh]
  obtain ⟨m1, m2⟩ := tryCurP_mirror cfg k (bumpProps cfg s L hh) s t
  refine ⟨m1, fun v s' e => ?_⟩
  obtain ⟨t', e', hcase⟩ := m2 v s' e
  refine ⟨t', e', ?_⟩
  rcases hcase with ⟨rfl, rfl⟩ | ⟨q, rfl, rfl⟩
  · exact ⟨h, rfl, rfl, CovC.refl _, rfl⟩
  · refine ⟨h.setCurPos q, setCurPos_reqs _ _, setCurPos_resps _ _, ?_, setCurPos_length _ _⟩
    rcases setCurPos_eq t q with e1 | ⟨i, _, e1⟩
    · rw [e1]; exact CovC.refl _
    · rw [e1]; exact CovC.modify_pos _ _ _

end Ledger
