/-
  Lemmas/Hist2Frames.lean — how one `stepCore` moves the stack of open regions: every constructor either
  leaves regions, marks and minimum alignment alone (`Trail`), pushes one region, pops one region, or needs
  an empty stack.  In all but the last case every chunk stays in place.
-/
import BumpProof.Lemmas.Hist2Trail

set_option linter.unusedSimpArgs false
set_option linter.unusedVariables false

namespace Arena
/-- regions that carry a mark (they forget their blocks when they end) -/
def Frame.scopeLike : Frame → Bool
  | .scope _ => true
  | .scopedAligned _ _ => true
  | _ => false

/-- the minimum alignment in force just outside a region, given the one in force inside -/
def Frame.below : Frame → Nat → Nat
  | .alignedLower o _, _ => o
  | .alignedRaise o, _ => o
  | .scopedAligned _ o, _ => o
  | _, ma => ma

/-- operations that need exclusive access to the whole arena (`&mut self` / by value): they are rejected while
    any region is open -/
def Op.isBare : Op → Bool
  | .drop => true
  | .reset => true
  | .resetToStart => true
  | .withSettings _ _ _ => true
  | _ => false
end Arena

namespace Arena.Hist
open Rs Ledger

variable {cfg : Cfg}

/-- what one operation does to the region stack -/
inductive FrameStep (g g' : GState) : Prop
  | same : Trail g.s g'.s → g'.marks = g.marks → FrameStep g g'
  | push (f : Frame) : g'.s.frames = f :: g.s.frames →
      g'.marks = (if f.scopeLike then g.s.nextId :: g.marks else g.marks) →
      f.below g'.s.minAlign = g.s.minAlign → ChunksCov g.s g'.s → FrameStep g g'
  | pop (f : Frame) (m : Nat) : g.s.frames = f :: g'.s.frames →
      g.marks = (if f.scopeLike then m :: g'.marks else g'.marks) →
      g'.s.minAlign = f.below g.s.minAlign → ChunksCov g.s g'.s → FrameStep g g'

/-- take one constructor of `stepCore` apart -/
syntax "fs_op " ident : tactic
macro_rules
  | `(tactic| fs_op $h) =>
    `(tactic| (unfold stepCore at $h:ident
               simp only [bind, Except.bind, pure, Except.pure, throw, throwThe, MonadExceptOf.throw,
                 okOut, addBlock, removeBlock, killFrom, Bool.false_eq_true, ↓reduceIte, Bool.true_or, Bool.false_or] at $h:ident
               (repeat' split at $h:ident) <;> (first | (cases $h:ident; done) | cases $h:ident)))

syntax "fs_same " ident : tactic
macro_rules
  | `(tactic| fs_same $h) =>
    `(tactic| (fs_op $h) <;> (refine FrameStep.same ?_ rfl; tr_auto))

theorem fs_scopeEnter {g g' : GState} {out : Out}
    (hs : stepCore cfg g .scopeEnter = .ok (g', out)) : FrameStep g g' := by
  fs_op hs
  exact FrameStep.push (.scope _) rfl rfl rfl (ChunksCov.refl _)

theorem fs_claim {g g' : GState} {out : Out}
    (hs : stepCore cfg g .claim = .ok (g', out)) : FrameStep g g' := by
  fs_op hs
  exact FrameStep.push .claim rfl rfl rfl (ChunksCov.refl _)

theorem fs_claimEnd {g g' : GState} {out : Out}
    (hs : stepCore cfg g .claimEnd = .ok (g', out)) : FrameStep g g' := by
  fs_op hs
  exact FrameStep.pop .claim 0 (by assumption) rfl rfl (ChunksCov.refl _)

theorem fs_scopeExit {g g' : GState} {out : Out}
    (hs : stepCore cfg g .scopeExit = .ok (g', out)) : FrameStep g g' := by
  fs_op hs
  rename_i cp rest m ms hf hm _ s' hr
  exact FrameStep.pop (.scope cp) m hf hm (tr_resetTo hr).minAlign (tr_resetTo hr).cov

theorem fs_scopedAlignedExit {g g' : GState} {out : Out}
    (hs : stepCore cfg g .scopedAlignedExit = .ok (g', out)) : FrameStep g g' := by
  fs_op hs
  rename_i cp outer rest m ms hf hm _ s' hr
  exact FrameStep.pop (.scopedAligned cp outer) m hf hm (tr_resetTo hr).minAlign (tr_resetTo hr).cov

theorem fs_alignedEnter {g g' : GState} {out : Out} {n : Nat}
    (hs : stepCore cfg g (.alignedEnter n) = .ok (g', out)) : FrameStep g g' := by
  fs_op hs
  · exact FrameStep.push (.alignedLower _ _) rfl rfl rfl (ChunksCov.refl _)
  · rename_i v hv
    exact FrameStep.push (.alignedRaise _) rfl rfl rfl (tr_alignTo hv).cov

theorem fs_alignedExit {g g' : GState} {out : Out}
    (hs : stepCore cfg g .alignedExit = .ok (g', out)) : FrameStep g g' := by
  fs_op hs
  · rename_i v1 hv1 _ v hv
    exact FrameStep.pop (.alignedLower _ _) 0 (by assumption) rfl rfl
      ((tr_alignGuardDrop hv1).cov.trans (tr_alignChunkAt hv).cov)
  · exact FrameStep.pop (.alignedRaise _) 0 (by assumption) rfl rfl (ChunksCov.refl _)

theorem fs_scopedAlignedEnter {g g' : GState} {out : Out} {n : Nat}
    (hs : stepCore cfg g (.scopedAlignedEnter n) = .ok (g', out)) : FrameStep g g' := by
  fs_op hs
  rename_i v hv
  exact FrameStep.push (.scopedAligned _ _) rfl rfl rfl (tr_alignTo hv).cov

theorem fs_drop {g g' : GState} {out : Out}
    (hs : stepCore cfg g .drop = .ok (g', out)) : g.s.frames = [] := by
  fs_op hs
  exact noFrames_ok (by assumption)

theorem fs_reset {g g' : GState} {out : Out}
    (hs : stepCore cfg g .reset = .ok (g', out)) : g.s.frames = [] := by
  fs_op hs
  exact noFrames_ok (by assumption)

theorem fs_resetToStart {g g' : GState} {out : Out}
    (hs : stepCore cfg g .resetToStart = .ok (g', out)) : g.s.frames = [] := by
  fs_op hs
  exact noFrames_ok (by assumption)

theorem fs_withSettings {g g' : GState} {out : Out} {n : Nat} {ga cl : Bool}
    (hs : stepCore cfg g (.withSettings n ga cl) = .ok (g', out)) : g.s.frames = [] := by
  fs_op hs <;> exact noFrames_ok (by assumption)

/-! the constructors that leave the region stack alone -/

theorem fs_newWithSize {g g' : GState} {out : Out} {n : Nat}
    (hs : stepCore cfg g (.newWithSize n) = .ok (g', out)) : FrameStep g g' := by fs_same hs
theorem fs_newWithCapacity {g g' : GState} {out : Out} {L : Layout}
    (hs : stepCore cfg g (.newWithCapacity L) = .ok (g', out)) : FrameStep g g' := by fs_same hs
theorem fs_newUnallocated {g g' : GState} {out : Out}
    (hs : stepCore cfg g .newUnallocated = .ok (g', out)) : FrameStep g g' := by fs_same hs
theorem fs_allocate {g g' : GState} {out : Out} {L : Layout} {z : Bool} {via : Via}
    (hs : stepCore cfg g (.allocate L z via) = .ok (g', out)) : FrameStep g g' := by fs_same hs
theorem fs_deallocate {g g' : GState} {out : Out} {b : Nat} {via : Via}
    (hs : stepCore cfg g (.deallocate b via) = .ok (g', out)) : FrameStep g g' := by fs_same hs
theorem fs_grow {g g' : GState} {out : Out} {b : Nat} {L : Layout} {z : Bool} {via : Via}
    (hs : stepCore cfg g (.grow b L z via) = .ok (g', out)) : FrameStep g g' := by fs_same hs
theorem fs_shrink {g g' : GState} {out : Out} {b : Nat} {L : Layout} {via : Via}
    (hs : stepCore cfg g (.shrink b L via) = .ok (g', out)) : FrameStep g g' := by fs_same hs
theorem fs_allocLayout {g g' : GState} {out : Out} {L : Layout} {hh : Hints}
    (hs : stepCore cfg g (.allocLayout L hh) = .ok (g', out)) : FrameStep g g' := by fs_same hs
theorem fs_shrinkSlice {g g' : GState} {out : Out} {b n : Nat}
    (hs : stepCore cfg g (.shrinkSlice b n) = .ok (g', out)) : FrameStep g g' := by fs_same hs
theorem fs_prepare {g g' : GState} {out : Out} {L : Layout}
    (hs : stepCore cfg g (.prepare L) = .ok (g', out)) : FrameStep g g' := by fs_same hs
theorem fs_commit {g g' : GState} {out : Out} {size : Nat} {rev : Bool}
    (hs : stepCore cfg g (.commit size rev) = .ok (g', out)) : FrameStep g g' := by fs_same hs
theorem fs_prepareSlice {g g' : GState} {out : Out} {esize ealign minCap : Nat} {rev : Bool}
    (hs : stepCore cfg g (.prepareSlice esize ealign minCap rev) = .ok (g', out)) : FrameStep g g' := by fs_same hs
theorem fs_fillPrepared {g g' : GState} {out : Out} {len seed : Nat}
    (hs : stepCore cfg g (.fillPrepared len seed) = .ok (g', out)) : FrameStep g g' := by fs_same hs
theorem fs_commitSlice {g g' : GState} {out : Out} {len : Nat}
    (hs : stepCore cfg g (.commitSlice len) = .ok (g', out)) : FrameStep g g' := by fs_same hs
theorem fs_abandonPrepared {g g' : GState} {out : Out}
    (hs : stepCore cfg g .abandonPrepared = .ok (g', out)) : FrameStep g g' := by fs_same hs
theorem fs_reserve {g g' : GState} {out : Out} {n : Nat} {dyn : Bool}
    (hs : stepCore cfg g (.reserve n dyn) = .ok (g', out)) : FrameStep g g' := by cases dyn <;> fs_same hs
theorem fs_checkpoint {g g' : GState} {out : Out} {k : Nat}
    (hs : stepCore cfg g (.checkpoint k) = .ok (g', out)) : FrameStep g g' := by fs_same hs
theorem fs_resetTo {g g' : GState} {out : Out} {k : Nat}
    (hs : stepCore cfg g (.resetTo k) = .ok (g', out)) : FrameStep g g' := by fs_same hs
theorem fs_onClaimed {g g' : GState} {out : Out} {op : Op}
    (hs : stepCore cfg g (.onClaimed op) = .ok (g', out)) : FrameStep g g' := by fs_same hs
theorem fs_write {g g' : GState} {out : Out} {b seed : Nat}
    (hs : stepCore cfg g (.write b seed) = .ok (g', out)) : FrameStep g g' := by fs_same hs
theorem fs_split {g g' : GState} {out : Out} {b a : Nat}
    (hs : stepCore cfg g (.split b a) = .ok (g', out)) : FrameStep g g' := by fs_same hs
theorem fs_atw1 {g g' : GState} {out : Out} {L Li : Layout} {off vsize : Nat}
    (hs : stepCore cfg g (.allocTryWith L off vsize false none false) = .ok (g', out)) : FrameStep g g' := by fs_same hs
theorem fs_atw2 {g g' : GState} {out : Out} {L Li : Layout} {off vsize : Nat}
    (hs : stepCore cfg g (.allocTryWith L off vsize true none false) = .ok (g', out)) : FrameStep g g' := by fs_same hs
theorem fs_atw3 {g g' : GState} {out : Out} {L Li : Layout} {off vsize : Nat}
    (hs : stepCore cfg g (.allocTryWith L off vsize false none true) = .ok (g', out)) : FrameStep g g' := by fs_same hs
theorem fs_atw4 {g g' : GState} {out : Out} {L Li : Layout} {off vsize : Nat}
    (hs : stepCore cfg g (.allocTryWith L off vsize true none true) = .ok (g', out)) : FrameStep g g' := by fs_same hs
theorem fs_atw5 {g g' : GState} {out : Out} {L Li : Layout} {off vsize : Nat}
    (hs : stepCore cfg g (.allocTryWith L off vsize false (some Li) false) = .ok (g', out)) : FrameStep g g' := by fs_same hs
theorem fs_atw6 {g g' : GState} {out : Out} {L Li : Layout} {off vsize : Nat}
    (hs : stepCore cfg g (.allocTryWith L off vsize true (some Li) false) = .ok (g', out)) : FrameStep g g' := by fs_same hs
theorem fs_atw7 {g g' : GState} {out : Out} {L Li : Layout} {off vsize : Nat}
    (hs : stepCore cfg g (.allocTryWith L off vsize false (some Li) true) = .ok (g', out)) : FrameStep g g' := by fs_same hs
theorem fs_atw8 {g g' : GState} {out : Out} {L Li : Layout} {off vsize : Nat}
    (hs : stepCore cfg g (.allocTryWith L off vsize true (some Li) true) = .ok (g', out)) : FrameStep g g' := by fs_same hs
theorem fs_allocTryWith {g g' : GState} {out : Out} {L : Layout} {off vsize : Nat} {ok : Bool}
    {inner : Option Layout} {m : Bool}
    (hs : stepCore cfg g (.allocTryWith L off vsize ok inner m) = .ok (g', out)) : FrameStep g g' := by
  cases inner <;> cases m <;> cases ok
  · exact fs_atw1 (Li := L) hs
  · exact fs_atw2 (Li := L) hs
  · exact fs_atw3 (Li := L) hs
  · exact fs_atw4 (Li := L) hs
  · exact fs_atw5 hs
  · exact fs_atw6 hs
  · exact fs_atw7 hs
  · exact fs_atw8 hs

/-- every constructor: an exclusive-access operation ran on an empty region stack, every other one moves the
    region stack by at most one region and keeps every chunk in place -/
theorem stepCore_frameStep {g g' : GState} {op : Op} {out : Out}
    (hs : stepCore cfg g op = .ok (g', out)) : (g.s.frames = [] ∧ op.isBare = true) ∨ FrameStep g g' := by
  cases op with
  | drop => exact .inl ⟨fs_drop hs, rfl⟩
  | reset => exact .inl ⟨fs_reset hs, rfl⟩
  | resetToStart => exact .inl ⟨fs_resetToStart hs, rfl⟩
  | withSettings n ga cl => exact .inl ⟨fs_withSettings hs, rfl⟩
  | newWithSize n => exact .inr (fs_newWithSize hs)
  | newWithCapacity L => exact .inr (fs_newWithCapacity hs)
  | newUnallocated => exact .inr (fs_newUnallocated hs)
  | allocate L z via => exact .inr (fs_allocate hs)
  | deallocate b via => exact .inr (fs_deallocate hs)
  | grow b L z via => exact .inr (fs_grow hs)
  | shrink b L via => exact .inr (fs_shrink hs)
  | allocLayout L hh => exact .inr (fs_allocLayout hs)
  | shrinkSlice b n => exact .inr (fs_shrinkSlice hs)
  | prepare L => exact .inr (fs_prepare hs)
  | commit size rev => exact .inr (fs_commit hs)
  | prepareSlice esize ealign minCap rev => exact .inr (fs_prepareSlice hs)
  | fillPrepared len seed => exact .inr (fs_fillPrepared hs)
  | commitSlice len => exact .inr (fs_commitSlice hs)
  | abandonPrepared => exact .inr (fs_abandonPrepared hs)
  | reserve n dyn => exact .inr (fs_reserve hs)
  | scopeEnter => exact .inr (fs_scopeEnter hs)
  | scopeExit => exact .inr (fs_scopeExit hs)
  | checkpoint k => exact .inr (fs_checkpoint hs)
  | resetTo k => exact .inr (fs_resetTo hs)
  | claim => exact .inr (fs_claim hs)
  | claimEnd => exact .inr (fs_claimEnd hs)
  | onClaimed op' => exact .inr (fs_onClaimed hs)
  | alignedEnter n => exact .inr (fs_alignedEnter hs)
  | alignedExit => exact .inr (fs_alignedExit hs)
  | scopedAlignedEnter n => exact .inr (fs_scopedAlignedEnter hs)
  | scopedAlignedExit => exact .inr (fs_scopedAlignedExit hs)
  | allocTryWith L off vsize ok inner m => exact .inr (fs_allocTryWith hs)
  | write b seed => exact .inr (fs_write hs)
  | split b at_ => exact .inr (fs_split hs)

end Arena.Hist
