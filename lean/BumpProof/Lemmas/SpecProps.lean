/-
  Lemmas/SpecProps.lean — the wide-integer specification `Spec.*` is sound, tight and optimal.
-/
import BumpProof.Spec.Bump
import BumpProof.Lemmas.Align

namespace Lemmas

/-! ## `bumpUp` -/

theorem bumpUp_some' {s e sz al ma ptr np : Nat} (hal : 0 < al) (hma : 0 < ma) (hme : ma ∣ e)
    (h : Spec.bumpUp s e sz al ma = some (ptr, np)) :
    al ∣ ptr ∧ s ≤ ptr ∧ ptr + sz ≤ np ∧ np ≤ e ∧ ma ∣ np ∧ np < ptr + sz + ma ∧
    (∀ q, al ∣ q → s ≤ q → ptr ≤ q) := by
  unfold Spec.bumpUp at h
  simp only [] at h
  split at h
  · rename_i hfit
    injection h with h
    injection h with h1 h2
    subst h1 h2
    exact ⟨upAlign_dvd s al, le_upAlign s hal, le_upAlign _ hma, upAlign_le_of_dvd hma hme hfit,
      upAlign_dvd _ ma, upAlign_lt _ hma, fun q hq hsq => upAlign_le_of_dvd hal hq hsq⟩
  · exact absurd h (by simp)

theorem bumpUp_none_iff' {s e sz al ma : Nat} (hal : 0 < al) :
    Spec.bumpUp s e sz al ma = none ↔ ¬ ∃ q, al ∣ q ∧ s ≤ q ∧ q + sz ≤ e := by
  unfold Spec.bumpUp
  simp only []
  constructor
  · intro h ⟨q, hq, hsq, hqe⟩
    split at h
    · exact absurd h (by simp)
    · rename_i hfit
      have := upAlign_le_of_dvd hal hq hsq
      omega
  · intro h
    split
    · rename_i hfit
      exact absurd ⟨_, upAlign_dvd s al, le_upAlign s hal, hfit⟩ h
    · rfl

/-! ## `bumpDown` -/

/-- for comparable alignments the larger one is divisible by both, and divides everything both divide -/
theorem max_dvd_facts {al ma : Nat} (hal : 0 < al) (hma : 0 < ma) (hdvd : al ∣ ma ∨ ma ∣ al) :
    al ∣ Nat.max al ma ∧ ma ∣ Nat.max al ma ∧ 0 < Nat.max al ma ∧
    (∀ q, al ∣ q → ma ∣ q → Nat.max al ma ∣ q) := by
  rcases hdvd with h | h
  · have hle : al ≤ ma := Nat.le_of_dvd hma h
    rw [show Nat.max al ma = ma from Nat.max_eq_right hle]
    exact ⟨h, Nat.dvd_refl ma, hma, fun q _ h2 => h2⟩
  · have hle : ma ≤ al := Nat.le_of_dvd hal h
    rw [show Nat.max al ma = al from Nat.max_eq_left hle]
    exact ⟨Nat.dvd_refl al, h, hal, fun q h1 _ => h1⟩

theorem bumpDown_some' {s e sz al ma ptr : Nat} (hal : 0 < al) (hma : 0 < ma)
    (hdvd : al ∣ ma ∨ ma ∣ al)
    (h : Spec.bumpDown s e sz al ma = some ptr) :
    al ∣ ptr ∧ ma ∣ ptr ∧ s ≤ ptr ∧ ptr + sz ≤ e ∧
    (∀ q, al ∣ q → ma ∣ q → q + sz ≤ e → q ≤ ptr) := by
  obtain ⟨h1, h2, h3, h4⟩ := max_dvd_facts hal hma hdvd
  unfold Spec.bumpDown at h
  simp only [] at h
  split at h
  · rename_i hsz
    split at h
    · rename_i hs
      injection h with h
      subst h
      have hle := downAlign_le (e - sz) (Nat.max al ma)
      have hd := downAlign_dvd (e - sz) (Nat.max al ma)
      refine ⟨Nat.dvd_trans h1 hd, Nat.dvd_trans h2 hd, hs, by omega, ?_⟩
      intro q hq1 hq2 hqe
      exact le_downAlign_of_dvd h3 (h4 q hq1 hq2) (by omega)
    · exact absurd h (by simp)
  · exact absurd h (by simp)

theorem bumpDown_none_iff' {s e sz al ma : Nat} (hal : 0 < al) (hma : 0 < ma)
    (hdvd : al ∣ ma ∨ ma ∣ al) :
    Spec.bumpDown s e sz al ma = none ↔ ¬ ∃ q, al ∣ q ∧ ma ∣ q ∧ s ≤ q ∧ q + sz ≤ e := by
  obtain ⟨h1, h2, h3, h4⟩ := max_dvd_facts hal hma hdvd
  unfold Spec.bumpDown
  simp only []
  constructor
  · intro h ⟨q, hq1, hq2, hsq, hqe⟩
    split at h
    · split at h
      · exact absurd h (by simp)
      · rename_i hsz hs
        have := le_downAlign_of_dvd h3 (h4 q hq1 hq2) (show q ≤ e - sz by omega)
        omega
    · omega
  · intro h
    split
    · rename_i hsz
      split
      · rename_i hs
        have hle := downAlign_le (e - sz) (Nat.max al ma)
        have hd := downAlign_dvd (e - sz) (Nat.max al ma)
        exact absurd ⟨_, Nat.dvd_trans h1 hd, Nat.dvd_trans h2 hd, hs, by omega⟩ h
      · rfl
    · rfl

/-! ## `prepareUp` / `prepareDown` -/

theorem prepareUp_some' {s e sz al rs re : Nat} (hal : 0 < al) (hsz : al ∣ sz)
    (h : Spec.prepareUp s e sz al = some (rs, re)) :
    al ∣ rs ∧ al ∣ re ∧ s ≤ rs ∧ re ≤ e ∧ rs + sz ≤ re ∧
    (∀ a b, al ∣ a → al ∣ b → s ≤ a → a ≤ b → b ≤ e → rs ≤ a ∧ b ≤ re) := by
  unfold Spec.prepareUp at h
  simp only [] at h
  split at h
  · rename_i hfit
    injection h with h
    injection h with h1 h2
    subst h1 h2
    refine ⟨upAlign_dvd s al, downAlign_dvd e al, le_upAlign s hal, downAlign_le e al, ?_, ?_⟩
    · exact le_downAlign_of_dvd hal ((Nat.dvd_add_right (upAlign_dvd s al)).2 hsz) hfit
    · intro a b ha hb hsa _ hbe
      exact ⟨upAlign_le_of_dvd hal ha hsa, le_downAlign_of_dvd hal hb hbe⟩
  · exact absurd h (by simp)

theorem prepareUp_none_iff' {s e sz al : Nat} (hal : 0 < al) :
    Spec.prepareUp s e sz al = none ↔ ¬ ∃ q, al ∣ q ∧ s ≤ q ∧ q + sz ≤ e := by
  unfold Spec.prepareUp
  simp only []
  constructor
  · intro h ⟨q, hq, hsq, hqe⟩
    split at h
    · exact absurd h (by simp)
    · have := upAlign_le_of_dvd hal hq hsq
      omega
  · intro h
    split
    · rename_i hfit
      exact absurd ⟨_, upAlign_dvd s al, le_upAlign s hal, hfit⟩ h
    · rfl

theorem prepareDown_some' {s e sz al rs re : Nat} (hal : 0 < al) (hsz : al ∣ sz)
    (h : Spec.prepareDown s e sz al = some (rs, re)) :
    al ∣ rs ∧ al ∣ re ∧ s ≤ rs ∧ re ≤ e ∧ rs + sz ≤ re ∧
    (∀ a b, al ∣ a → al ∣ b → s ≤ a → a ≤ b → b ≤ e → rs ≤ a ∧ b ≤ re) := by
  unfold Spec.prepareDown at h
  simp only [] at h
  split at h
  · rename_i hfit
    injection h with h
    injection h with h1 h2
    subst h1 h2
    refine ⟨upAlign_dvd s al, downAlign_dvd e al, le_upAlign s hal, downAlign_le e al, ?_, ?_⟩
    · have hd : al ∣ Spec.downAlign e al - sz := Nat.dvd_sub (downAlign_dvd e al) hsz
      have := upAlign_le_of_dvd hal hd (show s ≤ Spec.downAlign e al - sz by omega)
      omega
    · intro a b ha hb hsa _ hbe
      exact ⟨upAlign_le_of_dvd hal ha hsa, le_downAlign_of_dvd hal hb hbe⟩
  · exact absurd h (by simp)

theorem prepareDown_none_iff' {s e sz al : Nat} (hal : 0 < al) (hsz : al ∣ sz) :
    Spec.prepareDown s e sz al = none ↔ ¬ ∃ q, al ∣ q ∧ s ≤ q ∧ q + sz ≤ e := by
  unfold Spec.prepareDown
  simp only []
  constructor
  · intro h ⟨q, hq, hsq, hqe⟩
    split at h
    · exact absurd h (by simp)
    · have := le_downAlign_of_dvd hal ((Nat.dvd_add_right hq).2 hsz) hqe
      omega
  · intro h
    split
    · rename_i hfit
      have hd : al ∣ Spec.downAlign e al - sz := Nat.dvd_sub (downAlign_dvd e al) hsz
      have h1 := upAlign_le_of_dvd hal hd (show s ≤ Spec.downAlign e al - sz by omega)
      have h2 := downAlign_le e al
      exact absurd ⟨_, upAlign_dvd s al, le_upAlign s hal, by omega⟩ h
    · rfl

end Lemmas
