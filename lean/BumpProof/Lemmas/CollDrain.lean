/-
  Lemmas/CollDrain.lean — `Coll.drain` / `Coll.intoIter` (models of `owned_slice::Drain`, `IntoIter`)
  compute `drainSpec` / `intoIterSpec` on every well-formed vector, for every range, pull script,
  way of letting go (`drop` / `keep_rest`) and set of panicking drops.
-/
import BumpProof.Coll.Spec
import BumpProof.Lemmas.CollPrim
import BumpProof.Lemmas.CollWF
import BumpProof.Lemmas.CollBasic

namespace Coll

/-- the pulls of a script on a buffer `A ++ holes a ++ I u ++ holes b ++ B` -/
theorem drainPulls_eq (script : List Pull) :
    ∀ (v : Vec) (d : DrainSt) (A B : List Slot) (a b : Nat) (u : List Id) (acc : List (Option Id)),
      v.slots = A ++ H a ++ I u ++ H b ++ B → d.ptr = A.length + a → d.end_ = A.length + a + u.length →
      ∃ a' b', drainPulls v d script acc =
          .ok ({ v with slots := A ++ H a' ++ I (pullsSpec u script).2 ++ H b' ++ B,
                        escaped := v.escaped ++ yielded (pullsSpec u script).1 },
               { d with ptr := A.length + a', end_ := A.length + a' + (pullsSpec u script).2.length },
               acc ++ (pullsSpec u script).1) ∧
        a' + (pullsSpec u script).2.length + b' = a + u.length + b := by
  induction script with
  | nil =>
    intro v d A B a b u acc hs hp he
    refine ⟨a, b, ?_, rfl⟩
    simp only [drainPulls, pullsSpec, yielded, List.filterMap_nil, List.append_nil]
    congr 2
    · exact Vec.eq_of (by simp [hs]) rfl rfl (by simp)
    · cases d; simp_all
  | cons p ps ih =>
    intro v d A B a b u acc hs hp he
    simp only [drainPulls, drainPull]
    by_cases hemp : u = []
    · -- nothing left: `ptr == end`
      subst hemp
      have hpe : d.ptr = d.end_ := by simp at he; omega
      simp only [hpe, ↓reduceIte]
      obtain ⟨a', b', h1, h2⟩ := ih v d A B a b [] (acc ++ [none]) hs hp he
      refine ⟨a', b', ?_, ?_⟩
      · cases p <;> simp only [pullsSpec, List.getLast?_nil] <;>
          (rw [h1]; simp [yielded])
      · cases p <;> simpa [pullsSpec] using h2
    · have hne : d.ptr ≠ d.end_ := by
        have : u.length > 0 := List.length_pos_iff.mpr hemp
        omega
      simp only [hne, ↓reduceIte]
      cases p with
      | front =>
        obtain ⟨x, u', rfl⟩ := List.exists_cons_of_ne_nil hemp
        have hs1 : v.slots = (A ++ H a) ++ Slot.init x :: (I u' ++ H b ++ B) := by simp [hs]
        rw [readOut_mid hs1 (by simp [hp])]
        simp only
        have hs2 : (A ++ H a) ++ Slot.hole :: (I u' ++ H b ++ B) = A ++ H (a + 1) ++ I u' ++ H b ++ B := by simp
        obtain ⟨a', b', h1, h2⟩ := ih { v with slots := (A ++ H a) ++ Slot.hole :: (I u' ++ H b ++ B), escaped := v.escaped ++ [x] }
          { d with ptr := d.ptr + 1 } A B (a + 1) b u' (acc ++ [some x]) hs2 (by simp [hp]; omega) (by simp at he ⊢; omega)
        refine ⟨a', b', ?_, ?_⟩
        · simp only [pullsSpec]; rw [h1]; simp [yielded]
        · simp only [pullsSpec, List.length_cons] at h2 ⊢; omega
      | back =>
        have hx : u = u.dropLast ++ [u.getLast hemp] := (List.dropLast_concat_getLast hemp).symm
        have hlen : u.length = u.dropLast.length + 1 := by simp; have := List.length_pos_iff.mpr hemp; omega
        have hs1 : v.slots = (A ++ H a ++ I u.dropLast) ++ Slot.init (u.getLast hemp) :: (H b ++ B) := by
          rw [hs]; conv => lhs; rw [hx]
          simp
        have hidx : d.end_ - 1 = (A ++ H a ++ I u.dropLast).length := by
          simp only [List.length_append, length_H, length_I]; omega
        rw [readOut_mid hs1 hidx]
        simp only
        have hs2 : (A ++ H a ++ I u.dropLast) ++ Slot.hole :: (H b ++ B) = A ++ H a ++ I u.dropLast ++ H (b + 1) ++ B := by simp
        obtain ⟨a', b', h1, h2⟩ := ih { v with slots := (A ++ H a ++ I u.dropLast) ++ Slot.hole :: (H b ++ B), escaped := v.escaped ++ [u.getLast hemp] }
          { d with end_ := d.end_ - 1 } A B a (b + 1) u.dropLast (acc ++ [some (u.getLast hemp)]) hs2 (by simp [hp]) (by simp at he ⊢; omega)
        refine ⟨a', b', ?_, ?_⟩
        · simp only [pullsSpec, List.getLast?_eq_some_getLast hemp]; rw [h1]; simp [yielded]
        · simp only [pullsSpec, List.getLast?_eq_some_getLast hemp] at h2 ⊢; omega

/-- `if src != dst { copy }` over a gap of `k` holes (`k = 0`: nothing to do) -/
theorem copy_back_or_skip {v : Vec} {A M T : List Slot} {k src dst n : Nat} (hs : v.slots = A ++ H k ++ M ++ T)
    (hsrc : src = A.length + k) (hdst : dst = A.length) (hn : n = M.length) :
    (if src ≠ dst then copy v src dst n else .ok v) = .ok { v with slots := A ++ M ++ H k ++ T } := by
  by_cases h : src ≠ dst
  · rw [if_pos h]; exact copy_back hs hsrc hdst hn
  · rw [if_neg h]
    have hk : k = 0 := by omega
    subst hk
    congr 1
    exact Vec.eq_of (by simp [hs]) rfl rfl rfl

theorem pullsSpec_length (script : List Pull) : ∀ (u : List Id),
    (pullsSpec u script).2.length + (yielded (pullsSpec u script).1).length = u.length := by
  induction script with
  | nil => intro u; simp [pullsSpec, yielded]
  | cons p ps ih =>
    intro u
    cases p with
    | front =>
      cases u with
      | nil => simpa [pullsSpec, yielded] using ih []
      | cons x u' => have := ih u'; simp [pullsSpec, yielded] at this ⊢; omega
    | back =>
      by_cases hu : u = []
      · subst hu; simpa [pullsSpec, yielded] using ih []
      · have := ih u.dropLast
        have hl : u.length > 0 := List.length_pos_iff.mpr hu
        simp [pullsSpec, List.getLast?_eq_some_getLast hu, yielded] at this ⊢; omega

/-- `impl Drop for Drain` on a segmented buffer -/
theorem drainDrop_seg (bombs : List Id) {v : Vec} {d : DrainSt} {head u tail : List Id} {a b : Nat} {T : List Slot}
    (hs : v.slots = I head ++ H a ++ I u ++ H b ++ (I tail ++ T)) (hlen : v.len = head.length)
    (hp : d.ptr = head.length + a) (he : d.end_ = head.length + a + u.length)
    (hts : d.tailStart = head.length + a + u.length + b) (htl : d.tailLen = tail.length) :
    drainDrop bombs v d =
      .ok ({ v with slots := I (head ++ tail) ++ H (a + u.length + b) ++ T, len := head.length + tail.length,
                    dropLog := v.dropLog ++ u }, u.any bombs.contains) := by
  unfold drainDrop
  have hcnt : d.end_ - d.ptr = u.length := by omega
  have hs1 : v.slots = (I head ++ H a) ++ I u ++ (H b ++ (I tail ++ T)) := by simp [hs]
  rw [hcnt, dropRange_seg bombs u false v (I head ++ H a) (H b ++ (I tail ++ T)) d.ptr hs1 (by simp [hp])]
  simp only [Bool.not_false, Bool.true_and, drainGuard]
  have hgap : (I head ++ H a) ++ H u.length ++ (H b ++ (I tail ++ T)) = I head ++ H (a + u.length + b) ++ I tail ++ T := by
    simp only [List.append_assoc]
    rw [← List.append_assoc (H a), ← H_add, ← List.append_assoc (H _), ← H_add]
  by_cases ht : d.tailLen > 0
  · simp only [ht, ↓reduceIte]
    rw [copy_back_or_skip (v := { v with slots := _, dropLog := _ }) (src := d.tailStart) (dst := v.len) (n := d.tailLen)
      hgap (by simp; omega) (by simp [hlen]) (by simp [htl])]
    simp only [setLen]
    congr 2
    apply Vec.eq_of <;> simp [htl, hlen]
  · simp only [ht, ↓reduceIte]
    have : tail = [] := List.eq_nil_of_length_eq_zero (by omega)
    subst this
    congr 2
    apply Vec.eq_of <;> simp [hlen]
    rw [← List.append_assoc (H a), ← H_add, ← List.append_assoc (H _), ← H_add]

/-- `Drain::keep_rest` on a segmented buffer -/
theorem drainKeepRest_seg {v : Vec} {d : DrainSt} {head u tail : List Id} {a b : Nat} {T : List Slot}
    (hs : v.slots = I head ++ H a ++ I u ++ H b ++ (I tail ++ T)) (hlen : v.len = head.length)
    (hp : d.ptr = head.length + a) (he : d.end_ = head.length + a + u.length)
    (hts : d.tailStart = head.length + a + u.length + b) (htl : d.tailLen = tail.length) :
    drainKeepRest v d =
      .ok { v with slots := I (head ++ u ++ tail) ++ H (a + b) ++ T, len := head.length + u.length + tail.length } := by
  unfold drainKeepRest
  have hcnt : d.end_ - d.ptr = u.length := by omega
  simp only [hcnt]
  have hs1 : v.slots = I head ++ H a ++ I u ++ (H b ++ (I tail ++ T)) := by simp [hs]
  rw [copy_back_or_skip (src := d.ptr) (dst := v.len) (n := u.length) hs1 (by simp [hp]) (by simp [hlen]) (by simp)]
  simp only
  have hs2 : I head ++ I u ++ H a ++ (H b ++ (I tail ++ T)) = (I head ++ I u) ++ H (a + b) ++ I tail ++ T := by
    simp only [List.append_assoc]; rw [← List.append_assoc (H a), ← H_add]
  rw [copy_back_or_skip (v := { v with slots := _ }) (src := d.tailStart) (dst := v.len + u.length) (n := d.tailLen)
    hs2 (by simp; omega) (by simp [hlen]) (by simp [htl])]
  simp only [setLen]
  congr 1
  apply Vec.eq_of <;> simp [htl, hlen]

/-- **refinement** of `drain` -/
theorem drain_eq (bombs : List Id) (v : Vec) (xs : List Id) (start end_ : Nat) (script : List Pull) (fin : Fin)
    (hs : v.slots = I xs ++ H (v.cap - v.len)) (hl : xs.length = v.len) :
    drain bombs v start end_ script fin =
      .ok ⟨v.after (drainSpec bombs xs start end_ script fin), (drainSpec bombs xs start end_ script fin).exit, []⟩ := by
  have hcap := seg_len_le_cap hs hl
  unfold drain drainSpec
  by_cases hr : start > end_ ∨ end_ > v.len
  · have hr' : start > end_ ∨ end_ > xs.length := by omega
    simp only [hr, hr', ↓reduceIte, after_noop hs hl]
  · have hr' : ¬ (start > end_ ∨ end_ > xs.length) := by omega
    simp only [hr, hr', ↓reduceIte]
    have hse : start ≤ end_ := by omega
    have hel : end_ ≤ xs.length := by omega
    -- name the three segments
    obtain ⟨head, hhead⟩ : ∃ l, l = xs.take start := ⟨_, rfl⟩
    obtain ⟨range, hrange⟩ : ∃ l, l = (xs.take end_).drop start := ⟨_, rfl⟩
    obtain ⟨tail, htail⟩ : ∃ l, l = xs.drop end_ := ⟨_, rfl⟩
    have hxs : xs = head ++ (range ++ tail) := by
      have h1 : xs.take start = (xs.take end_).take start := by rw [List.take_take]; congr 1; omega
      rw [hhead, hrange, htail, h1, ← List.append_assoc, List.take_append_drop, List.take_append_drop]
    have hhl : head.length = start := by rw [hhead]; simp; omega
    have hrl : range.length = end_ - start := by rw [hrange]; simp; omega
    have htl : tail.length = v.len - end_ := by rw [htail]; simp; omega
    rw [← hhead, ← hrange, ← htail]
    have hs0 : (setLen v start).slots = I head ++ H 0 ++ I range ++ H 0 ++ (I tail ++ H (v.cap - v.len)) := by
      simp only [setLen]; rw [hs]; conv => lhs; rw [hxs]
      simp
    obtain ⟨a', b', hp, hab⟩ := drainPulls_eq script (setLen v start)
      { tailStart := end_, tailLen := v.len - end_, ptr := start, end_ := end_ } (I head) _ 0 0 range [] hs0
      (by simp; omega) (by simp; omega)
    rw [hp]
    obtain ⟨u, hu⟩ : ∃ l, l = (pullsSpec range script).2 := ⟨_, rfl⟩
    obtain ⟨rs, hrs⟩ : ∃ l, l = (pullsSpec range script).1 := ⟨_, rfl⟩
    rw [← hu] at hab
    rw [← hu, ← hrs]
    simp only [setLen, List.nil_append, length_I]
    cases fin with
    | drop =>
      simp only
      rw [drainDrop_seg bombs (v := { v with slots := _, len := start, escaped := _ }) (head := head) (u := u) (tail := tail)
        (a := a') (b := b') (T := H (v.cap - v.len)) rfl (by simp [hhl]) (by simp) (by simp) (by simp; omega) (by simp [htl])]
      simp only
      congr 2
      apply Vec.eq_of <;> simp [Vec.after]
      · rw [← H_add]; congr 1; omega
    | keepRest =>
      simp only
      rw [drainKeepRest_seg (v := { v with slots := _, len := start, escaped := _ }) (head := head) (u := u) (tail := tail)
        (a := a') (b := b') (T := H (v.cap - v.len)) rfl (by simp [hhl]) (by simp) (by simp) (by simp; omega) (by simp [htl])]
      simp only
      congr 2
      apply Vec.eq_of <;> simp [Vec.after]
      · rw [← H_add]; congr 1; omega
      · omega

/-- **refinement** of `into_iter` (pulls, then the iterator is dropped) -/
theorem intoIter_eq (bombs : List Id) (v : Vec) (xs : List Id) (script : List Pull)
    (hs : v.slots = I xs ++ H (v.cap - v.len)) (hl : xs.length = v.len) :
    intoIter bombs v script =
      .ok ⟨v.after (intoIterSpec bombs xs script), (intoIterSpec bombs xs script).exit, []⟩ := by
  have hcap := seg_len_le_cap hs hl
  unfold intoIter intoIterSpec
  have hs0 : (setLen v 0).slots = I [] ++ H 0 ++ I xs ++ H 0 ++ H (v.cap - v.len) := by
    simp only [setLen]; rw [hs]; simp
  obtain ⟨a', b', hp, hab⟩ := drainPulls_eq script (setLen v 0)
    { tailStart := v.len, tailLen := 0, ptr := 0, end_ := v.len } (I []) _ 0 0 xs [] hs0
    (by simp) (by simp; omega)
  simp only
  rw [hp]
  obtain ⟨u, hu⟩ : ∃ l, l = (pullsSpec xs script).2 := ⟨_, rfl⟩
  obtain ⟨rs, hrs⟩ : ∃ l, l = (pullsSpec xs script).1 := ⟨_, rfl⟩
  rw [← hu] at hab
  rw [← hu, ← hrs]
  simp only [setLen, List.nil_append, I_nil, List.length_nil, Nat.zero_add]
  have e1 : a' + u.length - a' = u.length := by omega
  rw [e1, dropRange_seg bombs u false _ (H a') (H b' ++ H (v.cap - v.len)) a' (by simp) (by simp)]
  simp only [Bool.not_false, Bool.true_and]
  congr 2
  apply Vec.eq_of <;> simp [Vec.after]
  rw [← H_add, ← H_add, ← H_add]; congr 1; simp at hab; omega

/-! ## conservation -/

theorem pullsSpec_perm (script : List Pull) : ∀ (u : List Id),
    ((pullsSpec u script).2 ++ yielded (pullsSpec u script).1).Perm u := by
  induction script with
  | nil => intro u; simp [pullsSpec, yielded]
  | cons p ps ih =>
    intro u
    cases p with
    | front =>
      cases u with
      | nil => simpa [pullsSpec, yielded] using ih []
      | cons x u' =>
        have := ih u'
        simp only [pullsSpec, yielded, List.filterMap_cons, id] at this ⊢
        exact (List.perm_middle).trans (List.Perm.cons x this)
    | back =>
      by_cases hu : u = []
      · subst hu; simpa [pullsSpec, yielded] using ih []
      · have := ih u.dropLast
        simp only [pullsSpec, List.getLast?_eq_some_getLast hu, yielded, List.filterMap_cons, id] at this ⊢
        refine (List.perm_middle).trans ?_
        refine (List.Perm.cons _ this).trans ?_
        conv => rhs; rw [← List.dropLast_concat_getLast hu]
        exact (List.perm_append_singleton _ _).symm

theorem drainSpec_perm (bombs : List Id) (xs : List Id) (start end_ : Nat) (script : List Pull) (fin : Fin) :
    ((drainSpec bombs xs start end_ script fin).final ++ (drainSpec bombs xs start end_ script fin).dropped ++
      (drainSpec bombs xs start end_ script fin).escaped).Perm xs := by
  unfold drainSpec
  split
  · simp
  · rename_i hr
    have hxs : xs = xs.take start ++ ((xs.take end_).drop start ++ xs.drop end_) := by
      have h1 : xs.take start = (xs.take end_).take start := by rw [List.take_take]; congr 1; omega
      rw [h1, ← List.append_assoc, List.take_append_drop, List.take_append_drop]
    have hp := pullsSpec_perm script ((xs.take end_).drop start)
    cases fin with
    | drop =>
      simp only
      conv => rhs; rw [hxs]
      simp only [List.append_assoc]
      refine List.Perm.append_left _ ?_
      -- tail ++ (u ++ ys) ~ range ++ tail
      refine List.perm_append_comm.trans ?_
      exact List.Perm.append_right _ hp
    | keepRest =>
      simp only [List.append_nil]
      conv => rhs; rw [hxs]
      simp only [List.append_assoc]
      refine List.Perm.append_left _ ?_
      -- u ++ (tail ++ ys) ~ range ++ tail
      refine (List.Perm.append_left _ List.perm_append_comm).trans ?_
      rw [← List.append_assoc]
      exact List.Perm.append_right _ hp

theorem drainSpec_len (bombs : List Id) (xs : List Id) (start end_ : Nat) (script : List Pull) (fin : Fin) :
    (drainSpec bombs xs start end_ script fin).final.length ≤ xs.length := by
  have := (drainSpec_perm bombs xs start end_ script fin).length_eq
  simp only [List.length_append] at this
  omega

theorem intoIterSpec_perm (bombs : List Id) (xs : List Id) (script : List Pull) :
    ((intoIterSpec bombs xs script).final ++ (intoIterSpec bombs xs script).dropped ++
      (intoIterSpec bombs xs script).escaped).Perm xs := by
  simpa [intoIterSpec] using pullsSpec_perm script xs

end Coll
