/-
  Lemmas/BumpEq.lean — proofs behind Props/C11.lean.

  The work is done in
  * `Lemmas/Align.lean`         — `upAlign` / `downAlign`, powers of two, bit masks
  * `Lemmas/RsOps.lean`         — rewriting lemmas for the `Rs` primitives, `debug_assert_valid`,
                                  the `rs_simp` evaluation tactic
  * `Lemmas/EqBumpUp.lean`, `EqBumpDown.lean`, `EqPrepareUp.lean`, `EqPrepareDown.lean`
                                — generated code = specification
  * `Lemmas/SpecProps.lean`     — properties of the specification
-/
import BumpProof.Gen.Bumping
import BumpProof.Spec.Bump
import BumpProof.Spec.BumpValid
import BumpProof.Lemmas.EqBumpUp
import BumpProof.Lemmas.EqBumpDown
import BumpProof.Lemmas.EqPrepareUp
import BumpProof.Lemmas.EqPrepareDown
import BumpProof.Lemmas.SpecProps

namespace Lemmas
open Gen.Bumping Rs C11

theorem bump_up_eq (p : BumpProps) (h : Valid true p) :
    bump_up p = .ok ((Spec.bumpUp p.start p.«end» p.layout.size p.layout.align p.min_align).map
      fun r => { new_pos := r.2, ptr := r.1 }) :=
  bump_up_ok p h

theorem bump_down_eq (p : BumpProps) (h : Valid false p) :
    bump_down p = .ok (Spec.bumpDown p.start p.«end» p.layout.size p.layout.align p.min_align) :=
  bump_down_ok p h

theorem bump_prepare_up_eq (p : BumpProps) (h : Valid true p) :
    bump_prepare_up p = .ok (Spec.prepareUp p.start p.«end» p.layout.size p.layout.align) :=
  bump_prepare_up_ok p h

theorem bump_prepare_down_eq (p : BumpProps) (h : Valid false p) :
    bump_prepare_down p = .ok (Spec.prepareDown p.start p.«end» p.layout.size p.layout.align) :=
  bump_prepare_down_ok p h

theorem bumpUp_some {s e sz al ma ptr np : Nat} (hal : 0 < al) (hma : 0 < ma) (hme : ma ∣ e)
    (h : Spec.bumpUp s e sz al ma = some (ptr, np)) :
    al ∣ ptr ∧ s ≤ ptr ∧ ptr + sz ≤ np ∧ np ≤ e ∧ ma ∣ np ∧ np < ptr + sz + ma ∧
    (∀ q, al ∣ q → s ≤ q → ptr ≤ q) :=
  bumpUp_some' hal hma hme h

theorem bumpUp_none_iff {s e sz al ma : Nat} (hal : 0 < al) :
    Spec.bumpUp s e sz al ma = none ↔ ¬ ∃ q, al ∣ q ∧ s ≤ q ∧ q + sz ≤ e :=
  bumpUp_none_iff' hal

theorem bumpDown_some {s e sz al ma ptr : Nat} (hal : 0 < al) (hma : 0 < ma)
    (hdvd : al ∣ ma ∨ ma ∣ al)
    (h : Spec.bumpDown s e sz al ma = some ptr) :
    al ∣ ptr ∧ ma ∣ ptr ∧ s ≤ ptr ∧ ptr + sz ≤ e ∧
    (∀ q, al ∣ q → ma ∣ q → q + sz ≤ e → q ≤ ptr) :=
  bumpDown_some' hal hma hdvd h

theorem bumpDown_none_iff {s e sz al ma : Nat} (hal : 0 < al) (hma : 0 < ma) (hdvd : al ∣ ma ∨ ma ∣ al) :
    Spec.bumpDown s e sz al ma = none ↔ ¬ ∃ q, al ∣ q ∧ ma ∣ q ∧ s ≤ q ∧ q + sz ≤ e :=
  bumpDown_none_iff' hal hma hdvd

theorem prepareUp_some {s e sz al rs re : Nat} (hal : 0 < al) (hsz : al ∣ sz)
    (h : Spec.prepareUp s e sz al = some (rs, re)) :
    al ∣ rs ∧ al ∣ re ∧ s ≤ rs ∧ re ≤ e ∧ rs + sz ≤ re ∧
    (∀ a b, al ∣ a → al ∣ b → s ≤ a → a ≤ b → b ≤ e → rs ≤ a ∧ b ≤ re) :=
  prepareUp_some' hal hsz h

theorem prepareUp_none_iff {s e sz al : Nat} (hal : 0 < al) :
    Spec.prepareUp s e sz al = none ↔ ¬ ∃ q, al ∣ q ∧ s ≤ q ∧ q + sz ≤ e :=
  prepareUp_none_iff' hal

theorem prepareDown_some {s e sz al rs re : Nat} (hal : 0 < al) (hsz : al ∣ sz)
    (h : Spec.prepareDown s e sz al = some (rs, re)) :
    al ∣ rs ∧ al ∣ re ∧ s ≤ rs ∧ re ≤ e ∧ rs + sz ≤ re ∧
    (∀ a b, al ∣ a → al ∣ b → s ≤ a → a ≤ b → b ≤ e → rs ≤ a ∧ b ≤ re) :=
  prepareDown_some' hal hsz h

theorem prepareDown_none_iff {s e sz al : Nat} (hal : 0 < al) (hsz : al ∣ sz) :
    Spec.prepareDown s e sz al = none ↔ ¬ ∃ q, al ∣ q ∧ s ≤ q ∧ q + sz ≤ e :=
  prepareDown_none_iff' hal hsz

end Lemmas
