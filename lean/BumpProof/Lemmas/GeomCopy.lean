/-
  Lemmas/GeomCopy.lean — memory writes and copies change bytes only: the geometry of every chunk
  (base, size, position, ghost sizes, number of bytes) stays the same.
-/
import BumpProof.Lemmas.GeomSlow

set_option linter.unusedSimpArgs false
set_option linter.unusedVariables false

namespace Arena
open Rs Lemmas

/-- everything of a chunk except the contents of its bytes -/
def Chunk.geom (c : Chunk) : Nat × Nat × Nat × Nat × Nat × Nat :=
  (c.base, c.size, c.pos, c.granted, c.reqSize, c.data.size)

/-- `s'` differs from `s` at most in the contents of chunk bytes (and ghost / trace fields) -/
structure SameGeom (s s' : State) : Prop where
  chunks : s'.chunks.map Chunk.geom = s.chunks.map Chunk.geom
  cur : s'.cur = s.cur
  minAlign : s'.minAlign = s.minAlign
  resps : s'.resps = s.resps

section
variable {cfg : Cfg}

theorem SameGeom.refl (s : State) : SameGeom s s := ⟨rfl, rfl, rfl, rfl⟩

theorem SameGeom.trans {a b c : State} (h1 : SameGeom a b) (h2 : SameGeom b c) : SameGeom a c :=
  ⟨h2.chunks.trans h1.chunks, h2.cur.trans h1.cur, h2.minAlign.trans h1.minAlign, h2.resps.trans h1.resps⟩

theorem SameGeom.getElem? {s s' : State} (h : SameGeom s s') {j : Nat} {c' : Chunk} (hj : s'.chunks[j]? = some c') :
    ∃ c, s.chunks[j]? = some c ∧ c'.geom = c.geom := by
  have h1 : (s'.chunks.map Chunk.geom)[j]? = (s.chunks.map Chunk.geom)[j]? := by rw [h.chunks]
  rw [List.getElem?_map, List.getElem?_map, hj] at h1
  cases hc : s.chunks[j]? with
  | none => rw [hc] at h1; simp at h1
  | some c =>
    rw [hc] at h1
    simp only [Option.map_some, Option.some.injEq] at h1
    exact ⟨c, rfl, h1⟩

theorem SameGeom.getElem?' {s s' : State} (h : SameGeom s s') {j : Nat} {c : Chunk} (hj : s.chunks[j]? = some c) :
    ∃ c', s'.chunks[j]? = some c' ∧ c'.geom = c.geom := by
  have h1 : (s'.chunks.map Chunk.geom)[j]? = (s.chunks.map Chunk.geom)[j]? := by rw [h.chunks]
  rw [List.getElem?_map, List.getElem?_map, hj] at h1
  cases hc : s'.chunks[j]? with
  | none => rw [hc] at h1; simp at h1
  | some c' =>
    rw [hc] at h1
    simp only [Option.map_some, Option.some.injEq] at h1
    exact ⟨c', rfl, h1⟩

theorem geom_contentStart {c c' : Chunk} (h : c'.geom = c.geom) : c'.contentStart cfg = c.contentStart cfg := by
  simp only [Chunk.geom, Prod.mk.injEq] at h
  unfold Chunk.contentStart; rw [h.1]

theorem geom_contentEnd {c c' : Chunk} (h : c'.geom = c.geom) : c'.contentEnd cfg = c.contentEnd cfg := by
  simp only [Chunk.geom, Prod.mk.injEq] at h
  unfold Chunk.contentEnd; rw [h.1, h.2.1]

theorem geom_pos {c c' : Chunk} (h : c'.geom = c.geom) : c'.pos = c.pos := by
  simp only [Chunk.geom, Prod.mk.injEq] at h
  exact h.2.2.1

theorem ChunkWF.of_geom {c c' : Chunk} (h : c'.geom = c.geom) (hw : ChunkWF cfg c) : ChunkWF cfg c' := by
  have hs := geom_contentStart (cfg := cfg) h
  have he := geom_contentEnd (cfg := cfg) h
  simp only [Chunk.geom, Prod.mk.injEq] at h
  obtain ⟨h1, h2, h3, h4, h5, h6⟩ := h
  exact ⟨h2 ▸ hw.size16, h2 ▸ hw.hdr_le, h1 ▸ hw.base_al, h1 ▸ hw.base_ne, by rw [h1, h2]; exact hw.end_lt,
    h2 ▸ hw.size_le, by rw [hs, h3]; exact hw.pos_ge, by rw [he, h3]; exact hw.pos_le, by rw [h6, h2]; exact hw.data,
    fun hu => h2 ▸ hw.size_al hu, by rw [h5, h2]; exact hw.req_le, by rw [h2, h4]; exact hw.le_granted⟩

theorem SameGeom.inv {s s' : State} (hg : SameGeom s s') (h : GeomInv cfg s) : GeomInv cfg s' := by
  refine ⟨?_, hg.minAlign ▸ h.minAlign, ?_⟩
  · intro j c' hj
    obtain ⟨c, hc, hcc⟩ := hg.getElem? hj
    exact (h.chunks j c hc).of_geom hcc
  · intro j hj
    rw [hg.cur] at hj
    obtain ⟨c, hc, hd⟩ := h.cur j hj
    obtain ⟨c', hc', hcc⟩ := hg.getElem?' hc
    exact ⟨c', hc', by rw [hg.minAlign, geom_pos hcc]; exact hd⟩

theorem SameGeom.shape {s s' : State} (hg : SameGeom s s') : SameShape s s' := by
  have := congrArg (List.map (fun x : Nat × Nat × Nat × Nat × Nat × Nat => (x.1, x.2.1, x.2.2.2.1, x.2.2.2.2.1, x.2.2.2.2.2))) hg.chunks
  simp only [List.map_map] at this
  exact this

theorem SameGeom.respsOK {s s' : State} (hg : SameGeom s s') (hr : RespsOK cfg s) : RespsOK cfg s' := by
  intro x hx; rw [hg.resps] at hx; exact hr x hx

theorem SameGeom.curPos {s s' : State} (hg : SameGeom s s') : curPos cfg s' = curPos cfg s := by
  unfold Arena.curPos
  rw [hg.cur]
  cases hc : s.cur with
  | chunk i =>
    simp only
    cases hi : s.chunks[i]? with
    | none =>
      have : s'.chunks[i]? = none := by
        cases hi' : s'.chunks[i]? with
        | none => rfl
        | some c' => obtain ⟨c, h1, _⟩ := hg.getElem? hi'; rw [hi] at h1; cases h1
      rw [this]
    | some c =>
      obtain ⟨c', h1, h2⟩ := hg.getElem?' hi
      rw [h1]
      exact geom_pos h2
  | unallocated => rfl
  | claimed => rfl

theorem SameGeom.isLast {s s' : State} (hg : SameGeom s s') (ptr size : Nat) :
    isLast cfg s' ptr size = isLast cfg s ptr size := by
  unfold Arena.isLast
  rw [hg.curPos]

/-! ## writes and copies -/

theorem map_modify_at {α β : Type} (l : List α) (i : Nat) (a : α) (g : α → α) (f : α → β) (hi : l[i]? = some a)
    (hfg : f (g a) = f a) : (l.modify i g).map f = l.map f := by
  apply List.ext_getElem?
  intro j
  simp only [List.getElem?_map, List.getElem?_modify]
  by_cases hij : i = j
  · subst hij
    rw [hi]
    simp [hfg]
  · cases l[j]? with
    | none => rfl
    | some b => simp [hij]

theorem writeRange_geom {s s' : State} {lo hi : Nat} {f : Nat → UInt8} (he : writeRange cfg s lo hi f = .ok s') :
    SameGeom s s' := by
  unfold writeRange at he
  split at he
  · cases he; exact SameGeom.refl _
  · split at he
    · cases he
    · split at he
      · cases he
      · rename_i i _ c hc
        split at he
        · cases he
          refine ⟨?_, rfl, rfl, rfl⟩
          apply map_modify_at _ _ c _ _ hc
          simp only [Chunk.geom, Array.size_ofFn]
        · cases he

theorem copyBytes_geom {s s' : State} {src dst len : Nat} {no : Bool} (he : copyBytes cfg s src dst len no = .ok s') :
    SameGeom s s' := by
  unfold copyBytes at he
  split at he
  · cases he; exact SameGeom.refl _
  · split at he
    · cases he
    · split at he
      · cases he
      · exact writeRange_geom he

/-! ## position update after a copy -/

theorem SameGeom.setCurPos_inv {s s' : State} (hg : SameGeom s s') (h : GeomInv cfg s) {i p : Nat} {c : Chunk}
    (hcur : s.cur = .chunk i) (hi : s.chunks[i]? = some c)
    (h1 : c.contentStart cfg ≤ p) (h2 : p ≤ c.contentEnd cfg) (h3 : s.minAlign ∣ p) :
    GeomInv cfg (setCurPos s' p) ∧ SameShape s (setCurPos s' p) ∧ (setCurPos s' p).minAlign = s.minAlign ∧
      (setCurPos s' p).resps = s.resps ∧ (setCurPos s' p).cur = s.cur := by
  obtain ⟨c', hi', hcc⟩ := hg.getElem?' hi
  have hinv := hg.inv h
  refine ⟨hinv.setCurPos (hg.cur.trans hcur) hi' (by rw [geom_contentStart hcc]; exact h1)
    (by rw [geom_contentEnd hcc]; exact h2) (by rw [hg.minAlign]; exact h3),
    hg.shape.trans (setCurPos_shape _ _), (setCurPos_minAlign _ _).trans hg.minAlign,
    (setCurPos_resps _ _).trans hg.resps, (setCurPos_cur _ _).trans hg.cur⟩

end
end Arena
