/-
  Lemmas/Hist2AdvTry.lean — `alloc_try_with(_mut)` never makes `stats().allocated()` smaller.
-/
import BumpProof.Lemmas.Hist2Adv
import BumpProof.Lemmas.Hist2Scope

set_option linter.unusedSimpArgs false
set_option linter.unusedVariables false

namespace Arena.Hist
open Rs Ledger

variable {cfg : Cfg}

theorem cov_take_bs {s s' : State} (hc : ChunksCov s s') {n : Nat} (hn : n ≤ s.chunks.length) :
    (s'.chunks.take n).map bs = (s.chunks.take n).map bs := by
  apply List.ext_getElem?
  intro k
  simp only [List.getElem?_map, List.getElem?_take]
  by_cases hk : k < n
  · simp only [hk, ↓reduceIte]
    have hkl : k < s.chunks.length := by omega
    obtain ⟨c', h1, hb, hs⟩ := hc k _ (List.getElem?_eq_getElem hkl)
    rw [h1, List.getElem?_eq_getElem hkl]
    simp only [Option.map_some, bs, hb, hs]
  · simp only [hk, ↓reduceIte, Option.map_none]

/-- the current chunk moved forward; the chunks up to the old current one are still in place -/
theorem adv_forward' {s s' : State} (hg : GeomInv cfg s) {i j : Nat} (hcur : s.cur = .chunk i) (hcur' : s'.cur = .chunk j)
    (hij : i < j) {cj : Chunk} (hc' : s'.chunks[j]? = some cj)
    (hpre : (s'.chunks.take (i+1)).map bs = (s.chunks.take (i+1)).map bs) : Adv cfg s s' := by
  obtain ⟨c, hci, hw, _⟩ := hg.curChunk hcur
  unfold Adv
  rw [stats_allocated_eq hcur hci, stats_allocated_eq hcur' hc']
  have h1 := capL_take_le (cfg := cfg) s'.chunks (show i + 1 ≤ j from hij)
  rw [capL_congr hpre, capL_take_succ hci] at h1
  have h2 := allocated_le_capacity hw
  omega

/-- the position of the final current chunk is set to `np`: fine if that chunk is a later one, or the old one and
    `np` lies on the free side of the old position -/
theorem adv_setCurPos_later {s s2 : State} (hg : GeomInv cfg s) {i0 j2 : Nat} {c0 c2 : Chunk} (hcur : s.cur = .chunk i0)
    (hc0 : s.chunks[i0]? = some c0) (hcov : ChunksCov s s2) (hcur2 : s2.cur = .chunk j2) (hc2 : s2.chunks[j2]? = some c2)
    (hle : i0 ≤ j2) {np : Nat} (hdir : j2 = i0 → if cfg.up then c0.pos ≤ np else np ≤ c0.pos) :
    Adv cfg s (setCurPos s2 np) := by
  have hlt0 : i0 < s.chunks.length := (List.getElem?_eq_some_iff.1 hc0).1
  have hs2 : setCurPos s2 np = setPos s2 j2 np := by unfold Arena.setCurPos; rw [hcur2]
  have hcovP : ChunksCov s (setPos s2 j2 np) := hcov.trans (ChunksCov.setPos s2 j2 np)
  rw [hs2]
  rcases Nat.lt_or_ge i0 j2 with hlt | hge
  · exact adv_forward' hg hcur (show (setPos s2 j2 np).cur = .chunk j2 from hcur2) hlt
      (Mem.setPos_getElem?_self hc2 np) (cov_take_bs hcovP (by omega))
  · have hji : j2 = i0 := by omega
    subst hji
    obtain ⟨c', h1, hb, hsz⟩ := hcov j2 c0 hc0
    rw [hc2] at h1; cases h1
    exact adv_same hcur hc0 (show (setPos s2 j2 np).cur = .chunk j2 from hcur2) (Mem.setPos_getElem?_self hc2 np)
      hb hsz (hdir rfl) (cov_take_bs hcovP (by omega))

/-- where the current chunk is after a successful `alloc`-kind allocation, relative to the one before -/
theorem allocGeneric_alloc_cur (hc : CfgOK cfg) {s : State} (h : GeomInv cfg s) (hr : RespsOK cfg s)
    {L : Layout} {hints hSlow : Hints} (hL : L.Valid)
    (hh : hints.sma = true → L.align ∣ L.size) (hhs : hSlow.sma = true → L.align ∣ L.size)
    {s' : State} {v : Nat × Nat} (he : allocGeneric cfg .alloc s L hints hSlow = .ok (s', .ok v))
    {i0 : Nat} {c0 : Chunk} (hcur : s.cur = .chunk i0) (hc0 : s.chunks[i0]? = some c0) :
    ∃ i1, s'.cur = .chunk i1 ∧ i0 ≤ i1 ∧
      (i1 = i0 → if cfg.up then c0.pos ≤ v.1 else v.1 + L.size ≤ c0.pos) := by
  obtain ⟨i, c, h1, h2, _, _, hcase⟩ := allocWhere hc h hr hL hh hhs he
  rcases hcase with ⟨c0', k1, k2, _, _, k5⟩ | hlater
  · have : i = i0 := by rw [hcur] at k1; cases k1; rfl
    subst this
    rw [hc0] at k2; cases k2
    refine ⟨i, h1, Nat.le_refl _, fun _ => ?_⟩
    cases hup : cfg.up <;> simp only [hup, Bool.false_eq_true, ↓reduceIte] at k5 ⊢
    · exact k5.1
    · exact k5.1
  · have := hlater i0 hcur
    exact ⟨i, h1, Nat.le_of_lt this, fun e => by omega⟩

/-- the closure's own allocation never moves the current chunk backwards -/
theorem alloc_cur_mono (hc : CfgOK cfg) {s s' : State} (h : GeomInv cfg s) (hr : RespsOK cfg s) {L : Layout} (hL : L.Valid)
    {r : Except AErr Nat} (he : alloc cfg s L = .ok (s', r)) {i : Nat} (hcur : s.cur = .chunk i) :
    ∃ j, s'.cur = .chunk j ∧ i ≤ j := by
  obtain ⟨c, hci, _⟩ := h.cur i hcur
  cases r with
  | error e =>
    have := (C07.alloc_error_intact he).1.sameCur
    exact ⟨i, this.trans hcur, Nat.le_refl _⟩
  | ok p =>
    obtain ⟨r', h1, h2⟩ := alloc_split he
    cases r' with
    | error e => simp [Except.map] at h2
    | ok v =>
      obtain ⟨j, hj, hle, _⟩ := allocGeneric_alloc_cur hc h hr hL (custom_truthful L) (custom_truthful L) h1 hcur hci
      exact ⟨j, hj, hle⟩

theorem withInner_cur (s2 : State) (io : Option (Nat × Layout)) : (withInner s2 io).cur = s2.cur := by
  cases io with
  | none => rfl
  | some x => rfl

theorem withInner_minAlign (s2 : State) (io : Option (Nat × Layout)) : (withInner s2 io).minAlign = s2.minAlign := by
  cases io with
  | none => rfl
  | some x => rfl

/-- what is known about the state `s2` in which the closure of `alloc_try_with` returned -/
structure TryMid (cfg : Cfg) (g : GState) (s2 : State) (ptr : Nat) (L : Layout) (mut_ : Bool) : Prop where
  adv : Adv cfg g.s s2
  trail : Trail g.s s2
  geom : GeomInv cfg s2
  /-- `_mut`: the prepared block lies on the free side of the position of the current chunk of `s2` -/
  prep : mut_ = true → ∃ i c, s2.cur = .chunk i ∧ s2.chunks[i]? = some c ∧
    (if cfg.up then c.pos ≤ ptr else ptr + L.size ≤ c.pos)
  /-- non-`mut`: the current chunk did not move backwards, and if it is still the one of `g`, the block lies on the
      free side of the position `g` had -/
  fwd : mut_ = false → ∀ i0 c0, g.s.cur = .chunk i0 → g.s.chunks[i0]? = some c0 →
    ∃ j2, s2.cur = .chunk j2 ∧ i0 ≤ j2 ∧ (j2 = i0 → if cfg.up then c0.pos ≤ ptr else ptr + L.size ≤ c0.pos)

theorem tryMid_of {g : GState} (hi : Inv cfg g) (hr : RespsOK cfg g.s) (hf : RespsFresh g.s)
    {L : Layout} (hL : L.Valid) (hsz : L.align ∣ L.size) {mut_ : Bool} {s1 : State} {ptr x : Nat}
    (h1 : allocGeneric cfg (if mut_ then .prepare else .alloc) g.s L Hints.sized Hints.custom = .ok (s1, .ok (ptr, x)))
    {inner : Option Layout} {s2 : State} {io : Option (Nat × Layout)} (hin : tryInner cfg s1 inner mut_ = .ok (s2, io)) :
    TryMid cfg g s2 ptr L mut_ := by
  have hc := hi.cfgOK
  have hh : Hints.sized.sma = true → L.align ∣ L.size := fun _ => hsz
  have hk : (if mut_ then Kind.prepare else Kind.alloc) = Kind.range → L.align ∣ L.size := by
    intro e; cases mut_ <;> cases e
  have p1 := allocGeneric_post hc hi.geom hr hi.disj hf _ hL hh (custom_truthful L) hk h1
  have a1 : Adv cfg g.s s1 := allocGeneric_adv hc hi.geom hr _ hL hh (custom_truthful L) hk h1
  have t1 : Trail g.s s1 := tr_allocGeneric h1
  cases mut_ with
  | true =>
    obtain ⟨rfl, _⟩ := tryInner_mut hin
    refine ⟨a1, t1, p1.inv, fun _ => ?_, (fun e => by cases e)⟩
    have hfound := p1.found (ptr, x) rfl
    simp only [↓reduceIte, FoundAt] at hfound
    obtain ⟨_, i, c, k1, k2, k3⟩ := hfound
    refine ⟨i, c, k1, k2, ?_⟩
    cases hup : cfg.up <;> simp only [hup, Bool.false_eq_true, ↓reduceIte] at k3 ⊢
    · exact k3.2
    · exact k3.1
  | false =>
    simp only [Bool.false_eq_true, ↓reduceIte] at h1
    have first : ∀ i0 c0, g.s.cur = .chunk i0 → g.s.chunks[i0]? = some c0 →
        ∃ i1, s1.cur = .chunk i1 ∧ i0 ≤ i1 ∧ (i1 = i0 → if cfg.up then c0.pos ≤ ptr else ptr + L.size ≤ c0.pos) :=
      fun i0 c0 hcur hc0 => allocGeneric_alloc_cur hc hi.geom hr hL hh (custom_truthful L) h1 hcur hc0
    rcases tryInner_inv hin with ⟨rfl, _⟩ | ⟨Li, r, hLi, hal, _⟩
    · exact ⟨a1, t1, p1.inv, (fun e => by cases e), fun _ i0 c0 hcur hc0 => first i0 c0 hcur hc0⟩
    · obtain ⟨r', _, p2⟩ := alloc_post hc p1.inv p1.resps p1.disj p1.fresh hLi hal
      refine ⟨a1.trans (alloc_adv hc p1.inv p1.resps hLi hal), t1.trans (tr_alloc hal), p2.inv, (fun e => by cases e),
        fun _ i0 c0 hcur hc0 => ?_⟩
      obtain ⟨i1, hi1, hle1, hd1⟩ := first i0 c0 hcur hc0
      obtain ⟨j2, hj2, hle2⟩ := alloc_cur_mono hc p1.inv p1.resps hLi hal hi1
      exact ⟨j2, hj2, Nat.le_trans hle1 hle2, fun e => hd1 (by omega)⟩

/-- the part of `alloc_try_with` after the closure returned -/
theorem tryTail_adv {g g' : GState} (hi : Inv cfg g) {s2 : State} {io : Option (Nat × Layout)} {ptr off vsize : Nat}
    {L : Layout} {mut_ ok cs : Bool} {out : Out} (m : TryMid cfg g s2 ptr L mut_) (hov : off + vsize ≤ L.size)
    (ht : tryTail cfg g (withInner s2 io) ptr off vsize ok cs = .ok (g', out)) : Adv cfg g.s g'.s := by
  have hc := hi.cfgOK
  have hch : (withInner s2 io).chunks = s2.chunks := withInner_chunks s2 io
  have hcu2 : (withInner s2 io).cur = s2.cur := withInner_cur s2 io
  have hma2 : (withInner s2 io).minAlign = s2.minAlign := withInner_minAlign s2 io
  have hmid : Adv cfg g.s (withInner s2 io) := m.adv.trans (Adv.of_chunks hch hcu2)
  have hcov : ChunksCov g.s (withInner s2 io) := m.trail.cov.trans (ChunksCov.of_eq hch)
  have hmin : MinAlignOK (withInner s2 io).minAlign := by rw [hma2]; exact m.geom.minAlign
  unfold tryTail at ht
  cases ok with
  | false =>
    cases cs with
    | false =>
      simp only [Bool.false_eq_true, ↓reduceIte, bind, Except.bind, pure, Except.pure] at ht
      cases ht
      exact hmid
    | true =>
      simp only [Bool.false_eq_true, ↓reduceIte, bind, Except.bind, pure, Except.pure] at ht
      split at ht
      · cases ht
      · rename_i s3 hr3
        cases ht
        have hg2 : GeomInv cfg (withInner s2 io) := geom_congr hch hcu2 hma2 m.geom
        have hmae : (withInner s2 io).minAlign = g.s.minAlign := hma2.trans m.trail.minAlign
        have hr : resetTo cfg { withInner s2 io with minAlign := g.s.minAlign } (checkpoint cfg g.s) = .ok s3 := by
          have : ({ withInner s2 io with minAlign := g.s.minAlign } : State) = withInner s2 io := by rw [← hmae]
          rw [this]; exact hr3
        obtain ⟨r1, _⟩ := resetTo_restores hc hi hg2 hcov hr
        exact Adv.of_eq r1
  | true =>
    cases cs with
    | false =>
      simp only [Bool.false_eq_true, ↓reduceIte, bind, Except.bind, pure, Except.pure, okOut, addBlock] at ht
      cases ht
      exact hmid
    | true =>
      have key : ∃ np j, (if cfg.up then ptr + off + vsize ≤ np else np ≤ ptr + off) ∧
          (withInner s2 io).cur = .chunk j ∧ g'.s.chunks = (setCurPos (withInner s2 io) np).chunks ∧
          g'.s.cur = (setCurPos (withInner s2 io) np).cur := by
        cases hup : cfg.up
        · simp only [hup, Bool.false_eq_true, ↓reduceIte, bind, Except.bind, pure, Except.pure, okOut, addBlock] at ht
          split at ht
          · cases ht
          · rename_i np hnp
            split at ht
            · rename_i j hj
              cases ht
              exact ⟨np, j, by simp only [Bool.false_eq_true, ↓reduceIte]; exact down_align_le hnp, hj, rfl, rfl⟩
            · simp only [throw, throwThe, MonadExceptOf.throw] at ht; cases ht
        · simp only [hup, ↓reduceIte, bind, Except.bind, pure, Except.pure, okOut, addBlock] at ht
          split at ht
          · cases ht
          · rename_i np hnp
            split at ht
            · rename_i j hj
              cases ht
              exact ⟨np, j, by simp only [↓reduceIte]; exact up_align_ge hmin hnp, hj, rfl, rfl⟩
            · simp only [throw, throwThe, MonadExceptOf.throw] at ht; cases ht
      obtain ⟨np, j2, hnpdir, hj2, e1, e2⟩ := key
      refine Adv.congr_right (t := setCurPos (withInner s2 io) np) ?_ e1 e2
      cases hcu : g.s.cur with
      | claimed => exact Adv.of_zero (Or.inl hcu)
      | unallocated => exact Adv.of_zero (Or.inr hcu)
      | chunk i0 =>
        obtain ⟨c0, hc0, _⟩ := hi.geom.cur i0 hcu
        cases mut_ with
        | true =>
          obtain ⟨i, c, k1, k2, k3⟩ := m.prep rfl
          refine hmid.trans (adv_setCurPos (hcu2.trans k1) (by rw [hch]; exact k2) ?_)
          cases hup : cfg.up <;> simp only [hup, Bool.false_eq_true, ↓reduceIte] at k3 hnpdir ⊢ <;> omega
        | false =>
          obtain ⟨j, hj, hle, hd⟩ := m.fwd rfl i0 c0 hcu hc0
          obtain ⟨c2, hc2, _⟩ := m.geom.cur j hj
          refine adv_setCurPos_later hi.geom hcu hc0 hcov (hcu2.trans hj) (by rw [hch]; exact hc2) hle (fun e => ?_)
          have := hd e
          cases hup : cfg.up <;> simp only [hup, Bool.false_eq_true, ↓reduceIte] at this hnpdir ⊢ <;> omega

/-- `alloc_try_with(_mut)` never makes the allocated byte count smaller -/
theorem adv_allocTryWith {g g' : GState} {out : Out} (hi : Inv cfg g) (hr : RespsOK cfg g.s) (hf : RespsFresh g.s)
    {L : Layout} {off vsize : Nat} {ok : Bool} {inner : Option Layout} {mut_ : Bool} (hsz : L.align ∣ L.size)
    (hs : stepCore cfg g (.allocTryWith L off vsize ok inner mut_) = .ok (g', out)) : Adv cfg g.s g'.s := by
  obtain ⟨hL, hp, hov, s1, r1, h1, hrest⟩ := tryWith_inv hs
  have hc := hi.cfgOK
  have hh : Hints.sized.sma = true → L.align ∣ L.size := fun _ => hsz
  have hk : (if mut_ then Kind.prepare else Kind.alloc) = Kind.range → L.align ∣ L.size := by
    intro e; cases mut_ <;> cases e
  cases r1 with
  | error e =>
    simp only at hrest
    subst hrest
    exact allocGeneric_adv hc hi.geom hr _ hL hh (custom_truthful L) hk h1
  | ok v =>
    obtain ⟨ptr, x⟩ := v
    simp only at hrest
    obtain ⟨s2, io, hin, htail⟩ := hrest
    exact tryTail_adv hi (tryMid_of hi hr hf hL hsz h1 hin) hov htail

/-- `alloc_try_with(_mut)` whose closure does not allocate and returns `Err`: the checkpoint taken before the
    allocation is restored, whatever path (fast, later chunk, new chunk) the allocation took -/
theorem tryWith_err_restores {g g' : GState} (hi : Inv cfg g) (hr : RespsOK cfg g.s) (hf : RespsFresh g.s)
    {L : Layout} {off vsize : Nat} {mut_ : Bool} (hsz : L.align ∣ L.size)
    (hs : stepCore cfg g (.allocTryWith L off vsize false none mut_) = .ok (g', .none_)) :
    (stats cfg g'.s).allocated = (stats cfg g.s).allocated ∧
    (∀ i, g.s.cur = .chunk i → g'.s.cur = .chunk i ∧ curPos cfg g'.s = curPos cfg g.s) ∧
    ChunksCov g.s g'.s ∧ g'.s.live = g.s.live ∧ g'.s.nextId = g.s.nextId ∧
    (g'.s.frames = g.s.frames ∧ g'.marks = g.marks ∧ g'.s.minAlign = g.s.minAlign) := by
  obtain ⟨hL, hp, hov, s1, r1, h1, hrest⟩ := tryWith_inv hs
  have hc := hi.cfgOK
  have hh : Hints.sized.sma = true → L.align ∣ L.size := fun _ => hsz
  have hk : (if mut_ then Kind.prepare else Kind.alloc) = Kind.range → L.align ∣ L.size := by
    intro e; cases mut_ <;> cases e
  cases r1 with
  | error e =>
    -- the output would be `.err e`
    exfalso
    unfold stepCore at hs
    simp only [bind, Except.bind, pure, Except.pure, h1] at hs
    (repeat' split at hs) <;> first | (cases hs; done) | skip
    all_goals simp_all
  | ok v =>
    obtain ⟨ptr, x⟩ := v
    simp only at hrest
    obtain ⟨s2, io, hin, htail⟩ := hrest
    have hs2 : s2 = s1 ∧ io = none := by
      unfold tryInner at hin
      simp only [pure, Except.pure, Except.ok.injEq, Prod.mk.injEq] at hin
      exact ⟨hin.1.symm, hin.2.symm⟩
    obtain ⟨rfl, rfl⟩ := hs2
    have p1 := allocGeneric_post hc hi.geom hr hi.disj hf _ hL hh (custom_truthful L) hk h1
    have t1 : Trail g.s s2 := tr_allocGeneric h1
    have st1 := p1.stable
    -- the position test succeeds
    have hcs : (mut_ || (if cfg.up then curPos cfg s2 else ptr) == curPos cfg s2) = true := by
      cases mut_ with
      | true => rfl
      | false =>
        simp only [Bool.false_or, beq_iff_eq]
        cases hup : cfg.up
        · simp only [Bool.false_eq_true, ↓reduceIte]
          simp only [Bool.false_eq_true, ↓reduceIte] at h1
          obtain ⟨i, c, k1, k2, _, k4, _⟩ := allocWhere hc hi.geom hr hL hh (custom_truthful L) h1
          simp only [hup, Bool.false_eq_true, ↓reduceIte] at k4
          rw [curPos_chunk k1 k2, k4]
        · simp only [↓reduceIte]
    rw [hcs] at htail
    unfold tryTail withInner at htail
    simp only [Bool.false_eq_true, ↓reduceIte, bind, Except.bind, pure, Except.pure] at htail
    split at htail
    · cases htail
    · rename_i s3 hr3
      cases htail
      have hmae : s2.minAlign = g.s.minAlign := t1.minAlign
      have hres : resetTo cfg { s2 with minAlign := g.s.minAlign } (checkpoint cfg g.s) = .ok s3 := by
        have : ({ s2 with minAlign := g.s.minAlign } : State) = s2 := by rw [← hmae]
        rw [this]; exact hr3
      obtain ⟨r1, r2, r3, _, _, r6⟩ := resetTo_restores hc hi p1.inv t1.cov hres
      have hst3 := resetTo_stable hr3
      have hl3 : s3.live = g.s.live := hst3.live.trans st1.live
      refine ⟨r1, r2, r3, ?_, hst3.nextId.trans st1.nextId,
        ⟨(tr_resetTo hr3).frames.trans t1.frames, rfl, r6⟩⟩
      · show s3.live.filter (·.id < g.s.nextId) = g.s.live
        rw [hl3]
        apply List.filter_eq_self.2
        intro b hb
        simpa using hi.ids b hb

/-- EVERY constructor that is not in `Op.mayReclaim` never makes `stats().allocated()` smaller -/
theorem stepCore_adv_full {g g' : GState} {out : Out} {op : Op} (hcov : op.Covered) (hi : Inv cfg g)
    (hr : RespsOK cfg g.s) (hf : RespsFresh g.s) (h1 : op.mayReclaim = false)
    (hs : stepCore cfg g op = .ok (g', out)) : Adv cfg g.s g'.s := by
  cases h2 : op.isTryWith
  · exact stepCore_adv hcov hi hr h1 h2 hs
  · cases op <;> first | (cases h2; done) | skip
    rename_i L off vsize ok inner m
    have hsz : L.align ∣ L.size := by
      have : L.size % L.align = 0 := by simpa [Op.Covered, Op.covered] using hcov
      exact Nat.dvd_of_mod_eq_zero this
    exact adv_allocTryWith hi hr hf hsz hs

end Arena.Hist
