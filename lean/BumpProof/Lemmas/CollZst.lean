/-
  Lemmas/CollZst.lean — accounting lemmas for the counting model of zero-sized elements (`Coll/Zst.lean`).
-/
import BumpProof.Coll.Zst

namespace Coll.Zst

theorem pulls_spec (k : Nat) : ∀ (v : ZVec) (d : ZDrain),
    (pulls k v d).1.len = v.len ∧ (pulls k v d).1.drops = v.drops ∧ (pulls k v d).2.tailLen = d.tailLen ∧
    (pulls k v d).2.iterLen = d.iterLen - k ∧ (pulls k v d).1.escaped = v.escaped + min k d.iterLen := by
  induction k with
  | zero => intro v d; simp [pulls]
  | succ k ih =>
    intro v d
    simp only [pulls, pull]
    by_cases h : d.iterLen = 0
    · simp only [h, ↓reduceIte]
      have := ih v d
      simp [h] at this ⊢
      exact this
    · simp only [h, ↓reduceIte]
      have := ih { v with escaped := v.escaped + 1 } { d with iterLen := d.iterLen - 1 }
      simp at this ⊢
      refine ⟨this.1, this.2.1, this.2.2.1, by omega, by omega⟩

theorem truncate_spec (v : ZVec) (len : Nat) (bomb : Option Nat) :
    (truncate v len bomb).1.len = min len v.len ∧ (truncate v len bomb).1.drops = v.drops + (v.len - len) ∧
    (truncate v len bomb).1.escaped = v.escaped := by
  unfold truncate
  split
  · simp; omega
  · simp [dropN]; omega

theorem drainDrop_spec (v : ZVec) (d : ZDrain) (bomb : Option Nat) :
    (drainDrop v d bomb).1.len = v.len + d.tailLen ∧ (drainDrop v d bomb).1.drops = v.drops + d.iterLen ∧
    (drainDrop v d bomb).1.escaped = v.escaped := by
  unfold drainDrop
  have ⟨t1, t2, t3⟩ := truncate_spec { v with len := v.len + d.iterLen + d.tailLen } (v.len + d.tailLen) bomb
  simp only at t1 t2 t3
  exact ⟨by rw [t1]; omega, by rw [t2]; omega, t3⟩

theorem drain_unfold (v : ZVec) (start end_ k : Nat) (keep : Bool) (bomb : Option Nat) (h : ¬ (start > end_ ∨ end_ > v.len)) :
    drain v start end_ k keep bomb =
      some (if keep then
              (drainKeepRest (pulls k { v with len := start } { tailLen := v.len - end_, iterLen := end_ - start }).1
                 (pulls k { v with len := start } { tailLen := v.len - end_, iterLen := end_ - start }).2, false)
            else drainDrop (pulls k { v with len := start } { tailLen := v.len - end_, iterLen := end_ - start }).1
                   (pulls k { v with len := start } { tailLen := v.len - end_, iterLen := end_ - start }).2 bomb) := by
  unfold drain
  rw [if_neg h]
  cases keep <;> rfl

/-- accounting of a whole `drain(start..end)` + `k` pulls + drop / `keep_rest` -/
theorem drain_spec (v : ZVec) (start end_ k : Nat) (keep : Bool) (bomb : Option Nat) (hse : start ≤ end_) (hel : end_ ≤ v.len) :
    ∃ v' p, drain v start end_ k keep bomb = some (v', p) ∧
      v'.escaped = v.escaped + min k (end_ - start) ∧
      v'.len = v.len - (end_ - start) + (if keep then end_ - start - k else 0) ∧
      v'.drops = v.drops + (if keep then 0 else end_ - start - k) := by
  rw [drain_unfold v start end_ k keep bomb (by omega)]
  obtain ⟨h1, h2, h3, h4, h5⟩ := pulls_spec k { v with len := start } { tailLen := v.len - end_, iterLen := end_ - start }
  simp only at h1 h2 h3 h4 h5
  cases keep with
  | true =>
    simp only [↓reduceIte]
    exact ⟨_, _, rfl, by simp only [drainKeepRest, h5], by simp only [drainKeepRest, h1, h3, h4]; omega,
      by simp only [drainKeepRest, h2]; omega⟩
  | false =>
    obtain ⟨t1, t2, t3⟩ := drainDrop_spec (pulls k { v with len := start } { tailLen := v.len - end_, iterLen := end_ - start }).1
      (pulls k { v with len := start } { tailLen := v.len - end_, iterLen := end_ - start }).2 bomb
    simp only [Bool.false_eq_true, ↓reduceIte]
    generalize drainDrop (pulls k { v with len := start } { tailLen := v.len - end_, iterLen := end_ - start }).1
      (pulls k { v with len := start } { tailLen := v.len - end_, iterLen := end_ - start }).2 bomb = dd at t1 t2 t3 ⊢
    obtain ⟨v', p⟩ := dd
    simp only at t1 t2 t3
    exact ⟨v', p, rfl, by rw [t3, h5], by rw [t1, h1, h3]; omega, by rw [t2, h2, h4]⟩

end Coll.Zst
