/-
  Lemmas/TargetsZst1.lean — WHERE THE ADDRESS OF A NEW BLOCK CAN BE, also when the block is EMPTY.

  `Arena.Hist.Inv` places only non-empty live blocks (`LiveOK.placed`).  To show that no live block — not even a
  zero-sized one — can be mistaken for the last allocation of the static dummy chunk of a claimed handle
  (`DummyApart`), we bound the END `addr + size` of every live block by a number `B` that bounds the end of every
  chunk (`ChunksBelow B`).  This file has the function-level facts: the block returned by each allocating /
  reallocating model function ends at or below `B`, provided the chunks of the state it returns do, and (for
  the reallocating functions) the old block did.
-/
import BumpProof.Props.Hist2

set_option linter.unusedSimpArgs false
set_option linter.unusedVariables false

namespace Arena.Hist
open Rs Ledger Lemmas

variable {cfg : Cfg}

/-- every chunk ends at or below `B` -/
def ChunksBelow (B : Nat) (s : State) : Prop := ∀ c ∈ s.chunks, c.base + c.size ≤ B

/-- every live block — also an empty one — ends at or below `B` -/
def BlocksBelow (B : Nat) (s : State) : Prop := ∀ b ∈ s.live, b.addr + b.size ≤ B

theorem ChunksBelow.of_cov {B : Nat} {s s' : State} (hc : ChunksCov s s') (h : ChunksBelow B s') : ChunksBelow B s := by
  intro c hcm
  obtain ⟨j, hj⟩ := List.getElem?_of_mem hcm
  obtain ⟨c', hj', e1, e2⟩ := hc j c hj
  have := h c' (List.mem_of_getElem? hj')
  omega

theorem ChunksBelow.of_eq {B : Nat} {s s' : State} (he : s.chunks = s'.chunks) (h : ChunksBelow B s') : ChunksBelow B s := by
  intro c hcm
  rw [he] at hcm
  exact h c hcm

theorem ChunksBelow.get {B : Nat} {s : State} (h : ChunksBelow B s) {i : Nat} {c : Chunk} (hi : s.chunks[i]? = some c) :
    c.base + c.size ≤ B := h c (List.mem_of_getElem? hi)

/-- the content range of a well-formed chunk ends inside the chunk -/
theorem contentEnd_le_end {c : Chunk} : c.contentEnd cfg ≤ c.base + c.size := by
  unfold Chunk.contentEnd; split <;> omega

theorem placed_below {B : Nat} {s : State} (h : ChunksBelow B s) {p n : Nat} (hp : Mem.Placed cfg s p n) : p + n ≤ B := by
  obtain ⟨i, j, c, _, _, hj, hin, _⟩ := hp
  have := (Mem.inContent_in_chunk hin).2
  have := h.get hj
  omega

/-! ## the allocating functions -/

theorem allocGeneric_alloc_below (hc : CfgOK cfg) {s : State} (h : GeomInv cfg s) (hr : RespsOK cfg s)
    (hd : ChunksDisjoint s) (hf : RespsFresh s) (hl : Mem.LiveOK cfg s) {L : Layout} {hints hSlow : Hints} (hL : L.Valid)
    (hh : hints.sma = true → L.align ∣ L.size) (hhs : hSlow.sma = true → L.align ∣ L.size)
    {s' : State} {v : Nat × Nat} (he : allocGeneric cfg .alloc s L hints hSlow = .ok (s', .ok v))
    {B : Nat} (hB : ChunksBelow B s') : v.1 + L.size ≤ B :=
  placed_below hB ((allocGeneric_post hc h hr hd hf .alloc hL hh hhs (fun hk => by cases hk) he).outcome rfl v rfl hl).placed

theorem inAnotherChunk_alloc_below (hc : CfgOK cfg) {s : State} (h : GeomInv cfg s) (hr : RespsOK cfg s)
    (hd : ChunksDisjoint s) (hf : RespsFresh s) (hl : Mem.LiveOK cfg s) {L : Layout} {hints : Hints} (hL : L.Valid)
    (hh : hints.sma = true → L.align ∣ L.size)
    {s' : State} {v : Nat × Nat} (he : inAnotherChunk cfg .alloc s L hints = .ok (s', .ok v))
    {B : Nat} (hB : ChunksBelow B s') : v.1 + L.size ≤ B :=
  placed_below hB ((inAnotherChunk_post hc h hr hd hf .alloc hL hh (fun hk => by cases hk) he).outcome rfl v rfl hl).placed

theorem alloc_below (hc : CfgOK cfg) {s : State} (h : GeomInv cfg s) (hr : RespsOK cfg s)
    (hd : ChunksDisjoint s) (hf : RespsFresh s) (hl : Mem.LiveOK cfg s) {L : Layout} (hL : L.Valid)
    {s' : State} {p : Nat} (he : alloc cfg s L = .ok (s', .ok p))
    {B : Nat} (hB : ChunksBelow B s') : p + L.size ≤ B := by
  obtain ⟨r', h1, h2⟩ := alloc_split he
  cases r' with
  | error e => cases h2
  | ok v =>
    simp only [Except.map, Except.ok.injEq] at h2
    subst h2
    exact allocGeneric_alloc_below hc h hr hd hf hl hL (custom_truthful L) (custom_truthful L) h1 hB

/-- `prepare_allocation` (the `_mut` variant of `alloc_try_with`): the prepared block lies in the current chunk -/
theorem allocGeneric_prepare_below (hc : CfgOK cfg) {s : State} (h : GeomInv cfg s) (hr : RespsOK cfg s)
    (hd : ChunksDisjoint s) (hf : RespsFresh s) {L : Layout} {hints hSlow : Hints} (hL : L.Valid)
    (hh : hints.sma = true → L.align ∣ L.size) (hhs : hSlow.sma = true → L.align ∣ L.size)
    {s' : State} {v : Nat × Nat} (he : allocGeneric cfg .prepare s L hints hSlow = .ok (s', .ok v))
    {B : Nat} (hB : ChunksBelow B s') : v.1 + L.size ≤ B := by
  have p := allocGeneric_post hc h hr hd hf .prepare hL hh hhs (fun hk => by cases hk) he
  obtain ⟨_, i, c, hcur, hi, hrange⟩ := p.found v rfl
  have hw := p.inv.chunks i c hi
  have h1 := hw.pos_le
  have h2 := contentEnd_le_end (cfg := cfg) (c := c)
  have h3 := hB.get hi
  cases hup : cfg.up
  · simp only [hup, Bool.false_eq_true, ↓reduceIte] at hrange; omega
  · simp only [hup, ↓reduceIte] at hrange; omega

/-! ## `grow` -/

theorem bump_down_le' {x sz a p : Nat} (h : liftM (Gen.LibArith.bump_down x sz a) = .ok p) : p ≤ x - sz := by
  unfold Gen.LibArith.bump_down at h
  simp only [bind, Except.bind, pure, Except.pure] at h
  cases hq : Gen.LibArith.down_align_usize (Rs.saturating_sub x sz) a with
  | error e => rw [hq] at h; cases h
  | ok v =>
    rw [hq] at h
    have : v = p := by simpa [liftM] using h
    subst this
    have h1 := down_align_le (x := Rs.saturating_sub x sz) (a := a) (p := v) (by rw [hq]; rfl)
    have h2 : Rs.saturating_sub x sz = x - sz := rfl
    omega

/-- the `moveTo` continuation: the block found by an allocation path is moved into; it ends below `B` -/
theorem moveTo_below {s1 s' : State} {ptr oldSize n : Nat} {r1 : Except AErr Nat} {np : Nat} {B : Nat}
    (hfound : ∀ p, r1 = .ok p → ChunksBelow B s1 → p + n ≤ B) (hB : ChunksBelow B s')
    (he : (match (s1, r1) with
      | (s', Except.error e) => (pure (s', Except.error e) : R (State × Except AErr Nat))
      | (s', Except.ok np) => do
        let s'' ← copyBytes cfg s' ptr np oldSize true
        pure (s'', Except.ok np)) = .ok (s', .ok np)) : np + n ≤ B := by
  cases r1 with
  | error e => cases he
  | ok p =>
    simp only at he
    obtain ⟨s2, h1, h2⟩ := bind_eq_ok he
    cases h2
    exact hfound np rfl (ChunksBelow.of_cov (tr_copyBytes h1).cov hB)

/-- `grow`: the new block ends at or below `B` (in place: inside the current chunk / not past the old block's end;
    moved: inside the chunk the allocation path found) -/
theorem grow_below {g : GState} (h : Inv cfg g) (hr : RespsOK cfg g.s) (hf : RespsFresh g.s) {blk : Block}
    (hb : blk ∈ g.s.live) {L : Layout} (hL : L.Valid) {s' : State} {np : Nat}
    (he : grow cfg g.s blk.addr blk.size L = .ok (s', .ok np))
    {B : Nat} (hB : ChunksBelow B s') (hblk : blk.addr + blk.size ≤ B) : np + L.size ≤ B := by
  have hc := h.cfgOK
  unfold grow at he
  obtain ⟨_, hassert, he⟩ := bind_eq_ok he
  have hsz : blk.size ≤ L.size := by
    have := liftM_eq_ok hassert
    unfold Rs.assert at this
    split at this
    · simpa using ‹decide (L.size ≥ blk.size) = true›
    · cases this
  simp only at he
  have hslow : (inAnotherChunk cfg Kind.alloc g.s L Hints.custom >>= fun x =>
      match x with
      | (s1, r1) => (match (s1, Except.map (fun x => x.fst) r1) with
        | (s', Except.error e) => (pure (s', Except.error e) : R (State × Except AErr Nat))
        | (s', Except.ok np) => do
          let s'' ← copyBytes cfg s' blk.addr np blk.size true
          pure (s'', Except.ok np))) = .ok (s', .ok np) → np + L.size ≤ B := by
    intro he
    obtain ⟨⟨s1, r1⟩, h1, h2⟩ := bind_eq_ok he
    refine moveTo_below (n := L.size) ?_ hB h2
    intro p hp hB1
    cases r1 with
    | error e => cases hp
    | ok v =>
      simp only [Except.map, Except.ok.injEq] at hp
      subst hp
      exact inAnotherChunk_alloc_below hc h.geom hr h.disj hf h.live hL (custom_truthful L) h1 hB1
  have halloc : (alloc cfg g.s L >>= fun x =>
      (match x with
        | (s', Except.error e) => (pure (s', Except.error e) : R (State × Except AErr Nat))
        | (s', Except.ok np) => do
          let s'' ← copyBytes cfg s' blk.addr np blk.size true
          pure (s'', Except.ok np))) = .ok (s', .ok np) → np + L.size ≤ B := by
    intro he
    obtain ⟨⟨s1, r1⟩, h1, h2⟩ := bind_eq_ok he
    refine moveTo_below (n := L.size) ?_ hB h2
    intro p hp hB1
    subst hp
    exact alloc_below hc h.geom hr h.disj hf h.live hL h1 hB1
  split at he
  · -- upwards
    split at he
    · split at he
      · cases he
      · rename_i c hcc
        obtain ⟨i, hcur, hi⟩ := curChunk?_eq_some hcc
        obtain ⟨rem, h1, he⟩ := bind_eq_ok he
        split at he
        · rename_i hle
          obtain ⟨t, h2, he⟩ := bind_eq_ok he
          obtain ⟨np', h3, he⟩ := bind_eq_ok he
          cases he
          have h1' := liftM_eq_ok h1
          unfold Rs.sub at h1'
          split at h1'
          · cases h1'
            have hBs := ChunksBelow.of_cov (ChunksCov.setCurPos g.s np') hB
            have := hBs.get hi
            have := contentEnd_le_end (cfg := cfg) (c := c)
            omega
          · cases h1'
        · exact hslow he
    · exact halloc he
  · -- downwards
    split at he
    · split at he
      · cases he
      · rename_i c hcc
        obtain ⟨i, hcur, hi⟩ := curChunk?_eq_some hcc
        have hw := h.geom.chunks i c hi
        obtain ⟨add, h1, he⟩ := bind_eq_ok he
        obtain ⟨newAddr, h2, he⟩ := bind_eq_ok he
        split at he
        · rename_i hge
          obtain ⟨newEnd, h3, he⟩ := bind_eq_ok he
          obtain ⟨s1, h4, he⟩ := bind_eq_ok he
          cases he
          have h1' := liftM_eq_ok h1
          unfold Rs.sub at h1'
          split at h1'
          · cases h1'
            have hle := bump_down_le' h2
            have hne := hw.base_ne
            have hcs : c.contentStart cfg = c.base := by
              unfold Chunk.contentStart
              simp only [‹¬cfg.up = true›, Bool.false_eq_true, ↓reduceIte]
            rw [hcs] at hge
            omega
          · rename_i hn; exact absurd hsz hn
        · exact hslow he
    · exact halloc he

/-! ## `shrink`, `WithoutShrink::shrink`, `shrink_slice` -/

theorem liftM_add_eq {a b v : Nat} (h : liftM (Rs.add a b) = .ok v) : v = a + b := by
  have := liftM_eq_ok h
  unfold Rs.add at this
  split at this
  · cases this; rfl
  · cases this

/-- the `alloc`-then-copy tail shared by `shrink_unfit` (not the last block) and `WithoutShrink::shrink` -/
theorem alloc_tail_below {g : GState} (h : Inv cfg g) (hr : RespsOK cfg g.s) (hf : RespsFresh g.s)
    {L : Layout} (hL : L.Valid) (ptr : Nat) {s' : State} {v : Nat × Nat}
    (he : (alloc cfg g.s L >>= fun x =>
      (match x with
        | (s', Except.error e) => (pure (s', Except.error e) : R (State × Except AErr (Nat × Nat)))
        | (s', Except.ok np) => do
          let s'' ← copyBytes cfg s' ptr np L.size true
          pure (s'', Except.ok (np, L.size)))) = .ok (s', .ok v))
    {B : Nat} (hB : ChunksBelow B s') : v.1 + v.2 ≤ B := by
  obtain ⟨⟨s1, r1⟩, h1, he⟩ := bind_eq_ok he
  cases r1 with
  | error e => cases he
  | ok np =>
    simp only at he
    obtain ⟨s2, h2, he⟩ := bind_eq_ok he
    cases he
    exact alloc_below h.cfgOK h.geom hr h.disj hf h.live hL h1 (ChunksBelow.of_cov (tr_copyBytes h2).cov hB)

theorem shrinkWithoutShrink_below {g : GState} (h : Inv cfg g) (hr : RespsOK cfg g.s) (hf : RespsFresh g.s)
    {blk : Block} (hb : blk ∈ g.s.live) {L : Layout} (hL : L.Valid) (hsz : L.size ≤ blk.size)
    {s' : State} {v : Nat × Nat}
    (he : shrinkWithoutShrink cfg g.s blk.addr blk.size L = .ok (s', .ok v))
    {B : Nat} (hB : ChunksBelow B s') (hblk : blk.addr + blk.size ≤ B) : v.1 + v.2 ≤ B := by
  unfold shrinkWithoutShrink at he
  split at he
  · cases he
    simp only
    omega
  · exact alloc_tail_below h hr hf hL blk.addr he hB

theorem shrink_below {g : GState} (h : Inv cfg g) (hr : RespsOK cfg g.s) (hf : RespsFresh g.s)
    {blk : Block} (hb : blk ∈ g.s.live) {L : Layout} (hL : L.Valid)
    {s' : State} {v : Nat × Nat}
    (he : shrink cfg g.s blk.addr blk.size L = .ok (s', .ok v))
    {B : Nat} (hB : ChunksBelow B s') (hblk : blk.addr + blk.size ≤ B) : v.1 + v.2 ≤ B := by
  have hc := h.cfgOK
  unfold shrink at he
  obtain ⟨_, hassert, he⟩ := bind_eq_ok he
  have hsz : L.size ≤ blk.size := by
    have := liftM_eq_ok hassert
    unfold Rs.assert at this
    split at this
    · simpa using ‹decide (L.size ≤ blk.size) = true›
    · cases this
  have hcu : Hints.custom.sma = true → L.align ∣ L.size := fun hx => by cases hx
  split at he
  · -- the alignment does not fit: `shrink_unfit`
    split at he
    · rename_i hcond
      simp only [Bool.and_eq_true] at hcond
      have hbc := h.blockInCur' hb hcond.2
      obtain ⟨s1, h1, he⟩ := bind_eq_ok he
      obtain ⟨d2, _⟩ := C10.deallocAssumeLast_inv hc h.geom hbc h1
      rw [tryCur_eq hc d2 .alloc hL hcu] at he
      simp only [r_ok_bind] at he
      cases ht : tryCurSpec cfg .alloc s1 L with
      | some x =>
        obtain ⟨⟨np, snd⟩, s2⟩ := x
        rw [ht] at he
        simp only at he
        obtain ⟨s3, h3, he⟩ := bind_eq_ok he
        cases he
        obtain ⟨i, c, np', hcur, hi, hs2, t1, t2, t3, t4, t5, t6⟩ := tryCurSpec_alloc_some hc d2 hL ht
        subst hs2
        have hB1 : ChunksBelow B s1 :=
          ChunksBelow.of_cov ((ChunksCov.setCurPos s1 np').trans (tr_copyBytes h3).cov) hB
        have := hB1.get hi
        have := contentEnd_le_end (cfg := cfg) (c := c)
        have := (d2.chunks i c hi).pos_le
        simp only at t6 ⊢
        cases hup : cfg.up
        · simp only [hup, Bool.false_eq_true, ↓reduceIte] at t6; omega
        · simp only [hup, ↓reduceIte] at t6; omega
      | none =>
        rw [ht] at he
        simp only at he
        rw [unfit_restore h hb hcond.2 h1] at he
        obtain ⟨⟨s3, r3⟩, h3, he⟩ := bind_eq_ok he
        simp only at he
        cases r3 with
        | error e => cases he
        | ok w =>
          obtain ⟨np, snd⟩ := w
          simp only at he
          obtain ⟨s4, h4, he⟩ := bind_eq_ok he
          cases he
          exact inAnotherChunk_alloc_below hc h.geom hr h.disj hf h.live hL hcu h3
            (ChunksBelow.of_cov (tr_copyBytes h4).cov hB)
    · exact alloc_tail_below h hr hf hL blk.addr he hB
  · split at he
    · cases he
      simp only
      omega
    · split at he
      · obtain ⟨e, h1, he⟩ := bind_eq_ok he
        obtain ⟨np, h2, he⟩ := bind_eq_ok he
        split at he
        · cases he
          simp only
          omega
        · cases he
      · obtain ⟨oldEnd, h1, he⟩ := bind_eq_ok he
        obtain ⟨newAddr, h2, he⟩ := bind_eq_ok he
        obtain ⟨s1, h3, he⟩ := bind_eq_ok he
        split at he
        · cases he
          have e1 := liftM_add_eq h1
          have hle := bump_down_le' h2
          simp only
          omega
        · cases he

theorem shrinkSlice_below {g : GState} (h : Inv cfg g) {blk : Block} (hb : blk ∈ g.s.live) {newSize : Nat}
    (hsz : newSize ≤ blk.size) {s' : State} {np : Nat}
    (he : shrinkSlice cfg g.s blk.addr blk.size newSize blk.align = .ok (s', some np))
    {B : Nat} (hblk : blk.addr + blk.size ≤ B) : np + newSize ≤ B := by
  unfold shrinkSlice at he
  split at he
  · cases he
  · split at he
    · cases he
    · split at he
      · split at he
        · obtain ⟨e, h1, he⟩ := bind_eq_ok he
          obtain ⟨np', h2, he⟩ := bind_eq_ok he
          cases he
          omega
        · obtain ⟨oldEnd, h1, he⟩ := bind_eq_ok he
          obtain ⟨newAddr, h2, he⟩ := bind_eq_ok he
          obtain ⟨s1, h3, he⟩ := bind_eq_ok he
          cases he
          have e1 := liftM_add_eq h1
          have hle := bump_down_le' h2
          omega
      · cases he

end Arena.Hist
