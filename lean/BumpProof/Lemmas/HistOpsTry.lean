/-
  Lemmas/HistOpsTry.lean — preservation of `Arena.Hist.Inv` by `alloc_try_with(_mut)`
  (`Op.allocTryWith`): `stepCore` is cut into the allocation of the `Result`, the closure (`tryInner`)
  and the end (`tryTail`); `RAt` says that the `Result` block is the last thing carved from the current
  chunk (what `canShrink` tests), `Mid` is the invariant of the intermediate states of the step.
-/
import BumpProof.Lemmas.HistRealloc
set_option linter.unusedSimpArgs false
set_option linter.unusedVariables false
namespace Arena.Hist
open Rs
variable {cfg : Cfg}

/-! ## `stepCore`'s `.allocTryWith` cut into three pieces -/

/-- the closure of `alloc_try_with`: it may allocate `inner` through the same arena -/
def tryInner (cfg : Cfg) (s1 : State) (inner : Option Layout) (mut_ : Bool) : R (State × Option (Nat × Layout)) :=
  match inner with
  | some Li => do
    if mut_ then throw (.contract "closure of alloc_try_with_mut cannot use the arena")
    validLayout Li
    match ← alloc cfg s1 Li with
    | (s', .error _) => pure (s', none)
    | (s', .ok p) => pure (s', some (p, Li))
  | none => pure (s1, none)

/-- registering the block the closure allocated -/
def withInner (s2 : State) (innerOut : Option (Nat × Layout)) : State :=
  match innerOut with
  | some (p, Li) => (addBlock s2 p Li.size Li.align 0).1
  | none => s2

/-- what happens after the closure returned -/
def tryTail (cfg : Cfg) (g : GState) (s2 : State) (ptr off vsize : Nat) (ok canShrink : Bool) : R (GState × Out) :=
  if ok then do
    let s3 ← if canShrink then do
        let np ← if cfg.up then liftM (Gen.LibArith.up_align_usize_unchecked (ptr + off + vsize) s2.minAlign)
                 else liftM (Gen.LibArith.down_align_usize (ptr + off) s2.minAlign)
        match s2.cur with
        | .chunk _ => pure (setCurPos s2 np)
        | _ => throw (.ub "as_non_dummy_unchecked on a dummy chunk")
      else pure s2
    let (s4, o) := okOut s3 (ptr + off) vsize 1 0
    pure ({ g with s := s4 }, o)
  else do
    let s3 ← if canShrink then resetTo cfg s2 (checkpoint cfg g.s) else pure s2
    let s3 := if canShrink then killFrom s3 g.s.nextId else s3
    pure ({ g with s := s3 }, .none_)

theorem tryWith_inv {g g' : GState} {out : Out} {L : Layout} {off vsize : Nat} {ok : Bool} {inner : Option Layout}
    {mut_ : Bool} (hs : stepCore cfg g (.allocTryWith L off vsize ok inner mut_) = .ok (g', out)) :
    L.Valid ∧ g.s.prepared = none ∧ off + vsize ≤ L.size ∧
    ∃ s1 r1, allocGeneric cfg (if mut_ then .prepare else .alloc) g.s L Hints.sized Hints.custom = .ok (s1, r1) ∧
      match r1 with
      | .error e => g' = ⟨s1, g.marks⟩
      | .ok (ptr, _) => ∃ s2 io, tryInner cfg s1 inner mut_ = .ok (s2, io) ∧
          tryTail cfg g (withInner s2 io) ptr off vsize ok
            (mut_ || (if cfg.up then curPos cfg s1 else ptr) == curPos cfg s2) = .ok (g', out) := by
  unfold stepCore at hs
  simp only [bind, Except.bind, pure, Except.pure] at hs
  split at hs
  · cases hs
  · rename_i u hu
    have hL := validLayout_valid hu
    split at hs
    · cases hs
    · rename_i u2 hu2
      have hp := noPrepared_ok hu2
      split at hs
      · cases hs
      · rename_i hchk
        split at hs
        · cases hs
        · rename_i x hx
          obtain ⟨s1, r1⟩ := x
          refine ⟨hL, hp, by omega, s1, r1, hx, ?_⟩
          cases r1 with
          | error e => simp only at hs ⊢; cases hs; rfl
          | ok v =>
            obtain ⟨ptr, x⟩ := v
            simp only at hs ⊢
            cases inner with
            | none =>
              simp only at hs
              refine ⟨s1, none, rfl, ?_⟩
              unfold tryTail withInner
              simp only [bind, Except.bind, pure, Except.pure]
              exact hs
            | some Li =>
              simp only at hs
              cases mut_ with
              | true => simp only [↓reduceIte, throw, throwThe, MonadExceptOf.throw] at hs; cases hs
              | false =>
                simp only [Bool.false_eq_true, ↓reduceIte] at hs
                split at hs
                · cases hs
                · rename_i u3 hu3
                  split at hs
                  · cases hs
                  · rename_i y hy
                    obtain ⟨s2, r2⟩ := y
                    cases r2 with
                    | error e =>
                      simp only at hs
                      refine ⟨s2, none, ?_, ?_⟩
                      · unfold tryInner
                        simp only [bind, Except.bind, pure, Except.pure, Bool.false_eq_true, ↓reduceIte, hu3, hy]
                      · unfold tryTail withInner
                        simp only [bind, Except.bind, pure, Except.pure]
                        exact hs
                    | ok p =>
                      simp only at hs
                      refine ⟨s2, some (p, Li), ?_, ?_⟩
                      · unfold tryInner
                        simp only [bind, Except.bind, pure, Except.pure, Bool.false_eq_true, ↓reduceIte, hu3, hy]
                      · unfold tryTail withInner
                        simp only [bind, Except.bind, pure, Except.pure]
                        exact hs

/-! ## where a successful allocation put its block -/

/-- `[ptr, ptr+size)` was the last thing carved from the current chunk `c` (index `i`): the position is just
    past it (upwards: up to padding for the minimum alignment), and no non-empty live block of this chunk
    lies on the free side of its start -/
structure RAt (cfg : Cfg) (s : State) (i : Nat) (c : Chunk) (ptr size : Nat) : Prop where
  cur : s.cur = .chunk i
  chunk : s.chunks[i]? = some c
  inC : Mem.InContent cfg c ptr size
  side : if cfg.up then ptr + size ≤ c.pos else c.pos = ptr
  beyond : ∀ b ∈ s.live, 0 < b.size → Mem.InContent cfg c b.addr b.size →
    if cfg.up then b.addr + b.size ≤ ptr else ptr + size ≤ b.addr

/-- the geometric facts about a successful `alloc`-kind allocation: the block lies in the (new) current chunk
    next to its position; that chunk is the old current chunk (the block then lies on the free side of the
    old position) or a later one -/
theorem allocWhere (hc : CfgOK cfg) {s : State} (h : GeomInv cfg s) (hr : RespsOK cfg s)
    {L : Layout} {hints hSlow : Hints} (hL : L.Valid)
    (hh : hints.sma = true → L.align ∣ L.size) (hhs : hSlow.sma = true → L.align ∣ L.size)
    {s' : State} {v : Nat × Nat} (he : allocGeneric cfg .alloc s L hints hSlow = .ok (s', .ok v)) :
    ∃ i c, s'.cur = .chunk i ∧ s'.chunks[i]? = some c ∧ Mem.InContent cfg c v.1 L.size ∧
      (if cfg.up then v.1 + L.size ≤ c.pos else c.pos = v.1) ∧
      ((∃ c0, s.cur = .chunk i ∧ s.chunks[i]? = some c0 ∧ c.base = c0.base ∧ c.size = c0.size ∧
          (if cfg.up then c0.pos ≤ v.1 ∧ c0.pos ≤ c.pos else v.1 + L.size ≤ c0.pos ∧ c.pos ≤ c0.pos)) ∨
       (∀ i0, s.cur = .chunk i0 → i0 < i)) := by
  -- the last step is a `tryCurSpec` on some state `sx`
  have key : ∀ sx, GeomInv cfg sx → tryCurSpec cfg .alloc sx L = some (v, s') →
      ∃ i c c0, sx.cur = .chunk i ∧ sx.chunks[i]? = some c0 ∧ s'.cur = .chunk i ∧ s'.chunks[i]? = some c ∧
        c.base = c0.base ∧ c.size = c0.size ∧ Mem.InContent cfg c v.1 L.size ∧
        (if cfg.up then v.1 + L.size ≤ c.pos else c.pos = v.1) ∧
        (if cfg.up then c0.pos ≤ v.1 ∧ c0.pos ≤ c.pos else v.1 + L.size ≤ c0.pos ∧ c.pos ≤ c0.pos) := by
    intro sx hx hspec
    obtain ⟨i, c0, np, hcur, hi, hs', h1, h2, h3, h4, h5, h6⟩ := tryCurSpec_alloc_some hc hx hL hspec
    have hw := hx.chunks i c0 hi
    have a1 := hw.pos_ge; have a2 := hw.pos_le
    refine ⟨i, { c0 with pos := np }, c0, hcur, hi, by rw [hs', setCurPos_cur]; exact hcur, ?_, rfl, rfl, ?_, ?_, ?_⟩
    · rw [hs', Mem.setCurPos_chunk hcur]; exact Mem.setPos_getElem?_self hi np
    · unfold Mem.InContent
      show c0.contentStart cfg ≤ v.1 ∧ v.1 + L.size ≤ c0.contentEnd cfg
      split at h6 <;> omega
    · show if cfg.up then v.1 + L.size ≤ np else np = v.1
      split at h6
      · rename_i hup; rw [if_pos hup]; omega
      · rename_i hup; rw [if_neg hup]; omega
    · show if cfg.up then c0.pos ≤ v.1 ∧ c0.pos ≤ np else v.1 + L.size ≤ c0.pos ∧ np ≤ c0.pos
      split at h6
      · rename_i hup; rw [if_pos hup]; omega
      · rename_i hup; rw [if_neg hup]; omega
  rcases allocGeneric_split he with ⟨v', hv', ht⟩ | ⟨_, hs⟩
  · cases hv'
    have hspec : tryCurSpec cfg .alloc s L = some (v, s') := by
      rw [tryCur_eq hc h .alloc hL hh] at ht; injection ht
    obtain ⟨i, c, c0, k1, k2, k3, k4, k5, k6, k7, k8, k9⟩ := key s h hspec
    exact ⟨i, c, k3, k4, k7, k8, Or.inl ⟨c0, k1, k2, k5, k6, k9⟩⟩
  · obtain ⟨sp, sfrom⟩ := (inAnotherChunk_ok' hc h hr .alloc hL hhs (fun hk => by cases hk)).1 s' _ hs
    obtain ⟨sx, x1, x2, x3, x4⟩ := sfrom v rfl
    obtain ⟨i, c, c0, k1, k2, k3, k4, k5, k6, k7, k8, k9⟩ := key sx x1 x3
    refine ⟨i, c, k3, k4, k7, k8, Or.inr ?_⟩
    intro i0 hi0
    rcases x4 with ⟨_, i1, j, hi1, hj, hlt⟩ | ⟨p, g, rest, cc, _, _, _, _, hcx⟩
    · rw [hi0] at hi1; cases hi1
      rw [k1] at hj; cases hj
      exact hlt
    · rw [k1] at hcx; cases hcx
      exact h.lt_length hi0

/-- a non-empty range lies in the content range of at most one chunk -/
theorem same_chunk_of_inContent {s : State} (hd : ChunksDisjoint s) {i j : Nat} {ci cj : Chunk}
    (hi : s.chunks[i]? = some ci) (hj : s.chunks[j]? = some cj) {a sz : Nat} (hs : 0 < sz)
    (h1 : Mem.InContent cfg ci a sz) (h2 : Mem.InContent cfg cj a sz) : j = i := by
  by_cases hji : j = i
  · exact hji
  · have := Mem.inContent_disjoint_chunks ((disjoint_iff s).mp hd) hi hj hji h2 h1
    unfold Mem.RangesDisjoint at this; omega

/-- after a successful `alloc`-kind allocation the new block is the last thing carved from the current chunk -/
theorem rAt_of_alloc (hc : CfgOK cfg) {s : State} (h : GeomInv cfg s) (hr : RespsOK cfg s) (hl : Mem.LiveOK cfg s)
    {L : Layout} {hints hSlow : Hints} (hL : L.Valid)
    (hh : hints.sma = true → L.align ∣ L.size) (hhs : hSlow.sma = true → L.align ∣ L.size)
    {s' : State} {v : Nat × Nat} (he : allocGeneric cfg .alloc s L hints hSlow = .ok (s', .ok v))
    (hd' : ChunksDisjoint s') (hst : Stable s s') : ∃ i c, RAt cfg s' i c v.1 L.size := by
  obtain ⟨i, c, k1, k2, k3, k4, k5⟩ := allocWhere hc h hr hL hh hhs he
  refine ⟨i, c, k1, k2, k3, k4, ?_⟩
  intro b hb hs hin
  rw [hst.live] at hb
  obtain ⟨is, j, cj, g1, g2, g3, g4, g5⟩ := hl.placed b hb hs
  obtain ⟨cj', hcj', e1, e2⟩ := hst.cov j cj g3
  have hji : j = i := same_chunk_of_inContent hd' k2 hcj' hs hin (Mem.InContent.of_same e1 e2 g4)
  subst hji
  rcases k5 with ⟨c0, f1, f2, f3, f4, f5⟩ | hlt
  · rw [g1] at f1; cases f1
    rw [g3] at f2; cases f2
    have := g5 rfl
    unfold Mem.OnAllocatedSide at this
    cases hup : cfg.up
    · simp only [hup, Bool.false_eq_true, ↓reduceIte] at this f5 ⊢; omega
    · simp only [hup, ↓reduceIte] at this f5 ⊢; omega
  · have := hlt is g1; omega

theorem RAt.outcome {s : State} {i : Nat} {c : Chunk} {ptr size : Nat} (hR : RAt cfg s i c ptr size)
    (hl : Mem.LiveOK cfg s) (hd : ChunksDisjoint s) :
    Mem.Placed cfg s ptr size ∧ ∀ b ∈ s.live, Mem.RangesDisjoint b.addr b.size ptr size := by
  refine ⟨⟨i, i, c, hR.cur, Nat.le_refl _, hR.chunk, hR.inC, fun _ => ?_⟩, ?_⟩
  · have := hR.side
    unfold Mem.OnAllocatedSide
    cases hup : cfg.up
    · simp only [hup, Bool.false_eq_true, ↓reduceIte] at this ⊢; omega
    · simp only [hup, ↓reduceIte] at this ⊢; omega
  · intro b hb
    by_cases hs : 0 < b.size
    · obtain ⟨is, j, cj, g1, g2, g3, g4, g5⟩ := hl.placed b hb hs
      by_cases hji : j = i
      · subst hji
        rw [hR.chunk] at g3; cases g3
        have := hR.beyond b hb hs g4
        unfold Mem.RangesDisjoint
        cases hup : cfg.up
        · simp only [hup, Bool.false_eq_true, ↓reduceIte] at this; omega
        · simp only [hup, ↓reduceIte] at this; omega
      · exact Mem.inContent_disjoint_chunks ((disjoint_iff s).mp hd) hR.chunk g3 hji g4 hR.inC
    · left; omega

/-- giving back the part of the block on the free side of `[p, p+sz)` -/
theorem RAt.shrink {s : State} {i : Nat} {c : Chunk} {ptr size : Nat} (hR : RAt cfg s i c ptr size)
    (hl : Mem.LiveOK cfg s) (hd : ChunksDisjoint s) {p sz np : Nat}
    (hgeo : if cfg.up then ptr ≤ p ∧ p + sz ≤ np ∧ np ≤ c.contentEnd cfg
            else c.contentStart cfg ≤ np ∧ np ≤ p ∧ p + sz ≤ ptr + size) :
    Mem.AllocOutcome cfg (setPos s i np) p sz := by
  have hin := hR.inC
  unfold Mem.InContent at hin
  cases hup : cfg.up
  · simp only [hup, Bool.false_eq_true, ↓reduceIte] at hgeo
    have key := liveOK_recarve (cfg := cfg) (fun _ => true) (q := ptr + size) (p := p) (size := sz) (np := np) hl
      ((disjoint_iff s).mp hd) hR.cur hR.chunk
      (by
        intro b hb _ hs hbin
        have := hR.beyond b hb hs hbin
        simp only [hup, Bool.false_eq_true, ↓reduceIte] at this ⊢; exact this)
      (by simp only [hup, Bool.false_eq_true, ↓reduceIte]; omega)
    rw [filter_true_eq] at key
    obtain ⟨k1, k2, k3⟩ := key
    exact ⟨k1, k2, k3⟩
  · simp only [hup, ↓reduceIte] at hgeo
    have key := liveOK_recarve (cfg := cfg) (fun _ => true) (q := ptr) (p := p) (size := sz) (np := np) hl
      ((disjoint_iff s).mp hd) hR.cur hR.chunk
      (by
        intro b hb _ hs hbin
        have := hR.beyond b hb hs hbin
        simp only [hup, ↓reduceIte] at this ⊢; exact this)
      (by simp only [hup, ↓reduceIte]; omega)
    rw [filter_true_eq] at key
    obtain ⟨k1, k2, k3⟩ := key
    exact ⟨k1, k2, k3⟩

/-- the situation survives when the current chunk keeps its geometry and only empty blocks appear -/
theorem RAt.same {s s' : State} {i : Nat} {c c' : Chunk} {ptr size : Nat} (hR : RAt cfg s i c ptr size)
    (hcur : s'.cur = s.cur) (hc' : s'.chunks[i]? = some c')
    (e1 : c'.base = c.base) (e2 : c'.size = c.size) (e3 : c'.pos = c.pos)
    (hlive : ∀ b ∈ s'.live, b ∈ s.live ∨ b.size = 0) : RAt cfg s' i c' ptr size := by
  refine ⟨hcur.trans hR.cur, hc', Mem.InContent.of_same e1 e2 hR.inC, by rw [e3]; exact hR.side, ?_⟩
  intro b hb hs hin
  rcases hlive b hb with hb' | hb'
  · exact hR.beyond b hb' hs (Mem.InContent.of_same e1.symm e2.symm hin)
  · omega

/-- the closed content ranges of different chunks do not meet (a header lies between them) -/
theorem content_apart (hc : CfgOK cfg) {s : State} (hd : ChunksDisjoint s) {i j : Nat} {ci cj : Chunk} (hij : i ≠ j)
    (hi : s.chunks[i]? = some ci) (hj : s.chunks[j]? = some cj) (hwi : ChunkWF cfg ci) (hwj : ChunkWF cfg cj) {x : Nat}
    (h1 : ci.contentStart cfg ≤ x ∧ x ≤ ci.contentEnd cfg) (h2 : cj.contentStart cfg ≤ x ∧ x ≤ cj.contentEnd cfg) :
    False := by
  have hdis := hd i j ci cj hij hi hj
  have h32 := hc.hdr.ge
  have a1 := hwi.hdr_le; have a2 := hwj.hdr_le
  simp only [Chunk.contentStart, Chunk.contentEnd] at h1 h2
  cases hup : cfg.up
  · simp only [hup, Bool.false_eq_true, ↓reduceIte] at h1 h2
    rcases hdis with hx | hx <;> omega
  · simp only [hup, ↓reduceIte] at h1 h2
    rcases hdis with hx | hx <;> omega

/-! ## intermediate states of the step -/

/-- an intermediate state of the step: the invariant holds, nothing is prepared, and the checkpoint taken at
    the start of the step is still sound (with the id counter of the start as its mark) -/
structure Mid (cfg : Cfg) (g : GState) (s : State) : Prop where
  inv : Inv cfg ⟨s, g.marks⟩
  prep : s.prepared = none
  cp : CpOK cfg s (checkpoint cfg g.s) g.s.nextId

theorem Mid.of_allocPost {g : GState} (h : Inv cfg g) (hp : g.s.prepared = none) {k : Kind} {L : Layout} {s' : State}
    {r : Except AErr (Nat × Nat)} (p : AllocPost cfg k L g.s s' r) : Mid cfg g s' :=
  ⟨inv_of_allocPost h p hp, p.stable.prepared.trans hp,
   (cpOK_checkpoint h).mono p.stable.cov p.stable.liveSub (Nat.le_of_eq p.stable.nextId.symm)⟩

/-- `Err` path: back to the checkpoint of the start, everything allocated since is dead -/
theorem Mid.reset {g : GState} {s s3 : State} (m : Mid cfg g s)
    (hr : resetTo cfg s (checkpoint cfg g.s) = .ok s3) : Inv cfg ⟨killFrom s3 g.s.nextId, g.marks⟩ := by
  have := inv_after_resetTo (g := ⟨s, g.marks⟩) m.inv m.inv.geom.minAlign m.cp m.prep (s' := s3) hr m.inv.frames m.inv.marks
  have hfr : s3.frames = s.frames := (resetTo_stable hr).frames
  have e : ({ s3 with frames := s.frames } : State) = s3 := by rw [← hfr]
  simp only at this
  rw [e] at this
  exact this

/-- the value block is a sub-range of a range that is placed and disjoint from every live block -/
theorem Mid.value {g : GState} {s : State} (m : Mid cfg g s) {ptr size a sz : Nat} (hpl : Mem.Placed cfg s ptr size)
    (hdj : ∀ b ∈ s.live, Mem.RangesDisjoint b.addr b.size ptr size) (h1 : ptr ≤ a) (h2 : a + sz ≤ ptr + size) :
    Inv cfg ⟨(addBlock s a sz 1 0).1, g.marks⟩ := by
  have hcur : ∃ i, s.cur = .chunk i := by
    obtain ⟨i, _, _, hcur, _⟩ := hpl
    exact ⟨i, hcur⟩
  have hl := liveOK_addBlock_of m.inv.live (p := a) (size := sz) (align := 1) 0 (Nat.one_dvd _)
    (fun _ => placed_sub hpl h1 h2)
    (fun b hb => by
      have := hdj b hb
      unfold Mem.RangesDisjoint at this ⊢
      omega)
  exact m.inv.withBlock hl hcur ⟨0, by decide, rfl⟩

/-- the position of the current chunk moves to `np` and `[a, a+sz)` becomes a live block -/
theorem Mid.moved {g : GState} {s : State} (m : Mid cfg g s) {i : Nat} {c : Chunk} (hcur : s.cur = .chunk i)
    (hi : s.chunks[i]? = some c) {np a sz : Nat}
    (h1 : c.contentStart cfg ≤ np) (h2 : np ≤ c.contentEnd cfg) (h3 : s.minAlign ∣ np)
    (ho : Mem.AllocOutcome cfg (setPos s i np) a sz) :
    Inv cfg ⟨(addBlock (setCurPos s np) a sz 1 0).1, g.marks⟩ := by
  have e : setCurPos s np = setPos s i np := Mem.setCurPos_chunk hcur np
  have hg := m.inv.geom.setCurPos hcur hi h1 h2 h3
  have inv1 : Inv cfg ⟨setCurPos s np, g.marks⟩ :=
    inv_of_stable (g := ⟨s, g.marks⟩) m.inv m.prep hg ((setCurPos_shape s np).disjoint m.inv.disj) (setCurPos_minAlign s np)
      (Stable.setCurPos s np) (fun hu => by rw [setCurPos_cur] at hu; rw [hcur] at hu; cases hu)
      (Or.inl (setCurPos_cur s np)) (by rw [e]; exact ho.live)
  exact inv1.withBlock (by rw [e]; exact ho.addBlock (Nat.one_dvd _) 0) ⟨i, by rw [setCurPos_cur]; exact hcur⟩
    ⟨0, by decide, rfl⟩

theorem np_up {ma x np : Nat} (hm : MinAlignOK ma) (hx : x + 15 < 2 ^ 64)
    (h : liftM (Gen.LibArith.up_align_usize_unchecked x ma) = .ok np) : np = Spec.upAlign x ma := by
  rw [up_align_usize_unchecked_eq hm.p2 hm.lt64 (by have := hm.le; omega)] at h
  simp only [Arena.liftM] at h
  injection h with h
  exact h.symm

theorem np_down {ma x np : Nat} (hm : MinAlignOK ma) (hx : x < 2 ^ 64)
    (h : liftM (Gen.LibArith.down_align_usize x ma) = .ok np) : np = Spec.downAlign x ma := by
  rw [down_align_usize_eq hm.p2 hm.lt64 hx] at h
  simp only [Arena.liftM] at h
  injection h with h
  exact h.symm

/-- `Ok` path of the non-mut variant when nothing was allocated since: the Result block shrinks to the value -/
theorem Mid.shrinkTo (hc : CfgOK cfg) {g : GState} {s : State} (m : Mid cfg g s) {i : Nat} {c : Chunk} {ptr size : Nat}
    (hR : RAt cfg s i c ptr size) {off vsize np : Nat} (hov : off + vsize ≤ size)
    (hnp : (if cfg.up then liftM (Gen.LibArith.up_align_usize_unchecked (ptr + off + vsize) s.minAlign)
            else liftM (Gen.LibArith.down_align_usize (ptr + off) s.minAlign)) = .ok np) :
    Inv cfg ⟨(addBlock (setCurPos s np) (ptr + off) vsize 1 0).1, g.marks⟩ := by
  have hw : ChunkWF cfg c := m.inv.geom.chunks i c hR.chunk
  obtain ⟨c1, hc1, _, hdvd⟩ := m.inv.geom.curChunk hR.cur
  rw [hR.chunk] at hc1; cases hc1
  have hm := m.inv.geom.minAlign
  have e16 := hw.end16 hc
  have e64 := hw.end_lt64
  have hple := hw.pos_le
  have hin := hR.inC
  have hside := hR.side
  unfold Mem.InContent at hin
  cases hup : cfg.up
  · simp only [hup, Bool.false_eq_true, ↓reduceIte] at hnp hside
    have hnp' := np_down hm (by omega) hnp
    have b1 : np ≤ ptr + off := hnp' ▸ Lemmas.Size.downAlign_le _ _
    have b2 : ptr ≤ np := hnp' ▸ Lemmas.Size.le_downAlign_of_dvd hm.pos (hside ▸ hdvd) (by omega)
    have b3 : s.minAlign ∣ np := hnp' ▸ Lemmas.Size.downAlign_dvd _ _
    refine m.moved hR.cur hR.chunk (by omega) (by omega) b3 (hR.shrink m.inv.live m.inv.disj ?_)
    simp only [hup, Bool.false_eq_true, ↓reduceIte]
    omega
  · simp only [hup, ↓reduceIte] at hnp hside
    have hnp' := np_up hm (by omega) hnp
    have b1 : ptr + off + vsize ≤ np := hnp' ▸ Lemmas.Size.le_upAlign _ hm.pos
    have b2 : np ≤ c.pos := hnp' ▸ Lemmas.Size.upAlign_le_of_dvd hm.pos hdvd (by omega)
    have b3 : s.minAlign ∣ np := hnp' ▸ Lemmas.Size.upAlign_dvd _ _
    refine m.moved hR.cur hR.chunk (by omega) (by omega) b3 (hR.shrink m.inv.live m.inv.disj ?_)
    simp only [hup, ↓reduceIte]
    omega

/-- `Ok` path of the mut variant: the value is carved from the prepared room -/
theorem Mid.prepTo (hc : CfgOK cfg) {g : GState} {s : State} (m : Mid cfg g s) {i : Nat} {c : Chunk} {ptr size : Nat}
    (hcur : s.cur = .chunk i) (hi : s.chunks[i]? = some c)
    (hfound : if cfg.up then c.pos ≤ ptr ∧ ptr + size ≤ c.contentEnd cfg
              else c.contentStart cfg ≤ ptr ∧ ptr + size ≤ c.pos)
    {off vsize np : Nat} (hov : off + vsize ≤ size)
    (hnp : (if cfg.up then liftM (Gen.LibArith.up_align_usize_unchecked (ptr + off + vsize) s.minAlign)
            else liftM (Gen.LibArith.down_align_usize (ptr + off) s.minAlign)) = .ok np) :
    Inv cfg ⟨(addBlock (setCurPos s np) (ptr + off) vsize 1 0).1, g.marks⟩ := by
  have hw : ChunkWF cfg c := m.inv.geom.chunks i c hi
  have hm := m.inv.geom.minAlign
  have e16 := hw.end16 hc
  have s16 := hw.start16 hc
  have e64 := hw.end_lt64
  have hple := hw.pos_le
  have hpge := hw.pos_ge
  cases hup : cfg.up
  · simp only [hup, Bool.false_eq_true, ↓reduceIte] at hnp hfound
    have hnp' := np_down hm (by omega) hnp
    have b1 : np ≤ ptr + off := hnp' ▸ Lemmas.Size.downAlign_le _ _
    have b2 : c.contentStart cfg ≤ np :=
      hnp' ▸ Lemmas.Size.le_downAlign_of_dvd hm.pos (hm.dvd_of_16 s16) (by omega)
    have b3 : s.minAlign ∣ np := hnp' ▸ Lemmas.Size.downAlign_dvd _ _
    refine m.moved hcur hi b2 (by omega) b3
      (liveOK_carve2 m.inv.live ((disjoint_iff s).mp m.inv.disj) ⟨hpge, hple⟩ hcur hi ?_)
    simp only [hup, Bool.false_eq_true, ↓reduceIte]
    omega
  · simp only [hup, ↓reduceIte] at hnp hfound
    have hnp' := np_up hm (by omega) hnp
    have b1 : ptr + off + vsize ≤ np := hnp' ▸ Lemmas.Size.le_upAlign _ hm.pos
    have b2 : np ≤ c.contentEnd cfg :=
      hnp' ▸ Lemmas.Size.upAlign_le_of_dvd hm.pos (hm.dvd_of_16 e16) (by omega)
    have b3 : s.minAlign ∣ np := hnp' ▸ Lemmas.Size.upAlign_dvd _ _
    refine m.moved hcur hi (by omega) b2 b3
      (liveOK_carve2 m.inv.live ((disjoint_iff s).mp m.inv.disj) ⟨hpge, hple⟩ hcur hi ?_)
    simp only [hup, ↓reduceIte]
    omega

/-! ## the closure -/

theorem tryInner_mut {s1 s2 : State} {inner : Option Layout} {io : Option (Nat × Layout)}
    (h : tryInner cfg s1 inner true = .ok (s2, io)) : s2 = s1 ∧ io = none := by
  unfold tryInner at h
  cases inner with
  | none => simp only [pure, Except.pure] at h; cases h; exact ⟨rfl, rfl⟩
  | some Li => simp only [bind, Except.bind, ↓reduceIte, throw, throwThe, MonadExceptOf.throw] at h; cases h

theorem tryInner_inv {s1 s2 : State} {inner : Option Layout} {io : Option (Nat × Layout)}
    (h : tryInner cfg s1 inner false = .ok (s2, io)) :
    (s2 = s1 ∧ io = none) ∨
    ∃ Li r, Li.Valid ∧ alloc cfg s1 Li = .ok (s2, r) ∧
      ((∃ e, r = .error e ∧ io = none) ∨ (∃ p, r = .ok p ∧ io = some (p, Li))) := by
  unfold tryInner at h
  cases inner with
  | none => simp only [pure, Except.pure] at h; cases h; exact .inl ⟨rfl, rfl⟩
  | some Li =>
    simp only [bind, Except.bind, pure, Except.pure, Bool.false_eq_true, ↓reduceIte] at h
    split at h
    · cases h
    · rename_i u hu
      split at h
      · cases h
      · rename_i y hy
        obtain ⟨s', r⟩ := y
        cases r with
        | error e => simp only at h; cases h; exact .inr ⟨Li, _, validLayout_valid hu, hy, .inl ⟨e, rfl, rfl⟩⟩
        | ok p => simp only at h; cases h; exact .inr ⟨Li, _, validLayout_valid hu, hy, .inr ⟨p, rfl, rfl⟩⟩

/-- what the closure of the non-mut variant leaves behind: the Result block is still placed and disjoint from
    every live block (including the one the closure allocated); if the position test of `canShrink` succeeds
    the Result block is still the last thing carved from the current chunk -/
theorem tryInner_post (hc : CfgOK cfg) {g : GState} {s1 s2 : State} {inner : Option Layout} {io : Option (Nat × Layout)}
    (m : Mid cfg g s1) (hr : RespsOK cfg s1) (hf : RespsFresh s1) {i : Nat} {c : Chunk} {ptr size : Nat}
    (hR : RAt cfg s1 i c ptr size) (hi : tryInner cfg s1 inner false = .ok (s2, io)) :
    Mid cfg g (withInner s2 io) ∧ Mem.Placed cfg (withInner s2 io) ptr size ∧
    (∀ b ∈ (withInner s2 io).live, Mem.RangesDisjoint b.addr b.size ptr size) ∧
    (((if cfg.up then curPos cfg s1 else ptr) == curPos cfg s2) = true →
      ∃ c', RAt cfg (withInner s2 io) i c' ptr size) := by
  obtain ⟨o1, o2⟩ := hR.outcome m.inv.live m.inv.disj
  rcases tryInner_inv hi with ⟨rfl, rfl⟩ | ⟨Li, r, hLi, ha, hio⟩
  · exact ⟨m, o1, o2, fun _ => ⟨c, hR⟩⟩
  · obtain ⟨r', he, hrr⟩ := alloc_split ha
    have p2 := allocGeneric_post hc m.inv.geom hr m.inv.disj hf .alloc hLi (custom_truthful Li) (custom_truthful Li)
      (fun hk => by cases hk) he
    have hw : ChunkWF cfg c := m.inv.geom.chunks i c hR.chunk
    cases r' with
    | error e =>
      simp only [Except.map] at hrr
      subst hrr
      rcases hio with ⟨e', _, rfl⟩ | ⟨p, hp, _⟩
      · obtain ⟨hcur, hch⟩ := p2.cur_err e rfl
        obtain ⟨c', hc', e1, e2, e3⟩ := hch i c hR.cur hR.chunk
        have m2 : Mid cfg g s2 := ⟨inv_of_allocPost m.inv p2 m.prep, p2.stable.prepared.trans m.prep,
          m.cp.mono p2.stable.cov p2.stable.liveSub (Nat.le_of_eq p2.stable.nextId.symm)⟩
        have hR2 : RAt cfg s2 i c' ptr size :=
          hR.same hcur hc' e1 e2 e3 (fun b hb => Or.inl (p2.stable.live ▸ hb))
        obtain ⟨q1, q2⟩ := hR2.outcome m2.inv.live m2.inv.disj
        exact ⟨m2, q1, q2, fun _ => ⟨c', hR2⟩⟩
      · cases hp
    | ok v =>
      simp only [Except.map] at hrr
      subst hrr
      rcases hio with ⟨e', he', _⟩ | ⟨p, hp, rfl⟩
      · cases he'
      · cases hp
        obtain ⟨i2, c2, k1, k2, k3, k4, k5⟩ := allocWhere hc m.inv.geom hr hLi (custom_truthful Li) (custom_truthful Li) he
        have hlive2 : ∀ b ∈ (addBlock s2 v.1 Li.size Li.align 0).1.live,
            b ∈ s1.live ∨ b = { id := s2.nextId, addr := v.1, size := Li.size, align := Li.align, depth := 0, init := 0 } := by
          intro b hb
          rcases List.mem_append.mp hb with hb | hb
          · exact Or.inl (p2.stable.live ▸ hb)
          · simp only [List.mem_singleton] at hb; exact Or.inr hb
        have m2 : Mid cfg g (addBlock s2 v.1 Li.size Li.align 0).1 := by
          refine ⟨inv_alloc_success (g := ⟨s1, g.marks⟩) (z := false) (n := 0) m.inv p2 m.prep hLi rfl,
            p2.stable.prepared.trans m.prep, m.cp.mono (p2.stable.cov.trans (ChunksCov.of_eq rfl)) ?_ ?_⟩
          · intro b hb
            rcases hlive2 b hb with hb | hb
            · exact Or.inl hb
            · subst hb
              exact Or.inr ⟨Nat.le_of_eq p2.stable.nextId.symm, hLi.1⟩
          · show s1.nextId ≤ s2.nextId + 1
            rw [p2.stable.nextId]; exact Nat.le_succ _
        have hw2 : ChunkWF cfg c2 := p2.inv.chunks i2 c2 k2
        have cp1 : curPos cfg s1 = c.pos := curPos_chunk hR.cur hR.chunk
        have cp2 : curPos cfg s2 = c2.pos := curPos_chunk k1 k2
        have hside := hR.side
        show Mid cfg g (addBlock s2 v.1 Li.size Li.align 0).1 ∧ Mem.Placed cfg (addBlock s2 v.1 Li.size Li.align 0).1 ptr size ∧
          (∀ b ∈ (addBlock s2 v.1 Li.size Li.align 0).1.live, Mem.RangesDisjoint b.addr b.size ptr size) ∧
          (((if cfg.up then curPos cfg s1 else ptr) == curPos cfg s2) = true →
            ∃ c', RAt cfg (addBlock s2 v.1 Li.size Li.align 0).1 i c' ptr size)
        rw [cp1, cp2]
        rcases k5 with ⟨c0, f1, f2, f3, f4, f5⟩ | slow
        · -- the closure's block came from the same chunk
          have hii : i2 = i := by rw [hR.cur] at f1; cases f1; rfl
          subst hii
          rw [hR.chunk] at f2; cases f2
          refine ⟨m2, ⟨i2, i2, c2, k1, Nat.le_refl _, k2, Mem.InContent.of_same f3 f4 hR.inC, fun _ => ?_⟩, ?_, ?_⟩
          · unfold Mem.OnAllocatedSide
            cases hup : cfg.up
            · simp only [hup, Bool.false_eq_true, ↓reduceIte] at hside f5 k4 ⊢; omega
            · simp only [hup, ↓reduceIte] at hside f5 k4 ⊢; omega
          · intro b hb
            rcases hlive2 b hb with hb | hb
            · exact o2 b hb
            · subst hb
              unfold Mem.RangesDisjoint
              cases hup : cfg.up
              · simp only [hup, Bool.false_eq_true, ↓reduceIte] at hside f5 k4 ⊢; omega
              · simp only [hup, ↓reduceIte] at hside f5 k4 ⊢; omega
          · intro htest
            simp only [beq_iff_eq] at htest
            have hz : Li.size = 0 ∧ c2.pos = c.pos := by
              cases hup : cfg.up
              · simp only [hup, Bool.false_eq_true, ↓reduceIte] at hside f5 k4 htest; omega
              · simp only [hup, ↓reduceIte] at hside f5 k4 htest; omega
            refine ⟨c2, hR.same (k1.trans hR.cur.symm) k2 f3 f4 hz.2 ?_⟩
            intro b hb
            rcases hlive2 b hb with hb | hb
            · exact Or.inl hb
            · subst hb; exact Or.inr hz.1
        · -- the closure's block came from a later chunk
          have hlt := slow i hR.cur
          obtain ⟨c', hc', e1, e2⟩ := p2.stable.cov i c hR.chunk
          have hin' : Mem.InContent cfg c' ptr size := Mem.InContent.of_same e1 e2 hR.inC
          refine ⟨m2, ⟨i2, i, c', k1, Nat.le_of_lt hlt, hc', hin', fun e => by omega⟩, ?_, ?_⟩
          · intro b hb
            rcases hlive2 b hb with hb | hb
            · exact o2 b hb
            · subst hb
              exact Mem.inContent_disjoint_chunks ((disjoint_iff s2).mp p2.disj) hc' k2 (by omega) k3 hin'
          · intro htest
            simp only [beq_iff_eq] at htest
            exfalso
            have hw' : ChunkWF cfg c' := p2.inv.chunks i c' hc'
            have a1 := hw.pos_ge; have a2 := hw.pos_le
            have a3 := hw2.pos_ge; have a4 := hw2.pos_le
            have hx : c.pos = c2.pos := by
              cases hup : cfg.up
              · simp only [hup, Bool.false_eq_true, ↓reduceIte] at hside htest; omega
              · simp only [hup, ↓reduceIte] at htest; exact htest
            refine content_apart hc p2.disj (Nat.ne_of_lt hlt) hc' k2 hw' hw2 (x := c2.pos) ?_ ⟨a3, a4⟩
            rw [contentStart_same e1, contentEnd_same e1 e2]
            omega

/-! ## the end of the step -/

theorem tryTail_inv {g g' : GState} {s2 : State} {ptr off vsize : Nat} {ok cs : Bool} {out : Out}
    (h : tryTail cfg g s2 ptr off vsize ok cs = .ok (g', out)) :
    (ok = true ∧ cs = true ∧ ∃ np i, s2.cur = .chunk i ∧
        (if cfg.up then liftM (Gen.LibArith.up_align_usize_unchecked (ptr + off + vsize) s2.minAlign)
         else liftM (Gen.LibArith.down_align_usize (ptr + off) s2.minAlign)) = .ok np ∧
        g' = ⟨(addBlock (setCurPos s2 np) (ptr + off) vsize 1 0).1, g.marks⟩) ∨
    (ok = true ∧ cs = false ∧ g' = ⟨(addBlock s2 (ptr + off) vsize 1 0).1, g.marks⟩) ∨
    (ok = false ∧ cs = true ∧ ∃ s3, resetTo cfg s2 (checkpoint cfg g.s) = .ok s3 ∧
        g' = ⟨killFrom s3 g.s.nextId, g.marks⟩) ∨
    (ok = false ∧ cs = false ∧ g' = ⟨s2, g.marks⟩) := by
  unfold tryTail at h
  cases ok <;> cases cs <;>
    simp only [bind, Except.bind, pure, Except.pure, Bool.false_eq_true, ↓reduceIte] at h
  · cases h
    exact .inr (.inr (.inr ⟨rfl, rfl, rfl⟩))
  · split at h
    · cases h
    · rename_i s3 hs3
      cases h
      exact .inr (.inr (.inl ⟨rfl, rfl, s3, hs3, rfl⟩))
  · cases h
    exact .inr (.inl ⟨rfl, rfl, rfl⟩)
  · cases hup : cfg.up <;> simp only [hup, Bool.false_eq_true, ↓reduceIte] at h
    all_goals
      split at h
      · cases h
      · rename_i np hnp
        split at h
        · rename_i i hi
          cases h
          exact .inl ⟨rfl, rfl, np, i, hi, by simp only [Bool.false_eq_true, ↓reduceIte]; exact hnp, rfl⟩
        · simp only [throw, throwThe, MonadExceptOf.throw] at h
          cases h

/-- `alloc_try_with` / `alloc_try_with_mut` preserve the invariant -/
theorem inv_allocTryWith {g g' : GState} {out : Out} {L : Layout} {off vsize : Nat} {ok : Bool} {inner : Option Layout}
    {mut_ : Bool} (hsz : L.align ∣ L.size) (h : Inv cfg g) (hr : RespsOK cfg g.s) (hf : RespsFresh g.s)
    (hs : stepCore cfg g (.allocTryWith L off vsize ok inner mut_) = .ok (g', out)) : Inv cfg g' := by
  obtain ⟨hL, hp, hov, s1, r1, ha, hrest⟩ := tryWith_inv hs
  cases mut_ with
  | true =>
    simp only [↓reduceIte] at ha
    have p1 := allocGeneric_post h.cfgOK h.geom hr h.disj hf .prepare hL (fun _ => hsz) (custom_truthful L)
      (fun hk => by cases hk) ha
    cases r1 with
    | error e =>
      simp only at hrest
      subst hrest
      exact inv_of_allocPost h p1 hp
    | ok v =>
      obtain ⟨ptr, x⟩ := v
      simp only at hrest
      obtain ⟨s2, io, hin, htail⟩ := hrest
      obtain ⟨rfl, rfl⟩ := tryInner_mut hin
      have m : Mid cfg g (withInner s2 none) := Mid.of_allocPost h hp p1
      simp only [Bool.true_or] at htail
      rcases tryTail_inv htail with ⟨_, _, np, i, hcur, hnp, rfl⟩ | ⟨_, hcs, _⟩ | ⟨_, _, s3, hr3, rfl⟩ | ⟨_, hcs, _⟩
      · obtain ⟨_, i', c, f1, f2, f3⟩ := p1.found (ptr, x) rfl
        exact m.prepTo h.cfgOK f1 f2 f3 hov hnp
      · cases hcs
      · exact m.reset hr3
      · cases hcs
  | false =>
    simp only [Bool.false_eq_true, ↓reduceIte] at ha
    have p1 := allocGeneric_post h.cfgOK h.geom hr h.disj hf .alloc hL (fun _ => hsz) (custom_truthful L)
      (fun hk => by cases hk) ha
    cases r1 with
    | error e =>
      simp only at hrest
      subst hrest
      exact inv_of_allocPost h p1 hp
    | ok v =>
      obtain ⟨ptr, x⟩ := v
      simp only at hrest
      obtain ⟨s2, io, hin, htail⟩ := hrest
      obtain ⟨i, c, hR⟩ := rAt_of_alloc h.cfgOK h.geom hr h.live hL (fun _ => hsz) (custom_truthful L) ha p1.disj p1.stable
      have m : Mid cfg g s1 := Mid.of_allocPost h hp p1
      obtain ⟨m2, q1, q2, q3⟩ := tryInner_post h.cfgOK m p1.resps p1.fresh hR hin
      simp only [Bool.false_or] at htail
      rcases tryTail_inv htail with ⟨_, hcs, np, i', hcur, hnp, rfl⟩ | ⟨_, hcs, rfl⟩ | ⟨_, _, s3, hr3, rfl⟩ | ⟨_, _, rfl⟩
      · obtain ⟨c', hR'⟩ := q3 hcs
        exact m2.shrinkTo h.cfgOK hR' hov hnp
      · exact m2.value q1 q2 (Nat.le_add_right _ _) (by omega)
      · exact m2.reset hr3
      · exact m2.inv

/-- non-vacuity of the hypotheses of `inv_allocTryWith`: on a fresh arena (upwards, `MIN_ALIGN = 8`, the base
    allocator is about to grant 4000 bytes at `0x40000`) `alloc_try_with` runs for a 24-byte `Result` whose 8-byte
    `Ok` value sits at offset 8 and whose closure allocates 8 bytes itself; also the `_mut` variant returning `Err` -/
example : ∃ g, Inv exCfg g ∧ RespsOK exCfg g.s ∧ RespsFresh g.s ∧
    (∃ g' out, stepCore exCfg g (.allocTryWith { size := 24, align := 8 } 8 8 true (some { size := 8, align := 8 }) false)
      = .ok (g', out)) ∧
    (∃ g' out, stepCore exCfg g (.allocTryWith { size := 24, align := 8 } 8 8 false none true) = .ok (g', out)) := by
  refine ⟨install (initG exCfg) [.granted 0x40000 4000], (inv_init exCfg_ok).install _, ?_, ⟨List.pairwise_singleton _ _, ?_⟩,
    ⟨_, _, rfl⟩, ⟨_, _, rfl⟩⟩
  · intro r hr
    simp only [install, initG, initState, List.mem_singleton] at hr
    subst hr
    exact ⟨by decide, by decide, by decide⟩
  · intro p gr _ i c hc
    simp [install, initG, initState] at hc

end Arena.Hist
