/-
  Lemmas/CtrlReserve.lean — `reserve` (typed) and `reserve` (trait object) when the request fits the
  current chunk; the concrete witness state for finding C17-a.
-/
import BumpProof.Lemmas.CtrlState

set_option linter.unusedVariables false
set_option linter.unusedSimpArgs false

namespace Ctrl
open Arena Rs Lemmas

theorem walkReserve_zero (cfg : Cfg) (chunks : List Chunk) :
    ∀ fuel i, walkReserve cfg chunks fuel i 0 = none ∨ walkReserve cfg chunks fuel i 0 = some 0 := by
  intro fuel
  induction fuel with
  | zero => intro i; right; rfl
  | succ fuel ih =>
    intro i
    rw [walkReserve]
    split
    · right; rfl
    · rename_i c hc
      by_cases hcap : c.capacity cfg ≤ 0
      · have : Rs.checked_sub 0 (c.capacity cfg) = some 0 := by
          unfold Rs.checked_sub; rw [if_pos hcap, Nat.zero_sub]
        rw [this]; exact ih (i + 1)
      · have : Rs.checked_sub 0 (c.capacity cfg) = none := by
          unfold Rs.checked_sub; rw [if_neg hcap]
        rw [this]; left; rfl

/-- typed `reserve`: the request fits the current chunk → nothing happens -/
theorem reserve_fits {cfg : Cfg} {s : State} {i : Nat} {c : Chunk} {n : Nat} (hc : CurChunk s i c)
    (hn : n ≤ c.remaining cfg) : reserve cfg s n = .ok (s, .ok ()) := by
  unfold reserve
  simp only [hc.cur, hc.get]
  by_cases hrem : c.remaining cfg ≤ n
  · have : Rs.checked_sub n (c.remaining cfg) = some 0 := by
      unfold Rs.checked_sub; rw [if_pos hrem]; congr 1; omega
    rw [this]
    rcases walkReserve_zero cfg s.chunks (s.chunks.length - (i + 1)) i with h | h
    · simp only [h]; rfl
    · simp only [h]; rfl
  · have : Rs.checked_sub n (c.remaining cfg) = none := by
      unfold Rs.checked_sub; rw [if_neg hrem]
    rw [this]; rfl

/-- `dyn` reserve: the request fits the current chunk → nothing happens -/
theorem reserveDyn_fits {cfg : Cfg} {s : State} {i : Nat} {c : Chunk} {n : Nat} (hc : CurChunk s i c)
    (hv : C11.Valid cfg.up (bumpProps cfg s { size := n, align := 1 } Hints.custom))
    (hle : (freeRange cfg s).1 ≤ (freeRange cfg s).2)
    (hn : n ≤ c.remaining cfg) : reserveDyn cfg s n = .ok (s, .ok ()) := by
  have hnI : n ≤ Rs.IMAX := hv.1.layout.2
  unfold reserveDyn layoutOk allocGeneric
  have : decide (n + (1 - 1) ≤ Rs.IMAX) = true := decide_eq_true hnI
  simp only [this, Bool.not_true, Bool.false_eq_true, ↓reduceIte]
  have hfr := hc.freeRange cfg
  cases hup : cfg.up
  · rw [hup] at hv
    rw [hup] at hfr
    simp only [Bool.false_eq_true, ↓reduceIte] at hfr
    rw [hfr] at hle
    unfold Chunk.remaining at hn
    simp only [hup, Bool.false_eq_true, ↓reduceIte] at hn
    rw [tryCur_range_down hup hv, hfr]
    unfold Spec.prepareDown
    have h1 : Spec.downAlign c.pos 1 = c.pos := downAlign_eq_self (Nat.one_dvd _)
    simp only [h1]
    simp only at hle
    rw [if_pos (by omega)]
    rfl
  · rw [hup] at hv
    rw [hup] at hfr
    simp only [↓reduceIte] at hfr
    rw [hfr] at hle
    unfold Chunk.remaining at hn
    simp only [hup, ↓reduceIte] at hn
    rw [tryCur_range_up hup hv, hfr]
    unfold Spec.prepareUp
    have h1 : Spec.upAlign c.pos 1 = c.pos := upAlign_eq_self (by decide) (Nat.one_dvd _)
    simp only [h1]
    simp only at hle
    rw [if_pos (by omega)]
    rfl

/-! ## Witness for C17-a -/

def wCfg : Cfg :=
  { up := true, minAlign0 := 8, ga := true, claimable := true,
    deallocates := true,
    shrinks := true,
    minChunk := 512, hdr := { size := 32, align := 8 } }
/-- a 256-byte chunk with 16 free bytes -/
def wChunk0 : Chunk :=
  { base := 0x10000, size := 0x100, pos := 0x100F0, granted := 0x100, reqSize := 0x100,
    data := Array.replicate 0x100 0 }
/-- an empty 512-byte successor chunk -/
def wChunk1 : Chunk :=
  { base := 0x20000, size := 0x200, pos := 0x20020, granted := 0x200, reqSize := 0x200,
    data := Array.replicate 0x200 0 }
def wState : State :=
  { chunks := [wChunk0, wChunk1], cur := .chunk 0, minAlign := 8, frames := [], live := [], nextId := 0,
    userCps := [], prepared := none, resps := [], reqs := [], dropped := false }

end Ctrl
