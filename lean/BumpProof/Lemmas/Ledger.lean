/-
  Lemmas/Ledger.lean — helper lemmas about the arena model used by Props/C05, C07, C03:
  evaluation of `liftM`, the position setters, the frame (what is left untouched) of
  `tryCur`, and `align_pos` being the identity on aligned positions.
-/
import BumpProof.Arena.Model
import BumpProof.Arena.Step
import BumpProof.Lemmas.RsOps

set_option linter.unusedSimpArgs false
set_option linter.unusedVariables false

namespace Ledger
open Arena Rs

/-! ## `liftM` and the `Except` monad -/

theorem liftM_ok {α} (v : α) : Arena.liftM (.ok v : Rs.M α) = .ok v := rfl

theorem liftM_eq_ok {α} {x : Rs.M α} {v : α} (h : Arena.liftM x = .ok v) : x = .ok v := by
  cases x with
  | ok w => simp only [Arena.liftM, Except.ok.injEq] at h; rw [h]
  | error e => simp only [Arena.liftM] at h; cases h

theorem bind_ok {ε α β} (v : α) (f : α → Except ε β) : ((Except.ok v : Except ε α) >>= f) = f v := rfl

theorem bind_eq_ok {ε α β} {x : Except ε α} {f : α → Except ε β} {y : β}
    (h : (x >>= f) = .ok y) : ∃ v, x = .ok v ∧ f v = .ok y := by
  cases x with
  | ok v => exact ⟨v, rfl, h⟩
  | error e => cases h

theorem pure_eq_ok {ε α} (v : α) : (pure v : Except ε α) = .ok v := rfl

/-! ## `setPos`, `setCurPos` only touch positions -/

@[simp] theorem setPos_reqs (s : State) (i p : Nat) : (setPos s i p).reqs = s.reqs := rfl
@[simp] theorem setPos_resps (s : State) (i p : Nat) : (setPos s i p).resps = s.resps := rfl
@[simp] theorem setPos_live (s : State) (i p : Nat) : (setPos s i p).live = s.live := rfl
@[simp] theorem setPos_cur (s : State) (i p : Nat) : (setPos s i p).cur = s.cur := rfl
@[simp] theorem setPos_minAlign (s : State) (i p : Nat) : (setPos s i p).minAlign = s.minAlign := rfl
@[simp] theorem setPos_chunks (s : State) (i p : Nat) :
    (setPos s i p).chunks = s.chunks.modify i (fun c => { c with pos := p }) := rfl
theorem setPos_length (s : State) (i p : Nat) : (setPos s i p).chunks.length = s.chunks.length := by
  simp only [setPos_chunks, List.length_modify]

theorem setCurPos_eq (s : State) (p : Nat) :
    setCurPos s p = s ∨ ∃ i, s.cur = .chunk i ∧ setCurPos s p = setPos s i p := by
  unfold setCurPos
  cases h : s.cur with
  | chunk i => exact Or.inr ⟨i, rfl, rfl⟩
  | unallocated => exact Or.inl rfl
  | claimed => exact Or.inl rfl

@[simp] theorem setCurPos_reqs (s : State) (p : Nat) : (setCurPos s p).reqs = s.reqs := by
  unfold setCurPos; split <;> rfl
@[simp] theorem setCurPos_resps (s : State) (p : Nat) : (setCurPos s p).resps = s.resps := by
  unfold setCurPos; split <;> rfl
@[simp] theorem setCurPos_live (s : State) (p : Nat) : (setCurPos s p).live = s.live := by
  unfold setCurPos; split <;> rfl
@[simp] theorem setCurPos_cur (s : State) (p : Nat) : (setCurPos s p).cur = s.cur := by
  unfold setCurPos; split <;> rfl
@[simp] theorem setCurPos_minAlign (s : State) (p : Nat) : (setCurPos s p).minAlign = s.minAlign := by
  unfold setCurPos; split <;> rfl
theorem setCurPos_length (s : State) (p : Nat) : (setCurPos s p).chunks.length = s.chunks.length := by
  unfold setCurPos; split
  · exact setPos_length _ _ _
  · rfl

/-! ## `tryCur`: the only thing it may change is the position of the current chunk -/

/-- a successful `tryCur` returns the input state, possibly with a new position of the current chunk -/
theorem tryCur_some {cfg : Cfg} {k : Kind} {s : State} {L : Layout} {h : Hints} {v : Nat × Nat} {s' : State}
    (e : tryCur cfg k s L h = .ok (some (v, s'))) : s' = s ∨ ∃ p, s' = setCurPos s p := by
  unfold tryCur at e
  cases k
  · -- alloc
    by_cases hup : cfg.up = true
    · simp only [hup, ↓reduceIte] at e
      obtain ⟨r, _, e⟩ := bind_eq_ok e
      cases r with
      | none => cases e
      | some r =>
        simp only [pure_eq_ok, Except.ok.injEq, Option.some.injEq, Prod.mk.injEq] at e
        exact Or.inr ⟨_, e.2.symm⟩
    · simp only [hup, Bool.false_eq_true, ↓reduceIte] at e
      obtain ⟨r, _, e⟩ := bind_eq_ok e
      cases r with
      | none => cases e
      | some r =>
        simp only [pure_eq_ok, Except.ok.injEq, Option.some.injEq, Prod.mk.injEq] at e
        exact Or.inr ⟨_, e.2.symm⟩
  · -- prepare
    by_cases hup : cfg.up = true
    · simp only [hup, ↓reduceIte] at e
      obtain ⟨r, _, e⟩ := bind_eq_ok e
      cases r with
      | none => cases e
      | some r =>
        simp only [pure_eq_ok, Except.ok.injEq, Option.some.injEq, Prod.mk.injEq] at e
        exact Or.inl e.2.symm
    · simp only [hup, Bool.false_eq_true, ↓reduceIte] at e
      obtain ⟨r, _, e⟩ := bind_eq_ok e
      cases r with
      | none => cases e
      | some r =>
        simp only [pure_eq_ok, Except.ok.injEq, Option.some.injEq, Prod.mk.injEq] at e
        exact Or.inl e.2.symm
  · -- range
    simp only at e
    obtain ⟨r, _, e⟩ := bind_eq_ok e
    cases r with
    | none => cases e
    | some r =>
      simp only [pure_eq_ok, Except.ok.injEq, Option.some.injEq, Prod.mk.injEq] at e
      exact Or.inl e.2.symm

/-! ## `newChunk` -/

/-- the chunk `NonDummyChunk::new` builds from a grant `(p, g)` for a request of `size` bytes -/
def freshChunk (cfg : Cfg) (p g size size' : Nat) : Chunk :=
  { base := p, size := size', pos := if cfg.up then p + cfg.hdr.size else p + size' - cfg.hdr.size,
    granted := g, reqSize := size, data := Array.replicate size' 0xAA }

theorem assert_eq_ok {b : Bool} {u : Unit} (h : Arena.liftM (Rs.assert b) = .ok u) : b = true := by
  cases b with
  | true => rfl
  | false => cases h

/-- complete case analysis of a `newChunk` call that did not fault -/
theorem newChunk_cases {cfg : Cfg} {s s' : State} {size : Nat} {r : Except AErr Nat}
    (h : newChunk cfg s size = .ok (s', r)) :
    (layoutOk size cfg.hdr.align = false ∧ s' = s ∧ r = .error .capacityOverflow) ∨
    (layoutOk size cfg.hdr.align = true ∧ ∃ rest, s.resps = .fail :: rest ∧
      s' = { s with reqs := s.reqs ++ [BaseReq.alloc size cfg.hdr.align], resps := rest } ∧ r = .error .alloc) ∨
    (layoutOk size cfg.hdr.align = true ∧ ∃ p g rest size', s.resps = .granted p g :: rest ∧
      Gen.SizeConfig.align_size (sizeCfg cfg) g = .ok size' ∧ size ≤ size' ∧ size' % 16 = 0 ∧
      s' = { s with reqs := s.reqs ++ [BaseReq.alloc size cfg.hdr.align], resps := rest,
                    chunks := s.chunks ++ [freshChunk cfg p g size size'] } ∧
      r = .ok s.chunks.length) := by
  unfold newChunk at h
  cases hl : layoutOk size cfg.hdr.align with
  | false =>
    simp only [hl, Bool.not_false, ↓reduceIte, pure_eq_ok, Except.ok.injEq, Prod.mk.injEq] at h
    exact Or.inl ⟨rfl, h.1.symm, h.2.symm⟩
  | true =>
    simp only [hl, Bool.not_true, Bool.false_eq_true, ↓reduceIte] at h
    refine Or.inr ?_
    cases hr : s.resps with
    | nil => simp only [hr] at h; cases h
    | cons x rest =>
      cases x with
      | fail =>
        simp only [hr, pure_eq_ok, Except.ok.injEq, Prod.mk.injEq] at h
        exact Or.inl ⟨rfl, rest, rfl, h.1.symm, h.2.symm⟩
      | granted p g =>
        simp only [hr] at h
        obtain ⟨size', h1, h⟩ := bind_eq_ok h
        obtain ⟨u1, h2, h⟩ := bind_eq_ok h
        obtain ⟨u2, h3, h⟩ := bind_eq_ok h
        simp only [pure_eq_ok, Except.ok.injEq, Prod.mk.injEq] at h
        have h2' := of_decide_eq_true (assert_eq_ok h2)
        have h3' := of_decide_eq_true (assert_eq_ok h3)
        exact Or.inr ⟨rfl, p, g, rest, size', rfl, liftM_eq_ok h1, h2', h3', h.1.symm, h.2.symm⟩
/-! ## The extension relation between states -/
/-- `c'` is the chunk `c`, possibly with another bump position -/
def SamePlace (c c' : Chunk) : Prop :=
  c'.base = c.base ∧ c'.size = c.size ∧ c'.granted = c.granted ∧ c'.reqSize = c.reqSize ∧ c'.data = c.data

theorem SamePlace.refl (c : Chunk) : SamePlace c c := ⟨rfl, rfl, rfl, rfl, rfl⟩
theorem SamePlace.trans {a b c : Chunk} (h1 : SamePlace a b) (h2 : SamePlace b c) : SamePlace a c :=
  ⟨h2.1.trans h1.1, h2.2.1.trans h1.2.1, h2.2.2.1.trans h1.2.2.1, h2.2.2.2.1.trans h1.2.2.2.1,
   h2.2.2.2.2.trans h1.2.2.2.2⟩

/-- `s'` extends `s`: the ghost state (live blocks, frames, ids, checkpoints) is the same, every chunk
    of `s` is still present at the same index with the same address range and the same bytes, and
    the chunks with index `< n` also kept their bump position. -/
structure Ext (n : Nat) (s s' : State) : Prop where
  live : s'.live = s.live
  minAlign : s'.minAlign = s.minAlign
  frames : s'.frames = s.frames
  nextId : s'.nextId = s.nextId
  userCps : s'.userCps = s.userCps
  prepared : s'.prepared = s.prepared
  dropped : s'.dropped = s.dropped
  chunk : ∀ j c, s.chunks[j]? = some c →
    ∃ c', s'.chunks[j]? = some c' ∧ SamePlace c c' ∧ (j < n → c'.pos = c.pos)

theorem Ext.refl (n : Nat) (s : State) : Ext n s s :=
  ⟨rfl, rfl, rfl, rfl, rfl, rfl, rfl, fun j c h => ⟨c, h, SamePlace.refl c, fun _ => rfl⟩⟩

theorem Ext.of_eq {n : Nat} {s s' : State} (h : s' = s) : Ext n s s' := h ▸ Ext.refl n s

theorem Ext.mono {n m : Nat} {s s' : State} (h : Ext n s s') (hm : m ≤ n) : Ext m s s' :=
  ⟨h.live, h.minAlign, h.frames, h.nextId, h.userCps, h.prepared, h.dropped, fun j c hc => by
      obtain ⟨c', h1, h2, h3⟩ := h.chunk j c hc
      exact ⟨c', h1, h2, fun hj => h3 (Nat.lt_of_lt_of_le hj hm)⟩⟩

theorem Ext.trans {n : Nat} {a b c : State} (h1 : Ext n a b) (h2 : Ext n b c) : Ext n a c where
  live := h2.live.trans h1.live
  minAlign := h2.minAlign.trans h1.minAlign
  frames := h2.frames.trans h1.frames
  nextId := h2.nextId.trans h1.nextId
  userCps := h2.userCps.trans h1.userCps
  prepared := h2.prepared.trans h1.prepared
  dropped := h2.dropped.trans h1.dropped
  chunk := fun j x hx => by
    obtain ⟨y, hy, sp1, p1⟩ := h1.chunk j x hx
    obtain ⟨z, hz, sp2, p2⟩ := h2.chunk j y hy
    exact ⟨z, hz, sp1.trans sp2, fun hj => (p2 hj).trans (p1 hj)⟩

theorem Ext.length_le {n : Nat} {s s' : State} (h : Ext n s s') : s.chunks.length ≤ s'.chunks.length := by
  by_cases hl : s.chunks.length = 0
  · omega
  · have hlt : s.chunks.length - 1 < s.chunks.length := by omega
    obtain ⟨c', h1, _⟩ := h.chunk (s.chunks.length - 1) _ (List.getElem?_eq_getElem hlt)
    have := (List.getElem?_eq_some_iff.1 h1).1
    omega

/-- changing the position of chunk `i` -/
theorem Ext.setPos (s : State) {n i : Nat} (p : Nat) (h : n ≤ i) : Ext n s (setPos s i p) where
  live := rfl
  minAlign := rfl
  frames := rfl
  nextId := rfl
  userCps := rfl
  prepared := rfl
  dropped := rfl
  chunk := fun j c hc => by
    simp only [setPos_chunks, List.getElem?_modify, hc, Option.map_some]
    by_cases hij : i = j
    · subst hij
      exact ⟨_, rfl, by simp only [↓reduceIte]; exact SamePlace.refl c, fun hj => by omega⟩
    · simp only [hij, ↓reduceIte]
      exact ⟨c, rfl, SamePlace.refl c, fun _ => rfl⟩

theorem Ext.setCurPos (s : State) {n : Nat} (p : Nat) (h : ∀ i, s.cur = .chunk i → n ≤ i) :
    Ext n s (setCurPos s p) := by
  rcases setCurPos_eq s p with e | ⟨i, hi, e⟩
  · exact Ext.of_eq e
  · rw [e]; exact Ext.setPos s p (h i hi)

/-! ## Frames of tryCur and newChunk -/
/-- frame of a successful `tryCur`: nothing but the position of the current chunk changes -/
theorem tryCur_frame {cfg : Cfg} {k : Kind} {s : State} {L : Layout} {h : Hints} {v : Nat × Nat} {s' : State}
    (e : tryCur cfg k s L h = .ok (some (v, s'))) :
    s'.cur = s.cur ∧ s'.reqs = s.reqs ∧ s'.resps = s.resps ∧ s'.chunks.length = s.chunks.length ∧
    ∀ n, (∀ i, s.cur = .chunk i → n ≤ i) → Ext n s s' := by
  rcases tryCur_some e with rfl | ⟨p, rfl⟩
  · exact ⟨rfl, rfl, rfl, rfl, fun n _ => Ext.refl n _⟩
  · exact ⟨setCurPos_cur _ _, setCurPos_reqs _ _, setCurPos_resps _ _, setCurPos_length _ _,
      fun n hn => Ext.setCurPos s p hn⟩

/-- appending a chunk (and talking to the base allocator) extends the state -/
theorem Ext.append (n : Nat) (s : State) (c : Chunk) (reqs : List BaseReq) (resps : List BaseResp) :
    Ext n s { s with chunks := s.chunks ++ [c], reqs := reqs, resps := resps } :=
  ⟨rfl, rfl, rfl, rfl, rfl, rfl, rfl, fun j x hx => by
    have hj := (List.getElem?_eq_some_iff.1 hx).1
    refine ⟨x, ?_, SamePlace.refl x, fun _ => rfl⟩
    show (s.chunks ++ [c])[j]? = some x
    rw [List.getElem?_append_left hj]; exact hx⟩

/-- frame shared by the chunk-creating functions (`newChunk`, `newChunkForCapacity`, `appendFor`),
    for every outcome: at most one request (an `alloc` with the header alignment) and at most one
    response consumed; on an error no chunk is linked; a size overflow does nothing at all -/
def CreateFrame (cfg : Cfg) (s s' : State) (r : Except AErr Nat) : Prop :=
    s'.cur = s.cur ∧ (∀ n, Ext n s s') ∧
    (∀ e, r = .error e → s'.chunks = s.chunks ∧ (e = .alloc ∨ e = .capacityOverflow)) ∧
    (∀ i, r = .ok i → i = s.chunks.length ∧ s'.chunks.length = i + 1) ∧
    (r = .error .capacityOverflow → s' = s) ∧
    (s'.reqs = s.reqs ∨ ∃ size, s'.reqs = s.reqs ++ [BaseReq.alloc size cfg.hdr.align]) ∧
    (s'.resps = s.resps ∨ ∃ x, s.resps = x :: s'.resps)

theorem CreateFrame.overflow (cfg : Cfg) (s : State) : CreateFrame cfg s s (.error .capacityOverflow) :=
  ⟨rfl, fun n => Ext.refl n s, fun e he => ⟨rfl, by cases he; exact Or.inr rfl⟩, fun i hi => (by cases hi),
   fun _ => rfl, Or.inl rfl, Or.inl rfl⟩

/-- what a `newChunk` call that did not fault leaves behind -/
theorem newChunk_frame {cfg : Cfg} {s s' : State} {size : Nat} {r : Except AErr Nat}
    (h : newChunk cfg s size = .ok (s', r)) : CreateFrame cfg s s' r := by
  rcases newChunk_cases h with ⟨_, rfl, rfl⟩ | ⟨_, rest, hr, rfl, rfl⟩ | ⟨_, p, g, rest, size', hr, _, _, _, rfl, rfl⟩
  · exact CreateFrame.overflow cfg _
  · refine ⟨rfl, fun n => ⟨rfl, rfl, rfl, rfl, rfl, rfl, rfl, fun j c hc => ⟨c, hc, SamePlace.refl c, fun _ => rfl⟩⟩,
      fun e he => ⟨rfl, by cases he; exact Or.inl rfl⟩, fun i hi => (by cases hi), fun he => (by cases he),
      Or.inr ⟨size, rfl⟩, Or.inr ⟨_, hr⟩⟩
  · refine ⟨rfl, fun n => Ext.append n s _ _ _, fun e he => (by cases he), fun i hi => ?_, fun he => (by cases he),
      Or.inr ⟨size, rfl⟩, Or.inr ⟨_, hr⟩⟩
    cases hi
    exact ⟨rfl, by simp only [List.length_append, List.length_cons, List.length_nil]⟩

/-! ## Chunk creation: case analysis and frames -/
/-- `newChunkForCapacity`: either a size computation overflowed (nothing happened) or it is a `newChunk` call -/
theorem newChunkForCapacity_cases {cfg : Cfg} {s s' : State} {L : Layout} {r : Except AErr Nat}
    (h : newChunkForCapacity cfg s L = .ok (s', r)) :
    (s' = s ∧ r = .error .capacityOverflow) ∨
    ∃ hint size, Gen.SizeConfig.calc_hint_from_capacity (sizeCfg cfg) L = .ok (some hint) ∧
      calcSize cfg hint = .ok (some size) ∧ newChunk cfg s size = .ok (s', r) := by
  unfold newChunkForCapacity at h
  obtain ⟨oh, h1, h⟩ := bind_eq_ok h
  cases oh with
  | none =>
    simp only [pure_eq_ok, Except.ok.injEq, Prod.mk.injEq] at h
    exact Or.inl ⟨h.1.symm, h.2.symm⟩
  | some hint =>
    simp only at h
    obtain ⟨os, h2, h⟩ := bind_eq_ok h
    cases os with
    | none =>
      simp only [pure_eq_ok, Except.ok.injEq, Prod.mk.injEq] at h
      exact Or.inl ⟨h.1.symm, h.2.symm⟩
    | some size => exact Or.inr ⟨hint, size, liftM_eq_ok h1, h2, h⟩

theorem appendFor_cases {cfg : Cfg} {s s' : State} {L : Layout} {r : Except AErr Nat}
    (h : appendFor cfg s L = .ok (s', r)) :
    ∃ last, s.chunks.getLast? = some last ∧
    ((s' = s ∧ r = .error .capacityOverflow) ∨
    ∃ required grown size, Gen.SizeConfig.calc_hint_from_capacity (sizeCfg cfg) L = .ok (some required) ∧
      Rs.checked_mul last.size 2 = some grown ∧
      calcSize cfg (if required > grown then required else grown) = .ok (some size) ∧
      newChunk cfg s size = .ok (s', r)) := by
  unfold appendFor at h
  cases hl : s.chunks.getLast? with
  | none => simp only [hl] at h; cases h
  | some last =>
    refine ⟨last, rfl, ?_⟩
    simp only [hl] at h
    obtain ⟨oh, h1, h⟩ := bind_eq_ok h
    cases oh with
    | none =>
      simp only [pure_eq_ok, Except.ok.injEq, Prod.mk.injEq] at h
      exact Or.inl ⟨h.1.symm, h.2.symm⟩
    | some required =>
      simp only at h
      cases hg : Rs.checked_mul last.size 2 with
      | none =>
        simp only [hg, pure_eq_ok, Except.ok.injEq, Prod.mk.injEq] at h
        exact Or.inl ⟨h.1.symm, h.2.symm⟩
      | some grown =>
        simp only [hg] at h
        obtain ⟨os, h2, h⟩ := bind_eq_ok h
        cases os with
        | none =>
          simp only [pure_eq_ok, Except.ok.injEq, Prod.mk.injEq] at h
          exact Or.inl ⟨h.1.symm, h.2.symm⟩
        | some size => exact Or.inr ⟨required, grown, size, liftM_eq_ok h1, rfl, h2, h⟩

theorem newChunkForCapacity_frame {cfg : Cfg} {s s' : State} {L : Layout} {r : Except AErr Nat}
    (h : newChunkForCapacity cfg s L = .ok (s', r)) : CreateFrame cfg s s' r := by
  rcases newChunkForCapacity_cases h with ⟨rfl, rfl⟩ | ⟨_, _, _, _, h⟩
  · exact CreateFrame.overflow cfg _
  · exact newChunk_frame h

theorem appendFor_frame {cfg : Cfg} {s s' : State} {L : Layout} {r : Except AErr Nat}
    (h : appendFor cfg s L = .ok (s', r)) : CreateFrame cfg s s' r := by
  obtain ⟨last, _, ⟨rfl, rfl⟩ | ⟨_, _, _, _, _, _, h⟩⟩ := appendFor_cases h
  · exact CreateFrame.overflow cfg _
  · exact newChunk_frame h

end Ledger
