/-
  Lemmas/GeomNoFault.lean — "no fault" for the operations that copy bytes, under the explicit
  hypothesis that the chunks do not overlap (`ChunksDisjoint`).
-/
import BumpProof.Lemmas.GeomPrepared

set_option linter.unusedSimpArgs false
set_option linter.unusedVariables false

namespace Arena
open Rs Lemmas

section
variable {cfg : Cfg}

/-! ## finding the chunk of a range -/

theorem findChunk_eq_some {s : State} (hd : ChunksDisjoint s) {i : Nat} {c : Chunk} {lo hi : Nat}
    (hi' : s.chunks[i]? = some c) (hlt : lo < hi) (h1 : c.base ≤ lo) (h2 : hi ≤ c.base + c.size) :
    findChunk s.chunks lo hi = some i := by
  unfold findChunk
  cases hf : List.findIdx? (fun c => decide (c.base ≤ lo ∧ hi ≤ c.base + c.size)) s.chunks with
  | none =>
    rw [List.findIdx?_eq_none_iff] at hf
    have := hf c (List.mem_of_getElem? hi')
    simp only [decide_eq_false_iff_not] at this
    exact absurd ⟨h1, h2⟩ this
  | some j =>
    rw [List.findIdx?_eq_some_iff_getElem] at hf
    obtain ⟨hj, hp, _⟩ := hf
    simp only [decide_eq_true_eq] at hp
    by_cases hij : j = i
    · rw [hij]
    · exfalso
      have hcj : s.chunks[j]? = some s.chunks[j] := List.getElem?_eq_getElem hj
      rcases hd j i _ _ hij hcj hi' with h | h <;> omega

theorem writeRange_noFault {s : State} (hd : ChunksDisjoint s) {lo hi : Nat} (f : Nat → UInt8)
    (hb : hi ≤ lo ∨ ∃ (i : Nat) (c : Chunk), s.chunks[i]? = some c ∧ ChunkWF cfg c ∧ c.contentStart cfg ≤ lo ∧ hi ≤ c.contentEnd cfg) :
    ∃ s', writeRange cfg s lo hi f = .ok s' := by
  unfold writeRange
  by_cases hle : hi ≤ lo
  · rw [if_pos hle]; exact ⟨_, rfl⟩
  · rw [if_neg hle]
    rcases hb with hb | ⟨i, c, hi', hw, h1, h2⟩
    · exact absurd hb hle
    · have hf := findChunk_eq_some hd hi' (by omega) (Nat.le_trans hw.base_le_start h1) (Nat.le_trans h2 hw.end_le)
      simp only [hf, hi', h1, h2, and_self, ↓reduceIte]
      exact ⟨_, rfl⟩

theorem copyBytes_noFault {s : State} (hd : ChunksDisjoint s) {src dst len : Nat} {no : Bool}
    (hsrc : len = 0 ∨ ∃ (i : Nat) (c : Chunk), s.chunks[i]? = some c ∧ c.base ≤ src ∧ src + len ≤ c.base + c.size)
    (hdst : len = 0 ∨ ∃ (i : Nat) (c : Chunk), s.chunks[i]? = some c ∧ ChunkWF cfg c ∧ c.contentStart cfg ≤ dst ∧ dst + len ≤ c.contentEnd cfg)
    (hno : no = true → src + len ≤ dst ∨ dst + len ≤ src) :
    ∃ s', copyBytes cfg s src dst len no = .ok s' := by
  unfold copyBytes
  by_cases h0 : len = 0
  · rw [if_pos h0]; exact ⟨_, rfl⟩
  · rw [if_neg h0]
    have hcond : ¬ (no = true ∧ src < dst + len ∧ dst < src + len) := by
      rintro ⟨hn, h1, h2⟩
      rcases hno hn with h | h <;> omega
    rw [if_neg hcond]
    rcases hsrc with hsrc | ⟨i, c, hi, h1, h2⟩
    · exact absurd hsrc h0
    · rw [findChunk_eq_some hd hi (by omega) h1 h2]
      simp only
      apply writeRange_noFault hd
      rcases hdst with hdst | hdst
      · exact absurd hdst h0
      · exact Or.inr hdst

/-- disjointness depends on the shapes only -/
theorem SameShape.disjoint {s s' : State} (h : SameShape s s') (hd : ChunksDisjoint s) : ChunksDisjoint s' := by
  intro i j a b hij ha hb
  have h1 := h.getElem? i
  have h2 := h.getElem? j
  rw [ha] at h1; rw [hb] at h2
  cases ha' : s.chunks[i]? with
  | none => rw [ha'] at h1; simp at h1
  | some a' =>
    cases hb' : s.chunks[j]? with
    | none => rw [hb'] at h2; simp at h2
    | some b' =>
      rw [ha'] at h1; rw [hb'] at h2
      simp only [Option.map_some, Option.some.injEq, Chunk.shape, Prod.mk.injEq] at h1 h2
      have := hd i j a' b' hij ha' hb'
      omega

/-! ## a live block that is the last allocation lies in the current chunk -/

theorem LiveBlock.blockInCur (hc : CfgOK cfg) {s : State} (h : GeomInv cfg s) (hd : ChunksDisjoint s)
    {ptr size : Nat} (hl : LiveBlock cfg s ptr size) (hlast : isLast cfg s ptr size = true) :
    BlockInCur cfg s ptr size := by
  obtain ⟨i, j, c, hcur, hji, hj, h1, h2, h3⟩ := hl
  obtain ⟨ci, hi, hwi, _⟩ := h.curChunk hcur
  by_cases hij : j = i
  · subst hij
    exact ⟨j, c, hcur, hj, h1, h2, h3 rfl⟩
  · exfalso
    have hw := h.chunks j c hj
    have hpos := isLast_pos hlast hcur hi
    have hdis := hd j i c ci hij hj hi
    have h32 := hc.hdr.ge
    have a1 := hw.hdr_le; have a2 := hwi.hdr_le
    have a3 := hwi.pos_ge; have a4 := hwi.pos_le
    simp only [Chunk.contentStart, Chunk.contentEnd] at h1 h2 a3 a4
    cases hup : cfg.up
    · simp only [hup, Bool.false_eq_true, ↓reduceIte] at hpos h1 h2 a3 a4
      rcases hdis with hx | hx <;> omega
    · simp only [hup, ↓reduceIte] at hpos h1 h2 a3 a4
      rcases hdis with hx | hx <;> omega

/-! ## committing prepared allocations -/

theorem allocatePrepared_noFault (hc : CfgOK cfg) {s : State} (h : GeomInv cfg s) (hd : ChunksDisjoint s)
    {size rstart rend : Nat} (rev : Bool) (hrange : RangeInCur cfg s rstart rend) (hsz : size ≤ rend - rstart) :
    ∃ s' a, allocatePrepared cfg s size rstart rend rev = .ok (s', a) := by
  obtain ⟨i, c, hcur, hi, r1, r2, r3⟩ := hrange
  have hw := h.chunks i c hi
  have hm := h.minAlign
  have hbs := hw.base_le_start
  have hel := hw.end_le
  unfold allocatePrepared
  rw [hcur]
  simp only
  cases hup : cfg.up
  · simp only [Bool.false_eq_true, ↓reduceIte]
    rw [sub_ok (by omega : size ≤ rend)]
    simp only [liftM_ok, r_ok_bind]
    have hal := hw.align_pos_eq hc hm (by omega : rend - size ≤ c.contentEnd cfg) false
    cases rev
    · obtain ⟨s1, h1⟩ := copyBytes_noFault (cfg := cfg) hd (src := rstart) (dst := rend - size) (len := size) (no := false)
        (Or.inr ⟨i, c, hi, by omega, by omega⟩) (Or.inr ⟨i, c, hi, hw, by omega, by omega⟩) (fun hx => by cases hx)
      simp only [Bool.false_eq_true, ↓reduceIte, h1, r_ok_bind, hal, liftM_ok]
      exact ⟨_, _, rfl⟩
    · simp only [↓reduceIte, r_pure, r_ok_bind, hal, liftM_ok]
      exact ⟨_, _, rfl⟩
  · simp only [↓reduceIte]
    have hend := hw.end_lt64
    have hadd : Rs.add rstart size = .ok (rstart + size) := add_ok' (by omega)
    have hal := hw.align_pos_eq hc hm (by omega : rstart + size ≤ c.contentEnd cfg) true
    cases rev
    · simp only [Bool.false_eq_true, ↓reduceIte, r_pure, r_ok_bind, hadd, hal, liftM_ok]
      exact ⟨_, _, rfl⟩
    · obtain ⟨s1, h1⟩ := copyBytes_noFault (cfg := cfg) hd (src := rend - size) (dst := rstart) (len := size) (no := false)
        (Or.inr ⟨i, c, hi, by omega, by omega⟩) (Or.inr ⟨i, c, hi, hw, by omega, by omega⟩) (fun hx => by cases hx)
      simp only [↓reduceIte, h1, r_ok_bind, hadd, hal, liftM_ok]
      exact ⟨_, _, rfl⟩

theorem setPosAlignFrom_noFault (hc : CfgOK cfg) {s : State} (h : GeomInv cfg s) {i : Nat} {c : Chunk}
    (hcur : s.cur = .chunk i) (hi : s.chunks[i]? = some c) {pos posAlign : Nat}
    (h2 : pos ≤ c.contentEnd cfg) (hd : posAlign ∣ pos) :
    ∃ s', setPosAlignFrom cfg s pos posAlign = .ok s' := by
  have hw := h.chunks i c hi
  unfold setPosAlignFrom
  rw [assert_dec (Nat.mod_eq_zero_of_dvd hd)]
  simp only [liftM_ok, r_ok_bind]
  split
  · rw [hw.align_pos_eq hc h.minAlign h2]
    exact ⟨_, rfl⟩
  · exact ⟨_, rfl⟩

theorem allocatePreparedSlice_noFault (hc : CfgOK cfg) {s : State} (h : GeomInv cfg s) (hd : ChunksDisjoint s)
    {ptr len cap esize ealign : Nat} (rev : Bool) (he1 : ealign ∣ esize) (he2 : ealign ∣ ptr)
    (hrange : RangeInCur cfg s (if rev then ptr - cap * esize else ptr) (if rev then ptr else ptr + cap * esize))
    (hrev : rev = true → cap * esize ≤ ptr) (hlen : len ≤ cap) :
    ∃ s' a, allocatePreparedSlice cfg s ptr len cap esize ealign rev = .ok (s', a) := by
  obtain ⟨i, c, hcur, hi, r1, r2, r3⟩ := hrange
  have hw := h.chunks i c hi
  have hbs := hw.base_le_start
  have hel := hw.end_le
  have hmul : len * esize ≤ cap * esize := Nat.mul_le_mul_right esize hlen
  have hdl : ealign ∣ len * esize := Nat.dvd_trans he1 (Nat.dvd_mul_left _ _)
  have hdc : ealign ∣ cap * esize := Nat.dvd_trans he1 (Nat.dvd_mul_left _ _)
  -- position update on a state with the same geometry
  have key : ∀ {s1 : State} {pos : Nat}, SameGeom s s1 → pos ≤ c.contentEnd cfg → ealign ∣ pos →
      ∃ s2, setPosAlignFrom cfg s1 pos ealign = .ok s2 := by
    intro s1 pos hg p2 hdp
    obtain ⟨c1, hi1, hcc⟩ := hg.getElem?' hi
    exact setPosAlignFrom_noFault hc (hg.inv h) (hg.cur.trans hcur) hi1 (by rw [geom_contentEnd hcc]; exact p2) hdp
  unfold allocatePreparedSlice
  rw [hcur]
  simp only
  cases rev
  · simp only [Bool.false_eq_true, ↓reduceIte, Bool.not_false] at r1 r2 r3 ⊢
    cases hup : cfg.up
    · simp only [Bool.false_eq_true, ↓reduceIte]
      obtain ⟨s1, h1⟩ := copyBytes_noFault (cfg := cfg) hd (src := ptr) (dst := ptr + cap * esize - len * esize)
        (len := len * esize) (no := false)
        (Or.inr ⟨i, c, hi, by omega, by omega⟩) (Or.inr ⟨i, c, hi, hw, by omega, by omega⟩) (fun hx => by cases hx)
      obtain ⟨s2, h2⟩ := key (copyBytes_geom h1) (pos := ptr + cap * esize - len * esize) (by omega)
        (Nat.dvd_sub ((Nat.dvd_add_right he2).2 hdc) hdl)
      simp only [h1, h2, r_ok_bind]
      exact ⟨_, _, rfl⟩
    · simp only [↓reduceIte]
      obtain ⟨s2, h2⟩ := key (SameGeom.refl s) (pos := ptr + len * esize) (by omega) ((Nat.dvd_add_right he2).2 hdl)
      simp only [h2, r_ok_bind]
      exact ⟨_, _, rfl⟩
  · have hle := hrev rfl
    simp only [↓reduceIte, Bool.not_true, Bool.false_eq_true] at r1 r2 r3 ⊢
    cases hup : cfg.up
    · simp only [Bool.false_eq_true, ↓reduceIte]
      obtain ⟨s2, h2⟩ := key (SameGeom.refl s) (pos := ptr - len * esize) (by omega) (Nat.dvd_sub he2 hdl)
      simp only [h2, r_ok_bind]
      exact ⟨_, _, rfl⟩
    · simp only [↓reduceIte]
      obtain ⟨s1, h1⟩ := copyBytes_noFault (cfg := cfg) hd (src := ptr - len * esize) (dst := ptr - cap * esize)
        (len := len * esize) (no := false)
        (Or.inr ⟨i, c, hi, by omega, by omega⟩) (Or.inr ⟨i, c, hi, hw, by omega, by omega⟩) (fun hx => by cases hx)
      obtain ⟨s2, h2⟩ := key (copyBytes_geom h1) (pos := ptr - cap * esize + len * esize) (by omega)
        ((Nat.dvd_add_right (Nat.dvd_sub he2 hdc)).2 hdl)
      simp only [h1, h2, r_ok_bind]
      exact ⟨_, _, rfl⟩

/-! ## shrink_slice -/

theorem shrinkSlice_noFault (hc : CfgOK cfg) {s : State} (h : GeomInv cfg s) (hd : ChunksDisjoint s)
    {ptr oldSize newSize ealign : Nat} (hal : P2 ealign) (hal64 : ealign < 2 ^ 64) (hap : ealign ∣ ptr)
    (hsz : newSize ≤ oldSize) (hl : LiveBlock cfg s ptr oldSize) :
    ∃ s' r, shrinkSlice cfg s ptr oldSize newSize ealign = .ok (s', r) := by
  unfold shrinkSlice
  cases hsh : cfg.shrinks
  · exact ⟨_, _, rfl⟩
  · simp only [Bool.not_true, Bool.false_eq_true, ↓reduceIte]
    cases hlast : isLast cfg s ptr oldSize
    · exact ⟨_, _, rfl⟩
    · simp only [Bool.not_true, Bool.false_eq_true, ↓reduceIte]
      obtain ⟨i, c, hcur, hi, hb1, hb2, hb3⟩ := hl.blockInCur hc h hd hlast
      have hw := h.chunks i c hi
      have hm := h.minAlign
      have hpos := isLast_pos hlast hcur hi
      have hend := hw.end_lt64
      have h16 := hw.end16 hc
      have hmle := hm.le
      have hple := hw.pos_le
      have hbs := hw.base_le_start
      have hel := hw.end_le
      rw [hcur]
      simp only
      cases hup : cfg.up
      · simp only [hup, Bool.false_eq_true, ↓reduceIte] at hpos hb3 ⊢
        have hadd : Rs.add ptr oldSize = .ok (ptr + oldSize) := add_ok' (by omega)
        have hp2 : P2 (Rs.max ealign s.minAlign) := by rw [rs_max_eq]; exact hal.max hm.p2
        have hlt : Rs.max ealign s.minAlign < 2 ^ 64 := by
          rw [rs_max_eq, Lemmas.Size.natmax]; have := hm.lt64; omega
        have hbd := lib_bump_down_eq (sz := newSize) hp2 hlt (by omega : ptr + oldSize < 2 ^ 64)
        obtain ⟨g1, g2, g3⟩ := shrink_down_core hc h hcur hi hal hal64 hap hpos hb2 hsz hadd hbd
        have hle : Spec.downAlign (ptr + oldSize - newSize) (Rs.max ealign s.minAlign) ≤ ptr + oldSize - newSize :=
          downAlign_le _ _
        obtain ⟨s1, h1⟩ := copyBytes_noFault (cfg := cfg) hd (src := ptr)
          (dst := Spec.downAlign (ptr + oldSize - newSize) (Rs.max ealign s.minAlign)) (len := newSize)
          (no := !decide (ptr + newSize > Spec.downAlign (ptr + oldSize - newSize) (Rs.max ealign s.minAlign)))
          (Or.inr ⟨i, c, hi, by omega, by omega⟩) (Or.inr ⟨i, c, hi, hw, g1, by omega⟩)
          (fun hx => by
            simp only [Bool.not_eq_true', decide_eq_false_iff_not] at hx
            left; omega)
        simp only [hadd, hbd, liftM_ok, r_ok_bind, h1]
        exact ⟨_, _, rfl⟩
      · simp only [hup, ↓reduceIte] at hpos hb3 ⊢
        have hadd : Rs.add ptr newSize = .ok (ptr + newSize) := add_ok' (by omega)
        have hua := up_align_usize_unchecked_eq (x := ptr + newSize) hm.p2 hm.lt64 (by rw [two_pow_64] at hend ⊢; omega)
        simp only [hadd, hua, liftM_ok, r_ok_bind]
        exact ⟨_, _, rfl⟩

end
end Arena
