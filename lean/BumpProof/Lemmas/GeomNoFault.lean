/-
  Lemmas/GeomNoFault.lean — "no fault" for the operations that copy bytes, under the explicit
  hypothesis that the chunks do not overlap (`ChunksDisjoint`).
-/
import BumpProof.Lemmas.GeomPrepared

set_option linter.unusedSimpArgs false
set_option linter.unusedVariables false

namespace Arena
open Rs Lemmas

section
variable {cfg : Cfg}

/-! ## finding the chunk of a range -/

theorem findChunk_eq_some {s : State} (hd : ChunksDisjoint s) {i : Nat} {c : Chunk} {lo hi : Nat}
    (hi' : s.chunks[i]? = some c) (hlt : lo < hi) (h1 : c.base ≤ lo) (h2 : hi ≤ c.base + c.size) :
    findChunk s.chunks lo hi = some i := by
  unfold findChunk
  cases hf : List.findIdx? (fun c => decide (c.base ≤ lo ∧ hi ≤ c.base + c.size)) s.chunks with
  | none =>
    rw [List.findIdx?_eq_none_iff] at hf
    have := hf c (List.mem_of_getElem? hi')
    simp only [decide_eq_false_iff_not] at this
    exact absurd ⟨h1, h2⟩ this
  | some j =>
    rw [List.findIdx?_eq_some_iff_getElem] at hf
    obtain ⟨hj, hp, _⟩ := hf
    simp only [decide_eq_true_eq] at hp
    by_cases hij : j = i
    · rw [hij]
    · exfalso
      have hcj : s.chunks[j]? = some s.chunks[j] := List.getElem?_eq_getElem hj
      rcases hd j i _ _ hij hcj hi' with h | h <;> omega

theorem writeRange_noFault {s : State} (hd : ChunksDisjoint s) {lo hi : Nat} (f : Nat → UInt8)
    (hb : hi ≤ lo ∨ ∃ (i : Nat) (c : Chunk), s.chunks[i]? = some c ∧ ChunkWF cfg c ∧ c.contentStart cfg ≤ lo ∧ hi ≤ c.contentEnd cfg) :
    ∃ s', writeRange cfg s lo hi f = .ok s' := by
  unfold writeRange
  by_cases hle : hi ≤ lo
  · rw [if_pos hle]; exact ⟨_, rfl⟩
  · rw [if_neg hle]
    rcases hb with hb | ⟨i, c, hi', hw, h1, h2⟩
    · exact absurd hb hle
    · have hf := findChunk_eq_some hd hi' (by omega) (Nat.le_trans hw.base_le_start h1) (Nat.le_trans h2 hw.end_le)
      simp only [hf, hi', h1, h2, and_self, ↓reduceIte]
      exact ⟨_, rfl⟩

theorem copyBytes_noFault {s : State} (hd : ChunksDisjoint s) {src dst len : Nat} {no : Bool}
    (hsrc : len = 0 ∨ ∃ (i : Nat) (c : Chunk), s.chunks[i]? = some c ∧ c.base ≤ src ∧ src + len ≤ c.base + c.size)
    (hdst : len = 0 ∨ ∃ (i : Nat) (c : Chunk), s.chunks[i]? = some c ∧ ChunkWF cfg c ∧ c.contentStart cfg ≤ dst ∧ dst + len ≤ c.contentEnd cfg)
    (hno : no = true → src + len ≤ dst ∨ dst + len ≤ src) :
    ∃ s', copyBytes cfg s src dst len no = .ok s' := by
  unfold copyBytes
  by_cases h0 : len = 0
  · rw [if_pos h0]; exact ⟨_, rfl⟩
  · rw [if_neg h0]
    have hcond : ¬ (no = true ∧ src < dst + len ∧ dst < src + len) := by
      rintro ⟨hn, h1, h2⟩
      rcases hno hn with h | h <;> omega
    rw [if_neg hcond]
    rcases hsrc with hsrc | ⟨i, c, hi, h1, h2⟩
    · exact absurd hsrc h0
    · rw [findChunk_eq_some hd hi (by omega) h1 h2]
      simp only
      apply writeRange_noFault hd
      rcases hdst with hdst | hdst
      · exact absurd hdst h0
      · exact Or.inr hdst

/-- disjointness depends on the shapes only -/
theorem SameShape.disjoint {s s' : State} (h : SameShape s s') (hd : ChunksDisjoint s) : ChunksDisjoint s' := by
  intro i j a b hij ha hb
  have h1 := h.getElem? i
  have h2 := h.getElem? j
  rw [ha] at h1; rw [hb] at h2
  cases ha' : s.chunks[i]? with
  | none => rw [ha'] at h1; simp at h1
  | some a' =>
    cases hb' : s.chunks[j]? with
    | none => rw [hb'] at h2; simp at h2
    | some b' =>
      rw [ha'] at h1; rw [hb'] at h2
      simp only [Option.map_some, Option.some.injEq, Chunk.shape, Prod.mk.injEq] at h1 h2
      have := hd i j a' b' hij ha' hb'
      omega

/-! ## a live block that is the last allocation lies in the current chunk -/

theorem LiveBlock.blockInCur (hc : CfgOK cfg) {s : State} (h : GeomInv cfg s) (hd : ChunksDisjoint s)
    {ptr size : Nat} (hl : LiveBlock cfg s ptr size) (hlast : isLast cfg s ptr size = true) :
    BlockInCur cfg s ptr size := by
  obtain ⟨i, j, c, hcur, hji, hj, h1, h2, h3⟩ := hl
  obtain ⟨ci, hi, hwi, _⟩ := h.curChunk hcur
  by_cases hij : j = i
  · subst hij
    exact ⟨j, c, hcur, hj, h1, h2, h3 rfl⟩
  · exfalso
    have hw := h.chunks j c hj
    have hpos := isLast_pos hlast hcur hi
    have hdis := hd j i c ci hij hj hi
    have h32 := hc.hdr.ge
    have a1 := hw.hdr_le; have a2 := hwi.hdr_le
    have a3 := hwi.pos_ge; have a4 := hwi.pos_le
    simp only [Chunk.contentStart, Chunk.contentEnd] at h1 h2 a3 a4
    cases hup : cfg.up
    · simp only [hup, Bool.false_eq_true, ↓reduceIte] at hpos h1 h2 a3 a4
      rcases hdis with hx | hx <;> omega
    · simp only [hup, ↓reduceIte] at hpos h1 h2 a3 a4
      rcases hdis with hx | hx <;> omega

/-! ## committing prepared allocations -/

theorem allocatePrepared_noFault (hc : CfgOK cfg) {s : State} (h : GeomInv cfg s) (hd : ChunksDisjoint s)
    {size rstart rend : Nat} (rev : Bool) (hrange : RangeInCur cfg s rstart rend) (hsz : size ≤ rend - rstart) :
    ∃ s' a, allocatePrepared cfg s size rstart rend rev = .ok (s', a) := by
  obtain ⟨i, c, hcur, hi, r1, r2, r3⟩ := hrange
  have hw := h.chunks i c hi
  have hm := h.minAlign
  have hbs := hw.base_le_start
  have hel := hw.end_le
  unfold allocatePrepared
  rw [hcur]
  simp only
  cases hup : cfg.up
  · simp only [Bool.false_eq_true, ↓reduceIte]
    rw [sub_ok (by omega : size ≤ rend)]
    simp only [liftM_ok, r_ok_bind]
    have hal := hw.align_pos_eq hc hm (by omega : rend - size ≤ c.contentEnd cfg) false
    cases rev
    · obtain ⟨s1, h1⟩ := copyBytes_noFault (cfg := cfg) hd (src := rstart) (dst := rend - size) (len := size) (no := false)
        (Or.inr ⟨i, c, hi, by omega, by omega⟩) (Or.inr ⟨i, c, hi, hw, by omega, by omega⟩) (fun hx => by cases hx)
      simp only [Bool.false_eq_true, ↓reduceIte, h1, r_ok_bind, hal, liftM_ok]
      exact ⟨_, _, rfl⟩
    · simp only [↓reduceIte, r_pure, r_ok_bind, hal, liftM_ok]
      exact ⟨_, _, rfl⟩
  · simp only [↓reduceIte]
    have hend := hw.end_lt64
    have hadd : Rs.add rstart size = .ok (rstart + size) := add_ok' (by omega)
    have hal := hw.align_pos_eq hc hm (by omega : rstart + size ≤ c.contentEnd cfg) true
    cases rev
    · simp only [Bool.false_eq_true, ↓reduceIte, r_pure, r_ok_bind, hadd, hal, liftM_ok]
      exact ⟨_, _, rfl⟩
    · obtain ⟨s1, h1⟩ := copyBytes_noFault (cfg := cfg) hd (src := rend - size) (dst := rstart) (len := size) (no := false)
        (Or.inr ⟨i, c, hi, by omega, by omega⟩) (Or.inr ⟨i, c, hi, hw, by omega, by omega⟩) (fun hx => by cases hx)
      simp only [↓reduceIte, h1, r_ok_bind, hadd, hal, liftM_ok]
      exact ⟨_, _, rfl⟩

theorem setPosAlignFrom_noFault (hc : CfgOK cfg) {s : State} (h : GeomInv cfg s) {i : Nat} {c : Chunk}
    (hcur : s.cur = .chunk i) (hi : s.chunks[i]? = some c) {pos posAlign : Nat}
    (h2 : pos ≤ c.contentEnd cfg) (hd : posAlign ∣ pos) :
    ∃ s', setPosAlignFrom cfg s pos posAlign = .ok s' := by
  have hw := h.chunks i c hi
  unfold setPosAlignFrom
  rw [assert_dec (Nat.mod_eq_zero_of_dvd hd)]
  simp only [liftM_ok, r_ok_bind]
  split
  · rw [hw.align_pos_eq hc h.minAlign h2]
    exact ⟨_, rfl⟩
  · exact ⟨_, rfl⟩

theorem allocatePreparedSlice_noFault (hc : CfgOK cfg) {s : State} (h : GeomInv cfg s) (hd : ChunksDisjoint s)
    {ptr len cap esize ealign : Nat} (rev : Bool) (he1 : ealign ∣ esize) (he2 : ealign ∣ ptr)
    (hrange : RangeInCur cfg s (if rev then ptr - cap * esize else ptr) (if rev then ptr else ptr + cap * esize))
    (hrev : rev = true → cap * esize ≤ ptr) (hlen : len ≤ cap) :
    ∃ s' a, allocatePreparedSlice cfg s ptr len cap esize ealign rev = .ok (s', a) := by
  obtain ⟨i, c, hcur, hi, r1, r2, r3⟩ := hrange
  have hw := h.chunks i c hi
  have hbs := hw.base_le_start
  have hel := hw.end_le
  have hmul : len * esize ≤ cap * esize := Nat.mul_le_mul_right esize hlen
  have hdl : ealign ∣ len * esize := Nat.dvd_trans he1 (Nat.dvd_mul_left _ _)
  have hdc : ealign ∣ cap * esize := Nat.dvd_trans he1 (Nat.dvd_mul_left _ _)
  -- position update on a state with the same geometry
  have key : ∀ {s1 : State} {pos : Nat}, SameGeom s s1 → pos ≤ c.contentEnd cfg → ealign ∣ pos →
      ∃ s2, setPosAlignFrom cfg s1 pos ealign = .ok s2 := by
    intro s1 pos hg p2 hdp
    obtain ⟨c1, hi1, hcc⟩ := hg.getElem?' hi
    exact setPosAlignFrom_noFault hc (hg.inv h) (hg.cur.trans hcur) hi1 (by rw [geom_contentEnd hcc]; exact p2) hdp
  unfold allocatePreparedSlice
  rw [hcur]
  simp only
  cases rev
  · simp only [Bool.false_eq_true, ↓reduceIte, Bool.not_false] at r1 r2 r3 ⊢
    cases hup : cfg.up
    · simp only [Bool.false_eq_true, ↓reduceIte]
      obtain ⟨s1, h1⟩ := copyBytes_noFault (cfg := cfg) hd (src := ptr) (dst := ptr + cap * esize - len * esize)
        (len := len * esize) (no := false)
        (Or.inr ⟨i, c, hi, by omega, by omega⟩) (Or.inr ⟨i, c, hi, hw, by omega, by omega⟩) (fun hx => by cases hx)
      obtain ⟨s2, h2⟩ := key (copyBytes_geom h1) (pos := ptr + cap * esize - len * esize) (by omega)
        (Nat.dvd_sub ((Nat.dvd_add_right he2).2 hdc) hdl)
      simp only [h1, h2, r_ok_bind]
      exact ⟨_, _, rfl⟩
    · simp only [↓reduceIte]
      obtain ⟨s2, h2⟩ := key (SameGeom.refl s) (pos := ptr + len * esize) (by omega) ((Nat.dvd_add_right he2).2 hdl)
      simp only [h2, r_ok_bind]
      exact ⟨_, _, rfl⟩
  · have hle := hrev rfl
    simp only [↓reduceIte, Bool.not_true, Bool.false_eq_true] at r1 r2 r3 ⊢
    cases hup : cfg.up
    · simp only [Bool.false_eq_true, ↓reduceIte]
      obtain ⟨s2, h2⟩ := key (SameGeom.refl s) (pos := ptr - len * esize) (by omega) (Nat.dvd_sub he2 hdl)
      simp only [h2, r_ok_bind]
      exact ⟨_, _, rfl⟩
    · simp only [↓reduceIte]
      obtain ⟨s1, h1⟩ := copyBytes_noFault (cfg := cfg) hd (src := ptr - len * esize) (dst := ptr - cap * esize)
        (len := len * esize) (no := false)
        (Or.inr ⟨i, c, hi, by omega, by omega⟩) (Or.inr ⟨i, c, hi, hw, by omega, by omega⟩) (fun hx => by cases hx)
      obtain ⟨s2, h2⟩ := key (copyBytes_geom h1) (pos := ptr - cap * esize + len * esize) (by omega)
        ((Nat.dvd_add_right (Nat.dvd_sub he2 hdc)).2 hdl)
      simp only [h1, h2, r_ok_bind]
      exact ⟨_, _, rfl⟩

/-! ## shrink_slice -/

theorem shrinkSlice_noFault (hc : CfgOK cfg) {s : State} (h : GeomInv cfg s) (hd : ChunksDisjoint s)
    {ptr oldSize newSize ealign : Nat} (hal : P2 ealign) (hal64 : ealign < 2 ^ 64) (hap : ealign ∣ ptr)
    (hsz : newSize ≤ oldSize) (hl : LiveBlock cfg s ptr oldSize) :
    ∃ s' r, shrinkSlice cfg s ptr oldSize newSize ealign = .ok (s', r) := by
  unfold shrinkSlice
  cases hsh : cfg.shrinks
  · exact ⟨_, _, rfl⟩
  · simp only [Bool.not_true, Bool.false_eq_true, ↓reduceIte]
    cases hlast : isLast cfg s ptr oldSize
    · exact ⟨_, _, rfl⟩
    · simp only [Bool.not_true, Bool.false_eq_true, ↓reduceIte]
      obtain ⟨i, c, hcur, hi, hb1, hb2, hb3⟩ := hl.blockInCur hc h hd hlast
      have hw := h.chunks i c hi
      have hm := h.minAlign
      have hpos := isLast_pos hlast hcur hi
      have hend := hw.end_lt64
      have h16 := hw.end16 hc
      have hmle := hm.le
      have hple := hw.pos_le
      have hbs := hw.base_le_start
      have hel := hw.end_le
      rw [hcur]
      simp only
      cases hup : cfg.up
      · simp only [hup, Bool.false_eq_true, ↓reduceIte] at hpos hb3 ⊢
        have hadd : Rs.add ptr oldSize = .ok (ptr + oldSize) := add_ok' (by omega)
        have hp2 : P2 (Rs.max ealign s.minAlign) := by rw [rs_max_eq]; exact hal.max hm.p2
        have hlt : Rs.max ealign s.minAlign < 2 ^ 64 := by
          rw [rs_max_eq, Lemmas.Size.natmax]; have := hm.lt64; omega
        have hbd := lib_bump_down_eq (sz := newSize) hp2 hlt (by omega : ptr + oldSize < 2 ^ 64)
        obtain ⟨g1, g2, g3⟩ := shrink_down_core hc h hcur hi hal hal64 hap hpos hb2 hsz hadd hbd
        have hle : Spec.downAlign (ptr + oldSize - newSize) (Rs.max ealign s.minAlign) ≤ ptr + oldSize - newSize :=
          downAlign_le _ _
        obtain ⟨s1, h1⟩ := copyBytes_noFault (cfg := cfg) hd (src := ptr)
          (dst := Spec.downAlign (ptr + oldSize - newSize) (Rs.max ealign s.minAlign)) (len := newSize)
          (no := !decide (ptr + newSize > Spec.downAlign (ptr + oldSize - newSize) (Rs.max ealign s.minAlign)))
          (Or.inr ⟨i, c, hi, by omega, by omega⟩) (Or.inr ⟨i, c, hi, hw, g1, by omega⟩)
          (fun hx => by
            simp only [Bool.not_eq_true', decide_eq_false_iff_not] at hx
            left; omega)
        simp only [hadd, hbd, liftM_ok, r_ok_bind, h1]
        exact ⟨_, _, rfl⟩
      · simp only [hup, ↓reduceIte] at hpos hb3 ⊢
        have hadd : Rs.add ptr newSize = .ok (ptr + newSize) := add_ok' (by omega)
        have hua := up_align_usize_unchecked_eq (x := ptr + newSize) hm.p2 hm.lt64 (by rw [two_pow_64] at hend ⊢; omega)
        simp only [hadd, hua, liftM_ok, r_ok_bind]
        exact ⟨_, _, rfl⟩

/-! ## copying the old block into a freshly allocated one -/

/-- the old block lies in the content range of the current or an earlier chunk -/
def OldBlock (cfg : Cfg) (s : State) (ptr n : Nat) : Prop :=
  ∃ (i j : Nat) (c : Chunk), s.cur = .chunk i ∧ j ≤ i ∧ s.chunks[j]? = some c ∧
    c.contentStart cfg ≤ ptr ∧ ptr + n ≤ c.contentEnd cfg

theorem LiveBlock.old {s : State} {ptr n : Nat} (h : LiveBlock cfg s ptr n) : OldBlock cfg s ptr n := by
  obtain ⟨i, j, c, h1, h2, h3, h4, h5, _⟩ := h
  exact ⟨i, j, c, h1, h2, h3, h4, h5⟩

/-- what a copy of (a prefix of) the old block `[ptr, ptr+n)` into the new block `[np, np+m)` needs -/
structure CopyReady (cfg : Cfg) (s' : State) (ptr n np m : Nat) : Prop where
  disjoint : ChunksDisjoint s'
  src : ∃ (i : Nat) (c : Chunk), s'.chunks[i]? = some c ∧ c.base ≤ ptr ∧ ptr + n ≤ c.base + c.size
  dst : ∃ (i : Nat) (c : Chunk), s'.chunks[i]? = some c ∧ ChunkWF cfg c ∧ c.contentStart cfg ≤ np ∧ np + m ≤ c.contentEnd cfg
  apart : ptr + n ≤ np ∨ np + m ≤ ptr

theorem CopyReady.copy {s' : State} {ptr n np m len : Nat} (r : CopyReady cfg s' ptr n np m) (h1 : len ≤ n) (h2 : len ≤ m)
    (no : Bool) : ∃ s'', copyBytes cfg s' ptr np len no = .ok s'' := by
  obtain ⟨i, c, hi, a1, a2⟩ := r.src
  obtain ⟨j, d, hj, hw, b1, b2⟩ := r.dst
  apply copyBytes_noFault r.disjoint (Or.inr ⟨i, c, hi, a1, by omega⟩) (Or.inr ⟨j, d, hj, hw, b1, by omega⟩)
  intro _
  rcases r.apart with h | h
  · left; omega
  · right; omega

theorem shape_base {c c' : Chunk} (h : c'.shape = c.shape) : c'.base = c.base ∧ c'.size = c.size := by
  simp only [Chunk.shape, Prod.mk.injEq] at h
  exact ⟨h.1, h.2.1⟩

/-- content ranges of two chunks with disjoint blocks are apart -/
theorem content_apart {a b : Chunk} (ha : ChunkWF cfg a) (hb : ChunkWF cfg b)
    (hd : a.base + a.size ≤ b.base ∨ b.base + b.size ≤ a.base) {x n y m : Nat}
    (h1 : a.contentStart cfg ≤ x) (h2 : x + n ≤ a.contentEnd cfg) (h3 : b.contentStart cfg ≤ y) (h4 : y + m ≤ b.contentEnd cfg) :
    x + n ≤ y ∨ y + m ≤ x := by
  have := ha.base_le_start; have := ha.end_le; have := hb.base_le_start; have := hb.end_le
  rcases hd with h | h
  · left; omega
  · right; omega

/-- fast path: the new block lies on the free side of the position of the current chunk, the live
    block on the allocated side or in an earlier chunk -/
theorem copyReady_fast (hc : CfgOK cfg) {s : State} (h : GeomInv cfg s) (hd : ChunksDisjoint s) {L : Layout} (hL : L.Valid)
    {ptr n : Nat} (hl : LiveBlock cfg s ptr n) {v : Nat × Nat} {s' : State}
    (ht : tryCurSpec cfg .alloc s L = some (v, s')) : CopyReady cfg s' ptr n v.1 L.size := by
  obtain ⟨i, c, np, hcur, hi, hs', b1, b2, b3, b4, b5, b6⟩ := tryCurSpec_alloc_some hc h hL ht
  obtain ⟨g1, g2, _⟩ := tryCurSpec_inv hc h hL ht
  obtain ⟨i', j, cj, hcur', hji, hj, l1, l2, l3⟩ := hl
  rw [hcur] at hcur'; cases hcur'
  have hw := h.chunks i c hi
  have hwj := h.chunks j cj hj
  obtain ⟨c', hi', hsh⟩ := g2.getElem?' hi
  obtain ⟨cj', hj', hshj⟩ := g2.getElem?' hj
  have hw' := g1.chunks i c' hi'
  have hdst : c.contentStart cfg ≤ v.1 ∧ v.1 + L.size ≤ c.contentEnd cfg := by
    have := hw.pos_ge; have := hw.pos_le
    cases hup : cfg.up
    · simp only [hup, Bool.false_eq_true, ↓reduceIte] at b6; omega
    · simp only [hup, ↓reduceIte] at b6; omega
  refine ⟨g2.disjoint hd, ⟨j, cj', hj', ?_, ?_⟩, ⟨i, c', hi', hw', ?_, ?_⟩, ?_⟩
  · rw [(shape_base hshj).1]; exact Nat.le_trans hwj.base_le_start l1
  · rw [(shape_base hshj).1, (shape_base hshj).2]; exact Nat.le_trans l2 hwj.end_le
  · rw [shape_contentStart hsh]; exact hdst.1
  · rw [shape_contentEnd hsh]; exact hdst.2
  · by_cases hji' : j = i
    · subst hji'
      rw [hi] at hj; cases hj
      have l3' := l3 rfl
      cases hup : cfg.up
      · simp only [hup, Bool.false_eq_true, ↓reduceIte] at b6 l3'; right; omega
      · simp only [hup, ↓reduceIte] at b6 l3'; left; omega
    · exact content_apart hwj hw (hd j i cj c hji' hj hi) l1 l2 hdst.1 hdst.2

/-- every chunk of a list that extends `s.chunks` (by shape) with `c` is an old chunk or `c` -/
theorem append_cases {s sx : State} {c : Chunk}
    (hsh : sx.chunks.map Chunk.shape = s.chunks.map Chunk.shape ++ [Chunk.shape c]) (i : Nat) (a : Chunk)
    (ha : sx.chunks[i]? = some a) :
    (i < s.chunks.length ∧ ∃ a', s.chunks[i]? = some a' ∧ a.base = a'.base ∧ a.size = a'.size) ∨
    (i = s.chunks.length ∧ a.base = c.base ∧ a.size = c.size) := by
  have hlen : sx.chunks.length = s.chunks.length + 1 := by
    have := congrArg List.length hsh
    simpa only [List.length_map, List.length_append, List.length_cons, List.length_nil] using this
  have h1 : (sx.chunks.map Chunk.shape)[i]? = some a.shape := by rw [List.getElem?_map, ha]; rfl
  rw [hsh, List.getElem?_append, List.length_map] at h1
  by_cases hlt : i < s.chunks.length
  · rw [if_pos hlt, List.getElem?_map] at h1
    cases ha' : s.chunks[i]? with
    | none => rw [ha'] at h1; cases h1
    | some a' =>
      rw [ha'] at h1
      simp only [Option.map_some, Option.some.injEq] at h1
      have := shape_base h1.symm
      exact Or.inl ⟨hlt, a', rfl, this.1, this.2⟩
  · rw [if_neg hlt] at h1
    have hi : i = s.chunks.length := by
      have := (List.getElem?_eq_some_iff.1 ha).1
      omega
    rw [hi, Nat.sub_self] at h1
    simp only [List.getElem?_cons_zero, Option.some.injEq] at h1
    have := shape_base h1.symm
    exact Or.inr ⟨hi, this.1, this.2⟩

/-- disjointness of a chunk list extended by a chunk inside a fresh granted block -/
theorem disjoint_append {s sx : State} (hd : ChunksDisjoint s) (hf : RespsFresh s) {p g : Nat} {rest : List BaseResp}
    (hrs : s.resps = .granted p g :: rest) {c : Chunk} (hcb : c.base = p) (hcs : c.size ≤ g)
    (hsh : sx.chunks.map Chunk.shape = s.chunks.map Chunk.shape ++ [Chunk.shape c]) : ChunksDisjoint sx := by
  have hmem : BaseResp.granted p g ∈ s.resps := by rw [hrs]; exact List.mem_cons_self
  have hfresh := hf.2 p g hmem
  intro i j a b hij ha hb
  rcases append_cases hsh i a ha with ⟨hi, a', ha', e1, e2⟩ | ⟨hi, e1, e2⟩
  · rcases append_cases hsh j b hb with ⟨hj, b', hb', f1, f2⟩ | ⟨hj, f1, f2⟩
    · have := hd i j a' b' hij ha' hb'
      omega
    · have := hfresh i a' ha'
      omega
  · rcases append_cases hsh j b hb with ⟨hj, b', hb', f1, f2⟩ | ⟨hj, f1, f2⟩
    · have := hfresh j b' hb'
      omega
    · omega

/-- slow path: the new block lies in a later or in a new chunk -/
theorem copyReady_slow (hc : CfgOK cfg) {s : State} (h : GeomInv cfg s) (hd : ChunksDisjoint s) (hf : RespsFresh s)
    {L : Layout} (hL : L.Valid) {ptr n : Nat} (hl : OldBlock cfg s ptr n) {v : Nat × Nat} {s' : State}
    (hfrom : SlowFrom cfg .alloc L s s' v) : CopyReady cfg s' ptr n v.1 L.size := by
  obtain ⟨sx, hx, hxm, ht, horigin⟩ := hfrom
  obtain ⟨jx, cx, np, hxcur, hxi, hs', b1, b2, b3, b4, b5, b6⟩ := tryCurSpec_alloc_some hc hx hL ht
  obtain ⟨g1, g2, _⟩ := tryCurSpec_inv hc hx hL ht
  obtain ⟨i, j, cj, hcur, hji, hj, l1, l2⟩ := hl
  have hwx := hx.chunks jx cx hxi
  have hwj := h.chunks j cj hj
  have hdst : cx.contentStart cfg ≤ v.1 ∧ v.1 + L.size ≤ cx.contentEnd cfg := by
    have := hwx.pos_ge; have := hwx.pos_le
    cases hup : cfg.up
    · simp only [hup, Bool.false_eq_true, ↓reduceIte] at b6; omega
    · simp only [hup, ↓reduceIte] at b6; omega
  obtain ⟨cx', hxi', hshx⟩ := g2.getElem?' hxi
  have hwx' := g1.chunks jx cx' hxi'
  -- the old chunk `j` survives in `sx` with the same shape, at an index different from `jx`
  have hold : ∃ cjx, sx.chunks[j]? = some cjx ∧ cjx.base = cj.base ∧ cjx.size = cj.size ∧ j ≠ jx ∧ ChunksDisjoint sx := by
    rcases horigin with ⟨hsh, i', j', hc1, hc2, hlt⟩ | ⟨p, g, rest, c, hrs, hcb, hcs, hsh, hcx⟩
    · rw [hcur] at hc1; cases hc1
      rw [hxcur] at hc2; cases hc2
      obtain ⟨cjx, e1, e2⟩ := hsh.getElem?' hj
      exact ⟨cjx, e1, (shape_base e2).1, (shape_base e2).2, by omega, hsh.disjoint hd⟩
    · rw [hxcur] at hcx; cases hcx
      have hjlt : j < s.chunks.length := (List.getElem?_eq_some_iff.1 hj).1
      have h1 : (sx.chunks.map Chunk.shape)[j]? = some cj.shape := by
        rw [hsh, List.getElem?_append, List.length_map, if_pos hjlt, List.getElem?_map, hj]; rfl
      rw [List.getElem?_map] at h1
      cases hcjx : sx.chunks[j]? with
      | none => rw [hcjx] at h1; cases h1
      | some cjx =>
        rw [hcjx] at h1
        simp only [Option.map_some, Option.some.injEq] at h1
        exact ⟨cjx, rfl, (shape_base h1).1, (shape_base h1).2, by omega, disjoint_append hd hf hrs hcb hcs hsh⟩
  obtain ⟨cjx, e1, e2, e3, hne, hdx⟩ := hold
  obtain ⟨cj', hj', hshj⟩ := g2.getElem?' e1
  have hbs := hwj.base_le_start
  have hel := hwj.end_le
  have hxbs := hwx.base_le_start
  have hxel := hwx.end_le
  refine ⟨g2.disjoint hdx, ⟨j, cj', hj', ?_, ?_⟩, ⟨jx, cx', hxi', hwx', ?_, ?_⟩, ?_⟩
  · rw [(shape_base hshj).1, e2]; omega
  · rw [(shape_base hshj).1, (shape_base hshj).2, e2, e3]; omega
  · rw [shape_contentStart hshx]; exact hdst.1
  · rw [shape_contentEnd hshx]; exact hdst.2
  · have := hdx j jx cjx cx hne e1 hxi
    rcases this with hh | hh
    · left; omega
    · right; omega

/-! ## transfer along shape-preserving steps -/

theorem SameShape.respsFresh {s s' : State} (h : SameShape s s') (hr : s'.resps = s.resps) (hf : RespsFresh s) :
    RespsFresh s' := by
  refine ⟨hr ▸ hf.1, ?_⟩
  intro p g hm i c hc
  rw [hr] at hm
  have h1 := h.getElem? i
  rw [hc] at h1
  cases hc' : s.chunks[i]? with
  | none => rw [hc'] at h1; simp at h1
  | some c' =>
    rw [hc'] at h1
    simp only [Option.map_some, Option.some.injEq] at h1
    have := shape_base h1
    have := hf.2 p g hm i c' hc'
    omega

theorem SameShape.requestSize {s s' : State} (h : SameShape s s') (hcur : s'.cur = s.cur) (L : Layout) :
    requestSize cfg s' L = requestSize cfg s L := by
  unfold Arena.requestSize
  rw [hcur]
  cases s.cur with
  | claimed => rfl
  | unallocated => rfl
  | chunk i =>
    simp only
    have hl := h.getLast?
    cases h1 : s'.chunks.getLast? with
    | none =>
      rw [h1] at hl
      cases h2 : s.chunks.getLast? with
      | none => rfl
      | some b => rw [h2] at hl; simp at hl
    | some a =>
      rw [h1] at hl
      cases h2 : s.chunks.getLast? with
      | none => rw [h2] at hl; simp at hl
      | some b =>
        rw [h2] at hl
        simp only [Option.map_some, Option.some.injEq] at hl
        simp only [(shape_base hl).2]

theorem SameShape.baseOK {s s' : State} (h : SameShape s s') (hcur : s'.cur = s.cur) (hr : s'.resps = s.resps)
    {L : Layout} (hb : BaseOK cfg s L) : BaseOK cfg s' L := by
  intro size hs
  rw [h.requestSize hcur L] at hs
  obtain ⟨r, rest, h1, h2⟩ := hb size hs
  exact ⟨r, rest, by rw [hr]; exact h1, h2⟩

/-- chunk disjointness and freshness of the pending responses are preserved along a `Trace` -/
theorem Trace.disjoint {s s' : State} (t : Trace s s') (hd : ChunksDisjoint s) (hf : RespsFresh s) :
    ChunksDisjoint s' ∧ RespsFresh s' := by
  rcases t with ⟨t1, t2⟩ | ⟨p, g, c, t1, t2, t3, t4⟩
  · refine ⟨SameShape.disjoint t1 hd, ?_⟩
    rcases t2 with t2 | t2
    · exact SameShape.respsFresh t1 t2 hf
    · have hpc := hf.1
      rw [t2] at hpc
      have hpw := (List.pairwise_cons.1 hpc).2
      refine ⟨hpw, ?_⟩
      intro p' g' hm i c' hc'
      have h1 := SameShape.getElem? t1 i
      rw [hc'] at h1
      cases hc0 : s.chunks[i]? with
      | none => rw [hc0] at h1; simp at h1
      | some c0 =>
        rw [hc0] at h1
        simp only [Option.map_some, Option.some.injEq] at h1
        have := shape_base h1
        have := hf.2 p' g' (by rw [t2]; exact List.mem_cons_of_mem _ hm) i c0 hc0
        omega
  · refine ⟨disjoint_append hd hf t1 t2 t3 t4, ?_⟩
    have hpc := hf.1
    rw [t1] at hpc
    obtain ⟨hhead, hpw⟩ := List.pairwise_cons.1 hpc
    refine ⟨hpw, ?_⟩
    intro p' g' hm i a ha
    rcases append_cases t4 i a ha with ⟨hi, a', ha', e1, e2⟩ | ⟨hi, e1, e2⟩
    · have := hf.2 p' g' (by rw [t1]; exact List.mem_cons_of_mem _ hm) i a' ha'
      omega
    · have := hhead _ hm
      simp only at this
      omega

/-! ## the block returned by `alloc` can receive a copy of a live block -/

theorem allocGeneric_copyReady (hc : CfgOK cfg) {s : State} (h : GeomInv cfg s) (hr : RespsOK cfg s)
    (hd : ChunksDisjoint s) (hf : RespsFresh s) {L : Layout} {hints hSlow : Hints} (hL : L.Valid)
    (hh : hints.sma = true → L.align ∣ L.size) (hhs : hSlow.sma = true → L.align ∣ L.size)
    {ptr n : Nat} (hl : LiveBlock cfg s ptr n) {s' : State} {v : Nat × Nat}
    (he : allocGeneric cfg .alloc s L hints hSlow = .ok (s', .ok v)) : CopyReady cfg s' ptr n v.1 L.size := by
  unfold allocGeneric at he
  rw [tryCur_eq hc h .alloc hL hh] at he
  simp only [r_ok_bind] at he
  cases ht : tryCurSpec cfg .alloc s L with
  | none =>
    rw [ht] at he
    have := ((inAnotherChunk_ok' hc h hr .alloc hL hhs (fun hx => by cases hx)).1 s' (.ok v) he).2 v rfl
    exact copyReady_slow hc h hd hf hL hl.old this
  | some x =>
    obtain ⟨v', s1⟩ := x
    rw [ht] at he
    cases he
    exact copyReady_fast hc h hd hL hl ht

theorem alloc_copyReady (hc : CfgOK cfg) {s : State} (h : GeomInv cfg s) (hr : RespsOK cfg s)
    (hd : ChunksDisjoint s) (hf : RespsFresh s) {L : Layout} (hL : L.Valid)
    {ptr n : Nat} (hl : LiveBlock cfg s ptr n) {s' : State} {np : Nat}
    (he : alloc cfg s L = .ok (s', .ok np)) : CopyReady cfg s' ptr n np L.size := by
  unfold alloc at he
  obtain ⟨⟨s1, r1⟩, h1, h2⟩ := bind_eq_ok he
  cases r1 with
  | error e => cases h2
  | ok v =>
    cases h2
    have hcu : Hints.custom.sma = true → L.align ∣ L.size := fun hx => by cases hx
    exact allocGeneric_copyReady hc h hr hd hf hL hcu hcu hl h1

end
end Arena
